import Toodee.Spec.Cells
import Toodee.Spec.Grid
import Toodee.Impl.Recv
/-
  Spec layer: the cell functions the properties prescribe for each in-place operation (used as `gather buf (v.mapCells g)` /
  `v.updCells buf h`, see Spec/Cells.lean), and the size a view must have.  The property theorems (C03, C13–C17) state that
  the Impl-model computes exactly these; the driver's oracle evaluates them on the implementation's observations.
-/
namespace Toodee
variable {α : Type}

/-- the size the property prescribes -/
def viewSize (s e : Nat × Nat) : Nat × Nat :=
  if e.1 - s.1 = 0 ∨ e.2 - s.2 = 0 then (0, 0) else (e.1 - s.1, e.2 - s.2)

/-- cell permutation "exchange cells a and b" -/
def swapCellG (a b : Nat × Nat) : Nat × Nat → Nat × Nat := fun cr => if cr = a then b else if cr = b then a else cr

/-- cell permutation "exchange rows r1 and r2" -/
def swapRowsG (r1 r2 : Nat) : Nat × Nat → Nat × Nat := fun cr => (cr.1, swapIdx r1 r2 cr.2)

/-- cell permutation "exchange columns c1 and c2" -/
def swapColsG (c1 c2 : Nat) : Nat × Nat → Nat × Nat := fun cr => (swapIdx c1 c2 cr.1, cr.2)

/-- the two rectangles of `copy_within` fit -/
def rectsFit (C R : Nat) (tl br dest : Nat × Nat) : Prop :=
  tl.1 ≤ br.1 ∧ tl.2 ≤ br.2 ∧ br.1 ≤ C ∧ br.2 ≤ R ∧ dest.1 + (br.1 - tl.1) ≤ C ∧ dest.2 + (br.2 - tl.2) ≤ R

instance (C R : Nat) (tl br dest : Nat × Nat) : Decidable (rectsFit C R tl br dest) := by
  unfold rectsFit; infer_instance

/-- what `copy_within` must write: destination cell `(c,r)` gets the *prior* source cell at the same offset -/
def copyWithinCells (v : VW) (buf : List α) (tl br dest : Nat × Nat) : Nat × Nat → Option α := fun cr =>
  if dest.1 ≤ cr.1 ∧ cr.1 < dest.1 + (br.1 - tl.1) ∧ dest.2 ≤ cr.2 ∧ cr.2 < dest.2 + (br.2 - tl.2) then
    buf[v.pos (cr.1 - dest.1 + tl.1) (cr.2 - dest.2 + tl.2)]?
  else none

def translateG (C R mc mr : Nat) : Nat × Nat → Nat × Nat := fun cr => ((cr.1 + mc) % C, (cr.2 + mr) % R)

def flipRowsG (R : Nat) : Nat × Nat → Nat × Nat := fun cr => (cr.1, R - 1 - cr.2)

def flipColsG (C : Nat) : Nat × Nat → Nat × Nat := fun cr => (C - 1 - cr.1, cr.2)

/-- new column `j` is old column `p[j]`, on every row -/
def sortColsG (p : List Nat) : Nat × Nat → Nat × Nat := fun cr => (p.getD cr.1 cr.1, cr.2)

/-- new row `j` is old row `p[j]`, in every column -/
def sortRowsG (p : List Nat) : Nat × Nat → Nat × Nat := fun cr => (cr.1, p.getD cr.2 cr.2)

/-- what std guarantees of a side sort whatever the comparator does: caller code panicked inside it (the panic propagates), or it
    returns a permutation of the indices -/
def SideSort.Sane (side : SideSort α) : Prop :=
  ∀ keys, side keys = .error .panic ∨ ∃ p, side keys = .ok p ∧ p.Perm (List.range keys.length)

/-- an operation whose model inputs respect the contracts of the std components they stand for -/
def MOp.Sane : MOp α → Prop
  | .sortRow side _ | .sortCol side _ => side.Sane
  | _ => True

/-- a well-formed source: its array satisfies the shape invariant -/
def MOp.srcOk : MOp α → Prop
  | .copyFromTooDee src => src.arr.Inv
  | _ => True


/-! ### the specification of every mutating operation, on a receiver of any shape -/

/-- cell `(c,r)` of a grid -/
def gcell (g : List (List α)) (c r : Nat) : Option α := (g[r]?).bind (·[c]?)

/-- number of columns of a grid -/
def gcols (g : List (List α)) : Nat := (g.head?.map List.length).getD 0

/-- the grid of the same shape whose cell `(c,r)` is `f c r` -/
def gridOf (C R : Nat) (f : Nat → Nat → Option α) : List (List α) :=
  (List.range R).map fun r => (List.range C).filterMap fun c => f c r

/-- the cells the source of `copy_from_toodee` shows, as rows; `none` = constructing the source view panics -/
def CopySrc.grid? (s : CopySrc α) : Option (List (List α)) :=
  match s.window with
  | none => some s.arr.grid
  | some (tl, br) =>
    if tl.1 ≤ br.1 ∧ tl.2 ≤ br.2 ∧ br.1 ≤ s.arr.numCols ∧ br.2 ≤ s.arr.numRows then
      let sz := viewSize tl br
      some (gridOf sz.1 sz.2 fun c r => gcell s.arr.grid (tl.1 + c) (tl.2 + r))
    else none

/-- **What each mutating operation must do**, called on a receiver whose cells are the window `v` of the root buffer `buf`
    (an owned array is the window `t.asView` of its own buffer): `.error .panic` = the call is rejected (or caller code panicked
    inside a sort) and nothing is written; `.ok buf'` = the new root buffer, given in the two cell-wise forms of Spec/Cells.lean
    (so positions outside `v` are untouched by construction).  `lim` = the largest side table a sort may allocate. -/
def MOp.spec (v : VW) (lim : Nat) (buf : List α) : MOp α → Res (List α)
  | .set c r x | .setInRow r c x =>
    if c < v.numCols ∧ r < v.numRows then pure (v.updCells buf fun cr => if cr = (c, r) then some x else none) else throw .panic
  | .fill x => pure (v.updCells buf fun _ => some x)
  | .swap c1 r1 c2 r2 =>
    if c1 < v.numCols ∧ c2 < v.numCols ∧ r1 < v.numRows ∧ r2 < v.numRows then
      pure (gather buf (v.mapCells (swapCellG (c1, r1) (c2, r2))))
    else throw .panic
  | .swapRows r1 r2 =>
    if r1 < v.numRows ∧ r2 < v.numRows then pure (gather buf (v.mapCells (swapRowsG r1 r2))) else throw .panic
  | .swapCols c1 c2 =>
    if c1 < v.numCols ∧ c2 < v.numCols then pure (gather buf (v.mapCells (swapColsG c1 c2))) else throw .panic
  | .copyFromSlice src =>
    if v.numCols * v.numRows = src.length then pure (v.updCells buf fun cr => src[cr.2 * v.numCols + cr.1]?) else throw .panic
  | .copyFromTooDee src =>
    match src.grid? with
    | some sg =>
      if sg.length = v.numRows ∧ gcols sg = v.numCols then pure (v.updCells buf fun cr => gcell sg cr.1 cr.2) else throw .panic
    | none => throw .panic
  | .copyWithin tl br dest =>
    if rectsFit v.numCols v.numRows tl br dest then pure (v.updCells buf (copyWithinCells v buf tl br dest)) else throw .panic
  | .translate mc mr =>
    if mc ≤ v.numCols ∧ mr ≤ v.numRows then pure (gather buf (v.mapCells (translateG v.numCols v.numRows mc mr))) else throw .panic
  | .flipRows => pure (gather buf (v.mapCells (flipRowsG v.numRows)))
  | .flipCols => pure (gather buf (v.mapCells (flipColsG v.numCols)))
  | .sortRow side row =>
    if row < v.numRows ∧ v.numCols ≤ lim then do
      let p ← side (readWin buf (v.rowWin row))
      pure (gather buf (v.mapCells (sortColsG p)))
    else throw .panic
  | .sortCol side c =>
    if c < v.numCols ∧ v.numRows ≤ lim then do
      let p ← side ((List.range v.numRows).filterMap fun r => buf[v.pos c r]?)
      pure (gather buf (v.mapCells (sortRowsG p)))
    else throw .panic

/-- the acceptance condition of every constructor, as a Bool (used by the oracle) -/
def specShapeOk (c r : Nat) : Bool := decide ((c = 0 ↔ r = 0) ∧ c * r < WORD)

/-- C03: the window `start..end` of a parent; `none` = must panic -/
def specView (p : VW) (s e : Nat × Nat) : Option VW :=
  if s.1 ≤ e.1 ∧ s.2 ≤ e.2 ∧ e.1 ≤ p.numCols ∧ e.2 ≤ p.numRows then
    let sz := viewSize s e
    if sz.1 = 0 then some ⟨⟨p.data.off, 0⟩, 0, 0, p.stride⟩
    else some ⟨⟨p.pos s.1 s.2, (sz.2 - 1) * p.stride + sz.1⟩, sz.1, sz.2, p.stride⟩
  else none

end Toodee
