import Toodee.Spec.Cells
import Toodee.Impl.Recv
/-
  Spec layer: the cell functions the properties prescribe for each in-place operation (used as `gather buf (v.mapCells g)` /
  `v.updCells buf h`, see Spec/Cells.lean), and the size a view must have.  The property theorems (C03, C13–C17) state that
  the Impl-model computes exactly these; the driver's oracle evaluates them on the implementation's observations.
-/
namespace Toodee
variable {α : Type}

/-- the size the property prescribes -/
def viewSize (s e : Nat × Nat) : Nat × Nat :=
  if e.1 - s.1 = 0 ∨ e.2 - s.2 = 0 then (0, 0) else (e.1 - s.1, e.2 - s.2)

/-- cell permutation "exchange cells a and b" -/
def swapCellG (a b : Nat × Nat) : Nat × Nat → Nat × Nat := fun cr => if cr = a then b else if cr = b then a else cr

/-- cell permutation "exchange rows r1 and r2" -/
def swapRowsG (r1 r2 : Nat) : Nat × Nat → Nat × Nat := fun cr => (cr.1, swapIdx r1 r2 cr.2)

/-- cell permutation "exchange columns c1 and c2" -/
def swapColsG (c1 c2 : Nat) : Nat × Nat → Nat × Nat := fun cr => (swapIdx c1 c2 cr.1, cr.2)

/-- the two rectangles of `copy_within` fit -/
def rectsFit (C R : Nat) (tl br dest : Nat × Nat) : Prop :=
  tl.1 ≤ br.1 ∧ tl.2 ≤ br.2 ∧ br.1 ≤ C ∧ br.2 ≤ R ∧ dest.1 + (br.1 - tl.1) ≤ C ∧ dest.2 + (br.2 - tl.2) ≤ R

instance (C R : Nat) (tl br dest : Nat × Nat) : Decidable (rectsFit C R tl br dest) := by
  unfold rectsFit; infer_instance

/-- what `copy_within` must write: destination cell `(c,r)` gets the *prior* source cell at the same offset -/
def copyWithinCells (v : VW) (buf : List α) (tl br dest : Nat × Nat) : Nat × Nat → Option α := fun cr =>
  if dest.1 ≤ cr.1 ∧ cr.1 < dest.1 + (br.1 - tl.1) ∧ dest.2 ≤ cr.2 ∧ cr.2 < dest.2 + (br.2 - tl.2) then
    buf[v.pos (cr.1 - dest.1 + tl.1) (cr.2 - dest.2 + tl.2)]?
  else none

def translateG (C R mc mr : Nat) : Nat × Nat → Nat × Nat := fun cr => ((cr.1 + mc) % C, (cr.2 + mr) % R)

def flipRowsG (R : Nat) : Nat × Nat → Nat × Nat := fun cr => (cr.1, R - 1 - cr.2)

def flipColsG (C : Nat) : Nat × Nat → Nat × Nat := fun cr => (C - 1 - cr.1, cr.2)

/-- new column `j` is old column `p[j]`, on every row -/
def sortColsG (p : List Nat) : Nat × Nat → Nat × Nat := fun cr => (p.getD cr.1 cr.1, cr.2)

/-- new row `j` is old row `p[j]`, in every column -/
def sortRowsG (p : List Nat) : Nat × Nat → Nat × Nat := fun cr => (cr.1, p.getD cr.2 cr.2)

/-- what std guarantees of a side sort whatever the comparator does: caller code panicked inside it (the panic propagates), or it
    returns a permutation of the indices -/
def SideSort.Sane (side : SideSort α) : Prop :=
  ∀ keys, side keys = .error .panic ∨ ∃ p, side keys = .ok p ∧ p.Perm (List.range keys.length)

/-- an operation whose model inputs respect the contracts of the std components they stand for -/
def MOp.Sane : MOp α → Prop
  | .sortRow side _ | .sortCol side _ => side.Sane
  | _ => True

/-- a well-formed source: its array satisfies the shape invariant -/
def MOp.srcOk : MOp α → Prop
  | .copyFromTooDee src => src.arr.Inv
  | _ => True

/-- the acceptance condition of every constructor, as a Bool (used by the oracle) -/
def specShapeOk (c r : Nat) : Bool := decide ((c = 0 ↔ r = 0) ∧ c * r < WORD)

/-- C03: the window `start..end` of a parent; `none` = must panic -/
def specView (p : VW) (s e : Nat × Nat) : Option VW :=
  if s.1 ≤ e.1 ∧ s.2 ≤ e.2 ∧ e.1 ≤ p.numCols ∧ e.2 ≤ p.numRows then
    let sz := viewSize s e
    if sz.1 = 0 then some ⟨⟨p.data.off, 0⟩, 0, 0, p.stride⟩
    else some ⟨⟨p.pos s.1 s.2, (sz.2 - 1) * p.stride + sz.1⟩, sz.1, sz.2, p.stride⟩
  else none

end Toodee
