import Toodee.Spec.Inv
import Toodee.Spec.Seq
import Toodee.Impl.Flatten
/-
  Abstraction functions of the cursors: which ideal sequence a cursor state stands for, and the cursor
  invariants ("the remaining slice starts and ends on a full row / on a cell of the column").
-/
namespace Toodee

/-- the `k` remaining row windows of a row cursor -/
def Rows.abs (it : Rows) (k : Nat) : List Win :=
  (List.range k).map fun j => ⟨it.v.off + j * (it.cols + it.skip), it.cols⟩

/-- cursor invariant of `Rows`/`RowsMut` with `k` rows left inside a root buffer of `n` cells -/
structure Rows.WF (it : Rows) (k n : Nat) : Prop where
  cols_pos : k ≠ 0 → 0 < it.cols
  len : it.v.len = if k = 0 then 0 else (k - 1) * (it.cols + it.skip) + it.cols
  inside : it.v.off + it.v.len ≤ n
  stride_word : it.cols + it.skip < WORD
  word : n < WORD

/-- the `k` remaining cell positions of a column cursor -/
def Col.abs (it : Col) (k : Nat) : List Nat :=
  (List.range k).map fun j => it.v.off + j * (1 + it.skip)

/-- cursor invariant of `Col`/`ColMut` with `k` cells left -/
structure Col.WF (it : Col) (k n : Nat) : Prop where
  len : it.v.len = if k = 0 then 0 else (k - 1) * (1 + it.skip) + 1
  inside : it.v.off + it.v.len ≤ n
  stride_word : 1 + it.skip < WORD
  word : n < WORD

/-- cursor words run on the Impl-model of `Rows` -/
def Rows.step (m : Mode) (it : Rows) : Seq.Op → Res (Seq.Out Win × Rows)
  | .next => do let (x, it') ← it.next; pure (.item x, it')
  | .nextBack => do let (x, it') ← it.nextBack m; pure (.item x, it')
  | .nth n => do let (x, it') ← it.nth m n; pure (.item x, it')
  | .nthBack n => do let (x, it') ← it.nthBack m n; pure (.item x, it')
  | .len => do let k ← it.sizeHint m; pure (.num k, it)

def Rows.run (m : Mode) : Rows → List Seq.Op → Res (List (Seq.Out Win) × Rows)
  | it, [] => pure ([], it)
  | it, o :: os => do
    let (x, it') ← it.step m o
    let (xs, it'') ← Rows.run m it' os
    pure (x :: xs, it'')

def Col.step (m : Mode) (it : Col) : Seq.Op → Res (Seq.Out Nat × Col)
  | .next => do let (x, it') ← it.next; pure (.item x, it')
  | .nextBack => do let (x, it') ← it.nextBack m; pure (.item x, it')
  | .nth n => do let (x, it') ← it.nth m n; pure (.item x, it')
  | .nthBack n => do let (x, it') ← it.nthBack m n; pure (.item x, it')
  | .len => do let k ← it.sizeHint m; pure (.num k, it)

def Col.run (m : Mode) : Col → List Seq.Op → Res (List (Seq.Out Nat) × Col)
  | it, [] => pure ([], it)
  | it, o :: os => do
    let (x, it') ← it.step m o
    let (xs, it'') ← Col.run m it' os
    pure (x :: xs, it'')

/-- two windows share no position -/
def Win.Disjoint (a b : Win) : Prop := a.off + a.len ≤ b.off ∨ b.off + b.len ≤ a.off

end Toodee

namespace Toodee

def optPositions : Option Win → List Nat
  | some w => w.positions
  | none => []

def optLen : Option Win → Nat
  | some w => w.len
  | none => 0

/-- the cells a `FlattenExact` cursor still has to visit: the partly consumed front row, the `k` untouched rows, the
    partly consumed back row -/
def Flat.abs (s : Flat) (k : Nat) : List Nat :=
  optPositions s.front ++ ((s.iter.abs k).map Win.positions).flatten ++ optPositions s.back

/-- cursor invariant of `Cells`/`CellsMut` -/
structure Flat.WF (s : Flat) (k n : Nat) : Prop where
  rows : s.iter.WF k n
  front : ∀ w, s.front = some w → w.off + w.len ≤ n
  back : ∀ w, s.back = some w → w.off + w.len ≤ n
  total : optLen s.front + k * s.iter.cols + optLen s.back ≤ n
  cols_zero : s.iter.cols = 0 → optLen s.front = 0 ∧ optLen s.back = 0

def Flat.step (m : Mode) (fuel : Nat) (s : Flat) : Seq.Op → Res (Seq.Out Nat × Flat)
  | .next => do let (x, s') ← s.next fuel; pure (.item x, s')
  | .nextBack => do let (x, s') ← s.nextBack m fuel; pure (.item x, s')
  | .nth n => do let (x, s') ← s.nth m n; pure (.item x, s')
  | .nthBack n => do let (x, s') ← s.nthBack m n; pure (.item x, s')
  | .len => do let k ← s.sizeHint m; pure (.num k, s)

def Flat.run (m : Mode) (fuel : Nat) : Flat → List Seq.Op → Res (List (Seq.Out Nat) × Flat)
  | s, [] => pure ([], s)
  | s, o :: os => do
    let (x, s') ← s.step m fuel o
    let (xs, s'') ← Flat.run m fuel s' os
    pure (x :: xs, s'')

end Toodee
