import Toodee.Spec.Grid
import Toodee.Spec.Seq
import Toodee.Spec.OpsSpec
import Toodee.Impl.Recv
import Toodee.Impl.Insert
import Toodee.Impl.Remove
/-
  Histories of safe public operations on an owned array (properties C01, C05, C11, C12 at history level):
  * `HOp`     one call of the public API with arbitrary (valid or invalid) arguments, including how far a drain is consumed before
              it is dropped or leaked, iterator scripts that lie or panic, and side sorts whose caller code panics;
  * `hstep`   the Impl-model: the array afterwards (also after a rejected call or a panic in caller code);
  * `hres`    the Impl-model: the outcome the caller sees (`ok` / `panic`; `ub` and `fuel` are proved impossible, C01_no_ub);
  * `gstep`   the plain rows-of-cells model of the same call (the refinement target of C01);
  * `hflow`   where elements come from and go to during the call (C05).
-/
namespace Toodee
variable {α : Type}

/-- one safe public operation on an owned array, with arbitrary (valid or invalid) arguments -/
inductive HOp (α : Type)
  | fromVec (c r : Nat) (v : List α)                          -- `t = TooDee::from_vec(c, r, v)` (rejected: `t` unchanged, `v` dropped)
  | newArr (c r : Nat) (d : α)                                -- `t = TooDee::new(c, r)` (`d` = `T::default()`)
  | initArr (c r : Nat) (v : α)                               -- `t = TooDee::init(c, r, v)`
  | insertRow (i : Nat) (it : IterScript α) (spare : List α)  -- any iterator script; `spare` = the cells `reserve` provided
  | insertCol (i : Nat) (it : IterScript α) (spare : List α)
  | removeRow (i : Nat) (w : List Bool)                       -- the drain is consumed along `w` (true = `next`, false = `next_back`), then dropped
  | removeCol (i : Nat) (w : List Bool)
  | popRow (w : List Bool)
  | popCol (w : List Bool)
  | removeRowLeak (i : Nat) (w : List Bool)                   -- … consumed along `w`, then leaked (`mem::forget`)
  | removeColLeak (i : Nat) (w : List Bool)
  | clear
  | swapDimensions
  | capacityCall (additional : Option Nat)                    -- `reserve(k)` / `reserve_exact(k)` (`some k`); `shrink_to_fit` / `capacity` (`none`)
  | takeInto (k : Nat)                                        -- `mem::take(&mut t).into_iter()`, `k` items pulled, the rest dropped with
                                                              --   the iterator (`into_vec` / `into_box`: everything handed over)
  | inplace (op : MOp α)                                      -- every `TooDeeOpsMut` / `CopyOps` / `SortOps` / `TranslateOps` method and
                                                              --   indexed writes, as dispatched on `TooDee` (Impl/Recv.lean)
  | viaView (s e : Nat × Nat) (ops : List (MOp α))            -- `{ let mut v = t.view_mut(s, e); v.op1(..); v.op2(..); … }`: a block of
                                                              --   calls on a mutable view of the array (dispatched on `TooDeeViewMut`)

/-- the allocator honoured `reserve`: the spare cells cover what the operation asked for -/
def HOp.spareOk : HOp α → Prop
  | .insertRow _ it spare => it.claimed ≤ spare.length
  | .insertCol _ it spare => it.claimed ≤ spare.length
  | _ => True

/-- model inputs respect the contracts of the components they stand for: the allocator honoured `reserve`, a side sort panics or
    returns a permutation, the source of a `copy_from_toodee` is a valid array -/
def HOp.wf : HOp α → Prop
  | .inplace op => op.Sane ∧ op.srcOk
  | .viaView s e ops => (s.1 < WORD ∧ s.2 < WORD ∧ e.1 < WORD ∧ e.2 < WORD) ∧ ∀ op ∈ ops, op.Sane ∧ op.srcOk
  | op => op.spareOk

/-- build environment of a history: profile, how many elements a `Vec<T>` can hold, how many entries a sort's side table can hold -/
structure HEnv where
  m : Mode
  cap : Nat
  lim : Nat

/-- environments that exist: the `Vec` limit is below 2^64 -/
def HEnv.ok (e : HEnv) : Prop := e.cap < WORD

/-- keep the dimensions, replace the data when the in-place operation succeeded -/
def TD.withData (t : TD α) (r : Res (List α)) : TD α :=
  match r with
  | .ok d => { t with data := d }
  | .error _ => t

/-- the array after one operation (Impl-model) -/
def hstep (e : HEnv) (t : TD α) : HOp α → TD α
  | .fromVec c r v => match TD.fromVec c r v with | .ok t' => t' | .error _ => t
  | .newArr c r d => match TD.new e.cap c r d with | .ok t' => t' | .error _ => t
  | .initArr c r v => match TD.init e.cap c r v with | .ok t' => t' | .error _ => t
  | .insertRow i it spare => (t.insertRow e.m e.cap i it spare).t
  | .insertCol i it spare => (t.insertCol e.m e.cap i it spare).t
  | .removeRow i w => match t.removeRow e.m i with | .ok d => (d.run w).2.drop.1 | .error _ => t
  | .removeCol i w =>
    match (do let d ← t.removeCol e.m i; let (_, d') ← d.run e.m w; d'.drop e.m : Res (TD α × List α)) with
    | .ok (t', _) => t'
    | .error _ => t
  | .popRow w =>
    match t.popRow e.m with
    | .ok (some d) => (d.run w).2.drop.1
    | _ => t
  | .popCol w =>
    match (do
      match ← t.popCol e.m with
      | some d => do let (_, d') ← d.run e.m w; let r ← d'.drop e.m; pure (some r)
      | none => pure none : Res (Option (TD α × List α))) with
    | .ok (some (t', _)) => t'
    | _ => t
  | .removeRowLeak i w => match t.removeRow e.m i with | .ok d => (d.run w).2.leak.1 | .error _ => t
  | .removeColLeak i w =>
    match (do let d ← t.removeCol e.m i; let (_, d') ← d.run e.m w; pure d'.leak : Res (TD α × List α)) with
    | .ok (t', _) => t'
    | .error _ => t
  | .clear => t.clear
  | .swapDimensions => t.swapDimensions
  | .capacityCall _ => t
  | .takeInto _ => TD.default
  | .inplace op => t.withData ((Recv.root t).run e.m e.lim t.data op)
  | .viaView s e' ops =>
    match VW.fromTooDee e.m s e' t with
    | .ok v => { t with data := ((Recv.vmut v).runKeep e.m e.lim t.data ops).1 }
    | .error _ => t

/-- the outcome the caller sees -/
def hres (e : HEnv) (t : TD α) : HOp α → Res Unit
  | .fromVec c r v => (TD.fromVec c r v).map fun _ => ()
  | .newArr c r d => (TD.new e.cap c r d).map fun _ => ()
  | .initArr c r v => (TD.init e.cap c r v).map fun _ => ()
  | .insertRow i it spare => (t.insertRow e.m e.cap i it spare).res
  | .insertCol i it spare => (t.insertCol e.m e.cap i it spare).res
  | .removeRow i _ | .removeRowLeak i _ => (t.removeRow e.m i).map fun _ => ()
  | .removeCol i w => do let d ← t.removeCol e.m i; let (_, d') ← d.run e.m w; let _ ← d'.drop e.m; pure ()
  | .removeColLeak i w => do let d ← t.removeCol e.m i; let _ ← d.run e.m w; pure ()
  | .popRow _ => (t.popRow e.m).map fun _ => ()
  | .popCol w => do
    match ← t.popCol e.m with
    | some d => do let (_, d') ← d.run e.m w; let _ ← d'.drop e.m; pure ()
    | none => pure ()
  | .capacityCall (some k) => if reserveOk e.cap t.data.length k then pure () else throw .panic      -- "capacity overflow"
  | .clear | .swapDimensions | .capacityCall none | .takeInto _ => pure ()
  | .inplace op => ((Recv.root t).run e.m e.lim t.data op).map fun _ => ()
  | .viaView s e' ops => do
    let v ← VW.fromTooDee e.m s e' t
    ((Recv.vmut v).runKeep e.m e.lim t.data ops).2

/-- the array after a history -/
def hrun (e : HEnv) (t : TD α) (ops : List (HOp α)) : TD α := ops.foldl (hstep e) t

/-! ### the rows-of-cells model -/

/-- the grid whose cell `(c,r)` is the old cell `f (c,r)` -/
def gridPerm (g : List (List α)) (f : Nat × Nat → Nat × Nat) : List (List α) :=
  (List.range g.length).map fun r => (List.range ((g.head?.map List.length).getD 0)).filterMap fun c => gcell g (f (c, r)).1 (f (c, r)).2

/-- the plain model of an in-place operation on rows-of-cells: `some g'` = it succeeds with result `g'`; `some g` unchanged = it is
    rejected or caller code panicked before anything was written; `none` = the side sort broke its contract (not a permutation) -/
def gstepM (g : List (List α)) : MOp α → Option (List (List α))
  | .set c r x => if c < gcols g ∧ r < g.length then some (g.mapIdx fun r' ρ => if r' = r then ρ.set c x else ρ) else some g
  | .setInRow r c x => if c < gcols g ∧ r < g.length then some (g.mapIdx fun r' ρ => if r' = r then ρ.set c x else ρ) else some g
  | .fill x => some (g.map fun ρ => ρ.map fun _ => x)
  | .swap c1 r1 c2 r2 =>
    if c1 < gcols g ∧ c2 < gcols g ∧ r1 < g.length ∧ r2 < g.length then some (gridPerm g (swapCellG (c1, r1) (c2, r2))) else some g
  | .swapRows r1 r2 => if r1 < g.length ∧ r2 < g.length then some (gridPerm g (swapRowsG r1 r2)) else some g
  | .swapCols c1 c2 => if c1 < gcols g ∧ c2 < gcols g then some (gridPerm g (swapColsG c1 c2)) else some g
  | .copyFromSlice src => if gcols g * g.length = src.length then some (toRows (gcols g) src) else some g
  | .copyFromTooDee src =>
    match src.grid? with
    | some sg => if sg.length = g.length ∧ gcols sg = gcols g then some sg else some g
    | none => some g
  | .copyWithin tl br dest =>
    if rectsFit (gcols g) g.length tl br dest then
      some (gridOf (gcols g) g.length fun c r =>
        if dest.1 ≤ c ∧ c < dest.1 + (br.1 - tl.1) ∧ dest.2 ≤ r ∧ r < dest.2 + (br.2 - tl.2) then
          gcell g (c - dest.1 + tl.1) (r - dest.2 + tl.2)
        else gcell g c r)
    else some g
  | .translate mc mr =>
    if mc ≤ gcols g ∧ mr ≤ g.length then some (gridPerm g (translateG (gcols g) g.length mc mr)) else some g
  | .flipRows => some g.reverse
  | .flipCols => some (g.map List.reverse)
  | .sortRow side row =>
    if row < g.length then
      match side (g[row]?.getD []) with
      | .ok p => if p.Perm (List.range (gcols g)) then some (gridPerm g (sortColsG p)) else none
      | .error _ => some g
    else some g
  | .sortCol side col =>
    if col < gcols g then
      match side (g.filterMap (·[col]?)) with
      | .ok p => if p.Perm (List.range g.length) then some (gridPerm g (sortRowsG p)) else none
      | .error _ => some g
    else some g

/-- the plain model accepts the call: its arguments are valid and the caller code inside a sort does not panic -/
def MOp.gok (g : List (List α)) : MOp α → Bool
  | .set c r _ | .setInRow r c _ => decide (c < gcols g ∧ r < g.length)
  | .fill _ | .flipRows | .flipCols => true
  | .swap c1 r1 c2 r2 => decide (c1 < gcols g ∧ c2 < gcols g ∧ r1 < g.length ∧ r2 < g.length)
  | .swapRows r1 r2 => decide (r1 < g.length ∧ r2 < g.length)
  | .swapCols c1 c2 => decide (c1 < gcols g ∧ c2 < gcols g)
  | .copyFromSlice src => decide (gcols g * g.length = src.length)
  | .copyFromTooDee src =>
    match src.grid? with
    | some sg => decide (sg.length = g.length ∧ gcols sg = gcols g)
    | none => false
  | .copyWithin tl br dest => decide (rectsFit (gcols g) g.length tl br dest)
  | .translate mc mr => decide (mc ≤ gcols g ∧ mr ≤ g.length)
  | .sortRow side row => decide (row < g.length) && (match side (g[row]?.getD []) with | .ok _ => true | .error _ => false)
  | .sortCol side col => decide (col < gcols g) && (match side (g.filterMap (·[col]?)) with | .ok _ => true | .error _ => false)

/-- a block of calls on one receiver in the plain model: the first call that is not accepted ends the block (its panic propagates
    out of the caller's block); what the earlier calls did stays -/
def gblock : List (List α) → List (MOp α) → Option (List (List α))
  | g, [] => some g
  | g, op :: ops => if op.gok g then (gstepM g op).bind fun g' => gblock g' ops else some g

/-- the plain model's step (`none`: an iterator script that panics or lies about its length — the property leaves the outcome of
    those open beyond "a valid array", C11 — or a side sort that broke its contract) -/
def gstep (g : List (List α)) : HOp α → Option (List (List α))
  | .insertRow i it _ =>
    let xs := it.events.filterMap id
    let C := gcols g
    if it.events.all Option.isSome ∧ it.claimed = xs.length then
      if g = [] then some (if i = 0 ∧ xs ≠ [] then [xs] else [])       -- the index must still be `≤ num_rows = 0`
      else if i ≤ g.length ∧ xs.length = C then some (g.insertIdx i xs) else some g
    else none
  | .insertCol i it _ =>
    let xs := it.events.filterMap id
    let C := gcols g
    if it.events.all Option.isSome ∧ it.claimed = xs.length then
      if g = [] then some (if i = 0 then xs.map (fun x => [x]) else [])
      else if i ≤ C ∧ xs.length = g.length then some (List.zipWith (insAt i) g xs) else some g
    else none
  | .removeRow i _ => some (g.eraseIdx i)
  | .removeCol i _ =>
    let C := gcols g
    if i < C then (if C = 1 then some [] else some (g.map fun ρ => ρ.eraseIdx i)) else some g
  | .popRow _ => some g.dropLast
  | .popCol _ =>
    let C := gcols g
    if C = 0 then some g else if C = 1 then some [] else some (g.map fun ρ => ρ.eraseIdx (C - 1))
  | .removeRowLeak i _ => if i < g.length then some (g.take i) else some g    -- the rows before `i` survive
  | .removeColLeak i _ => if i < gcols g then some [] else some g             -- nothing survives
  | .clear => some []
  | .capacityCall _ => some g
  | .takeInto _ => some []
  | .fromVec c r v => if specShapeOk c r ∧ c * r = v.length then some (toRows c v) else some g
  | .newArr c r d | .initArr c r d => if specShapeOk c r then some (toRows c (List.replicate (c * r) d)) else some g
  | .swapDimensions => some (toRows g.length g.flatten)          -- same cells, rows of the old `num_rows` cells each
  | .inplace op => gstepM g op
  | .viaView s e ops =>
    if s.1 ≤ e.1 ∧ s.2 ≤ e.2 ∧ e.1 ≤ gcols g ∧ e.2 ≤ g.length then
      -- cut the window out, run the block on it as on an array of its own, put the result back
      let sz := viewSize s e
      let sub := gridOf sz.1 sz.2 fun c r => gcell g (s.1 + c) (s.2 + r)
      (gblock sub ops).map fun sub' =>
        gridOf (gcols g) g.length fun c r =>
          if s.1 ≤ c ∧ c < s.1 + sz.1 ∧ s.2 ≤ r ∧ r < s.2 + sz.2 then gcell sub' (c - s.1) (r - s.2) else gcell g c r
    else some g

/-- the plain model over a history -/
def grun : List (List α) → List (HOp α) → Option (List (List α))
  | g, [] => some g
  | g, op :: ops => (gstep g op).bind fun g' => grun g' ops

/-- the side conditions of a refinement step, along a history: the allocator honoured `reserve`, the grown array still fits a `Vec`
    (otherwise `reserve` panics with "capacity overflow": the plain model has no capacity), a sorted line fits the side table, and a
    `copy_from_toodee` source is a valid array -/
def HOp.fits (e : HEnv) (t : TD α) : HOp α → Prop
  | .insertRow _ it _ => t.data.length + it.claimed ≤ e.cap
  | .insertCol _ it _ => t.data.length + it.claimed ≤ e.cap
  | .inplace (.sortRow _ _) => t.numCols ≤ e.lim
  | .inplace (.sortCol _ _) => t.numRows ≤ e.lim
  | .inplace op => op.srcOk
  | .viaView s e' ops =>                                          -- a sorted line of the window fits the side table
    ∀ op ∈ ops, match op with
      | .sortRow _ _ => (viewSize s e').1 ≤ e.lim
      | .sortCol _ _ => (viewSize s e').2 ≤ e.lim
      | _ => True
  | .newArr c r _ | .initArr c r _ => c * r ≤ e.cap               -- the plain model has no capacity
  | .capacityCall (some k) => t.data.length + k ≤ e.cap
  | _ => True

/-- the requests the plain model cannot express, stated outright: more cells than a `Vec<T>` holds, or a sorted line longer than
    a side table (`C01_over_capacity_rejected`: each is rejected with a panic and leaves the array as it was) -/
def HOp.overCap (e : HEnv) (t : TD α) : HOp α → Prop
  | .insertRow _ it _ | .insertCol _ it _ => e.cap < t.data.length + it.claimed
  | .inplace (.sortRow _ _) => e.lim < t.numCols
  | .inplace (.sortCol _ _) => e.lim < t.numRows
  | .newArr c r _ | .initArr c r _ => e.cap < c * r
  | .capacityCall (some k) => e.cap < t.data.length + k
  | _ => False

def hfits (e : HEnv) : TD α → List (HOp α) → Prop
  | _, [] => True
  | t, op :: ops => op.spareOk ∧ op.fits e t ∧ hfits e (hstep e t op) ops

/-! ### element flow of one operation (for the conservation law C05 over histories) -/

/-- where elements come from and go to during one call -/
structure Flow (α : Type) where
  supplied : List α := []     -- taken from the caller (by value), or created by the crate on the caller's behalf (clones)
  handed : List α := []       -- handed (back) to the caller: yielded by a drain / `into_iter`, or still in the caller's iterator
  dropped : List α := []      -- dropped by the crate (or by std on its behalf) during the call
  leaked : List α := []       -- alive but owned by nobody afterwards

def Flow.append (a b : Flow α) : Flow α :=
  ⟨a.supplied ++ b.supplied, a.handed ++ b.handed, a.dropped ++ b.dropped, a.leaked ++ b.leaked⟩

/-- the cells of an owned array an overwrite `f` replaces, and the values it writes (row-major) -/
def TD.overwritten (t : TD α) (f : Nat × Nat → Option α) : List α :=
  (List.range t.data.length).filterMap fun p => (t.asView.coord? p).bind fun cr => (f cr).bind fun _ => t.data[p]?
def TD.written (t : TD α) (f : Nat × Nat → Option α) : List α :=
  (List.range t.data.length).filterMap fun p => (t.asView.coord? p).bind f

/-- the cell function of each overwriting in-place operation when it succeeds (`none` = not an overwrite / rejected) -/
def MOp.cellsWritten (t : TD α) : MOp α → Option (Nat × Nat → Option α)
  | .set c r x | .setInRow r c x => if c < t.numCols ∧ r < t.numRows then some (fun cr => if cr = (c, r) then some x else none) else none
  | .fill x => some (fun _ => some x)
  | .copyFromSlice src => if t.data.length = src.length then some (fun cr => src[cr.2 * t.numCols + cr.1]?) else none
  | .copyFromTooDee src =>
    match src.grid? with
    | some sg => if sg.length = t.numRows ∧ gcols sg = t.numCols then some (fun cr => gcell sg cr.1 cr.2) else none
    | none => none
  | .copyWithin tl br dest =>
    if rectsFit t.numCols t.numRows tl br dest then some (copyWithinCells t.asView t.data tl br dest) else none
  | _ => none

/-- flow of an in-place operation: permutations move nothing in or out; an overwrite takes the written values from the caller
    (clones / copies made on its behalf) and drops the cells it replaces; a rejected `set` drops the value it was given -/
def mflow (t : TD α) (op : MOp α) : Flow α :=
  match op.cellsWritten t with
  | some f =>
    -- `fill(x)` on an empty array: `x` itself is taken and dropped
    let extra := match op with | .fill x => if t.data.length = 0 then [x] else [] | _ => []
    { supplied := t.written f ++ extra, dropped := t.overwritten f ++ extra }
  | none =>
    match op with
    | .set _ _ x | .setInRow _ _ x => { supplied := [x], dropped := [x] }
    | _ => {}

/-- the same for a receiver that is a window `v` of root buffer `buf` (a mutable view) -/
def VW.overwritten (v : VW) (buf : List α) (f : Nat × Nat → Option α) : List α :=
  (List.range buf.length).filterMap fun p => (v.coord? p).bind fun cr => (f cr).bind fun _ => buf[p]?
def VW.written (v : VW) (n : Nat) (f : Nat × Nat → Option α) : List α :=
  (List.range n).filterMap fun p => (v.coord? p).bind f

def MOp.cellsWrittenV (v : VW) (buf : List α) : MOp α → Option (Nat × Nat → Option α)
  | .set c r x | .setInRow r c x => if c < v.numCols ∧ r < v.numRows then some (fun cr => if cr = (c, r) then some x else none) else none
  | .fill x => some (fun _ => some x)
  | .copyFromSlice src => if v.numCols * v.numRows = src.length then some (fun cr => src[cr.2 * v.numCols + cr.1]?) else none
  | .copyFromTooDee src =>
    match src.grid? with
    | some sg => if sg.length = v.numRows ∧ gcols sg = v.numCols then some (fun cr => gcell sg cr.1 cr.2) else none
    | none => none
  | .copyWithin tl br dest =>
    if rectsFit v.numCols v.numRows tl br dest then some (copyWithinCells v buf tl br dest) else none
  | _ => none

/-- flow of one in-place call on a view: as `mflow`; the default `fill` clones once per row and drops the value it was given, so on
    a view the given `x` itself is always taken and dropped -/
def vflow (v : VW) (buf : List α) (op : MOp α) : Flow α :=
  match op.cellsWrittenV v buf with
  | some f =>
    let extra := match op with | .fill x => [x] | _ => []
    { supplied := v.written buf.length f ++ extra, dropped := v.overwritten buf f ++ extra }
  | none =>
    match op with
    | .set _ _ x | .setInRow _ _ x => { supplied := [x], dropped := [x] }
    | _ => {}

/-- flow of a block of calls on a view: the calls that ran, in order; the call that panicked (if any) only gives back what it was
    handed -/
def vflowRun (m : Mode) (lim : Nat) (v : VW) : List α → List (MOp α) → Flow α
  | _, [] => {}
  | buf, op :: ops =>
    match (Recv.vmut v).run m lim buf op with
    | .ok b => (vflow v buf op).append (vflowRun m lim v b ops)
    | .error _ => (match op with | .set _ _ x | .setInRow _ _ x => { supplied := [x], dropped := [x] } | _ => {})

/-- the elements one operation takes from the caller and the elements that leave the array during it -/
def hflow (e : HEnv) (t : TD α) : HOp α → Flow α
  | .fromVec c r v => match TD.fromVec c r v with | .ok _ => { supplied := v, dropped := t.data } | .error _ => { supplied := v, dropped := v }
  | .newArr c r d => match TD.new e.cap c r d with | .ok t' => { supplied := t'.data, dropped := t.data } | .error _ => {}
  | .initArr c r v =>
    -- `vec![v; n]`: `n-1` clones and `v` itself; `vec![v; 0]` (and a rejected call) drops `v`
    match TD.init e.cap c r v with
    | .ok t' => { supplied := t'.data ++ (if t'.data.length = 0 then [v] else []), dropped := t.data ++ (if t'.data.length = 0 then [v] else []) }
    | .error _ => { supplied := [v], dropped := [v] }
  | .insertRow i it spare =>
    let o := t.insertRow e.m e.cap i it spare
    { supplied := it.events.filterMap id, handed := o.rest.filterMap id, leaked := o.leaked }
  | .insertCol i it spare =>
    let o := t.insertCol e.m e.cap i it spare
    { supplied := it.events.filterMap id, handed := o.rest.filterMap id, leaked := o.leaked }
  | .removeRow i w =>
    match t.removeRow e.m i with
    | .ok d => let r := d.run w; { handed := r.1, dropped := r.2.drop.2 }
    | .error _ => {}
  | .removeRowLeak i w =>
    match t.removeRow e.m i with
    | .ok d => let r := d.run w; { handed := r.1, leaked := r.2.leak.2 }
    | .error _ => {}
  | .removeCol i w =>
    match (do let d ← t.removeCol e.m i; let (ys, d') ← d.run e.m w; let r ← d'.drop e.m; pure (ys, r.2) : Res (List α × List α)) with
    | .ok (ys, dropped) => { handed := ys, dropped := dropped }
    | .error _ => {}
  | .removeColLeak i w =>
    match (do let d ← t.removeCol e.m i; let (ys, d') ← d.run e.m w; pure (ys, d'.leak.2) : Res (List α × List α)) with
    | .ok (ys, leaked) => { handed := ys, leaked := leaked }
    | .error _ => {}
  | .popRow w =>
    match t.popRow e.m with
    | .ok (some d) => let r := d.run w; { handed := r.1, dropped := r.2.drop.2 }
    | _ => {}
  | .popCol w =>
    match (do
      match ← t.popCol e.m with
      | some d => do let (ys, d') ← d.run e.m w; let r ← d'.drop e.m; pure (ys, r.2)
      | none => pure ([], []) : Res (List α × List α)) with
    | .ok (ys, dropped) => { handed := ys, dropped := dropped }
    | .error _ => {}
  | .clear => { dropped := t.data }
  | .takeInto k => { handed := t.data.take k, dropped := t.data.drop k }
  | .inplace op =>
    match (Recv.root t).run e.m e.lim t.data op with
    | .ok _ => mflow t op
    | .error _ => (match op with | .set _ _ x | .setInRow _ _ x => { supplied := [x], dropped := [x] } | _ => {})
  | .viaView s e' ops =>
    match VW.fromTooDee e.m s e' t with
    | .ok v => vflowRun e.m e.lim v t.data ops
    | .error _ => {}
  | _ => {}                                                       -- capacity calls, swap_dimensions

/-- the flow of a whole history -/
def hflowRun (e : HEnv) : TD α → List (HOp α) → Flow α
  | _, [] => {}
  | t, op :: ops => (hflow e t op).append (hflowRun e (hstep e t op) ops)

/-- an operation during which no caller code panics, no iterator lies and nothing is forgotten -/
def HOp.honest : HOp α → Prop
  | .insertRow _ it _ | .insertCol _ it _ => it.events.all Option.isSome ∧ it.claimed = it.events.length
  | .removeRowLeak _ _ | .removeColLeak _ _ => False
  | _ => True

end Toodee
