import Toodee.Spec.Grid
import Toodee.Spec.OpsSpec
import Toodee.Impl.Copy
import Toodee.Impl.Sort
import Toodee.Impl.Translate
/-
  Histories of safe public operations on an owned array (property C01): an operation type, the Impl-model's step
  function (`hstep`: what the array is afterwards — also after a rejected call or a panic in caller code), and the
  rows-of-cells model's step function (`gstep`).
-/
namespace Toodee
variable {α : Type}

/-- one safe public operation on an owned array, with arbitrary (valid or invalid) arguments -/
inductive HOp (α : Type)
  | fromVec (c r : Nat) (v : List α)                                   -- replace by a freshly constructed array (rejected: unchanged)
  | insertRow (i : Nat) (it : IterScript α) (spare : List α)           -- any iterator script; `spare` = what `reserve` provided
  | insertCol (i : Nat) (it : IterScript α) (spare : List α)
  | removeRow (i : Nat)                                                -- the drain consumed to any extent, then dropped
  | removeCol (i : Nat)
  | popRow
  | popCol
  | clear
  | swapDimensions
  | capacityCall                                                       -- reserve / reserve_exact / shrink_to_fit / capacity
  | fill (x : α)
  | swap (c1 r1 c2 r2 : Nat)
  | swapRows (r1 r2 : Nat)
  | swapCols (c1 c2 : Nat)
  | copyFromSlice (src : List α)
  | translate (mc mr : Nat)
  | flipRows
  | flipCols
  | sortByRow (le : α → α → Bool) (row : Nat)
  | sortByCol (le : α → α → Bool) (col : Nat)

/-- the allocator honoured `reserve`: the spare cells cover what the operation asked for -/
def HOp.spareOk : HOp α → Prop
  | .insertRow _ it spare => it.claimed ≤ spare.length
  | .insertCol _ it spare => it.claimed ≤ spare.length
  | _ => True

/-- the grown array still fits a `Vec` (otherwise `reserve` panics with "capacity overflow" and the array is unchanged) -/
def HOp.fits (n : Nat) : HOp α → Prop
  | .insertRow _ it _ => n + it.claimed < WORD - 1
  | .insertCol _ it _ => n + it.claimed < WORD - 1
  | _ => True

/-- capacity bound used by the histories: any `Vec` capacity limit below 2^64 -/
def histCap : Nat := WORD - 1

/-- keep the dimensions, replace the data when the in-place operation succeeded -/
def TD.withData (t : TD α) (r : Res (List α)) : TD α :=
  match r with
  | .ok d => { t with data := d }
  | .error _ => t

/-- the array after one operation (Impl-model) -/
def hstep (m : Mode) (t : TD α) : HOp α → TD α
  | .fromVec c r v => match TD.fromVec c r v with | .ok t' => t' | .error _ => t
  | .insertRow i it spare => (t.insertRow m histCap i it spare).t
  | .insertCol i it spare => (t.insertCol m histCap i it spare).t
  | .removeRow i => match t.removeRow m i with | .ok d => d.drop.1 | .error _ => t
  | .removeCol i =>
    match t.removeCol m i with
    | .ok d => (match d.drop m with | .ok (t', _) => t' | .error _ => t)
    | .error _ => t
  | .popRow =>
    match t.popRow m with
    | .ok (some d) => d.drop.1
    | _ => t
  | .popCol =>
    match t.popCol m with
    | .ok (some d) => (match d.drop m with | .ok (t', _) => t' | .error _ => t)
    | _ => t
  | .clear => t.clear
  | .swapDimensions => t.swapDimensions
  | .capacityCall => t
  | .fill x => { t with data := t.fill x }
  | .swap c1 r1 c2 r2 => t.withData (t.swap m c1 r1 c2 r2)
  | .swapRows r1 r2 => t.withData (t.swapRows m r1 r2)
  | .swapCols c1 c2 => t.withData (t.acc.swapCols t.data c1 c2)
  | .copyFromSlice src => t.withData (t.copyFromSlice src)
  | .translate mc mr => t.withData (t.acc.translateWithWrap m (t.getUncheckedRow m) t.data (mc, mr))
  | .flipRows => t.withData (t.acc.flipRows m t.data)
  | .flipCols => t.withData (t.acc.flipCols t.data)
  | .sortByRow le row => t.withData (t.acc.sortByRow (t.indexRow m) t.data le row)
  | .sortByCol le col => t.withData (t.acc.sortByCol (t.col m) (fun b r1 r2 => ({ t with data := b } : TD α).swapRows m r1 r2) t.data le col)

/-- the array after a history -/
def hrun (m : Mode) (t : TD α) (ops : List (HOp α)) : TD α := ops.foldl (hstep m) t

/-! ### the rows-of-cells model -/

/-- cell `(c,r)` of a grid -/
def gcell (g : List (List α)) (c r : Nat) : Option α := (g[r]?).bind (·[c]?)

/-- the grid whose cell `(c,r)` is the old cell `f (c,r)` -/
def gridPerm (g : List (List α)) (f : Nat × Nat → Nat × Nat) : List (List α) :=
  (List.range g.length).map fun r => (List.range ((g.head?.map List.length).getD 0)).filterMap fun c => gcell g (f (c, r)).1 (f (c, r)).2

/-- the plain model's step: every operation of `HOp` on rows-of-cells (`none` only for iterator scripts that panic or lie about
    their length: the property leaves the outcome of those open beyond "a valid array", C11) -/
def gstep (g : List (List α)) : HOp α → Option (List (List α))
  | .insertRow i it _ =>
    let xs := it.events.filterMap id
    let C := (g.head?.map List.length).getD 0
    if it.events.all Option.isSome ∧ it.claimed = xs.length then
      if g = [] then some (if i = 0 ∧ xs ≠ [] then [xs] else [])       -- the index must still be `≤ num_rows = 0`
      else if i ≤ g.length ∧ xs.length = C then some (g.insertIdx i xs) else some g
    else none
  | .insertCol i it _ =>
    let xs := it.events.filterMap id
    let C := (g.head?.map List.length).getD 0
    if it.events.all Option.isSome ∧ it.claimed = xs.length then
      if g = [] then some (if i = 0 then xs.map (fun x => [x]) else [])
      else if i ≤ C ∧ xs.length = g.length then some (List.zipWith (insAt i) g xs) else some g
    else none
  | .removeRow i => some (g.eraseIdx i)
  | .removeCol i =>
    let C := (g.head?.map List.length).getD 0
    if i < C then (if C = 1 then some [] else some (g.map fun ρ => ρ.eraseIdx i)) else some g
  | .popRow => some g.dropLast
  | .popCol =>
    let C := (g.head?.map List.length).getD 0
    if C = 0 then some g else if C = 1 then some [] else some (g.map fun ρ => ρ.eraseIdx (C - 1))
  | .clear => some []
  | .capacityCall => some g
  | .fill x => some (g.map fun ρ => ρ.map fun _ => x)
  | .swapRows r1 r2 =>
    if r1 < g.length ∧ r2 < g.length then some (gridPerm g (swapRowsG r1 r2)) else some g
  | .swapCols c1 c2 =>
    let C := (g.head?.map List.length).getD 0
    if c1 < C ∧ c2 < C then some (gridPerm g (swapColsG c1 c2)) else some g
  | .flipRows => some g.reverse
  | .flipCols => some (g.map List.reverse)
  | .fromVec c r v => if specShapeOk c r ∧ c * r = v.length then some (toRows c v) else some g
  | .swapDimensions => some (toRows g.length g.flatten)          -- same cells, rows of the old `num_rows` cells each
  | .swap c1 r1 c2 r2 =>
    let C := (g.head?.map List.length).getD 0
    if c1 < C ∧ c2 < C ∧ r1 < g.length ∧ r2 < g.length then some (gridPerm g (swapCellG (c1, r1) (c2, r2))) else some g
  | .copyFromSlice src =>
    let C := (g.head?.map List.length).getD 0
    if C * g.length = src.length then some (toRows C src) else some g
  | .translate mc mr =>
    let C := (g.head?.map List.length).getD 0
    if mc ≤ C ∧ mr ≤ g.length then some (gridPerm g (translateG C g.length mc mr)) else some g
  | .sortByRow le row =>
    if row < g.length then some (gridPerm g (sortColsG (stablePerm le (g[row]?.getD [])))) else some g
  | .sortByCol le col =>
    let C := (g.head?.map List.length).getD 0
    if col < C then some (gridPerm g (sortRowsG (stablePerm le (g.filterMap (·[col]?))))) else some g

/-! ### element flow of one operation (for the conservation law C05 over histories) -/

/-- the elements one operation takes from the caller (`supplied`) and the elements that leave the array during it
    (`removed`: handed to the caller through a drain or back in the unconsumed iterator, dropped by the crate, or leaked) -/
def hflow (m : Mode) (t : TD α) : HOp α → List α × List α
  | .fromVec c r v => match TD.fromVec c r v with | .ok _ => (v, t.data) | .error _ => (v, v)
  | .insertRow i it spare =>
    let o := t.insertRow m histCap i it spare
    (it.events.filterMap id, o.leaked ++ o.rest.filterMap id)
  | .insertCol i it spare =>
    let o := t.insertCol m histCap i it spare
    (it.events.filterMap id, o.leaked ++ o.rest.filterMap id)
  | .removeRow i => match t.removeRow m i with | .ok d => ([], d.items) | .error _ => ([], [])
  | .removeCol i =>
    match t.removeCol m i with
    | .ok d => (match d.drop m with | .ok (_, dropped) => ([], dropped) | .error _ => ([], []))
    | .error _ => ([], [])
  | .popRow => match t.popRow m with | .ok (some d) => ([], d.items) | _ => ([], [])
  | .popCol =>
    match t.popCol m with
    | .ok (some d) => (match d.drop m with | .ok (_, dropped) => ([], dropped) | .error _ => ([], []))
    | _ => ([], [])
  | .clear => ([], t.data)
  | .fill x => (List.replicate t.data.length x, t.data)          -- one clone per cell; every old cell is dropped
  | .copyFromSlice src => match t.copyFromSlice src with | .ok _ => (src, t.data) | .error _ => ([], [])
  | _ => ([], [])                                                 -- pure permutations, capacity calls, swap_dimensions

/-- the elements supplied / removed over a whole history -/
def hflowRun (m : Mode) : TD α → List (HOp α) → List α × List α
  | _, [] => ([], [])
  | t, op :: ops =>
    let f := hflow m t op
    let rest := hflowRun m (hstep m t op) ops
    (f.1 ++ rest.1, f.2 ++ rest.2)

end Toodee
