/-
  Spec layer: the ideal double-ended exact-size sequence.  An iterator over a known list of items `l`
  (remaining items, front first).  Each operation returns its result and the remaining list.
-/
namespace Toodee.Seq
variable {ι : Type}

def next (l : List ι) : Option ι × List ι := (l.head?, l.tail)
def nextBack (l : List ι) : Option ι × List ι := (l.getLast?, l.dropLast)
/-- `nth(n)`: skip `n` items, yield the next -/
def nth (l : List ι) (n : Nat) : Option ι × List ι := (l[n]?, l.drop (n + 1))
/-- `nth_back(n)`: skip `n` items from the back, yield the next from the back -/
def nthBack (l : List ι) (n : Nat) : Option ι × List ι :=
  (if n < l.length then l[l.length - 1 - n]? else none, l.take (l.length - (n + 1)))
def len (l : List ι) : Nat := l.length
def last (l : List ι) : Option ι := l.getLast?

/-- a non-consuming cursor operation -/
inductive Op
  | next | nextBack | nth (n : Nat) | nthBack (n : Nat) | len
deriving Repr, DecidableEq

/-- what an operation reports -/
inductive Out (ι : Type)
  | item (x : Option ι)
  | num (n : Nat)
deriving Repr, DecidableEq

def step (l : List ι) : Op → Out ι × List ι
  | .next => let (x, r) := next l; (.item x, r)
  | .nextBack => let (x, r) := nextBack l; (.item x, r)
  | .nth n => let (x, r) := nth l n; (.item x, r)
  | .nthBack n => let (x, r) := nthBack l n; (.item x, r)
  | .len => (.num l.length, l)

/-- trace of a word of operations, and the items left afterwards -/
def run : List ι → List Op → List (Out ι) × List ι
  | l, [] => ([], l)
  | l, o :: os =>
    let (x, l') := step l o
    let (xs, l'') := run l' os
    (x :: xs, l'')

/-- the ideal sequence by counting: whether an operation yields an item and how many items are left afterwards depend only on
    the number of items (used by the oracle for arrays too large to enumerate; C08_counting) -/
def cstep (n : Nat) : Op → Bool × Nat
  | .next | .nextBack => (decide (0 < n), n - 1)
  | .nth k | .nthBack k => (decide (k < n), n - (k + 1))
  | .len => (false, n)

/-- consume from either end along a word (`true` = `next`, `false` = `next_back`): the items yielded, in order, and what is left -/
def ends : List ι → List Bool → List ι × List ι
  | l, [] => ([], l)
  | l, b :: w =>
    let (x, l') := if b then next l else nextBack l
    let (ys, l'') := ends l' w
    (x.toList ++ ys, l'')

def Op.small : Op → Prop
  | .nth n | .nthBack n => n < 18446744073709551616
  | _ => True

end Toodee.Seq
