import Toodee.Spec.Inv
import Toodee.Impl.Insert
import Toodee.Impl.Remove
/-
  Spec layer: the rows-of-cells model.  A grid is a list of equal-length rows; an owned array's grid is its
  buffer cut into `num_rows` rows of `num_cols` cells.
-/
namespace Toodee
variable {α : Type}

/-- cut a row-major buffer into rows of `c` cells (`c = 0` gives no rows) -/
def toRows (c : Nat) (data : List α) : List (List α) :=
  (List.range (data.length / c)).map fun r => (data.drop (r * c)).take c

/-- the rows-of-cells model of an owned array -/
def TD.grid (t : TD α) : List (List α) := toRows t.numCols t.data

/-- a row with `x` inserted at column `i` -/
def insAt (i : Nat) (ρ : List α) (x : α) : List α := ρ.take i ++ x :: ρ.drop i

/-- a caller iterator that is honest about its length and never panics -/
def honest (xs : List α) : IterScript α := ⟨xs.length, xs.map some⟩

end Toodee
