import Toodee.Spec.Inv
import Toodee.Spec.IterAbs
import Toodee.Base.Buf
import Toodee.Impl.Ops
/-
  Spec layer for in-place operations.  A receiver is a window `v : VW` of the root buffer (an owned array is the
  window `t.asView`).  The effect of an operation is stated *pointwise on cells*:

  * a pure permutation is `gather buf (v.mapCells g)`: the new cell `(c,r)` is the old cell `g (c,r)`, and every position
    that is not a cell of `v` keeps its content (`mapCells` is the identity there) — the frame condition of C04 is built in;
  * an overwrite is `v.updCells buf h`: cell `(c,r)` becomes `h (c,r)` where that is `some _`, everything else is kept.
-/
namespace Toodee
variable {α : Type}

/-- the cell of `v` that lives at root position `p`, if any -/
def VW.coord? (v : VW) (p : Nat) : Option (Nat × Nat) :=
  if v.data.off ≤ p ∧ 0 < v.stride then
    let q := p - v.data.off
    if q % v.stride < v.numCols ∧ q / v.stride < v.numRows then some (q % v.stride, q / v.stride) else none
  else none

/-- position map of a cell permutation `g` of the view: identity outside the view -/
def VW.mapCells (v : VW) (g : Nat × Nat → Nat × Nat) : Nat → Nat := fun p =>
  match v.coord? p with
  | some cr => v.pos (g cr).1 (g cr).2
  | none => p

/-- overwrite some cells of the view -/
def VW.updCells (v : VW) (buf : List α) (h : Nat × Nat → Option α) : List α :=
  buf.mapIdx fun p x =>
    match v.coord? p with
    | some cr => (h cr).getD x
    | none => x

/-- transposition of two indices -/
def swapIdx (a b i : Nat) : Nat := if i = a then b else if i = b then a else i

/-- `a` is what the trait defaults see of the receiver `v` (root buffer of `n` cells): its dimensions and a well-formed
    row cursor standing for `v`'s row windows.  Provided by C08_rows_owned / C08_rows_view. -/
structure Acc.Of (a : Acc) (v : VW) (n : Nat) : Prop where
  cols : a.numCols = v.numCols
  rows : a.numRows = v.numRows
  wf : a.rows.WF v.numRows n
  abs : a.rows.abs v.numRows = (List.range v.numRows).map fun r => ⟨v.pos 0 r, v.numCols⟩

/-- the row window of row `r` -/
def VW.rowWin (v : VW) (r : Nat) : Win := ⟨v.pos 0 r, v.numCols⟩

end Toodee
