import Toodee.Impl.Iter
/-
  Spec layer, part 1: the invariants ("what every `get_unchecked` in the crate silently assumes") and the
  cell-position functions that the properties are stated with.
-/
namespace Toodee
variable {α : Type}

/-- The shape invariant of an owned array (property C01): the buffer length is the product of the dimensions,
    both dimensions are zero or neither is, and the length fits a `usize`. -/
structure TD.Inv (t : TD α) : Prop where
  len : t.data.length = t.numCols * t.numRows
  zero : t.numCols = 0 ↔ t.numRows = 0
  word : t.data.length < WORD

/-- position (in `data`) of cell `(col,row)` of an owned array: row-major -/
def TD.pos (t : TD α) (col row : Nat) : Nat := row * t.numCols + col

/-- The invariant of a view over a root buffer of `n` cells: rows are `stride ≥ num_cols` apart, the borrowed
    slice starts at the first cell and ends at the last cell of the window, and lies inside the buffer. -/
structure VW.Inv (v : VW) (n : Nat) : Prop where
  stride : v.numCols ≤ v.stride
  zero : v.numCols = 0 ↔ v.numRows = 0
  len : v.data.len = if v.numRows = 0 then 0 else (v.numRows - 1) * v.stride + v.numCols
  inside : v.data.off + v.data.len ≤ n
  word : n < WORD
  stride_word : v.stride < WORD      -- `stride` is a `usize`

/-- absolute position (in the root buffer) of cell `(col,row)` of a view -/
def VW.pos (v : VW) (col row : Nat) : Nat := v.data.off + row * v.stride + col

/-- an owned array seen as a view of its own buffer -/
def TD.asView (t : TD α) : VW := ⟨t.win, t.numCols, t.numRows, t.numCols⟩

end Toodee
