import Toodee.Impl.Ops
/-
  Impl-model of `TranslateOps` (src/translate.rs).  `rotate_left`, `swap_with_slice`, `reverse` are std
  components modelled by their specification.
-/
namespace Toodee
variable {α : Type}

/-- `slice::rotate_left(mid)` (std): panics if `mid > len` -/
def rotateLeftWin (buf : List α) (w : Win) (mid : Nat) : Res (List α) :=
  if mid ≤ w.len then pure (gather buf (rotlMap w mid)) else throw .panic

/-- `a.swap_with_slice(b)` (std): panics on different lengths -/
def swapWithSlice (buf : List α) (a b : Win) : Res (List α) :=
  if a.len = b.len then pure (gather buf (swapWinMap a b)) else throw .panic

/-- the rotate-while-swapping step src/translate.rs:99-107 -/
def swapRotate (m : Mode) (a : Acc) (buf : List α) (baseRow nextRow mid numCols : Nat) : Res (List α) := do
  let (baseRef, nextRef) ← a.rowPairMut m baseRow nextRow
  let buf ←
    if mid > 0 then do
      let x ← baseRef.getTo mid
      let s ← usub m numCols mid
      let y ← nextRef.getRange s numCols
      swapWithSlice buf x y
    else pure buf
  if mid < numCols then do
    let x ← baseRef.getRange mid numCols
    let e ← usub m numCols mid
    let y ← nextRef.getTo e
    swapWithSlice buf x y
  else pure buf

/-- inner `loop` src/translate.rs:80-116; returns `(buf, swap_count)`.  Fuelled. -/
def translateInner (m : Mode) (a : Acc) (getRowMut : Nat → Res Win) (numCols numRows colMid rowMid rowAdj baseRow : Nat) :
    Nat → List α → Nat → Nat → Nat → Res (List α × Nat)
  | 0, _, _, _, _ => throw .fuel
  | fuel + 1, buf, mid, nextRow, swapCount => do
    let nextRow ← if nextRow ≥ numRows then usub m nextRow numRows else pure nextRow
    let swapCount ← uadd m swapCount 1
    if baseRow = nextRow then
      if mid > 0 then do
        let w ← getRowMut baseRow
        let buf ← rotateLeftWin buf w mid
        pure (buf, swapCount)
      else pure (buf, swapCount)
    else do
      let buf ← swapRotate m a buf baseRow nextRow mid numCols
      let mid ← uadd m mid colMid
      let mid ← if mid ≥ numCols then usub m mid numCols else pure mid
      -- post-fix: advance modulo `num_rows` without forming `next_row + row_adj_abs` when that could exceed `num_rows`
      let nextRow ← if nextRow ≥ rowMid then usub m nextRow rowMid else uadd m nextRow rowAdj
      translateInner m a getRowMut numCols numRows colMid rowMid rowAdj baseRow fuel buf mid nextRow swapCount

/-- outer `while` src/translate.rs:74-127.  Fuelled. -/
def translateOuter (m : Mode) (a : Acc) (getRowMut : Nat → Res Win) (numCols numRows colMid rowMid rowAdj : Nat) :
    Nat → List α → Nat → Nat → Res (List α)
  | 0, _, _, _ => throw .fuel
  | fuel + 1, buf, swapCount, baseRow =>
    if swapCount < numRows then do
      let nextRow ← uadd m baseRow rowAdj
      let (buf, swapCount) ← translateInner m a getRowMut numCols numRows colMid rowMid rowAdj baseRow (numRows + 2) buf colMid nextRow swapCount
      if swapCount ≥ numRows then pure buf
      else do
        let baseRow ← uadd m baseRow 1
        translateOuter m a getRowMut numCols numRows colMid rowMid rowAdj fuel buf swapCount baseRow
    else pure buf

/-- `translate_with_wrap` src/translate.rs:37-129.  `getRowMut` = the implementor's `get_unchecked_row_mut`. -/
def Acc.translateWithWrap (m : Mode) (a : Acc) (getRowMut : Nat → Res Win) (buf : List α) (mid : Nat × Nat) :
    Res (List α) := do
  let numCols := a.numCols
  let numRows := a.numRows
  if ¬ mid.1 ≤ numCols then throw .panic
  if ¬ mid.2 ≤ numRows then throw .panic
  let colMid := if mid.1 = numCols then 0 else mid.1
  let rowMid := if mid.2 = numRows then 0 else mid.2
  if rowMid = 0 then
    if colMid ≠ 0 then do
      let rows ← a.rows.collect (a.rows.v.len + 2)
      rows.foldlM (fun b r => rotateLeftWin b r colMid) buf
    else pure buf
  else do
    let rowAdj ← usub m numRows rowMid
    translateOuter m a getRowMut numCols numRows colMid rowMid rowAdj (numRows + 2) buf 0 0

/-- `flip_rows` src/translate.rs:143-148: `while let (Some(r1), Some(r2)) = (iter.next(), iter.next_back())`.  Fuelled. -/
def flipRowsLoop (m : Mode) : Nat → Rows → List α → Res (List α)
  | 0, _, _ => throw .fuel
  | fuel + 1, it, buf => do
    let (x, it) ← it.next
    let (y, it) ← it.nextBack m
    match x, y with
    | some r1, some r2 => do
      let buf ← swapWithSlice buf r1 r2
      flipRowsLoop m fuel it buf
    | _, _ => pure buf

def Acc.flipRows (m : Mode) (a : Acc) (buf : List α) : Res (List α) :=
  flipRowsLoop m (a.rows.v.len + 2) a.rows buf

/-- `flip_cols` src/translate.rs:160-164 -/
def Acc.flipCols (a : Acc) (buf : List α) : Res (List α) := do
  let rows ← a.rows.collect (a.rows.v.len + 2)
  pure (rows.foldl (fun b r => gather b (revMap r)) buf)

end Toodee
