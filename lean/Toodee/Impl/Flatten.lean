import Toodee.Impl.Iter
/-
  Impl-model of `FlattenExact` (src/flattenexact.rs) instantiated with `Rows` / `RowsMut`
  (`Cells` / `CellsMut`).  The inner iterators are `core::slice::Iter{,Mut}` over a row window; they
  are std components modelled by their specification (`SliceIter`).
-/
namespace Toodee

/-! `core::slice::Iter` / `IterMut` over a window: an ideal double-ended exact-size cursor (std, assumed). -/
namespace SliceIter
def next (w : Win) : Option Nat × Win :=
  if w.len = 0 then (none, w) else (some w.off, ⟨w.off + 1, w.len - 1⟩)
def nextBack (w : Win) : Option Nat × Win :=
  if w.len = 0 then (none, w) else (some (w.off + (w.len - 1)), ⟨w.off, w.len - 1⟩)
def nth (w : Win) (n : Nat) : Option Nat × Win :=
  if n < w.len then (some (w.off + n), ⟨w.off + n + 1, w.len - n - 1⟩) else (none, ⟨w.off + w.len, 0⟩)
def nthBack (w : Win) (n : Nat) : Option Nat × Win :=
  if n < w.len then (some (w.off + (w.len - 1 - n)), ⟨w.off, w.len - 1 - n⟩) else (none, ⟨w.off, 0⟩)
end SliceIter

/-- src/flattenexact.rs:9-18 -/
structure Flat where
  iter : Rows
  front : Option Win
  back : Option Win
deriving Repr, DecidableEq

namespace Flat

/-- `FlattenExact::new` src/flattenexact.rs:26-28 -/
def new (it : Rows) : Flat := ⟨it, none, none⟩

/-- `next` src/flattenexact.rs:40-52 (the `loop` is fuelled) -/
def next : Nat → Flat → Res (Option Nat × Flat)
  | 0, _ => throw .fuel
  | fuel + 1, s =>
    let tryFront : Option Nat × Flat :=
      match s.front with
      | some w => let (x, w') := SliceIter.next w; (x, { s with front := some w' })
      | none => (none, s)
    match tryFront with
    | (some p, s') => pure (some p, s')
    | (none, s') => do
      let (r, it') ← s'.iter.next
      match r with
      | none =>
        match s'.back with
        | none => pure (none, { s' with iter := it' })
        | some w => let (x, w') := SliceIter.next w; pure (x, { s' with iter := it', back := some w' })
      | some inner => next fuel { s' with iter := it', front := some inner }

/-- `next_back` src/flattenexact.rs:129-141 -/
def nextBack (m : Mode) : Nat → Flat → Res (Option Nat × Flat)
  | 0, _ => throw .fuel
  | fuel + 1, s =>
    let tryBack : Option Nat × Flat :=
      match s.back with
      | some w => let (x, w') := SliceIter.nextBack w; (x, { s with back := some w' })
      | none => (none, s)
    match tryBack with
    | (some p, s') => pure (some p, s')
    | (none, s') => do
      let (r, it') ← s'.iter.nextBack m
      match r with
      | none =>
        match s'.front with
        | none => pure (none, { s' with iter := it' })
        | some w => let (x, w') := SliceIter.nextBack w; pure (x, { s' with iter := it', front := some w' })
      | some inner => nextBack m fuel { s' with iter := it', back := some inner }

/-- `size_hint` src/flattenexact.rs:55-60 (`len()` returns the same number) -/
def sizeHint (m : Mode) (s : Flat) : Res Nat := do
  let rows ← s.iter.sizeHint m
  let len ← umul m s.iter.cols rows
  let len ← uadd m len (match s.front with | some w => w.len | none => 0)
  let len ← uadd m len (match s.back with | some w => w.len | none => 0)
  pure len

/-- `nth` src/flattenexact.rs:68-98 -/
def nth (m : Mode) (s : Flat) (n : Nat) : Res (Option Nat × Flat) :=
  let numCols := s.iter.cols
  if numCols = 0 then pure (none, s)
  else
    -- front iterator
    let r1 : Sum (Option Nat × Flat) (Nat × Flat) :=
      match s.front with
      | some inner =>
        if n < inner.len then
          let (x, w') := SliceIter.nth inner n
          .inl (x, { s with front := some w' })
        else .inr (n - inner.len, { s with front := none })
      | none => .inr (n, s)
    match r1 with
    | .inl res => pure res
    | .inr (n, s) => do
      let rowsLeft ← s.iter.sizeHint m
      let iterSkip := min rowsLeft (n / numCols)
      let (r, it') ← s.iter.nth m iterSkip
      match r with
      | some inner => do
        let k ← umul m iterSkip numCols
        let n ← usub m n k
        if m = .debug ∧ ¬ n < inner.len then throw .panic   -- debug_assert!(n < tmp.len())
        let (x, w') := SliceIter.nth inner n
        pure (x, { s with iter := it', front := some w' })
      | none => do
        let k ← umul m iterSkip numCols
        let n ← usub m n k
        match s.back with
        | none => pure (none, { s with iter := it' })
        | some w =>
          let (x, w') := SliceIter.nth w n
          pure (x, { s with iter := it', back := some w' })

/-- `nth_back` src/flattenexact.rs:144-174 -/
def nthBack (m : Mode) (s : Flat) (n : Nat) : Res (Option Nat × Flat) :=
  let numCols := s.iter.cols
  if numCols = 0 then pure (none, s)
  else
    let r1 : Sum (Option Nat × Flat) (Nat × Flat) :=
      match s.back with
      | some inner =>
        if n < inner.len then
          let (x, w') := SliceIter.nthBack inner n
          .inl (x, { s with back := some w' })
        else .inr (n - inner.len, { s with back := none })
      | none => .inr (n, s)
    match r1 with
    | .inl res => pure res
    | .inr (n, s) => do
      let rowsLeft ← s.iter.sizeHint m
      let iterSkip := min rowsLeft (n / numCols)
      let (r, it') ← s.iter.nthBack m iterSkip
      match r with
      | some inner => do
        let k ← umul m iterSkip numCols
        let n ← usub m n k
        if m = .debug ∧ ¬ n < inner.len then throw .panic
        let (x, w') := SliceIter.nthBack inner n
        pure (x, { s with iter := it', back := some w' })
      | none => do
        let k ← umul m iterSkip numCols
        let n ← usub m n k
        match s.front with
        | none => pure (none, { s with iter := it' })
        | some w =>
          let (x, w') := SliceIter.nthBack w n
          pure (x, { s with iter := it', front := some w' })

/-- `last` src/flattenexact.rs:63-65 -/
def last (m : Mode) (fuel : Nat) (s : Flat) : Res (Option Nat) := do
  let (x, _) ← nextBack m fuel s
  pure x

/-- `fold` src/flattenexact.rs:102-118: front, then every remaining row (via `Rows::fold`), then back. -/
def collect (fuel : Nat) (s : Flat) : Res (List Nat) := do
  let rows ← s.iter.collect fuel
  let f := match s.front with | some w => w.positions | none => []
  let b := match s.back with | some w => w.positions | none => []
  pure (f ++ (rows.map Win.positions).flatten ++ b)

/-- `rfold` src/flattenexact.rs:178-194 -/
def collectBack (m : Mode) (fuel : Nat) (s : Flat) : Res (List Nat) := do
  let rows ← s.iter.collectBack m fuel
  let f := match s.front with | some w => w.positions.reverse | none => []
  let b := match s.back with | some w => w.positions.reverse | none => []
  pure (b ++ (rows.map fun w => w.positions.reverse).flatten ++ f)

end Flat
end Toodee
