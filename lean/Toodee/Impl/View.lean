import Toodee.Impl.TooDee
/-
  Impl-model of `TooDeeView` / `TooDeeViewMut` (src/view.rs).

  A view is `{data: &[T], num_cols, num_rows, stride}`; here `data` is a window `(off,len)` into the root
  buffer.  `TooDeeView` and `TooDeeViewMut` duplicate most method bodies verbatim in the Rust; where the text
  is identical one Lean definition transcribes all copies and its docstring lists every site (a change to one
  copy shows up as a correspondence disagreement for that receiver kind).
-/
namespace Toodee

/-- src/view.rs:99-104 (`TooDeeView`), 256-261 (`TooDeeViewMut`) -/
structure VW where
  data : Win
  numCols : Nat
  numRows : Nat
  stride : Nat
deriving Repr, DecidableEq

/-- `calculate_view_dimensions` src/view.rs:13-35.
    `pc`,`pr` = the parent's `num_cols()`, `num_rows()`.  Returns `(num_cols, num_rows, range.start, range.end)`. -/
def calcViewDims (m : Mode) (s e : Nat × Nat) (pc pr stride : Nat) : Res (Nat × Nat × Nat × Nat) := do
  if ¬ e.1 ≥ s.1 then throw .panic
  if ¬ e.2 ≥ s.2 then throw .panic
  if ¬ e.1 ≤ pc then throw .panic
  if ¬ e.2 ≤ pr then throw .panic
  if ¬ stride ≥ pc then throw .panic
  let numCols ← usub m e.1 s.1
  let numRows ← usub m e.2 s.2
  if numCols = 0 ∨ numRows = 0 then
    -- an empty view borrows nothing
    pure (0, 0, 0, 0)
  else do
    let a ← umul m s.2 stride
    let dataStart ← uadd m a s.1
    let dataLen ←
      if numRows = 0 then pure 0
      else do
        let r1 ← usub m numRows 1
        let b ← umul m r1 stride
        uadd m b numCols
    let dataEnd ← uadd m dataStart dataLen
    pure (numCols, numRows, dataStart, dataEnd)

namespace VW

/-- `TooDeeView::new` src/view.rs:126-138 (`&data[..size]`, checked) -/
def newShared (c r : Nat) (slice : Win) : Res VW :=
  if !TD.zeroRuleOk c r then throw .panic
  else match cmul c r with
    | none => throw .panic
    | some size =>
      if ¬ size ≤ slice.len then throw .panic
      else do
        let d ← slice.indexTo size
        pure ⟨d, c, r, c⟩

/-- `TooDeeViewMut::new` src/view.rs:284-298 (`get_unchecked_mut(..size)`) -/
def newMut (c r : Nat) (slice : Win) : Res VW :=
  if !TD.zeroRuleOk c r then throw .panic
  else match cmul c r with
    | none => throw .panic
    | some size =>
      if ¬ size ≤ slice.len then throw .panic
      else do
        let d ← slice.getTo size
        pure ⟨d, c, r, c⟩

/-- `TooDeeView::from_toodee` src/view.rs:141-152 and `TooDeeViewMut::from_toodee` 301-312
    (identical up to `_mut`): stride = the array's `num_cols`, unchecked slicing of `toodee.data()`. -/
def fromTooDee {α : Type} (m : Mode) (s e : Nat × Nat) (t : TD α) : Res VW := do
  let stride := t.numCols
  let (c, r, a, b) ← calcViewDims m s e t.numCols t.numRows stride
  let d ← t.win.getRange a b
  pure ⟨d, c, r, stride⟩

/-- `TooDeeView::view` src/view.rs:167-177 and `TooDeeViewMut::view_mut` 387-397 (unchecked slicing of `self.data`) -/
def view (m : Mode) (v : VW) (s e : Nat × Nat) : Res VW := do
  let (c, r, a, b) ← calcViewDims m s e v.numCols v.numRows v.stride
  let d ← v.data.getRange a b
  pure ⟨d, c, r, v.stride⟩

/-- `TooDeeViewMut::view` src/view.rs:327-335 (checked slicing `&self.data[range]`) -/
def viewChecked (m : Mode) (v : VW) (s e : Nat × Nat) : Res VW := do
  let (c, r, a, b) ← calcViewDims m s e v.numCols v.numRows v.stride
  let d ← v.data.indexRange a b
  pure ⟨d, c, r, v.stride⟩

/-- `Index<usize>` src/view.rs:231-237 (`TooDeeView`), 488-494 and `IndexMut<usize>` 510-516 (`TooDeeViewMut`) -/
def indexRow (m : Mode) (v : VW) (row : Nat) : Res Win := do
  if ¬ row < v.numRows then throw .panic
  let start ← umul m row v.stride
  let e ← uadd m start v.numCols
  v.data.getRange start e

/-- `Index<Coordinate>` src/view.rs:243-250, 499-506 and `IndexMut<Coordinate>` 520-527 -/
def indexCoord (m : Mode) (v : VW) (col row : Nat) : Res Nat := do
  if ¬ row < v.numRows then throw .panic
  if ¬ col < v.numCols then throw .panic
  let p ← umul m row v.stride
  let p ← uadd m p col
  v.data.getIdx p

/-- `get_unchecked_row` src/view.rs:208-211, 366-369, `get_unchecked_row_mut` 465-468 -/
def getUncheckedRow (m : Mode) (v : VW) (row : Nat) : Res Win := do
  let start ← umul m row v.stride
  let e ← uadd m start v.numCols
  v.data.getRange start e

/-- `get_unchecked` src/view.rs:223-225, 381-383, `get_unchecked_mut` 481-483 -/
def getUnchecked (m : Mode) (v : VW) (col row : Nat) : Res Nat := do
  let p ← umul m row v.stride
  let p ← uadd m p col
  v.data.getIdx p

/-- `TooDeeViewCommon::get_col_params` src/view.rs:60-73 followed by the unchecked slicing in
    `col()` 187-195, 345-353 and `col_mut()` 407-415: `(window, skip)` -/
def colParams (m : Mode) (v : VW) (col : Nat) : Res (Win × Nat) := do
  if ¬ col < v.numCols then throw .panic
  let start := col
  let e ←
    if v.numRows = 0 then pure start
    else do
      let r1 ← usub m v.numRows 1
      let a ← umul m r1 v.stride
      let b ← uadd m start a
      uadd m b 1
  let skip ← usub m v.stride 1
  let w ← v.data.getRange start e
  pure (w, skip)

end VW
end Toodee
