import Toodee.Base.Core
/-
  Impl-model of `TooDee<T>` (src/toodee.rs): state, constructors, indexing, `col`, the `TooDeeOpsMut`
  overrides (`fill`, `swap_rows`, `swap`), `clear`, `swap_dimensions`.  One definition per Rust function.
  Accessors return *positions* / *windows* into the root buffer (`t.data`), not values.
-/
namespace Toodee

/-- src/toodee.rs:30-36 -/
structure TD (α : Type) where
  data : List α
  numRows : Nat
  numCols : Nat
deriving Repr, DecidableEq

namespace TD
variable {α : Type}

/-- the `Vec`'s buffer as a window (positions are relative to `data.as_ptr()`) -/
def win (t : TD α) : Win := ⟨0, t.data.length⟩

/-- `TooDee::default()` src/toodee.rs:40-56 -/
def default : TD α := ⟨[], 0, 0⟩

/-- `TooDee::with_capacity` src/toodee.rs:482-488 (capacity is not part of the observable state) -/
def withCapacity (_cap : Nat) : TD α := ⟨[], 0, 0⟩

/-- the zero rule as the constructors check it: `if c == 0 || r == 0 { assert_eq!(r, c) }` -/
def zeroRuleOk (c r : Nat) : Bool := !(c == 0 || r == 0) || (r == c)

/-- `TooDee::new` src/toodee.rs:419-427; `dflt` is `T::default()` -/
def new (c r : Nat) (dflt : α) : Res (TD α) :=
  if !zeroRuleOk c r then throw .panic
  else match cmul c r with
    | none => throw .panic
    | some n => pure ⟨List.replicate n dflt, r, c⟩

/-- `TooDee::init` src/toodee.rs:448-460 -/
def init (c r : Nat) (v : α) : Res (TD α) :=
  if !zeroRuleOk c r then throw .panic
  else match cmul r c with
    | none => throw .panic
    | some n => pure ⟨List.replicate n v, r, c⟩

/-- `TooDee::from_vec` src/toodee.rs:557-567 (and `from_box`, which delegates) -/
def fromVec (c r : Nat) (v : List α) : Res (TD α) :=
  if !zeroRuleOk c r then throw .panic
  else match cmul c r with
    | none => throw .panic
    | some n => if n = v.length then pure ⟨v, r, c⟩ else throw .panic

/-- `Index<usize>` src/toodee.rs:68-75 (and `IndexMut<usize>` 108-115: same arithmetic) -/
def indexRow (m : Mode) (t : TD α) (row : Nat) : Res Win := do
  if ¬ row < t.numRows then throw .panic
  let start ← umul m row t.numCols
  let e ← uadd m start t.numCols
  t.win.getRange start e

/-- `IndexMut<usize>` src/toodee.rs:108-115 (duplicate of `indexRow` in the Rust) -/
def indexRowMut (m : Mode) (t : TD α) (row : Nat) : Res Win := do
  if ¬ row < t.numRows then throw .panic
  let start ← umul m row t.numCols
  let e ← uadd m start t.numCols
  t.win.getRange start e

/-- `Index<Coordinate>` src/toodee.rs:87-94 -/
def indexCoord (m : Mode) (t : TD α) (col row : Nat) : Res Nat := do
  if ¬ row < t.numRows then throw .panic
  if ¬ col < t.numCols then throw .panic
  let p ← umul m row t.numCols
  let p ← uadd m p col
  t.win.getIdx p

/-- `IndexMut<Coordinate>` src/toodee.rs:127-134 -/
def indexCoordMut (m : Mode) (t : TD α) (col row : Nat) : Res Nat := do
  if ¬ row < t.numRows then throw .panic
  if ¬ col < t.numCols then throw .panic
  let p ← umul m row t.numCols
  let p ← uadd m p col
  t.win.getIdx p

/-- `get_unchecked_row` src/toodee.rs:220-223 (and `_mut` 352-355) -/
def getUncheckedRow (m : Mode) (t : TD α) (row : Nat) : Res Win := do
  let start ← umul m row t.numCols
  let e ← uadd m start t.numCols
  t.win.getRange start e

/-- `get_unchecked` src/toodee.rs:234-236 (and `_mut` 366-368) -/
def getUnchecked (m : Mode) (t : TD α) (col row : Nat) : Res Nat := do
  let p ← umul m row t.numCols
  let p ← uadd m p col
  t.win.getIdx p

/-- range and skip computed by `col()` src/toodee.rs:200-208 (and `col_mut` 281-290): `(window, skip)` -/
def colParams (m : Mode) (t : TD α) (col : Nat) : Res (Win × Nat) := do
  if ¬ col < t.numCols then throw .panic
  let a ← usub m t.data.length t.numCols
  let b ← uadd m a col
  let e ← uadd m b 1
  let w ← t.win.getRange col e
  let skip ← usub m t.numCols 1
  pure (w, skip)

/-- `clear` src/toodee.rs:630-634 -/
def clear (_t : TD α) : TD α := ⟨[], 0, 0⟩

/-- `swap_dimensions` -/
def swapDimensions (t : TD α) : TD α := { t with numRows := t.numCols, numCols := t.numRows }

end TD
end Toodee
