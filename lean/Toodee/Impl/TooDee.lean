import Toodee.Base.Mem
/-
  Impl-model of `TooDee<T>` (src/toodee.rs): state, constructors, indexing, `col`, the `TooDeeOpsMut`
  overrides (`fill`, `swap_rows`, `swap`), `clear`, `swap_dimensions`.  One definition per Rust function.
  Accessors return *positions* / *windows* into the root buffer (`t.data`), not values.
-/
namespace Toodee

/-- src/toodee.rs:30-36 -/
structure TD (α : Type) where
  data : List α
  numRows : Nat
  numCols : Nat
deriving Repr, DecidableEq

namespace TD
variable {α : Type}

/-- the `Vec`'s buffer as a window (positions are relative to `data.as_ptr()`) -/
def win (t : TD α) : Win := ⟨0, t.data.length⟩

/-- `TooDee::default()` src/toodee.rs:40-56 -/
def default : TD α := ⟨[], 0, 0⟩

/-- `TooDee::with_capacity` src/toodee.rs:482-488 (the capacity itself is not part of the observable state) -/
def withCapacity (capLimit n : Nat) : Res (TD α) :=
  if !allocOk capLimit n then throw .panic else pure ⟨[], 0, 0⟩

/-- the zero rule as the constructors check it: `if c == 0 || r == 0 { assert_eq!(r, c) }` -/
def zeroRuleOk (c r : Nat) : Bool := !(c == 0 || r == 0) || (r == c)

/-- `TooDee::new` src/toodee.rs:419-427; `dflt` is `T::default()` -/
def new (capLimit : Nat) (c r : Nat) (dflt : α) : Res (TD α) :=
  if !zeroRuleOk c r then throw .panic
  else match cmul c r with
    | none => throw .panic
    | some n =>
      -- `Vec::new()` then `resize_with(n, T::default)`
      if !allocOk capLimit n then throw .panic else pure ⟨List.replicate n dflt, r, c⟩

/-- `TooDee::init` src/toodee.rs:448-460 -/
def init (capLimit : Nat) (c r : Nat) (v : α) : Res (TD α) :=
  if !zeroRuleOk c r then throw .panic
  else match cmul r c with
    | none => throw .panic
    | some n =>
      -- `vec![init_value; len]`
      if !allocOk capLimit n then throw .panic else pure ⟨List.replicate n v, r, c⟩

/-- `TooDee::from_vec` src/toodee.rs:557-567 (and `from_box`, which delegates) -/
def fromVec (c r : Nat) (v : List α) : Res (TD α) :=
  if !zeroRuleOk c r then throw .panic
  else match cmul c r with
    | none => throw .panic
    | some n => if n = v.length then pure ⟨v, r, c⟩ else throw .panic

/-- `Index<usize>` src/toodee.rs:68-75 (and `IndexMut<usize>` 108-115: same arithmetic) -/
def indexRow (m : Mode) (t : TD α) (row : Nat) : Res Win := do
  if ¬ row < t.numRows then throw .panic
  let start ← umul m row t.numCols
  let e ← uadd m start t.numCols
  t.win.getRange start e

/-- `IndexMut<usize>` src/toodee.rs:108-115 (duplicate of `indexRow` in the Rust) -/
def indexRowMut (m : Mode) (t : TD α) (row : Nat) : Res Win := do
  if ¬ row < t.numRows then throw .panic
  let start ← umul m row t.numCols
  let e ← uadd m start t.numCols
  t.win.getRange start e

/-- `Index<Coordinate>` src/toodee.rs:87-94 -/
def indexCoord (m : Mode) (t : TD α) (col row : Nat) : Res Nat := do
  if ¬ row < t.numRows then throw .panic
  if ¬ col < t.numCols then throw .panic
  let p ← umul m row t.numCols
  let p ← uadd m p col
  t.win.getIdx p

/-- `IndexMut<Coordinate>` src/toodee.rs:127-134 -/
def indexCoordMut (m : Mode) (t : TD α) (col row : Nat) : Res Nat := do
  if ¬ row < t.numRows then throw .panic
  if ¬ col < t.numCols then throw .panic
  let p ← umul m row t.numCols
  let p ← uadd m p col
  t.win.getIdx p

/-- `get_unchecked_row` src/toodee.rs:220-223 (and `_mut` 352-355) -/
def getUncheckedRow (m : Mode) (t : TD α) (row : Nat) : Res Win := do
  let start ← umul m row t.numCols
  let e ← uadd m start t.numCols
  t.win.getRange start e

/-- `get_unchecked` src/toodee.rs:234-236 (and `_mut` 366-368) -/
def getUnchecked (m : Mode) (t : TD α) (col row : Nat) : Res Nat := do
  let p ← umul m row t.numCols
  let p ← uadd m p col
  t.win.getIdx p

/-- range and skip computed by `col()` src/toodee.rs:200-208 (and `col_mut` 281-290): `(window, skip)` -/
def colParams (m : Mode) (t : TD α) (col : Nat) : Res (Win × Nat) := do
  if ¬ col < t.numCols then throw .panic
  let a ← usub m t.data.length t.numCols
  let b ← uadd m a col
  let e ← uadd m b 1
  let w ← t.win.getRange col e
  let skip ← usub m t.numCols 1
  pure (w, skip)

/-- `clear` src/toodee.rs:630-634 -/
def clear (_t : TD α) : TD α := ⟨[], 0, 0⟩

/-- `swap_dimensions` -/
def swapDimensions (t : TD α) : TD α := { t with numRows := t.numCols, numCols := t.numRows }

/-! ### conversions and derived traits (src/toodee.rs:73, 985-1023) -/

/-- `From<TooDee<T>> for Vec<T>`: `toodee.data` -/
def intoVec (t : TD α) : List α := t.data

/-- `From<TooDee<T>> for Box<[T]>`: `toodee.data.into_boxed_slice()` -/
def intoBox (t : TD α) : List α := t.data

/-- `IntoIterator for TooDee<T>`: `self.data.into_iter()` — the items a `vec::IntoIter` will yield, front first -/
def intoIter (t : TD α) : List α := t.data

/-- `#[derive(Clone)]`: field-wise; `Vec::clone` clones element by element in order (`cl` = `T::clone`) -/
def clone (cl : α → α) (t : TD α) : TD α := ⟨t.data.map cl, t.numRows, t.numCols⟩

/-- `Clone::clone_from(&mut self, source)`: `#[derive(Clone)]` does not override it, so it is the trait default
    `*self = source.clone()`: the clone is built first, then the assignment drops the old array.  `fault` = which call of
    `T::clone` panics, if any (0-based): then `self` is untouched and the clones made so far are dropped by the unwinding.
    Returns the array afterwards, what was dropped, and the outcome. -/
def cloneFrom (cl : α → α) (t src : TD α) (fault : Option Nat) : TD α × List α × Res Unit :=
  match fault with
  | some k => if k < src.data.length then (t, (src.data.take k).map cl, throw .panic) else (src.clone cl, t.data, pure ())
  | none => (src.clone cl, t.data, pure ())

/-- `Vec<T> == Vec<T>` / `[T] == [T]`: equal lengths and element-wise `eqα` (= `T::eq`) -/
def sliceEq (eqα : α → α → Bool) : List α → List α → Bool
  | [], [] => true
  | x :: xs, y :: ys => eqα x y && sliceEq eqα xs ys
  | _, _ => false

/-- `#[derive(PartialEq)]`: the fields compared in declaration order with `&&` -/
def eqDerived (eqα : α → α → Bool) (a b : TD α) : Bool :=
  sliceEq eqα a.data b.data && (a.numRows == b.numRows) && (a.numCols == b.numCols)

/-- `#[derive(Hash)]`: what is fed to the hasher — `Vec<T>::hash` writes the length then each element (`hα` = what `T::hash`
    writes), then the two dimensions -/
def hashFeed (hα : α → List Nat) (t : TD α) : List Nat :=
  t.data.length :: (t.data.flatMap hα ++ [t.numRows, t.numCols])

end TD
end Toodee
