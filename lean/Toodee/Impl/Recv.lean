import Toodee.Impl.Copy
import Toodee.Impl.Sort
import Toodee.Impl.Translate
/-
  Impl-model of *method dispatch*: which body runs when a trait method is called on each of the crate's receivers.

  `TooDee<T>` overrides `fill`, `swap`, `swap_rows`, `copy_from_slice`/`clone_from_slice`, `copy_from_toodee`/`clone_from_toodee`
  (src/toodee.rs:300-303, 321-341, 386-396; src/copy.rs:153-188); `TooDeeViewMut` overrides `swap_rows` (src/view.rs:433-453);
  everything else in `TooDeeOpsMut`, `CopyOps`, `SortOps`, `TranslateOps` is the trait default, which sees the receiver only
  through its required methods (`num_cols`, `num_rows`, `rows_mut`, `Index*`, `col`, `get_unchecked_row_mut`, `swap_rows`).

  `Recv.run` is the single entry point "call mutating operation `op` on receiver `rc` whose root buffer is `buf`".  The
  correspondence driver calls it for every in-place op line, and the property theorems about views (C04) and about the
  agreement of overrides with defaults (C13) are stated about it, so the dispatch itself is inside the verified model.
-/
namespace Toodee
variable {α : Type}

/-- a receiver of the trait methods -/
inductive Recv (α : Type)
  | root (t : TD α)      -- `TooDee<T>`
  | ext (t : TD α)       -- a third-party implementor that provides only the required methods (all defaults run); the harness's `Ext`
  | vmut (v : VW)        -- `TooDeeViewMut`
  | vsh (v : VW)         -- `TooDeeView` (no mutating method is callable on it; the read accessors are)
deriving Repr

namespace Recv

def isMut : Recv α → Bool
  | .vsh _ => false
  | _ => true

def isRoot : Recv α → Bool
  | .root _ => true
  | _ => false

/-- the receiver looking at root buffer `buf` (an owned array *is* its buffer; a view borrows it) -/
def setBuf : Recv α → List α → Recv α
  | .root t, buf => .root { t with data := buf }
  | .ext t, buf => .ext { t with data := buf }
  | .vmut v, _ => .vmut v
  | .vsh v, _ => .vsh v

def numCols : Recv α → Nat
  | .root t | .ext t => t.numCols
  | .vmut v | .vsh v => v.numCols
def numRows : Recv α → Nat
  | .root t | .ext t => t.numRows
  | .vmut v | .vsh v => v.numRows

def indexCoord (m : Mode) : Recv α → Nat → Nat → Res Nat
  | .root t, c, r | .ext t, c, r => t.indexCoord m c r
  | .vmut v, c, r | .vsh v, c, r => v.indexCoord m c r
def indexCoordMut (m : Mode) : Recv α → Nat → Nat → Res Nat
  | .root t, c, r | .ext t, c, r => t.indexCoordMut m c r
  | .vmut v, c, r | .vsh v, c, r => v.indexCoord m c r
def indexRow (m : Mode) : Recv α → Nat → Res Win
  | .root t, r | .ext t, r => t.indexRow m r
  | .vmut v, r | .vsh v, r => v.indexRow m r
def indexRowMut (m : Mode) : Recv α → Nat → Res Win
  | .root t, r | .ext t, r => t.indexRowMut m r
  | .vmut v, r | .vsh v, r => v.indexRow m r
def getUnchecked (m : Mode) : Recv α → Nat → Nat → Res Nat
  | .root t, c, r | .ext t, c, r => t.getUnchecked m c r
  | .vmut v, c, r | .vsh v, c, r => v.getUnchecked m c r
def getUncheckedRow (m : Mode) : Recv α → Nat → Res Win
  | .root t, r | .ext t, r => t.getUncheckedRow m r
  | .vmut v, r | .vsh v, r => v.getUncheckedRow m r
def col (m : Mode) : Recv α → Nat → Res Col
  | .root t, c | .ext t, c => t.col m c
  | .vmut v, c | .vsh v, c => v.col m c
def rows (m : Mode) : Recv α → Res Rows
  | .root t | .ext t => pure t.rows
  | .vmut v | .vsh v => v.rows m

/-- what the trait defaults see of the receiver: `num_cols()`, `num_rows()`, `rows_mut()` -/
def acc (m : Mode) : Recv α → Res Acc
  | .root t | .ext t => pure t.acc
  | .vmut v | .vsh v => v.acc m

/-- `get_unchecked_row_mut` (used by `translate_with_wrap`) -/
def getRowMut (m : Mode) (rc : Recv α) (r : Nat) : Res Win := rc.getUncheckedRow m r

/-- `swap_rows` as dispatched: the `TooDee` override, the `TooDeeViewMut` override, or the trait default -/
def swapRows (m : Mode) (rc : Recv α) (buf : List α) (r1 r2 : Nat) : Res (List α) :=
  match rc.setBuf buf with
  | .root t => t.swapRows m r1 r2
  | .ext t => t.acc.swapRows m buf r1 r2
  | .vmut v | .vsh v => v.swapRows m buf r1 r2

end Recv

/-- the source of `copy_from_toodee` / `clone_from_toodee`: another array, or a window `(c0,r0)..(c1,r1)` of it -/
structure CopySrc (α : Type) where
  arr : TD α
  window : Option ((Nat × Nat) × (Nat × Nat)) := none

/-- `src.num_cols()`, `src.num_rows()`, `src.rows()` of the source -/
def CopySrc.acc (m : Mode) (s : CopySrc α) : Res Acc :=
  match s.window with
  | none => pure s.arr.acc
  | some (tl, br) => do
    let v ← VW.fromTooDee m tl br s.arr
    v.acc m

/-- a mutating operation with its arguments (valid or not) -/
inductive MOp (α : Type)
  | set (c r : Nat) (x : α)                           -- `self[(c, r)] = x`             (`IndexMut<Coordinate>`)
  | setInRow (r c : Nat) (x : α)                      -- `self[r][c] = x`               (`IndexMut<usize>`, then slice indexing)
  | fill (x : α)
  | swap (c1 r1 c2 r2 : Nat)
  | swapRows (r1 r2 : Nat)
  | swapCols (c1 c2 : Nat)
  | copyFromSlice (src : List α)                      -- and `clone_from_slice`
  | copyFromTooDee (src : CopySrc α)                  -- and `clone_from_toodee`
  | copyWithin (tl br dest : Nat × Nat)
  | translate (mc mr : Nat)
  | flipRows
  | flipCols
  | sortRow (side : SideSort α) (row : Nat)           -- every `sort_*_row*` method: `side` = what its side sort does
  | sortCol (side : SideSort α) (col : Nat)           -- every `sort_*_col*` method

namespace Recv

/-- call `op` on receiver `rc` (root buffer `buf`); `sideLimit`: see `sideAllocOk`.  Returns the new root buffer. -/
def run (m : Mode) (sideLimit : Nat) (rc : Recv α) (buf : List α) (op : MOp α) : Res (List α) :=
  let rc := rc.setBuf buf
  match op with
  | .set c r x => do
    let p ← rc.indexCoordMut m c r
    pure (buf.set p x)
  | .setInRow r c x => do
    let w ← rc.indexRowMut m r
    let p ← w.index c
    pure (buf.set p x)
  | .fill x =>
    match rc with
    | .root t => pure (t.fill x)
    | _ => do let a ← rc.acc m; a.fill buf x
  | .swap c1 r1 c2 r2 =>
    match rc with
    | .root t => t.swap m c1 r1 c2 r2
    | _ => do let a ← rc.acc m; a.swap m buf (c1, r1) (c2, r2)
  | .swapRows r1 r2 => rc.swapRows m buf r1 r2
  | .swapCols c1 c2 => do let a ← rc.acc m; a.swapCols buf c1 c2
  | .copyFromSlice src =>
    match rc with
    | .root t => t.copyFromSlice src
    | _ => do let a ← rc.acc m; a.copyFromSlice m buf src
  | .copyFromTooDee src => do
    let sa ← src.acc m
    match rc with
    | .root t => t.copyFromTooDee sa src.arr.data
    | _ => do let a ← rc.acc m; a.copyFromTooDee buf sa src.arr.data
  | .copyWithin tl br dest => do let a ← rc.acc m; a.copyWithin m (rc.indexRowMut m) buf tl br dest
  | .translate mc mr => do let a ← rc.acc m; a.translateWithWrap m (rc.getRowMut m) buf (mc, mr)
  | .flipRows => do let a ← rc.acc m; a.flipRows m buf
  | .flipCols => do let a ← rc.acc m; a.flipCols buf
  | .sortRow side row => do let a ← rc.acc m; a.sortRowWith (rc.indexRow m) buf sideLimit side row
  | .sortCol side c => do let a ← rc.acc m; a.sortColWith (rc.col m) (rc.swapRows m) buf sideLimit side c

/-- a sequence of operations on the same receiver (the borrow lasts; the shape of a view never changes) -/
def runAll (m : Mode) (sideLimit : Nat) (rc : Recv α) : List α → List (MOp α) → Res (List α)
  | buf, [] => pure buf
  | buf, op :: ops => do
    let b ← rc.run m sideLimit buf op
    runAll m sideLimit rc b ops

/-- a block of calls on one receiver, as the caller's code runs it: a call that panics ends the block (the panic propagates),
    what the earlier calls did stays.  Returns the root buffer as left behind and the outcome of the block. -/
def runKeep (m : Mode) (sideLimit : Nat) (rc : Recv α) : List α → List (MOp α) → List α × Res Unit
  | buf, [] => (buf, pure ())
  | buf, op :: ops =>
    match rc.run m sideLimit buf op with
    | .ok b => runKeep m sideLimit rc b ops
    | .error e => (buf, throw e)

end Recv

/-! ### the eleven public sort methods -/

/-- the public methods of `SortOps` (src/sort.rs) -/
inductive SortMethod
  | sort_by_row | sort_unstable_by_row | sort_by_row_key | sort_unstable_by_row_key | sort_row_ord | sort_unstable_row_ord
  | sort_by_col | sort_unstable_by_col | sort_by_col_key | sort_unstable_by_col_key | sort_col_ord
deriving DecidableEq, Repr

/-- the method orders a row (and permutes columns) -/
def SortMethod.isRow : SortMethod → Bool
  | .sort_by_row | .sort_unstable_by_row | .sort_by_row_key | .sort_unstable_by_row_key | .sort_row_ord | .sort_unstable_row_ord => true
  | _ => false

/-- the method uses the stable side sort -/
def SortMethod.isStable : SortMethod → Bool
  | .sort_by_row | .sort_by_row_key | .sort_row_ord | .sort_by_col | .sort_by_col_key | .sort_col_ord => true
  | _ => false

namespace Recv

/-- the call `rc.<method>(k, …)`: which transcribed body runs.  `le` = the caller's comparator, or the order of the caller's keys
    (`key = id`, `leK = le` in the `*_key` wrappers), or `T: Ord`; `p` = what an unstable side sort returned (ignored by the stable
    methods). -/
def runSort (m : Mode) (sideLimit : Nat) (rc : Recv α) (buf : List α) (meth : SortMethod) (le : α → α → Bool) (p : List Nat)
    (k : Nat) : Res (List α) := do
  let rc := rc.setBuf buf
  let a ← rc.acc m
  match meth with
  | .sort_by_row => a.sortByRow (rc.indexRow m) buf sideLimit le k
  | .sort_unstable_by_row => a.sortUnstableByRow (rc.indexRow m) buf sideLimit p k
  | .sort_by_row_key => a.sortByRowKey (rc.indexRow m) buf sideLimit id le k
  | .sort_unstable_by_row_key => a.sortUnstableByRowKey (rc.indexRow m) buf sideLimit p k
  | .sort_row_ord => a.sortRowOrd (rc.indexRow m) buf sideLimit le k
  | .sort_unstable_row_ord => a.sortUnstableRowOrd (rc.indexRow m) buf sideLimit p k
  | .sort_by_col => a.sortByCol (rc.col m) (rc.swapRows m) buf sideLimit le k
  | .sort_unstable_by_col => a.sortUnstableByCol (rc.col m) (rc.swapRows m) buf sideLimit p k
  | .sort_by_col_key => a.sortByColKey (rc.col m) (rc.swapRows m) buf sideLimit id le k
  | .sort_unstable_by_col_key => a.sortUnstableByColKey (rc.col m) (rc.swapRows m) buf sideLimit p k
  | .sort_col_ord => a.sortColOrd (rc.col m) (rc.swapRows m) buf sideLimit le k

end Recv

/-! ### borrowing: how a receiver is obtained from another one -/

/-- one borrowing step of the public API -/
inductive Borrow
  | asExt                                   -- hand the array to a third-party wrapper that implements only the required methods
  | viewMut (s e : Nat × Nat)               -- `view_mut(s, e)`
  | view (s e : Nat × Nat)                  -- `view(s, e)`
  | sliceMut (c r n : Nat)                  -- `TooDeeViewMut::new(c, r, &mut data_mut()[..n])`
  | slice (c r n : Nat)                     -- `TooDeeView::new(c, r, &data()[..n])`
deriving Repr

namespace Recv

/-- which constructor runs for each (receiver kind, borrowing step); `none` = the API has no such call (a mutable borrow from a
    shared view, a slice view from anything but the array itself, …) -/
def borrow (m : Mode) : Recv α → Borrow → Res (Option (Recv α))
  | .root t, .asExt => pure (some (.ext t))
  | .root t, .viewMut s e | .ext t, .viewMut s e => do let v ← VW.fromTooDee m s e t; pure (some (.vmut v))
  | .root t, .view s e | .ext t, .view s e => do let v ← VW.fromTooDee m s e t; pure (some (.vsh v))
  | .vmut v, .viewMut s e => do let v' ← v.view m s e; pure (some (.vmut v'))                 -- `TooDeeViewMut::view_mut` (unchecked slicing)
  | .vmut v, .view s e => do let v' ← v.viewChecked m s e; pure (some (.vsh v'))             -- `TooDeeViewMut::view` (checked slicing)
  | .vsh v, .view s e => do let v' ← v.view m s e; pure (some (.vsh v'))                     -- `TooDeeView::view` (unchecked slicing)
  | .root t, .sliceMut c r n => do
    let sl ← t.win.indexTo n
    let v ← VW.newMut c r sl
    pure (some (.vmut v))
  | .root t, .slice c r n => do
    let sl ← t.win.indexTo n
    let v ← VW.newShared c r sl
    pure (some (.vsh v))
  | _, _ => pure none

/-- a chain of borrowing steps (nested views to any depth) -/
def borrowAll (m : Mode) : Recv α → List Borrow → Res (Option (Recv α))
  | rc, [] => pure (some rc)
  | rc, b :: bs => do
    match ← rc.borrow m b with
    | none => pure none
    | some rc' => borrowAll m rc' bs

end Recv

end Toodee
