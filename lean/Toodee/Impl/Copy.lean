import Toodee.Impl.Ops
/-
  Impl-model of `CopyOps` (src/copy.rs): trait defaults (used by `TooDeeViewMut` and third-party
  implementors) and the `TooDee` overrides.  `copy_*` and `clone_*` have the same control flow; the model
  has one definition for each pair.
-/
namespace Toodee
variable {α : Type}

/-- `src.chunks_exact(n)` (std): panics when `n = 0`; the incomplete tail is dropped -/
def chunksExact (n : Nat) (src : List α) : Res (List (List α)) :=
  if n = 0 then throw .panic
  else pure ((List.range (src.length / n)).map fun i => (src.drop (i * n)).take n)

/-- `d.copy_from_slice(s)` / `clone_from_slice` (std): panics on a length mismatch -/
def copyIntoWin (buf : List α) (d : Win) (s : List α) : Res (List α) :=
  if d.len ≠ s.length then throw .panic else pure (writeWin buf d s)

/-- `a.zip(b)` consumed by a `for` loop: pairs up to the shorter one -/
def zipCopy (buf : List α) : List Win → List (List α) → Res (List α)
  | d :: ds, s :: ss => do
    let b ← copyIntoWin buf d s
    zipCopy b ds ss
  | _, _ => pure buf

/-- default `copy_from_slice` src/copy.rs:23-32 and `clone_from_slice` 45-54 -/
def Acc.copyFromSlice (m : Mode) (a : Acc) (buf : List α) (src : List α) : Res (List α) := do
  let cols := a.numCols
  let n ← umul m cols a.numRows
  if n ≠ src.length then throw .panic
  if cols = 0 then pure buf
  else do
    let rows ← a.rows.collect (a.rows.v.len + 2)
    let chunks ← chunksExact cols src
    zipCopy buf rows chunks

/-- `TooDee::copy_from_slice` src/copy.rs:159-161, `clone_from_slice` 163-165: `data_mut().copy_from_slice(src)` -/
def TD.copyFromSlice (t : TD α) (src : List α) : Res (List α) :=
  if t.data.length ≠ src.length then throw .panic else pure src

/-- default `copy_from_toodee` src/copy.rs:67-73 and `clone_from_toodee` 86-92.
    `sbuf`/`sa` = the source's buffer and accessor (`src.size()`, `src.rows()`). -/
def Acc.copyFromTooDee (a : Acc) (buf : List α) (sa : Acc) (sbuf : List α) : Res (List α) := do
  if ¬ (a.numCols = sa.numCols ∧ a.numRows = sa.numRows) then throw .panic
  let rows ← a.rows.collect (a.rows.v.len + 2)
  let srows ← sa.rows.collect (sa.rows.v.len + 2)
  zipCopy buf rows (srows.map (readWin sbuf))

/-- loop of `TooDee::copy_from_toodee` src/copy.rs:167-176 (and `clone_from_toodee` 178-187) -/
def tdCopyLoop (numCols : Nat) : List α → Win → List (List α) → Res (List α)
  | buf, _, [] => pure buf
  | buf, v, r :: rs => do
    let (fst, snd) ← v.splitAt numCols
    let b ← copyIntoWin buf fst r
    tdCopyLoop numCols b snd rs

/-- `TooDee::copy_from_toodee` / `clone_from_toodee` overrides -/
def TD.copyFromTooDee (t : TD α) (sa : Acc) (sbuf : List α) : Res (List α) := do
  if ¬ (t.numCols = sa.numCols ∧ t.numRows = sa.numRows) then throw .panic
  let srows ← sa.rows.collect (sa.rows.v.len + 2)
  tdCopyLoop t.numCols t.data t.win (srows.map (readWin sbuf))

/-- one row step of `copy_within` for the `Less`/`Greater` arms src/copy.rs:131-134, 138-141:
    `let (s, d) = self.row_pair_mut(r, r2); d[dest.0..dest.0+cols].copy_from_slice(&s[tl.0..br.0])` -/
def copyWithinRowPair (m : Mode) (a : Acc) (buf : List α) (r r2 tl0 br0 dest0 cols : Nat) : Res (List α) := do
  let (s, d) ← a.rowPairMut m r r2
  let e ← uadd m dest0 cols
  let dw ← d.indexRange dest0 e
  let sw ← s.indexRange tl0 br0
  copyIntoWin buf dw (readWin buf sw)

/-- `slice::copy_within(src, dest)` (std): panics if the source range is invalid or `dest + count > len` -/
def sliceCopyWithin (buf : List α) (w : Win) (s e dest : Nat) : Res (List α) :=
  if ¬ (s ≤ e ∧ e ≤ w.len) then throw .panic
  else if ¬ dest ≤ w.len - (e - s) then throw .panic
  else pure (copyWithinWin buf w s e dest)

/-- default `copy_within` src/copy.rs:114-150 (never overridden).  `indexRowMut` is the implementor's
    `IndexMut<usize>` (used by the `Equal` arm). -/
def Acc.copyWithin (m : Mode) (a : Acc) (indexRowMut : Nat → Res Win) (buf : List α)
    (tl br dest : Nat × Nat) : Res (List α) := do
  if ¬ tl.1 ≤ br.1 then throw .panic
  if ¬ tl.2 ≤ br.2 then throw .panic
  let numCols := a.numCols
  let numRows := a.numRows
  if ¬ br.1 ≤ numCols then throw .panic
  if ¬ br.2 ≤ numRows then throw .panic
  let cols ← usub m br.1 tl.1
  let rows ← usub m br.2 tl.2
  -- post-fix: `assert!(dest.0 <= num_cols && cols <= num_cols - dest.0)` (short-circuit `&&`)
  if ¬ dest.1 ≤ numCols then throw .panic
  let roomC ← usub m numCols dest.1
  if ¬ cols ≤ roomC then throw .panic
  if ¬ dest.2 ≤ numRows then throw .panic
  let roomR ← usub m numRows dest.2
  if ¬ rows ≤ roomR then throw .panic
  let rs := (List.range (br.2 - tl.2)).map (tl.2 + ·)       -- top_left.1..bottom_right.1
  if tl.2 < dest.2 then do
    let off ← usub m dest.2 tl.2
    rs.reverse.foldlM (fun b r => do
      let r2 ← uadd m r off
      copyWithinRowPair m a b r r2 tl.1 br.1 dest.1 cols) buf
  else if tl.2 > dest.2 then do
    let off ← usub m tl.2 dest.2
    rs.foldlM (fun b r => do
      let r2 ← usub m r off
      copyWithinRowPair m a b r r2 tl.1 br.1 dest.1 cols) buf
  else
    rs.foldlM (fun b r => do
      let w ← indexRowMut r
      sliceCopyWithin b w tl.1 br.1 dest.1) buf

end Toodee
