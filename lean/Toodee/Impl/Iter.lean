import Toodee.Impl.View
/-
  Impl-model of the four slice-cursor iterators (src/iter.rs): `Rows`/`RowsMut` and `Col`/`ColMut`.
  The shared and the mutable variant have the same cursor arithmetic (the mutable one adds `mem::take`);
  one Lean definition transcribes both and lists both source ranges.  Items are windows / positions.
-/
namespace Toodee

/-- src/iter.rs:12-19 (`Rows`), 122-129 (`RowsMut`) -/
structure Rows where
  v : Win
  cols : Nat
  skip : Nat
deriving Repr, DecidableEq

namespace Rows

/-- `next` src/iter.rs:26-41 (`Rows`), 136-152 (`RowsMut`) -/
def next (it : Rows) : Res (Option Win × Rows) :=
  if it.v.len = 0 then pure (none, it)
  else do
    let (fst, snd) ← it.v.splitAt it.cols
    if snd.len = 0 then pure (some fst, { it with v := Win.empty })
    else do
      let v ← snd.getFrom it.skip
      pure (some fst, { it with v := v })

/-- `size_hint` src/iter.rs:44-52, 155-163; `len()` and `count()` (55-57, 166-168) return the same number -/
def sizeHint (m : Mode) (it : Rows) : Res Nat :=
  if it.cols = 0 then pure 0
  else do
    let denom ← uadd m it.cols it.skip
    let q ← udiv it.v.len denom
    let r ← urem it.v.len denom
    pure (q + r / it.cols)

/-- `nth` src/iter.rs:60-70, 171-181 -/
def nth (m : Mode) (it : Rows) (n : Nat) : Res (Option Win × Rows) := do
  let d ← uadd m it.cols it.skip
  let (start, overflow) := omul n d
  if start ≥ it.v.len ∨ overflow then
    next { it with v := Win.empty }
  else do
    let (_, snd) ← it.v.splitAt start
    next { it with v := snd }

/-- `next_back` src/iter.rs:80-95 (`Rows`: `fst.len() - skip_cols`), 191-208 (`RowsMut`: `tmp_len - cols - skip_cols`) -/
def nextBack (m : Mode) (it : Rows) : Res (Option Win × Rows) :=
  if it.v.len = 0 then pure (none, it)
  else do
    let mid ← usub m it.v.len it.cols
    let (fst, snd) ← it.v.splitAt mid
    if fst.len = 0 then pure (some snd, { it with v := Win.empty })
    else do
      let e ← usub m fst.len it.skip
      let v ← fst.getTo e
      pure (some snd, { it with v := v })

/-- `RowsMut::next_back` src/iter.rs:191-208 as written (the new length is `tmp_len - cols - skip_cols`, computed from the whole
    length rather than from `fst.len()`); proved equal to `nextBack` in Proofs/IterLemmas-independent lemma `Rows.nextBackMut_eq`. -/
def nextBackMut (m : Mode) (it : Rows) : Res (Option Win × Rows) :=
  if it.v.len = 0 then pure (none, it)
  else do
    let tmpLen := it.v.len
    let mid ← usub m tmpLen it.cols
    let (fst, snd) ← it.v.splitAt mid
    if fst.len = 0 then pure (some snd, { it with v := Win.empty })
    else do
      let a ← usub m tmpLen it.cols
      let e ← usub m a it.skip
      let v ← fst.getTo e
      pure (some snd, { it with v := v })

/-- `nth_back` src/iter.rs:98-109 (`Rows`), 211-225 (`RowsMut`, after the fix the new length is computed before `mem::take`) -/
def nthBack (m : Mode) (it : Rows) (n : Nat) : Res (Option Win × Rows) := do
  let d ← uadd m it.cols it.skip
  let (adj, overflow) := omul n d
  if adj ≥ it.v.len ∨ overflow then
    nextBack m { it with v := Win.empty }
  else do
    let e ← usub m it.v.len adj
    let v ← it.v.getTo e
    nextBack m { it with v := v }

/-- `last` src/iter.rs:73-75, 184-186 -/
def last (m : Mode) (it : Rows) : Res (Option Win) := do
  let (x, _) ← nextBack m it
  pure x

/-- `Iterator::fold` (std default: call `next` until `None`), collecting the items.  Fuelled. -/
def collect : Nat → Rows → Res (List Win)
  | 0, _ => pure []
  | fuel + 1, it => do
    let (x, it') ← next it
    match x with
    | none => pure []
    | some w => do
      let rest ← collect fuel it'
      pure (w :: rest)

/-- `DoubleEndedIterator::rfold` (std default: `next_back` until `None`), collecting in visiting order. -/
def collectBack (m : Mode) : Nat → Rows → Res (List Win)
  | 0, _ => pure []
  | fuel + 1, it => do
    let (x, it') ← nextBack m it
    match x with
    | none => pure []
    | some w => do
      let rest ← collectBack m fuel it'
      pure (w :: rest)

end Rows

/-- src/iter.rs:237-240 (`Col`), 349-352 (`ColMut`) -/
structure Col where
  v : Win
  skip : Nat
deriving Repr, DecidableEq

namespace Col

/-- `Index<usize>` src/iter.rs:252-256 (`Col`), 365-369 and `IndexMut` 382-386 (`ColMut`) -/
def index (m : Mode) (it : Col) (idx : Nat) : Res Nat := do
  let s ← uadd m 1 it.skip
  let (pos, overflow) := omul idx s
  if overflow then throw .panic
  it.v.index pos

/-- `next` src/iter.rs:264-278 (`Col`), 394-409 (`ColMut`) -/
def next (it : Col) : Res (Option Nat × Col) :=
  if it.v.len = 0 then pure (none, it)
  else
    let fst := it.v.off
    let snd : Win := ⟨it.v.off + 1, it.v.len - 1⟩
    if snd.len = 0 then pure (some fst, { it with v := Win.empty })
    else do
      let v ← snd.getFrom it.skip
      pure (some fst, { it with v := v })

/-- `size_hint` src/iter.rs:281-286, 412-417 (`len()`/`count()` return the same number) -/
def sizeHint (m : Mode) (it : Col) : Res Nat := do
  let denom ← uadd m 1 it.skip
  let q ← udiv it.v.len denom
  let r ← urem it.v.len denom
  pure (q + r)

/-- `nth` src/iter.rs:294-304, 425-435 -/
def nth (m : Mode) (it : Col) (n : Nat) : Res (Option Nat × Col) := do
  let d ← uadd m 1 it.skip
  let (start, overflow) := omul n d
  if start ≥ it.v.len ∨ overflow then
    next { it with v := Win.empty }
  else do
    let (_, snd) ← it.v.splitAt start
    next { it with v := snd }

/-- `next_back` src/iter.rs:314-328 (`Col`), 445-461 (`ColMut`) -/
def nextBack (m : Mode) (it : Col) : Res (Option Nat × Col) :=
  if it.v.len = 0 then pure (none, it)
  else
    let last := it.v.off + (it.v.len - 1)
    let fst : Win := ⟨it.v.off, it.v.len - 1⟩
    if fst.len = 0 then pure (some last, { it with v := Win.empty })
    else do
      let e ← usub m fst.len it.skip
      let v ← fst.getTo e
      pure (some last, { it with v := v })

/-- `nth_back` src/iter.rs:331-342 (`Col`), 464-479 (`ColMut`, fixed) -/
def nthBack (m : Mode) (it : Col) (n : Nat) : Res (Option Nat × Col) := do
  let d ← uadd m 1 it.skip
  let (adj, overflow) := omul n d
  if adj ≥ it.v.len ∨ overflow then
    nextBack m { it with v := Win.empty }
  else do
    let e ← usub m it.v.len adj
    let v ← it.v.getTo e
    nextBack m { it with v := v }

/-- `last` src/iter.rs:307-309, 438-440 -/
def last (m : Mode) (it : Col) : Res (Option Nat) := do
  let (x, _) ← nextBack m it
  pure x

def collect : Nat → Col → Res (List Nat)
  | 0, _ => pure []
  | fuel + 1, it => do
    let (x, it') ← next it
    match x with
    | none => pure []
    | some w => do
      let rest ← collect fuel it'
      pure (w :: rest)

def collectBack (m : Mode) : Nat → Col → Res (List Nat)
  | 0, _ => pure []
  | fuel + 1, it => do
    let (x, it') ← nextBack m it
    match x with
    | none => pure []
    | some w => do
      let rest ← collectBack m fuel it'
      pure (w :: rest)

end Col

/-! ### constructors of the iterators from the three receivers -/

/-- `TooDee::rows` src/toodee.rs:184-190, `rows_mut` 265-271 -/
def TD.rows {α : Type} (t : TD α) : Rows := ⟨t.win, t.numCols, 0⟩

/-- `TooDeeView::rows` src/view.rs:179-185, `TooDeeViewMut::rows` 337-343, `rows_mut` 399-405 -/
def VW.rows (m : Mode) (v : VW) : Res Rows := do
  let skip ← usub m v.stride v.numCols
  pure ⟨v.data, v.numCols, skip⟩

/-- `TooDee::col` / `col_mut` -/
def TD.col {α : Type} (m : Mode) (t : TD α) (c : Nat) : Res Col := do
  let (w, skip) ← t.colParams m c
  pure ⟨w, skip⟩

/-- `TooDeeView::col`, `TooDeeViewMut::col` / `col_mut` -/
def VW.col (m : Mode) (v : VW) (c : Nat) : Res Col := do
  let (w, skip) ← v.colParams m c
  pure ⟨w, skip⟩

/-- `From<TooDeeView<T>> for TooDee<T>` src/toodee.rs (and the identical `From<TooDeeViewMut<T>>`):
    `Vec::with_capacity(num_cols * num_rows)`, then `extend_from_slice` row by row. -/
def VW.toOwned {α : Type} (m : Mode) (capLimit : Nat) (v : VW) (buf : List α) : Res (TD α) := do
  let numCols := v.numCols
  let numRows := v.numRows
  let n ← umul m numCols numRows
  if !allocOk capLimit n then throw .panic
  let rows ← v.rows m
  let ws ← rows.collect (rows.v.len + 2)
  pure ⟨(ws.map fun w => (buf.drop w.off).take w.len).flatten, numRows, numCols⟩

end Toodee
