import Toodee.Impl.TooDee
import Toodee.Impl.Iter
import Toodee.Impl.Flatten
import Toodee.Base.Buf
/-
  Impl-model of src/serde.rs (after the `fix:` commits: field-identifier keys, one-zero-dimension check) over an abstract
  JSON-like document.  `serde`/`serde_json` tokenisation and number handling are assumed components: a document
  arrives as a value tree; the four transports (str, slice, reader, value) all present the same tree to the visitor.
-/
namespace Toodee

/-- an abstract document value.  `num n` = a non-negative integer literal (any size); `other` = anything that is
    neither (negative, fractional, string, null, bool, nested object in a place where a number/array is expected …). -/
inductive JVal
  | num (n : Nat)
  | arr (xs : List JVal)
  | obj (kvs : List (String × JVal))
  | other
deriving Repr

/-- outcome of deserialisation -/
inductive DeRes (α : Type)
  | ok (t : TD α)
  | err
  | panic
deriving Repr

/-- `next_value::<usize>()`: a non-negative integer that fits a `usize` -/
def decUsize : JVal → Option Nat
  | .num n => if n < WORD then some n else none
  | _ => none

/-- `next_value::<Vec<T>>()` with element decoder `dec` -/
def decVec {α : Type} (dec : JVal → Option α) : JVal → Option (List α)
  | .arr xs => xs.mapM dec
  | _ => none

/-- the `while let Some(key) = visitor.next_key::<Field>()?` loop of `visit_map` src/serde.rs -/
def visitLoop {α : Type} (dec : JVal → Option α) :
    List (String × JVal) → Option Nat → Option Nat → Option (List α) → Option (Option Nat × Option Nat × Option (List α))
  | [], nc, nr, d => some (nc, nr, d)
  | (k, v) :: rest, nc, nr, d =>
    if k = "num_cols" then
      if nc.isSome then none                       -- duplicate_field
      else match decUsize v with
        | some n => visitLoop dec rest (some n) nr d
        | none => none
    else if k = "num_rows" then
      if nr.isSome then none
      else match decUsize v with
        | some n => visitLoop dec rest nc (some n) d
        | none => none
    else if k = "data" then
      match decVec dec v with
      | some xs => visitLoop dec rest nc nr (some xs)   -- a repeated "data" key overwrites
      | none => none
    else none                                       -- unknown field

/-- `TooDeeVisitor::visit_map` + `Deserialize::deserialize` (`deserialize_map`: the document must be an object) -/
def deserialize {α : Type} (dec : JVal → Option α) (doc : JVal) : DeRes α :=
  match doc with
  | .obj kvs =>
    match visitLoop dec kvs none none none with
    | some (some nc, some nr, some data) =>
      let (product, overflow) := omul nc nr
      if overflow then .err
      else if product ≠ data.length then .err
      else if (nc = 0) ≠ (nr = 0) then .err
      else match TD.fromVec nc nr data with
        | .ok t => .ok t
        | .error _ => .panic
    | _ => .err                                      -- an element error or a missing field
  | _ => .err

/-- derived `Serialize` of `TooDee` (field order of the struct: data, num_rows, num_cols) -/
def serializeOwned {α : Type} (enc : α → JVal) (t : TD α) : JVal :=
  .obj [("data", .arr (t.data.map enc)), ("num_rows", .num t.numRows), ("num_cols", .num t.numCols)]

/-- `Serialize for TooDeeView<'_, u32>` / `TooDeeViewMut<'_, u32>` src/serde.rs: num_cols, num_rows, `cells().collect()` -/
def serializeView {α : Type} (enc : α → JVal) (numCols numRows : Nat) (cells : List α) : JVal :=
  .obj [("num_cols", .num numCols), ("num_rows", .num numRows), ("data", .arr (cells.map enc))]

/-- `Serialize for TooDeeView<'_, u32>` / `TooDeeViewMut<'_, u32>` as written (src/serde.rs:98-122): the dimensions, then
    `self.cells().collect::<Vec<_>>()` — the `FlattenExact` cursor over `rows()`, folded -/
def VW.serialize {α : Type} (m : Mode) (enc : α → JVal) (v : VW) (buf : List α) : Res JVal := do
  let rows ← v.rows m
  let ps ← (Flat.new rows).collect (rows.v.len + 3)
  pure (serializeView enc v.numCols v.numRows (ps.filterMap fun p => buf[p]?))

end Toodee
