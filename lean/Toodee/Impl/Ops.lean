import Toodee.Base.Buf
import Toodee.Impl.Iter
/-
  Impl-model of the in-place primitives: the `TooDeeOpsMut` trait defaults (src/ops.rs:183-315), the
  `TooDee` overrides (src/toodee.rs:300-303, 321-341, 386-396) and the `TooDeeViewMut::swap_rows` override
  (src/view.rs:433-453).  Trait defaults see the implementor only through `num_cols()`, `num_rows()` and
  `rows_mut()`; they take those three as arguments (`Acc`).
  Every function maps the root buffer to the new root buffer.
-/
namespace Toodee
variable {α : Type}

/-- what a `TooDeeOpsMut` default method can observe of its implementor -/
structure Acc where
  numCols : Nat
  numRows : Nat
  rows : Rows            -- `self.rows_mut()`
deriving Repr

def TD.acc (t : TD α) : Acc := ⟨t.numCols, t.numRows, t.rows⟩
def VW.acc (m : Mode) (v : VW) : Res Acc := do
  let r ← v.rows m
  pure ⟨v.numCols, v.numRows, r⟩

/-- `Option::unwrap` -/
def unwrapWin : Option Win → Res Win
  | some w => pure w
  | none => throw .panic

/-- `slice.fill(v)` on a window (std) -/
def fillWin (buf : List α) (w : Win) (v : α) : List α := writeWin buf w (List.replicate w.len v)

/-! #### fill -/

/-- `TooDee::fill` override src/toodee.rs:300-303: `self.data.fill(fill)` -/
def TD.fill (t : TD α) (v : α) : List α := List.replicate t.data.length v

/-- default `fill` src/ops.rs:183-188 -/
def Acc.fill (a : Acc) (buf : List α) (v : α) : Res (List α) := do
  let rows ← a.rows.collect (a.rows.v.len + 2)
  pure (rows.foldl (fun b w => fillWin b w v) buf)

/-! #### swap_rows -/

/-- `TooDee::swap_rows` override src/toodee.rs:321-341 -/
def TD.swapRows (m : Mode) (t : TD α) (r1 r2 : Nat) : Res (List α) := do
  if ¬ (r1 < t.numRows ∧ r2 < t.numRows) then throw .panic
  if r1 = r2 then pure t.data
  else do
    let (r1, r2) := if r2 < r1 then (r2, r1) else (r1, r2)
    if ¬ r2 < t.numRows then throw .panic
    let numCols := t.numCols
    let s ← umul m r1 numCols
    let tail ← t.win.getFrom s
    let (first, rest) ← tail.splitAt numCols
    let d ← usub m r2 r1
    let d ← usub m d 1
    let sndIdx ← umul m d numCols
    let e ← uadd m sndIdx numCols
    let second ← rest.getRange sndIdx e
    if m = .debug ∧ ¬ (first.len = numCols ∧ second.len = numCols) then throw .panic
    pure (gather t.data (swapWinMap first second))

/-- `TooDeeViewMut::swap_rows` override src/view.rs:433-453 -/
def VW.swapRows (m : Mode) (v : VW) (buf : List α) (r1 r2 : Nat) : Res (List α) := do
  if ¬ (r1 < v.numRows ∧ r2 < v.numRows) then throw .panic
  if r1 = r2 then pure buf
  else do
    let (r1, r2) := if r2 < r1 then (r2, r1) else (r1, r2)
    if ¬ r2 < v.numRows then throw .panic
    let numCols := v.numCols
    let s ← umul m r1 v.stride
    let tail ← v.data.getFrom s
    let (first, rest) ← tail.splitAt numCols
    let d ← usub m r2 r1
    let d ← umul m d v.stride
    let sndIdx ← usub m d numCols
    let e ← uadd m sndIdx numCols
    let second ← rest.getRange sndIdx e
    if m = .debug ∧ ¬ (first.len = numCols ∧ second.len = numCols) then throw .panic
    pure (gather buf (swapWinMap first second))

/-- default `swap_rows` src/ops.rs:274-286 -/
def Acc.swapRows (m : Mode) (a : Acc) (buf : List α) (r1 r2 : Nat) : Res (List α) := do
  if ¬ (r1 < a.numRows ∧ r2 < a.numRows) then throw .panic
  if r1 = r2 then pure buf
  else do
    let (r1, r2) := if r2 < r1 then (r2, r1) else (r1, r2)
    let (x, it) ← a.rows.nth m r1
    let tmp ← unwrapWin x
    let d ← usub m r2 r1
    let d ← usub m d 1
    let (y, _) ← it.nth m d
    let other ← unwrapWin y
    if tmp.len ≠ other.len then throw .panic     -- swap_with_slice length check
    pure (gather buf (swapWinMap tmp other))

/-! #### swap (two cells) -/

/-- `TooDee::swap` override src/toodee.rs:386-396 -/
def TD.swap (m : Mode) (t : TD α) (c1 r1 c2 r2 : Nat) : Res (List α) := do
  let numCols := t.numCols
  let numRows := t.numRows
  if ¬ (c1 < numCols ∧ c2 < numCols) then throw .panic
  if ¬ (r1 < numRows ∧ r2 < numRows) then throw .panic
  let a ← umul m r1 numCols
  let a ← uadd m a c1
  let pa ← t.win.getIdx a
  let b ← umul m r2 numCols
  let b ← uadd m b c2
  let pb ← t.win.getIdx b
  pure (gather t.data (swapPosMap pa pb))

/-- default `swap` src/ops.rs:233-255 -/
def Acc.swap (m : Mode) (a : Acc) (buf : List α) (cell1 cell2 : Nat × Nat) : Res (List α) := do
  let (cell1, cell2) := if cell1.2 > cell2.2 then (cell2, cell1) else (cell1, cell2)
  let numCols := a.numCols
  if ¬ (cell1.1 < numCols ∧ cell2.1 < numCols) then throw .panic
  let (x, it) ← a.rows.nth m cell1.2
  let row1 ← unwrapWin x
  if cell1.2 = cell2.2 then do
    let pa ← row1.getIdx cell1.1
    let pb ← row1.getIdx cell2.1
    pure (gather buf (swapPosMap pa pb))
  else do
    let d ← usub m cell2.2 cell1.2
    let d ← usub m d 1
    let (y, _) ← it.nth m d
    let row2 ← unwrapWin y
    let pa ← row1.getIdx cell1.1
    let pb ← row2.getIdx cell2.1
    pure (gather buf (swapPosMap pa pb))

/-! #### swap_cols, row_pair_mut -/

/-- default `swap_cols` src/ops.rs:204-217 (never overridden) -/
def Acc.swapCols (a : Acc) (buf : List α) (c1 c2 : Nat) : Res (List α) := do
  if ¬ c1 < a.numCols then throw .panic
  if ¬ c2 < a.numCols then throw .panic
  let rows ← a.rows.collect (a.rows.v.len + 2)
  rows.foldlM (fun b r => do
    let pa ← r.getIdx c1
    let pb ← r.getIdx c2
    pure (gather b (swapPosMap pa pb))) buf

/-- default `row_pair_mut` src/ops.rs:301-315 (never overridden) -/
def Acc.rowPairMut (m : Mode) (a : Acc) (r1 r2 : Nat) : Res (Win × Win) := do
  if ¬ r1 < a.numRows then throw .panic
  if ¬ r2 < a.numRows then throw .panic
  if r1 = r2 then throw .panic
  if r1 < r2 then do
    let (x, it) ← a.rows.nth m r1
    let tmp ← unwrapWin x
    let d ← usub m r2 r1
    let d ← usub m d 1
    let (y, _) ← it.nth m d
    let o ← unwrapWin y
    pure (tmp, o)
  else do
    let (x, it) ← a.rows.nth m r2
    let tmp ← unwrapWin x
    let d ← usub m r1 r2
    let d ← usub m d 1
    let (y, _) ← it.nth m d
    let o ← unwrapWin y
    pure (o, tmp)

end Toodee
