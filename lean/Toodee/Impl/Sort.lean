import Toodee.Impl.Ops
/-
  Impl-model of `SortOps` (src/sort.rs).  The side sort is a std component: `sort_by` is *the* stable sort
  (unique result for a total preorder; modelled by `List.mergeSort`), `sort_unstable_by` returns *some* sorted
  permutation (a model input constrained by that contract).
-/
namespace Toodee
variable {α : Type}

/-- first loop of `build_swap_trace` src/sort.rs:15-23: the reverse lookup.
    `ord` holds `(v, _)`; afterwards entry `v` has `.2 = idx` for each `idx`. -/
def bstInverse (ord : Array (Nat × Nat)) : Nat → Nat → Res (Array (Nat × Nat))
  | 0, _ => pure ord
  | k + 1, idx => do
    -- get_unchecked(idx)
    if h : idx < ord.size then
      let v := ord[idx].1
      -- get_unchecked_mut(v)
      if h2 : v < ord.size then
        bstInverse (ord.set v (ord[v].1, idx)) k (idx + 1)
      else throw .ub
    else throw .ub
termination_by k _ => k

/-- second loop of `build_swap_trace` src/sort.rs:25-42 -/
def bstTrace (ord : Array (Nat × Nat)) (swapCount : Nat) : Nat → Nat → Res (Array (Nat × Nat) × Nat)
  | 0, _ => pure (ord, swapCount)
  | k + 1, i => do
    if h : i < ord.size then
      let (other, inv_i) := ord[i]
      if i ≠ other then
        if h1 : swapCount < ord.size then
          let ord1 := ord.set swapCount (i, other)
          let sc := swapCount + 1
          if inv_i > i then
            if h2 : inv_i < ord1.size then
              let ord2 := ord1.set inv_i (other, ord1[inv_i].2)
              if h3 : other < ord2.size then
                let ord3 := ord2.set other (ord2[other].1, inv_i)
                bstTrace ord3 sc k (i + 1)
              else throw .ub
            else throw .ub
          else bstTrace ord1 sc k (i + 1)
        else throw .ub
      else bstTrace ord swapCount k (i + 1)
    else throw .ub
termination_by k _ => k

/-- `build_swap_trace` src/sort.rs:10-46; input: `p[k]` = original index that must end at position `k` -/
def buildSwapTrace (p : List Nat) : Res (List (Nat × Nat)) := do
  let ord : Array (Nat × Nat) := (p.map fun v => (v, 0)).toArray
  let len := ord.size
  let ord ← bstInverse ord len 0
  let (ord, sc) ← bstTrace ord 0 len 0
  -- &mut ordering[..swap_count]
  if sc ≤ ord.size then pure (ord.toList.take sc) else throw .panic

/-- the stable side sort `sort_data.sort_by(|i,j| compare(i.1, j.1))` src/sort.rs:88, 182 on `(index,key)`
    pairs; returns the permutation (original indices in sorted order) -/
def stablePerm (le : α → α → Bool) (keys : List α) : List Nat :=
  ((keys.zipIdx).mergeSort fun a b => le a.1 b.1).map (·.2)

/-- apply the swap trace to one row window: `ptr::swap(r.get_unchecked_mut(i.0), r.get_unchecked_mut(i.1))` src/sort.rs:97-108, 130-141 -/
def applyTraceRow (buf : List α) (r : Win) (trace : List (Nat × Nat)) : Res (List α) :=
  trace.foldlM (fun b ij => do
    let pa ← r.getIdx ij.1
    let pb ← r.getIdx ij.2
    pure (gather b (swapPosMap pa pb))) buf

/-- The side sort as the trait method uses it: `sort_data.sort_by(|i,j| compare(i.1, j.1))` or `sort_unstable_by(..)` on the side
    table of `(index, &key)` pairs (src/sort.rs:88, 121, 182, 201).  It is the only place where caller code (the comparator, or
    the key function wrapped into it) runs: a panic there unwinds out of the sort (`.error .panic`); otherwise the sort returns the
    permutation (original indices in sorted order).  `List α` = the keys in their original order. -/
abbrev SideSort (α : Type) := List α → Res (List Nat)

/-- `sort_by` with a comparator that does not panic: *the* stable sort -/
def sideStable (le : α → α → Bool) : SideSort α := fun keys => pure (stablePerm le keys)

/-- `sort_unstable_by` with a comparator that does not panic: *some* permutation `p` (a model input, constrained by std's
    contract: a permutation of the indices — a `p` that is not one stands for nothing std can return, and is rejected) -/
def sideGiven (p : List Nat) : SideSort α := fun keys =>
  if p.Perm (List.range keys.length) then pure p else throw .panic

/-- `collect::<Box<[(usize, &T)]>>()` of `n` pairs (16 bytes each, whatever `T` is): "capacity overflow" panic beyond
    `sideLimit = isize::MAX / 16`.  (Allocation failure below that aborts: outside the model.) -/
def sideAllocOk (sideLimit n : Nat) : Bool := n ≤ sideLimit

/-- body of `sort_by_row` / `sort_unstable_by_row` after the side sort produced permutation `p`
    (src/sort.rs:92-108, 125-141) -/
def Acc.applyColPerm (a : Acc) (buf : List α) (p : List Nat) : Res (List α) := do
  let trace ← buildSwapTrace p
  let rows ← a.rows.collect (a.rows.v.len + 2)
  rows.foldlM (fun b r => applyTraceRow b r trace) buf

/-- `sort_by_row` src/sort.rs:80-109 and `sort_unstable_by_row` 113-142 (identical up to the side sort called).
    `indexRow` = the implementor's `Index<usize>`.  Nothing is written to the array before the side sort has returned. -/
def Acc.sortRowWith (a : Acc) (indexRow : Nat → Res Win) (buf : List α) (sideLimit : Nat) (side : SideSort α) (row : Nat) :
    Res (List α) := do
  if ¬ row < a.numRows then throw .panic
  let w ← indexRow row
  let keys := readWin buf w
  if !sideAllocOk sideLimit keys.length then throw .panic
  let p ← side keys
  a.applyColPerm buf p

/-- `sort_by_row(row, compare)` src/sort.rs:80-109 -/
def Acc.sortByRow (a : Acc) (indexRow : Nat → Res Win) (buf : List α) (sideLimit : Nat) (le : α → α → Bool) (row : Nat) :
    Res (List α) := a.sortRowWith indexRow buf sideLimit (sideStable le) row

/-- `sort_unstable_by_row(row, compare)` src/sort.rs:113-142 with the side sort's result `p` supplied -/
def Acc.sortUnstableByRow (a : Acc) (indexRow : Nat → Res Win) (buf : List α) (sideLimit : Nat) (p : List Nat) (row : Nat) :
    Res (List α) := a.sortRowWith indexRow buf sideLimit (sideGiven p) row

/-- `sort_by_row_key(row, f)` src/sort.rs:147-153: `self.sort_by_row(row, |a, b| f(a).cmp(&f(b)))`; `leK` = `B: Ord` -/
def Acc.sortByRowKey {κ : Type} (a : Acc) (indexRow : Nat → Res Win) (buf : List α) (sideLimit : Nat) (key : α → κ)
    (leK : κ → κ → Bool) (row : Nat) : Res (List α) :=
  a.sortByRow indexRow buf sideLimit (fun x y => leK (key x) (key y)) row

/-- `sort_unstable_by_row_key(row, f)` src/sort.rs:158-164 -/
def Acc.sortUnstableByRowKey (a : Acc) (indexRow : Nat → Res Win) (buf : List α) (sideLimit : Nat) (p : List Nat) (row : Nat) :
    Res (List α) := a.sortUnstableByRow indexRow buf sideLimit p row

/-- `sort_row_ord(row)` src/sort.rs:68-70: `self.sort_by_row(row, T::cmp)`; `leOrd` = `T: Ord` -/
def Acc.sortRowOrd (a : Acc) (indexRow : Nat → Res Win) (buf : List α) (sideLimit : Nat) (leOrd : α → α → Bool) (row : Nat) :
    Res (List α) := a.sortByRow indexRow buf sideLimit leOrd row

/-- `sort_unstable_row_ord(row)` src/sort.rs:74-76 -/
def Acc.sortUnstableRowOrd (a : Acc) (indexRow : Nat → Res Win) (buf : List α) (sideLimit : Nat) (p : List Nat) (row : Nat) :
    Res (List α) := a.sortUnstableByRow indexRow buf sideLimit p row

/-- body of `sort_by_col` / `sort_unstable_by_col` after the side sort (src/sort.rs:184-190, 204-210);
    `swapRows` = the implementor's `swap_rows` (overridden by `TooDee` and `TooDeeViewMut`) -/
def applyRowPerm (swapRows : List α → Nat → Nat → Res (List α)) (buf : List α) (p : List Nat) : Res (List α) := do
  let trace ← buildSwapTrace p
  trace.foldlM (fun b ij => swapRows b ij.1 ij.2) buf

/-- `sort_by_col` src/sort.rs:174-191 and `sort_unstable_by_col` 195-211 (identical up to the side sort called).
    `col` = the implementor's `col()`. -/
def Acc.sortColWith (a : Acc) (col : Nat → Res Col) (swapRows : List α → Nat → Nat → Res (List α))
    (buf : List α) (sideLimit : Nat) (side : SideSort α) (c : Nat) : Res (List α) := do
  if ¬ c < a.numCols then throw .panic
  let it ← col c
  let ps ← it.collect (it.v.len + 2)
  let keys := ps.filterMap fun p => buf[p]?
  if !sideAllocOk sideLimit keys.length then throw .panic
  let p ← side keys
  applyRowPerm swapRows buf p

/-- `sort_by_col(col, compare)` src/sort.rs:174-191 -/
def Acc.sortByCol (a : Acc) (col : Nat → Res Col) (swapRows : List α → Nat → Nat → Res (List α))
    (buf : List α) (sideLimit : Nat) (le : α → α → Bool) (c : Nat) : Res (List α) :=
  a.sortColWith col swapRows buf sideLimit (sideStable le) c

/-- `sort_unstable_by_col(col, compare)` src/sort.rs:195-211 with the side sort's result supplied -/
def Acc.sortUnstableByCol (a : Acc) (col : Nat → Res Col) (swapRows : List α → Nat → Nat → Res (List α))
    (buf : List α) (sideLimit : Nat) (p : List Nat) (c : Nat) : Res (List α) :=
  a.sortColWith col swapRows buf sideLimit (sideGiven p) c

/-- `sort_by_col_key(col, f)` src/sort.rs:216-222 (after `fix:` 092e8d9 it delegates to `sort_by_col`) -/
def Acc.sortByColKey {κ : Type} (a : Acc) (col : Nat → Res Col) (swapRows : List α → Nat → Nat → Res (List α))
    (buf : List α) (sideLimit : Nat) (key : α → κ) (leK : κ → κ → Bool) (c : Nat) : Res (List α) :=
  a.sortByCol col swapRows buf sideLimit (fun x y => leK (key x) (key y)) c

/-- `sort_unstable_by_col_key(col, f)` src/sort.rs:227-233 -/
def Acc.sortUnstableByColKey (a : Acc) (col : Nat → Res Col) (swapRows : List α → Nat → Nat → Res (List α))
    (buf : List α) (sideLimit : Nat) (p : List Nat) (c : Nat) : Res (List α) :=
  a.sortUnstableByCol col swapRows buf sideLimit p c

/-- `sort_col_ord(col)` src/sort.rs:168-170 -/
def Acc.sortColOrd (a : Acc) (col : Nat → Res Col) (swapRows : List α → Nat → Nat → Res (List α))
    (buf : List α) (sideLimit : Nat) (leOrd : α → α → Bool) (c : Nat) : Res (List α) :=
  a.sortByCol col swapRows buf sideLimit leOrd c

end Toodee
