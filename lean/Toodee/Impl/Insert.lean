import Toodee.Base.Mem
import Toodee.Impl.TooDee
/-
  Impl-model of `insert_row` / `push_row` / `insert_col` / `push_col` (src/toodee.rs, after the `fix:` commits:
  dimensions follow the shortened `Vec` during the critical section; the fill loop is counted).
-/
namespace Toodee
variable {α : Type}

/-- result of an operation that runs caller code: the array afterwards (also after a panic), the outcome,
    the iterator events not consumed, and the elements that were leaked (owned by nobody afterwards). -/
structure InsOut (α : Type) where
  t : TD α
  res : Res Unit
  rest : List (Option α)
  leaked : List α
deriving Repr

/-- the counted fill loop of `insert_row` src/toodee.rs: `for _ in 0..num_cols { match iter.next() … ptr::write(p, e); p = p.add(1) }`.
    Returns the buffer, the remaining events, how many cells were written, and an error if any. -/
def fillLoop : Nat → List (Option α) → List α → Nat → List α × List (Option α) × Nat × Option Err
  | 0, ev, buf, _ => (buf, ev, 0, none)
  | _ + 1, [], buf, _ => (buf, [], 0, some .panic)            -- `None`: "unexpected iterator length"
  | _ + 1, none :: ev, buf, _ => (buf, ev, 0, some .panic)    -- caller's `next()` panicked
  | k + 1, some e :: ev, buf, p =>
    if p < buf.length then
      let (b, ev', n, err) := fillLoop k ev (buf.set p e) (p + 1)
      (b, ev', n + 1, err)
    else (buf, ev, 0, some .ub)

/-- `debug_assert!(iter.next().is_none(), "iterator not exhausted")`: returns remaining events and outcome -/
def debugExhausted (m : Mode) (ev : List (Option α)) : List (Option α) × Option Err × List α :=
  match m with
  | .release => (ev, none, [])
  | .debug =>
    match ev with
    | [] => ([], none, [])
    | none :: ev' => (ev', some .panic, [])
    | some x :: ev' => (ev', some .panic, [x])       -- the pulled item is dropped by the assertion's temporaries

/-- `insert_row` src/toodee.rs (post-fix).  `spare` = the cells beyond `len` after `reserve`. -/
def TD.insertRow (m : Mode) (capLimit : Nat) (t : TD α) (index : Nat) (it : IterScript α) (spare : List α) : InsOut α :=
  if ¬ index ≤ t.numRows then ⟨t, throw .panic, it.events, []⟩
  else
    let numRows := t.numRows
    let lenOk : Bool := numRows == 0 || t.numCols == it.claimed
    if !lenOk then ⟨t, throw .panic, it.events, []⟩
    else
      let numCols := if numRows = 0 then it.claimed else t.numCols
      if !reserveOk capLimit t.data.length numCols then ⟨t, throw .panic, it.events, []⟩
      else if spare.length < numCols then ⟨t, throw .ub, it.events, []⟩      -- reserve contract violated (never, by assumption)
      else
        match umul m index numCols with
        | .error e => ⟨t, throw e, it.events, []⟩
        | .ok start =>
          let len := t.data.length
          let buf := t.data ++ spare
          -- set_len(start); dimensions follow: state seen by an unwinding panic from here on
          let tPanic : TD α := ⟨t.data.take start, index, if index = 0 then 0 else t.numCols⟩
          if ¬ start ≤ len then ⟨tPanic, throw .ub, it.events, []⟩
          else
            match memmoveChecked buf start (start + numCols) (len - start) with
            | .error e => ⟨tPanic, throw e, it.events, []⟩
            | .ok buf =>
              let suffix := (t.data.drop start)
              let (buf, ev, written, err) := fillLoop numCols it.events buf start
              match err with
              | some e => ⟨tPanic, throw e, ev, (buf.drop start).take written ++ suffix⟩
              | none =>
                let (ev, err, droppedItem) := debugExhausted m ev
                match err with
                | some e => ⟨tPanic, throw e, ev ++ droppedItem.map some, (buf.drop start).take written ++ suffix⟩
                | none =>
                  let newLen := len + numCols
                  ⟨⟨buf.take newLen, if numCols > 0 then numRows + 1 else numRows, numCols⟩, pure (), ev, []⟩

/-- `push_row` src/toodee.rs:660-665 -/
def TD.pushRow (m : Mode) (capLimit : Nat) (t : TD α) (it : IterScript α) (spare : List α) : InsOut α :=
  t.insertRow m capLimit t.numRows it spare

/-- the `for _ in 0..(num_rows - 1)` loop of `insert_col`: events are the caller's items **in the order the reversed
    iterator yields them**.  State `(buf, read_p, write_p)`. -/
def insColLoop (numCols : Nat) : Nat → List (Option α) → List α → Nat → Nat →
    List α × List (Option α) × Nat × Nat × Nat × Option Err
  | 0, ev, buf, rp, wp => (buf, ev, rp, wp, 0, none)
  | k + 1, ev, buf, rp, wp =>
    if rp < numCols ∨ wp < numCols then (buf, ev, rp, wp, 0, some .ub)     -- ptr::sub below the allocation
    else
      let rp := rp - numCols
      let wp := wp - numCols
      match memmoveChecked buf rp wp numCols with
      | .error e => (buf, ev, rp, wp, 0, some e)
      | .ok buf =>
        if wp < 1 then (buf, ev, rp, wp, 0, some .ub)
        else
          let wp := wp - 1
          match ev with
          | [] => (buf, [], rp, wp, 0, some .panic)              -- "unexpected iterator length"
          | none :: ev => (buf, ev, rp, wp, 0, some .panic)
          | some x :: ev =>
            match ptrWrite buf wp x with
            | .error e => (buf, ev, rp, wp, 0, some e)
            | .ok buf =>
              let (b, ev', rp', wp', n, err) := insColLoop numCols k ev buf rp wp
              (b, ev', rp', wp', n + 1, err)

/-- items successfully pulled from the script: the `some` entries among the consumed prefix -/
def pulled (all rem : List (Option α)) : List α :=
  (all.take (all.length - rem.length)).filterMap id

/-- the critical section of `insert_col` (between `set_len(0)` and `set_len(new_len)`): returns the new buffer or an
    error, and the remaining (reversed-order) events -/
def insertColCrit (m : Mode) (numCols numRows index oldLen newLen suffixLen : Nat) (buf : List α)
    (ev : List (Option α)) : Res (List α) × List (Option α) :=
  if numRows > 0 then
    if oldLen < suffixLen ∨ newLen < suffixLen then (throw .ub, ev)
    else
      let rp := oldLen - suffixLen
      let wp := newLen - suffixLen
      match memmoveChecked buf rp wp suffixLen with
      | .error e => (throw e, ev)
      | .ok buf =>
        if wp < 1 then (throw .ub, ev)
        else
          let wp := wp - 1
          match ev with
          | [] => (throw .panic, [])
          | none :: ev => (throw .panic, ev)
          | some x :: ev =>
            match ptrWrite buf wp x with
            | .error e => (throw e, ev)
            | .ok buf =>
              let (buf, ev, rp, wp, _, err) := insColLoop numCols (numRows - 1) ev buf rp wp
              match err with
              | some e => (throw e, ev)
              | none =>
                if rp < index ∨ wp < index then (throw .ub, ev)
                else
                  match memmoveChecked buf (rp - index) (wp - index) index with
                  | .error e => (throw e, ev)
                  | .ok buf =>
                    let (ev, err, droppedItem) := debugExhausted m ev
                    match err with
                    | some e => (throw e, droppedItem.map some ++ ev)
                    | none => (pure buf, ev)
  else
    let (ev, err, droppedItem) := debugExhausted m ev
    match err with
    | some e => (throw e, droppedItem.map some ++ ev)
    | none => (pure buf, ev)

/-- `insert_col` src/toodee.rs (post-fix).  `it.events` are in *forward* order; the crate consumes `rev()`. -/
def TD.insertCol (m : Mode) (capLimit : Nat) (t : TD α) (index : Nat) (it : IterScript α) (spare : List α) : InsOut α :=
  if ¬ index ≤ t.numCols then ⟨t, throw .panic, it.events, []⟩
  else
    let numCols := t.numCols
    let lenOk : Bool := numCols == 0 || t.numRows == it.claimed
    if !lenOk then ⟨t, throw .panic, it.events, []⟩
    else
      let numRows := if numCols = 0 then it.claimed else t.numRows
      if !reserveOk capLimit t.data.length numRows then ⟨t, throw .panic, it.events, []⟩
      else if spare.length < numRows then ⟨t, throw .ub, it.events, []⟩
      else
        let oldLen := t.data.length
        match uadd m oldLen numRows, usub m numCols index with
        | .error e, _ => ⟨t, throw e, it.events, []⟩
        | _, .error e => ⟨t, throw e, it.events, []⟩
        | .ok newLen, .ok suffixLen =>
          let buf := t.data ++ spare
          let ev := it.events.reverse
          match insertColCrit m numCols numRows index oldLen newLen suffixLen buf ev with
          | (.error e, rem) =>
            -- set_len(0) and zeroed dimensions: what an unwinding panic leaves behind; everything else is leaked
            ⟨⟨[], 0, 0⟩, throw e, rem.reverse, pulled ev rem ++ t.data⟩
          | (.ok buf, rem) =>
            if numRows > 0 then ⟨⟨buf.take newLen, numRows, numCols + 1⟩, pure (), rem.reverse, []⟩
            else ⟨⟨buf.take newLen, 0, 0⟩, pure (), rem.reverse, []⟩

/-- `push_col` src/toodee.rs -/
def TD.pushCol (m : Mode) (capLimit : Nat) (t : TD α) (it : IterScript α) (spare : List α) : InsOut α :=
  t.insertCol m capLimit t.numCols it spare

end Toodee
