import Toodee.Base.Mem
import Toodee.Impl.Iter
/-
  Impl-model of `remove_row`/`pop_row` (wrapper around `Vec::drain`) and `remove_col`/`pop_col` with
  `DrainCol` (src/toodee.rs, after the `fix:` commits: the dimensions follow the `Vec` while a drain is alive).
-/
namespace Toodee
variable {α : Type}

/-! ### remove_row -/

/-- `DrainRow` = `vec::Drain` (a std component with a specified behaviour) plus the dimensions to install on drop.
    `items` are the not-yet-yielded elements of the removed row. -/
structure DrainRow (α : Type) where
  items : List α
  pre : List α            -- `data[..start]`: what the `Vec` holds while the drain is alive (and if it is leaked)
  tail : List α           -- `data[start+C..]`: moved back by `Drain::drop`
  leakRows : Nat          -- dimensions while alive / if leaked
  leakCols : Nat
  finalRows : Nat
  finalCols : Nat
deriving Repr

/-- `remove_row` src/toodee.rs (post-fix) -/
def TD.removeRow (m : Mode) (t : TD α) (index : Nat) : Res (DrainRow α) := do
  if ¬ index < t.numRows then throw .panic
  let start ← umul m index t.numCols
  let finalRows ← usub m t.numRows 1
  let finalCols := if finalRows = 0 then 0 else t.numCols
  let e ← uadd m start t.numCols
  -- `self.data.drain(start..e)`: panics if `start > e` or `e > len`
  if ¬ (start ≤ e ∧ e ≤ t.data.length) then throw .panic
  pure { items := (t.data.drop start).take (e - start), pre := t.data.take start, tail := t.data.drop e,
         leakRows := index, leakCols := if index = 0 then 0 else t.numCols,
         finalRows := finalRows, finalCols := finalCols }

def DrainRow.next (d : DrainRow α) : Option α × DrainRow α :=
  match d.items with
  | [] => (none, d)
  | x :: xs => (some x, { d with items := xs })

def DrainRow.nextBack (d : DrainRow α) : Option α × DrainRow α :=
  match d.items.getLast? with
  | none => (none, d)
  | some x => (some x, { d with items := d.items.dropLast })

def DrainRow.len (d : DrainRow α) : Nat := d.items.length

/-- dropping the drain: remaining items are dropped (returned), the tail moves back, final dimensions installed -/
def DrainRow.drop (d : DrainRow α) : TD α × List α :=
  (⟨d.pre ++ d.tail, d.finalRows, d.finalCols⟩, d.items)

/-- leaking the drain (`mem::forget`): `Vec::drain`'s leak amplification leaves `data[..start]`; the
    un-yielded items and the tail are leaked -/
def DrainRow.leak (d : DrainRow α) : TD α × List α :=
  (⟨d.pre, d.leakRows, d.leakCols⟩, d.items ++ d.tail)

/-- `pop_row` src/toodee.rs -/
def TD.popRow (m : Mode) (t : TD α) : Res (Option (DrainRow α)) :=
  if t.numRows ≠ 0 then do
    let i ← usub m t.numRows 1
    let d ← t.removeRow m i
    pure (some d)
  else pure none

/-! ### remove_col -/

/-- `DrainCol` src/toodee.rs: strided cursor over the raw buffer (the `Vec`'s length is 0 meanwhile),
    the saved dimensions, and the buffer itself (standing for the `NonNull<TooDee>` back pointer). -/
structure DrainCol (α : Type) where
  iter : Col
  col : Nat
  numCols : Nat
  numRows : Nat
  buf : List α
  taken : List Nat := []     -- positions already moved out with `ptr::read` (ghost state for the ownership accounting)
  -- what the borrowed array (`toodee : NonNull<TooDee<T>>`) shows while the drain is alive: its `Vec`'s length and its two
  -- dimension fields, as `remove_col` left them
  tdLen : Nat := 0
  tdCols : Nat := 0
  tdRows : Nat := 0
deriving Repr

/-- `remove_col` src/toodee.rs (post-fix) -/
def TD.removeCol (m : Mode) (t : TD α) (index : Nat) : Res (DrainCol α) := do
  if ¬ index < t.numCols then throw .panic
  let numCols := t.numCols
  let numRows := t.numRows
  let a ← usub m t.data.length numCols
  let sliceLen ← uadd m a 1
  -- slice::from_raw_parts_mut(ptr.add(index), slice_len): must stay inside the allocation
  if ¬ index + sliceLen ≤ t.data.length then throw .ub
  let skip ← usub m numCols 1
  -- `v.set_len(0); self.num_cols = 0; self.num_rows = 0;`
  pure { iter := ⟨⟨index, sliceLen⟩, skip⟩, col := index, numCols := numCols, numRows := numRows, buf := t.data,
         tdLen := 0, tdCols := 0, tdRows := 0 }

/-- `ptr::read` of the cell at `p` -/
def readCell (buf : List α) (p : Nat) : Res α :=
  match buf[p]? with
  | some x => pure x
  | none => throw .ub

/-- `DrainCol::next` src/toodee.rs -/
def DrainCol.next (d : DrainCol α) : Res (Option α × DrainCol α) := do
  let (p, it) ← d.iter.next
  match p with
  | none => pure (none, { d with iter := it })
  | some p => do
    let x ← readCell d.buf p
    pure (some x, { d with iter := it, taken := p :: d.taken })

/-- `DrainCol::next_back` -/
def DrainCol.nextBack (m : Mode) (d : DrainCol α) : Res (Option α × DrainCol α) := do
  let (p, it) ← d.iter.nextBack m
  match p with
  | none => pure (none, { d with iter := it })
  | some p => do
    let x ← readCell d.buf p
    pure (some x, { d with iter := it, taken := p :: d.taken })

/-- `size_hint` / `len` -/
def DrainCol.len (m : Mode) (d : DrainCol α) : Res Nat := d.iter.sizeHint m

/-- `for _ in 1..num_rows { ptr::copy(src, dest, new_cols); src += orig_cols; dest += new_cols }` -/
def compactLoop (origCols newCols : Nat) : Nat → List α → Nat → Nat → Res (List α × Nat × Nat)
  | 0, buf, src, dest => pure (buf, src, dest)
  | k + 1, buf, src, dest => do
    let buf ← memmoveChecked buf src dest newCols
    compactLoop origCols newCols k buf (src + origCols) (dest + newCols)

/-- `Drop for DrainCol` src/toodee.rs: exhaust the cursor (dropping the items), then the `DropGuard` compacts.
    Returns the array and the dropped items. -/
def DrainCol.drop (m : Mode) (d : DrainCol α) : Res (TD α × List α) := do
  let ps ← d.iter.collect (d.iter.v.len + 2)
  let dropped ← ps.mapM (readCell d.buf)
  let col := d.col
  let origCols := d.numCols
  let newCols ← usub m origCols 1
  let numRows := d.numRows
  let (buf, src, dest) ← compactLoop origCols newCols (numRows - 1) d.buf (col + 1) col
  let n ← usub m origCols col
  let n ← usub m n 1
  let buf ← memmoveChecked buf src dest n
  let finalRows := if newCols = 0 then 0 else numRows
  let newLen ← umul m newCols finalRows
  -- set_len(new_len)
  if ¬ newLen ≤ buf.length then throw .ub
  pure (⟨buf.take newLen, finalRows, newCols⟩, dropped)

/-- `Drop for DrainCol` as written in the Rust: `while let Some(item) = self.next() { let guard = DropGuard(self); drop(item);
    mem::forget(guard); }  DropGuard(self);` where `DropGuard::drop` = "drop the rest, compact" = `DrainCol.drop` above.
    `j` = which call of the element destructor panics (one-shot), if any.  Returns the array, the dropped elements, and whether
    the panic fired (it then propagates after the guard has run during unwinding).  Fuelled. -/
def DrainCol.dropLoop (m : Mode) : Nat → DrainCol α → Option Nat → List α → Res ((TD α × List α) × Bool)
  | 0, _, _, _ => throw .fuel
  | fuel + 1, d, j, acc => do
    let (x, d') ← d.next
    match x with
    | none => do
      let (t, rest) ← d'.drop m
      pure ((t, acc ++ rest), false)
    | some item =>
      if j = some 0 then do
        let (t, rest) ← d'.drop m
        pure ((t, acc ++ [item] ++ rest), true)
      else DrainCol.dropLoop m fuel d' (j.map (· - 1)) (acc ++ [item])

/-- leaking a `DrainCol` (`mem::forget`): the borrowed array stays as `remove_col` left it (the `Vec` at the length and the
    dimension fields recorded in the drain); every element beyond that length that was not yet moved out is leaked -/
def DrainCol.leak (d : DrainCol α) : TD α × List α :=
  (⟨d.buf.take d.tdLen, d.tdRows, d.tdCols⟩,
    ((d.buf.zipIdx.filter fun xi => !d.taken.contains xi.2 && decide (d.tdLen ≤ xi.2)).map (·.1)))

/-- consume the drain from either end: `true` = `next()`, `false` = `next_back()`; returns the yielded elements in order -/
def DrainCol.run (m : Mode) : DrainCol α → List Bool → Res (List α × DrainCol α)
  | d, [] => pure ([], d)
  | d, b :: w => do
    let (x, d') ← if b then d.next else d.nextBack m
    let (ys, d'') ← DrainCol.run m d' w
    pure (x.toList ++ ys, d'')

/-- the same for the row drain -/
def DrainRow.run : DrainRow α → List Bool → List α × DrainRow α
  | d, [] => ([], d)
  | d, b :: w =>
    let (x, d') := if b then d.next else d.nextBack
    let (ys, d'') := DrainRow.run d' w
    (x.toList ++ ys, d'')

/-- `pop_col` -/
def TD.popCol (m : Mode) (t : TD α) : Res (Option (DrainCol α)) :=
  if t.numCols ≠ 0 then do
    let i ← usub m t.numCols 1
    let d ← t.removeCol m i
    pure (some d)
  else pure none

end Toodee
