import Toodee.Base.Core
/-
  Raw-memory primitives used inside the three `unsafe` critical sections (insert_row, insert_col,
  DrainCol::drop).  The buffer is the `Vec`'s whole allocation (`capacity` cells); cells beyond the
  `Vec`'s length hold arbitrary stale values ("junk").  Ownership is by position: the theorems show that
  the cells below the final length are exactly the expected elements, each once.
-/
namespace Toodee
variable {α : Type}

/-- `ptr::copy(base+src, base+dst, n)` (memmove).  UB when either range leaves the allocation. -/
def memmove (buf : List α) (src dst n : Nat) : List α :=
  buf.take dst ++ (buf.drop src).take n ++ buf.drop (dst + n)

def memmoveChecked (buf : List α) (src dst n : Nat) : Res (List α) :=
  if src + n ≤ buf.length ∧ dst + n ≤ buf.length then pure (memmove buf src dst n) else throw .ub

/-- `ptr::write(base+p, x)`.  UB outside the allocation. -/
def ptrWrite (buf : List α) (p : Nat) (x : α) : Res (List α) :=
  if p < buf.length then pure (buf.set p x) else throw .ub

/-- A caller-supplied `ExactSizeIterator` as a script: the length it claims, and what successive `next()`
    calls do: `some a` yields `a`, `none` panics; after the list is exhausted it returns `None` forever. -/
structure IterScript (α : Type) where
  claimed : Nat
  events : List (Option α)
deriving Repr

/-- `Vec::reserve(additional)`: panics with "capacity overflow" when `len + additional` exceeds what a `Vec<T>`
    can hold (`capLimit` = `isize::MAX / size_of::<T>()`, or `usize::MAX` for zero-sized `T`);
    otherwise the allocation afterwards has at least `len + additional` cells.  The cells gained are the
    caller-chosen `spare` (any content, any length ≥ `additional`): the theorems quantify over it. -/
def reserveOk (capLimit len additional : Nat) : Bool := len + additional ≤ capLimit

/-- `Vec::with_capacity(n)` / `reserve` on an empty `Vec` / `vec![v; n]`: "capacity overflow" panic when `n` exceeds what a
    `Vec<T>` can hold (`capLimit` = `isize::MAX / size_of::<T>()`, `usize::MAX` for zero-sized `T`, see `reserveOk`).
    (Allocation *failure* below that limit aborts the process; an abort is outside the model.) -/
def allocOk (capLimit n : Nat) : Bool := n ≤ capLimit

end Toodee
