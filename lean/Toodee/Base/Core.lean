/-
  Base definitions shared by the whole model: build mode, error outcomes, `usize` arithmetic as it is
  compiled in the two build profiles, and slices as *windows* `(off,len)` into a root buffer.

  Model files import nothing outside Lean core so that the driver (`Main.lean`) links as an executable.
-/
namespace Toodee

/-- Build profile. `debug`: `overflow-checks` and `debug-assertions` on. `release`: both off (wrap-around). -/
inductive Mode | debug | release
deriving DecidableEq, Repr

/-- Abnormal outcomes. `panic` = an unwinding panic (assert, checked slice op, overflow in debug, `unwrap`).
    `ub` = an unchecked operation (`get_unchecked*`, `ptr::add/copy/read/write`, `set_len`, `from_raw_parts`)
    whose safety precondition is false.  `fuel` = a fuelled loop of the model ran out of fuel
    (an artefact of the model; proved unreachable). -/
inductive Err | panic | ub | fuel
deriving DecidableEq, Repr

/-- `usize::MAX + 1` on the 64-bit targets modelled. -/
def WORD : Nat := 18446744073709551616

abbrev Res := Except Err

@[simp] theorem ok_bind {α β : Type} (a : α) (f : α → Res β) : (Except.ok a >>= f) = f a := rfl
@[simp] theorem err_bind {α β : Type} (e : Err) (f : α → Res β) :
    ((Except.error e : Res α) >>= f) = Except.error e := rfl
@[simp] theorem pure_eq {α : Type} (a : α) : (pure a : Res α) = .ok a := rfl
@[simp] theorem throw_eq {α : Type} (e : Err) : (throw e : Res α) = .error e := rfl

/-- `a * b` on `usize` as compiled: debug panics on overflow, release wraps. -/
def umul (m : Mode) (a b : Nat) : Res Nat :=
  if a * b < WORD then pure (a * b)
  else match m with
    | .debug => throw .panic
    | .release => pure (a * b % WORD)

/-- `a + b` on `usize` as compiled. -/
def uadd (m : Mode) (a b : Nat) : Res Nat :=
  if a + b < WORD then pure (a + b)
  else match m with
    | .debug => throw .panic
    | .release => pure ((a + b) % WORD)

/-- `a - b` on `usize` as compiled. -/
def usub (m : Mode) (a b : Nat) : Res Nat :=
  if b ≤ a then pure (a - b)
  else match m with
    | .debug => throw .panic
    | .release => pure (a + WORD - b)

/-- `a / b` on `usize`: "attempt to divide by zero" panics in both profiles. -/
def udiv (a b : Nat) : Res Nat := if b = 0 then throw .panic else pure (a / b)

/-- `a % b` on `usize`: "attempt to calculate the remainder with a divisor of zero" panics in both profiles. -/
def urem (a b : Nat) : Res Nat := if b = 0 then throw .panic else pure (a % b)

/-- `usize::overflowing_mul`. -/
def omul (a b : Nat) : Nat × Bool := (a * b % WORD, decide (WORD ≤ a * b))

/-- `usize::checked_mul`. -/
def cmul (a b : Nat) : Option Nat := if a * b < WORD then some (a * b) else none

theorem umul_ok (m : Mode) (a b : Nat) (h : a * b < WORD) : umul m a b = .ok (a * b) := by
  simp [umul, h]
theorem uadd_ok (m : Mode) (a b : Nat) (h : a + b < WORD) : uadd m a b = .ok (a + b) := by
  simp [uadd, h]
theorem udiv_ok (a b : Nat) (h : b ≠ 0) : udiv a b = .ok (a / b) := by simp [udiv, h]
theorem urem_ok (a b : Nat) (h : b ≠ 0) : urem a b = .ok (a % b) := by simp [urem, h]
theorem usub_ok (m : Mode) (a b : Nat) (h : b ≤ a) : usub m a b = .ok (a - b) := by
  simp [usub, h]

/-- A slice `&[T]` / `&mut [T]` borrowed from the root buffer: start position and length.
    The *contents* stay in the root buffer; a window is only an address range.  This is what lets
    "touches no cell outside the view" and "yields disjoint slices" be stated. -/
structure Win where
  off : Nat
  len : Nat
deriving DecidableEq, Repr

namespace Win

/-- `&[]` / `&mut []` (a dangling empty slice). -/
def empty : Win := ⟨0, 0⟩

/-- Positions covered by the window. -/
def positions (w : Win) : List Nat := (List.range w.len).map (w.off + ·)

/-- `slice.split_at(mid)` / `split_at_mut`: panics when `mid > len`. -/
def splitAt (w : Win) (mid : Nat) : Res (Win × Win) :=
  if mid ≤ w.len then pure (⟨w.off, mid⟩, ⟨w.off + mid, w.len - mid⟩) else throw .panic

/-- `slice.get_unchecked(s..)`: UB when `s > len`. -/
def getFrom (w : Win) (s : Nat) : Res Win :=
  if s ≤ w.len then pure ⟨w.off + s, w.len - s⟩ else throw .ub

/-- `slice.get_unchecked(..e)`: UB when `e > len`. -/
def getTo (w : Win) (e : Nat) : Res Win :=
  if e ≤ w.len then pure ⟨w.off, e⟩ else throw .ub

/-- `slice.get_unchecked(s..e)`: UB when `s > e` or `e > len`. -/
def getRange (w : Win) (s e : Nat) : Res Win :=
  if s ≤ e ∧ e ≤ w.len then pure ⟨w.off + s, e - s⟩ else throw .ub

/-- `slice.get_unchecked(i)`: UB when `i ≥ len`.  Returns the absolute position. -/
def getIdx (w : Win) (i : Nat) : Res Nat :=
  if i < w.len then pure (w.off + i) else throw .ub

/-- `&slice[i]` (checked): panics when `i ≥ len`. -/
def index (w : Win) (i : Nat) : Res Nat :=
  if i < w.len then pure (w.off + i) else throw .panic

/-- `&slice[s..e]` (checked): panics when `s > e` or `e > len`. -/
def indexRange (w : Win) (s e : Nat) : Res Win :=
  if s ≤ e ∧ e ≤ w.len then pure ⟨w.off + s, e - s⟩ else throw .panic

/-- `&slice[..e]` (checked). -/
def indexTo (w : Win) (e : Nat) : Res Win :=
  if e ≤ w.len then pure ⟨w.off, e⟩ else throw .panic

end Win

end Toodee
