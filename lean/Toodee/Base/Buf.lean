import Toodee.Base.Core
/-
  Root-buffer primitives: how the std/`core::ptr` building blocks the crate uses act on the buffer.
  Pure permutations are expressed as `gather buf f` ("new[p] = old[f p]") so that frame conditions and the
  stated bijections are statements about the position map `f`.
-/
namespace Toodee
variable {α : Type}

/-- new buffer whose cell `p` is the old cell `f p` -/
def gather (buf : List α) (f : Nat → Nat) : List α :=
  (List.range buf.length).filterMap fun p => buf[f p]?

/-- the cells of a window -/
def readWin (buf : List α) (w : Win) : List α := (buf.drop w.off).take w.len

/-- overwrite the window with `vals` (`vals.length = w.len`, window inside the buffer) -/
def writeWin (buf : List α) (w : Win) (vals : List α) : List α :=
  buf.take w.off ++ vals ++ buf.drop (w.off + w.len)

def Win.contains (w : Win) (p : Nat) : Bool := w.off ≤ p && p < w.off + w.len

/-- `ptr::swap(pa, pb)` -/
def swapPosMap (a b : Nat) : Nat → Nat := fun p => if p = a then b else if p = b then a else p

/-- `swap_with_slice` / `ptr::swap_nonoverlapping` on two disjoint windows of equal length -/
def swapWinMap (w1 w2 : Win) : Nat → Nat := fun p =>
  if w1.contains p then w2.off + (p - w1.off)
  else if w2.contains p then w1.off + (p - w2.off)
  else p

/-- `slice::rotate_left(mid)` on a window (`mid ≤ len`): new[i] = old[(i+mid) % len] -/
def rotlMap (w : Win) (mid : Nat) : Nat → Nat := fun p =>
  if w.contains p then w.off + ((p - w.off + mid) % w.len) else p

/-- `slice::reverse()` on a window -/
def revMap (w : Win) : Nat → Nat := fun p =>
  if w.contains p then w.off + (w.len - 1 - (p - w.off)) else p

/-- `slice::copy_within(src_start..src_end, dest)` *inside one window* (memmove semantics).
    Caller has checked the ranges. -/
def copyWithinWin (buf : List α) (w : Win) (s e dest : Nat) : List α :=
  writeWin buf ⟨w.off + dest, e - s⟩ (readWin buf ⟨w.off + s, e - s⟩)

end Toodee
