import Toodee.Impl.Flatten
/-
  Line-protocol helpers for the driver (see /verif/PROTOCOL.md): parsing of op lines and harness
  observations, canonical printing.  Not part of the verified model; part of the trusted correspondence check.
-/
namespace Toodee.Driver

/-- the observable state of the root array -/
structure RState where
  c : Nat
  r : Nat
  l : Nat
  data : List Nat
  big : Bool := false
deriving Repr, DecidableEq, Inhabited

/-- a parsed harness observation -/
structure RObs where
  status : String
  toks : List String
  st : RState
  drops : List Nat
  live : Int
  dbl : Nat
deriving Repr, Inhabited

def parseList (s : String) : Option (List Nat) :=
  if s = "-" then some [] else (s.splitOn ",").mapM String.toNat?

def fmtList (l : List Nat) : String :=
  if l.isEmpty then "-" else ",".intercalate (l.map toString)

def words (s : String) : List String :=
  (s.splitOn " ").filter (· ≠ "")

def parseState (s : String) : Option RState :=
  match words s with
  | [c, r, l, d] =>
    match c.toNat?, r.toNat?, l.toNat? with
    | some c, some r, some l =>
      if d = "big" then some { c, r, l, data := [], big := true }
      else (parseList d).map fun data => { c, r, l, data }
    | _, _, _ => none
  | _ => none

def parseObs (s : String) : Option RObs :=
  match s.splitOn " | " with
  | [h, st, led] =>
    match words h, parseState st, words led with
    | status :: toks, some st, [dr, live, dbl] =>
      match parseList dr, live.toInt?, dbl.toNat? with
      | some drops, some live, some dbl => some { status, toks, st, drops, live, dbl }
      | _, _, _ => none
    | _, _, _ => none
  | _ => none

def fmtState (s : RState) : String :=
  s!"{s.c} {s.r} {s.l} {if s.big then "big" else fmtList s.data}"

def fmtWin (w : Win) : String := if w.len = 0 then "0:0" else s!"{w.off}:{w.len}"

def insertSorted (x : Nat) : List Nat → List Nat
  | [] => [x]
  | y :: ys => if x ≤ y then x :: y :: ys else y :: insertSorted x ys

def sortNat (l : List Nat) : List Nat := l.foldr insertSorted []

/-- receiver segments -/
inductive Seg
  | ext
  | viewMut (c0 r0 c1 r1 : Nat)
  | viewShared (c0 r0 c1 r1 : Nat)
  | sliceMut (c r n : Nat)
  | sliceShared (c r n : Nat)
deriving Repr

def parseSegs (s : String) : Option (List Seg) :=
  -- s starts with '@'
  let body := (s.drop 1).toString
  let (isExt, body) := if body.startsWith "x" then (true, (body.drop 1).toString) else (false, body)
  let pieces := (body.splitOn ")").filter (· ≠ "")
  let segs := pieces.mapM fun p =>
    match p.splitOn "(" with
    | [k, args] =>
      match k, (args.splitOn ",").mapM String.toNat? with
      | "v", some [a, b, c, d] => some (Seg.viewMut a b c d)
      | "w", some [a, b, c, d] => some (Seg.viewShared a b c d)
      | "S", some [a, b, c] => some (Seg.sliceMut a b c)
      | "s", some [a, b, c] => some (Seg.sliceShared a b c)
      | _, _ => none
    | _ => none
  segs.map fun l => if isExt then Seg.ext :: l else l

end Toodee.Driver
