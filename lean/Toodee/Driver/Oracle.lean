import Toodee.Driver.Run
/-
  The property oracle `S`: judges the harness's observation of one step against the *Spec* (not against the
  Impl-model), exactly as weakly as the property text.  Verdicts: `ok`, `FAIL <why>`, `?` (property silent / not judged).
-/
namespace Toodee.Driver
open Toodee

def oracle (_cx : Ctx) (_prev : RObs) (_line : String) (_robs : Option RObs) : String := "?"

def oracleEnd (_cx : Ctx) (_prev : RObs) (_robs : Option RObs) : String := "?"

end Toodee.Driver
