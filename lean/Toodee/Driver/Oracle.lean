import Toodee.Driver.Run
import Toodee.Driver.SpecOracle
/-
  The property oracle `S`: judges the harness's observation of one step against what the *properties* demand — not against
  the Impl-model — exactly as weakly as the property text.  Verdicts: `ok`, `FAIL <why>`, `?` (not judged).

  Generic clauses (hold for every safe operation, whatever its outcome — C01, C05, C11, C12):
   G1  the root array satisfies the shape invariant: `L = C*R`, `C = 0 ↔ R = 0`, `data.len() = L`;
   G2  no double drop happened (`dbl` unchanged);
   G3  every cell is live (`live ≥ L` on the ledgered kinds);
   G4  a successful step that leaks nothing by design leaves no element undropped: `live - L` unchanged;
   G5  every reachable cell holds an element that was in the array before or was supplied by the caller;
   G6  an element handed out by a drain is no longer in the array (no duplication), also when the drain is leaked.
-/
namespace Toodee.Driver
open Toodee

def numbersIn (line : String) : List Nat :=
  let cleaned := line.map fun c => if c.isDigit then c else ' '
  (words cleaned).filterMap String.toNat?

def genericChecks (cx : Ctx) (prev : RObs) (line : String) (r : RObs) : List String :=
  let st := r.st
  let ws := words line
  let op := ws.getD 1 ""
  let hasFault := ws.getLast?.map isFaultTok = some true
  let hasBang := ws.any fun w => w.contains '!'
  let leaks := ws.contains "leak"
  let g1 := if st.big then [] else
    (if st.l = st.c * st.r ∧ (st.c = 0 ↔ st.r = 0) ∧ st.data.length = st.l then [] else ["G1:shape-invariant"])
  let g2 := if r.dbl = prev.dbl then [] else ["G2:double-drop"]
  let g3 := if (cx.elem = .cell ∨ cx.elem = .widecell) ∧ r.live < (st.l : Int) then ["G3:dead-cell-reachable"] else []
  let g4 :=
    if cx.elem.ledgered ∧ r.status = "ok" ∧ !hasFault ∧ !hasBang ∧ !leaks ∧ !prev.st.big ∧ !st.big then
      (if r.live - (st.l : Int) = prev.live - (prev.st.l : Int) then [] else ["G4:element-left-undropped-or-over-dropped"])
    else []
  let bumping := ["rows_mut", "cells_mut", "col_mut", "iter_mut", "row_pair"]
  let g5 :=
    if st.big ∨ prev.st.big ∨ bumping.contains op ∨ cx.elem.isZst then []
    else
      let allowed := prev.st.data ++ numbersIn line ++ [0]
      if st.data.all fun v => allowed.contains v then [] else ["G5:cell-of-unknown-origin"]
  -- G6 (C07/C12): an element handed out by a drain is no longer in the array, whatever happens to the drain afterwards
  let g6 :=
    if ["remove_row", "remove_col", "pop_row", "pop_col"].contains op ∧ !cx.elem.isZst ∧ !st.big ∧ !prev.st.big
        ∧ prev.st.data.eraseDups.length = prev.st.data.length then
      let word := if op.startsWith "pop" then ws.getD 2 "-" else ws.getD 3 "-"
      let steps := if word = "-" then [] else word.splitOn ","
      let itemSteps := steps.map fun s => ["n", "b", "N", "B"].contains (s.take 1).toString
      let yielded := (itemSteps.zip r.toks).filterMap fun (isItem, tok) => if isItem then tok.toNat? else none
      if yielded.any fun y => st.data.contains y then ["G6:yielded-element-still-in-array"] else []
    else []
  g1 ++ g2 ++ g3 ++ g4 ++ g5 ++ g6

/-- C20: `==` holds exactly when dimensions and cells are equal, and arrays that compare equal hash equally (nothing is demanded of
    the hashes of unequal arrays) -/
def specEq (cx : Ctx) (line : String) (r : RObs) : List String :=
  match words line with
  | ["@", "eq", c, rr, l] =>
    match c.toNat?, rr.toNat?, parseList l with
    | some c, some rr, some l =>
      if r.status ≠ "ok" then [] else
      -- "dimensions and cells are equal": cell by cell under the element type's own `==`
      let same := decide (c = cx.prev.c ∧ rr = cx.prev.r ∧ (cx.vs l).length = cx.prev.data.length) &&
        ((cx.vs l).zip cx.prev.data).all fun (x, y) => cx.elem.eqα y x
      let f1 := if r.toks.head? = some (if same then "1" else "0") then [] else ["C20:eq-must-be-" ++ (if same then "true" else "false")]
      let f2 := if r.toks.head? = some "1" ∧ r.toks.getD 1 "" ≠ "hasheq=1" then ["C20:equal-arrays-hash-differently"] else []
      f1 ++ f2
    | _, _, _ => []
  | ["@", "eqself"] =>
    if r.status ≠ "ok" then [] else
    let same := cx.prev.data.all fun x => cx.elem.eqα x x
    if r.toks.head? = some (if same then "1" else "0") then [] else ["C20:self-comparison-must-be-" ++ (if same then "true" else "false")]
  | _ => []

def oracle (cx : Ctx) (prev : RObs) (line : String) (robs : Option RObs) : String :=
  match robs with
  | none => "?"
  | some r =>
    if r.status = "bad-op" ∨ r.status = "unsupported" then "?"
    else
      let specific : List String :=
        match (if prev.st.big then specHuge cx line else (specStep cx line r <|> specRootStep cx line)) with
        | some e => checkSExp e r
        | none => (specSerde cx line r parseJson).getD []
      match genericChecks cx prev line r ++ specific ++ specEq cx line r with
      | [] => "ok"
      | fs => "FAIL " ++ ",".intercalate fs

def oracleEnd (cx : Ctx) (prev : RObs) (robs : Option RObs) : String :=
  match robs with
  | none => "?"
  | some r =>
    let f1 := if r.st.c = 0 ∧ r.st.r = 0 ∧ r.st.l = 0 then [] else ["end:state"]
    let f2 := if r.dbl = prev.dbl then [] else ["G2:double-drop"]
    let f3 := if cx.elem.ledgered ∧ !prev.st.big ∧ r.live ≠ prev.live - (prev.st.l : Int) then ["G4:final-drop-count"] else []
    match f1 ++ f2 ++ f3 with
    | [] => "ok"
    | fs => "FAIL " ++ ",".intercalate fs

end Toodee.Driver
