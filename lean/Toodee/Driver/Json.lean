import Toodee.Impl.Serde
/-
  A small JSON reader for the driver (text → `JVal`), mirroring what `serde_json` hands to the visitor:
  integers without fraction/exponent/sign become `num`; everything else that is valid JSON but not an
  array/object becomes `other`.  Invalid JSON gives `none` (→ the model answers `err`).
-/
namespace Toodee.Driver
open Toodee

def isWs (c : Char) : Bool := c = ' ' || c = '\n' || c = '\t' || c = '\r'

def skipWs : List Char → List Char
  | c :: cs => if isWs c then skipWs cs else c :: cs
  | [] => []

def isDigit (c : Char) : Bool := '0' ≤ c && c ≤ '9'

def takeDigits : List Char → List Char × List Char
  | c :: cs => if isDigit c then let (d, r) := takeDigits cs; (c :: d, r) else ([], c :: cs)
  | [] => ([], [])

/-- number: returns (value, rest).  JSON grammar: -? (0 | [1-9][0-9]*) (. [0-9]+)? ([eE] [+-]? [0-9]+)? -/
def parseNumber (cs : List Char) : Option (JVal × List Char) :=
  let (neg, cs) := match cs with | '-' :: r => (true, r) | _ => (false, cs)
  let (ds, rest) := takeDigits cs
  if ds.isEmpty then none
  else if ds.length > 1 ∧ ds.head? = some '0' then none       -- leading zero
  else
    let (isFloat, rest) : Bool × Option (List Char) :=
      match rest with
      | '.' :: r => let (f, r') := takeDigits r; if f.isEmpty then (true, none) else (true, some r')
      | _ => (false, some rest)
    match rest with
    | none => none
    | some rest =>
      let (isFloat, rest) : Bool × Option (List Char) :=
        match rest with
        | 'e' :: r | 'E' :: r =>
          let r := match r with | '+' :: r' => r' | '-' :: r' => r' | _ => r
          let (f, r') := takeDigits r
          if f.isEmpty then (true, none) else (true, some r')
        | _ => (isFloat, some rest)
      match rest with
      | none => none
      | some rest =>
        if neg ∨ isFloat then some (.other, rest)
        else some (.num ((String.ofList ds).toNat!), rest)

/-- string body after the opening quote: returns (content, rest) with simple escapes decoded -/
def parseString : List Char → List Char → Option (String × List Char)
  | '"' :: rest, acc => some (String.ofList acc.reverse, rest)
  | '\\' :: c :: rest, acc =>
    match c with
    | '"' => parseString rest ('"' :: acc)
    | '\\' => parseString rest ('\\' :: acc)
    | '/' => parseString rest ('/' :: acc)
    | 'b' => parseString rest ('\x08' :: acc)
    | 'f' => parseString rest ('\x0c' :: acc)
    | 'n' => parseString rest ('\n' :: acc)
    | 'r' => parseString rest ('\r' :: acc)
    | 't' => parseString rest ('\t' :: acc)
    | 'u' =>
      match rest with
      | a :: b :: c' :: d :: rest' =>
        let hex (x : Char) : Option Nat :=
          if isDigit x then some (x.toNat - '0'.toNat)
          else if 'a' ≤ x ∧ x ≤ 'f' then some (x.toNat - 'a'.toNat + 10)
          else if 'A' ≤ x ∧ x ≤ 'F' then some (x.toNat - 'A'.toNat + 10) else none
        match hex a, hex b, hex c', hex d with
        | some a, some b, some c', some d => parseString rest' (Char.ofNat (a * 4096 + b * 256 + c' * 16 + d) :: acc)
        | _, _, _, _ => none
      | _ => none
    | _ => none
  | c :: rest, acc => if c.toNat < 32 then none else parseString rest (c :: acc)
  | [], _ => none

def matchLit (lit : List Char) (cs : List Char) : Option (List Char) :=
  if cs.take lit.length = lit then some (cs.drop lit.length) else none

mutual
  partial def parseValue (cs : List Char) : Option (JVal × List Char) :=
    match skipWs cs with
    | '{' :: rest => parseMembers (skipWs rest) []
    | '[' :: rest => parseElems (skipWs rest) []
    | '"' :: rest => (parseString rest []).map fun (_, r) => (JVal.other, r)
    | 't' :: rest => (matchLit "rue".toList rest).map fun r => (JVal.other, r)
    | 'f' :: rest => (matchLit "alse".toList rest).map fun r => (JVal.other, r)
    | 'n' :: rest => (matchLit "ull".toList rest).map fun r => (JVal.other, r)
    | c :: rest => if c = '-' ∨ isDigit c then parseNumber (c :: rest) else none
    | [] => none
  partial def parseElems (cs : List Char) (acc : List JVal) : Option (JVal × List Char) :=
    match cs with
    | ']' :: rest => if acc.isEmpty then some (.arr [], rest) else none
    | _ =>
      match parseValue cs with
      | none => none
      | some (v, rest) =>
        match skipWs rest with
        | ',' :: rest' => parseElems' (skipWs rest') (v :: acc)
        | ']' :: rest' => some (.arr (v :: acc).reverse, rest')
        | _ => none
  partial def parseElems' (cs : List Char) (acc : List JVal) : Option (JVal × List Char) :=
    match parseValue cs with
    | none => none
    | some (v, rest) =>
      match skipWs rest with
      | ',' :: rest' => parseElems' (skipWs rest') (v :: acc)
      | ']' :: rest' => some (.arr (v :: acc).reverse, rest')
      | _ => none
  partial def parseMembers (cs : List Char) (acc : List (String × JVal)) : Option (JVal × List Char) :=
    match cs with
    | '}' :: rest => if acc.isEmpty then some (.obj [], rest) else none
    | '"' :: rest =>
      match parseString rest [] with
      | none => none
      | some (k, rest) =>
        match skipWs rest with
        | ':' :: rest =>
          match parseValue rest with
          | none => none
          | some (v, rest) =>
            match skipWs rest with
            | ',' :: rest' =>
              match skipWs rest' with
              | '"' :: r => parseMembers ('"' :: r) ((k, v) :: acc)
              | _ => none
            | '}' :: rest' => some (.obj ((k, v) :: acc).reverse, rest')
            | _ => none
        | _ => none
    | _ => none
end

def parseJson (s : String) : Option JVal :=
  match parseValue s.toList with
  | some (v, rest) => if (skipWs rest).isEmpty then some v else none
  | none => none

end Toodee.Driver
