import Toodee.Driver.Step2
import Toodee.Driver.Json
/-
  `step` part 3: serde operations (PROTOCOL §6.8).
-/
namespace Toodee.Driver
open Toodee

def encElem (x : Nat) : JVal := .num x
def decElem : JVal → Option Nat
  | .num n => if n < 4294967296 then some n else none
  | _ => none

partial def jsonText : JVal → String
  | .num n => toString n
  | .arr xs => "[" ++ ",".intercalate (xs.map jsonText) ++ "]"
  | .obj kvs => "{" ++ ",".intercalate (kvs.map fun kv => "\"" ++ kv.1 ++ "\":" ++ jsonText kv.2) ++ "}"
  | .other => "null"

/-- `serde_json::Value` keeps one entry per key (the last one wins) -/
def dedupLast : List (String × JVal) → List (String × JVal)
  | [] => []
  | kv :: rest => if rest.any (·.1 == kv.1) then dedupLast rest else kv :: dedupLast rest

def viaValue : JVal → JVal
  | .obj kvs => .obj (dedupLast kvs)
  | v => v

def stepSerde (cx : Ctx) (rc : Recv) (op : String) (args : List String) (rawLine : String) : Option MOut :=
  let m := cx.m
  let t := cx.td
  let data := cx.prev.data
  let isView := match rc with | .vmut _ | .vsh _ => true | _ => false
  -- the owned copy of a view receiver (`TooDee::from(view)`), what a round trip must give back
  let viewOwned : Res (TD Nat) :=
    match rc with
    | .vmut v | .vsh v => v.toOwned m cx.capLimit data
    | _ => pure t
  let doc : Res JVal :=
    match rc with
    | .vmut v | .vsh v => v.serialize m encElem data
    | _ => pure (serializeOwned encElem t)
  let isExt := match rc with | .ext _ => true | _ => false
  if isExt then (if op ∈ ["ser", "roundtrip"] then some cx.badOp else none) else
  if isView ∧ cx.elem ≠ .u32 ∧ op ∈ ["ser", "roundtrip"] then some { cx.same with status := "unsupported" } else
  match op, args with
  | "ser", [] =>
    match doc with
    | .ok d => pure { cx.same with toks := [jsonText d] }
    | .error e => pure (cx.fail e)
  | "roundtrip", [tr] =>
    if !(tr ∈ ["str", "slice", "reader", "value"]) then none else
    match doc with
    | .error e => pure (cx.fail e)
    | .ok d =>
      let d := if tr = "value" then viaValue d else d
      match deserialize decElem d with
      | .ok t' =>
        let expect : Res (TD Nat) := viewOwned
        let eq := match expect with | .ok e => decide (e = t') | .error _ => false
        pure { cx.same with toks := [toString t'.numCols, toString t'.numRows, fmtList t'.data, if eq then "eq=1" else "eq=0"],
                            drops := cx.dr (t'.data ++ (if isView then ((viewOwned.map (·.data)).toOption.getD []) else [])) }
      | .err => pure { cx.same with toks := ["err"] }
      | .panic => pure (cx.fail .panic)
  | "de", tr :: _ =>
    if !(tr ∈ ["str", "slice", "reader", "value"]) then none else
    -- the JSON text is everything after `de <t> ` on the raw line
    let marker := s!" de {tr} "
    match rawLine.splitOn marker with
    | _ :: rest =>
      let text := marker.intercalate rest
      match parseJson text with
      | none => if cx.elem.ledgered then none else pure { cx.same with toks := ["err"] }      -- (a streaming parser may have decoded cells already)
      | some d =>
        let d := if tr = "value" then viaValue d else d
        match deserialize decElem d with
        | .ok t' =>
          -- every decoded `data` array is dropped: earlier ones when a repeated key overwrites them, the last with the result
          let allData : List Nat := match d with
            | .obj kvs => (kvs.filter (·.1 == "data")).flatMap fun kv => ((decVec decElem kv.2).getD [])
            | _ => []
          pure { cx.same with toks := [toString t'.numCols, toString t'.numRows, fmtList (cx.vs t'.data)], drops := cx.dr (cx.vs allData) }
        | .err =>
          -- which `data` arrays had been decoded (and are dropped) before the error is not part of the document model: with a
          -- drop ledger the prediction is left open (the oracle still judges the step)
          if cx.elem.ledgered then none else pure { cx.same with toks := ["err"] }
        | .panic => pure (cx.fail .panic)
    | _ => none
  | _, _ => none

end Toodee.Driver
