import Toodee.Driver.Step2
import Toodee.Driver.StepSerde
/-
  Top-level line handler of the driver.
-/
namespace Toodee.Driver
open Toodee

/-- index of `x` in `l` -/
def indexOf? (l : List Nat) (x : Nat) : Option Nat :=
  let rec go : List Nat → Nat → Option Nat
    | [], _ => none
    | y :: ys, i => if x = y then some i else go ys (i + 1)
  go l 0

/-- reconstruct the side sort's permutation from the harness's observation of an unstable sort:
    `new[line[j]] = old[line[p[j]]]` along the key line (positions `line`), which needs distinct cells on that line. -/
def reconstructPerm (old new : List Nat) (line : List Nat) : Option (List Nat) :=
  let oldLine := line.map (getD old)
  let newLine := line.map (getD new)
  if oldLine.eraseDups.length ≠ oldLine.length then none
  else newLine.mapM (indexOf? oldLine)

def isPermOfRange (p : List Nat) : Bool :=
  sortNat p == List.range p.length

def sortedBy (le : Nat → Nat → Bool) : List Nat → Bool
  | a :: b :: rest => le a b && sortedBy le (b :: rest)
  | _ => true

/-- unstable sorts: model input = the permutation the harness's `sort_unstable_by` chose -/
def stepUnstable (cx : Ctx) (rc : Recv) (op : String) (args : List String) (robs : RObs) : Option MOut :=
  let m := cx.m
  let data := cx.prev.data
  match args with
  | [k] => do
    let k ← nat? k
    let le := sortLe op
    let byRow := (op.splitOn "_row").length > 1
    let line : Res (List Nat) :=
      if byRow then do
        let a ← rc.acc m
        if ¬ k < a.numRows then throw .panic
        let w ← rc.indexRow m k
        pure w.positions
      else do
        let a ← rc.acc m
        if ¬ k < a.numCols then throw .panic
        let c ← rc.col m k
        c.collect (c.v.len + 2)
    match line with
    | .error e => pure (cx.fail e)
    | .ok line =>
      if robs.status ≠ "ok" then
        -- the model expects success here; report the stable result so the mismatch is visible
        pure { cx.same with status := "ok", toks := ["expected-ok"] }
      else
      match reconstructPerm data robs.st.data line with
      | none => none            -- equal cells on the key line: the permutation cannot be read off the observation (not modelled; S judges)
      | some p =>
        if !(isPermOfRange p && sortedBy le (p.map fun i => getD data (line.getD i 0))) then
          pure { cx.same with status := "ok", toks := ["sort-contract-violated"] }
        else
          let res : Res (List Nat) :=
            match sortMethod? op with
            | some meth => rc.runSort m sideLimit data meth le p k
            | none => throw .fuel
          match res with
          | .ok d => pure { cx.same with data := d }
          | .error e => pure (cx.fail e)
  | _ => none

def isFaultTok (s : String) : Bool := s.startsWith "!" && (s.splitOn ":").length = 2

/-- the model's prediction for one op line; `none` = this line is not modelled -/
def step (cx : Ctx) (line : String) (robs : Option RObs) : Option MOut :=
  match words line with
  | recvTok :: op :: args =>
    -- fault injection: only a panicking comparator / key function of a stable sort is modelled (its outcome is a model input,
    -- see `stepInplace`); every other faulted line is judged by the oracle alone
    let faulted := args.getLast?.map isFaultTok = some true
    let cmpFault := faulted ∧ op.startsWith "sort_" ∧ !op.startsWith "sort_unstable" ∧
      ((args.getLast?.getD "").startsWith "!cmp:" ∨ (args.getLast?.getD "").startsWith "!key:")
    -- … and a panicking `T::clone` inside `clone_from` (the call number is in the token)
    let cloneK : Option Nat :=
      if faulted ∧ op = "clone_from" ∧ (args.getLast?.getD "").startsWith "!clone:" then ((args.getLast?.getD "").drop 7).toString.toNat? else none
    if faulted ∧ !cmpFault ∧ cloneK.isNone then none else
    let args := if faulted then args.dropLast else args
    let cx := { cx with fault := faulted, faultK := cloneK }
    match parseSegs recvTok with
    | none => some cx.badOp
    | some segs =>
      let t := cx.td
      match resolve cx.m t (.root t) segs with
      | .error e => some (cx.fail e)
      | .ok none => some cx.badOp
      | .ok (some rc) =>
        let rootOnly := ["new","init","from_vec","from_box","default","with_capacity","into_vec","into_box","into_iter",
          "clone","clone_from","eq","eqself","insert_row","push_row","insert_col","push_col","remove_row","pop_row","remove_col","pop_col",
          "clear","swap_dimensions","reserve","reserve_exact","shrink_to_fit","capacity"]
        if rootOnly.contains op then
          if !rc.isRoot then some cx.badOp
          else (stepCtor cx op args <|> stepStructural cx op args <|> stepConv cx rc op args)
        else
          (stepAccess cx rc op args <|> stepIter cx rc op args <|> stepConv cx rc op args
            <|> stepSerde cx rc op args line
            <|> (if op.startsWith "sort_unstable" then robs.bind (stepUnstable cx rc op args) else none)
            <|> stepInplace cx rc op args robs)
  | _ => some cx.badOp

def fmtObs (cx : Ctx) (prevLive : Int) (prevDbl : Nat) (o : MOut) : String :=
  let head := " ".intercalate (o.status :: o.toks)
  let st : RState := { c := o.c, r := o.r, l := o.data.length, data := o.data }
  let led :=
    if !cx.elem.ledgered then "- 0 0"
    else
      let leakedBefore : Int := prevLive - (cx.prev.l : Int)
      let live : Int := (o.data.length : Int) + leakedBefore + (o.leaked : Int)
      s!"{fmtList (sortNat o.drops)} {live} {prevDbl}"
  s!"{head} | {fmtState st} | {led}"

end Toodee.Driver
