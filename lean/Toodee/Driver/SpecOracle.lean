import Toodee.Driver.Run
import Toodee.Spec.OpsSpec
import Toodee.Spec.Seq
import Toodee.Spec.Grid
import Toodee.Driver.Json
/-
  The operation-specific part of the property oracle `S`: what the *Spec* layer (the right-hand sides of the property
  theorems: `pos`, `viewSize`, `Seq`, `mapCells`/`updCells` with the cell functions of Spec/OpsSpec, the grid formulas of
  C06/C07) prescribes for one step, computed from the harness's previous observation without using the Impl-model.
  `none` = the property does not pin this step down (or it is not implemented here): only the generic clauses apply.
-/
namespace Toodee.Driver
open Toodee

/-- what the property prescribes -/
structure SExp where
  status : String                       -- "ok" or "panic"
  toks : Option (List String) := none   -- result tokens, if prescribed
  data : Option (List Nat) := none      -- root data afterwards, if prescribed
  dims : Option (Nat × Nat) := none     -- root (C,R) afterwards, if prescribed

def SExp.panic : SExp := { status := "panic" }

/-- spec receiver: a rectangle of the root buffer (`v`) and whether it is mutable / the root itself -/
structure SRecv where
  v : VW
  isRoot : Bool
  isMut : Bool
  isView : Bool

/-- outer `none`: malformed receiver; inner `none`: resolving must panic -/
def specResolve (t : TD Nat) : List Seg → SRecv → Option (Option SRecv)
  | [], rc => some (some rc)
  | .ext :: ss, rc => if rc.isRoot then specResolve t ss { rc with isRoot := false } else none
  | .viewMut a b c d :: ss, rc =>
    if !rc.isMut then none else
    match specView rc.v (a, b) (c, d) with
    | none => some none
    | some v => specResolve t ss { v := v, isRoot := false, isMut := true, isView := true }
  | .viewShared a b c d :: ss, rc =>
    match specView rc.v (a, b) (c, d) with
    | none => some none
    | some v => specResolve t ss { v := v, isRoot := false, isMut := false, isView := true }
  | .sliceMut c r n :: ss, rc =>
    if !rc.isRoot then none else
    if n ≤ t.data.length ∧ specShapeOk c r ∧ c * r ≤ n then
      specResolve t ss { v := ⟨⟨0, c * r⟩, c, r, c⟩, isRoot := false, isMut := true, isView := true }
    else some none
  | .sliceShared c r n :: ss, rc =>
    if !rc.isRoot then none else
    if n ≤ t.data.length ∧ specShapeOk c r ∧ c * r ≤ n then
      specResolve t ss { v := ⟨⟨0, c * r⟩, c, r, c⟩, isRoot := false, isMut := false, isView := true }
    else some none

def SRecv.inRange (rc : SRecv) (c r : Nat) : Bool := decide (c < rc.v.numCols ∧ r < rc.v.numRows)
def SRecv.cells (rc : SRecv) : List Nat :=
  (List.range rc.v.numRows).flatMap fun r => (List.range rc.v.numCols).map fun c => rc.v.pos c r
def SRecv.rowWins (rc : SRecv) : List Win := (List.range rc.v.numRows).map rc.v.rowWin
def SRecv.colCells (rc : SRecv) (c : Nat) : List Nat := (List.range rc.v.numRows).map fun r => rc.v.pos c r

/-! ### iterator words on the ideal sequence -/

def seqWord {ι : Type} (fmt : ι → String) (posOf : ι → List Nat) (cols : Option Nat) (index : Bool) :
    List ι → List String → List String → List Nat → Option (List String × List Nat × Bool)
  | _, [], toks, ys => some (toks, ys, false)
  | l, step :: rest, toks, ys =>
    let arg : Option Nat := (step.drop 1).toString.toNat?
    let item (x : Option ι) : String := match x with | some a => fmt a | none => "none"
    let ps (x : Option ι) : List Nat := match x with | some a => posOf a | none => []
    match (step.take 1).toString, arg with
    | "n", _ => let (x, l') := Seq.next l; seqWord fmt posOf cols index l' rest (toks ++ [item x]) (ys ++ ps x)
    | "b", _ => let (x, l') := Seq.nextBack l; seqWord fmt posOf cols index l' rest (toks ++ [item x]) (ys ++ ps x)
    | "N", some k => let (x, l') := Seq.nth l k; seqWord fmt posOf cols index l' rest (toks ++ [item x]) (ys ++ ps x)
    | "B", some k => let (x, l') := Seq.nthBack l k; seqWord fmt posOf cols index l' rest (toks ++ [item x]) (ys ++ ps x)
    | "l", _ => seqWord fmt posOf cols index l rest (toks ++ [toString l.length]) ys
    | "h", _ => seqWord fmt posOf cols index l rest (toks ++ [s!"{l.length}:{l.length}"]) ys
    | "w", _ => match cols with
      | some c => seqWord fmt posOf cols index l rest (toks ++ [toString c]) ys
      | none => none
    | "i", some k =>
      if !index then none else
      match l[k]? with
      | some a => seqWord fmt posOf cols index l rest (toks ++ [fmt a]) ys
      | none => some (toks, ys, true)                 -- must panic here
    | "c", _ => some (toks ++ [toString l.length], ys, false)
    | "L", _ => let x := Seq.last l; some (toks ++ [item x], ys ++ ps x, false)
    | "f", _ => some (toks ++ [fmtItems (l.map fmt)], ys ++ l.flatMap posOf, false)
    | "r", _ => some (toks ++ [fmtItems (l.reverse.map fmt)], ys ++ l.reverse.flatMap posOf, false)
    | _, _ => none

/-! ### the per-operation specification -/

def specStep (cx : Ctx) (line : String) (robs : RObs) : Option SExp :=
  let data := cx.prev.data
  let t := cx.td
  -- zero-sized elements: positions are not observable (the harness prints 0 for every position), so result tokens are not
  -- prescribed; outcome, dimensions and (all-zero) data are
  if cx.prev.big then none else        -- huge arrays have no data to look at: `specHuge` below
  (fun (e : Option SExp) => if cx.elem.isZst then e.map (fun x => { x with toks := none }) else e) <|
  match words line with
  | recvTok :: op :: args =>
    if args.getLast?.map isFaultTok = some true then none else
    match parseSegs recvTok with
    | none => none
    | some segs =>
      let root : SRecv := { v := t.asView, isRoot := true, isMut := true, isView := false }
      match specResolve t segs root with
      | none => none
      | some none => some .panic
      | some (some rc) =>
        let v := rc.v
        let n := data.length
        let same : SExp := { status := "ok", data := some data, dims := some (cx.prev.c, cx.prev.r) }
        let posVal (c r : Nat) : SExp :=
          if rc.inRange c r then { same with toks := some [toString (v.pos c r), toString (getD data (v.pos c r))] } else .panic
        let setAt (c r x : Nat) : SExp :=
          if rc.inRange c r then { same with toks := some [toString (v.pos c r)], data := some (data.set (v.pos c r) (cx.v x)) } else .panic
        let perm (g : Nat × Nat → Nat × Nat) : SExp := { same with data := some (gather data (v.mapCells g)) }
        let upd (h : Nat × Nat → Option Nat) : SExp := { same with data := some (v.updCells data h) }
        let nat (s : String) : Option Nat := s.toNat?
        match op, args with
        -- C02
        | "get", [c, r] | "getu", [c, r] => do let c ← nat c; let r ← nat r; pure (posVal c r)
        | "rowget", [r, c] => do let c ← nat c; let r ← nat r; pure (posVal c r)
        | "colget", [c, i] | "colmget", [c, i] => do let c ← nat c; let i ← nat i; pure (posVal c i)
        | "row", [r] | "rowu", [r] => do
          let r ← nat r
          if r < v.numRows then
            let w := v.rowWin r
            pure { same with toks := some [fmtWin w, fmtList (readWin data w)] }
          else pure .panic
        | "set", [c, r, x] | "setu", [c, r, x] => do let c ← nat c; let r ← nat r; let x ← nat x; pure (setAt c r x)
        | "rowset", [r, c, x] | "rowsetu", [r, c, x] => do let c ← nat c; let r ← nat r; let x ← nat x; pure (setAt c r x)
        | "colset", [c, i, x] => do let c ← nat c; let i ← nat i; let x ← nat x; pure (setAt c i x)
        -- C03
        | "size", [] => pure { same with toks := some [toString v.numCols, toString v.numRows] }
        | "dump", [] => pure { same with toks := some [toString v.numCols, toString v.numRows, fmtList (rc.cells.map (getD data))] }
        | "dumppos", [] => pure { same with toks := some [toString v.numCols, toString v.numRows, fmtList rc.cells] }
        | "to_owned", [] => pure { same with toks := some [toString v.numCols, toString v.numRows, fmtList (rc.cells.map (getD data))] }
        | "lens", [] => pure { same with toks := some [toString v.numRows, toString (v.numCols * v.numRows),
                                 fmtList ((List.range v.numCols).map fun _ => v.numRows)] }
        -- C08 / C09 / C10
        | "rows", [w] | "rows_mut", [w] =>
          let steps := if w = "-" then [] else w.splitOn ","
          match seqWord fmtWin Win.positions (some v.numCols) false rc.rowWins steps [] [] with
          | none => none
          | some (toks, ys, mustPanic) =>
            let d := if op = "rows_mut" then bump data ys 1000 else data
            pure { same with status := if mustPanic then "panic" else "ok", toks := some toks, data := some d }
        | "col", [c, w] | "col_mut", [c, w] => do
          let c ← nat c
          if ¬ c < v.numCols then pure .panic else
          let steps := if w = "-" then [] else w.splitOn ","
          match seqWord (fun (p : Nat) => toString p) (fun p => [p]) none true (rc.colCells c) steps [] [] with
          | none => none
          | some (toks, ys, mustPanic) =>
            let d := if op = "col_mut" then bump data ys 1000 else data
            pure { same with status := if mustPanic then "panic" else "ok", toks := some toks, data := some d }
        | "cells", [w] | "cells_mut", [w] | "iter_ref", [w] | "iter_mut", [w] =>
          let steps := if w = "-" then [] else w.splitOn ","
          match seqWord (fun (p : Nat) => toString p) (fun p => [p]) (some v.numCols) false rc.cells steps [] [] with
          | none => none
          | some (toks, ys, mustPanic) =>
            let d := if op = "cells_mut" ∨ op = "iter_mut" then bump data ys 1000 else data
            pure { same with status := if mustPanic then "panic" else "ok", toks := some toks, data := some d }
        -- C13 (row_pair)
        | "row_pair", [r1, r2] => do
          let r1 ← nat r1; let r2 ← nat r2
          if r1 < v.numRows ∧ r2 < v.numRows ∧ r1 ≠ r2 then
            let w1 := v.rowWin r1; let w2 := v.rowWin r2
            pure { same with toks := some [fmtWin w1, fmtWin w2], data := some (bump (bump data w1.positions 1000) w2.positions 2000) }
          else pure .panic
        | _, _ =>
          -- C04, C13–C17: every other in-place operation is judged by **the specification the property theorems are about**,
          -- `MOp.spec` (Spec/OpsSpec.lean), evaluated on the receiver's rectangle `v` of the harness's previous buffer
          let ofSpec (mop : MOp Nat) : SExp :=
            match mop.spec v sideLimit data with
            | .ok d => { same with data := some d }
            | .error _ => .panic
          if op.startsWith "sort_unstable" then
            -- the unstable variants: *some* permutation that orders the keys (std's contract), applied to whole lines
            match args with
            | [k] => do
              let k ← nat k
              let byRow := (op.splitOn "_row").length > 1
              let dim := if byRow then v.numRows else v.numCols
              if ¬ k < dim then pure .panic else
              let line : List Nat := if byRow then (v.rowWin k).positions else rc.colCells k
              let keys := line.map (getD data)
              if robs.status ≠ "ok" then pure { same with data := none }
              else match reconstructPerm data robs.st.data line with
                | none => none
                | some p =>
                  if isPermOfRange p && sortedBy (sortLe op) (p.map fun i => keys.getD i 0) then
                    (parseMOp cx op args (sideGiven p)).map ofSpec
                  else pure { same with toks := some ["key-line-not-a-sorted-permutation"] }
            | _ => none
          else
            (parseMOp cx op args (sideStable (sortLe op))).map ofSpec
  | _ => none

/-! ### huge arrays

Arrays with more than 2^17 cells are only built with the zero-sized `unit` kind (up to `usize::MAX` cells).  Their state is printed
as `big` and the Impl-model's prediction is skipped (it would have to materialise the buffer), but every NUMBER the API reports is
still prescribed by the Spec layer: sizes of views (`specView`), iterator lengths and which steps yield an item (the ideal
sequence, here by counting), positions (always 0 for a zero-sized element).  This is what ties the index arithmetic at the top of
the `usize` range — where the wrap-around hazards live — to the real crate. -/

/-- a word of cursor steps on the ideal sequence of `n` items all printed as `item`, by counting -/
def cntWord (item : String) (cols : Option Nat) (index : Bool) : Nat → List String → List String → Option (List String × Bool)
  | _, [], toks => some (toks, false)
  | n, step :: rest, toks =>
    let arg : Option Nat := (step.drop 1).toString.toNat?
    match (step.take 1).toString, arg with
    | "n", _ | "b", _ =>
      let (y, n') := Seq.cstep n .next                      -- the Spec's counting form of the ideal sequence (C08_counting)
      cntWord item cols index n' rest (toks ++ [if y then item else "none"])
    | "N", some k | "B", some k =>
      let (y, n') := Seq.cstep n (.nth k)
      cntWord item cols index n' rest (toks ++ [if y then item else "none"])
    | "l", _ => cntWord item cols index n rest (toks ++ [toString n])
    | "h", _ => cntWord item cols index n rest (toks ++ [s!"{n}:{n}"])
    | "w", _ => match cols with
      | some c => cntWord item cols index n rest (toks ++ [toString c])
      | none => none
    | "i", some k => if !index then none else if k < n then cntWord item cols index n rest (toks ++ [item]) else some (toks, true)
    | "c", _ => some (toks ++ [toString n], false)
    | "L", _ => some (toks ++ [if n > 0 then item else "none"], false)
    | _, _ => none

def specHuge (cx : Ctx) (line : String) : Option SExp :=
  if !cx.elem.isZst then none else
  let t : TD Nat := ⟨[], cx.prev.r, cx.prev.c⟩                  -- dimensions only
  match words line with
  | recvTok :: op :: args =>
    if args.getLast?.map isFaultTok = some true then none else
    match parseSegs recvTok with
    | none => none
    | some segs =>
      let root : SRecv := { v := ⟨⟨0, 0⟩, t.numCols, t.numRows, t.numCols⟩, isRoot := true, isMut := true, isView := false }
      -- a view built directly over (a prefix of) the array's buffer: accepted iff the prefix exists, the shape is valid and fits
      let resolved : Option (Option SRecv) :=
        match segs with
        | [.sliceMut c r n] | [.sliceShared c r n] =>
          let isMut := match segs with | [.sliceMut ..] => true | _ => false
          if n ≤ cx.prev.l ∧ specShapeOk c r ∧ c * r ≤ n then
            some (some { v := ⟨⟨0, c * r⟩, c, r, c⟩, isRoot := false, isMut := isMut, isView := true })
          else some none
        | _ =>
          if segs.any (fun sg => match sg with | .sliceMut .. | .sliceShared .. => true | _ => false) then none
          else specResolve t segs root
      match resolved with
      | none => none
      | some none => some .panic
      | some (some rc) =>
        let v := rc.v
        let same : SExp := { status := "ok", dims := some (cx.prev.c, cx.prev.r) }
        let rowTok := if v.numCols = 0 then "0:0" else s!"0:{v.numCols}"
        let nat (s : String) : Option Nat := s.toNat?
        let word (w : String) := if w = "-" then [] else w.splitOn ","
        let fin (r : Option (List String × Bool)) : Option SExp :=
          r.map fun (toks, mustPanic) => { same with status := if mustPanic then "panic" else "ok", toks := some toks }
        match op, args with
        | "size", [] => pure { same with toks := some [toString v.numCols, toString v.numRows] }
        | "lens", [] =>
          if v.numCols > 64 then none else
          pure { same with toks := some [toString v.numRows, toString (v.numCols * v.numRows),
                                          fmtList ((List.range v.numCols).map fun _ => v.numRows)] }
        | "get", [c, r] | "getu", [c, r] => do
          let c ← nat c; let r ← nat r
          if rc.inRange c r then pure { same with toks := some ["0", "0"] } else (if op = "get" then pure .panic else none)
        | "row", [r] => do
          let r ← nat r
          if v.numCols > 64 then none else
          if r < v.numRows then pure { same with toks := some [rowTok, fmtList (List.replicate v.numCols 0)] } else pure .panic
        | "rows", [w] | "rows_mut", [w] => fin (cntWord rowTok (some v.numCols) false v.numRows (word w) [])
        | "col", [c, w] | "col_mut", [c, w] => do
          let c ← nat c
          if ¬ c < v.numCols then pure .panic else fin (cntWord "0" none true v.numRows (word w) [])
        | "cells", [w] | "cells_mut", [w] | "iter_ref", [w] | "iter_mut", [w] =>
          fin (cntWord "0" (some v.numCols) false (v.numCols * v.numRows) (word w) [])
        -- C13: the swaps keep the shape; they are rejected exactly for out-of-range names
        | "swap_rows", [r1, r2] => do
          let r1 ← nat r1; let r2 ← nat r2
          if !rc.isMut then none else if r1 < v.numRows ∧ r2 < v.numRows then pure same else pure .panic
        | "swap", [c1, r1, c2, r2] => do
          let c1 ← nat c1; let r1 ← nat r1; let c2 ← nat c2; let r2 ← nat r2
          if !rc.isMut then none else if rc.inRange c1 r1 ∧ rc.inRange c2 r2 then pure same else pure .panic
        | "row_pair", [r1, r2] => do
          let r1 ← nat r1; let r2 ← nat r2
          if !rc.isMut then none else
          if r1 < v.numRows ∧ r2 < v.numRows ∧ r1 ≠ r2 then pure { same with toks := some [rowTok, rowTok] } else pure .panic
        -- C06 / C07 on the array itself: dimensions afterwards (C01), the removed row as an ideal sequence
        | "remove_row", [i, w, fin'] => do
          let i ← nat i
          if !rc.isRoot ∨ fin' ≠ "drop" then none else
          if ¬ i < v.numRows then pure .panic else
          (cntWord "0" none false v.numCols (expandDrainWord v.numCols (word w)) []).map fun (toks, _) =>
            { status := "ok", toks := some toks, dims := some (if v.numRows = 1 then (0, 0) else (v.numCols, v.numRows - 1)) }
        | "pop_row", [w, fin'] =>
          if !rc.isRoot ∨ fin' ≠ "drop" then none else
          if v.numRows = 0 then pure { same with toks := some ["none"] } else
          (cntWord "0" none false v.numCols (expandDrainWord v.numCols (word w)) []).map fun (toks, _) =>
            { status := "ok", toks := some toks, dims := some (if v.numRows = 1 then (0, 0) else (v.numCols, v.numRows - 1)) }
        | "insert_row", [i, l, ev] => do
          let i ← nat i; let l ← nat l; let ev ← parseEvents ev
          if !rc.isRoot ∨ !(ev.all Option.isSome) ∨ l ≠ ev.length then none else
          -- a `Vec` of zero-sized elements holds at most `usize::MAX` of them: beyond that `reserve` panics ("capacity overflow")
          if i ≤ v.numRows ∧ l = v.numCols ∧ v.numCols * v.numRows + l < WORD then
            pure { status := "ok", dims := some (v.numCols, v.numRows + 1) }
          else pure .panic
        | "push_row", [l, ev] => do
          let l ← nat l; let ev ← parseEvents ev
          if !rc.isRoot ∨ !(ev.all Option.isSome) ∨ l ≠ ev.length then none else
          if l = v.numCols ∧ v.numCols * v.numRows + l < WORD then pure { status := "ok", dims := some (v.numCols, v.numRows + 1) }
          else pure .panic
        | "clear", [] => if rc.isRoot then pure { status := "ok", dims := some (0, 0) } else none
        | "swap_dimensions", [] => if rc.isRoot then pure { status := "ok", dims := some (v.numRows, v.numCols) } else none
        | _, _ => none
  | _ => none

def checkSExp (e : SExp) (r : RObs) : List String :=
  let f1 := if e.status = r.status then [] else [s!"status:expected-{e.status}"]
  let f2 := match e.toks with
    | some t => if e.status = "ok" ∧ r.status = "ok" ∧ t ≠ r.toks then ["result"] else []
    | none => []
  let f3 := match e.data with
    | some d => if e.status = "ok" ∧ r.status = "ok" ∧ !r.st.big ∧ d ≠ r.st.data then ["cells"] else []
    | none => []
  let f4 := match e.dims with
    | some cr => if e.status = "ok" ∧ r.status = "ok" ∧ (cr.1 ≠ r.st.c ∨ cr.2 ≠ r.st.r) then ["dims"] else []
    | none => []
  f1 ++ f2 ++ f3 ++ f4

end Toodee.Driver

namespace Toodee.Driver
open Toodee

/-- drain words on the ideal sequence of the removed line -/
def specDrainWord : List Nat → List String → List String → Option (List String)
  | _, [], toks => some toks
  | l, s :: rest, toks =>
    match s with
    | "n" => let (x, l') := Seq.next l; specDrainWord l' rest (toks ++ [optPos x])
    | "b" => let (x, l') := Seq.nextBack l; specDrainWord l' rest (toks ++ [optPos x])
    | "l" => specDrainWord l rest (toks ++ [toString l.length])
    | "h" => specDrainWord l rest (toks ++ [s!"{l.length}:{l.length}"])
    | _ =>
      match (s.take 1).toString, (s.drop 1).toString.toNat? with
      | "N", some k => let (x, l') := Seq.nth l k; specDrainWord l' rest (toks ++ [optPos x])
      | "B", some k => let (x, l') := Seq.nthBack l k; specDrainWord l' rest (toks ++ [optPos x])
      | _, _ => none

/-- root-only operations: constructors (C20), conversions (C20), structural operations (C06, C07, C01) -/
def specRootStep (cx : Ctx) (line : String) : Option SExp :=
  let data := cx.prev.data
  let C := cx.prev.c
  let R := cx.prev.r
  let v (x : Nat) : Nat := cx.v x
  let nat (s : String) : Option Nat := s.toNat?
  let okState (c r : Nat) (d : List Nat) (toks : Option (List String) := none) : SExp :=
    { status := "ok", toks := toks, data := some d, dims := some (c, r) }
  match words line with
  | "@" :: op :: args =>
    if args.getLast?.map isFaultTok = some true then none else
    match op, args with
    | "new", [c, r] => do
      let c ← nat c; let r ← nat r
      -- a valid shape that no `Vec<T>` can hold cannot succeed either ("capacity overflow")
      if specShapeOk c r ∧ c * r ≤ cx.capLimit then pure (okState c r (List.replicate (c * r) 0)) else pure .panic
    | "init", [c, r, x] => do
      let c ← nat c; let r ← nat r; let x ← nat x
      if specShapeOk c r ∧ c * r ≤ cx.capLimit then
        (if c * r > 131072 then pure { status := "ok", dims := some (c, r) }          -- huge (zero-sized elements): dimensions only
         else pure (okState c r (List.replicate (c * r) (v x))))
      else pure .panic
    | "from_vec", [c, r, l] | "from_box", [c, r, l] => do
      let c ← nat c; let r ← nat r; let l ← parseList l
      if specShapeOk c r ∧ c * r = l.length then pure (okState c r (l.map v)) else pure .panic
    | "default", [] => pure (okState 0 0 [])
    | "into_vec", [] | "into_box", [] => pure (okState 0 0 [] (some [fmtList data]))
    | "into_iter", [k] => do let k ← nat k; pure (okState 0 0 [] (some [fmtList (data.take k)]))
    | "clone_from", [c, r, l] => do
      -- C20: afterwards the array equals the source (which the protocol guarantees to be a valid array)
      let c ← nat c; let r ← nat r; let l ← parseList l
      pure (okState c r (l.map v) (some [if (l.map v).all (fun x => cx.elem.eqα x x) then "eq=1" else "eq=0"]))
    | "clone", [] =>
      let refl := data.all fun x => cx.elem.eqα x x
      pure (okState C R data (some [toString C, toString R, fmtList data, if refl then "eq=1" else "eq=0", "hasheq=1", "indep=1"]))
    | "clear", [] => pure (okState 0 0 [])
    | "swap_dimensions", [] => pure (okState R C data)
    | "shrink_to_fit", [] => pure (okState C R data)
    | "capacity", [] => pure (okState C R data (some ["1"]))
    | "insert_row", [i, l, ev] | "insert_col", [i, l, ev] => do
      let i ← nat i; let l ← nat l; let ev ← parseEvents ev
      if !(ev.all Option.isSome) ∨ l ≠ ev.length then none else    -- lying or panicking iterators: C11 (generic clauses)
      let xs := (ev.filterMap id).map v
      if op = "insert_row" then
        if i ≤ R ∧ (R = 0 ∨ xs.length = C) then
          if xs.isEmpty then pure (okState 0 0 [])
          else pure (okState xs.length (R + 1) (data.take (i * C) ++ xs ++ data.drop (i * C)))
        else pure .panic
      else
        if i ≤ C ∧ (C = 0 ∨ xs.length = R) then
          if xs.isEmpty then pure (okState 0 0 [])
          else if C = 0 then pure (okState 1 xs.length xs)
          else pure (okState (C + 1) R (List.zipWith (insAt i) (toRows C data) xs).flatten)
        else pure .panic
    | "push_row", [l, ev] => do
      let l ← nat l; let ev ← parseEvents ev
      if !(ev.all Option.isSome) ∨ l ≠ ev.length then none else
      let xs := (ev.filterMap id).map v
      if R = 0 ∨ xs.length = C then
        if xs.isEmpty then pure (okState 0 0 []) else pure (okState xs.length (R + 1) (data ++ xs))
      else pure .panic
    | "push_col", [l, ev] => do
      let l ← nat l; let ev ← parseEvents ev
      if !(ev.all Option.isSome) ∨ l ≠ ev.length then none else
      let xs := (ev.filterMap id).map v
      if C = 0 ∨ xs.length = R then
        if xs.isEmpty then pure (okState 0 0 [])
        else if C = 0 then pure (okState 1 xs.length xs)
        else pure (okState (C + 1) R (List.zipWith (insAt C) (toRows C data) xs).flatten)
      else pure .panic
    | "remove_row", [i, w, fin] | "remove_col", [i, w, fin] => do
      let i ← nat i
      let isRow := op = "remove_row"
      if ¬ i < (if isRow then R else C) then pure .panic else
      let items := if isRow then (data.drop (i * C)).take C else (List.range R).map fun r => getD data (r * C + i)
      let steps := if w = "-" then [] else w.splitOn ","
      let toks ← specDrainWord items steps []
      if fin ≠ "drop" then pure { status := "ok", toks := some toks }       -- leaked: C12 (generic clauses)
      else if isRow then
        pure (okState (if R = 1 then 0 else C) (R - 1) (data.take (i * C) ++ data.drop ((i + 1) * C)) (some toks))
      else
        pure (okState (C - 1) (if C = 1 then 0 else R) ((toRows C data).map fun ρ => ρ.eraseIdx i).flatten (some toks))
    | "pop_row", [w, fin] | "pop_col", [w, fin] =>
      let isRow := op = "pop_row"
      if (if isRow then R else C) = 0 then pure (okState C R data (some ["none"])) else
      let i := (if isRow then R else C) - 1
      let items := if isRow then (data.drop (i * C)).take C else (List.range R).map fun r => getD data (r * C + i)
      let steps := if w = "-" then [] else w.splitOn ","
      match specDrainWord items steps [] with
      | none => none
      | some toks =>
        if fin ≠ "drop" then pure { status := "ok", toks := some toks }
        else if isRow then pure (okState (if R = 1 then 0 else C) (R - 1) (data.take (i * C)) (some toks))
        else pure (okState (C - 1) (if C = 1 then 0 else R) ((toRows C data).map fun ρ => ρ.eraseIdx i).flatten (some toks))
    | _, _ => none
  | _ => none

/-- C18 / C19 on the root array: what the properties prescribe for the serde operations.
    Returns failure reasons (empty = satisfied), or `none` if not judged. -/
def specSerde (cx : Ctx) (line : String) (r : RObs) (parse : String → Option JVal) : Option (List String) :=
  let data := cx.prev.data
  let C := cx.prev.c
  let R := cx.prev.r
  match words line with
  | "@" :: "roundtrip" :: [_] =>
    -- C18: serialising and deserialising yields an array equal to the original
    some (if r.status = "ok" ∧ r.toks = [toString C, toString R, fmtList data, "eq=1"] then [] else ["C18:roundtrip"])
  | recv :: "roundtrip" :: [_] =>
    -- a view: the owned copy of the view (`eq=1` is computed by the harness against `TooDee::from(view)`)
    if recv.startsWith "@x" then none else
    some (if r.status = "ok" ∧ r.toks.getLast? = some "eq=1" then [] else ["C18:roundtrip-view"])
  | "@" :: "de" :: tr :: _ =>
    let marker := s!" de {tr} "
    match line.splitOn marker with
    | _ :: rest =>
      let text := marker.intercalate rest
      if r.status ≠ "ok" then some ["C19:panicked"]
      else if r.toks = ["err"] then some []          -- rejecting is always allowed by C19
      else
        -- accepted: the result must satisfy the shape invariant and be stated by the document; overflowing / mismatching /
        -- one-zero documents must not be accepted (implied: the accepted dims multiply to the data length without overflow)
        match r.toks, parse text with
        | [c, rr, l], some (.obj kvs) =>
          match c.toNat?, rr.toNat?, parseList l with
          | some c, some rr, some l =>
            let kvs := if tr = "value" then kvs else kvs
            let okShape := decide (c * rr = l.length ∧ (c = 0 ↔ rr = 0) ∧ c * rr < WORD)
            let hasC := kvs.any fun kv => kv.1 == "num_cols" && (match kv.2 with | .num n => n == c | _ => false)
            let hasR := kvs.any fun kv => kv.1 == "num_rows" && (match kv.2 with | .num n => n == rr | _ => false)
            let hasD := kvs.any fun kv => kv.1 == "data" && (match kv.2 with
              | .arr xs => (xs.mapM fun x => match x with | .num n => some n | _ => none) == some (if cx.elem.isZst then l.map (fun _ => 0) else l) || cx.elem = .zst
              | _ => false)
            some ((if okShape then [] else ["C19:accepted-inconsistent-shape"]) ++
                  (if hasC ∧ hasR ∧ hasD then [] else ["C19:result-not-stated-by-document"]))
          | _, _, _ => some ["C19:unparsable-result"]
        | _, _ => some ["C19:accepted-a-non-object-or-malformed-document"]
    | _ => none
  | _ => none

end Toodee.Driver
