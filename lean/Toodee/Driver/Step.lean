import Toodee.Driver.Machine
/-
  `step`: the Impl-model's prediction for one op line, starting from the harness's previous observation.
-/
namespace Toodee.Driver
open Toodee

structure Ctx where
  m : Mode
  elem : Elem
  prev : RState           -- root state before the op (from the harness's previous observation)
  fault : Bool := false   -- the op line carries a `!cmp:k` / `!key:k` fault token (sort comparator / key function made to panic)
  faultK : Option Nat := none   -- `!clone:k` on a `clone_from` line: the k-th call of `T::clone` panics

def Ctx.td (cx : Ctx) : TD Nat := ⟨cx.prev.data, cx.prev.r, cx.prev.c⟩

/-- how many elements a `Vec<T>` can hold -/
def Ctx.capLimit (cx : Ctx) : Nat :=
  match cx.elem with
  | .u32 | .nan => 2305843009213693951        -- isize::MAX / 4
  | .cell => 576460752303423487        -- isize::MAX / 16
  | .wide | .widecell => 96076792050570581        -- isize::MAX / 96
  | .zst | .unit => WORD - 1

def Ctx.same (cx : Ctx) : MOut := { data := cx.prev.data, c := cx.prev.c, r := cx.prev.r }
def Ctx.fail (cx : Ctx) (e : Err) : MOut := { cx.same with status := errStatus e }
def Ctx.badOp (cx : Ctx) : MOut := { cx.same with status := "bad-op" }
def Ctx.ofTD (_cx : Ctx) (t : TD Nat) : MOut := { data := t.data, c := t.numCols, r := t.numRows }

/-- values as the element kind stores them (zst: always 0) -/
def Ctx.v (cx : Ctx) (x : Nat) : Nat := if cx.elem.isZst then 0 else x
def Ctx.vs (cx : Ctx) (l : List Nat) : List Nat := l.map cx.v
/-- drop lists are only tracked for non-`u32` kinds -/
def Ctx.dr (cx : Ctx) (l : List Nat) : List Nat := if cx.elem.ledgered then l else []

def parseEvents (s : String) : Option (List (Option Nat)) :=
  if s = "-" then some []
  else (s.splitOn ",").mapM fun t => if t = "!" then some none else t.toNat?.map some

def nat? (s : String) : Option Nat := s.toNat?

def posTok (cx : Ctx) (p : Nat) : String := if cx.elem.isZst then "0" else toString p
def winTok (cx : Ctx) (w : Win) : String := if cx.elem.isZst then (if w.len = 0 then "0:0" else s!"0:{w.len}") else fmtWin w

/-! ### constructors -/
def stepCtor (cx : Ctx) (op : String) (args : List String) : Option MOut :=
  let old := cx.prev.data
  let fromRes (r : Res (TD Nat)) (extraDropsOnPanic : List Nat) : MOut :=
    match r with
    | .ok t => { cx.ofTD t with drops := cx.dr old }
    | .error e => { cx.fail e with drops := cx.dr extraDropsOnPanic }
  match op, args with
  | "default", [] => pure (fromRes (pure TD.default) [])
  | "with_capacity", [n] => do
    let n ← nat? n
    -- on a panic nothing was assigned: the old array stays
    match (TD.withCapacity cx.capLimit n : Res (TD Nat)) with
    | .ok t => pure (fromRes (pure t) [])
    | .error e => pure (cx.fail e)
  | _, _ => none

/-! ### receiver-generic access -/
def stepAccess (cx : Ctx) (rc : Recv) (op : String) (args : List String) : Option MOut :=
  let m := cx.m
  let data := cx.prev.data
  let posVal (r : Res Nat) : MOut :=
    match r with
    | .ok p => { cx.same with toks := [posTok cx p, toString (getD data p)] }
    | .error e => cx.fail e
  let rowOut (r : Res Win) : MOut :=
    match r with
    | .ok w => { cx.same with toks := [winTok cx w, fmtList (readWin data w)] }
    | .error e => cx.fail e
  let setAt (r : Res Nat) (v : Nat) : MOut :=
    -- the harness builds the value, takes the `&mut`, prints its position, then assigns (dropping the old cell);
    -- on a panic the new value is dropped instead
    match r with
    | .ok p => { cx.same with toks := [posTok cx p], data := data.set p (cx.v v), drops := cx.dr [getD data p] }
    | .error e => { cx.fail e with drops := cx.dr [cx.v v] }
  match op, args with
  | "get", [c, r] => do let c ← nat? c; let r ← nat? r; pure (posVal (rc.indexCoord m c r))
  | "rowget", [r, c] => do
    let c ← nat? c; let r ← nat? r
    pure (posVal (do let w ← rc.indexRow m r; w.index c))
  | "row", [r] => do let r ← nat? r; pure (rowOut (rc.indexRow m r))
  | "colget", [c, i] | "colmget", [c, i] => do
    let c ← nat? c; let i ← nat? i
    if op = "colmget" ∧ !rc.isMut then pure cx.badOp else
    pure (posVal (do let col ← rc.col m c; col.index m i))
  | "getu", [c, r] => do let c ← nat? c; let r ← nat? r; pure (posVal (rc.getUnchecked m c r))
  | "rowu", [r] => do let r ← nat? r; pure (rowOut (rc.getUncheckedRow m r))
  | "set", [c, r, v] => do
    let c ← nat? c; let r ← nat? r; let v ← nat? v
    if !rc.isMut then pure cx.badOp else pure (setAt (rc.indexCoordMut m c r) v)
  | "rowset", [r, c, v] => do
    let c ← nat? c; let r ← nat? r; let v ← nat? v
    if !rc.isMut then pure cx.badOp else
    pure (setAt (do let w ← rc.indexRowMut m r; w.index c) v)
  | "colset", [c, i, v] => do
    let c ← nat? c; let i ← nat? i; let v ← nat? v
    if !rc.isMut then pure cx.badOp else
    pure (setAt (do let col ← rc.col m c; col.index m i) v)
  | "setu", [c, r, v] => do
    let c ← nat? c; let r ← nat? r; let v ← nat? v
    if !rc.isMut then pure cx.badOp else pure (setAt (rc.getUnchecked m c r) v)
  | "rowsetu", [r, c, v] => do
    let c ← nat? c; let r ← nat? r; let v ← nat? v
    if !rc.isMut then pure cx.badOp else
    pure (setAt (do let w ← rc.getUncheckedRow m r; w.index c) v)
  | "size", [] => pure { cx.same with toks := [toString rc.numCols, toString rc.numRows] }
  | "is_empty", [] => pure { cx.same with toks := [if rc.numCols = 0 ∨ rc.numRows = 0 then "1" else "0"] }
  | "dump", [] | "dumppos", [] =>
    let coords := (List.range rc.numRows).flatMap fun r => (List.range rc.numCols).map fun c => (c, r)
    let ps : Res (List Nat) := coords.mapM fun cr => rc.indexCoord m cr.1 cr.2
    match ps with
    | .ok ps =>
      let l := if op = "dump" then ps.map (getD data) else ps.map fun p => if cx.elem.isZst then 0 else p
      pure { cx.same with toks := [toString rc.numCols, toString rc.numRows, fmtList l] }
    | .error e => pure (cx.fail e)
  | "lens", [] =>
    let r : Res (List String) := do
      let rows ← rc.rows m
      let nr ← rows.sizeHint m
      let nc ← (Flat.new rows).sizeHint m
      let cols ← (List.range rc.numCols).mapM fun c => do
        let col ← rc.col m c
        col.sizeHint m
      pure [toString nr, toString nc, fmtList cols]
    match r with
    | .ok toks => pure { cx.same with toks := toks }
    | .error e => pure (cx.fail e)
  | _, _ => none

/-! ### iterators -/
def stepIter (cx : Ctx) (rc : Recv) (op : String) (args : List String) : Option MOut :=
  let m := cx.m
  let mk (st : Res ItSt) (word : String) (isMut : Bool) : MOut :=
    match st with
    | .error e => cx.fail e
    | .ok st =>
      let steps := if word = "-" then [] else word.splitOn ","
      let out := runWord m st steps {}
      let data := if isMut then bump cx.prev.data out.yielded 1000 else cx.prev.data
      { cx.same with status := (match out.err with | none => "ok" | some e => errStatus e), toks := out.toks, data := data }
  match op, args with
  | "rows", [w] => pure (mk (do let r ← rc.rows m; pure (.rows r)) w false)
  | "rows_mut", [w] => if !rc.isMut then pure cx.badOp else pure (mk (do let r ← rc.rows m; pure (.rows r true)) w true)
  | "col", [c, w] => do let c ← nat? c; pure (mk (do let x ← rc.col m c; pure (.col x)) w false)
  | "col_mut", [c, w] => do
    let c ← nat? c
    if !rc.isMut then pure cx.badOp else pure (mk (do let x ← rc.col m c; pure (.col x)) w true)
  | "cells", [w] | "iter_ref", [w] => pure (mk (do let r ← rc.rows m; pure (.flat (Flat.new r))) w false)
  | "cells_mut", [w] | "iter_mut", [w] =>
    if !rc.isMut then pure cx.badOp else pure (mk (do let r ← rc.rows m; pure (.flat (Flat.new r))) w true)
  | _, _ => none

end Toodee.Driver
