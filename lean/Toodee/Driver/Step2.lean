import Toodee.Driver.Step
import Toodee.Spec.History
/-
  `step` part 2: structural operations, conversions, in-place operations, dispatch.
-/
namespace Toodee.Driver
open Toodee

def spareFor (n : Nat) : List Nat := List.replicate (min n 100000) 0

/-- items of an event list that were never pulled (dropped by the harness) -/
def itemsOf (ev : List (Option Nat)) : List Nat := ev.filterMap id

def ofIns (cx : Ctx) (o : InsOut Nat) : MOut :=
  let base := cx.ofTD o.t
  match o.res with
  | .ok _ => { base with drops := cx.dr (itemsOf o.rest), leaked := o.leaked.length }
  | .error e => { base with status := errStatus e, drops := cx.dr (itemsOf o.rest), leaked := o.leaked.length }

/-- drain words: steps n,b,l,h -/
def drainRowWord (d : DrainRow Nat) : List String → List String → List Nat → (DrainRow Nat × List String × List Nat)
  | [], toks, ys => (d, toks, ys)
  | s :: rest, toks, ys =>
    match s with
    | "n" => let (x, d') := d.next; drainRowWord d' rest (toks ++ [optPos x]) (ys ++ optToList x)
    | "b" => let (x, d') := d.nextBack; drainRowWord d' rest (toks ++ [optPos x]) (ys ++ optToList x)
    | "l" => drainRowWord d rest (toks ++ [toString d.len]) ys
    | "h" => drainRowWord d rest (toks ++ [s!"{d.len}:{d.len}"]) ys
    | "n!" => let (x, d') := d.next; drainRowWord d' rest toks (ys ++ optToList x)
    | "b!" => let (x, d') := d.nextBack; drainRowWord d' rest toks (ys ++ optToList x)
    | _ => (d, toks ++ ["?"], ys)

/-- `nth(k)` / `nth_back(k)` on a drain are the std defaults: `k` times `next` (the items are dropped), then `next`.
    Expanded into silent steps `n!` / `b!` followed by a reporting step. -/
def expandDrainWord (bound : Nat) (steps : List String) : List String :=
  steps.flatMap fun s =>
    match (s.take 1).toString, (s.drop 1).toString.toNat? with
    | "N", some k => List.replicate (min k (bound + 1)) "n!" ++ ["n"]
    | "B", some k => List.replicate (min k (bound + 1)) "b!" ++ ["b"]
    | _, _ => [s]

def drainColWord (m : Mode) (d : DrainCol Nat) : List String → List String → List Nat →
    (DrainCol Nat × List String × List Nat × Option Err)
  | [], toks, ys => (d, toks, ys, none)
  | s :: rest, toks, ys =>
    match s with
    | "n" =>
      match d.next with
      | .ok (x, d') => drainColWord m d' rest (toks ++ [optPos x]) (ys ++ optToList x)
      | .error e => (d, toks, ys, some e)
    | "b" =>
      match d.nextBack m with
      | .ok (x, d') => drainColWord m d' rest (toks ++ [optPos x]) (ys ++ optToList x)
      | .error e => (d, toks, ys, some e)
    | "l" =>
      match d.len m with
      | .ok n => drainColWord m d rest (toks ++ [toString n]) ys
      | .error e => (d, toks, ys, some e)
    | "h" =>
      match d.len m with
      | .ok n => drainColWord m d rest (toks ++ [s!"{n}:{n}"]) ys
      | .error e => (d, toks, ys, some e)
    | "n!" =>
      match d.next with
      | .ok (x, d') => drainColWord m d' rest toks (ys ++ optToList x)
      | .error e => (d, toks, ys, some e)
    | "b!" =>
      match d.nextBack m with
      | .ok (x, d') => drainColWord m d' rest toks (ys ++ optToList x)
      | .error e => (d, toks, ys, some e)
    | _ => (d, toks ++ ["?"], ys, none)

/-- how large a sort's side table may be: `isize::MAX / 16` entries -/
def sideLimit : Nat := 576460752303423487

/-- the environment of the history-level definitions (Spec/History.lean) for this case -/
def Ctx.henv (cx : Ctx) : HEnv := ⟨cx.m, cx.capLimit, sideLimit⟩

/-- the consuming steps of an (expanded) drain word as the `List Bool` the history operations carry: `true` = `next`, `false` = `next_back` -/
def consumption (steps : List String) : List Bool :=
  steps.filterMap fun s => if s = "n" ∨ s = "n!" then some true else if s = "b" ∨ s = "b!" then some false else none

/-- **prediction through the history-level definitions**: the array after the call is `hstep`, the outcome `hres`, and the ledger
    follows the element flow `hflow` (what was handed to the harness is dropped by it at the end of the step; `extra` = values the
    harness itself owns and drops, e.g. the source of a clone).  These are the objects the theorems C01 / C05 are about. -/
def viaHistory (cx : Ctx) (hop : HOp Nat) (toks : List String := []) (extra : List Nat := []) : MOut :=
  let e := cx.henv
  let t := cx.td
  let t' := hstep e t hop
  let f := hflow e t hop
  let st := match hres e t hop with | .ok _ => "ok" | .error er => errStatus er
  { cx.ofTD t' with status := st, toks := toks, drops := cx.dr (f.handed ++ f.dropped ++ extra), leaked := f.leaked.length }

def stepStructural (cx : Ctx) (op : String) (args : List String) : Option MOut :=
  let m := cx.m
  let t := cx.td
  let script (l ev : String) : Option (IterScript Nat) := do
    let l ← nat? l
    let ev ← parseEvents ev
    -- a zero-sized element type has unbounded capacity: a claimed length the driver cannot materialise as spare cells is
    -- left unmodelled (`M ?`); the oracle still judges the step
    if cx.elem.isZst ∧ l > 100000 then none
    pure ⟨l, ev.map (·.map cx.v)⟩
  -- drains: the tokens come from stepping the drain model along the word; state, outcome and ledger from the history operation
  let rowToks (d : DrainRow Nat) (word : String) : List String × List Bool :=
    let steps := expandDrainWord d.len (if word = "-" then [] else word.splitOn ",")
    let (_, toks, _) := drainRowWord d steps [] []
    (toks, consumption steps)
  let colToks (d : DrainCol Nat) (word : String) : List String × List Bool × Option Err :=
    let steps := expandDrainWord d.iter.v.len (if word = "-" then [] else word.splitOn ",")
    let (_, toks, _, err) := drainColWord m d steps [] []
    (toks, consumption steps, err)
  match op, args with
  | "new", [c, r] => do
    let c ← nat? c; let r ← nat? r
    if c * r > 131072 ∧ c * r < WORD ∧ cx.elem.isZst then none else
    pure (viaHistory cx (.newArr c r 0))
  | "init", [c, r, v] => do
    let c ← nat? c; let r ← nat? r; let v ← nat? v
    -- a huge array (zero-sized elements only) is not materialised: no prediction, the oracle judges the numbers (`specHuge`)
    if c * r > 131072 ∧ c * r < WORD then none else
    pure (viaHistory cx (.initArr c r (cx.v v)))
  | "from_vec", [c, r, l] | "from_box", [c, r, l] => do
    let c ← nat? c; let r ← nat? r; let l ← parseList l
    pure (viaHistory cx (.fromVec c r (cx.vs l)))
  | "insert_row", [i, l, ev] => do
    let i ← nat? i; let it ← script l ev
    pure (viaHistory cx (.insertRow i it (spareFor it.claimed)))
  | "push_row", [l, ev] => do
    let it ← script l ev
    pure (viaHistory cx (.insertRow t.numRows it (spareFor it.claimed)))
  | "insert_col", [i, l, ev] => do
    let i ← nat? i; let it ← script l ev
    pure (viaHistory cx (.insertCol i it (spareFor it.claimed)))
  | "push_col", [l, ev] => do
    let it ← script l ev
    pure (viaHistory cx (.insertCol t.numCols it (spareFor it.claimed)))
  | "remove_row", [i, word, fin] => do
    let i ← nat? i
    match t.removeRow m i with
    | .ok d =>
      let (toks, w) := rowToks d word
      match fin with
      | "drop" => pure (viaHistory cx (.removeRow i w) toks)
      | "leak" => pure (viaHistory cx (.removeRowLeak i w) toks)
      | _ => none
    | .error _ => pure (viaHistory cx (.removeRow i []))
  | "pop_row", [word, fin] =>
    match t.popRow m with
    | .ok (some d) =>
      let (toks, w) := rowToks d word
      match fin with
      | "drop" => pure (viaHistory cx (.popRow w) toks)
      | "leak" => pure (viaHistory cx (.removeRowLeak (t.numRows - 1) w) toks)
      | _ => none
    | .ok none => pure (viaHistory cx (.popRow []) ["none"])
    | .error e => pure (cx.fail e)
  | "remove_col", [i, word, fin] => do
    let i ← nat? i
    match t.removeCol m i with
    | .ok d =>
      let (toks, w, err) := colToks d word
      match err with
      | some e => pure { cx.fail e with toks := toks }
      | none =>
        match fin with
        | "drop" => pure (viaHistory cx (.removeCol i w) toks)
        | "leak" => pure (viaHistory cx (.removeColLeak i w) toks)
        | _ => none
    | .error _ => pure (viaHistory cx (.removeCol i []))
  | "pop_col", [word, fin] =>
    match t.popCol m with
    | .ok (some d) =>
      let (toks, w, err) := colToks d word
      match err with
      | some e => pure { cx.fail e with toks := toks }
      | none =>
        match fin with
        | "drop" => pure (viaHistory cx (.popCol w) toks)
        | "leak" => pure (viaHistory cx (.removeColLeak (t.numCols - 1) w) toks)
        | _ => none
    | .ok none => pure (viaHistory cx (.popCol []) ["none"])
    | .error e => pure (cx.fail e)
  | "clear", [] => pure (viaHistory cx .clear)
  | "swap_dimensions", [] => pure (viaHistory cx .swapDimensions)
  | "reserve", [n] | "reserve_exact", [n] => do
    let n ← nat? n
    pure (viaHistory cx (.capacityCall (some n)))
  | "shrink_to_fit", [] => pure (viaHistory cx (.capacityCall none))
  | "capacity", [] => pure (viaHistory cx (.capacityCall none) ["1"])
  | _, _ => none

def stepConv (cx : Ctx) (rc : Recv) (op : String) (args : List String) : Option MOut :=
  let m := cx.m
  let t := cx.td
  let data := cx.prev.data
  match op, args with
  | "into_vec", [] | "into_box", [] =>
    pure (viaHistory cx (.takeInto data.length) [fmtList t.intoVec])
  | "into_iter", [k] => do
    let k ← nat? k
    pure (viaHistory cx (.takeInto k) [fmtList (t.intoIter.take k)])
  | "to_owned", [] =>
    -- `From<TooDeeView>` / `From<TooDeeViewMut>` (`VW.toOwned`)
    match rc with
    | .vmut v | .vsh v =>
      match v.toOwned m cx.capLimit data with
      | .ok t' => pure { cx.same with toks := [toString t'.numCols, toString t'.numRows, fmtList t'.data], drops := cx.dr t'.data }
      | .error e => pure (cx.fail e)
    | _ => pure cx.badOp
  | "clone", [] =>
    -- the harness's clone bumps every cell of the copy by one afterwards (independence test), so what it drops are the bumped values
    let cl := t.clone id
    pure { cx.same with toks := [toString cl.numCols, toString cl.numRows, fmtList cl.data,
                                  if TD.eqDerived cx.elem.eqα cl t then "eq=1" else "eq=0",
                                  if TD.hashFeed (fun x => [x]) cl = TD.hashFeed (fun x => [x]) t then "hasheq=1" else "hasheq=0", "indep=1"],
                         drops := cx.dr (cl.data.map fun v => if cx.elem.isZst then 0 else v + 1) }
  | "eqself", [] =>
    -- `td == td` through two references: the derived `==` compares cell by cell, so it is false when some cell is not equal to itself
    pure { cx.same with toks := [if TD.eqDerived cx.elem.eqα t t then "1" else "0"] }
  | "clone_from", [c, r, l] => do
    -- `td.clone_from(&src)` through the transcription of the (defaulted) `clone_from` (`TD.cloneFrom`, C20_clone_from); the
    -- harness drops the source at the end of the step
    let c ← nat? c; let r ← nat? r; let l ← parseList l
    let src : TD Nat := ⟨cx.vs l, r, c⟩
    let (t', dropped, res) := t.cloneFrom id src cx.faultK
    match res with
    | .ok _ => pure { cx.ofTD t' with toks := [if TD.eqDerived cx.elem.eqα t' src then "eq=1" else "eq=0"],
                                       drops := cx.dr (dropped ++ src.data) }
    | .error e => pure { cx.ofTD t' with status := errStatus e, drops := cx.dr (dropped ++ src.data) }
  | "eq", [c, r, l] => do
    let c ← nat? c; let r ← nat? r; let l ← parseList l
    -- `==` and the hash digest through the transcriptions of the derived impls (`TD.eqDerived`, `TD.hashFeed`, C20): the
    -- digests are predicted equal exactly when the two arrays feed the hasher the same sequence
    let other : TD Nat := ⟨cx.vs l, r, c⟩
    let e := TD.eqDerived cx.elem.eqα t other
    let he := decide (TD.hashFeed (fun x => [x]) t = TD.hashFeed (fun x => [x]) other)
    pure { cx.same with toks := [if e then "1" else "0", if he then "hasheq=1" else "hasheq=0"], drops := cx.dr (cx.vs l) }
  | "vieweq", [] => pure { cx.same with toks := ["1", "hasheq=1"] }
  | _, _ => none

/-- the cells of the receiver, row-major (what an overwrite of the whole receiver drops) -/
def recvCells (m : Mode) (rc : Recv) (data : List Nat) : Res (List Nat) := do
  let a ← rc.acc m
  let rows ← a.rows.collect (a.rows.v.len + 2)
  pure (rows.map (readWin data)).flatten

def le8 (a b : Nat) : Bool := a % 8 ≤ b % 8
def leNat (a b : Nat) : Bool := a ≤ b

/-- the comparator the harness passes to a sort op: natural order for `*_ord`, `val % 8` (as comparator or as key) otherwise -/
def sortLe (op : String) : Nat → Nat → Bool := if op.endsWith "_ord" then leNat else le8

/-- the protocol's sort op names are the crate's method names -/
def sortMethod? : String → Option SortMethod
  | "sort_by_row" => some .sort_by_row | "sort_unstable_by_row" => some .sort_unstable_by_row
  | "sort_by_row_key" => some .sort_by_row_key | "sort_unstable_by_row_key" => some .sort_unstable_by_row_key
  | "sort_row_ord" => some .sort_row_ord | "sort_unstable_row_ord" => some .sort_unstable_row_ord
  | "sort_by_col" => some .sort_by_col | "sort_unstable_by_col" => some .sort_unstable_by_col
  | "sort_by_col_key" => some .sort_by_col_key | "sort_unstable_by_col_key" => some .sort_unstable_by_col_key
  | "sort_col_ord" => some .sort_col_ord
  | _ => none

/-- an in-place op line as a model operation (shared by the Impl-model's prediction `M` and the property oracle `S`);
    `side` = what the side sort of a sort op does (stable sort / reconstructed permutation / caller-code panic) -/
def parseMOp (cx : Ctx) (op : String) (args : List String) (side : SideSort Nat) : Option (MOp Nat) :=
  match op, args with
  | "fill", [v] => do let v ← nat? v; pure (.fill (cx.v v))
  | "swap", [c1, r1, c2, r2] => do
    let c1 ← nat? c1; let r1 ← nat? r1; let c2 ← nat? c2; let r2 ← nat? r2
    pure (.swap c1 r1 c2 r2)
  | "swap_rows", [r1, r2] => do let r1 ← nat? r1; let r2 ← nat? r2; pure (.swapRows r1 r2)
  | "swap_cols", [c1, c2] => do let c1 ← nat? c1; let c2 ← nat? c2; pure (.swapCols c1 c2)
  | "copy_from_slice", [l] | "clone_from_slice", [l] => do let l ← parseList l; pure (.copyFromSlice (cx.vs l))
  | "copy_within", [c0, r0, c1, r1, dc, dr] => do
    let c0 ← nat? c0; let r0 ← nat? r0; let c1 ← nat? c1; let r1 ← nat? r1; let dc ← nat? dc; let dr ← nat? dr
    pure (.copyWithin (c0, r0) (c1, r1) (dc, dr))
  | "translate", [mc, mr] => do let mc ← nat? mc; let mr ← nat? mr; pure (.translate mc mr)
  | "flip_rows", [] => pure .flipRows
  | "flip_cols", [] => pure .flipCols
  | _, _ =>
    if op = "copy_from_toodee" ∨ op = "clone_from_toodee" then
      -- copy_from_toodee C R list [c0 r0 c1 r1]
      match args with
      | c :: r :: l :: rest => do
        let c ← nat? c; let r ← nat? r; let l ← parseList l
        pure (.copyFromTooDee
          { arr := ⟨cx.vs l, r, c⟩,
            window := match rest.mapM nat? with
              | some [c0, r0, c1, r1] => some ((c0, r0), (c1, r1))
              | _ => none })
      | _ => none
    else if op.startsWith "sort_" then
      match args with
      | [k] => do
        let k ← nat? k
        if (op.splitOn "_row").length > 1 then pure (.sortRow side k) else pure (.sortCol side k)
      | _ => none
    else none

/-- in-place operations: every one goes through the Impl-model's dispatch `Recv.run` (Impl/Recv.lean) -/
def stepInplace (cx : Ctx) (rc : Recv) (op : String) (args : List String) (robs : Option RObs) : Option MOut :=
  let m := cx.m
  let data := cx.prev.data
  if !rc.isMut then (if op ∈ ["fill","swap","swap_rows","swap_cols","row_pair","copy_from_slice","clone_from_slice",
      "copy_from_toodee","clone_from_toodee","copy_within","translate","flip_rows","flip_cols"] ∨ op.startsWith "sort_" then some cx.badOp else none)
  else if op = "row_pair" then
    match args with
    | [r1, r2] => do
      let r1 ← nat? r1; let r2 ← nat? r2
      match (do let a ← rc.acc m; a.rowPairMut m r1 r2 : Res (Win × Win)) with
      | .ok (w1, w2) =>
        let d := bump (bump data w1.positions 1000) w2.positions 2000
        pure { cx.same with toks := [winTok cx w1, winTok cx w2], data := d }
      | .error e => pure (cx.fail e)
    | _ => none
  else if op.startsWith "sort_unstable" then none      -- the permutation is a model input: `stepUnstable` (Run.lean)
  else if op.startsWith "sort_" ∧ !(cx.fault ∧ robs.map (·.status) = some "panic") then
    -- a stable sort method whose caller code does not panic: the method's own transcribed body (`Recv.runSort`, C16_methods_dispatch)
    match sortMethod? op, args with
    | some meth, [k] => do
      let k ← nat? k
      match rc.runSort m sideLimit data meth (sortLe op) [] k with
      | .ok d => pure { cx.same with data := d }
      | .error e => pure (cx.fail e)
    | _, _ => none
  else if (op ∈ ["copy_from_slice", "copy_from_toodee", "copy_within"]) ∧ ¬ cx.elem.copyOps then
    some { cx.same with status := "unsupported" }        -- `T: Copy` only
  else
    -- a comparator / key function made to panic (`!cmp:k`, `!key:k`): whether the side sort reaches its `k`-th call is std's
    -- business, so the outcome of the side sort is a model input taken from the harness's observation
    let side : SideSort Nat :=
      match cx.fault, robs.map (·.status) with
      | true, some "panic" => fun _ => throw .panic
      | _, _ => sideStable (sortLe op)
    match parseMOp cx op args side with
    | none => none
    | some mop =>
      if rc.isRoot then
        -- owned array: the history operation `.inplace mop` (C01 / C05); the harness additionally drops the source it cloned from
        let extra := match mop with | .copyFromSlice l => l | .copyFromTooDee src => src.arr.data | _ => []
        let o := viaHistory cx (.inplace mop) [] extra
        some { o with leaked := 0 }
      else
      let r := rc.run m sideLimit data mop
      let old := (recvCells m rc data).toOption.getD []
      -- elements created / dropped besides the moves: clones written over old cells, the source dropped afterwards
      let drops : List Nat :=
        match mop, r with
        | .fill v, .ok _ => if rc.isRoot then data ++ (if data.isEmpty then [v] else []) else old ++ [v]
        | .copyFromSlice l, .ok _ => old ++ l
        | .copyFromSlice l, .error _ => l
        | .copyFromTooDee src, .ok _ => old ++ src.arr.data
        | .copyFromTooDee src, .error _ => src.arr.data
        | _, _ => []
      match r with
      | .ok d => some { cx.same with data := d, drops := cx.dr drops }
      | .error e => some { cx.fail e with drops := cx.dr drops }

end Toodee.Driver
