import Toodee.Driver.Proto
import Toodee.Impl.Copy
import Toodee.Impl.Sort
import Toodee.Impl.Translate
import Toodee.Impl.Insert
import Toodee.Impl.Remove
import Toodee.Impl.Recv
/-
  The driver's interpreter: for one op line and the harness's previous observation it computes the
  Impl-model's predicted observation (`M`).  The Spec verdicts (`S`) are in `Toodee/Driver/Oracle.lean`.
-/
namespace Toodee.Driver
open Toodee

inductive Elem | u32 | cell | zst | unit | nan | wide | widecell
deriving DecidableEq, Repr

/-- zero-sized kinds: positions are not observable, every value is 0 (`zst` = a ledgered unit struct with `Drop`; `unit` = `()`,
    the only kind whose arrays can be huge) -/
def Elem.isZst : Elem → Bool
  | .zst | .unit => true
  | _ => false

/-- the one value of the `nan` kind (a `u32` wrapper whose `==` is not reflexive for it, like a float's NaN) -/
def nanVal : Nat := 4242424242

/-- `T::eq` of the element kind -/
def Elem.eqα (e : Elem) (x y : Nat) : Bool := if e = .nan then (x == y && x != nanVal) else x == y

/-- `Copy` kinds on which the harness offers the `Copy`-only operations (`copy_*`; views serialise for `u32` only): `u32` and `wide` (a 96-byte
    cell that otherwise behaves like `u32`; the element size is not a parameter of the model) -/
def Elem.copyOps : Elem → Bool
  | .u32 | .wide => true
  | _ => false

/-- `<end>` of a drain line: `fold` / `rfold` consume the drain **by value** through `Iterator::fold` / `DoubleEndedIterator::rfold`
    (what `for_each`, `count`, `last`, `sum`, `rev().for_each` … call; std's defaults are loops over `next` / `next_back`), reporting
    how many items came out; the harness then drops those items front to back.  Observationally that is "`len()`, then drop the
    drain" (a drain drops what is left front to back): the line is rewritten to that form before the model and the oracle see it. -/
def normDrainEnd (line : String) : String :=
  let ws := line.splitOn " "
  match ws.getLast? with
  | some fin =>
    if (fin = "fold" ∨ fin = "rfold") ∧ ["remove_row", "remove_col", "pop_row", "pop_col"].contains (ws.getD 1 "") ∧ ws.length ≥ 4 then
      let word := ws.getD (ws.length - 2) "-"
      let word' := if word = "-" then "l" else word ++ ",l"
      " ".intercalate (ws.take (ws.length - 2) ++ [word', "drop"])
    else line
  | none => line

/-- kinds with a drop ledger -/
def Elem.ledgered : Elem → Bool
  | .cell | .zst | .widecell => true
  | _ => false

/-- a resolved receiver: the Impl-model's `Recv` (Impl/Recv.lean) over the driver's element representation -/
abbrev Recv := Toodee.Recv Nat

/-- a receiver segment of the protocol (PROTOCOL §5) as a borrowing step of the Impl-model -/
def Seg.toBorrow : Seg → Borrow
  | .ext => .asExt
  | .viewMut a b c d => .viewMut (a, b) (c, d)
  | .viewShared a b c d => .view (a, b) (c, d)
  | .sliceMut c r n => .sliceMut c r n
  | .sliceShared c r n => .slice c r n

/-- resolving a receiver token = the Impl-model's chain of borrowing steps (`Recv.borrowAll`, Impl/Recv.lean) -/
def resolve (m : Mode) (_t : TD Nat) (rc : Recv) (segs : List Seg) : Res (Option Recv) :=
  rc.borrowAll m (segs.map Seg.toBorrow)

/-- what an op produced: result tokens, new root data/dims, drops, number of elements created -/
structure MOut where
  status : String := "ok"
  toks : List String := []
  data : List Nat
  c : Nat
  r : Nat
  drops : List Nat := []
  leaked : Nat := 0          -- elements this op leaked (alive but owned by nobody)
deriving Repr

def errStatus : Err → String
  | .panic => "panic"
  | .ub => "ub"
  | .fuel => "fuel"

def getD (data : List Nat) (p : Nat) : Nat := data.getD p 0

/-! ### iterator words -/

inductive ItSt
  | rows (it : Rows) (isMut : Bool := false)
  | col (it : Col)
  | flat (s : Flat)

structure WordOut where
  toks : List String := []
  yielded : List Nat := []      -- positions of all cells of all yielded items, in yield order
  err : Option Err := none

def optWin : Option Win → String
  | none => "none"
  | some w => fmtWin w
def optPos : Option Nat → String
  | none => "none"
  | some p => toString p
def winPos : Option Win → List Nat
  | none => []
  | some w => w.positions
def optToList : Option Nat → List Nat
  | none => []
  | some p => [p]

def fmtItems (l : List String) : String := "[" ++ ";".intercalate l ++ "]"

/-- run one step; returns (token, yielded positions, new state or none if consumed) -/
def itStep (m : Mode) (st : ItSt) (step : String) : Res (String × List Nat × Option ItSt) :=
  let arg : Option Nat := (step.drop 1).toString.toNat?
  match st with
  | .rows it isMut =>
    match step.take 1 |>.toString, arg with
    | "n", _ => do let (x, it') ← it.next; pure (optWin x, winPos x, some (.rows it' isMut))
    | "b", _ => do
        -- `RowsMut::next_back` has its own text (C08_next_back_mut_eq)
        let (x, it') ← if isMut then it.nextBackMut m else it.nextBack m
        pure (optWin x, winPos x, some (.rows it' isMut))
    | "N", some k => do let (x, it') ← it.nth m k; pure (optWin x, winPos x, some (.rows it' isMut))
    | "B", some k => do let (x, it') ← it.nthBack m k; pure (optWin x, winPos x, some (.rows it' isMut))
    | "l", _ => do let n ← it.sizeHint m; pure (toString n, [], some st)
    | "h", _ => do let n ← it.sizeHint m; pure (s!"{n}:{n}", [], some st)
    | "w", _ => pure (toString it.cols, [], some st)
    | "c", _ => do let n ← it.sizeHint m; pure (toString n, [], none)
    | "L", _ => do let x ← it.last m; pure (optWin x, winPos x, none)
    | "f", _ => do
        let l ← it.collect (it.v.len + 2)
        pure (fmtItems (l.map fmtWin), (l.map Win.positions).flatten, none)
    | "r", _ => do
        let l ← it.collectBack m (it.v.len + 2)
        pure (fmtItems (l.map fmtWin), (l.map Win.positions).flatten, none)
    | _, _ => throw .fuel
  | .col it =>
    match step.take 1 |>.toString, arg with
    | "n", _ => do let (x, it') ← it.next; pure (optPos x, optToList x, some (.col it'))
    | "b", _ => do let (x, it') ← it.nextBack m; pure (optPos x, optToList x, some (.col it'))
    | "N", some k => do let (x, it') ← it.nth m k; pure (optPos x, optToList x, some (.col it'))
    | "B", some k => do let (x, it') ← it.nthBack m k; pure (optPos x, optToList x, some (.col it'))
    | "l", _ => do let n ← it.sizeHint m; pure (toString n, [], some st)
    | "h", _ => do let n ← it.sizeHint m; pure (s!"{n}:{n}", [], some st)
    | "i", some k => do let p ← it.index m k; pure (toString p, [], some st)
    | "c", _ => do let n ← it.sizeHint m; pure (toString n, [], none)
    | "L", _ => do let x ← it.last m; pure (optPos x, optToList x, none)
    | "f", _ => do
        let l ← it.collect (it.v.len + 2)
        pure (fmtItems (l.map toString), l, none)
    | "r", _ => do
        let l ← it.collectBack m (it.v.len + 2)
        pure (fmtItems (l.map toString), l, none)
    | _, _ => throw .fuel
  | .flat s =>
    let fuel := s.iter.v.len + 3
    match step.take 1 |>.toString, arg with
    | "n", _ => do let (x, s') ← s.next fuel; pure (optPos x, optToList x, some (.flat s'))
    | "b", _ => do let (x, s') ← s.nextBack m fuel; pure (optPos x, optToList x, some (.flat s'))
    | "N", some k => do let (x, s') ← s.nth m k; pure (optPos x, optToList x, some (.flat s'))
    | "B", some k => do let (x, s') ← s.nthBack m k; pure (optPos x, optToList x, some (.flat s'))
    | "l", _ => do let n ← s.sizeHint m; pure (toString n, [], some st)
    | "h", _ => do let n ← s.sizeHint m; pure (s!"{n}:{n}", [], some st)
    | "w", _ => pure (toString s.iter.cols, [], some st)
    | "c", _ => do let n ← s.sizeHint m; pure (toString n, [], none)   -- default `count` = fold; same number
    | "L", _ => do let x ← s.last m fuel; pure (optPos x, optToList x, none)
    | "f", _ => do let l ← s.collect fuel; pure (fmtItems (l.map toString), l, none)
    | "r", _ => do let l ← s.collectBack m fuel; pure (fmtItems (l.map toString), l, none)
    | _, _ => throw .fuel

def runWord (m : Mode) : ItSt → List String → WordOut → WordOut
  | _, [], acc => acc
  | st, step :: rest, acc =>
    match itStep m st step with
    | .error e => { acc with err := some e }
    | .ok (tok, ys, st') =>
      let acc := { acc with toks := acc.toks ++ [tok], yielded := acc.yielded ++ ys }
      match st' with
      | some st' => runWord m st' rest acc
      | none => acc

/-- `val += by` for every listed position (a position listed twice is bumped twice) -/
def bump (data : List Nat) (ps : List Nat) (by_ : Nat) : List Nat :=
  ps.foldl (fun d p => if p < d.length then d.set p (getD d p + by_) else d) data

end Toodee.Driver
