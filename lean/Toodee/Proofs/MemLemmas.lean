import Toodee.Spec.Grid
/-
  Reusable lemmas about the raw-memory primitives (`memmove`, `memmoveChecked`, `ptrWrite`) on buffers written as
  concatenations of blocks, and about re-chunking a row-major buffer into rows (`toRows`, `flatten` of uniform rows).
  Used by C06 (insert_row / insert_col: blocks move RIGHT across junk) and C07 (remove_col compaction: blocks move LEFT).
-/
namespace Toodee
variable {α : Type}

/-! ### memmove on block-structured buffers -/

/-- moving a block onto itself changes nothing -/
theorem memmove_self (buf : List α) (p n : Nat) : memmove buf p p n = buf := by
  unfold memmove
  rw [List.append_assoc, ← List.drop_drop, List.take_append_drop, List.take_append_drop]

/-- a zero-length move changes nothing -/
theorem memmove_zero (buf : List α) (src dst : Nat) : memmove buf src dst 0 = buf := by
  simp [memmove]

/-- move `blk` RIGHT across the junk `J`: the junk (same length, new content) ends up on the left of the block -/
theorem memmove_right (X blk J Y : List α) :
    ∃ J', J'.length = J.length ∧
      memmove (X ++ blk ++ J ++ Y) X.length (X.length + J.length) blk.length = X ++ J' ++ blk ++ Y := by
  refine ⟨(blk ++ J).take J.length, by simp, ?_⟩
  have e1 : X.length + J.length + blk.length - X.length = J.length + blk.length := by omega
  have e2 : J.length + blk.length - blk.length = J.length := by omega
  have e3 : X.length ≤ X.length + J.length := by omega
  have e4 : X.length ≤ X.length + J.length + blk.length := by omega
  have e5 : blk.length ≤ J.length + blk.length := by omega
  simp [memmove, List.take_append, List.drop_append, e1, e2, List.take_of_length_le e3,
    List.drop_of_length_le e4, List.drop_of_length_le e5]

/-- move `blk` LEFT across the junk `J`: the junk (same length, new content) ends up on the right of the block -/
theorem memmove_left (X J blk Y : List α) :
    ∃ J', J'.length = J.length ∧
      memmove (X ++ J ++ blk ++ Y) (X.length + J.length) X.length blk.length = X ++ blk ++ J' ++ Y := by
  refine ⟨(J ++ blk).drop blk.length, by simp, ?_⟩
  have e1 : X.length + blk.length - X.length = blk.length := by omega
  have e3 : X.length ≤ X.length + J.length := by omega
  have e4 : X.length ≤ X.length + blk.length := by omega
  simp [memmove, List.drop_append, e1, List.drop_of_length_le e4, List.drop_of_length_le e3]

/-- checked version of `memmove_right`: both ranges are inside the buffer -/
theorem memmoveChecked_right (X blk J Y : List α) :
    ∃ J', J'.length = J.length ∧
      memmoveChecked (X ++ blk ++ J ++ Y) X.length (X.length + J.length) blk.length = .ok (X ++ J' ++ blk ++ Y) := by
  obtain ⟨J', h1, h2⟩ := memmove_right X blk J Y
  refine ⟨J', h1, ?_⟩
  unfold memmoveChecked
  rw [h2, if_pos (by simp; omega)]
  rfl

/-- checked version of `memmove_left` -/
theorem memmoveChecked_left (X J blk Y : List α) :
    ∃ J', J'.length = J.length ∧
      memmoveChecked (X ++ J ++ blk ++ Y) (X.length + J.length) X.length blk.length = .ok (X ++ blk ++ J' ++ Y) := by
  obtain ⟨J', h1, h2⟩ := memmove_left X J blk Y
  refine ⟨J', h1, ?_⟩
  unfold memmoveChecked
  rw [h2, if_pos (by simp; omega)]
  rfl

theorem memmoveChecked_self (buf : List α) (p n : Nat) (h : p + n ≤ buf.length) :
    memmoveChecked buf p p n = .ok buf := by
  unfold memmoveChecked
  rw [memmove_self, if_pos ⟨h, h⟩]
  rfl

/-- overwrite the first cell of the block `J` -/
theorem set_first_of_junk (X J Y : List α) (x : α) (hJ : 0 < J.length) :
    ∃ J', J'.length + 1 = J.length ∧ (X ++ J ++ Y).set X.length x = X ++ [x] ++ J' ++ Y := by
  match J, hJ with
  | j :: J0, _ =>
    refine ⟨J0, by simp, ?_⟩
    simp

/-- overwrite the last cell of the block `J` -/
theorem set_last_of_junk (X J Y : List α) (x : α) (hJ : 0 < J.length) :
    ∃ J', J'.length + 1 = J.length ∧ (X ++ J ++ Y).set (X.length + J.length - 1) x = X ++ J' ++ [x] ++ Y := by
  rcases List.eq_nil_or_concat J with rfl | ⟨J0, j, rfl⟩
  · simp at hJ
  · simp only [List.concat_eq_append] at *
    refine ⟨J0, by simp, ?_⟩
    have : X.length + (J0 ++ [j]).length - 1 = (X ++ J0).length := by simp
    rw [this, show X ++ (J0 ++ [j]) ++ Y = (X ++ J0) ++ (j :: Y) by simp, List.set_append_right _ _ (Nat.le_refl _)]
    simp

/-- `ptr::write` into the last cell of the block `J` -/
theorem ptrWrite_last_of_junk (X J Y : List α) (x : α) (hJ : 0 < J.length) :
    ∃ J', J'.length + 1 = J.length ∧ ptrWrite (X ++ J ++ Y) (X.length + J.length - 1) x = .ok (X ++ J' ++ [x] ++ Y) := by
  obtain ⟨J', h1, h2⟩ := set_last_of_junk X J Y x hJ
  refine ⟨J', h1, ?_⟩
  unfold ptrWrite
  rw [h2, if_pos (by simp; omega)]
  rfl

/-! ### rows of equal length: `flatten`, `toRows` -/

theorem flatten_length_uniform (C : Nat) (l : List (List α)) (hl : ∀ r ∈ l, r.length = C) :
    l.flatten.length = l.length * C := by
  induction l with
  | nil => simp
  | cons a l ih =>
    have h1 : a.length = C := hl a (by simp)
    have h2 := ih (fun r hr => hl r (by simp [hr]))
    simp only [List.flatten_cons, List.length_append, List.length_cons, h1, h2, Nat.add_mul]; omega

/-- the first `i` rows are the first `i*C` cells -/
theorem take_flatten_uniform (C : Nat) (l : List (List α)) (hl : ∀ r ∈ l, r.length = C) (i : Nat) :
    l.flatten.take (i * C) = (l.take i).flatten := by
  induction l generalizing i with
  | nil => simp
  | cons a l ih =>
    cases i with
    | zero => simp
    | succ i =>
      have h1 : a.length = C := hl a (by simp)
      have h2 := ih (fun r hr => hl r (by simp [hr])) i
      have e : (i + 1) * C = a.length + i * C := by rw [Nat.add_mul, h1]; omega
      simp only [List.flatten_cons, List.take_succ_cons, e, List.take_length_add_append, h2]

/-- the rows from `i` on are the cells from `i*C` on -/
theorem drop_flatten_uniform (C : Nat) (l : List (List α)) (hl : ∀ r ∈ l, r.length = C) (i : Nat) :
    l.flatten.drop (i * C) = (l.drop i).flatten := by
  induction l generalizing i with
  | nil => simp
  | cons a l ih =>
    cases i with
    | zero => simp
    | succ i =>
      have h1 : a.length = C := hl a (by simp)
      have h2 := ih (fun r hr => hl r (by simp [hr])) i
      have e : (i + 1) * C = a.length + i * C := by rw [Nat.add_mul, h1]; omega
      simp only [List.flatten_cons, List.drop_succ_cons, e, List.drop_length_add_append, h2]

theorem insertIdx_eq_take_append_drop {β : Type} (l : List β) (i : Nat) (x : β) (hi : i ≤ l.length) :
    l.insertIdx i x = l.take i ++ x :: l.drop i := by
  induction l generalizing i with
  | nil =>
    have : i = 0 := by simpa using hi
    subst this; simp
  | cons a l ih =>
    cases i with
    | zero => simp
    | succ i => simp [List.insertIdx_succ_cons, ih i (by simpa using hi)]

/-- inserting a row = inserting its cells at the row boundary -/
theorem flatten_insertIdx_uniform (C : Nat) (l : List (List α)) (hl : ∀ r ∈ l, r.length = C) (i : Nat)
    (xs : List α) (hi : i ≤ l.length) :
    (l.insertIdx i xs).flatten = l.flatten.take (i * C) ++ xs ++ l.flatten.drop (i * C) := by
  rw [take_flatten_uniform C l hl, drop_flatten_uniform C l hl, insertIdx_eq_take_append_drop l i xs hi]
  simp

/-- erasing a row = cutting its cells out -/
theorem flatten_eraseIdx_uniform (C : Nat) (l : List (List α)) (hl : ∀ r ∈ l, r.length = C) (i : Nat) :
    (l.eraseIdx i).flatten = l.flatten.take (i * C) ++ l.flatten.drop ((i + 1) * C) := by
  rw [take_flatten_uniform C l hl, drop_flatten_uniform C l hl, List.eraseIdx_eq_take_drop_succ]
  simp

theorem toRows_length (c : Nat) (data : List α) : (toRows c data).length = data.length / c := by
  simp [toRows]

theorem toRows_row_length (c : Nat) (data : List α) : ∀ r ∈ toRows c data, r.length = c := by
  intro r hr
  simp only [toRows, List.mem_map, List.mem_range] at hr
  obtain ⟨k, hk, rfl⟩ := hr
  have hc : 0 < c := by
    rcases Nat.eq_zero_or_pos c with rfl | h
    · simp at hk
    · exact h
  have h1 : (k + 1) * c ≤ data.length := (Nat.le_div_iff_mul_le hc).1 hk
  rw [Nat.add_mul] at h1
  simp only [List.length_take, List.length_drop]
  omega

/-- cutting `row ++ rest` into rows of `|row|` cells: `row` first, then `rest` cut the same way -/
theorem toRows_append (c : Nat) (hc : 0 < c) (row rest : List α) (hr : row.length = c) :
    toRows c (row ++ rest) = row :: toRows c rest := by
  unfold toRows
  have e : (row ++ rest).length / c = rest.length / c + 1 := by
    rw [List.length_append, hr, Nat.add_comm, Nat.add_div_right _ hc]
  rw [e, List.range_succ_eq_map, List.map_cons, List.map_map]
  congr 1
  · simp [← hr]
  · apply List.map_congr_left
    intro k _
    have e2 : (k + 1) * c = row.length + k * c := by rw [Nat.add_mul, hr]; omega
    simp only [Function.comp, Nat.succ_eq_add_one, e2, List.drop_length_add_append]

/-- cutting the concatenation of rows of `C` cells gives the rows back -/
theorem toRows_flatten (C : Nat) (hC : 0 < C) (l : List (List α)) (hl : ∀ r ∈ l, r.length = C) :
    toRows C l.flatten = l := by
  induction l with
  | nil => simp [toRows]
  | cons a l ih =>
    rw [List.flatten_cons, toRows_append C hC a _ (hl a (by simp)), ih (fun r hr => hl r (by simp [hr]))]

/-- a buffer of `R*c` cells is the concatenation of its rows -/
theorem flatten_toRows (c R : Nat) (data : List α) (h : data.length = R * c) : (toRows c data).flatten = data := by
  rcases Nat.eq_zero_or_pos c with rfl | hc
  · have : data = [] := List.eq_nil_of_length_eq_zero (by simpa using h)
    subst this
    simp [toRows]
  · induction R generalizing data with
    | zero =>
      have : data = [] := List.eq_nil_of_length_eq_zero (by simpa using h)
      subst this
      simp [toRows]
    | succ R ih =>
      have h1 : (data.take c).length = c := by
        rw [List.length_take, h, Nat.add_mul]; omega
      have h2 : (data.drop c).length = R * c := by
        rw [List.length_drop, h, Nat.add_mul]; omega
      conv => lhs; rw [← List.take_append_drop c data]
      rw [toRows_append c hc _ _ h1, List.flatten_cons, ih _ h2, List.take_append_drop]

/-! ### the grid of an array with the shape invariant -/

theorem TD.grid_row_length (t : TD α) : ∀ r ∈ t.grid, r.length = t.numCols :=
  toRows_row_length _ _

theorem TD.Inv.grid_length {t : TD α} (h : t.Inv) : t.grid.length = t.numRows := by
  unfold TD.grid
  rw [toRows_length, h.len]
  rcases Nat.eq_zero_or_pos t.numCols with h0 | hc
  · rw [h0, h.zero.1 h0]
  · exact Nat.mul_div_cancel_left _ hc

theorem TD.Inv.data_eq_flatten_grid {t : TD α} (h : t.Inv) : t.data = t.grid.flatten := by
  unfold TD.grid
  rw [flatten_toRows t.numCols t.numRows t.data (by rw [h.len, Nat.mul_comm])]

end Toodee
