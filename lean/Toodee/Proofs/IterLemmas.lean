import Toodee.Spec.IterAbs
/-
  Lemmas about the slice cursors `Rows`/`RowsMut` and `Col`/`ColMut` (Impl/Iter.lean): every cursor operation run on a
  well-formed cursor (`Rows.WF` / `Col.WF`) returns what the ideal sequence `it.abs k` returns, never fails, and leaves a
  well-formed cursor standing for the ideal remainder.  Stated in a reusable form (`*.next_spec`, `*.nth_spec`, ...;
  the results also say that `cols`/`skip` never change) — the `C08_*`/`C09_*` theorems are thin wrappers.
-/
namespace Toodee

/-! ### lists of the form `(List.range k).map f` -/
section ListRange
variable {β : Type}

theorem map_range_getElem? (f : Nat → β) (k j : Nat) :
    ((List.range k).map f)[j]? = if j < k then some (f j) else none := by
  by_cases h : j < k <;> simp [h]

theorem map_range_head? (f : Nat → β) (k : Nat) :
    ((List.range k).map f).head? = if k = 0 then none else some (f 0) := by
  cases k with
  | zero => simp
  | succ k => simp [List.range_succ_eq_map]

theorem map_range_tail (f : Nat → β) (k : Nat) :
    ((List.range k).map f).tail = (List.range (k - 1)).map (fun i => f (i + 1)) := by
  cases k with
  | zero => simp
  | succ k => simp [List.range_succ_eq_map, Function.comp_def]

theorem map_range_getLast? (f : Nat → β) (k : Nat) :
    ((List.range k).map f).getLast? = if k = 0 then none else some (f (k - 1)) := by
  cases k with
  | zero => simp
  | succ k => simp [List.range_succ]

theorem map_range_dropLast (f : Nat → β) (k : Nat) :
    ((List.range k).map f).dropLast = (List.range (k - 1)).map f := by
  cases k with
  | zero => simp
  | succ k => simp [List.range_succ]

theorem map_range_drop (f : Nat → β) (k j : Nat) :
    ((List.range k).map f).drop j = (List.range (k - j)).map (fun i => f (i + j)) := by
  apply List.ext_getElem?
  intro i
  simp only [List.getElem?_drop, map_range_getElem?]
  by_cases h : i < k - j
  · have : j + i < k := by omega
    simp [h, this, Nat.add_comm]
  · have : ¬ j + i < k := by omega
    simp [h, this]

theorem map_range_take (f : Nat → β) (k j : Nat) :
    ((List.range k).map f).take j = (List.range (min j k)).map f := by
  apply List.ext_getElem?
  intro i
  simp only [List.getElem?_take, map_range_getElem?]
  by_cases h1 : i < j <;> by_cases h2 : i < k <;> simp [h1, h2] <;> omega

theorem map_range_congr {f g : Nat → β} (k : Nat) (h : ∀ i, i < k → f i = g i) :
    (List.range k).map f = (List.range k).map g := by
  apply List.map_congr_left
  intro i hi
  exact h i (List.mem_range.1 hi)

theorem map_range_succ_head (f : Nat → β) (k : Nat) :
    (List.range (k + 1)).map f = f 0 :: (List.range k).map (fun i => f (i + 1)) := by
  simp [List.range_succ_eq_map, Function.comp_def]

theorem map_range_succ_last (f : Nat → β) (k : Nat) :
    (List.range (k + 1)).map f = (List.range k).map f ++ [f k] := by
  simp [List.range_succ]

end ListRange

/-! ### arithmetic helpers -/

/-- `omul` does not overflow below `WORD` -/
theorem omul_of_lt {a b : Nat} (h : a * b < WORD) : omul a b = (a * b, false) := by
  simp [omul, Nat.mod_eq_of_lt h, Nat.not_le.2 h]

/-- `omul` reports overflow exactly -/
theorem omul_of_ge {a b : Nat} (h : WORD ≤ a * b) : omul a b = (a * b % WORD, true) := by
  simp [omul, h]

/-! ### `Rows` / `RowsMut` -/
namespace Rows

theorem abs_length (it : Rows) (k : Nat) : (it.abs k).length = k := by simp [abs]

theorem abs_getElem? (it : Rows) (k j : Nat) :
    (it.abs k)[j]? = if j < k then some ⟨it.v.off + j * (it.cols + it.skip), it.cols⟩ else none := by
  simp only [abs, map_range_getElem?]

theorem mem_abs {it : Rows} {k : Nat} {w : Win} :
    w ∈ it.abs k ↔ ∃ j, j < k ∧ w = ⟨it.v.off + j * (it.cols + it.skip), it.cols⟩ := by
  simp only [abs, List.mem_map, List.mem_range]
  constructor
  · rintro ⟨j, hj, rfl⟩; exact ⟨j, hj, rfl⟩
  · rintro ⟨j, hj, rfl⟩; exact ⟨j, hj, rfl⟩

theorem abs_zero (it : Rows) : it.abs 0 = [] := by simp [abs]

/-- `abs` only depends on the window's offset, `cols` and `skip` -/
theorem abs_congr {it it' : Rows} (k : Nat) (ho : it'.v.off = it.v.off) (hc : it'.cols = it.cols)
    (hs : it'.skip = it.skip) : it'.abs k = it.abs k := by
  simp [abs, ho, hc, hs]

theorem WF.zero_len {it : Rows} {n : Nat} (h : it.WF 0 n) : it.v.len = 0 := by
  simpa using h.len

theorem WF.succ_len {it : Rows} {k n : Nat} (h : it.WF (k + 1) n) :
    it.v.len = k * (it.cols + it.skip) + it.cols := by
  simpa using h.len

/-- the exhausted cursor (`Win.empty`) is well-formed with nothing left -/
theorem WF.empty {it : Rows} {k n : Nat} (h : it.WF k n) : ({ it with v := Win.empty } : Rows).WF 0 n :=
  ⟨fun h0 => absurd rfl h0, by simp [Win.empty], by simp [Win.empty], h.stride_word, h.word⟩

/-- `j` whole rows fit in front of the remaining slice iff `j < k` -/
theorem WF.mul_lt_len_iff {it : Rows} {k n : Nat} (h : it.WF k n) (j : Nat) :
    j * (it.cols + it.skip) < it.v.len ↔ j < k := by
  cases k with
  | zero => simp [h.zero_len]
  | succ r =>
    have hl := h.succ_len
    have hc : 0 < it.cols := h.cols_pos (by omega)
    constructor
    · intro hlt
      apply Classical.byContradiction
      intro hge
      have : (r + 1) * (it.cols + it.skip) ≤ j * (it.cols + it.skip) :=
        Nat.mul_le_mul_right _ (by omega)
      rw [Nat.add_mul] at this
      omega
    · intro hlt
      have : j * (it.cols + it.skip) ≤ r * (it.cols + it.skip) := Nat.mul_le_mul_right _ (by omega)
      omega

/-- dropping `j < k` rows at the front (what `nth` does with `split_at`) -/
theorem WF.advance {it : Rows} {k n : Nat} (h : it.WF k n) {j : Nat} (hj : j < k) :
    let it' : Rows := { it with v := ⟨it.v.off + j * (it.cols + it.skip), it.v.len - j * (it.cols + it.skip)⟩ }
    it'.WF (k - j) n ∧ it'.abs (k - j) = (it.abs k).drop j := by
  obtain ⟨r, rfl⟩ : ∃ r, k = j + r + 1 := ⟨k - j - 1, by omega⟩
  have hl := h.succ_len
  have hc : 0 < it.cols := h.cols_pos (by omega)
  have hin := h.inside
  rw [Nat.add_mul] at hl
  have hk : j + r + 1 - j = r + 1 := by omega
  rw [hk]
  refine ⟨⟨fun _ => hc, ?_, ?_, h.stride_word, h.word⟩, ?_⟩
  · simp only [Nat.add_sub_cancel]; simp; omega
  · simp only; omega
  · rw [abs, abs, map_range_drop, hk]
    apply map_range_congr
    intro i _
    simp [Nat.add_mul]; omega

/-- dropping `j < k` rows at the back (what `nth_back` does with `get_unchecked(..len - j*d)`) -/
theorem WF.retreat {it : Rows} {k n : Nat} (h : it.WF k n) {j : Nat} (hj : j < k) :
    let it' : Rows := { it with v := ⟨it.v.off, it.v.len - j * (it.cols + it.skip)⟩ }
    it'.WF (k - j) n ∧ it'.abs (k - j) = (it.abs k).take (k - j) := by
  obtain ⟨r, rfl⟩ : ∃ r, k = j + r + 1 := ⟨k - j - 1, by omega⟩
  have hl := h.succ_len
  have hc : 0 < it.cols := h.cols_pos (by omega)
  have hin := h.inside
  rw [Nat.add_mul] at hl
  have hk : j + r + 1 - j = r + 1 := by omega
  rw [hk]
  refine ⟨⟨fun _ => hc, ?_, ?_, h.stride_word, h.word⟩, ?_⟩
  · simp only [Nat.add_sub_cancel]; simp; omega
  · simp only; omega
  · rw [abs, abs, map_range_take]
    have : min (r + 1) (j + r + 1) = r + 1 := by omega
    rw [this]

/-! #### `next` -/

theorem next_zero {it : Rows} {n : Nat} (h : it.WF 0 n) : it.next = .ok (none, it) := by
  simp [next, h.zero_len]

theorem next_succ {it : Rows} {k n : Nat} (h : it.WF (k + 1) n) :
    ∃ it', it.next = .ok (some ⟨it.v.off, it.cols⟩, it') ∧ it'.WF k n ∧
      it'.cols = it.cols ∧ it'.skip = it.skip ∧
      (k ≠ 0 → it'.v.off = it.v.off + (it.cols + it.skip)) ∧
      it'.abs k = (it.abs (k + 1)).tail := by
  have hl := h.succ_len
  have hc : 0 < it.cols := h.cols_pos (by omega)
  have hin := h.inside
  cases k with
  | zero =>
    refine ⟨{ it with v := Win.empty }, ?_, h.empty, rfl, rfl, fun h0 => absurd rfl h0, by simp [abs]⟩
    have h1 : it.v.len = it.cols := by simpa using hl
    have h2 : ¬ it.cols = 0 := by omega
    simp [next, Win.splitAt, h1, h2]
  | succ j =>
    rw [Nat.add_mul] at hl
    refine ⟨{ it with v := ⟨it.v.off + it.cols + it.skip, j * (it.cols + it.skip) + it.cols⟩ }, ?_, ?_,
      rfl, rfl, fun _ => by simp; omega, ?_⟩
    · have h1 : ¬ it.v.len = 0 := by omega
      have h2 : it.cols ≤ it.v.len := by omega
      have h3 : ¬ it.v.len - it.cols = 0 := by omega
      have h4 : it.skip ≤ it.v.len - it.cols := by omega
      simp [next, Win.splitAt, Win.getFrom, h1, h2, h3, h4]
      omega
    · refine ⟨fun _ => hc, by simp, ?_, h.stride_word, h.word⟩
      simp only; omega
    · rw [abs, abs, map_range_tail]
      apply map_range_congr
      intro i _
      simp [Nat.add_mul]; omega

/-- `next` / `RowsMut::next`: yields the first remaining row, keeps the invariant -/
theorem next_spec {it : Rows} {k n : Nat} (h : it.WF k n) :
    ∃ it', it.next = .ok ((it.abs k).head?, it') ∧ it'.WF (k - 1) n ∧
      it'.cols = it.cols ∧ it'.skip = it.skip ∧ it'.abs (k - 1) = (it.abs k).tail := by
  cases k with
  | zero => exact ⟨it, by simp [next_zero h, abs], h, rfl, rfl, by simp [abs]⟩
  | succ k =>
    obtain ⟨it', h1, h2, h3, h4, _, h6⟩ := next_succ h
    refine ⟨it', ?_, h2, h3, h4, h6⟩
    rw [h1, abs, map_range_head?]
    simp

/-! #### `next_back` -/

theorem nextBack_zero (m : Mode) {it : Rows} {n : Nat} (h : it.WF 0 n) : it.nextBack m = .ok (none, it) := by
  simp [nextBack, h.zero_len]

theorem nextBack_succ (m : Mode) {it : Rows} {k n : Nat} (h : it.WF (k + 1) n) :
    ∃ it', it.nextBack m = .ok (some ⟨it.v.off + k * (it.cols + it.skip), it.cols⟩, it') ∧ it'.WF k n ∧
      it'.cols = it.cols ∧ it'.skip = it.skip ∧
      (k ≠ 0 → it'.v.off = it.v.off) ∧
      it'.abs k = (it.abs (k + 1)).dropLast := by
  have hl := h.succ_len
  have hc : 0 < it.cols := h.cols_pos (by omega)
  have hin := h.inside
  have hsub : usub m it.v.len it.cols = .ok (k * (it.cols + it.skip)) := by
    rw [usub_ok m _ _ (by omega)]; congr 1; omega
  cases k with
  | zero =>
    refine ⟨{ it with v := Win.empty }, ?_, h.empty, rfl, rfl, fun h0 => absurd rfl h0, by simp [abs]⟩
    have h1 : it.v.len = it.cols := by simpa using hl
    have h2 : ¬ it.cols = 0 := by omega
    simp only [Nat.zero_mul, h1] at hsub
    simp [nextBack, hsub, Win.splitAt, h1, h2]
  | succ j =>
    refine ⟨{ it with v := ⟨it.v.off, j * (it.cols + it.skip) + it.cols⟩ }, ?_, ?_,
      rfl, rfl, fun _ => rfl, ?_⟩
    · have h1 : ¬ it.v.len = 0 := by omega
      have h2 : (j + 1) * (it.cols + it.skip) ≤ it.v.len := by omega
      have h3 : ¬ (j + 1) * (it.cols + it.skip) = 0 := by rw [Nat.add_mul]; omega
      have h4 : usub m ((j + 1) * (it.cols + it.skip)) it.skip = .ok (j * (it.cols + it.skip) + it.cols) := by
        rw [usub_ok m _ _ (by rw [Nat.add_mul]; omega)]; congr 1; rw [Nat.add_mul]; omega
      have h5 : j * (it.cols + it.skip) + it.cols ≤ (j + 1) * (it.cols + it.skip) := by
        rw [Nat.add_mul]; omega
      simp [nextBack, hsub, Win.splitAt, Win.getTo, h1, h2, h3, h4, h5]
      omega
    · refine ⟨fun _ => hc, by simp, ?_, h.stride_word, h.word⟩
      rw [Nat.add_mul] at hl
      simp only; omega
    · rw [abs, abs, map_range_dropLast]
      rfl

/-- `next_back` / `RowsMut::next_back`: yields the last remaining row, keeps the invariant -/
theorem nextBack_spec (m : Mode) {it : Rows} {k n : Nat} (h : it.WF k n) :
    ∃ it', it.nextBack m = .ok ((it.abs k).getLast?, it') ∧ it'.WF (k - 1) n ∧
      it'.cols = it.cols ∧ it'.skip = it.skip ∧ it'.abs (k - 1) = (it.abs k).dropLast := by
  cases k with
  | zero => exact ⟨it, by simp [nextBack_zero m h, abs], h, rfl, rfl, by simp [abs]⟩
  | succ k =>
    obtain ⟨it', h1, h2, h3, h4, _, h6⟩ := nextBack_succ m h
    refine ⟨it', ?_, h2, h3, h4, h6⟩
    rw [h1, abs, map_range_getLast?]
    simp

/-- `last` -/
theorem last_spec (m : Mode) {it : Rows} {k n : Nat} (h : it.WF k n) :
    it.last m = .ok (it.abs k).getLast? := by
  obtain ⟨it', h1, _⟩ := nextBack_spec m h
  simp [last, h1]

/-! #### `nth` -/

/-- `nth(j)` with `j ≥ k`: everything is consumed (also when `j * (cols+skip)` wraps) -/
theorem nth_ge (m : Mode) {it : Rows} {k n : Nat} (h : it.WF k n) {j : Nat} (hj : k ≤ j) :
    it.nth m j = .ok (none, { it with v := Win.empty }) := by
  have hnl : ¬ j * (it.cols + it.skip) < it.v.len := fun hlt => by
    have := (h.mul_lt_len_iff j).1 hlt; omega
  by_cases ho : WORD ≤ j * (it.cols + it.skip)
  · simp only [nth, uadd_ok m _ _ h.stride_word, ok_bind, omul_of_ge ho]
    rw [if_pos (Or.inr trivial)]
    exact next_zero h.empty
  · have hW : j * (it.cols + it.skip) < WORD := by omega
    simp only [nth, uadd_ok m _ _ h.stride_word, ok_bind, omul_of_lt hW]
    rw [if_pos (Or.inl (by omega))]
    exact next_zero h.empty

/-- `nth(j)` with `j < k`: the cursor is first advanced by `j` rows -/
theorem nth_lt (m : Mode) {it : Rows} {k n : Nat} (h : it.WF k n) {j : Nat} (hj : j < k) :
    it.nth m j = next { it with v := ⟨it.v.off + j * (it.cols + it.skip), it.v.len - j * (it.cols + it.skip)⟩ } := by
  have hlt : j * (it.cols + it.skip) < it.v.len := (h.mul_lt_len_iff j).2 hj
  have hin := h.inside
  have hw := h.word
  have hW : j * (it.cols + it.skip) < WORD := by omega
  have hcond : ¬ (j * (it.cols + it.skip) ≥ it.v.len ∨ false = true) := by
    simp; omega
  simp only [nth, uadd_ok m _ _ h.stride_word, ok_bind, omul_of_lt hW]
  rw [if_neg hcond]
  simp [Win.splitAt, Nat.le_of_lt hlt]

/-- `nth` / `RowsMut::nth` -/
theorem nth_spec (m : Mode) {it : Rows} {k n : Nat} (h : it.WF k n) (j : Nat) :
    ∃ it', it.nth m j = .ok ((it.abs k)[j]?, it') ∧ it'.WF (k - (j + 1)) n ∧
      it'.cols = it.cols ∧ it'.skip = it.skip ∧ it'.abs (k - (j + 1)) = (it.abs k).drop (j + 1) := by
  by_cases hj : j < k
  · obtain ⟨hwf, habs⟩ := h.advance hj
    obtain ⟨it', h1, h2, h3, h4, h5⟩ := next_spec hwf
    refine ⟨it', ?_, ?_, h3, h4, ?_⟩
    · rw [nth_lt m h hj, h1, habs]
      simp
    · have : k - (j + 1) = k - j - 1 := by omega
      rw [this]; exact h2
    · have : k - (j + 1) = k - j - 1 := by omega
      rw [this, h5, habs]
      simp
  · have hk : k - (j + 1) = 0 := by omega
    refine ⟨{ it with v := Win.empty }, ?_, by rw [hk]; exact h.empty, rfl, rfl, ?_⟩
    · rw [nth_ge m h (by omega), abs_getElem?, if_neg hj]
    · rw [hk, abs_zero]
      symm
      apply List.drop_eq_nil_of_le
      rw [abs_length]; omega

/-! #### `nth_back` -/

theorem nthBack_ge (m : Mode) {it : Rows} {k n : Nat} (h : it.WF k n) {j : Nat} (hj : k ≤ j) :
    it.nthBack m j = .ok (none, { it with v := Win.empty }) := by
  have hnl : ¬ j * (it.cols + it.skip) < it.v.len := fun hlt => by
    have := (h.mul_lt_len_iff j).1 hlt; omega
  by_cases ho : WORD ≤ j * (it.cols + it.skip)
  · simp only [nthBack, uadd_ok m _ _ h.stride_word, ok_bind, omul_of_ge ho]
    rw [if_pos (Or.inr trivial)]
    exact nextBack_zero m h.empty
  · have hW : j * (it.cols + it.skip) < WORD := by omega
    simp only [nthBack, uadd_ok m _ _ h.stride_word, ok_bind, omul_of_lt hW]
    rw [if_pos (Or.inl (by omega))]
    exact nextBack_zero m h.empty

theorem nthBack_lt (m : Mode) {it : Rows} {k n : Nat} (h : it.WF k n) {j : Nat} (hj : j < k) :
    it.nthBack m j = nextBack m { it with v := ⟨it.v.off, it.v.len - j * (it.cols + it.skip)⟩ } := by
  have hlt : j * (it.cols + it.skip) < it.v.len := (h.mul_lt_len_iff j).2 hj
  have hin := h.inside
  have hw := h.word
  have hW : j * (it.cols + it.skip) < WORD := by omega
  have hcond : ¬ (j * (it.cols + it.skip) ≥ it.v.len ∨ false = true) := by
    simp; omega
  simp only [nthBack, uadd_ok m _ _ h.stride_word, ok_bind, omul_of_lt hW]
  rw [if_neg hcond]
  simp [usub_ok m _ _ (Nat.le_of_lt hlt), Win.getTo]

/-- `nth_back` / `RowsMut::nth_back` (result as in `Seq.nthBack`) -/
theorem nthBack_spec (m : Mode) {it : Rows} {k n : Nat} (h : it.WF k n) (j : Nat) :
    ∃ it', it.nthBack m j = .ok ((Seq.nthBack (it.abs k) j).1, it') ∧ it'.WF (k - (j + 1)) n ∧
      it'.cols = it.cols ∧ it'.skip = it.skip ∧ it'.abs (k - (j + 1)) = (Seq.nthBack (it.abs k) j).2 := by
  simp only [Seq.nthBack, abs_length]
  by_cases hj : j < k
  · obtain ⟨hwf, habs⟩ := h.retreat hj
    obtain ⟨it', h1, h2, h3, h4, h5⟩ := nextBack_spec m hwf
    have hk : k - (j + 1) = k - j - 1 := by omega
    have hk' : k - 1 - j = k - j - 1 := by omega
    have hne : ¬ k - j = 0 := by omega
    refine ⟨it', ?_, ?_, h3, h4, ?_⟩
    · rw [nthBack_lt m h hj, h1, if_pos hj, hk', abs_getElem?, if_pos (by omega)]
      simp only [abs, map_range_getLast?, if_neg hne]
    · rw [hk]; exact h2
    · rw [hk, h5]
      simp only [abs, map_range_dropLast, map_range_take]
      have : min (k - j - 1) k = k - j - 1 := by omega
      rw [this]
  · have hk : k - (j + 1) = 0 := by omega
    refine ⟨{ it with v := Win.empty }, ?_, by rw [hk]; exact h.empty, rfl, rfl, ?_⟩
    · rw [nthBack_ge m h (by omega), if_neg hj]
    · rw [hk, abs_zero]; simp

/-! #### `size_hint` / `len` / `count` -/

theorem sizeHint_spec (m : Mode) {it : Rows} {k n : Nat} (h : it.WF k n) : it.sizeHint m = .ok k := by
  cases k with
  | zero =>
    by_cases hc : it.cols = 0
    · simp [sizeHint, hc]
    · have hd0 : it.cols + it.skip ≠ 0 := by omega
      simp [sizeHint, hc, uadd_ok m _ _ h.stride_word, h.zero_len, udiv_ok _ _ hd0, urem_ok _ _ hd0]
  | succ r =>
    have hl := h.succ_len
    have hc : 0 < it.cols := h.cols_pos (by omega)
    have hc' : ¬ it.cols = 0 := by omega
    have hd0 : it.cols + it.skip ≠ 0 := by omega
    simp only [sizeHint, if_neg hc', uadd_ok m _ _ h.stride_word, ok_bind, pure_eq, hl, udiv_ok _ _ hd0, urem_ok _ _ hd0]
    congr 1
    have hd : 0 < it.cols + it.skip := by omega
    by_cases hs : it.skip = 0
    · simp only [hs, Nat.add_zero]
      have : r * it.cols + it.cols = it.cols * (r + 1) := by rw [Nat.mul_comm, Nat.mul_add]; omega
      rw [this, Nat.mul_div_cancel_left _ hc, Nat.mul_mod_right]
      simp
    · have hlt : it.cols < it.cols + it.skip := by omega
      rw [Nat.mul_comm r, Nat.mul_add_div hd, Nat.mul_add_mod, Nat.div_eq_of_lt hlt, Nat.mod_eq_of_lt hlt,
        Nat.div_self hc]

/-! #### `fold` / `rfold` -/

/-- `fold`/`for_each`/`collect`: the remaining rows in order -/
theorem collect_spec {it : Rows} {k n : Nat} (h : it.WF k n) (fuel : Nat) (hf : k < fuel) :
    it.collect fuel = .ok (it.abs k) := by
  induction fuel generalizing it k with
  | zero => omega
  | succ fuel ih =>
    cases k with
    | zero => simp [collect, next_zero h, abs]
    | succ k =>
      obtain ⟨it', h1, h2, _, _, _, h6⟩ := next_succ h
      have := ih h2 (by omega)
      simp only [collect, h1, ok_bind, this, pure_eq]
      rw [h6, abs, map_range_succ_head]
      simp

/-- `rfold`: the remaining rows in reverse order -/
theorem collectBack_spec (m : Mode) {it : Rows} {k n : Nat} (h : it.WF k n) (fuel : Nat) (hf : k < fuel) :
    it.collectBack m fuel = .ok (it.abs k).reverse := by
  induction fuel generalizing it k with
  | zero => omega
  | succ fuel ih =>
    cases k with
    | zero => simp [collectBack, nextBack_zero m h, abs]
    | succ k =>
      obtain ⟨it', h1, h2, _, _, _, h6⟩ := nextBack_succ m h
      have := ih h2 (by omega)
      simp only [collectBack, h1, ok_bind, this, pure_eq]
      rw [h6, abs, map_range_succ_last]
      simp

/-! #### words of operations -/

theorem step_spec (m : Mode) {it : Rows} {k n : Nat} (h : it.WF k n) (o : Seq.Op) :
    ∃ it' k', it.step m o = .ok ((Seq.step (it.abs k) o).1, it') ∧ it'.WF k' n ∧
      it'.cols = it.cols ∧ it'.skip = it.skip ∧ it'.abs k' = (Seq.step (it.abs k) o).2 := by
  cases o with
  | next =>
    obtain ⟨it', h1, h2, h3, h4, h5⟩ := next_spec h
    exact ⟨it', k - 1, by simp [step, h1, Seq.step, Seq.next], h2, h3, h4, by simpa [Seq.step, Seq.next] using h5⟩
  | nextBack =>
    obtain ⟨it', h1, h2, h3, h4, h5⟩ := nextBack_spec m h
    exact ⟨it', k - 1, by simp [step, h1, Seq.step, Seq.nextBack], h2, h3, h4,
      by simpa [Seq.step, Seq.nextBack] using h5⟩
  | nth j =>
    obtain ⟨it', h1, h2, h3, h4, h5⟩ := nth_spec m h j
    exact ⟨it', k - (j + 1), by simp [step, h1, Seq.step, Seq.nth], h2, h3, h4,
      by simpa [Seq.step, Seq.nth] using h5⟩
  | nthBack j =>
    obtain ⟨it', h1, h2, h3, h4, h5⟩ := nthBack_spec m h j
    exact ⟨it', k - (j + 1), by simp [step, h1, Seq.step], h2, h3, h4, by simpa [Seq.step] using h5⟩
  | len =>
    exact ⟨it, k, by simp [step, sizeHint_spec m h, Seq.step, abs_length], h, rfl, rfl, by simp [Seq.step]⟩

/-- any word of `next`/`next_back`/`nth`/`nth_back`/`len` -/
theorem run_spec (m : Mode) {it : Rows} {k n : Nat} (h : it.WF k n) (w : List Seq.Op) :
    ∃ it' k', it.run m w = .ok ((Seq.run (it.abs k) w).1, it') ∧ it'.WF k' n ∧
      it'.cols = it.cols ∧ it'.skip = it.skip ∧ it'.abs k' = (Seq.run (it.abs k) w).2 := by
  induction w generalizing it k with
  | nil => exact ⟨it, k, by simp [run, Seq.run], h, rfl, rfl, by simp [Seq.run]⟩
  | cons o os ih =>
    obtain ⟨it1, k1, h1, h2, h3, h4, h5⟩ := step_spec m h o
    obtain ⟨it2, k2, g1, g2, g3, g4, g5⟩ := ih h2
    refine ⟨it2, k2, ?_, g2, g3.trans h3, g4.trans h4, ?_⟩
    · simp only [run, h1, ok_bind, g1, pure_eq, Seq.run, h5]
    · simp only [Seq.run, g5, h5]

/-! #### disjointness -/

theorem abs_pairwise_disjoint (it : Rows) (k : Nat) :
    (it.abs k).Pairwise Win.Disjoint := by
  rw [abs, List.pairwise_map]
  refine List.Pairwise.imp ?_ List.pairwise_lt_range
  intro a b hab
  left
  have : (a + 1) * (it.cols + it.skip) ≤ b * (it.cols + it.skip) := Nat.mul_le_mul_right _ hab
  rw [Nat.add_mul] at this
  simp only; omega

theorem abs_inside {it : Rows} {k n : Nat} (h : it.WF k n) :
    ∀ w ∈ it.abs k, w.off + w.len ≤ n ∧ w.len = it.cols := by
  intro w hw
  obtain ⟨j, hj, rfl⟩ := mem_abs.1 hw
  obtain ⟨r, rfl⟩ : ∃ r, k = r + 1 := ⟨k - 1, by omega⟩
  have hl := h.succ_len
  have hin := h.inside
  have : j * (it.cols + it.skip) ≤ r * (it.cols + it.skip) := Nat.mul_le_mul_right _ (by omega)
  exact ⟨by simp only; omega, rfl⟩

end Rows

/-! #### the row cursors of the three receivers -/

/-- `TooDee::rows` / `rows_mut` -/
theorem TD.rows_WF {α : Type} (t : TD α) (h : t.Inv) :
    t.rows.WF t.numRows t.data.length ∧ t.rows.cols = t.numCols ∧ t.rows.skip = 0 ∧
    t.rows.abs t.numRows = (List.range t.numRows).map fun r => ⟨t.pos 0 r, t.numCols⟩ := by
  have hl := h.len
  have hw := h.word
  refine ⟨⟨?_, ?_, ?_, ?_, hw⟩, rfl, rfl, ?_⟩
  · intro hr
    have := h.zero
    simp only [TD.rows]; omega
  · simp only [TD.rows, TD.win, Nat.add_zero]
    by_cases hr : t.numRows = 0
    · simp [hr, hl]
    · obtain ⟨r, hr'⟩ : ∃ r, t.numRows = r + 1 := ⟨t.numRows - 1, by omega⟩
      rw [hl, hr', if_neg (by omega), Nat.mul_add, Nat.mul_comm]; simp
  · simp [TD.rows, TD.win]
  · simp only [TD.rows, Nat.add_zero]
    by_cases hr : t.numRows = 0
    · have := h.zero.2 hr; omega
    · have : t.numCols * 1 ≤ t.numCols * t.numRows := Nat.mul_le_mul_left _ (by omega)
      omega
  · simp [Rows.abs, TD.rows, TD.win, TD.pos]

/-- `TooDeeView::rows`, `TooDeeViewMut::rows` / `rows_mut` -/
theorem VW.rows_WF (m : Mode) (v : VW) (n : Nat) (h : v.Inv n) :
    ∃ it, v.rows m = .ok it ∧ it.WF v.numRows n ∧ it.v = v.data ∧ it.cols = v.numCols ∧
      it.cols + it.skip = v.stride ∧
      it.abs v.numRows = (List.range v.numRows).map fun r => ⟨v.pos 0 r, v.numCols⟩ := by
  have hs := h.stride
  have hcs : v.numCols + (v.stride - v.numCols) = v.stride := by omega
  refine ⟨⟨v.data, v.numCols, v.stride - v.numCols⟩, by simp [VW.rows, usub_ok m _ _ hs], ?_, rfl, rfl, hcs, ?_⟩
  · refine ⟨?_, ?_, h.inside, ?_, h.word⟩
    · intro hr
      have := h.zero
      simp only; omega
    · simp only [hcs]; exact h.len
    · simp only [hcs]; exact h.stride_word
  · simp only [Rows.abs, hcs, VW.pos, Nat.add_zero]

/-! ### `Col` / `ColMut` -/
namespace Col

theorem abs_length (it : Col) (k : Nat) : (it.abs k).length = k := by simp [abs]

theorem abs_getElem? (it : Col) (k j : Nat) :
    (it.abs k)[j]? = if j < k then some (it.v.off + j * (1 + it.skip)) else none := by
  simp only [abs, map_range_getElem?]

theorem mem_abs {it : Col} {k : Nat} {p : Nat} :
    p ∈ it.abs k ↔ ∃ j, j < k ∧ p = it.v.off + j * (1 + it.skip) := by
  simp only [abs, List.mem_map, List.mem_range]
  constructor
  · rintro ⟨j, hj, rfl⟩; exact ⟨j, hj, rfl⟩
  · rintro ⟨j, hj, rfl⟩; exact ⟨j, hj, rfl⟩

theorem abs_zero (it : Col) : it.abs 0 = [] := by simp [abs]

/-- `abs` only depends on the window's offset and `skip` -/
theorem abs_congr {it it' : Col} (k : Nat) (ho : it'.v.off = it.v.off) (hs : it'.skip = it.skip) :
    it'.abs k = it.abs k := by
  simp [abs, ho, hs]

theorem WF.zero_len {it : Col} {n : Nat} (h : it.WF 0 n) : it.v.len = 0 := by
  simpa using h.len

theorem WF.succ_len {it : Col} {k n : Nat} (h : it.WF (k + 1) n) :
    it.v.len = k * (1 + it.skip) + 1 := by
  simpa using h.len

theorem WF.empty {it : Col} {k n : Nat} (h : it.WF k n) : ({ it with v := Win.empty } : Col).WF 0 n :=
  ⟨by simp [Win.empty], by simp [Win.empty], h.stride_word, h.word⟩

/-- the `j`-th cell of the column lies in the remaining slice iff `j < k` -/
theorem WF.mul_lt_len_iff {it : Col} {k n : Nat} (h : it.WF k n) (j : Nat) :
    j * (1 + it.skip) < it.v.len ↔ j < k := by
  cases k with
  | zero => simp [h.zero_len]
  | succ r =>
    have hl := h.succ_len
    constructor
    · intro hlt
      apply Classical.byContradiction
      intro hge
      have : (r + 1) * (1 + it.skip) ≤ j * (1 + it.skip) :=
        Nat.mul_le_mul_right _ (by omega)
      rw [Nat.add_mul] at this
      omega
    · intro hlt
      have : j * (1 + it.skip) ≤ r * (1 + it.skip) := Nat.mul_le_mul_right _ (by omega)
      omega

theorem WF.advance {it : Col} {k n : Nat} (h : it.WF k n) {j : Nat} (hj : j < k) :
    let it' : Col := { it with v := ⟨it.v.off + j * (1 + it.skip), it.v.len - j * (1 + it.skip)⟩ }
    it'.WF (k - j) n ∧ it'.abs (k - j) = (it.abs k).drop j := by
  obtain ⟨r, rfl⟩ : ∃ r, k = j + r + 1 := ⟨k - j - 1, by omega⟩
  have hl := h.succ_len
  have hin := h.inside
  rw [Nat.add_mul] at hl
  have hk : j + r + 1 - j = r + 1 := by omega
  rw [hk]
  refine ⟨⟨?_, ?_, h.stride_word, h.word⟩, ?_⟩
  · simp only [Nat.add_sub_cancel]; simp; omega
  · simp only; omega
  · rw [abs, abs, map_range_drop, hk]
    apply map_range_congr
    intro i _
    simp [Nat.add_mul]; omega

theorem WF.retreat {it : Col} {k n : Nat} (h : it.WF k n) {j : Nat} (hj : j < k) :
    let it' : Col := { it with v := ⟨it.v.off, it.v.len - j * (1 + it.skip)⟩ }
    it'.WF (k - j) n ∧ it'.abs (k - j) = (it.abs k).take (k - j) := by
  obtain ⟨r, rfl⟩ : ∃ r, k = j + r + 1 := ⟨k - j - 1, by omega⟩
  have hl := h.succ_len
  have hin := h.inside
  rw [Nat.add_mul] at hl
  have hk : j + r + 1 - j = r + 1 := by omega
  rw [hk]
  refine ⟨⟨?_, ?_, h.stride_word, h.word⟩, ?_⟩
  · simp only [Nat.add_sub_cancel]; simp; omega
  · simp only; omega
  · rw [abs, abs, map_range_take]
    have : min (r + 1) (j + r + 1) = r + 1 := by omega
    rw [this]

/-! #### `next` -/

theorem next_zero {it : Col} {n : Nat} (h : it.WF 0 n) : it.next = .ok (none, it) := by
  simp [next, h.zero_len]

theorem next_succ {it : Col} {k n : Nat} (h : it.WF (k + 1) n) :
    ∃ it', it.next = .ok (some it.v.off, it') ∧ it'.WF k n ∧ it'.skip = it.skip ∧
      (k ≠ 0 → it'.v.off = it.v.off + (1 + it.skip)) ∧
      it'.abs k = (it.abs (k + 1)).tail := by
  have hl := h.succ_len
  have hin := h.inside
  cases k with
  | zero =>
    refine ⟨{ it with v := Win.empty }, ?_, h.empty, rfl, fun h0 => absurd rfl h0, by simp [abs]⟩
    have h1 : it.v.len = 1 := by simpa using hl
    simp [next, h1]
  | succ j =>
    rw [Nat.add_mul] at hl
    refine ⟨{ it with v := ⟨it.v.off + 1 + it.skip, j * (1 + it.skip) + 1⟩ }, ?_, ?_,
      rfl, fun _ => by simp; omega, ?_⟩
    · have h1 : ¬ it.v.len = 0 := by omega
      have h3 : ¬ it.v.len - 1 = 0 := by omega
      have h4 : it.skip ≤ it.v.len - 1 := by omega
      simp [next, Win.getFrom, h1, h3, h4]
      omega
    · refine ⟨by simp, ?_, h.stride_word, h.word⟩
      simp only; omega
    · rw [abs, abs, map_range_tail]
      apply map_range_congr
      intro i _
      simp [Nat.add_mul]; omega

/-- `next` / `ColMut::next` -/
theorem next_spec {it : Col} {k n : Nat} (h : it.WF k n) :
    ∃ it', it.next = .ok ((it.abs k).head?, it') ∧ it'.WF (k - 1) n ∧
      it'.skip = it.skip ∧ it'.abs (k - 1) = (it.abs k).tail := by
  cases k with
  | zero => exact ⟨it, by simp [next_zero h, abs], h, rfl, by simp [abs]⟩
  | succ k =>
    obtain ⟨it', h1, h2, h3, _, h5⟩ := next_succ h
    refine ⟨it', ?_, h2, h3, h5⟩
    rw [h1, abs, map_range_head?]
    simp

/-! #### `next_back` -/

theorem nextBack_zero (m : Mode) {it : Col} {n : Nat} (h : it.WF 0 n) : it.nextBack m = .ok (none, it) := by
  simp [nextBack, h.zero_len]

theorem nextBack_succ (m : Mode) {it : Col} {k n : Nat} (h : it.WF (k + 1) n) :
    ∃ it', it.nextBack m = .ok (some (it.v.off + k * (1 + it.skip)), it') ∧ it'.WF k n ∧
      it'.skip = it.skip ∧ (k ≠ 0 → it'.v.off = it.v.off) ∧
      it'.abs k = (it.abs (k + 1)).dropLast := by
  have hl := h.succ_len
  have hin := h.inside
  cases k with
  | zero =>
    refine ⟨{ it with v := Win.empty }, ?_, h.empty, rfl, fun h0 => absurd rfl h0, by simp [abs]⟩
    have h1 : it.v.len = 1 := by simpa using hl
    simp [nextBack, h1]
  | succ j =>
    refine ⟨{ it with v := ⟨it.v.off, j * (1 + it.skip) + 1⟩ }, ?_, ?_, rfl, fun _ => rfl, ?_⟩
    · have h1 : ¬ it.v.len = 0 := by omega
      have h2 : it.v.len - 1 = (j + 1) * (1 + it.skip) := by omega
      have h3 : ¬ (j + 1) * (1 + it.skip) = 0 := by rw [Nat.add_mul]; omega
      have h4 : usub m ((j + 1) * (1 + it.skip)) it.skip = .ok (j * (1 + it.skip) + 1) := by
        rw [usub_ok m _ _ (by rw [Nat.add_mul]; omega)]; congr 1; rw [Nat.add_mul]; omega
      have h5 : j * (1 + it.skip) + 1 ≤ (j + 1) * (1 + it.skip) := by
        rw [Nat.add_mul]; omega
      simp [nextBack, Win.getTo, h1, h2, h3, h4, h5]
    · refine ⟨by simp, ?_, h.stride_word, h.word⟩
      rw [Nat.add_mul] at hl
      simp only; omega
    · rw [abs, abs, map_range_dropLast]
      rfl

/-- `next_back` / `ColMut::next_back` -/
theorem nextBack_spec (m : Mode) {it : Col} {k n : Nat} (h : it.WF k n) :
    ∃ it', it.nextBack m = .ok ((it.abs k).getLast?, it') ∧ it'.WF (k - 1) n ∧
      it'.skip = it.skip ∧ it'.abs (k - 1) = (it.abs k).dropLast := by
  cases k with
  | zero => exact ⟨it, by simp [nextBack_zero m h, abs], h, rfl, by simp [abs]⟩
  | succ k =>
    obtain ⟨it', h1, h2, h3, _, h5⟩ := nextBack_succ m h
    refine ⟨it', ?_, h2, h3, h5⟩
    rw [h1, abs, map_range_getLast?]
    simp

theorem last_spec (m : Mode) {it : Col} {k n : Nat} (h : it.WF k n) :
    it.last m = .ok (it.abs k).getLast? := by
  obtain ⟨it', h1, _⟩ := nextBack_spec m h
  simp [last, h1]

/-! #### `nth` -/

theorem nth_ge (m : Mode) {it : Col} {k n : Nat} (h : it.WF k n) {j : Nat} (hj : k ≤ j) :
    it.nth m j = .ok (none, { it with v := Win.empty }) := by
  have hnl : ¬ j * (1 + it.skip) < it.v.len := fun hlt => by
    have := (h.mul_lt_len_iff j).1 hlt; omega
  by_cases ho : WORD ≤ j * (1 + it.skip)
  · simp only [nth, uadd_ok m _ _ h.stride_word, ok_bind, omul_of_ge ho]
    rw [if_pos (Or.inr trivial)]
    exact next_zero h.empty
  · have hW : j * (1 + it.skip) < WORD := by omega
    simp only [nth, uadd_ok m _ _ h.stride_word, ok_bind, omul_of_lt hW]
    rw [if_pos (Or.inl (by omega))]
    exact next_zero h.empty

theorem nth_lt (m : Mode) {it : Col} {k n : Nat} (h : it.WF k n) {j : Nat} (hj : j < k) :
    it.nth m j = next { it with v := ⟨it.v.off + j * (1 + it.skip), it.v.len - j * (1 + it.skip)⟩ } := by
  have hlt : j * (1 + it.skip) < it.v.len := (h.mul_lt_len_iff j).2 hj
  have hin := h.inside
  have hw := h.word
  have hW : j * (1 + it.skip) < WORD := by omega
  have hcond : ¬ (j * (1 + it.skip) ≥ it.v.len ∨ false = true) := by
    simp; omega
  simp only [nth, uadd_ok m _ _ h.stride_word, ok_bind, omul_of_lt hW]
  rw [if_neg hcond]
  simp [Win.splitAt, Nat.le_of_lt hlt]

/-- `nth` / `ColMut::nth` -/
theorem nth_spec (m : Mode) {it : Col} {k n : Nat} (h : it.WF k n) (j : Nat) :
    ∃ it', it.nth m j = .ok ((it.abs k)[j]?, it') ∧ it'.WF (k - (j + 1)) n ∧
      it'.skip = it.skip ∧ it'.abs (k - (j + 1)) = (it.abs k).drop (j + 1) := by
  by_cases hj : j < k
  · obtain ⟨hwf, habs⟩ := h.advance hj
    obtain ⟨it', h1, h2, h3, h5⟩ := next_spec hwf
    refine ⟨it', ?_, ?_, h3, ?_⟩
    · rw [nth_lt m h hj, h1, habs]
      simp
    · have : k - (j + 1) = k - j - 1 := by omega
      rw [this]; exact h2
    · have : k - (j + 1) = k - j - 1 := by omega
      rw [this, h5, habs]
      simp
  · have hk : k - (j + 1) = 0 := by omega
    refine ⟨{ it with v := Win.empty }, ?_, by rw [hk]; exact h.empty, rfl, ?_⟩
    · rw [nth_ge m h (by omega), abs_getElem?, if_neg hj]
    · rw [hk, abs_zero]
      symm
      apply List.drop_eq_nil_of_le
      rw [abs_length]; omega

/-! #### `nth_back` -/

theorem nthBack_ge (m : Mode) {it : Col} {k n : Nat} (h : it.WF k n) {j : Nat} (hj : k ≤ j) :
    it.nthBack m j = .ok (none, { it with v := Win.empty }) := by
  have hnl : ¬ j * (1 + it.skip) < it.v.len := fun hlt => by
    have := (h.mul_lt_len_iff j).1 hlt; omega
  by_cases ho : WORD ≤ j * (1 + it.skip)
  · simp only [nthBack, uadd_ok m _ _ h.stride_word, ok_bind, omul_of_ge ho]
    rw [if_pos (Or.inr trivial)]
    exact nextBack_zero m h.empty
  · have hW : j * (1 + it.skip) < WORD := by omega
    simp only [nthBack, uadd_ok m _ _ h.stride_word, ok_bind, omul_of_lt hW]
    rw [if_pos (Or.inl (by omega))]
    exact nextBack_zero m h.empty

theorem nthBack_lt (m : Mode) {it : Col} {k n : Nat} (h : it.WF k n) {j : Nat} (hj : j < k) :
    it.nthBack m j = nextBack m { it with v := ⟨it.v.off, it.v.len - j * (1 + it.skip)⟩ } := by
  have hlt : j * (1 + it.skip) < it.v.len := (h.mul_lt_len_iff j).2 hj
  have hin := h.inside
  have hw := h.word
  have hW : j * (1 + it.skip) < WORD := by omega
  have hcond : ¬ (j * (1 + it.skip) ≥ it.v.len ∨ false = true) := by
    simp; omega
  simp only [nthBack, uadd_ok m _ _ h.stride_word, ok_bind, omul_of_lt hW]
  rw [if_neg hcond]
  simp [usub_ok m _ _ (Nat.le_of_lt hlt), Win.getTo]

/-- `nth_back` / `ColMut::nth_back` (result as in `Seq.nthBack`) -/
theorem nthBack_spec (m : Mode) {it : Col} {k n : Nat} (h : it.WF k n) (j : Nat) :
    ∃ it', it.nthBack m j = .ok ((Seq.nthBack (it.abs k) j).1, it') ∧ it'.WF (k - (j + 1)) n ∧
      it'.skip = it.skip ∧ it'.abs (k - (j + 1)) = (Seq.nthBack (it.abs k) j).2 := by
  simp only [Seq.nthBack, abs_length]
  by_cases hj : j < k
  · obtain ⟨hwf, habs⟩ := h.retreat hj
    obtain ⟨it', h1, h2, h3, h5⟩ := nextBack_spec m hwf
    have hk : k - (j + 1) = k - j - 1 := by omega
    have hk' : k - 1 - j = k - j - 1 := by omega
    have hne : ¬ k - j = 0 := by omega
    refine ⟨it', ?_, ?_, h3, ?_⟩
    · rw [nthBack_lt m h hj, h1, if_pos hj, hk', abs_getElem?, if_pos (by omega)]
      simp only [abs, map_range_getLast?, if_neg hne]
    · rw [hk]; exact h2
    · rw [hk, h5]
      simp only [abs, map_range_dropLast, map_range_take]
      have : min (k - j - 1) k = k - j - 1 := by omega
      rw [this]
  · have hk : k - (j + 1) = 0 := by omega
    refine ⟨{ it with v := Win.empty }, ?_, by rw [hk]; exact h.empty, rfl, ?_⟩
    · rw [nthBack_ge m h (by omega), if_neg hj]
    · rw [hk, abs_zero]; simp

/-! #### `size_hint` / `len` / `count` -/

theorem sizeHint_spec (m : Mode) {it : Col} {k n : Nat} (h : it.WF k n) : it.sizeHint m = .ok k := by
  cases k with
  | zero =>
    have hd0 : 1 + it.skip ≠ 0 := by omega
    simp [sizeHint, uadd_ok m _ _ h.stride_word, h.zero_len, udiv_ok _ _ hd0, urem_ok _ _ hd0]
  | succ r =>
    have hl := h.succ_len
    have hd0 : 1 + it.skip ≠ 0 := by omega
    simp only [sizeHint, uadd_ok m _ _ h.stride_word, ok_bind, pure_eq, hl, udiv_ok _ _ hd0, urem_ok _ _ hd0]
    congr 1
    have hd : 0 < 1 + it.skip := by omega
    by_cases hs : it.skip = 0
    · simp [hs, Nat.mod_one]
    · have hlt : 1 < 1 + it.skip := by omega
      rw [Nat.mul_comm r, Nat.mul_add_div hd, Nat.mul_add_mod, Nat.div_eq_of_lt hlt, Nat.mod_eq_of_lt hlt]

/-! #### indexing -/

/-- `col[i]` with `i < k` -/
theorem index_lt (m : Mode) {it : Col} {k n : Nat} (h : it.WF k n) {i : Nat} (hi : i < k) :
    it.index m i = .ok (it.v.off + i * (1 + it.skip)) := by
  have hlt : i * (1 + it.skip) < it.v.len := (h.mul_lt_len_iff i).2 hi
  have hin := h.inside
  have hw := h.word
  have hW : i * (1 + it.skip) < WORD := by omega
  simp [index, uadd_ok m _ _ h.stride_word, omul_of_lt hW, Win.index, hlt]

/-- `col[i]` with `i ≥ k` panics — also when `i * (1+skip)` wraps -/
theorem index_ge (m : Mode) {it : Col} {k n : Nat} (h : it.WF k n) {i : Nat} (hi : k ≤ i) :
    it.index m i = .error .panic := by
  have hnl : ¬ i * (1 + it.skip) < it.v.len := fun hlt => by
    have := (h.mul_lt_len_iff i).1 hlt; omega
  by_cases ho : WORD ≤ i * (1 + it.skip)
  · simp [index, uadd_ok m _ _ h.stride_word, omul_of_ge ho]
  · have hW : i * (1 + it.skip) < WORD := by omega
    simp [index, uadd_ok m _ _ h.stride_word, omul_of_lt hW, Win.index, hnl]

/-! #### `fold` / `rfold` -/

theorem collect_spec {it : Col} {k n : Nat} (h : it.WF k n) (fuel : Nat) (hf : k < fuel) :
    it.collect fuel = .ok (it.abs k) := by
  induction fuel generalizing it k with
  | zero => omega
  | succ fuel ih =>
    cases k with
    | zero => simp [collect, next_zero h, abs]
    | succ k =>
      obtain ⟨it', h1, h2, _, _, h6⟩ := next_succ h
      have := ih h2 (by omega)
      simp only [collect, h1, ok_bind, this, pure_eq]
      rw [h6, abs, map_range_succ_head]
      simp

theorem collectBack_spec (m : Mode) {it : Col} {k n : Nat} (h : it.WF k n) (fuel : Nat) (hf : k < fuel) :
    it.collectBack m fuel = .ok (it.abs k).reverse := by
  induction fuel generalizing it k with
  | zero => omega
  | succ fuel ih =>
    cases k with
    | zero => simp [collectBack, nextBack_zero m h, abs]
    | succ k =>
      obtain ⟨it', h1, h2, _, _, h6⟩ := nextBack_succ m h
      have := ih h2 (by omega)
      simp only [collectBack, h1, ok_bind, this, pure_eq]
      rw [h6, abs, map_range_succ_last]
      simp

/-! #### words of operations -/

theorem step_spec (m : Mode) {it : Col} {k n : Nat} (h : it.WF k n) (o : Seq.Op) :
    ∃ it' k', it.step m o = .ok ((Seq.step (it.abs k) o).1, it') ∧ it'.WF k' n ∧
      it'.skip = it.skip ∧ it'.abs k' = (Seq.step (it.abs k) o).2 := by
  cases o with
  | next =>
    obtain ⟨it', h1, h2, h3, h5⟩ := next_spec h
    exact ⟨it', k - 1, by simp [step, h1, Seq.step, Seq.next], h2, h3, by simpa [Seq.step, Seq.next] using h5⟩
  | nextBack =>
    obtain ⟨it', h1, h2, h3, h5⟩ := nextBack_spec m h
    exact ⟨it', k - 1, by simp [step, h1, Seq.step, Seq.nextBack], h2, h3,
      by simpa [Seq.step, Seq.nextBack] using h5⟩
  | nth j =>
    obtain ⟨it', h1, h2, h3, h5⟩ := nth_spec m h j
    exact ⟨it', k - (j + 1), by simp [step, h1, Seq.step, Seq.nth], h2, h3,
      by simpa [Seq.step, Seq.nth] using h5⟩
  | nthBack j =>
    obtain ⟨it', h1, h2, h3, h5⟩ := nthBack_spec m h j
    exact ⟨it', k - (j + 1), by simp [step, h1, Seq.step], h2, h3, by simpa [Seq.step] using h5⟩
  | len =>
    exact ⟨it, k, by simp [step, sizeHint_spec m h, Seq.step, abs_length], h, rfl, by simp [Seq.step]⟩

theorem run_spec (m : Mode) {it : Col} {k n : Nat} (h : it.WF k n) (w : List Seq.Op) :
    ∃ it' k', it.run m w = .ok ((Seq.run (it.abs k) w).1, it') ∧ it'.WF k' n ∧
      it'.skip = it.skip ∧ it'.abs k' = (Seq.run (it.abs k) w).2 := by
  induction w generalizing it k with
  | nil => exact ⟨it, k, by simp [run, Seq.run], h, rfl, by simp [Seq.run]⟩
  | cons o os ih =>
    obtain ⟨it1, k1, h1, h2, h3, h5⟩ := step_spec m h o
    obtain ⟨it2, k2, g1, g2, g3, g5⟩ := ih h2
    refine ⟨it2, k2, ?_, g2, g3.trans h3, ?_⟩
    · simp only [run, h1, ok_bind, g1, pure_eq, Seq.run, h5]
    · simp only [Seq.run, g5, h5]

/-! #### distinctness -/

theorem abs_nodup (it : Col) (k : Nat) : (it.abs k).Nodup := by
  rw [abs, List.Nodup, List.pairwise_map]
  refine List.Pairwise.imp ?_ List.pairwise_lt_range
  intro a b hab
  have : (a + 1) * (1 + it.skip) ≤ b * (1 + it.skip) := Nat.mul_le_mul_right _ hab
  rw [Nat.add_mul] at this
  omega

theorem abs_inside {it : Col} {k n : Nat} (h : it.WF k n) : ∀ p ∈ it.abs k, p < n := by
  intro p hp
  obtain ⟨j, hj, rfl⟩ := mem_abs.1 hp
  obtain ⟨r, rfl⟩ : ∃ r, k = r + 1 := ⟨k - 1, by omega⟩
  have hl := h.succ_len
  have hin := h.inside
  have : j * (1 + it.skip) ≤ r * (1 + it.skip) := Nat.mul_le_mul_right _ (by omega)
  omega

end Col

/-! #### the column cursors of the three receivers -/

/-- `TooDee::col` / `col_mut` with `c` in range -/
theorem TD.col_WF {α : Type} (m : Mode) (t : TD α) (h : t.Inv) (c : Nat) (hc : c < t.numCols) :
    ∃ it, t.col m c = .ok it ∧ it.WF t.numRows t.data.length ∧ it.v.off = c ∧ 1 + it.skip = t.numCols ∧
      it.abs t.numRows = (List.range t.numRows).map fun r => t.pos c r := by
  have hl := h.len
  have hw := h.word
  have hr : t.numRows ≠ 0 := fun hr => by have := h.zero.2 hr; omega
  obtain ⟨r, hr'⟩ : ∃ r, t.numRows = r + 1 := ⟨t.numRows - 1, by omega⟩
  have hl' : t.data.length = r * t.numCols + t.numCols := by
    rw [hl, hr', Nat.mul_add, Nat.mul_comm]; simp
  have hskip : 1 + (t.numCols - 1) = t.numCols := by omega
  refine ⟨⟨⟨c, r * t.numCols + 1⟩, t.numCols - 1⟩, ?_, ⟨?_, ?_, ?_, hw⟩, rfl, hskip, ?_⟩
  · have h1 : usub m t.data.length t.numCols = .ok (r * t.numCols) := by
      rw [usub_ok m _ _ (by omega)]; congr 1; omega
    have h2 : uadd m (r * t.numCols) c = .ok (r * t.numCols + c) := uadd_ok m _ _ (by omega)
    have h3 : uadd m (r * t.numCols + c) 1 = .ok (r * t.numCols + c + 1) := uadd_ok m _ _ (by omega)
    have h4 : usub m t.numCols 1 = .ok (t.numCols - 1) := usub_ok m _ _ (by omega)
    have h5 : c ≤ r * t.numCols + c + 1 ∧ r * t.numCols + c + 1 ≤ t.data.length := by omega
    have h6 : r * t.numCols + c + 1 - c = r * t.numCols + 1 := by omega
    simp [TD.col, TD.colParams, hc, h1, h2, h3, h4, Win.getRange, TD.win, h5, h6]
  · simp only [hskip, hr', if_neg (Nat.succ_ne_zero r), Nat.add_sub_cancel]
  · simp only; omega
  · simp only [hskip]; omega
  · simp only [Col.abs, hskip, TD.pos]
    apply map_range_congr
    intro i _
    omega

/-- `TooDee::col` / `col_mut` with `c` out of range -/
theorem TD.col_panic {α : Type} (m : Mode) (t : TD α) (c : Nat) (hc : ¬ c < t.numCols) :
    t.col m c = .error .panic := by
  simp [TD.col, TD.colParams, hc]

/-- `TooDeeView::col`, `TooDeeViewMut::col` / `col_mut` with `c` in range -/
theorem VW.col_WF (m : Mode) (v : VW) (n : Nat) (h : v.Inv n) (c : Nat) (hc : c < v.numCols) :
    ∃ it, v.col m c = .ok it ∧ it.WF v.numRows n ∧ it.v.off = v.data.off + c ∧ 1 + it.skip = v.stride ∧
      it.abs v.numRows = (List.range v.numRows).map fun r => v.pos c r := by
  have hl := h.len
  have hw := h.word
  have hin := h.inside
  have hs := h.stride
  have hr : v.numRows ≠ 0 := fun hr => by have := h.zero.2 hr; omega
  obtain ⟨r, hr'⟩ : ∃ r, v.numRows = r + 1 := ⟨v.numRows - 1, by omega⟩
  have hl' : v.data.len = r * v.stride + v.numCols := by
    rw [hl, hr', if_neg (Nat.succ_ne_zero r), Nat.add_sub_cancel]
  have hskip : 1 + (v.stride - 1) = v.stride := by omega
  refine ⟨⟨⟨v.data.off + c, r * v.stride + 1⟩, v.stride - 1⟩, ?_, ⟨?_, ?_, ?_, hw⟩, rfl, hskip, ?_⟩
  · have h0 : usub m v.numRows 1 = .ok r := by
      rw [usub_ok m _ _ (by omega)]; congr 1; omega
    have h1 : umul m r v.stride = .ok (r * v.stride) := umul_ok m _ _ (by omega)
    have h2 : uadd m c (r * v.stride) = .ok (c + r * v.stride) := uadd_ok m _ _ (by omega)
    have h3 : uadd m (c + r * v.stride) 1 = .ok (c + r * v.stride + 1) := uadd_ok m _ _ (by omega)
    have h4 : usub m v.stride 1 = .ok (v.stride - 1) := usub_ok m _ _ (by omega)
    have h5 : c ≤ c + r * v.stride + 1 ∧ c + r * v.stride + 1 ≤ v.data.len := by omega
    have h6 : c + r * v.stride + 1 - c = r * v.stride + 1 := by omega
    simp [VW.col, VW.colParams, hc, hr, h0, h1, h2, h3, h4, Win.getRange, h5, h6]
  · simp only [hskip, hr', if_neg (Nat.succ_ne_zero r), Nat.add_sub_cancel]
  · simp only; omega
  · simp only [hskip]; exact h.stride_word
  · simp only [Col.abs, hskip, VW.pos]
    apply map_range_congr
    intro i _
    omega

/-- `TooDeeView::col`, `TooDeeViewMut::col` / `col_mut` with `c` out of range -/
theorem VW.col_panic (m : Mode) (v : VW) (c : Nat) (hc : ¬ c < v.numCols) :
    v.col m c = .error .panic := by
  simp [VW.col, VW.colParams, hc]

end Toodee
