import Toodee.Spec.IterAbs
/-
  Lemmas about the slice cursors `Rows`/`RowsMut` and `Col`/`ColMut` (Impl/Iter.lean): every cursor operation run on a
  well-formed cursor (`Rows.WF` / `Col.WF`) returns what the ideal sequence `it.abs k` returns, never fails, and leaves a
  well-formed cursor standing for the ideal remainder.  Stated in a reusable form (`*.next_spec`, `*.nth_spec`, ...;
  the results also say that `cols`/`skip` never change) — the `C08_*`/`C09_*` theorems are thin wrappers.
-/
namespace Toodee

/-! ### lists of the form `(List.range k).map f` -/
section ListRange
variable {β : Type}

theorem map_range_getElem? (f : Nat → β) (k j : Nat) :
    ((List.range k).map f)[j]? = if j < k then some (f j) else none := by
  by_cases h : j < k <;> simp [h]

theorem map_range_head? (f : Nat → β) (k : Nat) :
    ((List.range k).map f).head? = if k = 0 then none else some (f 0) := by
  cases k with
  | zero => simp
  | succ k => simp [List.range_succ_eq_map]

theorem map_range_tail (f : Nat → β) (k : Nat) :
    ((List.range k).map f).tail = (List.range (k - 1)).map (fun i => f (i + 1)) := by
  cases k with
  | zero => simp
  | succ k => simp [List.range_succ_eq_map, Function.comp_def]

theorem map_range_getLast? (f : Nat → β) (k : Nat) :
    ((List.range k).map f).getLast? = if k = 0 then none else some (f (k - 1)) := by
  cases k with
  | zero => simp
  | succ k => simp [List.range_succ]

theorem map_range_dropLast (f : Nat → β) (k : Nat) :
    ((List.range k).map f).dropLast = (List.range (k - 1)).map f := by
  cases k with
  | zero => simp
  | succ k => simp [List.range_succ]

theorem map_range_drop (f : Nat → β) (k j : Nat) :
    ((List.range k).map f).drop j = (List.range (k - j)).map (fun i => f (i + j)) := by
  apply List.ext_getElem?
  intro i
  simp only [List.getElem?_drop, map_range_getElem?]
  by_cases h : i < k - j
  · have : j + i < k := by omega
    simp [h, this, Nat.add_comm]
  · have : ¬ j + i < k := by omega
    simp [h, this]

theorem map_range_take (f : Nat → β) (k j : Nat) :
    ((List.range k).map f).take j = (List.range (min j k)).map f := by
  apply List.ext_getElem?
  intro i
  simp only [List.getElem?_take, map_range_getElem?]
  by_cases h1 : i < j <;> by_cases h2 : i < k <;> simp [h1, h2] <;> omega

theorem map_range_congr {f g : Nat → β} (k : Nat) (h : ∀ i, i < k → f i = g i) :
    (List.range k).map f = (List.range k).map g := by
  apply List.map_congr_left
  intro i hi
  exact h i (List.mem_range.1 hi)

theorem map_range_succ_head (f : Nat → β) (k : Nat) :
    (List.range (k + 1)).map f = f 0 :: (List.range k).map (fun i => f (i + 1)) := by
  simp [List.range_succ_eq_map, Function.comp_def]

theorem map_range_succ_last (f : Nat → β) (k : Nat) :
    (List.range (k + 1)).map f = (List.range k).map f ++ [f k] := by
  simp [List.range_succ]

/-- `head? :: tail` rebuilds a list -/
theorem head?_tail_eq {l : List β} {x : β} (h : l.head? = some x) : l = x :: l.tail := by
  cases l with
  | nil => simp at h
  | cons a t => simp at h; simp [h]

theorem head?_eq_none_iff' {l : List β} (h : l.head? = none) : l = [] := by
  cases l with
  | nil => rfl
  | cons a t => simp at h

/-- `getLast? :: reverse dropLast` is the reverse of a list -/
theorem getLast?_dropLast_reverse {l : List β} {x : β} (h : l.getLast? = some x) :
    l.reverse = x :: l.dropLast.reverse := by
  have h1 : l.reverse.head? = some x := by simpa using h
  have h2 := head?_tail_eq h1
  rw [h2]
  simp

theorem getLast?_eq_none' {l : List β} (h : l.getLast? = none) : l = [] := by
  simpa using h

end ListRange

/-! ### arithmetic helpers -/

/-- `omul` does not overflow below `WORD` -/
theorem omul_of_lt {a b : Nat} (h : a * b < WORD) : omul a b = (a * b, false) := by
  simp [omul, Nat.mod_eq_of_lt h, Nat.not_le.2 h]

/-- `omul` reports overflow exactly -/
theorem omul_of_ge {a b : Nat} (h : WORD ≤ a * b) : omul a b = (a * b % WORD, true) := by
  simp [omul, h]

/-! ### `Rows` / `RowsMut` -/
namespace Rows

theorem abs_length (it : Rows) (k : Nat) : (it.abs k).length = k := by simp [abs]

theorem abs_getElem? (it : Rows) (k j : Nat) :
    (it.abs k)[j]? = if j < k then some ⟨it.v.off + j * (it.cols + it.skip), it.cols⟩ else none := by
  simp only [abs, map_range_getElem?]

theorem mem_abs {it : Rows} {k : Nat} {w : Win} :
    w ∈ it.abs k ↔ ∃ j, j < k ∧ w = ⟨it.v.off + j * (it.cols + it.skip), it.cols⟩ := by
  simp only [abs, List.mem_map, List.mem_range]
  constructor
  · rintro ⟨j, hj, rfl⟩; exact ⟨j, hj, rfl⟩
  · rintro ⟨j, hj, rfl⟩; exact ⟨j, hj, rfl⟩

theorem abs_zero (it : Rows) : it.abs 0 = [] := by simp [abs]

/-- `abs` only depends on the window's offset, `cols` and `skip` -/
theorem abs_congr {it it' : Rows} (k : Nat) (ho : it'.v.off = it.v.off) (hc : it'.cols = it.cols)
    (hs : it'.skip = it.skip) : it'.abs k = it.abs k := by
  simp [abs, ho, hc, hs]

theorem WF.zero_len {it : Rows} {n : Nat} (h : it.WF 0 n) : it.v.len = 0 := by
  simpa using h.len

theorem WF.succ_len {it : Rows} {k n : Nat} (h : it.WF (k + 1) n) :
    it.v.len = k * (it.cols + it.skip) + it.cols := by
  simpa using h.len

/-- the exhausted cursor (`Win.empty`) is well-formed with nothing left -/
theorem WF.empty {it : Rows} {k n : Nat} (h : it.WF k n) : ({ it with v := Win.empty } : Rows).WF 0 n :=
  ⟨fun h0 => absurd rfl h0, by simp [Win.empty], by simp [Win.empty], h.stride_word, h.word⟩

/-- `j` whole rows fit in front of the remaining slice iff `j < k` -/
theorem WF.mul_lt_len_iff {it : Rows} {k n : Nat} (h : it.WF k n) (j : Nat) :
    j * (it.cols + it.skip) < it.v.len ↔ j < k := by
  cases k with
  | zero => simp [h.zero_len]
  | succ r =>
    have hl := h.succ_len
    have hc : 0 < it.cols := h.cols_pos (by omega)
    constructor
    · intro hlt
      apply Classical.byContradiction
      intro hge
      have : (r + 1) * (it.cols + it.skip) ≤ j * (it.cols + it.skip) :=
        Nat.mul_le_mul_right _ (by omega)
      rw [Nat.add_mul] at this
      omega
    · intro hlt
      have : j * (it.cols + it.skip) ≤ r * (it.cols + it.skip) := Nat.mul_le_mul_right _ (by omega)
      omega

/-- dropping `j < k` rows at the front (what `nth` does with `split_at`) -/
theorem WF.advance {it : Rows} {k n : Nat} (h : it.WF k n) {j : Nat} (hj : j < k) :
    let it' : Rows := { it with v := ⟨it.v.off + j * (it.cols + it.skip), it.v.len - j * (it.cols + it.skip)⟩ }
    it'.WF (k - j) n ∧ it'.abs (k - j) = (it.abs k).drop j := by
  obtain ⟨r, rfl⟩ : ∃ r, k = j + r + 1 := ⟨k - j - 1, by omega⟩
  have hl := h.succ_len
  have hc : 0 < it.cols := h.cols_pos (by omega)
  have hin := h.inside
  rw [Nat.add_mul] at hl
  have hk : j + r + 1 - j = r + 1 := by omega
  rw [hk]
  refine ⟨⟨fun _ => hc, ?_, ?_, h.stride_word, h.word⟩, ?_⟩
  · simp only [Nat.add_sub_cancel]; simp; omega
  · simp only; omega
  · rw [abs, abs, map_range_drop, hk]
    apply map_range_congr
    intro i _
    simp [Nat.add_mul]; omega

/-- dropping `j < k` rows at the back (what `nth_back` does with `get_unchecked(..len - j*d)`) -/
theorem WF.retreat {it : Rows} {k n : Nat} (h : it.WF k n) {j : Nat} (hj : j < k) :
    let it' : Rows := { it with v := ⟨it.v.off, it.v.len - j * (it.cols + it.skip)⟩ }
    it'.WF (k - j) n ∧ it'.abs (k - j) = (it.abs k).take (k - j) := by
  obtain ⟨r, rfl⟩ : ∃ r, k = j + r + 1 := ⟨k - j - 1, by omega⟩
  have hl := h.succ_len
  have hc : 0 < it.cols := h.cols_pos (by omega)
  have hin := h.inside
  rw [Nat.add_mul] at hl
  have hk : j + r + 1 - j = r + 1 := by omega
  rw [hk]
  refine ⟨⟨fun _ => hc, ?_, ?_, h.stride_word, h.word⟩, ?_⟩
  · simp only [Nat.add_sub_cancel]; simp; omega
  · simp only; omega
  · rw [abs, abs, map_range_take]
    have : min (r + 1) (j + r + 1) = r + 1 := by omega
    rw [this]

/-! #### `next` -/

theorem next_zero {it : Rows} {n : Nat} (h : it.WF 0 n) : it.next = .ok (none, it) := by
  simp [next, h.zero_len]

theorem next_succ {it : Rows} {k n : Nat} (h : it.WF (k + 1) n) :
    ∃ it', it.next = .ok (some ⟨it.v.off, it.cols⟩, it') ∧ it'.WF k n ∧
      it'.cols = it.cols ∧ it'.skip = it.skip ∧
      (k ≠ 0 → it'.v.off = it.v.off + (it.cols + it.skip)) ∧
      it'.abs k = (it.abs (k + 1)).tail := by
  have hl := h.succ_len
  have hc : 0 < it.cols := h.cols_pos (by omega)
  have hin := h.inside
  cases k with
  | zero =>
    refine ⟨{ it with v := Win.empty }, ?_, h.empty, rfl, rfl, fun h0 => absurd rfl h0, by simp [abs]⟩
    have h1 : it.v.len = it.cols := by simpa using hl
    have h2 : ¬ it.cols = 0 := by omega
    simp [next, Win.splitAt, h1, h2]
  | succ j =>
    rw [Nat.add_mul] at hl
    refine ⟨{ it with v := ⟨it.v.off + it.cols + it.skip, j * (it.cols + it.skip) + it.cols⟩ }, ?_, ?_,
      rfl, rfl, fun _ => by simp; omega, ?_⟩
    · have h1 : ¬ it.v.len = 0 := by omega
      have h2 : it.cols ≤ it.v.len := by omega
      have h3 : ¬ it.v.len - it.cols = 0 := by omega
      have h4 : it.skip ≤ it.v.len - it.cols := by omega
      simp [next, Win.splitAt, Win.getFrom, h1, h2, h3, h4]
      omega
    · refine ⟨fun _ => hc, by simp, ?_, h.stride_word, h.word⟩
      simp only; omega
    · rw [abs, abs, map_range_tail]
      apply map_range_congr
      intro i _
      simp [Nat.add_mul]; omega

/-- `next` / `RowsMut::next`: yields the first remaining row, keeps the invariant -/
theorem next_spec {it : Rows} {k n : Nat} (h : it.WF k n) :
    ∃ it', it.next = .ok ((it.abs k).head?, it') ∧ it'.WF (k - 1) n ∧
      it'.cols = it.cols ∧ it'.skip = it.skip ∧ it'.abs (k - 1) = (it.abs k).tail := by
  cases k with
  | zero => exact ⟨it, by simp [next_zero h, abs], h, rfl, rfl, by simp [abs]⟩
  | succ k =>
    obtain ⟨it', h1, h2, h3, h4, _, h6⟩ := next_succ h
    refine ⟨it', ?_, h2, h3, h4, h6⟩
    rw [h1, abs, map_range_head?]
    simp

/-! #### `next_back` -/

theorem nextBack_zero (m : Mode) {it : Rows} {n : Nat} (h : it.WF 0 n) : it.nextBack m = .ok (none, it) := by
  simp [nextBack, h.zero_len]

theorem nextBack_succ (m : Mode) {it : Rows} {k n : Nat} (h : it.WF (k + 1) n) :
    ∃ it', it.nextBack m = .ok (some ⟨it.v.off + k * (it.cols + it.skip), it.cols⟩, it') ∧ it'.WF k n ∧
      it'.cols = it.cols ∧ it'.skip = it.skip ∧
      (k ≠ 0 → it'.v.off = it.v.off) ∧
      it'.abs k = (it.abs (k + 1)).dropLast := by
  have hl := h.succ_len
  have hc : 0 < it.cols := h.cols_pos (by omega)
  have hin := h.inside
  have hsub : usub m it.v.len it.cols = .ok (k * (it.cols + it.skip)) := by
    rw [usub_ok m _ _ (by omega)]; congr 1; omega
  cases k with
  | zero =>
    refine ⟨{ it with v := Win.empty }, ?_, h.empty, rfl, rfl, fun h0 => absurd rfl h0, by simp [abs]⟩
    have h1 : it.v.len = it.cols := by simpa using hl
    have h2 : ¬ it.cols = 0 := by omega
    simp only [Nat.zero_mul, h1] at hsub
    simp [nextBack, hsub, Win.splitAt, h1, h2]
  | succ j =>
    refine ⟨{ it with v := ⟨it.v.off, j * (it.cols + it.skip) + it.cols⟩ }, ?_, ?_,
      rfl, rfl, fun _ => rfl, ?_⟩
    · have h1 : ¬ it.v.len = 0 := by omega
      have h2 : (j + 1) * (it.cols + it.skip) ≤ it.v.len := by omega
      have h3 : ¬ (j + 1) * (it.cols + it.skip) = 0 := by rw [Nat.add_mul]; omega
      have h4 : usub m ((j + 1) * (it.cols + it.skip)) it.skip = .ok (j * (it.cols + it.skip) + it.cols) := by
        rw [usub_ok m _ _ (by rw [Nat.add_mul]; omega)]; congr 1; rw [Nat.add_mul]; omega
      have h5 : j * (it.cols + it.skip) + it.cols ≤ (j + 1) * (it.cols + it.skip) := by
        rw [Nat.add_mul]; omega
      simp [nextBack, hsub, Win.splitAt, Win.getTo, h1, h2, h3, h4, h5]
      omega
    · refine ⟨fun _ => hc, by simp, ?_, h.stride_word, h.word⟩
      rw [Nat.add_mul] at hl
      simp only; omega
    · rw [abs, abs, map_range_dropLast]
      rfl

/-- `next_back` / `RowsMut::next_back`: yields the last remaining row, keeps the invariant -/
theorem nextBack_spec (m : Mode) {it : Rows} {k n : Nat} (h : it.WF k n) :
    ∃ it', it.nextBack m = .ok ((it.abs k).getLast?, it') ∧ it'.WF (k - 1) n ∧
      it'.cols = it.cols ∧ it'.skip = it.skip ∧ it'.abs (k - 1) = (it.abs k).dropLast := by
  cases k with
  | zero => exact ⟨it, by simp [nextBack_zero m h, abs], h, rfl, rfl, by simp [abs]⟩
  | succ k =>
    obtain ⟨it', h1, h2, h3, h4, _, h6⟩ := nextBack_succ m h
    refine ⟨it', ?_, h2, h3, h4, h6⟩
    rw [h1, abs, map_range_getLast?]
    simp

/-- `last` -/
theorem last_spec (m : Mode) {it : Rows} {k n : Nat} (h : it.WF k n) :
    it.last m = .ok (it.abs k).getLast? := by
  obtain ⟨it', h1, _⟩ := nextBack_spec m h
  simp [last, h1]

end Rows
end Toodee
