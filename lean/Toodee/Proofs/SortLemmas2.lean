import Toodee.Impl.Recv
import Toodee.Properties.C02
import Toodee.Properties.C09
import Toodee.Properties.C13
import Toodee.Properties.C16
import Toodee.Properties.C17
/-
  Helper lemmas for the sort clauses of C11: what the sort methods see of each receiver (`Index<usize>`, `col()`, `swap_rows`),
  what `Recv.run` dispatches to, and the "side sort panics => the call panics" reading of C16_sort_row_with / C17_sort_col_with.
-/
namespace Toodee
variable {α : Type}

/-- the owned array's `Index<usize>` returns the row window -/
theorem sl2_indexRow_owned (m : Mode) (t : TD α) (h : t.Inv) (r : Nat) (hr : r < t.asView.numRows) :
    t.indexRow m r = .ok (t.asView.rowWin r) := by
  have hr' : r < t.numRows := hr
  have hc : 0 < t.numCols := by
    have := h.zero
    omega
  obtain ⟨_, _, _, _, h5, _⟩ := C02_owned_valid m t h 0 r hc hr'
  rw [h5]
  show _ = Except.ok (⟨t.asView.pos 0 r, t.numCols⟩ : Win)
  rw [(C02_owned_as_view t h).2]

/-- a view's `Index<usize>` returns the row window -/
theorem sl2_indexRow_view (m : Mode) (v : VW) (n : Nat) (h : v.Inv n) (r : Nat) (hr : r < v.numRows) :
    v.indexRow m r = .ok (v.rowWin r) := by
  have hc : 0 < v.numCols := by
    have := h.zero
    omega
  obtain ⟨_, _, _, h4, _⟩ := C02_view_valid m v n h 0 r hc hr
  exact h4

/-- the owned array's `col()` in the form the sort theorems want -/
theorem sl2_col_owned (m : Mode) (t : TD α) (h : t.Inv) (c : Nat) (hc : c < t.asView.numCols) :
    ∃ it, t.col m c = .ok it ∧ it.WF t.asView.numRows t.data.length ∧
      it.abs t.asView.numRows = (List.range t.asView.numRows).map fun r => t.asView.pos c r := by
  obtain ⟨hv, hpos⟩ := C02_owned_as_view t h
  have hcw : c < WORD := by
    have := hv.cols_word
    omega
  obtain ⟨it, e, hwf, habs⟩ := (C09_col_owned m t h c hcw).1 hc
  refine ⟨it, e, hwf, ?_⟩
  show it.abs t.numRows = (List.range t.numRows).map fun r => t.asView.pos c r
  rw [habs]
  apply List.map_congr_left
  intro r _
  rw [hpos]

/-- a view's `col()` in the form the sort theorems want -/
theorem sl2_col_view (m : Mode) (v : VW) (n : Nat) (h : v.Inv n) (c : Nat) (hc : c < v.numCols) :
    ∃ it, v.col m c = .ok it ∧ it.WF v.numRows n ∧
      it.abs v.numRows = (List.range v.numRows).map fun r => v.pos c r := by
  have hcw : c < WORD := by
    have := h.cols_word
    omega
  exact (C09_col_view m v n h c hcw).1 hc

/-- the trait-default `swap_rows` of a third-party implementor whose data is replaced by an equally long buffer -/
theorem sl2_swap_rows_spec_ext (m : Mode) (t : TD α) (h : t.Inv) :
    SwapRowsSpec t.asView t.data.length (fun b r1 r2 => ({ t with data := b } : TD α).acc.swapRows m b r1 r2) := by
  intro b r1 r2 hb hr1 hr2
  have h' : ({ t with data := b } : TD α).Inv := ⟨by rw [← h.len]; exact hb, h.zero, by
    show b.length < WORD
    rw [hb]; exact h.word⟩
  have hv' := (C02_owned_as_view _ h').1
  have hrw : t.numRows < WORD := hv'.rows_word
  have hr1' : r1 < t.numRows := hr1
  have hr2' : r2 < t.numRows := hr2
  have hview : ({ t with data := b } : TD α).asView = t.asView := by
    show (⟨⟨0, b.length⟩, t.numCols, t.numRows, t.numCols⟩ : VW) = ⟨⟨0, t.data.length⟩, t.numCols, t.numRows, t.numCols⟩
    rw [hb]
  have := (C13_swap_rows_default m _ b hv' _ (C13_acc_owned _ h') r1 r2 ⟨by omega, by omega⟩).1 ⟨hr1, hr2⟩
  rw [hview] at this
  exact this

/-! ### what `Recv.run` dispatches the sort methods to -/

theorem sl2_run_root_row (m : Mode) (lim : Nat) (t : TD α) (side : SideSort α) (k : Nat) :
    (Recv.root t).run m lim t.data (.sortRow side k) = t.acc.sortRowWith (t.indexRow m) t.data lim side k := rfl

theorem sl2_run_ext_row (m : Mode) (lim : Nat) (t : TD α) (side : SideSort α) (k : Nat) :
    (Recv.ext t).run m lim t.data (.sortRow side k) = t.acc.sortRowWith (t.indexRow m) t.data lim side k := rfl

theorem sl2_run_root_col (m : Mode) (lim : Nat) (t : TD α) (side : SideSort α) (k : Nat) :
    (Recv.root t).run m lim t.data (.sortCol side k)
      = t.acc.sortColWith (t.col m) (fun b r1 r2 => ({ t with data := b } : TD α).swapRows m r1 r2) t.data lim side k := rfl

theorem sl2_run_ext_col (m : Mode) (lim : Nat) (t : TD α) (side : SideSort α) (k : Nat) :
    (Recv.ext t).run m lim t.data (.sortCol side k)
      = t.acc.sortColWith (t.col m) (fun b r1 r2 => ({ t with data := b } : TD α).acc.swapRows m b r1 r2) t.data lim side k := rfl

theorem sl2_run_vmut_row (m : Mode) (lim : Nat) (v : VW) (buf : List α) (side : SideSort α) (k : Nat) (a : Acc)
    (ha : v.acc m = .ok a) :
    (Recv.vmut v).run m lim buf (.sortRow side k) = a.sortRowWith (v.indexRow m) buf lim side k := by
  show (v.acc m >>= fun a => a.sortRowWith (v.indexRow m) buf lim side k) = _
  rw [ha, ok_bind]

theorem sl2_run_vmut_col (m : Mode) (lim : Nat) (v : VW) (buf : List α) (side : SideSort α) (k : Nat) (a : Acc)
    (ha : v.acc m = .ok a) :
    (Recv.vmut v).run m lim buf (.sortCol side k)
      = a.sortColWith (v.col m) (fun b r1 r2 => v.swapRows m b r1 r2) buf lim side k := by
  show (v.acc m >>= fun a => a.sortColWith (v.col m) (fun b r1 r2 => v.swapRows m b r1 r2) buf lim side k) = _
  rw [ha, ok_bind]

/-! ### a side sort that always panics -/

theorem sl2_sort_row_panic (v : VW) (buf : List α) (h : v.Inv buf.length) (a : Acc) (ha : a.Of v buf.length)
    (indexRow : Nat → Res Win) (hidx : ∀ r, r < v.numRows → indexRow r = .ok (v.rowWin r))
    (lim : Nat) (side : SideSort α) (hp : ∀ keys, side keys = .error .panic) (row : Nat) :
    a.sortRowWith indexRow buf lim side row = .error .panic := by
  obtain ⟨h1, h2, h3, _⟩ := C16_sort_row_with v buf h a ha indexRow hidx lim side row
  by_cases hr : row < v.numRows
  · by_cases hl : v.numCols ≤ lim
    · exact h3 hr hl _ (hp _)
    · exact h2 hr hl
  · exact h1 hr

theorem sl2_sort_col_panic (v : VW) (buf : List α) (h : v.Inv buf.length) (a : Acc) (ha : a.Of v buf.length)
    (col : Nat → Res Col)
    (hcol : ∀ c, c < v.numCols → ∃ it, col c = .ok it ∧ it.WF v.numRows buf.length ∧
      it.abs v.numRows = (List.range v.numRows).map fun r => v.pos c r)
    (swapRows : List α → Nat → Nat → Res (List α)) (hsw : SwapRowsSpec v buf.length swapRows)
    (lim : Nat) (side : SideSort α) (hp : ∀ keys, side keys = .error .panic) (c : Nat) :
    a.sortColWith col swapRows buf lim side c = .error .panic := by
  obtain ⟨h1, h2, h3, _⟩ := C17_sort_col_with v buf h a ha col hcol swapRows hsw lim side c
  by_cases hc : c < v.numCols
  · by_cases hl : v.numRows ≤ lim
    · exact h3 hc hl _ (hp _)
    · exact h2 hc hl
  · exact h1 hc

/-! ### a sane side sort: a successful sort used the permutation the side sort returned -/

theorem sl2_sort_row_ok (v : VW) (buf : List α) (h : v.Inv buf.length) (a : Acc) (ha : a.Of v buf.length)
    (indexRow : Nat → Res Win) (hidx : ∀ r, r < v.numRows → indexRow r = .ok (v.rowWin r))
    (lim : Nat) (side : SideSort α) (hs : side.Sane) (row : Nat) (buf' : List α)
    (e : a.sortRowWith indexRow buf lim side row = .ok buf') :
    ∃ p, side (readWin buf (v.rowWin row)) = .ok p ∧ buf' = gather buf (v.mapCells (sortColsG p)) := by
  obtain ⟨h1, h2, h3, h4⟩ := C16_sort_row_with v buf h a ha indexRow hidx lim side row
  by_cases hr : row < v.numRows
  · by_cases hl : v.numCols ≤ lim
    · rcases hs (readWin buf (v.rowWin row)) with hpan | ⟨p, hp, hperm⟩
      · rw [h3 hr hl _ hpan] at e; cases e
      · rw [C16_key_row_length v buf h row hr] at hperm
        rw [h4 hr hl p hp hperm] at e
        exact ⟨p, hp, by cases e; rfl⟩
    · rw [h2 hr hl] at e; cases e
  · rw [h1 hr] at e; cases e

theorem sl2_sort_col_ok (v : VW) (buf : List α) (h : v.Inv buf.length) (a : Acc) (ha : a.Of v buf.length)
    (col : Nat → Res Col)
    (hcol : ∀ c, c < v.numCols → ∃ it, col c = .ok it ∧ it.WF v.numRows buf.length ∧
      it.abs v.numRows = (List.range v.numRows).map fun r => v.pos c r)
    (swapRows : List α → Nat → Nat → Res (List α)) (hsw : SwapRowsSpec v buf.length swapRows)
    (lim : Nat) (side : SideSort α) (hs : side.Sane) (c : Nat) (buf' : List α)
    (e : a.sortColWith col swapRows buf lim side c = .ok buf') :
    ∃ p, side (v.colKeys buf c) = .ok p ∧ buf' = gather buf (v.mapCells (sortRowsG p)) := by
  obtain ⟨h1, h2, h3, h4⟩ := C17_sort_col_with v buf h a ha col hcol swapRows hsw lim side c
  by_cases hc : c < v.numCols
  · by_cases hl : v.numRows ≤ lim
    · rcases hs (v.colKeys buf c) with hpan | ⟨p, hp, hperm⟩
      · rw [h3 hc hl _ hpan] at e; cases e
      · rw [C17_key_col_length v buf h c hc] at hperm
        rw [h4 hc hl p hp hperm] at e
        exact ⟨p, hp, by cases e; rfl⟩
    · rw [h2 hc hl] at e; cases e
  · rw [h1 hc] at e; cases e

end Toodee
