import Toodee.Spec.History
import Toodee.Proofs.HistoryLemmas
import Toodee.Proofs.RunSpecOwned
/-
  Requests beyond the capacity of a `Vec<T>` / of a sort's side table are rejected with a panic and leave the array as it was
  (the cases `HOp.fits` excludes from the refinement to the plain model, which has no capacity).
-/
namespace Toodee
variable {α : Type}

theorem reserveOk_false_of_lt {cap len k : Nat} (h : cap < len + k) : reserveOk cap len k = false := by
  simp only [reserveOk, decide_eq_false_iff_not]; omega

theorem allocOk_false_of_lt {cap n : Nat} (h : cap < n) : allocOk cap n = false := by
  simp only [allocOk, decide_eq_false_iff_not]; omega

/-- `TooDee::new` beyond the `Vec` limit panics -/
theorem TD.new_over_cap (cap c r : Nat) (d : α) (h : cap < c * r) : TD.new cap c r d = .error .panic := by
  unfold TD.new
  by_cases hz : zeroRuleOk c r = true
  · simp only [hz, Bool.not_true, Bool.false_eq_true, if_false]
    unfold cmul
    by_cases hm : c * r < WORD
    · simp only [hm, if_true, allocOk_false_of_lt h, Bool.not_false, throw_eq]
    · simp only [hm, if_false, throw_eq]
  · simp only [Bool.not_eq_true] at hz
    simp only [hz, Bool.not_false, if_true, throw_eq]

/-- `TooDee::init` beyond the `Vec` limit panics -/
theorem TD.init_over_cap (cap c r : Nat) (d : α) (h : cap < c * r) : TD.init cap c r d = .error .panic := by
  unfold TD.init
  have h' : cap < r * c := by rw [Nat.mul_comm]; exact h
  by_cases hz : zeroRuleOk c r = true
  · simp only [hz, Bool.not_true, Bool.false_eq_true, if_false]
    unfold cmul
    by_cases hm : r * c < WORD
    · simp only [hm, if_true, allocOk_false_of_lt h', Bool.not_false, throw_eq]
    · simp only [hm, if_false, throw_eq]
  · simp only [Bool.not_eq_true] at hz
    simp only [hz, Bool.not_false, if_true, throw_eq]

/-- `insert_row` beyond the `Vec` limit: rejected before anything is touched -/
theorem TD.insertRow_over_cap (m : Mode) (cap : Nat) (t : TD α) (i : Nat) (it : IterScript α) (spare : List α)
    (h : cap < t.data.length + it.claimed) :
    (t.insertRow m cap i it spare).res = .error .panic ∧ (t.insertRow m cap i it spare).t = t := by
  unfold TD.insertRow
  by_cases h1 : i ≤ t.numRows
  · simp only [h1, not_true_eq_false, if_false]
    by_cases h2 : (t.numRows == 0 || t.numCols == it.claimed) = true
    · simp only [h2, Bool.not_true, Bool.false_eq_true, if_false]
      have hn : (if t.numRows = 0 then it.claimed else t.numCols) = it.claimed := by
        by_cases h0 : t.numRows = 0
        · simp only [h0, if_true]
        · simp only [h0, if_false]
          simp only [Bool.or_eq_true, beq_iff_eq] at h2
          rcases h2 with h2 | h2
          · exact absurd h2 h0
          · exact h2
      simp only [hn, reserveOk_false_of_lt h, Bool.not_false, if_true, throw_eq, and_self]
    · simp only [Bool.not_eq_true] at h2
      simp only [h2, Bool.not_false, if_true, throw_eq, and_self]
  · simp only [h1, not_false_eq_true, if_true, throw_eq, and_self]

/-- `insert_col` beyond the `Vec` limit: rejected before anything is touched -/
theorem TD.insertCol_over_cap (m : Mode) (cap : Nat) (t : TD α) (i : Nat) (it : IterScript α) (spare : List α)
    (h : cap < t.data.length + it.claimed) :
    (t.insertCol m cap i it spare).res = .error .panic ∧ (t.insertCol m cap i it spare).t = t := by
  unfold TD.insertCol
  by_cases h1 : i ≤ t.numCols
  · simp only [h1, not_true_eq_false, if_false]
    by_cases h2 : (t.numCols == 0 || t.numRows == it.claimed) = true
    · simp only [h2, Bool.not_true, Bool.false_eq_true, if_false]
      have hn : (if t.numCols = 0 then it.claimed else t.numRows) = it.claimed := by
        by_cases h0 : t.numCols = 0
        · simp only [h0, if_true]
        · simp only [h0, if_false]
          simp only [Bool.or_eq_true, beq_iff_eq] at h2
          rcases h2 with h2 | h2
          · exact absurd h2 h0
          · exact h2
      simp only [hn, reserveOk_false_of_lt h, Bool.not_false, if_true, throw_eq, and_self]
    · simp only [Bool.not_eq_true] at h2
      simp only [h2, Bool.not_false, if_true, throw_eq, and_self]
  · simp only [h1, not_false_eq_true, if_true, throw_eq, and_self]

/-- a row sort whose line exceeds the side table panics -/
theorem run_sortRow_over_lim (m : Mode) (lim : Nat) (t : TD α) (h : t.Inv) (side : SideSort α) (k : Nat)
    (hs : (MOp.sortRow side k).Sane) (hsrc : (MOp.sortRow side k).srcOk) (ho : lim < t.numCols) :
    (Recv.root t).run m lim t.data (.sortRow side k) = .error .panic := by
  rw [run_owned_spec m lim t h _ hs hsrc, MOp.spec]
  have : ¬ (k < t.asView.numRows ∧ t.asView.numCols ≤ lim) := by
    intro hh
    have h2 : t.numCols ≤ lim := hh.2
    omega
  rw [if_neg this]; rfl

/-- a column sort whose line exceeds the side table panics -/
theorem run_sortCol_over_lim (m : Mode) (lim : Nat) (t : TD α) (h : t.Inv) (side : SideSort α) (k : Nat)
    (hs : (MOp.sortCol side k).Sane) (hsrc : (MOp.sortCol side k).srcOk) (ho : lim < t.numRows) :
    (Recv.root t).run m lim t.data (.sortCol side k) = .error .panic := by
  rw [run_owned_spec m lim t h _ hs hsrc, MOp.spec]
  have : ¬ (k < t.asView.numCols ∧ t.asView.numRows ≤ lim) := by
    intro hh
    have h2 : t.numRows ≤ lim := hh.2
    omega
  rw [if_neg this]; rfl

theorem over_capacity_rejected (e : HEnv) (t : TD α) (h : t.Inv) (op : HOp α) (hw : op.wf) (ho : op.overCap e t) :
    hres e t op = .error .panic ∧ hstep e t op = t := by
  cases op with
  | newArr c r d =>
    have hn := TD.new_over_cap e.cap c r d ho
    simp only [hres, hstep, hn]
    exact ⟨rfl, trivial⟩
  | initArr c r d =>
    have hn := TD.init_over_cap e.cap c r d ho
    simp only [hres, hstep, hn]
    exact ⟨rfl, trivial⟩
  | insertRow i it spare => exact TD.insertRow_over_cap e.m e.cap t i it spare ho
  | insertCol i it spare => exact TD.insertCol_over_cap e.m e.cap t i it spare ho
  | capacityCall a =>
    cases a with
    | none => exact absurd ho id
    | some k =>
      have hk : reserveOk e.cap t.data.length k = false := reserveOk_false_of_lt ho
      simp only [hres, hstep, hk, Bool.false_eq_true, if_false, throw_eq, and_self]
  | inplace mop =>
    cases mop with
    | sortRow side k =>
      have hr := run_sortRow_over_lim e.m e.lim t h side k hw.1 hw.2 ho
      simp only [hres, hstep, hr]
      exact ⟨rfl, rfl⟩
    | sortCol side k =>
      have hr := run_sortCol_over_lim e.m e.lim t h side k hw.1 hw.2 ho
      simp only [hres, hstep, hr]
      exact ⟨rfl, rfl⟩
    | _ => exact absurd ho id
  | _ => exact absurd ho id

end Toodee
