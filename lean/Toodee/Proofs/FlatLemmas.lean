import Toodee.Properties.C08
/-
  Lemmas about `FlattenExact` over the row cursor (`Cells`/`CellsMut`, Impl/Flatten.lean).  The row cursor is used
  through the `C08_*` theorems only (black boxes) plus the trivial fact that its operations never change `cols`.
  All names live in `Toodee.FlatL` so that they cannot clash with other lemma files.
-/
namespace Toodee
namespace FlatL

/-! ### plain list facts -/
section Lists
variable {β : Type}

theorem split_getElem? {l : List β} {q : Nat} {x : β} (h : l[q]? = some x) :
    l = l.take q ++ x :: l.drop (q + 1) := by
  induction l generalizing q with
  | nil => simp at h
  | cons a t ih =>
    cases q with
    | zero => simp at h; simp [h]
    | succ q => simp at h; simp; exact ih h

theorem getElem?_mid (A X Y : List β) (r : Nat) (hr : r < X.length) :
    (A ++ (X ++ Y))[A.length + r]? = X[r]? := by
  rw [List.getElem?_append_right (by omega)]
  have : A.length + r - A.length = r := by omega
  rw [this, List.getElem?_append_left hr]

theorem drop_mid (A X Y : List β) (r : Nat) (hr : r ≤ X.length) :
    (A ++ (X ++ Y)).drop (A.length + r) = X.drop r ++ Y := by
  rw [List.drop_append]
  have h1 : A.drop (A.length + r) = [] := List.drop_eq_nil_of_le (by omega)
  have h2 : A.length + r - A.length = r := by omega
  rw [h1, h2, List.drop_append]
  have h3 : r - X.length = 0 := by omega
  simp [h3]

theorem take_mid (A X Y : List β) (r : Nat) (hr : r ≤ X.length) :
    (A ++ (X ++ Y)).take (A.length + r) = A ++ X.take r := by
  rw [List.take_append]
  have h1 : A.take (A.length + r) = A := List.take_of_length_le (by omega)
  have h2 : A.length + r - A.length = r := by omega
  rw [h1, h2, List.take_append]
  have h3 : r - X.length = 0 := by omega
  simp [h3]

end Lists

/-! ### windows as position lists -/

theorem positions_length (w : Win) : w.positions.length = w.len := by simp [Win.positions]

theorem positions_getElem? (w : Win) (i : Nat) :
    w.positions[i]? = if i < w.len then some (w.off + i) else none := by
  by_cases h : i < w.len <;> simp [Win.positions, h]

theorem positions_nil {w : Win} (h : w.len = 0) : w.positions = [] := by
  cases w; simp at h; simp [Win.positions, h]

theorem positions_drop (w : Win) (j : Nat) :
    w.positions.drop j = (⟨w.off + j, w.len - j⟩ : Win).positions := by
  apply List.ext_getElem?
  intro i
  simp only [List.getElem?_drop, positions_getElem?]
  by_cases h : i < w.len - j
  · have : j + i < w.len := by omega
    simp [h, this, Nat.add_assoc]
  · have : ¬ j + i < w.len := by omega
    simp [h, this]

theorem positions_take (w : Win) (j : Nat) (hj : j ≤ w.len) :
    w.positions.take j = (⟨w.off, j⟩ : Win).positions := by
  apply List.ext_getElem?
  intro i
  simp only [List.getElem?_take, positions_getElem?]
  by_cases h : i < j
  · have : i < w.len := by omega
    simp [h, this]
  · simp [h]

theorem positions_cons {w : Win} (h : w.len ≠ 0) :
    w.positions = w.off :: (⟨w.off + 1, w.len - 1⟩ : Win).positions := by
  have h0 : w.positions[0]? = some w.off := by
    rw [positions_getElem?, if_pos (by omega)]; rfl
  have := split_getElem? h0
  rw [positions_drop] at this
  simpa using this

theorem positions_snoc {w : Win} (h : w.len ≠ 0) :
    w.positions = (⟨w.off, w.len - 1⟩ : Win).positions ++ [w.off + (w.len - 1)] := by
  have h0 : w.positions[w.len - 1]? = some (w.off + (w.len - 1)) := by
    rw [positions_getElem?, if_pos (by omega)]
  have := split_getElem? h0
  rw [positions_take _ _ (by omega), positions_drop] at this
  have h1 : w.len - 1 + 1 = w.len := by omega
  rw [h1, Nat.sub_self, positions_nil (w := ⟨_, 0⟩) rfl] at this
  exact this

theorem optPositions_length (o : Option Win) : (optPositions o).length = optLen o := by
  cases o <;> simp [optPositions, optLen, positions_length]

theorem optPositions_nil {o : Option Win} (h : optLen o = 0) : optPositions o = [] := by
  cases o with
  | none => rfl
  | some w => exact positions_nil h

/-! ### concatenated rows -/

/-- the cells of a list of row windows, in order -/
def cellsOf (L : List Win) : List Nat := (L.map Win.positions).flatten

theorem abs_eq (s : Flat) (k : Nat) :
    s.abs k = optPositions s.front ++ (cellsOf (s.iter.abs k) ++ optPositions s.back) := by
  simp [Flat.abs, cellsOf]

@[simp] theorem cellsOf_nil : cellsOf [] = [] := rfl
@[simp] theorem cellsOf_cons (w : Win) (L : List Win) : cellsOf (w :: L) = w.positions ++ cellsOf L := by
  simp [cellsOf]
@[simp] theorem cellsOf_append (L M : List Win) : cellsOf (L ++ M) = cellsOf L ++ cellsOf M := by
  simp [cellsOf]

theorem cellsOf_length (L : List Win) (c : Nat) (hL : ∀ w ∈ L, w.len = c) :
    (cellsOf L).length = L.length * c := by
  induction L with
  | nil => simp
  | cons w L ih =>
    have h1 : w.len = c := hL w (by simp)
    have h2 := ih (fun x hx => hL x (by simp [hx]))
    simp only [cellsOf_cons, List.length_append, positions_length, h1, h2, List.length_cons, Nat.add_mul]
    omega

theorem cellsOf_reverse (L : List Win) :
    (cellsOf L).reverse = ((L.reverse).map fun w => w.positions.reverse).flatten := by
  induction L with
  | nil => simp
  | cons w L ih => simp [ih]

theorem rows_abs_length (it : Rows) (k : Nat) : (it.abs k).length = k := by simp [Rows.abs]

/-! ### the row cursor never changes `cols` -/

theorem bind_ok_inv {α β : Type} {a : Res α} {f : α → Res β} {y : β} (h : (a >>= f) = .ok y) :
    ∃ x, a = .ok x ∧ f x = .ok y := by
  cases a with
  | error e => cases h
  | ok x => exact ⟨x, rfl, h⟩

theorem rows_next_cols {it it' : Rows} {x : Option Win} (h : it.next = .ok (x, it')) :
    it'.cols = it.cols := by
  unfold Rows.next at h
  split at h
  · cases h; rfl
  · obtain ⟨⟨fst, snd⟩, _, h⟩ := bind_ok_inv h
    simp only at h
    split at h
    · cases h; rfl
    · obtain ⟨v, _, h⟩ := bind_ok_inv h
      cases h; rfl

theorem rows_nextBack_cols {m : Mode} {it it' : Rows} {x : Option Win} (h : it.nextBack m = .ok (x, it')) :
    it'.cols = it.cols := by
  unfold Rows.nextBack at h
  split at h
  · cases h; rfl
  · obtain ⟨mid, _, h⟩ := bind_ok_inv h
    obtain ⟨⟨fst, snd⟩, _, h⟩ := bind_ok_inv h
    simp only at h
    split at h
    · cases h; rfl
    · obtain ⟨e, _, h⟩ := bind_ok_inv h
      obtain ⟨v, _, h⟩ := bind_ok_inv h
      cases h; rfl

theorem rows_nth_cols {m : Mode} {it it' : Rows} {j : Nat} {x : Option Win} (h : it.nth m j = .ok (x, it')) :
    it'.cols = it.cols := by
  unfold Rows.nth at h
  obtain ⟨d, _, h⟩ := bind_ok_inv h
  simp only at h
  split at h
  · have := rows_next_cols h; exact this
  · obtain ⟨⟨fst, snd⟩, _, h⟩ := bind_ok_inv h
    have := rows_next_cols h; exact this

theorem rows_nthBack_cols {m : Mode} {it it' : Rows} {j : Nat} {x : Option Win}
    (h : it.nthBack m j = .ok (x, it')) : it'.cols = it.cols := by
  unfold Rows.nthBack at h
  obtain ⟨d, _, h⟩ := bind_ok_inv h
  simp only at h
  split at h
  · have := rows_nextBack_cols h; exact this
  · obtain ⟨e, _, h⟩ := bind_ok_inv h
    obtain ⟨v, _, h⟩ := bind_ok_inv h
    have := rows_nextBack_cols h; exact this
end FlatL
end Toodee
