import Toodee.Properties.C08
/-
  Lemmas about `FlattenExact` over the row cursor (`Cells`/`CellsMut`, Impl/Flatten.lean).  The row cursor is used
  through the `C08_*` theorems only (black boxes) plus the trivial fact that its operations never change `cols`.
  All names live in `Toodee.FlatL` so that they cannot clash with other lemma files.
-/
namespace Toodee
namespace FlatL

/-! ### plain list facts -/
section Lists
variable {β : Type}

theorem split_getElem? {l : List β} {q : Nat} {x : β} (h : l[q]? = some x) :
    l = l.take q ++ x :: l.drop (q + 1) := by
  induction l generalizing q with
  | nil => simp at h
  | cons a t ih =>
    cases q with
    | zero => simp at h; simp [h]
    | succ q => simp at h; simp; exact ih h

theorem getElem?_mid (A X Y : List β) (j r : Nat) (hj : j = A.length + r) (hr : r < X.length) :
    (A ++ (X ++ Y))[j]? = X[r]? := by
  subst hj
  rw [List.getElem?_append_right (by omega)]
  have : A.length + r - A.length = r := by omega
  rw [this, List.getElem?_append_left hr]

theorem drop_mid (A X Y : List β) (j r : Nat) (hj : j = A.length + r) (hr : r ≤ X.length) :
    (A ++ (X ++ Y)).drop j = X.drop r ++ Y := by
  subst hj
  rw [List.drop_append]
  have h1 : A.drop (A.length + r) = [] := List.drop_eq_nil_of_le (by omega)
  have h2 : A.length + r - A.length = r := by omega
  rw [h1, h2, List.drop_append]
  have h3 : r - X.length = 0 := by omega
  simp [h3]

theorem snoc_of_getLast? {l : List β} {x : β} (h : l.getLast? = some x) : l = l.dropLast ++ [x] := by
  obtain ⟨ys, hys⟩ := List.getLast?_eq_some_iff.1 h
  rw [hys]; simp

end Lists

/-! ### windows as position lists -/

theorem positions_length (w : Win) : w.positions.length = w.len := by simp [Win.positions]

theorem positions_getElem? (w : Win) (i : Nat) :
    w.positions[i]? = if i < w.len then some (w.off + i) else none := by
  by_cases h : i < w.len <;> simp [Win.positions, h]

theorem positions_nil {w : Win} (h : w.len = 0) : w.positions = [] := by
  cases w; simp at h; simp [Win.positions, h]

theorem positions_drop (w : Win) (j : Nat) :
    w.positions.drop j = (⟨w.off + j, w.len - j⟩ : Win).positions := by
  apply List.ext_getElem?
  intro i
  simp only [List.getElem?_drop, positions_getElem?]
  by_cases h : i < w.len - j
  · have : j + i < w.len := by omega
    simp [h, this, Nat.add_assoc]
  · have : ¬ j + i < w.len := by omega
    simp [h, this]

theorem positions_take (w : Win) (j : Nat) (hj : j ≤ w.len) :
    w.positions.take j = (⟨w.off, j⟩ : Win).positions := by
  apply List.ext_getElem?
  intro i
  simp only [List.getElem?_take, positions_getElem?]
  by_cases h : i < j
  · have : i < w.len := by omega
    simp [h, this]
  · simp [h]

theorem positions_cons {w : Win} (h : w.len ≠ 0) :
    w.positions = w.off :: (⟨w.off + 1, w.len - 1⟩ : Win).positions := by
  have h0 : w.positions[0]? = some w.off := by
    rw [positions_getElem?, if_pos (by omega)]; rfl
  have := split_getElem? h0
  rw [positions_drop] at this
  simpa using this

theorem positions_snoc {w : Win} (h : w.len ≠ 0) :
    w.positions = (⟨w.off, w.len - 1⟩ : Win).positions ++ [w.off + (w.len - 1)] := by
  have h0 : w.positions[w.len - 1]? = some (w.off + (w.len - 1)) := by
    rw [positions_getElem?, if_pos (by omega)]
  have := split_getElem? h0
  rw [positions_take _ _ (by omega), positions_drop] at this
  have h1 : w.len - 1 + 1 = w.len := by omega
  rw [h1, Nat.sub_self, positions_nil (w := ⟨_, 0⟩) rfl] at this
  exact this

theorem optPositions_length (o : Option Win) : (optPositions o).length = optLen o := by
  cases o <;> simp [optPositions, optLen, positions_length]

theorem optPositions_nil {o : Option Win} (h : optLen o = 0) : optPositions o = [] := by
  cases o with
  | none => rfl
  | some w => exact positions_nil h

/-! ### concatenated rows -/

/-- the cells of a list of row windows, in order -/
def cellsOf (L : List Win) : List Nat := (L.map Win.positions).flatten

theorem abs_eq (s : Flat) (k : Nat) :
    s.abs k = optPositions s.front ++ (cellsOf (s.iter.abs k) ++ optPositions s.back) := by
  simp [Flat.abs, cellsOf]

@[simp] theorem cellsOf_nil : cellsOf [] = [] := rfl
@[simp] theorem cellsOf_cons (w : Win) (L : List Win) : cellsOf (w :: L) = w.positions ++ cellsOf L := by
  simp [cellsOf]
@[simp] theorem cellsOf_append (L M : List Win) : cellsOf (L ++ M) = cellsOf L ++ cellsOf M := by
  simp [cellsOf]

theorem cells_split {L : List Win} {q : Nat} {inner : Win} (hget : L[q]? = some inner) :
    cellsOf L = cellsOf (L.take q) ++ (inner.positions ++ cellsOf (L.drop (q + 1))) := by
  conv => lhs; rw [split_getElem? hget]
  simp

theorem cellsOf_length (L : List Win) (c : Nat) (hL : ∀ w ∈ L, w.len = c) :
    (cellsOf L).length = L.length * c := by
  induction L with
  | nil => simp
  | cons w L ih =>
    have h1 : w.len = c := hL w (by simp)
    have h2 := ih (fun x hx => hL x (by simp [hx]))
    simp only [cellsOf_cons, List.length_append, positions_length, h1, h2, List.length_cons, Nat.add_mul]
    omega

theorem cellsOf_reverse (L : List Win) :
    (cellsOf L).reverse = ((L.reverse).map fun w => w.positions.reverse).flatten := by
  induction L with
  | nil => simp
  | cons w L ih => simp [ih]

theorem rows_abs_length (it : Rows) (k : Nat) : (it.abs k).length = k := by simp [Rows.abs]

/-! ### the row cursor never changes `cols` -/

theorem bind_ok_inv {α β : Type} {a : Res α} {f : α → Res β} {y : β} (h : (a >>= f) = .ok y) :
    ∃ x, a = .ok x ∧ f x = .ok y := by
  cases a with
  | error e => cases h
  | ok x => exact ⟨x, rfl, h⟩

theorem rows_next_cols {it it' : Rows} {x : Option Win} (h : it.next = .ok (x, it')) :
    it'.cols = it.cols := by
  unfold Rows.next at h
  split at h
  · cases h; rfl
  · obtain ⟨⟨fst, snd⟩, _, h⟩ := bind_ok_inv h
    simp only at h
    split at h
    · cases h; rfl
    · obtain ⟨v, _, h⟩ := bind_ok_inv h
      cases h; rfl

theorem rows_nextBack_cols {m : Mode} {it it' : Rows} {x : Option Win} (h : it.nextBack m = .ok (x, it')) :
    it'.cols = it.cols := by
  unfold Rows.nextBack at h
  split at h
  · cases h; rfl
  · obtain ⟨mid, _, h⟩ := bind_ok_inv h
    obtain ⟨⟨fst, snd⟩, _, h⟩ := bind_ok_inv h
    simp only at h
    split at h
    · cases h; rfl
    · obtain ⟨e, _, h⟩ := bind_ok_inv h
      obtain ⟨v, _, h⟩ := bind_ok_inv h
      cases h; rfl

theorem rows_nth_cols {m : Mode} {it it' : Rows} {j : Nat} {x : Option Win} (h : it.nth m j = .ok (x, it')) :
    it'.cols = it.cols := by
  unfold Rows.nth at h
  obtain ⟨d, _, h⟩ := bind_ok_inv h
  simp only at h
  split at h
  · have := rows_next_cols h; exact this
  · obtain ⟨⟨fst, snd⟩, _, h⟩ := bind_ok_inv h
    have := rows_next_cols h; exact this

theorem rows_nthBack_cols {m : Mode} {it it' : Rows} {j : Nat} {x : Option Win}
    (h : it.nthBack m j = .ok (x, it')) : it'.cols = it.cols := by
  unfold Rows.nthBack at h
  obtain ⟨d, _, h⟩ := bind_ok_inv h
  simp only at h
  split at h
  · have := rows_nextBack_cols h; exact this
  · obtain ⟨e, _, h⟩ := bind_ok_inv h
    obtain ⟨v, _, h⟩ := bind_ok_inv h
    have := rows_nextBack_cols h; exact this
/-! ### `next` -/

theorem mkWF {s s' : Flat} {k k' n : Nat} (h : s.WF k n) (hr : s'.iter.WF k' n)
    (hc : s'.iter.cols = s.iter.cols)
    (hfi : ∀ w, s'.front = some w → w.off + w.len ≤ n) (hbi : ∀ w, s'.back = some w → w.off + w.len ≤ n)
    (htot : optLen s'.front + k' * s.iter.cols + optLen s'.back ≤ optLen s.front + k * s.iter.cols + optLen s.back)
    (hz : s.iter.cols = 0 → optLen s'.front = 0 ∧ optLen s'.back = 0) : s'.WF k' n :=
  ⟨hr, hfi, hbi, by rw [hc]; exact Nat.le_trans htot h.total, by rw [hc]; exact hz⟩

theorem next_front {s : Flat} {w : Win} (f : Nat) (hf : s.front = some w) (hl : w.len ≠ 0) :
    s.next (f + 1) = .ok (some w.off, { s with front := some ⟨w.off + 1, w.len - 1⟩ }) := by
  simp [Flat.next, hf, SliceIter.next, hl]

theorem next_front_empty {s : Flat} (f : Nat) (hF : s.front = none ∨ ∃ w, s.front = some w ∧ w.len = 0) :
    s.next (f + 1) = (s.iter.next >>= fun p => match p.1 with
      | none => match s.back with
        | none => pure (none, { s with iter := p.2 })
        | some w => pure ((SliceIter.next w).1, { s with iter := p.2, back := some (SliceIter.next w).2 })
      | some inner => Flat.next f { s with iter := p.2, front := some inner }) := by
  obtain ⟨it, fr, bk⟩ := s
  rcases hF with hF | ⟨w, hF, hl⟩
  · simp only at hF; subst hF
    simp only [Flat.next]
    rfl
  · simp only at hF; subst hF
    simp only [Flat.next, SliceIter.next, hl]
    rfl

@[simp] theorem optPositions_some (w : Win) : optPositions (some w) = w.positions := rfl
@[simp] theorem optPositions_none : optPositions none = [] := rfl
@[simp] theorem optLen_some (w : Win) : optLen (some w) = w.len := rfl
@[simp] theorem optLen_none : optLen none = 0 := rfl

/-- `slice::Iter::next` on a window -/
theorem slice_next (w : Win) :
    (SliceIter.next w).1 = w.positions.head? ∧ (SliceIter.next w).2.positions = w.positions.tail ∧
    (SliceIter.next w).2.off + (SliceIter.next w).2.len = w.off + w.len ∧ (SliceIter.next w).2.len ≤ w.len := by
  by_cases hl : w.len = 0
  · simp [SliceIter.next, hl, positions_nil hl]
  · simp only [SliceIter.next, hl, if_false, positions_cons hl]
    simp; omega

theorem front_empty_cases {s : Flat} (hfr : ¬ ∃ w, s.front = some w ∧ w.len ≠ 0) :
    (s.front = none ∨ ∃ w, s.front = some w ∧ w.len = 0) ∧ optLen s.front = 0 := by
  cases hf : s.front with
  | none => exact ⟨Or.inl rfl, rfl⟩
  | some w =>
    have : w.len = 0 := Classical.byContradiction fun hl => hfr ⟨w, hf, hl⟩
    exact ⟨Or.inr ⟨w, rfl, this⟩, this⟩

theorem next_spec {s : Flat} {k n : Nat} (h : s.WF k n) (f : Nat) :
    ∃ s' k', s.next (f + 2) = .ok ((s.abs k).head?, s') ∧ s'.WF k' n ∧ s'.abs k' = (s.abs k).tail := by
  by_cases hfr : ∃ w, s.front = some w ∧ w.len ≠ 0
  · obtain ⟨w, hf, hl⟩ := hfr
    refine ⟨{ s with front := some ⟨w.off + 1, w.len - 1⟩ }, k, ?_, ?_, ?_⟩
    · rw [next_front (f + 1) hf hl, abs_eq, hf]
      simp [optPositions, positions_cons hl]
    · have hin := h.front w hf
      refine mkWF h ?_ ?_ ?_ ?_ ?_ ?_
      · exact h.rows
      · rfl
      · intro w' hw'; simp at hw'; subst hw'; simp; omega
      · exact h.back
      · simp [optLen, hf]
      · intro hc; have := h.cols_zero hc; simp [optLen, hf] at this ⊢; omega
    · simp only [abs_eq, hf, optPositions, positions_cons hl]
      simp
  · obtain ⟨hF, hF0⟩ := front_empty_cases hfr
    have hFn : optPositions s.front = [] := optPositions_nil hF0
    obtain ⟨it', hn, hwf, habs⟩ := C08_next s.iter k n h.rows
    have hcols := rows_next_cols hn
    simp only [Seq.next] at hn habs
    rw [next_front_empty (f + 1) hF, hn]
    simp only [ok_bind, abs_eq, hFn, List.nil_append]
    cases hh : (s.iter.abs k).head? with
    | none =>
      have hnil : s.iter.abs k = [] := List.head?_eq_none_iff.1 hh
      have hk : k = 0 := by rw [← rows_abs_length s.iter k, hnil]; rfl
      subst hk
      have hnil' : it'.abs 0 = [] := by simp [Rows.abs]
      simp only [hnil, cellsOf_nil, List.nil_append]
      cases hb : s.back with
      | none =>
        refine ⟨_, 0, rfl, ?_, ?_⟩
        · refine mkWF h ?_ ?_ ?_ ?_ ?_ ?_
          · exact hwf
          · exact hcols
          · exact h.front
          · simp
          · simp
          · intro hc; have := h.cols_zero hc; simpa [hb] using this
        · simp [hFn, hnil']
      | some w =>
        obtain ⟨s1, s2, s3, s4⟩ := slice_next w
        have hin := h.back w hb
        refine ⟨{ s with iter := it', back := some (SliceIter.next w).2 }, 0, ?_, ?_, ?_⟩
        · simp only [pure_eq, optPositions_some, s1]
        · refine mkWF h ?_ ?_ ?_ ?_ ?_ ?_
          · exact hwf
          · exact hcols
          · exact h.front
          · intro w' hw'; simp at hw'; subst hw'; omega
          · simp [optLen, hb]; omega
          · intro hc; have := h.cols_zero hc; simp [optLen, hb] at this ⊢; omega
        · simp [hFn, hnil', s2]
    | some inner =>
      have hcons : s.iter.abs k = inner :: (s.iter.abs k).tail := by
        cases hl : s.iter.abs k with
        | nil => simp [hl] at hh
        | cons a t => simp [hl] at hh; simp [hh]
      have hmem : inner ∈ s.iter.abs k := by rw [hcons]; simp
      have hk : k ≠ 0 := by
        intro hk; subst hk; simp [Rows.abs] at hmem
      obtain ⟨hin, hlen⟩ := (C08_rows_disjoint s.iter k n h.rows).2 inner hmem
      have hcp := h.rows.cols_pos hk
      have hl : inner.len ≠ 0 := by omega
      have hhead : (cellsOf (s.iter.abs k) ++ optPositions s.back).head? = some inner.off := by
        rw [hcons]; simp [positions_cons hl]
      simp only []
      rw [next_front f rfl hl, hhead]
      refine ⟨_, k - 1, rfl, ?_, ?_⟩
      · refine mkWF h ?_ ?_ ?_ ?_ ?_ ?_
        · exact hwf
        · exact hcols
        · intro w' hw'; simp at hw'; subst hw'; simp; omega
        · exact h.back
        · obtain ⟨r, rfl⟩ : ∃ r, k = r + 1 := ⟨k - 1, by omega⟩
          simp [optLen, Nat.add_mul]; omega
        · intro hc; omega
      · rw [hcons]
        simp [habs, positions_cons hl]

/-! ### `next_back` -/

theorem nextBack_back {m : Mode} {s : Flat} {w : Win} (f : Nat) (hf : s.back = some w) (hl : w.len ≠ 0) :
    s.nextBack m (f + 1) = .ok (some (w.off + (w.len - 1)), { s with back := some ⟨w.off, w.len - 1⟩ }) := by
  simp [Flat.nextBack, hf, SliceIter.nextBack, hl]

theorem nextBack_back_empty {m : Mode} {s : Flat} (f : Nat)
    (hB : s.back = none ∨ ∃ w, s.back = some w ∧ w.len = 0) :
    s.nextBack m (f + 1) = (s.iter.nextBack m >>= fun p => match p.1 with
      | none => match s.front with
        | none => pure (none, { s with iter := p.2 })
        | some w => pure ((SliceIter.nextBack w).1, { s with iter := p.2, front := some (SliceIter.nextBack w).2 })
      | some inner => Flat.nextBack m f { s with iter := p.2, back := some inner }) := by
  obtain ⟨it, fr, bk⟩ := s
  rcases hB with hB | ⟨w, hB, hl⟩
  · simp only at hB; subst hB
    simp only [Flat.nextBack]
    rfl
  · simp only at hB; subst hB
    simp only [Flat.nextBack, SliceIter.nextBack, hl]
    rfl

/-- `slice::Iter::next_back` on a window -/
theorem slice_nextBack (w : Win) :
    (SliceIter.nextBack w).1 = w.positions.getLast? ∧
    (SliceIter.nextBack w).2.positions = w.positions.dropLast ∧
    (SliceIter.nextBack w).2.off + (SliceIter.nextBack w).2.len ≤ w.off + w.len ∧
    (SliceIter.nextBack w).2.len ≤ w.len := by
  by_cases hl : w.len = 0
  · simp [SliceIter.nextBack, hl, positions_nil hl]
  · simp only [SliceIter.nextBack, hl, if_false, positions_snoc hl]
    simp

theorem back_empty_cases {s : Flat} (hbk : ¬ ∃ w, s.back = some w ∧ w.len ≠ 0) :
    (s.back = none ∨ ∃ w, s.back = some w ∧ w.len = 0) ∧ optLen s.back = 0 := by
  cases hf : s.back with
  | none => exact ⟨Or.inl rfl, rfl⟩
  | some w =>
    have : w.len = 0 := Classical.byContradiction fun hl => hbk ⟨w, hf, hl⟩
    exact ⟨Or.inr ⟨w, rfl, this⟩, this⟩

theorem nextBack_spec (m : Mode) {s : Flat} {k n : Nat} (h : s.WF k n) (f : Nat) :
    ∃ s' k', s.nextBack m (f + 2) = .ok ((s.abs k).getLast?, s') ∧ s'.WF k' n ∧
      s'.abs k' = (s.abs k).dropLast := by
  by_cases hbk : ∃ w, s.back = some w ∧ w.len ≠ 0
  · obtain ⟨w, hf, hl⟩ := hbk
    refine ⟨{ s with back := some ⟨w.off, w.len - 1⟩ }, k, ?_, ?_, ?_⟩
    · rw [nextBack_back (f + 1) hf hl, abs_eq, hf]
      simp [positions_snoc hl, ← List.append_assoc]
    · have hin := h.back w hf
      refine mkWF h ?_ ?_ ?_ ?_ ?_ ?_
      · exact h.rows
      · rfl
      · exact h.front
      · intro w' hw'; simp at hw'; subst hw'; simp; omega
      · simp [hf]
      · intro hc; have := h.cols_zero hc; simp [hf] at this ⊢; omega
    · simp only [abs_eq, hf, optPositions_some, positions_snoc hl]
      simp [← List.append_assoc]
  · obtain ⟨hB, hB0⟩ := back_empty_cases hbk
    have hBn : optPositions s.back = [] := optPositions_nil hB0
    obtain ⟨it', hn, hwf, habs⟩ := C08_next_back m s.iter k n h.rows
    have hcols := rows_nextBack_cols hn
    simp only [Seq.nextBack] at hn habs
    rw [nextBack_back_empty (f + 1) hB, hn]
    simp only [ok_bind, abs_eq, hBn, List.append_nil]
    cases hh : (s.iter.abs k).getLast? with
    | none =>
      have hnil : s.iter.abs k = [] := List.getLast?_eq_none_iff.1 hh
      have hk : k = 0 := by rw [← rows_abs_length s.iter k, hnil]; rfl
      subst hk
      have hnil' : it'.abs 0 = [] := by simp [Rows.abs]
      simp only [hnil, cellsOf_nil, List.append_nil]
      cases hb : s.front with
      | none =>
        refine ⟨_, 0, rfl, ?_, ?_⟩
        · refine mkWF h ?_ ?_ ?_ ?_ ?_ ?_
          · exact hwf
          · exact hcols
          · simp
          · exact h.back
          · simp
          · intro hc; have := h.cols_zero hc; simpa [hb] using this
        · simp [hBn, hnil']
      | some w =>
        obtain ⟨s1, s2, s3, s4⟩ := slice_nextBack w
        have hin := h.front w hb
        refine ⟨{ s with iter := it', front := some (SliceIter.nextBack w).2 }, 0, ?_, ?_, ?_⟩
        · simp only [pure_eq, optPositions_some, s1]
        · refine mkWF h ?_ ?_ ?_ ?_ ?_ ?_
          · exact hwf
          · exact hcols
          · intro w' hw'; simp at hw'; subst hw'; omega
          · exact h.back
          · simp [hb]; omega
          · intro hc; have := h.cols_zero hc; simp [hb] at this ⊢; omega
        · simp [hBn, hnil', s2]
    | some inner =>
      have hsnoc : s.iter.abs k = (s.iter.abs k).dropLast ++ [inner] := by
        exact snoc_of_getLast? hh
      have hmem : inner ∈ s.iter.abs k := by rw [hsnoc]; simp
      have hk : k ≠ 0 := by
        intro hk; subst hk; simp [Rows.abs] at hmem
      obtain ⟨hin, hlen⟩ := (C08_rows_disjoint s.iter k n h.rows).2 inner hmem
      have hcp := h.rows.cols_pos hk
      have hl : inner.len ≠ 0 := by omega
      have hlast : (optPositions s.front ++ cellsOf (s.iter.abs k)).getLast? =
          some (inner.off + (inner.len - 1)) := by
        rw [hsnoc]; simp [positions_snoc hl, ← List.append_assoc]
      simp only []
      rw [nextBack_back f rfl hl, hlast]
      refine ⟨_, k - 1, rfl, ?_, ?_⟩
      · refine mkWF h ?_ ?_ ?_ ?_ ?_ ?_
        · exact hwf
        · exact hcols
        · exact h.front
        · intro w' hw'; simp at hw'; subst hw'; simp; omega
        · obtain ⟨r, rfl⟩ : ∃ r, k = r + 1 := ⟨k - 1, by omega⟩
          simp [Nat.add_mul]; omega
        · intro hc; omega
      · rw [hsnoc]
        simp [habs, positions_snoc hl, ← List.append_assoc]

/-! ### `nth` -/

/-- `slice::Iter::nth` on a window -/
theorem slice_nth (w : Win) (r : Nat) :
    (SliceIter.nth w r).1 = w.positions[r]? ∧ (SliceIter.nth w r).2.positions = w.positions.drop (r + 1) ∧
    (SliceIter.nth w r).2.off + (SliceIter.nth w r).2.len = w.off + w.len ∧
    (SliceIter.nth w r).2.len ≤ w.len := by
  by_cases hr : r < w.len
  · simp only [SliceIter.nth, hr, if_true, positions_getElem?, positions_drop]
    refine ⟨trivial, ?_, by omega, by omega⟩
    rw [Nat.add_assoc, Nat.sub_sub]
  · simp only [SliceIter.nth, hr, if_false, positions_getElem?]
    refine ⟨trivial, ?_, by omega, by omega⟩
    rw [positions_nil rfl]
    symm; apply List.drop_eq_nil_of_le
    rw [positions_length]; omega

theorem nth_front {m : Mode} {s : Flat} {w : Win} {j : Nat} (hc : s.iter.cols ≠ 0) (hf : s.front = some w)
    (hj : j < w.len) :
    s.nth m j = .ok (some (w.off + j), { s with front := some ⟨w.off + j + 1, w.len - j - 1⟩ }) := by
  simp [Flat.nth, hc, hf, hj, SliceIter.nth]

theorem nth_front_skip {m : Mode} {s : Flat} {w : Win} {j : Nat} (hc : s.iter.cols ≠ 0) (hf : s.front = some w)
    (hj : w.len ≤ j) :
    s.nth m j = ({ s with front := none } : Flat).nth m (j - w.len) := by
  have : ¬ j < w.len := by omega
  simp [Flat.nth, hc, hf, this]

theorem nth_spec_none (m : Mode) {s : Flat} {k n : Nat} (h : s.WF k n) (hc : s.iter.cols ≠ 0)
    (hf : s.front = none) (j : Nat) :
    ∃ s' k', s.nth m j = .ok ((s.abs k)[j]?, s') ∧ s'.WF k' n ∧ s'.abs k' = (s.abs k).drop (j + 1) := by
  have hlen := C08_len m s.iter k n h.rows
  have hall := (C08_rows_disjoint s.iter k n h.rows).2
  have hcp : 0 < s.iter.cols := by omega
  have hclen : (cellsOf (s.iter.abs k)).length = k * s.iter.cols := by
    rw [cellsOf_length _ _ (fun w hw => (hall w hw).2), rows_abs_length]
  have htot := h.total
  have hword := h.rows.word
  have hkk : k ≤ k * s.iter.cols := Nat.le_mul_of_pos_right k hcp
  obtain ⟨q, hqd⟩ : ∃ q, j / s.iter.cols = q := ⟨_, rfl⟩
  obtain ⟨r, hrd⟩ : ∃ r, j % s.iter.cols = r := ⟨_, rfl⟩
  have hr : r < s.iter.cols := by rw [← hrd]; exact Nat.mod_lt _ hcp
  have hjqr : j = q * s.iter.cols + r := by
    have := Nat.div_add_mod j s.iter.cols
    rw [Nat.mul_comm, hqd, hrd] at this
    exact this.symm
  by_cases hq : q < k
  · have hmin : min k q = q := Nat.min_eq_right (Nat.le_of_lt hq)
    obtain ⟨it', hn, hwf, habs⟩ := C08_nth m s.iter k n h.rows q (by omega)
    have hcols := rows_nth_cols hn
    simp only [Seq.nth] at hn habs
    have hql : q < (s.iter.abs k).length := by rw [rows_abs_length]; exact hq
    have hget : (s.iter.abs k)[q]? = some (s.iter.abs k)[q] := List.getElem?_eq_getElem hql
    generalize (s.iter.abs k)[q] = inner at hget
    rw [hget] at hn
    have hmem : inner ∈ s.iter.abs k := List.mem_of_getElem? hget
    obtain ⟨hin, hil⟩ := hall inner hmem
    have hqc : (q + 1) * s.iter.cols ≤ k * s.iter.cols := Nat.mul_le_mul_right _ hq
    rw [Nat.add_mul] at hqc
    have hum : umul m q s.iter.cols = .ok (q * s.iter.cols) := umul_ok _ _ _ (by omega)
    have hus : usub m j (q * s.iter.cols) = .ok r := by
      rw [usub_ok m _ _ (by omega)]; congr 1; omega
    have hA : (cellsOf ((s.iter.abs k).take q)).length = q * s.iter.cols := by
      rw [cellsOf_length _ s.iter.cols (fun w hw => (hall w (List.mem_of_mem_take hw)).2), List.length_take,
        rows_abs_length, Nat.min_eq_left (Nat.le_of_lt hq)]
    have habsS : s.abs k = cellsOf ((s.iter.abs k).take q) ++
        (inner.positions ++ (cellsOf ((s.iter.abs k).drop (q + 1)) ++ optPositions s.back)) := by
      rw [abs_eq, hf, cells_split hget]; simp
    refine ⟨{ s with iter := it', front := some ⟨inner.off + r + 1, inner.len - r - 1⟩ }, k - (q + 1), ?_, ?_, ?_⟩
    · rw [habsS, getElem?_mid _ _ _ j r (by omega) (by rw [positions_length]; omega),
        positions_getElem?, if_pos (by omega)]
      simp [Flat.nth, hc, hf, hlen, hqd, hmin, hn, hum, hus, SliceIter.nth, hil, hr]
    · refine mkWF h ?_ ?_ ?_ ?_ ?_ ?_
      · exact hwf
      · exact hcols
      · intro w' hw'; simp at hw'; subst hw'; simp; omega
      · exact h.back
      · have : (k - (q + 1) + 1) * s.iter.cols ≤ k * s.iter.cols := Nat.mul_le_mul_right _ (by omega)
        rw [Nat.add_mul] at this
        simp [hf]; omega
      · intro hc0; omega
    · rw [habsS, drop_mid _ _ _ (j + 1) (r + 1) (by omega) (by rw [positions_length]; omega),
        positions_drop, abs_eq]
      simp only [optPositions_some, habs]
      rw [Nat.sub_sub, Nat.add_assoc]
  · have hkq : k ≤ q := by omega
    have hmin : min k q = k := Nat.min_eq_left hkq
    obtain ⟨it', hn, hwf, habs⟩ := C08_nth m s.iter k n h.rows k (by omega)
    have hcols := rows_nth_cols hn
    simp only [Seq.nth] at hn habs
    have hnone : (s.iter.abs k)[k]? = none := List.getElem?_eq_none (by rw [rows_abs_length]; omega)
    have hk0 : k - (k + 1) = 0 := by omega
    rw [hnone] at hn
    rw [hk0] at hwf habs
    have hnil' : it'.abs 0 = [] := by simp [Rows.abs]
    have hkc : k * s.iter.cols ≤ j := by
      have := Nat.mul_le_mul_right s.iter.cols hkq
      omega
    have hum : umul m k s.iter.cols = .ok (k * s.iter.cols) := umul_ok _ _ _ (by omega)
    have hus : usub m j (k * s.iter.cols) = .ok (j - k * s.iter.cols) := usub_ok m _ _ hkc
    have habsS : s.abs k = cellsOf (s.iter.abs k) ++ optPositions s.back := by
      rw [abs_eq, hf]; simp
    cases hb : s.back with
    | none =>
      refine ⟨{ s with iter := it' }, 0, ?_, ?_, ?_⟩
      · rw [habsS, hb, optPositions_none, List.append_nil, List.getElem?_eq_none (by omega)]
        simp [Flat.nth, hc, hf, hlen, hqd, hmin, hn, hum, hus, hb]
      · refine mkWF h ?_ ?_ ?_ ?_ ?_ ?_
        · exact hwf
        · exact hcols
        · exact h.front
        · exact h.back
        · simp
        · intro hc0; omega
      · rw [habsS, hb, optPositions_none, List.append_nil, List.drop_eq_nil_of_le (by omega), abs_eq]
        simp [hf, hnil']
    | some w =>
      obtain ⟨s1, s2, s3, s4⟩ := slice_nth w (j - k * s.iter.cols)
      have hin := h.back w hb
      refine ⟨{ s with iter := it', back := some (SliceIter.nth w (j - k * s.iter.cols)).2 }, 0, ?_, ?_, ?_⟩
      · rw [habsS, hb, optPositions_some, List.getElem?_append_right (by omega), hclen, ← s1]
        simp [Flat.nth, hc, hf, hlen, hqd, hmin, hn, hum, hus, hb]
      · refine mkWF h ?_ ?_ ?_ ?_ ?_ ?_
        · exact hwf
        · exact hcols
        · exact h.front
        · intro w' hw'; simp at hw'; subst hw'; omega
        · simp [hb]; omega
        · intro hc0; omega
      · rw [habsS, hb, optPositions_some, List.drop_append, List.drop_eq_nil_of_le (by omega), hclen, abs_eq]
        have : j + 1 - k * s.iter.cols = j - k * s.iter.cols + 1 := by omega
        simp [hf, hnil', s2, this]

/-- `nth` (src/flattenexact.rs:68-98) -/
theorem nth_spec (m : Mode) {s : Flat} {k n : Nat} (h : s.WF k n) (j : Nat) :
    ∃ s' k', s.nth m j = .ok ((s.abs k)[j]?, s') ∧ s'.WF k' n ∧ s'.abs k' = (s.abs k).drop (j + 1) := by
  by_cases hc : s.iter.cols = 0
  · have hk : k = 0 := Classical.byContradiction fun hk => by
      have := h.rows.cols_pos hk; omega
    subst hk
    obtain ⟨z1, z2⟩ := h.cols_zero hc
    have hnil : s.abs 0 = [] := by
      rw [abs_eq, optPositions_nil z1, optPositions_nil z2]; simp [Rows.abs]
    refine ⟨s, 0, ?_, h, ?_⟩
    · simp [Flat.nth, hc, hnil]
    · simp [hnil]
  · cases hf : s.front with
    | none => exact nth_spec_none m h hc hf j
    | some w =>
      have hin := h.front w hf
      by_cases hj : j < w.len
      · refine ⟨{ s with front := some ⟨w.off + j + 1, w.len - j - 1⟩ }, k, ?_, ?_, ?_⟩
        · rw [nth_front hc hf hj, abs_eq, hf, optPositions_some,
            List.getElem?_append_left (by rw [positions_length]; exact hj), positions_getElem?, if_pos hj]
        · refine mkWF h ?_ ?_ ?_ ?_ ?_ ?_
          · exact h.rows
          · rfl
          · intro w' hw'; simp at hw'; subst hw'; simp; omega
          · exact h.back
          · simp [hf]; omega
          · intro hc0; omega
        · rw [abs_eq, abs_eq, hf]
          simp only [optPositions_some]
          rw [List.drop_append, positions_length, positions_drop]
          have : j + 1 - w.len = 0 := by omega
          simp [this, Nat.add_assoc, Nat.sub_sub]
      · have hj' : w.len ≤ j := by omega
        have h1 : ({ s with front := none } : Flat).WF k n := by
          refine mkWF h ?_ ?_ ?_ ?_ ?_ ?_
          · exact h.rows
          · rfl
          · simp
          · exact h.back
          · simp
          · intro hc0; omega
        obtain ⟨s', k', e1, e2, e3⟩ := nth_spec_none m h1 hc rfl (j - w.len)
        have habsS : s.abs k = w.positions ++ ({ s with front := none } : Flat).abs k := by
          rw [abs_eq, abs_eq, hf]; simp
        refine ⟨s', k', ?_, e2, ?_⟩
        · rw [nth_front_skip hc hf hj', e1, habsS,
            List.getElem?_append_right (by rw [positions_length]; exact hj'), positions_length]
        · have hd : w.positions.drop (j + 1) = [] :=
            List.drop_eq_nil_of_le (by rw [positions_length]; omega)
          have : j + 1 - w.len = j - w.len + 1 := by omega
          rw [e3, habsS, List.drop_append, positions_length, hd, this, List.nil_append]

/-! ### `nth_back` -/

theorem nthBack_append_right {β : Type} (Y X : List β) (j : Nat) (hj : j < X.length) :
    Seq.nthBack (Y ++ X) j = ((Seq.nthBack X j).1, Y ++ (Seq.nthBack X j).2) := by
  simp only [Seq.nthBack, List.length_append]
  have h1 : j < Y.length + X.length := by omega
  rw [if_pos h1, if_pos hj]
  congr 1
  · rw [List.getElem?_append_right (by omega)]; congr 1; omega
  · have h2 : Y.length + X.length - (j + 1) = Y.length + (X.length - (j + 1)) := by omega
    have h3 : Y.length + (X.length - (j + 1)) - Y.length = X.length - (j + 1) := by omega
    rw [h2, List.take_append, List.take_of_length_le (by omega), h3]

theorem nthBack_append_left {β : Type} (Y X : List β) (j : Nat) (hj : X.length ≤ j) :
    Seq.nthBack (Y ++ X) j = Seq.nthBack Y (j - X.length) := by
  simp only [Seq.nthBack, List.length_append]
  congr 1
  · by_cases h : j < Y.length + X.length
    · have h' : j - X.length < Y.length := by omega
      rw [if_pos h, if_pos h', List.getElem?_append_left (by omega)]
      congr 1; omega
    · have h' : ¬ j - X.length < Y.length := by omega
      rw [if_neg h, if_neg h']
  · have h2 : Y.length + X.length - (j + 1) = Y.length - (j - X.length + 1) := by omega
    rw [h2, List.take_append_of_le_length (by omega)]

theorem nthBack_nil {β : Type} (j : Nat) : Seq.nthBack ([] : List β) j = (none, []) := by
  simp [Seq.nthBack]

/-- `slice::Iter::nth_back` on a window -/
theorem slice_nthBack (w : Win) (r : Nat) :
    (SliceIter.nthBack w r).1 = (Seq.nthBack w.positions r).1 ∧
    (SliceIter.nthBack w r).2.positions = (Seq.nthBack w.positions r).2 ∧
    (SliceIter.nthBack w r).2.off + (SliceIter.nthBack w r).2.len ≤ w.off + w.len ∧
    (SliceIter.nthBack w r).2.len ≤ w.len := by
  simp only [Seq.nthBack, positions_length]
  by_cases hr : r < w.len
  · have h1 : w.len - 1 - r = w.len - (r + 1) := by omega
    simp only [SliceIter.nthBack, hr, if_true, positions_getElem?, h1]
    refine ⟨?_, ?_, by omega, by omega⟩
    · rw [if_pos (by omega)]
    · rw [positions_take _ _ (by omega)]
  · simp only [SliceIter.nthBack, hr, if_false]
    refine ⟨trivial, ?_, by omega, by omega⟩
    have : w.len - (r + 1) = 0 := by omega
    rw [this, positions_nil rfl]; rfl

theorem nthBack_back {m : Mode} {s : Flat} {w : Win} {j : Nat} (hc : s.iter.cols ≠ 0) (hf : s.back = some w)
    (hj : j < w.len) :
    s.nthBack m j = .ok (some (w.off + (w.len - 1 - j)), { s with back := some ⟨w.off, w.len - 1 - j⟩ }) := by
  simp [Flat.nthBack, hc, hf, hj, SliceIter.nthBack]

theorem nthBack_back_skip {m : Mode} {s : Flat} {w : Win} {j : Nat} (hc : s.iter.cols ≠ 0)
    (hf : s.back = some w) (hj : w.len ≤ j) :
    s.nthBack m j = ({ s with back := none } : Flat).nthBack m (j - w.len) := by
  have : ¬ j < w.len := by omega
  simp [Flat.nthBack, hc, hf, this]

theorem nthBack_spec_none (m : Mode) {s : Flat} {k n : Nat} (h : s.WF k n) (hc : s.iter.cols ≠ 0)
    (hf : s.back = none) (j : Nat) :
    ∃ s' k', s.nthBack m j = .ok ((Seq.nthBack (s.abs k) j).1, s') ∧ s'.WF k' n ∧
      s'.abs k' = (Seq.nthBack (s.abs k) j).2 := by
  have hlen := C08_len m s.iter k n h.rows
  have hall := (C08_rows_disjoint s.iter k n h.rows).2
  have hcp : 0 < s.iter.cols := by omega
  have hclen : (cellsOf (s.iter.abs k)).length = k * s.iter.cols := by
    rw [cellsOf_length _ _ (fun w hw => (hall w hw).2), rows_abs_length]
  have htot := h.total
  have hword := h.rows.word
  have hkk : k ≤ k * s.iter.cols := Nat.le_mul_of_pos_right k hcp
  obtain ⟨q, hqd⟩ : ∃ q, j / s.iter.cols = q := ⟨_, rfl⟩
  obtain ⟨r, hrd⟩ : ∃ r, j % s.iter.cols = r := ⟨_, rfl⟩
  have hr : r < s.iter.cols := by rw [← hrd]; exact Nat.mod_lt _ hcp
  have hjqr : j = q * s.iter.cols + r := by
    have := Nat.div_add_mod j s.iter.cols
    rw [Nat.mul_comm, hqd, hrd] at this
    exact this.symm
  by_cases hq : q < k
  · have hmin : min k q = q := Nat.min_eq_right (Nat.le_of_lt hq)
    obtain ⟨it', hn, hwf, habs⟩ := C08_nth_back m s.iter k n h.rows q (by omega)
    have hcols := rows_nthBack_cols hn
    simp only [Seq.nthBack, rows_abs_length, if_pos hq] at hn habs
    have hp : k - 1 - q = k - (q + 1) := by omega
    rw [hp] at hn
    have hql : k - (q + 1) < (s.iter.abs k).length := by rw [rows_abs_length]; omega
    have hget : (s.iter.abs k)[k - (q + 1)]? = some (s.iter.abs k)[k - (q + 1)] := List.getElem?_eq_getElem hql
    generalize (s.iter.abs k)[k - (q + 1)] = inner at hget
    rw [hget] at hn
    have hmem : inner ∈ s.iter.abs k := List.mem_of_getElem? hget
    obtain ⟨hin, hil⟩ := hall inner hmem
    have hqc : (q + 1) * s.iter.cols ≤ k * s.iter.cols := Nat.mul_le_mul_right _ hq
    rw [Nat.add_mul] at hqc
    have hum : umul m q s.iter.cols = .ok (q * s.iter.cols) := umul_ok _ _ _ (by omega)
    have hus : usub m j (q * s.iter.cols) = .ok r := by
      rw [usub_ok m _ _ (by omega)]; congr 1; omega
    have hD : (cellsOf ((s.iter.abs k).drop (k - (q + 1) + 1))).length = q * s.iter.cols := by
      rw [cellsOf_length _ s.iter.cols (fun w hw => (hall w (List.mem_of_mem_drop hw)).2), List.length_drop,
        rows_abs_length]
      congr 1; omega
    have habsS : s.abs k = (optPositions s.front ++ cellsOf ((s.iter.abs k).take (k - (q + 1))) ++
        inner.positions) ++ cellsOf ((s.iter.abs k).drop (k - (q + 1) + 1)) := by
      rw [abs_eq, hf, cells_split hget]; simp
    obtain ⟨s1, s2, s3, s4⟩ := slice_nthBack inner r
    have hval : Seq.nthBack (s.abs k) j = ((Seq.nthBack inner.positions r).1,
        (optPositions s.front ++ cellsOf ((s.iter.abs k).take (k - (q + 1)))) ++
          (Seq.nthBack inner.positions r).2) := by
      have hjr : j - q * s.iter.cols = r := by omega
      rw [habsS, nthBack_append_left _ _ _ (by rw [hD]; omega), hD, hjr,
        nthBack_append_right _ _ _ (by rw [positions_length]; omega)]
    refine ⟨{ s with iter := it', back := some (SliceIter.nthBack inner r).2 }, k - (q + 1), ?_, ?_, ?_⟩
    · rw [hval, ← s1]
      simp [Flat.nthBack, hc, hf, hlen, hqd, hmin, hn, hum, hus, hil, hr]
    · refine mkWF h ?_ ?_ ?_ ?_ ?_ ?_
      · exact hwf
      · exact hcols
      · exact h.front
      · intro w' hw'; simp at hw'; subst hw'; omega
      · have : (k - (q + 1) + 1) * s.iter.cols ≤ k * s.iter.cols := Nat.mul_le_mul_right _ (by omega)
        rw [Nat.add_mul] at this
        simp [hf]; omega
      · intro hc0; omega
    · rw [hval, abs_eq]
      simp only [optPositions_some, habs, s2, List.append_assoc]
  · have hkq : k ≤ q := by omega
    have hmin : min k q = k := Nat.min_eq_left hkq
    obtain ⟨it', hn, hwf, habs⟩ := C08_nth_back m s.iter k n h.rows k (by omega)
    have hcols := rows_nthBack_cols hn
    simp only [Seq.nthBack, rows_abs_length, if_neg (Nat.lt_irrefl k)] at hn habs
    have hk0 : k - (k + 1) = 0 := by omega
    rw [hk0] at hwf habs
    have hnil' : it'.abs 0 = [] := by simp [Rows.abs]
    have hkc : k * s.iter.cols ≤ j := by
      have := Nat.mul_le_mul_right s.iter.cols hkq
      omega
    have hum : umul m k s.iter.cols = .ok (k * s.iter.cols) := umul_ok _ _ _ (by omega)
    have hus : usub m j (k * s.iter.cols) = .ok (j - k * s.iter.cols) := usub_ok m _ _ hkc
    have hval : Seq.nthBack (s.abs k) j = Seq.nthBack (optPositions s.front) (j - k * s.iter.cols) := by
      have : s.abs k = optPositions s.front ++ cellsOf (s.iter.abs k) := by rw [abs_eq, hf]; simp
      rw [this, nthBack_append_left _ _ _ (by omega), hclen]
    cases hb : s.front with
    | none =>
      refine ⟨{ s with iter := it' }, 0, ?_, ?_, ?_⟩
      · rw [hval, hb, optPositions_none, nthBack_nil]
        simp [Flat.nthBack, hc, hf, hlen, hqd, hmin, hn, hum, hus, hb]
      · refine mkWF h ?_ ?_ ?_ ?_ ?_ ?_
        · exact hwf
        · exact hcols
        · exact h.front
        · exact h.back
        · simp
        · intro hc0; omega
      · rw [hval, hb, optPositions_none, nthBack_nil, abs_eq]
        simp [hf, hnil']
    | some w =>
      obtain ⟨s1, s2, s3, s4⟩ := slice_nthBack w (j - k * s.iter.cols)
      have hin := h.front w hb
      refine ⟨{ s with iter := it', front := some (SliceIter.nthBack w (j - k * s.iter.cols)).2 }, 0, ?_, ?_, ?_⟩
      · rw [hval, hb, optPositions_some, ← s1]
        simp [Flat.nthBack, hc, hf, hlen, hqd, hmin, hn, hum, hus, hb]
      · refine mkWF h ?_ ?_ ?_ ?_ ?_ ?_
        · exact hwf
        · exact hcols
        · intro w' hw'; simp at hw'; subst hw'; omega
        · exact h.back
        · simp [hb]; omega
        · intro hc0; omega
      · rw [hval, hb, optPositions_some, abs_eq]
        simp [hf, hnil', s2]

/-- `nth_back` (src/flattenexact.rs:144-174) -/
theorem nthBack_spec (m : Mode) {s : Flat} {k n : Nat} (h : s.WF k n) (j : Nat) :
    ∃ s' k', s.nthBack m j = .ok ((Seq.nthBack (s.abs k) j).1, s') ∧ s'.WF k' n ∧
      s'.abs k' = (Seq.nthBack (s.abs k) j).2 := by
  by_cases hc : s.iter.cols = 0
  · have hk : k = 0 := Classical.byContradiction fun hk => by
      have := h.rows.cols_pos hk; omega
    subst hk
    obtain ⟨z1, z2⟩ := h.cols_zero hc
    have hnil : s.abs 0 = [] := by
      rw [abs_eq, optPositions_nil z1, optPositions_nil z2]; simp [Rows.abs]
    refine ⟨s, 0, ?_, h, ?_⟩
    · simp [Flat.nthBack, hc, hnil, nthBack_nil]
    · simp [hnil, nthBack_nil]
  · cases hf : s.back with
    | none => exact nthBack_spec_none m h hc hf j
    | some w =>
      have hin := h.back w hf
      have habsS : s.abs k = (optPositions s.front ++ cellsOf (s.iter.abs k)) ++ w.positions := by
        rw [abs_eq, hf]; simp
      obtain ⟨s1, s2, s3, s4⟩ := slice_nthBack w j
      by_cases hj : j < w.len
      · have hs : SliceIter.nthBack w j = (some (w.off + (w.len - 1 - j)), ⟨w.off, w.len - 1 - j⟩) := by
          simp [SliceIter.nthBack, hj]
        rw [hs] at s1 s2
        refine ⟨{ s with back := some ⟨w.off, w.len - 1 - j⟩ }, k, ?_, ?_, ?_⟩
        · rw [nthBack_back hc hf hj, habsS, nthBack_append_right _ _ _ (by rw [positions_length]; exact hj), ← s1]
        · refine mkWF h ?_ ?_ ?_ ?_ ?_ ?_
          · exact h.rows
          · rfl
          · exact h.front
          · intro w' hw'; simp at hw'; subst hw'; simp; omega
          · simp [hf]; omega
          · intro hc0; omega
        · rw [habsS, nthBack_append_right _ _ _ (by rw [positions_length]; exact hj), ← s2, abs_eq]
          simp
      · have hj' : w.len ≤ j := by omega
        have h1 : ({ s with back := none } : Flat).WF k n := by
          refine mkWF h ?_ ?_ ?_ ?_ ?_ ?_
          · exact h.rows
          · rfl
          · exact h.front
          · simp
          · simp
          · intro hc0; omega
        obtain ⟨s', k', e1, e2, e3⟩ := nthBack_spec_none m h1 hc rfl (j - w.len)
        have habs1 : ({ s with back := none } : Flat).abs k = optPositions s.front ++ cellsOf (s.iter.abs k) := by
          rw [abs_eq]; simp
        have hval : Seq.nthBack (s.abs k) j = Seq.nthBack (({ s with back := none } : Flat).abs k) (j - w.len) := by
          rw [habsS, habs1, nthBack_append_left _ _ _ (by rw [positions_length]; exact hj'), positions_length]
        refine ⟨s', k', ?_, e2, ?_⟩
        · rw [nthBack_back_skip hc hf hj', e1, hval]
        · rw [e3, hval]

/-! ### `size_hint`, `fold`, `rfold` -/

theorem sizeHint_aux (m : Mode) (cols k a b n : Nat) (h : a + k * cols + b ≤ n) (hn : n < WORD) :
    (do let len ← umul m cols k
        let len ← uadd m len a
        let len ← uadd m len b
        pure len : Res Nat) = .ok (a + k * cols + b) := by
  have hm : cols * k = k * cols := Nat.mul_comm _ _
  rw [umul_ok m _ _ (by omega), hm]
  simp only [ok_bind]
  rw [uadd_ok m _ _ (by omega)]
  simp only [ok_bind]
  rw [uadd_ok m _ _ (by omega)]
  congr 1; omega

theorem sizeHint_spec (m : Mode) {s : Flat} {k n : Nat} (h : s.WF k n) :
    s.sizeHint m = .ok (s.abs k).length := by
  have hlen := C08_len m s.iter k n h.rows
  have hall := (C08_rows_disjoint s.iter k n h.rows).2
  have hclen : (cellsOf (s.iter.abs k)).length = k * s.iter.cols := by
    rw [cellsOf_length _ _ (fun w hw => (hall w hw).2), rows_abs_length]
  have htot := h.total
  have hword := h.rows.word
  have hL : (s.abs k).length = optLen s.front + k * s.iter.cols + optLen s.back := by
    simp only [abs_eq, List.length_append, optPositions_length, hclen]; omega
  rw [hL]
  obtain ⟨it, fr, bk⟩ := s
  simp only at hlen htot ⊢
  simp only [Flat.sizeHint, hlen, ok_bind]
  cases fr <;> cases bk <;> exact sizeHint_aux m _ _ _ _ n htot hword

theorem collect_spec {s : Flat} {k n : Nat} (h : s.WF k n) (fuel : Nat) (hf : k < fuel) :
    s.collect fuel = .ok (s.abs k) := by
  have := C08_fold s.iter k n h.rows fuel hf
  simp only [Flat.collect, this, ok_bind, pure_eq, Flat.abs]
  cases s.front <;> cases s.back <;> rfl

theorem collectBack_spec (m : Mode) {s : Flat} {k n : Nat} (h : s.WF k n) (fuel : Nat) (hf : k < fuel) :
    s.collectBack m fuel = .ok (s.abs k).reverse := by
  have := C08_rfold m s.iter k n h.rows fuel hf
  simp only [Flat.collectBack, this, ok_bind, pure_eq, abs_eq, List.reverse_append, cellsOf_reverse,
    List.append_assoc]
  cases s.front <;> cases s.back <;> rfl

/-! ### `cells()` of the receivers -/

theorem rows_total {it : Rows} {k n : Nat} (h : it.WF k n) : k * it.cols ≤ n := by
  have hl := h.len
  have hin := h.inside
  cases k with
  | zero => simp
  | succ r =>
    simp only [Nat.add_one_ne_zero, if_false, Nat.add_sub_cancel] at hl
    rw [Nat.mul_add] at hl
    rw [Nat.add_mul]
    omega

theorem new_WF {it : Rows} {k n : Nat} (h : it.WF k n) : (Flat.new it).WF k n :=
  ⟨h, by simp [Flat.new], by simp [Flat.new], by simpa [Flat.new] using rows_total h, by simp [Flat.new]⟩

theorem new_abs (it : Rows) (k : Nat) : (Flat.new it).abs k = cellsOf (it.abs k) := by
  simp [abs_eq, Flat.new]

theorem cells_map_range (R C : Nat) (f : Nat → Nat) :
    cellsOf ((List.range R).map fun r => ⟨f r, C⟩) =
      ((List.range R).map fun r => (List.range C).map fun c => f r + c).flatten := by
  simp [cellsOf, Win.positions, Function.comp_def]

theorem flatten_range_mul (R C : Nat) :
    ((List.range R).map fun r => (List.range C).map fun c => r * C + c).flatten = List.range (R * C) := by
  induction R with
  | zero => simp
  | succ R ih =>
    rw [List.range_succ, List.map_append, List.flatten_append, ih, Nat.add_mul, Nat.one_mul, List.range_add]
    simp

theorem cells_sorted (R C off stride : Nat) (hs : C ≤ stride) :
    (((List.range R).map fun r => (List.range C).map fun c => off + r * stride + c).flatten).Pairwise (· < ·) := by
  rw [List.pairwise_flatten]
  constructor
  · intro l hl
    obtain ⟨r, _, rfl⟩ := List.mem_map.1 hl
    rw [List.pairwise_map]
    exact List.Pairwise.imp (fun hab => by omega) List.pairwise_lt_range
  · rw [List.pairwise_map]
    refine List.Pairwise.imp ?_ List.pairwise_lt_range
    intro a b hab x hx y hy
    obtain ⟨c1, hc1, rfl⟩ := List.mem_map.1 hx
    obtain ⟨c2, hc2, rfl⟩ := List.mem_map.1 hy
    have h1 := List.mem_range.1 hc1
    have : (a + 1) * stride ≤ b * stride := Nat.mul_le_mul_right _ hab
    rw [Nat.add_mul] at this
    omega

/-! ### words of operations -/

theorem step_spec (m : Mode) {s : Flat} {k n : Nat} (h : s.WF k n) (f : Nat) (o : Seq.Op) :
    ∃ s' k', s.step m (f + 2) o = .ok ((Seq.step (s.abs k) o).1, s') ∧ s'.WF k' n ∧
      s'.abs k' = (Seq.step (s.abs k) o).2 := by
  cases o with
  | next =>
    obtain ⟨s', k', h1, h2, h3⟩ := next_spec h f
    exact ⟨s', k', by simp [Flat.step, h1, Seq.step, Seq.next], h2, by simpa [Seq.step, Seq.next] using h3⟩
  | nextBack =>
    obtain ⟨s', k', h1, h2, h3⟩ := nextBack_spec m h f
    exact ⟨s', k', by simp [Flat.step, h1, Seq.step, Seq.nextBack], h2,
      by simpa [Seq.step, Seq.nextBack] using h3⟩
  | nth j =>
    obtain ⟨s', k', h1, h2, h3⟩ := nth_spec m h j
    exact ⟨s', k', by simp [Flat.step, h1, Seq.step, Seq.nth], h2, by simpa [Seq.step, Seq.nth] using h3⟩
  | nthBack j =>
    obtain ⟨s', k', h1, h2, h3⟩ := nthBack_spec m h j
    exact ⟨s', k', by simp [Flat.step, h1, Seq.step], h2, by simpa [Seq.step] using h3⟩
  | len =>
    exact ⟨s, k, by simp [Flat.step, sizeHint_spec m h, Seq.step], h, by simp [Seq.step]⟩

theorem run_spec (m : Mode) {s : Flat} {k n : Nat} (h : s.WF k n) (f : Nat) (w : List Seq.Op) :
    ∃ s' k', s.run m (f + 2) w = .ok ((Seq.run (s.abs k) w).1, s') ∧ s'.WF k' n ∧
      s'.abs k' = (Seq.run (s.abs k) w).2 := by
  induction w generalizing s k with
  | nil => exact ⟨s, k, by simp [Flat.run, Seq.run], h, by simp [Seq.run]⟩
  | cons o os ih =>
    obtain ⟨s1, k1, h1, h2, h3⟩ := step_spec m h f o
    obtain ⟨s2, k2, g1, g2, g3⟩ := ih h2
    refine ⟨s2, k2, ?_, g2, ?_⟩
    · simp only [Flat.run, h1, ok_bind, g1, pure_eq, Seq.run, h3]
    · simp only [Seq.run, g3, h3]

end FlatL
end Toodee
