import Toodee.Proofs.TranslateLemmas
/-
  The number theory of the cycle-leader loop of `translate_with_wrap` (C15): the map `r ↦ (r + A) % R` on `0 … R-1` has
  `g = gcd R A` orbits of length `L = R / g`; the orbit of `b` stays in the residue class of `b` modulo `g`.
  Everything needed (`Nat.gcd`, `Nat.Coprime`) is in Lean core — no Mathlib import.
-/
namespace Toodee
variable {α : Type}

/-- `R ∣ d * A ↔ R / gcd R A ∣ d`, the direction the loops need -/
theorem orbit_dvd {R A d : Nat} (hR : 0 < R) (h : R ∣ d * A) : R / Nat.gcd R A ∣ d := by
  have hg : 0 < Nat.gcd R A := Nat.gcd_pos_of_pos_left A hR
  have hcop := Nat.coprime_div_gcd_div_gcd hg
  have eR : Nat.gcd R A * (R / Nat.gcd R A) = R := Nat.mul_div_cancel' (Nat.gcd_dvd_left R A)
  have eA : Nat.gcd R A * (A / Nat.gcd R A) = A := Nat.mul_div_cancel' (Nat.gcd_dvd_right R A)
  generalize Nat.gcd R A = g at *
  generalize R / g = L at *
  generalize A / g = A' at *
  subst eR; subst eA
  apply hcop.dvd_of_dvd_mul_right (n := A')
  apply Nat.dvd_of_mul_dvd_mul_left hg
  have e : g * (d * A') = d * (g * A') := by
    rw [← Nat.mul_assoc, Nat.mul_comm g d, Nat.mul_assoc]
  rw [e]; exact h

theorem orbitFacts {R A : Nat} (hR : 0 < R) : OrbitFacts R A (Nat.gcd R A) (R / Nat.gcd R A) where
  gL := Nat.mul_div_cancel' (Nat.gcd_dvd_left R A)
  gA := Nat.gcd_dvd_right R A
  ret := by
    intro b hb
    have e : R / Nat.gcd R A * A = R * (A / Nat.gcd R A) := by
      have eR : Nat.gcd R A * (R / Nat.gcd R A) = R := Nat.mul_div_cancel' (Nat.gcd_dvd_left R A)
      have eA : Nat.gcd R A * (A / Nat.gcd R A) = A := Nat.mul_div_cancel' (Nat.gcd_dvd_right R A)
      generalize Nat.gcd R A = g at *
      generalize R / g = L at *
      generalize A / g = A' at *
      subst eR; subst eA
      rw [← Nat.mul_assoc, Nat.mul_comm L g]
    rw [nx, e, Nat.add_mul_mod_self_left, Nat.mod_eq_of_lt hb]
  inj := by
    intro b j k hjk he
    apply orbit_dvd hR
    simp only [nx] at he
    have h1 := Nat.sub_mod_eq_zero_of_mod_eq he.symm
    have e : b + k * A - (b + j * A) = (k - j) * A := by
      rw [Nat.sub_mul]
      have : j * A ≤ k * A := Nat.mul_le_mul_right A (by omega)
      omega
    rw [e] at h1
    exact Nat.dvd_of_mod_eq_zero h1
  res := by
    intro b k
    rw [nx, Nat.mod_mod_of_dvd _ (Nat.gcd_dvd_left R A)]
    have eA : Nat.gcd R A * (A / Nat.gcd R A) = A := Nat.mul_div_cancel' (Nat.gcd_dvd_right R A)
    generalize Nat.gcd R A = g at *
    generalize A / g = A' at *
    subst eA
    have e : k * (g * A') = g * (k * A') := by
      rw [← Nat.mul_assoc, Nat.mul_comm k g, Nat.mul_assoc]
    rw [e, Nat.add_mul_mod_self_left]

/-- `translate_with_wrap` is the stated bijection -/
theorem translate_spec (m : Mode) {v : VW} (buf : List α) (h : v.Inv buf.length) {a : Acc}
    (ha : a.Of v buf.length) (getRowMut : Nat → Res Win)
    (hget : ∀ r, r < v.numRows → getRowMut r = .ok (v.rowWin r))
    (mid : Nat × Nat) (hm : mid.1 ≤ v.numCols ∧ mid.2 ≤ v.numRows) :
    a.translateWithWrap m getRowMut buf mid =
      .ok (gather buf (v.mapCells (trG v.numCols v.numRows mid.1 mid.2))) :=
  translate_of_orbit m buf h ha getRowMut hget mid hm
    (fun A _ hAR => ⟨_, _, orbitFacts (A := A) (by omega)⟩)

end Toodee
