import Toodee.Spec.Grid
import Toodee.Spec.IterAbs
/-
  Helper lemmas for C07 (remove_row / remove_col / DrainCol::drop): re-chunking of a row-major buffer into rows
  (`toRows` / `flatten`), a block form of `memmove` to the left, the loop invariant of the `DrainCol::drop`
  compaction, and small facts about the column cursor's abstraction.
  Only lemmas here; the property statements live in `Toodee/Properties`.
-/
namespace Toodee
variable {α : Type}

/-! ### `toRows` / `flatten` re-chunking -/

theorem rl_toRows_length (c : Nat) (data : List α) : (toRows c data).length = data.length / c := by
  simp [toRows]

theorem rl_toRows_nil (c : Nat) : toRows c ([] : List α) = [] := by
  simp [toRows]

theorem rl_toRows_zero (data : List α) : toRows 0 data = [] := by
  simp [toRows]

/-- peel off the first row -/
theorem rl_toRows_cons {c : Nat} {data : List α} (hc : 0 < c) (hl : c ≤ data.length) :
    toRows c data = data.take c :: toRows c (data.drop c) := by
  unfold toRows
  have hdiv : data.length / c = (data.length - c) / c + 1 := by
    rw [Nat.div_eq_sub_div hc hl]
  rw [hdiv, List.range_succ_eq_map, List.length_drop]
  simp only [List.map_cons, List.map_map, Nat.zero_mul, List.drop_zero]
  congr 1
  apply List.map_congr_left
  intro r _
  simp only [Function.comp, Nat.succ_eq_add_one, List.drop_drop, Nat.succ_mul]
  rw [Nat.add_comm c (r * c)]

/-- cutting a concatenation of rows of `c` cells gives the rows back -/
theorem rl_toRows_flatten {c : Nat} (hc : 0 < c) :
    ∀ (g : List (List α)), (∀ ρ ∈ g, ρ.length = c) → toRows c g.flatten = g
  | [], _ => by simp [toRows]
  | ρ :: g, h => by
    have hρ : ρ.length = c := h ρ (by simp)
    have hg : ∀ ρ' ∈ g, ρ'.length = c := fun ρ' hm => h ρ' (by simp [hm])
    rw [rl_toRows_cons hc (by simp [hρ])]
    simp only [List.flatten_cons]
    rw [List.take_left' hρ, List.drop_left' hρ, rl_toRows_flatten hc g hg]

/-- the rows of a buffer of `c*r` cells concatenate to the buffer -/
theorem rl_flatten_toRows (c : Nat) : ∀ (r : Nat) (data : List α), data.length = c * r →
    (toRows c data).flatten = data
  | 0, data, h => by
    have : data = [] := List.eq_nil_of_length_eq_zero (by simpa using h)
    subst this
    simp [toRows]
  | r + 1, data, h => by
    by_cases hc : c = 0
    · have : data = [] := List.eq_nil_of_length_eq_zero (by simpa [hc] using h)
      subst this
      simp [toRows]
    · have hc' : 0 < c := Nat.pos_of_ne_zero hc
      have hl : c ≤ data.length := by rw [h, Nat.mul_succ]; omega
      rw [rl_toRows_cons hc' hl, List.flatten_cons,
        rl_flatten_toRows c r (data.drop c) (by rw [List.length_drop, h, Nat.mul_succ]; omega)]
      exact List.take_append_drop c data

/-- every row of `toRows c data` has `c` cells -/
theorem rl_toRows_row_length (c : Nat) (data : List α) : ∀ ρ ∈ toRows c data, ρ.length = c := by
  intro ρ hρ
  simp only [toRows, List.mem_map, List.mem_range] at hρ
  obtain ⟨r, hr, rfl⟩ := hρ
  by_cases hc : c = 0
  · simp [hc]
  · have hc' : 0 < c := Nat.pos_of_ne_zero hc
    have h1 : (r + 1) * c ≤ data.length := by
      have := Nat.mul_le_mul_right c (Nat.succ_le_of_lt hr)
      exact Nat.le_trans this (Nat.div_mul_le_self _ _)
    rw [Nat.succ_mul] at h1
    simp only [List.length_take, List.length_drop]
    omega

theorem rl_grid_flatten (t : TD α) (h : t.Inv) : t.grid.flatten = t.data :=
  rl_flatten_toRows t.numCols t.numRows t.data h.len

theorem rl_grid_row_length (t : TD α) : ∀ ρ ∈ t.grid, ρ.length = t.numCols :=
  rl_toRows_row_length t.numCols t.data

theorem rl_grid_length (t : TD α) (h : t.Inv) : t.grid.length = t.numRows := by
  unfold TD.grid
  rw [rl_toRows_length, h.len]
  by_cases hc : t.numCols = 0
  · simp [hc, h.zero.1 hc]
  · exact Nat.mul_div_cancel_left _ (Nat.pos_of_ne_zero hc)

/-- length of a concatenation of rows of equal length -/
theorem rl_length_flatten_uniform {c : Nat} :
    ∀ (g : List (List α)), (∀ ρ ∈ g, ρ.length = c) → g.flatten.length = c * g.length
  | [], _ => by simp
  | ρ :: g, h => by
    have hρ : ρ.length = c := h ρ (by simp)
    have hg : ∀ ρ' ∈ g, ρ'.length = c := fun ρ' hm => h ρ' (by simp [hm])
    simp only [List.flatten_cons, List.length_append, List.length_cons, hρ,
      rl_length_flatten_uniform g hg, Nat.mul_succ]
    omega

/-- the first `i` rows are the first `i*c` cells -/
theorem rl_flatten_take_uniform {c : Nat} :
    ∀ (g : List (List α)) (i : Nat), (∀ ρ ∈ g, ρ.length = c) → (g.take i).flatten = g.flatten.take (i * c)
  | [], i, _ => by simp
  | ρ :: g, 0, _ => by simp
  | ρ :: g, i + 1, h => by
    have hρ : ρ.length = c := h ρ (by simp)
    have hg : ∀ ρ' ∈ g, ρ'.length = c := fun ρ' hm => h ρ' (by simp [hm])
    simp only [List.take_succ_cons, List.flatten_cons]
    rw [rl_flatten_take_uniform g i hg, List.take_append, hρ]
    have h1 : (i + 1) * c - c = i * c := by rw [Nat.succ_mul]; omega
    have h2 : ρ.take ((i + 1) * c) = ρ := List.take_of_length_le (by rw [hρ, Nat.succ_mul]; omega)
    rw [h1, h2]

/-- the rows from `i` on are the cells from `i*c` on -/
theorem rl_flatten_drop_uniform {c : Nat} :
    ∀ (g : List (List α)) (i : Nat), (∀ ρ ∈ g, ρ.length = c) → (g.drop i).flatten = g.flatten.drop (i * c)
  | [], i, _ => by simp
  | ρ :: g, 0, _ => by simp
  | ρ :: g, i + 1, h => by
    have hρ : ρ.length = c := h ρ (by simp)
    have hg : ∀ ρ' ∈ g, ρ'.length = c := fun ρ' hm => h ρ' (by simp [hm])
    simp only [List.drop_succ_cons, List.flatten_cons]
    rw [rl_flatten_drop_uniform g i hg, List.drop_append, hρ]
    have h1 : (i + 1) * c - c = i * c := by rw [Nat.succ_mul]; omega
    have h2 : ρ.drop ((i + 1) * c) = [] := List.drop_of_length_le (by rw [hρ, Nat.succ_mul]; omega)
    rw [h1, h2, List.nil_append]

/-- erasing a block of `c` cells is erasing a row -/
theorem rl_toRows_eraseRow {c : Nat} (hc : 0 < c) (r : Nat) (data : List α) (hl : data.length = c * r) (i : Nat) :
    toRows c (data.take (i * c) ++ data.drop ((i + 1) * c)) = (toRows c data).eraseIdx i := by
  have hrow := rl_toRows_row_length c data
  have hflat := rl_flatten_toRows c r data hl
  have h1 := rl_flatten_take_uniform (toRows c data) i hrow
  have h2 := rl_flatten_drop_uniform (toRows c data) (i + 1) hrow
  rw [hflat] at h1 h2
  rw [← h1, ← h2, ← List.flatten_append, ← List.eraseIdx_eq_take_drop_succ]
  apply rl_toRows_flatten hc
  intro ρ hρ
  exact hrow ρ (List.mem_of_mem_eraseIdx hρ)

/-! ### `memmove` to the left across a gap -/

/-- moving the block `M` left across the gap `J`: the block lands right after `A`; the `|J|` cells after it hold
    stale values; what follows is untouched -/
theorem rl_memmoveChecked_left (A J M B : List α) (src dst n : Nat)
    (hs : src = A.length + J.length) (hd : dst = A.length) (hn : n = M.length) :
    ∃ J' : List α, J'.length = J.length ∧
      memmoveChecked (A ++ J ++ M ++ B) src dst n = .ok (A ++ M ++ J' ++ B) := by
  subst hs hd hn
  refine ⟨(J ++ M).drop M.length, by simp, ?_⟩
  unfold memmoveChecked
  rw [if_pos (by simp only [List.length_append]; omega)]
  simp only [pure_eq, memmove]
  congr 1
  have e1 : (A ++ J ++ M ++ B).take A.length = A := by
    simp only [List.append_assoc]; exact List.take_left
  have e2 : ((A ++ J ++ M ++ B).drop (A.length + J.length)).take M.length = M := by
    have : (A ++ J ++ M ++ B).drop (A.length + J.length) = M ++ B := by
      rw [show A ++ J ++ M ++ B = (A ++ J) ++ (M ++ B) by simp only [List.append_assoc]]
      exact List.drop_left' (by simp)
    rw [this]; exact List.take_left
  have e3 : (A ++ J ++ M ++ B).drop (A.length + M.length) = (J ++ M).drop M.length ++ B := by
    rw [show A ++ J ++ M ++ B = A ++ ((J ++ M) ++ B) by simp only [List.append_assoc],
      List.drop_length_add_append, List.drop_append_of_le_length (by simp)]
  rw [e1, e2, e3]
  simp only [List.append_assoc]

/-! ### the compaction loop of `DrainCol::drop` -/

/-- Loop invariant of the compaction: the buffer is `A ++ J ++ drop (i+1) ρ ++ rest.flatten` (`A`: compacted so far
    including the part of the current row `ρ` before column `i`; `J`: the gap of stale cells; `dest` at the start
    of the gap, `src` at its end).  After one iteration per remaining row the buffer has the same shape, for the
    last row `ρl`, and every row of `rest` lost its column `i`. -/
theorem rl_compactLoop_spec {C i : Nat} (hi : i < C) :
    ∀ (rest : List (List α)), (∀ ρ ∈ rest, ρ.length = C) →
    ∀ (A J ρ : List α) (buf : List α) (src dest : Nat), ρ.length = C →
      buf = A ++ J ++ ρ.drop (i + 1) ++ rest.flatten → src = A.length + J.length → dest = A.length →
      ∃ (A' J' ρl : List α), ρl.length = C ∧ J'.length = J.length + rest.length ∧
        compactLoop C (C - 1) rest.length buf src dest
          = .ok (A' ++ J' ++ ρl.drop (i + 1), A'.length + J'.length, A'.length) ∧
        A' ++ ρl.drop (i + 1) = A ++ ρ.drop (i + 1) ++ (rest.map fun ρ => ρ.eraseIdx i).flatten
  | [], _, A, J, ρ, buf, src, dest, hρ, hb, hs, hd => by
    subst hb hs hd
    exact ⟨A, J, ρ, hρ, by simp, by simp [compactLoop], by simp⟩
  | ρ' :: rest, h, A, J, ρ, buf, src, dest, hρ, hb, hs, hd => by
    have hρ' : ρ'.length = C := h ρ' (by simp)
    have hrest : ∀ ρ'' ∈ rest, ρ''.length = C := fun ρ'' hm => h ρ'' (by simp [hm])
    -- one iteration: move `drop (i+1) ρ ++ take i ρ'` left across the gap
    have hsplit : ρ' = ρ'.take i ++ ρ'[i]'(by omega) :: ρ'.drop (i + 1) := by
      rw [← List.drop_eq_getElem_cons, List.take_append_drop]
    have hbuf : buf = A ++ J ++ (ρ.drop (i + 1) ++ ρ'.take i) ++ (ρ'[i]'(by omega) :: ρ'.drop (i + 1) ++ rest.flatten) := by
      rw [hb, List.flatten_cons]
      conv => lhs; rw [hsplit]
      simp only [List.append_assoc, List.cons_append]
    have hM : C - 1 = (ρ.drop (i + 1) ++ ρ'.take i).length := by
      simp only [List.length_append, List.length_drop, List.length_take, hρ, hρ']; omega
    obtain ⟨J1, hJ1, hmm⟩ := rl_memmoveChecked_left A J (ρ.drop (i + 1) ++ ρ'.take i)
      (ρ'[i]'(by omega) :: ρ'.drop (i + 1) ++ rest.flatten) src dest (C - 1) hs hd hM
    rw [← hbuf] at hmm
    obtain ⟨A', J', ρl, hρl, hJ', hloop, hres⟩ := rl_compactLoop_spec hi rest hrest
      (A ++ (ρ.drop (i + 1) ++ ρ'.take i)) (J1 ++ [ρ'[i]'(by omega)]) ρ'
      (A ++ (ρ.drop (i + 1) ++ ρ'.take i) ++ J1 ++ (ρ'[i]'(by omega) :: ρ'.drop (i + 1) ++ rest.flatten))
      (src + C) (dest + (C - 1)) hρ'
      (by simp only [List.append_assoc, List.cons_append, List.nil_append])
      (by simp only [List.length_append, List.length_cons, List.length_nil, hJ1, hs, ← hM]; omega)
      (by simp only [List.length_append, hd, ← hM])
    refine ⟨A', J', ρl, hρl, by simp only [hJ', List.length_append, List.length_cons, List.length_nil, hJ1]; omega, ?_, ?_⟩
    · simp only [List.length_cons, compactLoop, hmm, ok_bind]
      exact hloop
    · rw [hres, List.map_cons, List.flatten_cons, List.eraseIdx_eq_take_drop_succ]
      simp only [List.append_assoc]

/-! ### reading the cells a cursor stands for -/

theorem rl_readCell_ok (buf : List α) (p : Nat) (h : p < buf.length) : readCell buf p = .ok buf[p] := by
  simp [readCell, List.getElem?_eq_getElem h]

/-- `ptr::read` at positions that are all inside the buffer -/
theorem rl_mapM_readCell (buf : List α) : ∀ (ps : List Nat), (∀ p ∈ ps, p < buf.length) →
    ps.mapM (readCell buf) = .ok (ps.filterMap (buf[·]?))
  | [], _ => by simp
  | p :: ps, h => by
    have hp : p < buf.length := h p (by simp)
    have hps : ∀ q ∈ ps, q < buf.length := fun q hq => h q (by simp [hq])
    rw [List.mapM_cons, rl_readCell_ok buf p hp, ok_bind, rl_mapM_readCell buf ps hps, ok_bind]
    simp [List.getElem?_eq_getElem hp]

/-- the positions a well-formed column cursor stands for are inside the buffer -/
theorem rl_col_abs_lt (it : Col) (k n : Nat) (h : it.WF k n) : ∀ p ∈ it.abs k, p < n := by
  intro p hp
  simp only [Col.abs, List.mem_map, List.mem_range] at hp
  obtain ⟨j, hj, rfl⟩ := hp
  have hk : k ≠ 0 := by omega
  have hlen := h.len
  rw [if_neg hk] at hlen
  have := Nat.mul_le_mul_right (1 + it.skip) (show j ≤ k - 1 by omega)
  have := h.inside
  omega

/-- the cursor's slice has at least as many cells as the cursor has items -/
theorem rl_col_len_ge (it : Col) (k n : Nat) (h : it.WF k n) : k ≤ it.v.len := by
  have hlen := h.len
  by_cases hk : k = 0
  · omega
  · rw [if_neg hk] at hlen
    have := Nat.mul_le_mul_left (k - 1) (show 1 ≤ 1 + it.skip by omega)
    omega

/-- The whole compaction of `DrainCol::drop` on a buffer holding the rows `g` (each of `C` cells, at least one row):
    the loop followed by the final `ptr::copy` leaves the rows without column `i`, followed by one stale cell per row. -/
theorem rl_compact_total {C i : Nat} (hi : i < C) (g : List (List α)) (hg : ∀ ρ ∈ g, ρ.length = C) (hne : g ≠ []) :
    ∃ (buf : List α) (src dest : Nat) (J : List α),
      compactLoop C (C - 1) (g.length - 1) g.flatten (i + 1) i = .ok (buf, src, dest) ∧
      memmoveChecked buf src dest (C - i - 1) = .ok ((g.map fun ρ => ρ.eraseIdx i).flatten ++ J) ∧
      J.length = g.length := by
  match g, hne with
  | ρ :: rest, _ =>
    have hρ : ρ.length = C := hg ρ (by simp)
    have hrest : ∀ ρ' ∈ rest, ρ'.length = C := fun ρ' hm => hg ρ' (by simp [hm])
    have hsplit : ρ = ρ.take i ++ ρ[i]'(by omega) :: ρ.drop (i + 1) := by
      rw [← List.drop_eq_getElem_cons, List.take_append_drop]
    obtain ⟨A', J', ρl, hρl, hJ', hloop, hres⟩ := rl_compactLoop_spec hi rest hrest
      (ρ.take i) [ρ[i]'(by omega)] ρ (ρ :: rest).flatten (i + 1) i hρ
      (by rw [List.flatten_cons]; conv => lhs; rw [hsplit]
          simp only [List.append_assoc, List.cons_append, List.nil_append])
      (by simp only [List.length_take, List.length_cons, List.length_nil, hρ]; omega)
      (by simp only [List.length_take, hρ]; omega)
    obtain ⟨J2, hJ2, hmm⟩ := rl_memmoveChecked_left A' J' (ρl.drop (i + 1)) [] (A'.length + J'.length) A'.length
      (C - i - 1) rfl rfl (by simp only [List.length_drop, hρl]; omega)
    refine ⟨A' ++ J' ++ ρl.drop (i + 1), A'.length + J'.length, A'.length, J2, ?_, ?_, ?_⟩
    · simpa using hloop
    · simp only [List.append_nil] at hmm
      rw [hmm, hres, List.map_cons, List.flatten_cons, List.eraseIdx_eq_take_drop_succ]
    · simp only [hJ2, hJ', List.length_cons, List.length_nil]; omega

end Toodee
