import Toodee.Impl.Serde
import Toodee.Proofs.SerdeLemmas
/-
  What an accepted document looks like, exactly: only the three known keys, each dimension stated once, and the **last** `data`
  entry is the one that counts (a repeated `data` key overwrites).
-/
namespace Toodee
variable {α : Type}

private theorem filter_key_pos (k : String) (v : JVal) (rest : List (String × JVal)) :
    ((k, v) :: rest).filter (fun kv => kv.1 == k) = (k, v) :: rest.filter (fun kv => kv.1 == k) := by
  rw [List.filter_cons, if_pos (by simp)]

private theorem filter_key_neg {k k' : String} (hne : k ≠ k') (v : JVal) (rest : List (String × JVal)) :
    ((k, v) :: rest).filter (fun kv => kv.1 == k') = rest.filter (fun kv => kv.1 == k') := by
  rw [List.filter_cons, if_neg (by simpa using hne)]

/-- the visitor loop, for arbitrary accumulators, pins the document down: only the three keys occur; a dimension key occurs
    not at all (accumulator unchanged) or exactly once with an empty accumulator; the last `data` entry is what is kept. -/
theorem visitLoop_exact (dec : JVal → Option α) (kvs : List (String × JVal)) :
    ∀ (nc0 nr0 : Option Nat) (d0 : Option (List α)) (nc nr : Option Nat) (d : Option (List α)),
      visitLoop dec kvs nc0 nr0 d0 = some (nc, nr, d) →
      (∀ kv ∈ kvs, kv.1 = "num_cols" ∨ kv.1 = "num_rows" ∨ kv.1 = "data") ∧
      ((kvs.filter (fun kv => kv.1 == "num_cols") = [] ∧ nc = nc0) ∨
        (nc0 = none ∧ ∃ n, kvs.filter (fun kv => kv.1 == "num_cols") = [("num_cols", JVal.num n)] ∧ nc = some n)) ∧
      ((kvs.filter (fun kv => kv.1 == "num_rows") = [] ∧ nr = nr0) ∨
        (nr0 = none ∧ ∃ n, kvs.filter (fun kv => kv.1 == "num_rows") = [("num_rows", JVal.num n)] ∧ nr = some n)) ∧
      ((kvs.filter (fun kv => kv.1 == "data") = [] ∧ d = d0) ∨
        (∃ v xs, (kvs.filter (fun kv => kv.1 == "data")).getLast? = some ("data", v) ∧
          decVec dec v = some xs ∧ d = some xs)) := by
  have e12 : "num_cols" ≠ "num_rows" := by decide
  have e13 : "num_cols" ≠ "data" := by decide
  have e21 : "num_rows" ≠ "num_cols" := by decide
  have e23 : "num_rows" ≠ "data" := by decide
  have e31 : "data" ≠ "num_cols" := by decide
  have e32 : "data" ≠ "num_rows" := by decide
  induction kvs with
  | nil =>
    intro nc0 nr0 d0 nc nr d h
    simp only [visitLoop, Option.some.injEq, Prod.mk.injEq] at h
    obtain ⟨h1, h2, h3⟩ := h
    refine ⟨?_, .inl ⟨rfl, h1.symm⟩, .inl ⟨rfl, h2.symm⟩, .inl ⟨rfl, h3.symm⟩⟩
    intro kv hkv
    cases hkv
  | cons kv rest ih =>
    obtain ⟨k, v⟩ := kv
    intro nc0 nr0 d0 nc nr d h
    unfold visitLoop at h
    by_cases hk1 : k = "num_cols"
    · rw [if_pos hk1] at h
      by_cases hs : nc0.isSome = true
      · rw [if_pos hs] at h; cases h
      · rw [if_neg hs] at h
        cases hd : decUsize v with
        | none => rw [hd] at h; cases h
        | some n =>
          rw [hd] at h
          have hnc : nc0 = none := by cases nc0 <;> simp_all
          obtain ⟨hv, _⟩ := decUsize_eq_some hd
          obtain ⟨hkeys, a, b, c⟩ := ih _ _ _ _ _ _ h
          subst hk1; subst hv
          refine ⟨?_, ?_, ?_, ?_⟩
          · intro kv hkv
            rcases List.mem_cons.1 hkv with rfl | hm
            · exact .inl rfl
            · exact hkeys kv hm
          · rcases a with ⟨a1, a2⟩ | ⟨a1, _⟩
            · exact .inr ⟨hnc, n, by rw [filter_key_pos, a1], a2⟩
            · cases a1
          · rw [filter_key_neg e12]; exact b
          · rw [filter_key_neg e13]; exact c
    · rw [if_neg hk1] at h
      by_cases hk2 : k = "num_rows"
      · rw [if_pos hk2] at h
        by_cases hs : nr0.isSome = true
        · rw [if_pos hs] at h; cases h
        · rw [if_neg hs] at h
          cases hd : decUsize v with
          | none => rw [hd] at h; cases h
          | some n =>
            rw [hd] at h
            have hnr : nr0 = none := by cases nr0 <;> simp_all
            obtain ⟨hv, _⟩ := decUsize_eq_some hd
            obtain ⟨hkeys, a, b, c⟩ := ih _ _ _ _ _ _ h
            subst hk2; subst hv
            refine ⟨?_, ?_, ?_, ?_⟩
            · intro kv hkv
              rcases List.mem_cons.1 hkv with rfl | hm
              · exact .inr (.inl rfl)
              · exact hkeys kv hm
            · rw [filter_key_neg e21]; exact a
            · rcases b with ⟨b1, b2⟩ | ⟨b1, _⟩
              · exact .inr ⟨hnr, n, by rw [filter_key_pos, b1], b2⟩
              · cases b1
            · rw [filter_key_neg e23]; exact c
      · rw [if_neg hk2] at h
        by_cases hk3 : k = "data"
        · rw [if_pos hk3] at h
          cases hd : decVec dec v with
          | none => rw [hd] at h; cases h
          | some ys =>
            rw [hd] at h
            obtain ⟨hkeys, a, b, c⟩ := ih _ _ _ _ _ _ h
            subst hk3
            refine ⟨?_, ?_, ?_, ?_⟩
            · intro kv hkv
              rcases List.mem_cons.1 hkv with rfl | hm
              · exact .inr (.inr rfl)
              · exact hkeys kv hm
            · rw [filter_key_neg e31]; exact a
            · rw [filter_key_neg e32]; exact b
            · rw [filter_key_pos]
              rcases c with ⟨c1, c2⟩ | ⟨w, xs, c1, c2, c3⟩
              · exact .inr ⟨v, ys, by rw [c1]; rfl, hd, c2⟩
              · exact .inr ⟨w, xs, by rw [List.getLast?_cons, c1]; rfl, c2, c3⟩
        · rw [if_neg hk3] at h; cases h

theorem deserialize_exact (dec : JVal → Option α) (kvs : List (String × JVal)) (t : TD α)
    (h : deserialize dec (.obj kvs) = .ok t) :
    (∀ kv ∈ kvs, kv.1 = "num_cols" ∨ kv.1 = "num_rows" ∨ kv.1 = "data") ∧
    kvs.filter (fun kv => kv.1 == "num_cols") = [("num_cols", JVal.num t.numCols)] ∧
    kvs.filter (fun kv => kv.1 == "num_rows") = [("num_rows", JVal.num t.numRows)] ∧
    ∃ v, (kvs.filter (fun kv => kv.1 == "data")).getLast? = some ("data", v) ∧ decVec dec v = some t.data := by
  by_cases hex : ∃ nc nr data, visitLoop dec kvs none none none = some (some nc, some nr, some data)
  · obtain ⟨nc, nr, data, hv⟩ := hex
    rw [deserialize_of_visit dec kvs nc nr data hv] at h
    by_cases hc : nc * nr < WORD ∧ nc * nr = data.length ∧ (nc = 0 ↔ nr = 0)
    · rw [if_pos hc] at h
      cases h
      obtain ⟨hkeys, a, b, c⟩ := visitLoop_exact dec kvs _ _ _ _ _ _ hv
      refine ⟨hkeys, ?_, ?_, ?_⟩
      · rcases a with ⟨_, a2⟩ | ⟨_, n, a1, a2⟩
        · cases a2
        · cases a2; exact a1
      · rcases b with ⟨_, b2⟩ | ⟨_, n, b1, b2⟩
        · cases b2
        · cases b2; exact b1
      · rcases c with ⟨_, c2⟩ | ⟨w, xs, c1, c2, c3⟩
        · cases c2
        · cases c3; exact ⟨w, c1, c2⟩
    · rw [if_neg hc] at h; cases h
  · rw [deserialize_of_visit_incomplete dec kvs (fun nc nr data hv => hex ⟨nc, nr, data, hv⟩)] at h
    cases h

end Toodee
