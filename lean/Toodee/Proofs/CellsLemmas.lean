import Toodee.Spec.Cells
import Toodee.Proofs.Index
import Toodee.Properties.C08
/-
  Helper lemmas for the in-place operations (C04, C13 and the copy / sort / translate properties):

  * `gather`: length, `getElem?`, congruence, identity, composition;
  * `VW.coord?` / `VW.pos` are inverse to each other under `VW.Inv`;
  * `VW.mapCells`: value on cells / off cells, stays in range, congruence, composition;
  * `VW.updCells`: `getElem?`, congruence, composition; `writeWin` / `fillWin` of a row window as `updCells`;
  * `swapPosMap` / `swapWinMap` of cells / row windows as `mapCells`;
  * folding per-row operations over the rows;
  * `Acc.Of`: what `rows.nth` and `rows.collect` return.
-/
namespace Toodee
variable {α : Type}

/-! ### `filterMap` when every image is `some` -/

theorem filterMap_getElem?_of_isSome {β γ : Type} (f : β → Option γ) (l : List β)
    (h : ∀ x ∈ l, (f x).isSome) (i : Nat) : (l.filterMap f)[i]? = l[i]?.bind f := by
  induction l generalizing i with
  | nil => simp
  | cons x xs ih =>
    obtain ⟨y, hy⟩ := Option.isSome_iff_exists.1 (h x (by simp))
    rw [List.filterMap_cons_some hy]
    cases i with
    | zero => simp [hy]
    | succ i => simpa using ih (fun z hz => h z (by simp [hz])) i

theorem filterMap_length_of_isSome {β γ : Type} (f : β → Option γ) (l : List β)
    (h : ∀ x ∈ l, (f x).isSome) : (l.filterMap f).length = l.length := by
  induction l with
  | nil => simp
  | cons x xs ih =>
    obtain ⟨y, hy⟩ := Option.isSome_iff_exists.1 (h x (by simp))
    rw [List.filterMap_cons_some hy]
    simp [ih (fun z hz => h z (by simp [hz]))]

theorem filterMap_congr_mem {β γ : Type} {f g : β → Option γ} (l : List β)
    (h : ∀ x ∈ l, f x = g x) : l.filterMap f = l.filterMap g := by
  induction l with
  | nil => rfl
  | cons x xs ih =>
    have hx := h x (by simp)
    have ih' := ih (fun z hz => h z (by simp [hz]))
    simp only [List.filterMap_cons, hx, ih']

/-! ### `gather` -/

/-- a position map that stays inside the buffer keeps the length -/
theorem gather_length (buf : List α) (f : Nat → Nat) (hf : ∀ p, p < buf.length → f p < buf.length) :
    (gather buf f).length = buf.length := by
  unfold gather
  rw [filterMap_length_of_isSome, List.length_range]
  intro x hx
  have := hf x (List.mem_range.1 hx)
  simp [this]

/-- `new[p] = old[f p]` -/
theorem gather_getElem? (buf : List α) (f : Nat → Nat) (hf : ∀ p, p < buf.length → f p < buf.length)
    (p : Nat) : (gather buf f)[p]? = if p < buf.length then buf[f p]? else none := by
  unfold gather
  rw [filterMap_getElem?_of_isSome]
  · by_cases hp : p < buf.length <;> simp [hp]
  · intro x hx
    have := hf x (List.mem_range.1 hx)
    simp [this]

theorem gather_getElem?_lt (buf : List α) (f : Nat → Nat) (hf : ∀ p, p < buf.length → f p < buf.length)
    {p : Nat} (hp : p < buf.length) : (gather buf f)[p]? = buf[f p]? := by
  rw [gather_getElem? buf f hf, if_pos hp]

/-- two position maps that agree on the buffer give the same result -/
theorem gather_congr (buf : List α) (f g : Nat → Nat) (hfg : ∀ p, p < buf.length → f p = g p) :
    gather buf f = gather buf g := by
  unfold gather
  apply filterMap_congr_mem
  intro p hp
  rw [hfg p (List.mem_range.1 hp)]

/-- a position map that is the identity on the buffer changes nothing -/
theorem gather_eq_self (buf : List α) (f : Nat → Nat) (hf : ∀ p, p < buf.length → f p = p) :
    gather buf f = buf := by
  have hf' : ∀ p, p < buf.length → f p < buf.length := fun p hp => by rw [hf p hp]; exact hp
  apply List.ext_getElem?
  intro p
  rw [gather_getElem? buf f hf']
  by_cases hp : p < buf.length
  · rw [if_pos hp, hf p hp]
  · rw [if_neg hp]; exact (List.getElem?_eq_none (Nat.not_lt.1 hp)).symm

/-- composition: first permute by `f`, then by `g` -/
theorem gather_gather (buf : List α) (f g : Nat → Nat)
    (hf : ∀ p, p < buf.length → f p < buf.length) (hg : ∀ p, p < buf.length → g p < buf.length) :
    gather (gather buf f) g = gather buf (fun p => f (g p)) := by
  have hl := gather_length buf f hf
  apply List.ext_getElem?
  intro p
  rw [gather_getElem? (gather buf f) g (by rw [hl]; exact hg), hl,
    gather_getElem? buf (fun p => f (g p)) (fun q hq => hf _ (hg q hq))]
  by_cases hp : p < buf.length
  · rw [if_pos hp, if_pos hp, gather_getElem?_lt buf f hf (hg p hp)]
  · rw [if_neg hp, if_neg hp]

/-! ### windows -/

theorem Win.contains_iff (w : Win) (p : Nat) : w.contains p = true ↔ w.off ≤ p ∧ p < w.off + w.len := by
  simp [Win.contains]

theorem Win.contains_eq_false_iff (w : Win) (p : Nat) :
    w.contains p = false ↔ ¬ (w.off ≤ p ∧ p < w.off + w.len) := by
  rw [← Win.contains_iff]; simp

/-! ### `coord?` and `pos` -/

theorem VW.pos_zero_add (v : VW) (c r : Nat) : v.pos 0 r + c = v.pos c r := by simp [VW.pos]

/-- stride is positive as soon as there is a column -/
theorem VW.Inv.stride_pos {v : VW} {n : Nat} (h : v.Inv n) {c : Nat} (hc : c < v.numCols) : 0 < v.stride := by
  have := h.stride; omega

/-- the end of row `r` lies inside the borrowed slice -/
theorem VW.Inv.row_end_le {v : VW} {n : Nat} (h : v.Inv n) {r : Nat} (hr : r < v.numRows) :
    r * v.stride + v.numCols ≤ v.data.len := by
  have hl := h.len
  rw [if_neg (by omega)] at hl
  have := row_start_le v.stride hr
  omega

/-- a cell of the view lies inside the root buffer -/
theorem VW.pos_lt {v : VW} {n : Nat} (h : v.Inv n) {c r : Nat} (hc : c < v.numCols) (hr : r < v.numRows) :
    v.pos c r < n := by
  have := h.row_end_le hr
  have := h.inside
  unfold VW.pos; omega

/-- a row window of the view lies inside the root buffer -/
theorem VW.rowWin_inside {v : VW} {n : Nat} (h : v.Inv n) {r : Nat} (hr : r < v.numRows) :
    (v.rowWin r).off + (v.rowWin r).len ≤ n := by
  have := h.row_end_le hr
  have := h.inside
  simp only [VW.rowWin, VW.pos]; omega

/-- `coord?` inverts `pos` on the cells of the view -/
theorem VW.coord?_pos {v : VW} {n : Nat} (h : v.Inv n) {c r : Nat} (hc : c < v.numCols) (hr : r < v.numRows) :
    v.coord? (v.pos c r) = some (c, r) := by
  have hs := h.stride_pos hc
  have hcs : c < v.stride := Nat.lt_of_lt_of_le hc h.stride
  have hq : v.pos c r - v.data.off = v.stride * r + c := by
    unfold VW.pos; rw [Nat.mul_comm]; omega
  have hmod : (v.stride * r + c) % v.stride = c := by
    rw [Nat.mul_add_mod, Nat.mod_eq_of_lt hcs]
  have hdiv : (v.stride * r + c) / v.stride = r := by
    rw [Nat.mul_add_div hs, Nat.div_eq_of_lt hcs, Nat.add_zero]
  have hle : v.data.off ≤ v.pos c r := by unfold VW.pos; omega
  simp [VW.coord?, hle, hs, hq, hmod, hdiv, hc, hr]

/-- `pos` inverts `coord?` (no invariant needed) -/
theorem VW.coord?_eq_some {v : VW} {p c r : Nat} (h : v.coord? p = some (c, r)) :
    p = v.pos c r ∧ c < v.numCols ∧ r < v.numRows := by
  unfold VW.coord? at h
  by_cases h1 : v.data.off ≤ p ∧ 0 < v.stride
  · rw [if_pos h1] at h
    by_cases h2 : (p - v.data.off) % v.stride < v.numCols ∧ (p - v.data.off) / v.stride < v.numRows
    · simp only [h2, and_self, if_true, Option.some.injEq, Prod.mk.injEq] at h
      obtain ⟨hc, hr⟩ := h
      subst hc; subst hr
      refine ⟨?_, h2.1, h2.2⟩
      have := Nat.div_add_mod (p - v.data.off) v.stride
      rw [Nat.mul_comm] at this
      unfold VW.pos; omega
    · simp [h2] at h
  · rw [if_neg h1] at h; cases h

/-- `coord?` as an `iff` under the invariant -/
theorem VW.coord?_eq_some_iff {v : VW} {n : Nat} (h : v.Inv n) {p c r : Nat} :
    v.coord? p = some (c, r) ↔ p = v.pos c r ∧ c < v.numCols ∧ r < v.numRows := by
  constructor
  · exact VW.coord?_eq_some
  · rintro ⟨rfl, hc, hr⟩; exact VW.coord?_pos h hc hr

/-- `pos` is injective on the cells of the view -/
theorem VW.pos_inj {v : VW} {n : Nat} (h : v.Inv n) {c r c' r' : Nat} (hc : c < v.numCols) (hr : r < v.numRows)
    (hc' : c' < v.numCols) (hr' : r' < v.numRows) (he : v.pos c r = v.pos c' r') : c = c' ∧ r = r' := by
  have h1 := VW.coord?_pos h hc hr
  rw [he, VW.coord?_pos h hc' hr'] at h1
  simp only [Option.some.injEq, Prod.mk.injEq] at h1
  exact ⟨h1.1.symm, h1.2.symm⟩

/-- a position that is not a cell differs from every cell position -/
theorem VW.ne_pos_of_coord?_none {v : VW} {n : Nat} (h : v.Inv n) {p c r : Nat} (hp : v.coord? p = none)
    (hc : c < v.numCols) (hr : r < v.numRows) : p ≠ v.pos c r := by
  intro he; rw [he, VW.coord?_pos h hc hr] at hp; cases hp

/-- the positions of row window `r` are the cells `(c, r)` -/
theorem VW.rowWin_contains_iff (v : VW) (r p : Nat) :
    (v.rowWin r).contains p = true ↔ ∃ c, c < v.numCols ∧ p = v.pos c r := by
  rw [Win.contains_iff]
  simp only [VW.rowWin, VW.pos]
  constructor
  · rintro ⟨h1, h2⟩
    exact ⟨p - (v.data.off + r * v.stride + 0), by omega, by omega⟩
  · rintro ⟨c, hc, rfl⟩; omega

/-- cell `(c, r')` lies in row window `r` iff `r' = r` -/
theorem VW.rowWin_contains_pos {v : VW} {n : Nat} (h : v.Inv n) {r c r' : Nat} (hr : r < v.numRows)
    (hc : c < v.numCols) (hr' : r' < v.numRows) : (v.rowWin r).contains (v.pos c r') = true ↔ r' = r := by
  rw [VW.rowWin_contains_iff]
  constructor
  · rintro ⟨c2, hc2, he⟩; exact (VW.pos_inj h hc hr' hc2 hr he).2
  · rintro rfl; exact ⟨c, hc, rfl⟩

/-- a position that is not a cell lies in no row window -/
theorem VW.rowWin_contains_of_none {v : VW} {n : Nat} (h : v.Inv n) {r p : Nat} (hr : r < v.numRows)
    (hp : v.coord? p = none) : (v.rowWin r).contains p = false := by
  cases hb : (v.rowWin r).contains p
  · rfl
  · obtain ⟨c, hc, he⟩ := (VW.rowWin_contains_iff v r p).1 hb
    exact absurd he (VW.ne_pos_of_coord?_none h hp hc hr)

/-- `row[c]` (unchecked) of a row window is the cell `(c, r)` -/
theorem VW.rowWin_getIdx (v : VW) {c : Nat} (r : Nat) (hc : c < v.numCols) :
    (v.rowWin r).getIdx c = .ok (v.pos c r) := by
  rw [Win.getIdx_ok _ (by simpa [VW.rowWin] using hc)]
  simp [VW.rowWin, VW.pos]

/-- distinct row windows are disjoint -/
theorem VW.rowWin_disjoint {v : VW} {n : Nat} (h : v.Inv n) {r1 r2 : Nat} (hne : r1 ≠ r2) :
    Win.Disjoint (v.rowWin r1) (v.rowWin r2) := by
  have hs := h.stride
  simp only [Win.Disjoint, VW.rowWin, VW.pos]
  rcases Nat.lt_or_gt_of_ne hne with hlt | hgt
  · left
    have := Nat.mul_le_mul_right v.stride (Nat.succ_le_of_lt hlt)
    rw [Nat.succ_mul] at this; omega
  · right
    have := Nat.mul_le_mul_right v.stride (Nat.succ_le_of_lt hgt)
    rw [Nat.succ_mul] at this; omega

/-! ### `mapCells` -/

theorem VW.mapCells_of_none {v : VW} {p : Nat} (g : Nat × Nat → Nat × Nat) (hp : v.coord? p = none) :
    v.mapCells g p = p := by
  simp [VW.mapCells, hp]

theorem VW.mapCells_of_some {v : VW} {p : Nat} {cr : Nat × Nat} (g : Nat × Nat → Nat × Nat)
    (hp : v.coord? p = some cr) : v.mapCells g p = v.pos (g cr).1 (g cr).2 := by
  simp [VW.mapCells, hp]

/-- on a cell: the position of the image cell -/
theorem VW.mapCells_pos {v : VW} {n : Nat} (h : v.Inv n) (g : Nat × Nat → Nat × Nat) {c r : Nat}
    (hc : c < v.numCols) (hr : r < v.numRows) : v.mapCells g (v.pos c r) = v.pos (g (c, r)).1 (g (c, r)).2 :=
  VW.mapCells_of_some g (VW.coord?_pos h hc hr)

/-- a cell map that sends cells to cells keeps positions inside the buffer -/
theorem VW.mapCells_lt {v : VW} {n : Nat} (h : v.Inv n) (g : Nat × Nat → Nat × Nat)
    (hg : ∀ c r, c < v.numCols → r < v.numRows → (g (c, r)).1 < v.numCols ∧ (g (c, r)).2 < v.numRows)
    {p : Nat} (hp : p < n) : v.mapCells g p < n := by
  cases hq : v.coord? p with
  | none => rw [VW.mapCells_of_none g hq]; exact hp
  | some cr =>
    obtain ⟨c, r⟩ := cr
    obtain ⟨_, hc, hr⟩ := VW.coord?_eq_some hq
    rw [VW.mapCells_of_some g hq]
    exact VW.pos_lt h (hg c r hc hr).1 (hg c r hc hr).2

/-- only the values of the cell map on cells matter -/
theorem VW.mapCells_congr {v : VW} (g g' : Nat × Nat → Nat × Nat)
    (hgg : ∀ c r, c < v.numCols → r < v.numRows → g (c, r) = g' (c, r)) (p : Nat) :
    v.mapCells g p = v.mapCells g' p := by
  cases hq : v.coord? p with
  | none => rw [VW.mapCells_of_none g hq, VW.mapCells_of_none g' hq]
  | some cr =>
    obtain ⟨c, r⟩ := cr
    obtain ⟨_, hc, hr⟩ := VW.coord?_eq_some hq
    rw [VW.mapCells_of_some g hq, VW.mapCells_of_some g' hq, hgg c r hc hr]

/-- a cell map that fixes every cell is the identity position map -/
theorem VW.mapCells_eq_self {v : VW} (g : Nat × Nat → Nat × Nat)
    (hg : ∀ c r, c < v.numCols → r < v.numRows → g (c, r) = (c, r)) (p : Nat) : v.mapCells g p = p := by
  cases hq : v.coord? p with
  | none => rw [VW.mapCells_of_none g hq]
  | some cr =>
    obtain ⟨c, r⟩ := cr
    obtain ⟨he, hc, hr⟩ := VW.coord?_eq_some hq
    rw [VW.mapCells_of_some g hq, hg c r hc hr]; exact he.symm

/-- composition of position maps of cell maps -/
theorem VW.mapCells_comp {v : VW} {n : Nat} (h : v.Inv n) (f g : Nat × Nat → Nat × Nat)
    (hg : ∀ c r, c < v.numCols → r < v.numRows → (g (c, r)).1 < v.numCols ∧ (g (c, r)).2 < v.numRows)
    (p : Nat) : v.mapCells f (v.mapCells g p) = v.mapCells (fun cr => f (g cr)) p := by
  cases hq : v.coord? p with
  | none => rw [VW.mapCells_of_none g hq, VW.mapCells_of_none f hq, VW.mapCells_of_none _ hq]
  | some cr =>
    obtain ⟨c, r⟩ := cr
    obtain ⟨_, hc, hr⟩ := VW.coord?_eq_some hq
    rw [VW.mapCells_of_some g hq, VW.mapCells_of_some _ hq,
      VW.mapCells_pos h f (hg c r hc hr).1 (hg c r hc hr).2]

/-- `gather` with a cell permutation keeps the length -/
theorem gather_mapCells_length {v : VW} (buf : List α) (h : v.Inv buf.length) (g : Nat × Nat → Nat × Nat)
    (hg : ∀ c r, c < v.numCols → r < v.numRows → (g (c, r)).1 < v.numCols ∧ (g (c, r)).2 < v.numRows) :
    (gather buf (v.mapCells g)).length = buf.length :=
  gather_length buf _ (fun _ hp => VW.mapCells_lt h g hg hp)

/-- two cell permutations in a row: `new[(c,r)] = old[f (g (c,r))]` -/
theorem gather_mapCells_comp {v : VW} (buf : List α) (h : v.Inv buf.length) (f g : Nat × Nat → Nat × Nat)
    (hf : ∀ c r, c < v.numCols → r < v.numRows → (f (c, r)).1 < v.numCols ∧ (f (c, r)).2 < v.numRows)
    (hg : ∀ c r, c < v.numCols → r < v.numRows → (g (c, r)).1 < v.numCols ∧ (g (c, r)).2 < v.numRows) :
    gather (gather buf (v.mapCells f)) (v.mapCells g) = gather buf (v.mapCells (fun cr => f (g cr))) := by
  rw [gather_gather buf _ _ (fun _ hp => VW.mapCells_lt h f hf hp) (fun _ hp => VW.mapCells_lt h g hg hp)]
  exact gather_congr buf _ _ (fun p _ => VW.mapCells_comp h f g hg p)

/-! ### `ptr::swap` of two cells and `swap_with_slice` of two rows as cell permutations -/

/-- exchanging the contents of two cell positions is the cell transposition -/
theorem VW.swapPosMap_cells {v : VW} {n : Nat} (h : v.Inv n) {a b : Nat × Nat}
    (ha1 : a.1 < v.numCols) (ha2 : a.2 < v.numRows) (hb1 : b.1 < v.numCols) (hb2 : b.2 < v.numRows) (p : Nat) :
    swapPosMap (v.pos a.1 a.2) (v.pos b.1 b.2) p
      = v.mapCells (fun cr => if cr = a then b else if cr = b then a else cr) p := by
  cases hq : v.coord? p with
  | none =>
    rw [VW.mapCells_of_none _ hq]
    have h1 := VW.ne_pos_of_coord?_none h hq ha1 ha2
    have h2 := VW.ne_pos_of_coord?_none h hq hb1 hb2
    simp [swapPosMap, h1, h2]
  | some cr =>
    obtain ⟨c, r⟩ := cr
    obtain ⟨he, hc, hr⟩ := VW.coord?_eq_some hq
    rw [VW.mapCells_of_some _ hq]
    subst he
    unfold swapPosMap
    by_cases h1 : (c, r) = a
    · subst h1; simp
    · have h1' : v.pos c r ≠ v.pos a.1 a.2 := fun he =>
        h1 (Prod.ext (VW.pos_inj h hc hr ha1 ha2 he).1 (VW.pos_inj h hc hr ha1 ha2 he).2)
      by_cases h2 : (c, r) = b
      · subst h2; simp [h1, h1']
      · have h2' : v.pos c r ≠ v.pos b.1 b.2 := fun he =>
          h2 (Prod.ext (VW.pos_inj h hc hr hb1 hb2 he).1 (VW.pos_inj h hc hr hb1 hb2 he).2)
        simp [h1, h2, h1', h2']

/-- exchanging two distinct row windows is the row transposition -/
theorem VW.swapWinMap_rows {v : VW} {n : Nat} (h : v.Inv n) {r1 r2 : Nat} (hr1 : r1 < v.numRows)
    (hr2 : r2 < v.numRows) (hne : r1 ≠ r2) (p : Nat) :
    swapWinMap (v.rowWin r1) (v.rowWin r2) p = v.mapCells (fun cr => (cr.1, swapIdx r1 r2 cr.2)) p := by
  cases hq : v.coord? p with
  | none =>
    rw [VW.mapCells_of_none _ hq]
    simp [swapWinMap, VW.rowWin_contains_of_none h hr1 hq, VW.rowWin_contains_of_none h hr2 hq]
  | some cr =>
    obtain ⟨c, r⟩ := cr
    obtain ⟨he, hc, hr⟩ := VW.coord?_eq_some hq
    rw [VW.mapCells_of_some _ hq]
    subst he
    unfold swapWinMap
    by_cases h1 : r = r1
    · subst h1
      rw [if_pos ((VW.rowWin_contains_pos h hr hc hr).2 rfl)]
      simp only [swapIdx, if_true, VW.rowWin, VW.pos]; omega
    · have c1 : ¬ (v.rowWin r1).contains (v.pos c r) = true := fun hh =>
        h1 ((VW.rowWin_contains_pos h hr1 hc hr).1 hh)
      rw [if_neg c1]
      by_cases h2 : r = r2
      · subst h2
        rw [if_pos ((VW.rowWin_contains_pos h hr hc hr).2 rfl)]
        simp only [swapIdx, if_neg h1, if_true, VW.rowWin, VW.pos]; omega
      · have c2 : ¬ (v.rowWin r2).contains (v.pos c r) = true := fun hh =>
          h2 ((VW.rowWin_contains_pos h hr2 hc hr).1 hh)
        rw [if_neg c2]
        simp [swapIdx, h1, h2]

theorem swapIdx_comm (a b i : Nat) : swapIdx a b i = swapIdx b a i := by
  unfold swapIdx
  by_cases h1 : i = a
  · by_cases h2 : i = b
    · rw [if_pos h1, if_pos h2, ← h1, ← h2]
    · rw [if_pos h1, if_neg h2, if_pos h1]
  · by_cases h2 : i = b
    · rw [if_neg h1, if_pos h2, if_pos h2]
    · rw [if_neg h1, if_neg h2, if_neg h2, if_neg h1]

theorem swapIdx_self (a i : Nat) : swapIdx a a i = i := by
  unfold swapIdx
  by_cases h1 : i = a <;> simp [h1]

theorem swapIdx_lt {a b i k : Nat} (ha : a < k) (hb : b < k) (hi : i < k) : swapIdx a b i < k := by
  unfold swapIdx
  split
  · exact hb
  · split
    · exact ha
    · exact hi

/-! ### `updCells` -/

theorem VW.updCells_length (v : VW) (buf : List α) (f : Nat × Nat → Option α) :
    (v.updCells buf f).length = buf.length := by
  simp [VW.updCells]

theorem VW.updCells_getElem? (v : VW) (buf : List α) (f : Nat × Nat → Option α) (p : Nat) :
    (v.updCells buf f)[p]? = buf[p]?.map fun x =>
      match v.coord? p with
      | some cr => (f cr).getD x
      | none => x := by
  unfold VW.updCells
  rw [List.getElem?_mapIdx]
  cases buf[p]? <;> cases v.coord? p <;> rfl

/-- positions that are not cells keep their content -/
theorem VW.updCells_of_none {v : VW} (buf : List α) (f : Nat × Nat → Option α) {p : Nat}
    (hp : v.coord? p = none) : (v.updCells buf f)[p]? = buf[p]? := by
  rw [VW.updCells_getElem?]; simp [hp]

/-- cell `(c,r)` becomes `f (c,r)` when that is `some`, else is kept -/
theorem VW.updCells_pos {v : VW} (buf : List α) (h : v.Inv buf.length) (f : Nat × Nat → Option α) {c r : Nat}
    (hc : c < v.numCols) (hr : r < v.numRows) :
    (v.updCells buf f)[v.pos c r]? = (match f (c, r) with | some x => some x | none => buf[v.pos c r]?) := by
  have hlt := VW.pos_lt h hc hr
  rw [VW.updCells_getElem?, VW.coord?_pos h hc hr, List.getElem?_eq_getElem hlt]
  cases hf : f (c, r) <;> simp [hf]

/-- only the values of the cell function on cells matter -/
theorem VW.updCells_congr (v : VW) (buf : List α) (f f' : Nat × Nat → Option α)
    (hff : ∀ c r, c < v.numCols → r < v.numRows → f (c, r) = f' (c, r)) :
    v.updCells buf f = v.updCells buf f' := by
  apply List.ext_getElem?
  intro p
  rw [VW.updCells_getElem?, VW.updCells_getElem?]
  cases hq : v.coord? p with
  | none => rfl
  | some cr =>
    obtain ⟨c, r⟩ := cr
    obtain ⟨_, hc, hr⟩ := VW.coord?_eq_some hq
    simp only [hff c r hc hr]

/-- overwriting nothing changes nothing -/
theorem VW.updCells_none (v : VW) (buf : List α) : v.updCells buf (fun _ => none) = buf := by
  apply List.ext_getElem?
  intro p
  rw [VW.updCells_getElem?]
  cases v.coord? p <;> cases buf[p]? <;> simp

/-- two overwrites in a row: the later one wins -/
theorem VW.updCells_updCells (v : VW) (buf : List α) (f1 f2 : Nat × Nat → Option α) :
    v.updCells (v.updCells buf f1) f2 = v.updCells buf (fun cr => (f2 cr).or (f1 cr)) := by
  apply List.ext_getElem?
  intro p
  rw [VW.updCells_getElem?, VW.updCells_getElem?, VW.updCells_getElem?]
  cases v.coord? p with
  | none => cases buf[p]? <;> simp
  | some cr => cases buf[p]? <;> cases f2 cr <;> simp

/-! ### `writeWin` / `fillWin` -/

theorem writeWin_length_of_inside (buf : List α) (w : Win) (vals : List α) (hin : w.off + w.len ≤ buf.length)
    (hv : vals.length = w.len) : (writeWin buf w vals).length = buf.length := by
  simp [writeWin, hv, Nat.min_eq_left (show w.off ≤ buf.length by omega)]; omega

/-- cells inside the window come from `vals`, the others are kept -/
theorem writeWin_getElem?_contains (buf : List α) (w : Win) (vals : List α) (hin : w.off + w.len ≤ buf.length)
    (hv : vals.length = w.len) (p : Nat) :
    (writeWin buf w vals)[p]? = if w.contains p then vals[p - w.off]? else buf[p]? := by
  have hmin : min w.off buf.length = w.off := Nat.min_eq_left (by omega)
  unfold writeWin
  by_cases hc : w.contains p = true
  · rw [if_pos hc]
    obtain ⟨h1, h2⟩ := (Win.contains_iff w p).1 hc
    rw [List.getElem?_append_left (by simp [hmin, hv]; omega),
      List.getElem?_append_right (by simp [hmin]; omega)]
    simp [hmin]
  · rw [if_neg hc]
    have hc' := (Win.contains_eq_false_iff w p).1 (by simpa using hc)
    by_cases h1 : p < w.off
    · rw [List.getElem?_append_left (by simp [hmin]; omega),
        List.getElem?_append_left (by simp [hmin]; omega), List.getElem?_take, if_pos h1]
    · rw [List.getElem?_append_right (by simp [hmin, hv]; omega), List.getElem?_drop]
      simp only [List.length_append, List.length_take, hmin, hv]
      congr 1; omega

/-- writing a whole row is an overwrite of the cells of that row -/
theorem VW.writeWin_row {v : VW} (buf : List α) (h : v.Inv buf.length) {r : Nat} (hr : r < v.numRows)
    (vals : List α) (hv : vals.length = v.numCols) :
    writeWin buf (v.rowWin r) vals = v.updCells buf (fun cr => if cr.2 = r then vals[cr.1]? else none) := by
  apply List.ext_getElem?
  intro p
  rw [writeWin_getElem?_contains buf _ vals (VW.rowWin_inside h hr) hv]
  cases hq : v.coord? p with
  | none =>
    rw [VW.updCells_of_none _ _ hq, VW.rowWin_contains_of_none h hr hq]; simp
  | some cr =>
    obtain ⟨c, r'⟩ := cr
    obtain ⟨he, hc, hr'⟩ := VW.coord?_eq_some hq
    subst he
    rw [VW.updCells_pos buf h _ hc hr']
    by_cases h1 : r' = r
    · subst h1
      rw [if_pos ((VW.rowWin_contains_pos h hr' hc hr').2 rfl)]
      have : v.pos c r' - (v.rowWin r').off = c := by simp only [VW.rowWin, VW.pos]; omega
      rw [this, List.getElem?_eq_getElem (by omega)]
      simp
    · have c1 : ¬ (v.rowWin r).contains (v.pos c r') = true := fun hh =>
        h1 ((VW.rowWin_contains_pos h hr hc hr').1 hh)
      rw [if_neg c1]; simp [h1]

/-- `row.fill(x)` is an overwrite of the cells of that row -/
theorem VW.fillWin_row {v : VW} (buf : List α) (h : v.Inv buf.length) {r : Nat} (hr : r < v.numRows) (x : α) :
    fillWin buf (v.rowWin r) x = v.updCells buf (fun cr => if cr.2 = r then some x else none) := by
  unfold fillWin
  rw [VW.writeWin_row buf h hr _ (by simp [VW.rowWin])]
  apply VW.updCells_congr
  intro c r' hc _
  simp [VW.rowWin, hc]

/-! ### folding a per-row operation over the rows -/

/-- per-row overwrites of rows `0 … k-1`, one after the other, are one overwrite -/
theorem VW.foldl_rows_upd {v : VW} {n : Nat} (step : List α → Nat → List α) (F : Nat × Nat → Option α)
    (hstep : ∀ b r, b.length = n → r < v.numRows →
      step b r = v.updCells b (fun cr => if cr.2 = r then F cr else none))
    (buf : List α) (hlen : buf.length = n) (k : Nat) (hk : k ≤ v.numRows) :
    (List.range k).foldl step buf = v.updCells buf (fun cr => if cr.2 < k then F cr else none) := by
  induction k with
  | zero =>
    have : (fun cr : Nat × Nat => if cr.2 < 0 then F cr else none) = fun _ => none := by
      funext cr; simp
    rw [this, VW.updCells_none]; rfl
  | succ k ih =>
    rw [List.range_succ, List.foldl_append, ih (by omega), List.foldl_cons, List.foldl_nil,
      hstep _ k (by rw [VW.updCells_length]; exact hlen) (by omega), VW.updCells_updCells]
    congr 1
    funext cr
    by_cases h1 : cr.2 = k
    · rw [if_pos h1, if_neg (by omega), if_pos (by omega), Option.or_none]
    · rw [if_neg h1, Option.none_or]
      by_cases h2 : cr.2 < k
      · rw [if_pos h2, if_pos (by omega)]
      · rw [if_neg h2, if_neg (by omega)]

/-- per-row permutations (new column `γ (c,r)` within row `r`) of rows `0 … k-1`, one after the other, are one cell
    permutation -/
theorem VW.foldlM_rows_perm {v : VW} {n : Nat} (h : v.Inv n) (step : List α → Nat → Res (List α))
    (γ : Nat × Nat → Nat) (hγ : ∀ c r, c < v.numCols → r < v.numRows → γ (c, r) < v.numCols)
    (hstep : ∀ b r, b.length = n → r < v.numRows →
      step b r = .ok (gather b (v.mapCells (fun cr => if cr.2 = r then (γ cr, cr.2) else cr))))
    (buf : List α) (hlen : buf.length = n) (k : Nat) (hk : k ≤ v.numRows) :
    (List.range k).foldlM step buf
      = .ok (gather buf (v.mapCells (fun cr => if cr.2 < k then (γ cr, cr.2) else cr))) := by
  subst hlen
  have hin : ∀ (P : Nat × Nat → Prop) [DecidablePred P] (c r : Nat), c < v.numCols → r < v.numRows →
      ((fun cr : Nat × Nat => if P cr then (γ cr, cr.2) else cr) (c, r)).1 < v.numCols ∧
      ((fun cr : Nat × Nat => if P cr then (γ cr, cr.2) else cr) (c, r)).2 < v.numRows := by
    intro P _ c r hc hr
    by_cases hp : P (c, r)
    · simp only [if_pos hp]; exact ⟨hγ c r hc hr, hr⟩
    · simp only [if_neg hp]; exact ⟨hc, hr⟩
  induction k with
  | zero =>
    rw [gather_eq_self]
    · rfl
    · intro p _
      apply VW.mapCells_eq_self
      intro c r _ _; simp
  | succ k ih =>
    rw [List.range_succ, List.foldlM_append, ih (by omega)]
    simp only [ok_bind, List.foldlM_cons, List.foldlM_nil]
    rw [hstep _ k (gather_mapCells_length buf h _ (hin (fun cr => cr.2 < k))) (by omega)]
    simp only [ok_bind, pure_eq]
    rw [gather_mapCells_comp buf h _ _ (hin (fun cr => cr.2 < k)) (hin (fun cr => cr.2 = k))]
    congr 1
    apply gather_congr
    intro p _
    apply VW.mapCells_congr
    intro c r _ _
    by_cases h1 : r = k
    · subst h1; simp
    · by_cases h2 : r < k
      · simp [h1, h2, Nat.lt_succ_of_lt h2]
      · simp [h1, h2, show ¬ r < k + 1 by omega]

/-! ### row cursors standing for the rows of a view; `Acc.Of` -/

theorem cells_map_range_getElem? {β : Type} (f : Nat → β) (k j : Nat) :
    ((List.range k).map f)[j]? = if j < k then some (f j) else none := by
  by_cases h : j < k <;> simp [h]

theorem cells_map_range_drop {β : Type} (f : Nat → β) (k j : Nat) :
    ((List.range k).map f).drop j = (List.range (k - j)).map (fun i => f (j + i)) := by
  apply List.ext_getElem?
  intro i
  rw [List.getElem?_drop, cells_map_range_getElem?, cells_map_range_getElem?]
  by_cases h : i < k - j
  · rw [if_pos h, if_pos (by omega)]
  · rw [if_neg h, if_neg (by omega)]

/-- the cursor `it` stands for the rows `r0, r0+1, …, numRows-1` of the view `v` (root buffer of `n` cells) -/
structure RowsFrom (v : VW) (n : Nat) (it : Rows) (r0 : Nat) : Prop where
  wf : it.WF (v.numRows - r0) n
  abs : it.abs (v.numRows - r0) = (List.range (v.numRows - r0)).map fun j => v.rowWin (r0 + j)

/-- `nth(j)` on a cursor standing for rows `r0…`: row `r0 + j` (or `None`), leaving rows `r0 + j + 1 …` -/
theorem RowsFrom.nth {v : VW} {n : Nat} {it : Rows} {r0 : Nat} (m : Mode) (h : RowsFrom v n it r0)
    (j : Nat) (hj : j < WORD) :
    ∃ it', it.nth m j = .ok (if r0 + j < v.numRows then some (v.rowWin (r0 + j)) else none, it') ∧
      RowsFrom v n it' (r0 + j + 1) := by
  obtain ⟨it', he, hwf, habs⟩ := C08_nth m it (v.numRows - r0) n h.wf j hj
  have hk : v.numRows - r0 - (j + 1) = v.numRows - (r0 + j + 1) := by omega
  refine ⟨it', ?_, ?_, ?_⟩
  · rw [he, h.abs]
    simp only [Seq.nth, cells_map_range_getElem?]
    by_cases hlt : r0 + j < v.numRows
    · rw [if_pos hlt, if_pos (by omega)]
    · rw [if_neg hlt, if_neg (by omega)]
  · rw [← hk]; exact hwf
  · rw [← hk, habs, h.abs]
    simp only [Seq.nth, cells_map_range_drop]
    apply List.map_congr_left
    intro i _
    congr 1; omega

/-- `fold`/`for` over a cursor standing for rows `r0…` visits exactly those row windows, in order -/
theorem RowsFrom.collect {v : VW} {n : Nat} {it : Rows} {r0 : Nat} (h : RowsFrom v n it r0) :
    it.collect (it.v.len + 2) = .ok ((List.range (v.numRows - r0)).map fun j => v.rowWin (r0 + j)) := by
  rw [← h.abs]
  apply C08_fold it _ n h.wf
  have hl := h.wf.len
  by_cases hk : v.numRows - r0 = 0
  · omega
  · rw [if_neg hk] at hl
    have hc := h.wf.cols_pos hk
    have : v.numRows - r0 - 1 ≤ (v.numRows - r0 - 1) * (it.cols + it.skip) :=
      Nat.le_mul_of_pos_right _ (by omega)
    omega

theorem Acc.Of.rowsFrom {a : Acc} {v : VW} {n : Nat} (ha : a.Of v n) : RowsFrom v n a.rows 0 := by
  refine ⟨ha.wf, ?_⟩
  rw [Nat.sub_zero, ha.abs]
  apply List.map_congr_left
  intro r _
  simp [VW.rowWin]

/-- `rows_mut().nth(r)` of a receiver: the window of row `r` (or `None`), leaving the rows below it -/
theorem Acc.Of.nth_row {a : Acc} {v : VW} {n : Nat} (m : Mode) (ha : a.Of v n) (r : Nat) (hr : r < WORD) :
    ∃ it', a.rows.nth m r = .ok (if r < v.numRows then some (v.rowWin r) else none, it') ∧
      RowsFrom v n it' (r + 1) := by
  simpa using ha.rowsFrom.nth m r hr

/-- `for r in rows_mut()` of a receiver visits the row windows top to bottom -/
theorem Acc.Of.collect_rows {a : Acc} {v : VW} {n : Nat} (ha : a.Of v n) :
    a.rows.collect (a.rows.v.len + 2) = .ok ((List.range v.numRows).map v.rowWin) := by
  rw [ha.rowsFrom.collect, Nat.sub_zero]
  congr 1
  apply List.map_congr_left
  intro r _
  simp

/-- the two row windows `rows_mut().nth(r1)` and then `.nth(r2 - r1 - 1)` hand out, for `r1 < r2` -/
theorem Acc.Of.nth_row_pair {a : Acc} {v : VW} {n : Nat} (m : Mode) (ha : a.Of v n) {r1 r2 : Nat}
    (hlt : r1 < r2) (hr2 : r2 < WORD) :
    ∃ it' it'', a.rows.nth m r1 = .ok (if r1 < v.numRows then some (v.rowWin r1) else none, it') ∧
      it'.nth m (r2 - r1 - 1) = .ok (if r2 < v.numRows then some (v.rowWin r2) else none, it'') := by
  obtain ⟨it', h1, hf⟩ := ha.nth_row m r1 (by omega)
  obtain ⟨it'', h2, _⟩ := hf.nth m (r2 - r1 - 1) (by omega)
  have he : r1 + 1 + (r2 - r1 - 1) = r2 := by omega
  rw [he] at h2
  exact ⟨it', it'', h1, h2⟩

end Toodee
