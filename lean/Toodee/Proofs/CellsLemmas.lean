import Toodee.Spec.Cells
import Toodee.Proofs.Index
import Toodee.Properties.C08
/-
  Helper lemmas for the in-place operations (C04, C13 and the copy / sort / translate properties):

  * `gather`: length, `getElem?`, congruence, identity, composition;
  * `VW.coord?` / `VW.pos` are inverse to each other under `VW.Inv`;
  * `VW.mapCells`: value on cells / off cells, stays in range, congruence, composition;
  * `VW.updCells`: `getElem?`, congruence, composition; `writeWin` / `fillWin` of a row window as `updCells`;
  * `swapPosMap` / `swapWinMap` of cells / row windows as `mapCells`;
  * folding per-row operations over the rows;
  * `Acc.Of`: what `rows.nth` and `rows.collect` return.
-/
namespace Toodee
variable {α : Type}

/-! ### `filterMap` when every image is `some` -/

theorem filterMap_getElem?_of_isSome {β γ : Type} (f : β → Option γ) (l : List β)
    (h : ∀ x ∈ l, (f x).isSome) (i : Nat) : (l.filterMap f)[i]? = l[i]?.bind f := by
  induction l generalizing i with
  | nil => simp
  | cons x xs ih =>
    obtain ⟨y, hy⟩ := Option.isSome_iff_exists.1 (h x (by simp))
    rw [List.filterMap_cons_some hy]
    cases i with
    | zero => simp [hy]
    | succ i => simpa using ih (fun z hz => h z (by simp [hz])) i

theorem filterMap_length_of_isSome {β γ : Type} (f : β → Option γ) (l : List β)
    (h : ∀ x ∈ l, (f x).isSome) : (l.filterMap f).length = l.length := by
  induction l with
  | nil => simp
  | cons x xs ih =>
    obtain ⟨y, hy⟩ := Option.isSome_iff_exists.1 (h x (by simp))
    rw [List.filterMap_cons_some hy]
    simp [ih (fun z hz => h z (by simp [hz]))]

theorem filterMap_congr_mem {β γ : Type} {f g : β → Option γ} (l : List β)
    (h : ∀ x ∈ l, f x = g x) : l.filterMap f = l.filterMap g := by
  induction l with
  | nil => rfl
  | cons x xs ih =>
    have hx := h x (by simp)
    have ih' := ih (fun z hz => h z (by simp [hz]))
    simp only [List.filterMap_cons, hx, ih']

/-! ### `gather` -/

/-- a position map that stays inside the buffer keeps the length -/
theorem gather_length (buf : List α) (f : Nat → Nat) (hf : ∀ p, p < buf.length → f p < buf.length) :
    (gather buf f).length = buf.length := by
  unfold gather
  rw [filterMap_length_of_isSome, List.length_range]
  intro x hx
  have := hf x (List.mem_range.1 hx)
  simp [this]

/-- `new[p] = old[f p]` -/
theorem gather_getElem? (buf : List α) (f : Nat → Nat) (hf : ∀ p, p < buf.length → f p < buf.length)
    (p : Nat) : (gather buf f)[p]? = if p < buf.length then buf[f p]? else none := by
  unfold gather
  rw [filterMap_getElem?_of_isSome]
  · by_cases hp : p < buf.length <;> simp [hp]
  · intro x hx
    have := hf x (List.mem_range.1 hx)
    simp [this]

theorem gather_getElem?_lt (buf : List α) (f : Nat → Nat) (hf : ∀ p, p < buf.length → f p < buf.length)
    {p : Nat} (hp : p < buf.length) : (gather buf f)[p]? = buf[f p]? := by
  rw [gather_getElem? buf f hf, if_pos hp]

/-- two position maps that agree on the buffer give the same result -/
theorem gather_congr (buf : List α) (f g : Nat → Nat) (hfg : ∀ p, p < buf.length → f p = g p) :
    gather buf f = gather buf g := by
  unfold gather
  apply filterMap_congr_mem
  intro p hp
  rw [hfg p (List.mem_range.1 hp)]

/-- a position map that is the identity on the buffer changes nothing -/
theorem gather_eq_self (buf : List α) (f : Nat → Nat) (hf : ∀ p, p < buf.length → f p = p) :
    gather buf f = buf := by
  have hf' : ∀ p, p < buf.length → f p < buf.length := fun p hp => by rw [hf p hp]; exact hp
  apply List.ext_getElem?
  intro p
  rw [gather_getElem? buf f hf']
  by_cases hp : p < buf.length
  · rw [if_pos hp, hf p hp]
  · rw [if_neg hp]; exact (List.getElem?_eq_none (Nat.not_lt.1 hp)).symm

/-- composition: first permute by `f`, then by `g` -/
theorem gather_gather (buf : List α) (f g : Nat → Nat)
    (hf : ∀ p, p < buf.length → f p < buf.length) (hg : ∀ p, p < buf.length → g p < buf.length) :
    gather (gather buf f) g = gather buf (fun p => f (g p)) := by
  have hl := gather_length buf f hf
  apply List.ext_getElem?
  intro p
  rw [gather_getElem? (gather buf f) g (by rw [hl]; exact hg), hl,
    gather_getElem? buf (fun p => f (g p)) (fun q hq => hf _ (hg q hq))]
  by_cases hp : p < buf.length
  · rw [if_pos hp, if_pos hp, gather_getElem?_lt buf f hf (hg p hp)]
  · rw [if_neg hp, if_neg hp]

/-! ### windows -/

theorem Win.contains_iff (w : Win) (p : Nat) : w.contains p = true ↔ w.off ≤ p ∧ p < w.off + w.len := by
  simp [Win.contains]

theorem Win.contains_eq_false_iff (w : Win) (p : Nat) :
    w.contains p = false ↔ ¬ (w.off ≤ p ∧ p < w.off + w.len) := by
  rw [← Win.contains_iff]; simp

/-! ### `coord?` and `pos` -/

theorem VW.pos_zero_add (v : VW) (c r : Nat) : v.pos 0 r + c = v.pos c r := by simp [VW.pos]

/-- stride is positive as soon as there is a column -/
theorem VW.Inv.stride_pos {v : VW} {n : Nat} (h : v.Inv n) {c : Nat} (hc : c < v.numCols) : 0 < v.stride := by
  have := h.stride; omega

/-- the end of row `r` lies inside the borrowed slice -/
theorem VW.Inv.row_end_le {v : VW} {n : Nat} (h : v.Inv n) {r : Nat} (hr : r < v.numRows) :
    r * v.stride + v.numCols ≤ v.data.len := by
  have hl := h.len
  rw [if_neg (by omega)] at hl
  have := row_start_le v.stride hr
  omega

/-- a cell of the view lies inside the root buffer -/
theorem VW.pos_lt {v : VW} {n : Nat} (h : v.Inv n) {c r : Nat} (hc : c < v.numCols) (hr : r < v.numRows) :
    v.pos c r < n := by
  have := h.row_end_le hr
  have := h.inside
  unfold VW.pos; omega

/-- a row window of the view lies inside the root buffer -/
theorem VW.rowWin_inside {v : VW} {n : Nat} (h : v.Inv n) {r : Nat} (hr : r < v.numRows) :
    (v.rowWin r).off + (v.rowWin r).len ≤ n := by
  have := h.row_end_le hr
  have := h.inside
  simp only [VW.rowWin, VW.pos]; omega

/-- `coord?` inverts `pos` on the cells of the view -/
theorem VW.coord?_pos {v : VW} {n : Nat} (h : v.Inv n) {c r : Nat} (hc : c < v.numCols) (hr : r < v.numRows) :
    v.coord? (v.pos c r) = some (c, r) := by
  have hs := h.stride_pos hc
  have hcs : c < v.stride := Nat.lt_of_lt_of_le hc h.stride
  have hq : v.pos c r - v.data.off = v.stride * r + c := by
    unfold VW.pos; rw [Nat.mul_comm]; omega
  have hmod : (v.stride * r + c) % v.stride = c := by
    rw [Nat.mul_add_mod, Nat.mod_eq_of_lt hcs]
  have hdiv : (v.stride * r + c) / v.stride = r := by
    rw [Nat.mul_add_div hs, Nat.div_eq_of_lt hcs, Nat.add_zero]
  have hle : v.data.off ≤ v.pos c r := by unfold VW.pos; omega
  simp [VW.coord?, hle, hs, hq, hmod, hdiv, hc, hr]

/-- `pos` inverts `coord?` (no invariant needed) -/
theorem VW.coord?_eq_some {v : VW} {p c r : Nat} (h : v.coord? p = some (c, r)) :
    p = v.pos c r ∧ c < v.numCols ∧ r < v.numRows := by
  unfold VW.coord? at h
  by_cases h1 : v.data.off ≤ p ∧ 0 < v.stride
  · rw [if_pos h1] at h
    by_cases h2 : (p - v.data.off) % v.stride < v.numCols ∧ (p - v.data.off) / v.stride < v.numRows
    · simp only [h2, and_self, if_true, Option.some.injEq, Prod.mk.injEq] at h
      obtain ⟨hc, hr⟩ := h
      subst hc; subst hr
      refine ⟨?_, h2.1, h2.2⟩
      have := Nat.div_add_mod (p - v.data.off) v.stride
      rw [Nat.mul_comm] at this
      unfold VW.pos; omega
    · simp [h2] at h
  · rw [if_neg h1] at h; cases h

/-- `coord?` as an `iff` under the invariant -/
theorem VW.coord?_eq_some_iff {v : VW} {n : Nat} (h : v.Inv n) {p c r : Nat} :
    v.coord? p = some (c, r) ↔ p = v.pos c r ∧ c < v.numCols ∧ r < v.numRows := by
  constructor
  · exact VW.coord?_eq_some
  · rintro ⟨rfl, hc, hr⟩; exact VW.coord?_pos h hc hr

/-- `pos` is injective on the cells of the view -/
theorem VW.pos_inj {v : VW} {n : Nat} (h : v.Inv n) {c r c' r' : Nat} (hc : c < v.numCols) (hr : r < v.numRows)
    (hc' : c' < v.numCols) (hr' : r' < v.numRows) (he : v.pos c r = v.pos c' r') : c = c' ∧ r = r' := by
  have h1 := VW.coord?_pos h hc hr
  rw [he, VW.coord?_pos h hc' hr'] at h1
  simp only [Option.some.injEq, Prod.mk.injEq] at h1
  exact ⟨h1.1.symm, h1.2.symm⟩

/-- a position that is not a cell differs from every cell position -/
theorem VW.ne_pos_of_coord?_none {v : VW} {n : Nat} (h : v.Inv n) {p c r : Nat} (hp : v.coord? p = none)
    (hc : c < v.numCols) (hr : r < v.numRows) : p ≠ v.pos c r := by
  intro he; rw [he, VW.coord?_pos h hc hr] at hp; cases hp

/-- the positions of row window `r` are the cells `(c, r)` -/
theorem VW.rowWin_contains_iff {v : VW} {n : Nat} (h : v.Inv n) {r : Nat} (hr : r < v.numRows) (p : Nat) :
    (v.rowWin r).contains p = true ↔ ∃ c, c < v.numCols ∧ p = v.pos c r := by
  rw [Win.contains_iff]
  simp only [VW.rowWin, VW.pos]
  constructor
  · rintro ⟨h1, h2⟩
    exact ⟨p - (v.data.off + r * v.stride + 0), by omega, by omega⟩
  · rintro ⟨c, hc, rfl⟩; omega

/-- cell `(c, r')` lies in row window `r` iff `r' = r` -/
theorem VW.rowWin_contains_pos {v : VW} {n : Nat} (h : v.Inv n) {r c r' : Nat} (hr : r < v.numRows)
    (hc : c < v.numCols) (hr' : r' < v.numRows) : (v.rowWin r).contains (v.pos c r') = true ↔ r' = r := by
  rw [VW.rowWin_contains_iff h hr]
  constructor
  · rintro ⟨c2, hc2, he⟩; exact (VW.pos_inj h hc hr' hc2 hr he).2
  · rintro rfl; exact ⟨c, hc, rfl⟩

/-- a position that is not a cell lies in no row window -/
theorem VW.rowWin_contains_of_none {v : VW} {n : Nat} (h : v.Inv n) {r p : Nat} (hr : r < v.numRows)
    (hp : v.coord? p = none) : (v.rowWin r).contains p = false := by
  cases hb : (v.rowWin r).contains p
  · rfl
  · obtain ⟨c, hc, he⟩ := (VW.rowWin_contains_iff h hr p).1 hb
    exact absurd he (VW.ne_pos_of_coord?_none h hp hc hr)

/-- distinct row windows are disjoint -/
theorem VW.rowWin_disjoint {v : VW} {n : Nat} (h : v.Inv n) {r1 r2 : Nat} (hne : r1 ≠ r2) :
    Win.Disjoint (v.rowWin r1) (v.rowWin r2) := by
  have hs := h.stride
  simp only [Win.Disjoint, VW.rowWin, VW.pos]
  rcases Nat.lt_or_gt_of_ne hne with hlt | hgt
  · left
    have := Nat.mul_le_mul_right v.stride (Nat.succ_le_of_lt hlt)
    rw [Nat.succ_mul] at this; omega
  · right
    have := Nat.mul_le_mul_right v.stride (Nat.succ_le_of_lt hgt)
    rw [Nat.succ_mul] at this; omega

/-! ### `mapCells` -/

theorem VW.mapCells_of_none {v : VW} {p : Nat} (g : Nat × Nat → Nat × Nat) (hp : v.coord? p = none) :
    v.mapCells g p = p := by
  simp [VW.mapCells, hp]

theorem VW.mapCells_of_some {v : VW} {p : Nat} {cr : Nat × Nat} (g : Nat × Nat → Nat × Nat)
    (hp : v.coord? p = some cr) : v.mapCells g p = v.pos (g cr).1 (g cr).2 := by
  simp [VW.mapCells, hp]

/-- on a cell: the position of the image cell -/
theorem VW.mapCells_pos {v : VW} {n : Nat} (h : v.Inv n) (g : Nat × Nat → Nat × Nat) {c r : Nat}
    (hc : c < v.numCols) (hr : r < v.numRows) : v.mapCells g (v.pos c r) = v.pos (g (c, r)).1 (g (c, r)).2 :=
  VW.mapCells_of_some g (VW.coord?_pos h hc hr)

/-- a cell map that sends cells to cells keeps positions inside the buffer -/
theorem VW.mapCells_lt {v : VW} {n : Nat} (h : v.Inv n) (g : Nat × Nat → Nat × Nat)
    (hg : ∀ c r, c < v.numCols → r < v.numRows → (g (c, r)).1 < v.numCols ∧ (g (c, r)).2 < v.numRows)
    {p : Nat} (hp : p < n) : v.mapCells g p < n := by
  cases hq : v.coord? p with
  | none => rw [VW.mapCells_of_none g hq]; exact hp
  | some cr =>
    obtain ⟨c, r⟩ := cr
    obtain ⟨_, hc, hr⟩ := VW.coord?_eq_some hq
    rw [VW.mapCells_of_some g hq]
    exact VW.pos_lt h (hg c r hc hr).1 (hg c r hc hr).2

/-- only the values of the cell map on cells matter -/
theorem VW.mapCells_congr {v : VW} (g g' : Nat × Nat → Nat × Nat)
    (hgg : ∀ c r, c < v.numCols → r < v.numRows → g (c, r) = g' (c, r)) (p : Nat) :
    v.mapCells g p = v.mapCells g' p := by
  cases hq : v.coord? p with
  | none => rw [VW.mapCells_of_none g hq, VW.mapCells_of_none g' hq]
  | some cr =>
    obtain ⟨c, r⟩ := cr
    obtain ⟨_, hc, hr⟩ := VW.coord?_eq_some hq
    rw [VW.mapCells_of_some g hq, VW.mapCells_of_some g' hq, hgg c r hc hr]

/-- a cell map that fixes every cell is the identity position map -/
theorem VW.mapCells_eq_self {v : VW} (g : Nat × Nat → Nat × Nat)
    (hg : ∀ c r, c < v.numCols → r < v.numRows → g (c, r) = (c, r)) (p : Nat) : v.mapCells g p = p := by
  cases hq : v.coord? p with
  | none => rw [VW.mapCells_of_none g hq]
  | some cr =>
    obtain ⟨c, r⟩ := cr
    obtain ⟨he, hc, hr⟩ := VW.coord?_eq_some hq
    rw [VW.mapCells_of_some g hq, hg c r hc hr]; exact he.symm

/-- composition of position maps of cell maps -/
theorem VW.mapCells_comp {v : VW} {n : Nat} (h : v.Inv n) (f g : Nat × Nat → Nat × Nat)
    (hg : ∀ c r, c < v.numCols → r < v.numRows → (g (c, r)).1 < v.numCols ∧ (g (c, r)).2 < v.numRows)
    (p : Nat) : v.mapCells f (v.mapCells g p) = v.mapCells (fun cr => f (g cr)) p := by
  cases hq : v.coord? p with
  | none => rw [VW.mapCells_of_none g hq, VW.mapCells_of_none f hq, VW.mapCells_of_none _ hq]
  | some cr =>
    obtain ⟨c, r⟩ := cr
    obtain ⟨_, hc, hr⟩ := VW.coord?_eq_some hq
    rw [VW.mapCells_of_some g hq, VW.mapCells_of_some _ hq,
      VW.mapCells_pos h f (hg c r hc hr).1 (hg c r hc hr).2]

/-- `gather` with a cell permutation keeps the length -/
theorem gather_mapCells_length {v : VW} (buf : List α) (h : v.Inv buf.length) (g : Nat × Nat → Nat × Nat)
    (hg : ∀ c r, c < v.numCols → r < v.numRows → (g (c, r)).1 < v.numCols ∧ (g (c, r)).2 < v.numRows) :
    (gather buf (v.mapCells g)).length = buf.length :=
  gather_length buf _ (fun _ hp => VW.mapCells_lt h g hg hp)

/-- two cell permutations in a row: `new[(c,r)] = old[f (g (c,r))]` -/
theorem gather_mapCells_comp {v : VW} (buf : List α) (h : v.Inv buf.length) (f g : Nat × Nat → Nat × Nat)
    (hf : ∀ c r, c < v.numCols → r < v.numRows → (f (c, r)).1 < v.numCols ∧ (f (c, r)).2 < v.numRows)
    (hg : ∀ c r, c < v.numCols → r < v.numRows → (g (c, r)).1 < v.numCols ∧ (g (c, r)).2 < v.numRows) :
    gather (gather buf (v.mapCells f)) (v.mapCells g) = gather buf (v.mapCells (fun cr => f (g cr))) := by
  rw [gather_gather buf _ _ (fun _ hp => VW.mapCells_lt h f hf hp) (fun _ hp => VW.mapCells_lt h g hg hp)]
  exact gather_congr buf _ _ (fun p _ => VW.mapCells_comp h f g hg p)

end Toodee
