import Toodee.Spec.Inv
/-
  Helper lemmas for C02 / C03: index arithmetic of row-major / strided layouts, success and failure lemmas for
  the window (slice) operations, and the evaluation of `Col.index`.
  Only lemmas here; the property statements live in `Toodee/Properties`.
-/
namespace Toodee
variable {α : Type}

/-! ### arithmetic -/

/-- `row*C + C ≤ C*R` for `row < R` -/
theorem row_end_le {C R row : Nat} (hr : row < R) : row * C + C ≤ C * R := by
  have h := Nat.mul_le_mul_right C (Nat.succ_le_of_lt hr)
  rw [Nat.succ_mul, Nat.mul_comm R C] at h
  exact h

/-- `row*C + col < C*R` for `col < C`, `row < R` -/
theorem cell_lt {C R col row : Nat} (hc : col < C) (hr : row < R) : row * C + col < C * R := by
  have := row_end_le (C := C) hr
  omega

/-- `row*S ≤ (R-1)*S` for `row < R` -/
theorem row_start_le {R row : Nat} (S : Nat) (hr : row < R) : row * S ≤ (R - 1) * S :=
  Nat.mul_le_mul_right S (by omega)

/-- `(R-1)*S + S = R*S` for `0 < R` -/
theorem pred_mul_add {R : Nat} (S : Nat) (hR : 0 < R) : (R - 1) * S + S = R * S := by
  obtain ⟨k, rfl⟩ : ∃ k, R = k + 1 := ⟨R - 1, by omega⟩
  simp [Nat.succ_mul]

/-- strided positions are injective -/
theorem strided_inj {S c1 r1 c2 r2 : Nat} (h1 : c1 < S) (h2 : c2 < S)
    (he : r1 * S + c1 = r2 * S + c2) : c1 = c2 ∧ r1 = r2 := by
  have hr : r1 = r2 := by
    rcases Nat.lt_trichotomy r1 r2 with hlt | heq | hgt
    · have := Nat.mul_le_mul_right S (Nat.succ_le_of_lt hlt)
      rw [Nat.succ_mul] at this
      omega
    · exact heq
    · have := Nat.mul_le_mul_right S (Nat.succ_le_of_lt hgt)
      rw [Nat.succ_mul] at this
      omega
  subst hr
  exact ⟨by omega, rfl⟩

/-! ### window operations -/

theorem Win.getRange_ok (w : Win) {s e : Nat} (h1 : s ≤ e) (h2 : e ≤ w.len) :
    w.getRange s e = .ok ⟨w.off + s, e - s⟩ := by simp [Win.getRange, h1, h2]

theorem Win.indexRange_ok (w : Win) {s e : Nat} (h1 : s ≤ e) (h2 : e ≤ w.len) :
    w.indexRange s e = .ok ⟨w.off + s, e - s⟩ := by simp [Win.indexRange, h1, h2]

theorem Win.getIdx_ok (w : Win) {i : Nat} (h : i < w.len) : w.getIdx i = .ok (w.off + i) := by
  simp [Win.getIdx, h]

theorem Win.index_ok (w : Win) {i : Nat} (h : i < w.len) : w.index i = .ok (w.off + i) := by
  simp [Win.index, h]

theorem Win.index_panic (w : Win) {i : Nat} (h : w.len ≤ i) : w.index i = .error .panic := by
  simp [Win.index, Nat.not_lt.2 h]

/-! ### `Col.index` -/

/-- in range, no overflow: the `idx`-th element of the column cursor -/
theorem Col.index_ok (m : Mode) (it : Col) (idx : Nat) (hs : 1 + it.skip < WORD)
    (hw : it.v.len ≤ WORD) (h : idx * (1 + it.skip) < it.v.len) :
    it.index m idx = .ok (it.v.off + idx * (1 + it.skip)) := by
  have hlt : idx * (1 + it.skip) < WORD := Nat.lt_of_lt_of_le h hw
  unfold Col.index
  rw [uadd_ok m _ _ hs]
  simp [omul, Nat.mod_eq_of_lt hlt, Nat.not_le.2 hlt, Win.index_ok _ h]

/-- out of range (whether or not the product overflows): panic -/
theorem Col.index_panic (m : Mode) (it : Col) (idx : Nat) (hs : 1 + it.skip < WORD)
    (h : it.v.len ≤ idx * (1 + it.skip)) :
    it.index m idx = .error .panic := by
  unfold Col.index
  rw [uadd_ok m _ _ hs]
  by_cases hov : WORD ≤ idx * (1 + it.skip)
  · simp [omul, hov]
  · have hlt : idx * (1 + it.skip) < WORD := Nat.not_le.1 hov
    simp [omul, hov, Nat.mod_eq_of_lt hlt, Win.index_panic _ h]

/-! ### `calcViewDims` -/

theorem calcViewDims_panic (m : Mode) (s e : Nat × Nat) (pc pr stride : Nat)
    (hbad : ¬ ((s.1 ≤ e.1 ∧ s.2 ≤ e.2) ∧ (e.1 ≤ pc ∧ e.2 ≤ pr))) :
    calcViewDims m s e pc pr stride = .error .panic := by
  unfold calcViewDims
  by_cases h1 : s.1 ≤ e.1
  · by_cases h2 : s.2 ≤ e.2
    · by_cases h3 : e.1 ≤ pc
      · have h4 : ¬ e.2 ≤ pr := fun h4 => hbad ⟨⟨h1, h2⟩, h3, h4⟩
        simp [h1, h2, h3, h4]
      · simp [h1, h2, h3]
    · simp [h1, h2]
  · simp [h1]

theorem calcViewDims_empty (m : Mode) (s e : Nat × Nat) (pc pr stride : Nat)
    (hs : s.1 ≤ e.1 ∧ s.2 ≤ e.2) (he : e.1 ≤ pc ∧ e.2 ≤ pr) (hst : pc ≤ stride)
    (h0 : e.1 - s.1 = 0 ∨ e.2 - s.2 = 0) :
    calcViewDims m s e pc pr stride = .ok (0, 0, 0, 0) := by
  unfold calcViewDims
  simp [hs.1, hs.2, he.1, he.2, hst, usub_ok m _ _ hs.1, usub_ok m _ _ hs.2, h0]

theorem view_end_eq {s2 e2 : Nat} (S s1 e1 : Nat) (h1 : s1 ≤ e1) (h2 : s2 < e2) :
    s2 * S + s1 + ((e2 - s2 - 1) * S + (e1 - s1)) = (e2 - 1) * S + e1 := by
  have : e2 - 1 = s2 + (e2 - s2 - 1) := by omega
  rw [this, Nat.add_mul]; omega

theorem calcViewDims_nonempty (m : Mode) (s e : Nat × Nat) (pc pr stride : Nat)
    (hs : s.1 < e.1 ∧ s.2 < e.2) (he : e.1 ≤ pc ∧ e.2 ≤ pr) (hst : pc ≤ stride)
    (hw : (e.2 - 1) * stride + e.1 < WORD) :
    calcViewDims m s e pc pr stride =
      .ok (e.1 - s.1, e.2 - s.2, s.2 * stride + s.1,
           s.2 * stride + s.1 + ((e.2 - s.2 - 1) * stride + (e.1 - s.1))) := by
  have hend := view_end_eq stride s.1 e.1 (Nat.le_of_lt hs.1) hs.2
  have hc : ¬ e.1 - s.1 = 0 := by omega
  have hr : ¬ e.2 - s.2 = 0 := by omega
  have a1 : umul m s.2 stride = .ok (s.2 * stride) := umul_ok m _ _ (by omega)
  have a2 : uadd m (s.2 * stride) s.1 = .ok (s.2 * stride + s.1) := uadd_ok m _ _ (by omega)
  have a3 : usub m (e.2 - s.2) 1 = .ok (e.2 - s.2 - 1) := usub_ok m _ _ (by omega)
  have a4 : umul m (e.2 - s.2 - 1) stride = .ok ((e.2 - s.2 - 1) * stride) :=
    umul_ok m _ _ (by omega)
  have a5 : uadd m ((e.2 - s.2 - 1) * stride) (e.1 - s.1)
      = .ok ((e.2 - s.2 - 1) * stride + (e.1 - s.1)) := uadd_ok m _ _ (by omega)
  have a6 : uadd m (s.2 * stride + s.1) ((e.2 - s.2 - 1) * stride + (e.1 - s.1))
      = .ok (s.2 * stride + s.1 + ((e.2 - s.2 - 1) * stride + (e.1 - s.1))) :=
    uadd_ok m _ _ (by omega)
  unfold calcViewDims
  simp [Nat.le_of_lt hs.1, Nat.le_of_lt hs.2, he.1, he.2, hst,
    usub_ok m _ _ (Nat.le_of_lt hs.1), usub_ok m _ _ (Nat.le_of_lt hs.2), hc, hr, a1, a2, a3, a4, a5, a6]

/-! ### an owned array as a view -/

theorem TD.asView_inv (t : TD α) (h : t.Inv) :
    t.asView.Inv t.data.length ∧ ∀ c r, t.asView.pos c r = t.pos c r := by
  obtain ⟨hlen, hzero, hword⟩ := h
  refine ⟨⟨Nat.le_refl _, hzero, ?_, by simp [TD.asView, TD.win], hword, ?_⟩, ?_⟩
  · by_cases hR : t.numRows = 0
    · simp [TD.asView, TD.win, hR, hlen]
    · simp only [TD.asView, TD.win, hR, if_false]
      rw [pred_mul_add _ (by omega), hlen, Nat.mul_comm]
  · show t.numCols < WORD
    by_cases hR : t.numRows = 0
    · rw [hzero.2 hR]; simp [WORD]
    · have := row_end_le (C := t.numCols) (R := t.numRows) (row := 0) (by omega)
      omega
  · intro c r; simp [TD.asView, TD.win, VW.pos, TD.pos]

/-- `from_toodee` is `view` on the array seen as a view of its own buffer -/
theorem VW.fromTooDee_eq_view (m : Mode) (s e : Nat × Nat) (t : TD α) :
    VW.fromTooDee m s e t = t.asView.view m s e := rfl

end Toodee
