import Toodee.Spec.History
import Toodee.Properties.C02
import Toodee.Properties.C04
import Toodee.Properties.C13Dispatch
import Toodee.Properties.C15
import Toodee.Properties.C16
import Toodee.Properties.C17
/-
  Lemmas for C01 (histories), part 1: small facts about the shape invariant, the rows-of-cells readings (`hs_grid_*`) of the
  two result forms `gather t.data (t.asView.mapCells g)` / `t.asView.updCells t.data f`, and every in-place operation
  (`HOp.inplace op`, through its specification `MOp.spec`, C13_run_owned) against the plain model `gstepM`.
-/
namespace Toodee
variable {α : Type}

/-! ### small facts about the shape invariant -/

theorem TD.Inv.cols_le {t : TD α} (h : t.Inv) (hr : 0 < t.numRows) : t.numCols ≤ t.data.length := by
  rw [h.len]
  exact Nat.le_mul_of_pos_right _ hr

theorem TD.Inv.rows_le {t : TD α} (h : t.Inv) (hc : 0 < t.numCols) : t.numRows ≤ t.data.length := by
  rw [h.len]
  exact Nat.le_mul_of_pos_left _ hc

theorem TD.Inv.cols_pos {t : TD α} (h : t.Inv) {r : Nat} (hr : r < t.numRows) : 0 < t.numCols := by
  have := h.zero
  omega

theorem TD.Inv.rows_pos {t : TD α} (h : t.Inv) {c : Nat} (hc : c < t.numCols) : 0 < t.numRows := by
  have := h.zero
  omega

theorem TD.Inv.cols_word {t : TD α} (h : t.Inv) : t.numCols < WORD := by
  rcases Nat.eq_zero_or_pos t.numRows with h0 | h0
  · rw [h.zero.2 h0]; unfold WORD; omega
  · have := h.cols_le h0
    have := h.word
    omega

theorem TD.Inv.rows_word {t : TD α} (h : t.Inv) : t.numRows < WORD := by
  rcases Nat.eq_zero_or_pos t.numCols with h0 | h0
  · rw [h.zero.1 h0]; unfold WORD; omega
  · have := h.rows_le h0
    have := h.word
    omega

/-- replacing the data by a buffer of the same length keeps the invariant -/
theorem TD.Inv.with_data {t : TD α} (h : t.Inv) (d : List α) (hd : d.length = t.data.length) :
    ({ t with data := d } : TD α).Inv :=
  ⟨by show d.length = _; rw [hd]; exact h.len, h.zero, by show d.length < WORD; rw [hd]; exact h.word⟩

/-- an in-place operation that keeps the length keeps the invariant (a failed one leaves the array) -/
theorem TD.withData_inv (t : TD α) (h : t.Inv) (r : Res (List α))
    (hr : ∀ d, r = .ok d → d.length = t.data.length) : (t.withData r).Inv := by
  cases r with
  | error e => exact h
  | ok d => exact h.with_data d (hr d rfl)

/-- a cell permutation of the whole array keeps the length -/
theorem hs_gather_length (t : TD α) (h : t.Inv) (g : Nat × Nat → Nat × Nat)
    (hg : ∀ c r, c < t.numCols → r < t.numRows → (g (c, r)).1 < t.numCols ∧ (g (c, r)).2 < t.numRows) :
    (gather t.data (t.asView.mapCells g)).length = t.data.length :=
  gather_mapCells_length t.data (C02_owned_as_view t h).1 g hg

/-! ### the in-place step is the specification -/

theorem hs_run_spec (m : Mode) (lim : Nat) (t : TD α) (h : t.Inv) (op : MOp α) (hw : op.Sane ∧ op.srcOk) :
    (Recv.root t).run m lim t.data op = op.spec t.asView lim t.data :=
  C13_run_owned m lim t h op hw.1 hw.2

theorem hs_spec_facts (lim : Nat) (t : TD α) (h : t.Inv) (op : MOp α) (hs : op.Sane) :
    op.spec t.asView lim t.data ≠ .error .ub ∧ op.spec t.asView lim t.data ≠ .error .fuel ∧
    ∀ d, op.spec t.asView lim t.data = .ok d → d.length = t.data.length := by
  obtain ⟨h1, h2, h3⟩ := C04_spec_frame lim t.asView t.data (C02_owned_as_view t h).1 op hs
  exact ⟨h1, h2, fun d hd => (h3 d hd).1⟩

theorem hs_inv_inplace (m : Mode) (lim : Nat) (t : TD α) (h : t.Inv) (op : MOp α) (hw : op.Sane ∧ op.srcOk) :
    (t.withData ((Recv.root t).run m lim t.data op)).Inv := by
  rw [hs_run_spec m lim t h op hw]
  exact t.withData_inv h _ (hs_spec_facts lim t h op hw.1).2.2

/-! ### rows-of-cells readings -/

theorem hs_gridOf_congr (C R : Nat) (X Y : Nat → Nat → Option α)
    (hXY : ∀ c r, c < C → r < R → X c r = Y c r) : gridOf C R X = gridOf C R Y := by
  unfold gridOf
  apply List.map_congr_left
  intro r hr
  apply filterMap_congr_mem
  intro c hc
  exact hXY c r (List.mem_range.1 hc) (List.mem_range.1 hr)

theorem hs_gridOf_length (C R : Nat) (X : Nat → Nat → Option α) : (gridOf C R X).length = R := by
  simp [gridOf]

theorem hs_gridOf_getElem? (C R : Nat) (X : Nat → Nat → Option α) (r : Nat) :
    (gridOf C R X)[r]? = if r < R then some ((List.range C).filterMap fun c => X c r) else none := by
  unfold gridOf
  rw [List.getElem?_map]
  by_cases hr : r < R
  · rw [if_pos hr, List.getElem?_range hr]; rfl
  · rw [if_neg hr, List.getElem?_eq_none (by simpa using hr)]; rfl

theorem hs_take_drop_cells (d : List α) (s C : Nat) (h : s + C ≤ d.length) :
    (d.drop s).take C = (List.range C).filterMap fun c => d[s + c]? := by
  have _ := h
  exact take_drop_eq_filterMap d s C

theorem hs_toRows_cells (C R : Nat) (d : List α) (hl : d.length = C * R) (hz : C = 0 → R = 0) :
    toRows C d = gridOf C R (fun c r => d[r * C + c]?) := by
  unfold toRows gridOf
  rcases Nat.eq_zero_or_pos C with h0 | hC
  · rw [hz h0, h0]; simp
  · rw [hl, Nat.mul_div_cancel_left _ hC]
    apply List.map_congr_left
    intro r hr
    have hr' := List.mem_range.1 hr
    apply hs_take_drop_cells
    rw [hl]
    exact row_end_le hr'

theorem hs_grid_cells (t : TD α) (h : t.Inv) :
    t.grid = gridOf t.numCols t.numRows (fun c r => t.data[r * t.numCols + c]?) :=
  hs_toRows_cells _ _ _ h.len h.zero.1

theorem hs_grid_of_data (t : TD α) (h : t.Inv) (d : List α) (hd : d.length = t.data.length) :
    ({ t with data := d } : TD α).grid = gridOf t.numCols t.numRows (fun c r => d[r * t.numCols + c]?) :=
  hs_grid_cells _ (h.with_data d hd)

theorem hs_headC (t : TD α) (h : t.Inv) : gcols t.grid = t.numCols := by
  have hl := h.grid_length
  have hrow := t.grid_row_length
  unfold gcols
  match hg : t.grid with
  | [] =>
    rw [hg] at hl
    have : t.numCols = 0 := h.zero.2 hl.symm
    simp [this]
  | ρ :: rest =>
    rw [hg] at hrow
    simp [hrow ρ (List.mem_cons_self ..)]

theorem hs_grid_eq_nil (t : TD α) (h : t.Inv) : t.grid = [] ↔ t.numRows = 0 := by
  rw [← h.grid_length]
  exact List.length_eq_zero_iff.symm

theorem hs_cell_lt (t : TD α) (h : t.Inv) {c r : Nat} (hc : c < t.numCols) (hr : r < t.numRows) :
    r * t.numCols + c < t.data.length := by
  rw [h.len]; exact cell_lt hc hr

theorem hs_gcell (t : TD α) (h : t.Inv) (c r : Nat) (hc : c < t.numCols) :
    gcell t.grid c r = t.data[r * t.numCols + c]? := by
  have hlen := h.len
  have hdiv : t.data.length / t.numCols = t.numRows := by
    rw [hlen, Nat.mul_div_cancel_left _ (by omega)]
  unfold gcell TD.grid toRows
  rw [List.getElem?_map, hdiv]
  by_cases hr : r < t.numRows
  · rw [List.getElem?_range hr]
    show ((t.data.drop (r * t.numCols)).take t.numCols)[c]? = _
    rw [List.getElem?_take, if_pos hc, List.getElem?_drop]
  · rw [List.getElem?_eq_none (by simpa using hr)]
    have : t.numCols * t.numRows ≤ r * t.numCols := by
      rw [Nat.mul_comm]; exact Nat.mul_le_mul_right _ (by omega)
    rw [List.getElem?_eq_none (by omega)]
    rfl

/-- a cell permutation of the array, read on the rows of cells -/
theorem hs_grid_gather (t : TD α) (h : t.Inv) (f : Nat × Nat → Nat × Nat)
    (hf : ∀ c r, c < t.numCols → r < t.numRows → (f (c, r)).1 < t.numCols ∧ (f (c, r)).2 < t.numRows) :
    ({ t with data := gather t.data (t.asView.mapCells f) } : TD α).grid
      = gridOf t.numCols t.numRows (fun c r => t.data[(f (c, r)).2 * t.numCols + (f (c, r)).1]?) := by
  rw [hs_grid_of_data t h _ (hs_gather_length t h f hf)]
  apply hs_gridOf_congr
  intro c r hc hr
  obtain ⟨hv, hpos⟩ := C02_owned_as_view t h
  have h3 := (C04_frame_perm t.asView t.data hv f hf).2.2 c r hc hr
  rw [hpos, hpos] at h3
  exact h3

theorem hs_gridPerm (t : TD α) (h : t.Inv) (f : Nat × Nat → Nat × Nat)
    (hf : ∀ c r, c < t.numCols → r < t.numRows → (f (c, r)).1 < t.numCols ∧ (f (c, r)).2 < t.numRows) :
    gridPerm t.grid f
      = gridOf t.numCols t.numRows (fun c r => t.data[(f (c, r)).2 * t.numCols + (f (c, r)).1]?) := by
  unfold gridPerm
  rw [h.grid_length]
  show (List.range t.numRows).map (fun r => (List.range (gcols t.grid)).filterMap fun c => _) = _
  rw [hs_headC t h]
  apply hs_gridOf_congr
  intro c r hc hr
  exact hs_gcell t h _ _ (hf c r hc hr).1

/-- a permutation step agrees with `gridPerm` -/
theorem hs_ref_perm (t : TD α) (h : t.Inv) (f : Nat × Nat → Nat × Nat)
    (hf : ∀ c r, c < t.numCols → r < t.numRows → (f (c, r)).1 < t.numCols ∧ (f (c, r)).2 < t.numRows) :
    (t.withData (.ok (gather t.data (t.asView.mapCells f)))).grid = gridPerm t.grid f := by
  rw [hs_gridPerm t h f hf]
  exact hs_grid_gather t h f hf

/-- an overwrite of cells of the array, read on the rows of cells -/
theorem hs_grid_upd (t : TD α) (h : t.Inv) (f : Nat × Nat → Option α) :
    (t.withData (.ok (t.asView.updCells t.data f))).grid
      = gridOf t.numCols t.numRows (fun c r => match f (c, r) with | some x => some x | none => t.data[r * t.numCols + c]?) := by
  show ({ t with data := t.asView.updCells t.data f } : TD α).grid = _
  rw [hs_grid_of_data t h _ (VW.updCells_length _ _ _)]
  apply hs_gridOf_congr
  intro c r hc hr
  obtain ⟨hv, hpos⟩ := C02_owned_as_view t h
  have h3 := (C04_frame_upd t.asView t.data hv f).2.2 c r hc hr
  rw [hpos] at h3
  exact h3

/-! ### cell maps stay inside the array -/

theorem hs_asView_numCols (t : TD α) : t.asView.numCols = t.numCols := rfl
theorem hs_asView_numRows (t : TD α) : t.asView.numRows = t.numRows := rfl

theorem hs_swapCellG_cells (t : TD α) {c1 r1 c2 r2 : Nat}
    (hr : c1 < t.numCols ∧ c2 < t.numCols ∧ r1 < t.numRows ∧ r2 < t.numRows) :
    ∀ c r, c < t.numCols → r < t.numRows →
      (swapCellG (c1, r1) (c2, r2) (c, r)).1 < t.numCols ∧ (swapCellG (c1, r1) (c2, r2) (c, r)).2 < t.numRows := by
  intro c r hc hr'
  unfold swapCellG
  by_cases h1 : (c, r) = (c1, r1)
  · rw [if_pos h1]; exact ⟨hr.2.1, hr.2.2.2⟩
  · rw [if_neg h1]
    by_cases h2 : (c, r) = (c2, r2)
    · rw [if_pos h2]; exact ⟨hr.1, hr.2.2.1⟩
    · rw [if_neg h2]; exact ⟨hc, hr'⟩

theorem hs_swapRowsG_cells (t : TD α) {r1 r2 : Nat} (hr : r1 < t.numRows ∧ r2 < t.numRows) :
    ∀ c r, c < t.numCols → r < t.numRows →
      (swapRowsG r1 r2 (c, r)).1 < t.numCols ∧ (swapRowsG r1 r2 (c, r)).2 < t.numRows :=
  fun _ _ hc hr' => ⟨hc, swapIdx_lt hr.1 hr.2 hr'⟩

theorem hs_swapColsG_cells (t : TD α) {c1 c2 : Nat} (hc : c1 < t.numCols ∧ c2 < t.numCols) :
    ∀ c r, c < t.numCols → r < t.numRows →
      (swapColsG c1 c2 (c, r)).1 < t.numCols ∧ (swapColsG c1 c2 (c, r)).2 < t.numRows :=
  fun _ _ hc' hr => ⟨swapIdx_lt hc.1 hc.2 hc', hr⟩

theorem hs_flipRowsG_cells (t : TD α) :
    ∀ c r, c < t.numCols → r < t.numRows →
      (flipRowsG t.numRows (c, r)).1 < t.numCols ∧ (flipRowsG t.numRows (c, r)).2 < t.numRows :=
  fun _ _ hc hr => ⟨hc, by simp only [flipRowsG]; omega⟩

theorem hs_flipColsG_cells (t : TD α) :
    ∀ c r, c < t.numCols → r < t.numRows →
      (flipColsG t.numCols (c, r)).1 < t.numCols ∧ (flipColsG t.numCols (c, r)).2 < t.numRows :=
  fun _ _ hc hr => ⟨by simp only [flipColsG]; omega, hr⟩

theorem hs_translateG_cells (t : TD α) (mc mr : Nat) :
    ∀ c r, c < t.numCols → r < t.numRows →
      (translateG t.numCols t.numRows mc mr (c, r)).1 < t.numCols ∧ (translateG t.numCols t.numRows mc mr (c, r)).2 < t.numRows :=
  (C15_maps_bijective t.numCols t.numRows mc mr _ (List.mem_cons_self ..)).1

theorem hs_sortColsG_cells (t : TD α) (p : List Nat) (hp : p.Perm (List.range t.numCols)) :
    ∀ c r, c < t.numCols → r < t.numRows →
      (sortColsG p (c, r)).1 < t.numCols ∧ (sortColsG p (c, r)).2 < t.numRows := by
  have hb := (C16_cols_bijective t.numCols t.numRows p hp).1
  exact fun c r hc hr' => ⟨(hb c r hc hr').1, by rw [(hb c r hc hr').2]; exact hr'⟩

theorem hs_sortRowsG_cells (t : TD α) (p : List Nat) (hp : p.Perm (List.range t.numRows)) :
    ∀ c r, c < t.numCols → r < t.numRows →
      (sortRowsG p (c, r)).1 < t.numCols ∧ (sortRowsG p (c, r)).2 < t.numRows := by
  have hb := (C17_rows_bijective t.numCols t.numRows p hp).1
  exact fun c r hc' hr => ⟨by rw [(hb c r hc' hr).2]; exact hc', (hb c r hc' hr).1⟩

/-! ### each in-place operation against the rows-of-cells model -/

theorem hs_reverse_range (n : Nat) : (List.range n).reverse = (List.range n).map (fun i => n - 1 - i) := by
  rw [List.range_eq_range', List.reverse_range', ← List.range_eq_range']
  apply List.map_congr_left
  intro i _
  omega

theorem hs_gridOf_reverse (C R : Nat) (X : Nat → Nat → Option α) :
    (gridOf C R X).reverse = gridOf C R (fun c r => X c (R - 1 - r)) := by
  unfold gridOf
  rw [← List.map_reverse, hs_reverse_range, List.map_map]
  rfl

theorem hs_gridOf_map_reverse (C R : Nat) (X : Nat → Nat → Option α) :
    (gridOf C R X).map List.reverse = gridOf C R (fun c r => X (C - 1 - c) r) := by
  unfold gridOf
  rw [List.map_map]
  apply List.map_congr_left
  intro r _
  show ((List.range C).filterMap fun c => X c r).reverse = _
  rw [← List.filterMap_reverse, hs_reverse_range, List.filterMap_map]
  rfl

theorem hs_ref_swap (lim : Nat) (t : TD α) (h : t.Inv) (c1 r1 c2 r2 : Nat) :
    gstepM t.grid (.swap c1 r1 c2 r2) = some (t.withData ((MOp.swap c1 r1 c2 r2).spec t.asView lim t.data)).grid := by
  simp only [gstepM, MOp.spec, hs_headC t h, h.grid_length]
  by_cases hr : c1 < t.numCols ∧ c2 < t.numCols ∧ r1 < t.numRows ∧ r2 < t.numRows
  · rw [if_pos hr, if_pos (show c1 < t.asView.numCols ∧ c2 < t.asView.numCols ∧ r1 < t.asView.numRows ∧ r2 < t.asView.numRows from hr)]
    exact congrArg some (hs_ref_perm t h _ (hs_swapCellG_cells t hr)).symm
  · rw [if_neg hr, if_neg (show ¬ (c1 < t.asView.numCols ∧ c2 < t.asView.numCols ∧ r1 < t.asView.numRows ∧ r2 < t.asView.numRows) from hr)]
    rfl

theorem hs_ref_swapRows (lim : Nat) (t : TD α) (h : t.Inv) (r1 r2 : Nat) :
    gstepM t.grid (.swapRows r1 r2) = some (t.withData ((MOp.swapRows r1 r2).spec t.asView lim t.data)).grid := by
  simp only [gstepM, MOp.spec, h.grid_length]
  by_cases hr : r1 < t.numRows ∧ r2 < t.numRows
  · rw [if_pos hr, if_pos (show r1 < t.asView.numRows ∧ r2 < t.asView.numRows from hr)]
    exact congrArg some (hs_ref_perm t h _ (hs_swapRowsG_cells t hr)).symm
  · rw [if_neg hr, if_neg (show ¬ (r1 < t.asView.numRows ∧ r2 < t.asView.numRows) from hr)]
    rfl

theorem hs_ref_swapCols (lim : Nat) (t : TD α) (h : t.Inv) (c1 c2 : Nat) :
    gstepM t.grid (.swapCols c1 c2) = some (t.withData ((MOp.swapCols c1 c2).spec t.asView lim t.data)).grid := by
  simp only [gstepM, MOp.spec, hs_headC t h]
  by_cases hc : c1 < t.numCols ∧ c2 < t.numCols
  · rw [if_pos hc, if_pos (show c1 < t.asView.numCols ∧ c2 < t.asView.numCols from hc)]
    exact congrArg some (hs_ref_perm t h _ (hs_swapColsG_cells t hc)).symm
  · rw [if_neg hc, if_neg (show ¬ (c1 < t.asView.numCols ∧ c2 < t.asView.numCols) from hc)]
    rfl

theorem hs_ref_translate (lim : Nat) (t : TD α) (h : t.Inv) (mc mr : Nat) :
    gstepM t.grid (.translate mc mr) = some (t.withData ((MOp.translate mc mr).spec t.asView lim t.data)).grid := by
  simp only [gstepM, MOp.spec, hs_headC t h, h.grid_length]
  by_cases hm : mc ≤ t.numCols ∧ mr ≤ t.numRows
  · rw [if_pos hm, if_pos (show mc ≤ t.asView.numCols ∧ mr ≤ t.asView.numRows from hm)]
    exact congrArg some (hs_ref_perm t h _ (hs_translateG_cells t mc mr)).symm
  · rw [if_neg hm, if_neg (show ¬ (mc ≤ t.asView.numCols ∧ mr ≤ t.asView.numRows) from hm)]
    rfl

theorem hs_ref_flipRows (lim : Nat) (t : TD α) (h : t.Inv) :
    gstepM t.grid .flipRows = some (t.withData ((MOp.flipRows : MOp α).spec t.asView lim t.data)).grid := by
  simp only [gstepM, MOp.spec]
  congr 1
  rw [hs_grid_cells t h, hs_gridOf_reverse]
  exact (hs_grid_gather t h _ (hs_flipRowsG_cells t)).symm

theorem hs_ref_flipCols (lim : Nat) (t : TD α) (h : t.Inv) :
    gstepM t.grid .flipCols = some (t.withData ((MOp.flipCols : MOp α).spec t.asView lim t.data)).grid := by
  simp only [gstepM, MOp.spec]
  congr 1
  rw [hs_grid_cells t h, hs_gridOf_map_reverse]
  exact (hs_grid_gather t h _ (hs_flipColsG_cells t)).symm

/-- `match o with | some x => some x | none => d` is `o` when `o` is `some` -/
theorem hs_match_some {β : Type} (o d : Option β) :
    o.isSome → (match o with | some x => some x | none => d) = o := by
  intro ho
  cases o with
  | none => simp at ho
  | some x => rfl

theorem hs_ref_fill (lim : Nat) (t : TD α) (h : t.Inv) (x : α) :
    gstepM t.grid (.fill x) = some (t.withData ((MOp.fill x).spec t.asView lim t.data)).grid := by
  simp only [gstepM, MOp.spec]
  congr 1
  show _ = (t.withData (.ok (t.asView.updCells t.data fun _ => some x))).grid
  rw [hs_grid_upd t h, hs_grid_cells t h]
  unfold gridOf
  rw [List.map_map]
  apply List.map_congr_left
  intro r hr
  show ((List.range t.numCols).filterMap fun c => t.data[r * t.numCols + c]?).map (fun _ => x) = _
  rw [List.map_filterMap]
  apply filterMap_congr_mem
  intro c hc
  have hlt := hs_cell_lt t h (List.mem_range.1 hc) (List.mem_range.1 hr)
  simp [hlt]

/-- one row with one cell replaced -/
theorem hs_row_set (C : Nat) (X : Nat → Option α) (hX : ∀ c, c < C → (X c).isSome) (c : Nat) (x : α) :
    ((List.range C).filterMap X).set c x = (List.range C).filterMap fun c' => if c' = c then some x else X c' := by
  apply List.ext_getElem?
  intro i
  rw [List.getElem?_set, filterMap_getElem?_of_isSome X _ (fun j hj => hX j (List.mem_range.1 hj)),
    filterMap_getElem?_of_isSome _ _ (fun j hj => by
      by_cases hjc : j = c
      · simp [hjc]
      · simp only [if_neg hjc]; exact hX j (List.mem_range.1 hj)),
    filterMap_length_of_isSome X _ (fun j hj => hX j (List.mem_range.1 hj)), List.length_range]
  by_cases hi : i < C
  · rw [List.getElem?_range hi]
    by_cases hci : c = i
    · subst hci
      simp [hi]
    · rw [if_neg hci]
      have : ¬ i = c := fun e => hci e.symm
      simp [this]
  · rw [List.getElem?_eq_none (l := List.range C) (by simpa using hi)]
    by_cases hci : c = i
    · subst hci
      simp [hi]
    · rw [if_neg hci]
      rfl

theorem hs_grid_set (C R : Nat) (X : Nat → Nat → Option α) (hX : ∀ c r, c < C → r < R → (X c r).isSome) (c r : Nat) (x : α) :
    ((gridOf C R X).mapIdx fun r' ρ => if r' = r then ρ.set c x else ρ)
      = gridOf C R (fun c' r' => if (c', r') = (c, r) then some x else X c' r') := by
  apply List.ext_getElem?
  intro i
  rw [List.getElem?_mapIdx, hs_gridOf_getElem?, hs_gridOf_getElem?]
  by_cases hi : i < R
  · rw [if_pos hi, if_pos hi]
    show some (if i = r then _ else _) = _
    congr 1
    by_cases hir : i = r
    · subst hir
      rw [if_pos rfl, hs_row_set C (fun c' => X c' i) (fun c' hc' => hX c' i hc' hi)]
      apply filterMap_congr_mem
      intro c' _
      by_cases hcc : c' = c
      · subst hcc; simp
      · have : ¬ (c', i) = (c, i) := fun e => hcc (congrArg Prod.fst e)
        rw [if_neg hcc, if_neg this]
    · rw [if_neg hir]
      apply filterMap_congr_mem
      intro c' _
      have : ¬ (c', i) = (c, r) := fun e => hir (congrArg Prod.snd e)
      rw [if_neg this]
  · rw [if_neg hi, if_neg hi]
    rfl

theorem hs_ref_set_aux (t : TD α) (h : t.Inv) (c r : Nat) (x : α) :
    (if c < gcols t.grid ∧ r < t.grid.length then some (t.grid.mapIdx fun r' ρ => if r' = r then ρ.set c x else ρ) else some t.grid)
      = some (t.withData (if c < t.asView.numCols ∧ r < t.asView.numRows then
          pure (t.asView.updCells t.data fun cr => if cr = (c, r) then some x else none) else throw .panic)).grid := by
  rw [hs_headC t h, h.grid_length]
  by_cases hcr : c < t.numCols ∧ r < t.numRows
  · rw [if_pos hcr, if_pos (show c < t.asView.numCols ∧ r < t.asView.numRows from hcr)]
    congr 1
    show _ = (t.withData (.ok _)).grid
    rw [hs_grid_upd t h]
    conv => lhs; rw [hs_grid_cells t h]
    rw [hs_grid_set _ _ _ (fun c' r' hc' hr' => by simp [hs_cell_lt t h hc' hr'])]
    apply hs_gridOf_congr
    intro c' r' _ _
    by_cases hcc : (c', r') = (c, r)
    · rw [if_pos hcc, if_pos hcc]
    · rw [if_neg hcc, if_neg hcc]
  · rw [if_neg hcr, if_neg (show ¬ (c < t.asView.numCols ∧ r < t.asView.numRows) from hcr)]
    rfl

theorem hs_ref_set (lim : Nat) (t : TD α) (h : t.Inv) (c r : Nat) (x : α) :
    gstepM t.grid (.set c r x) = some (t.withData ((MOp.set c r x).spec t.asView lim t.data)).grid := by
  simp only [gstepM, MOp.spec]
  exact hs_ref_set_aux t h c r x

theorem hs_ref_setInRow (lim : Nat) (t : TD α) (h : t.Inv) (r c : Nat) (x : α) :
    gstepM t.grid (.setInRow r c x) = some (t.withData ((MOp.setInRow r c x).spec t.asView lim t.data)).grid := by
  simp only [gstepM, MOp.spec]
  exact hs_ref_set_aux t h c r x

theorem hs_ref_copyFromSlice (lim : Nat) (t : TD α) (h : t.Inv) (src : List α) :
    gstepM t.grid (.copyFromSlice src) = some (t.withData ((MOp.copyFromSlice src).spec t.asView lim t.data)).grid := by
  simp only [gstepM, MOp.spec, hs_headC t h, h.grid_length]
  by_cases hl : t.numCols * t.numRows = src.length
  · rw [if_pos hl, if_pos (show t.asView.numCols * t.asView.numRows = src.length from hl)]
    congr 1
    show _ = (t.withData (.ok _)).grid
    rw [hs_grid_upd t h, hs_toRows_cells t.numCols t.numRows src hl.symm h.zero.1]
    apply hs_gridOf_congr
    intro c r hc hr
    refine (hs_match_some _ _ ?_).symm
    have : r * t.numCols + c < src.length := by rw [← hl]; exact cell_lt hc hr
    show (src[r * t.numCols + c]?).isSome
    simp [this]
  · rw [if_neg hl, if_neg (show ¬ (t.asView.numCols * t.asView.numRows = src.length) from hl)]
    rfl

/-! ### rectangular grids -/

theorem hs_gridOf_rect (C R : Nat) (X : Nat → Nat → Option α) (hX : ∀ c r, c < C → r < R → (X c r).isSome) :
    ∀ ρ ∈ gridOf C R X, ρ.length = C := by
  intro ρ hρ
  unfold gridOf at hρ
  obtain ⟨r, hr, rfl⟩ := List.mem_map.1 hρ
  rw [filterMap_length_of_isSome _ _ (fun c hc => hX c r (List.mem_range.1 hc) (List.mem_range.1 hr)), List.length_range]

theorem hs_gcols_gridOf (C R : Nat) (X : Nat → Nat → Option α) (hX : ∀ c r, c < C → r < R → (X c r).isSome)
    (hz : R = 0 → C = 0) : gcols (gridOf C R X) = C := by
  unfold gcols
  rw [List.head?_eq_getElem?, hs_gridOf_getElem?]
  by_cases hR : 0 < R
  · rw [if_pos hR]
    show ((List.range C).filterMap fun c => X c 0).length = C
    rw [filterMap_length_of_isSome _ _ (fun c hc => hX c 0 (List.mem_range.1 hc) hR), List.length_range]
  · rw [if_neg hR, hz (by omega)]
    rfl

theorem hs_rect_cells (C : Nat) (sg : List (List α)) (hrow : ∀ ρ ∈ sg, ρ.length = C) :
    sg = gridOf C sg.length (fun c r => gcell sg c r) := by
  apply List.ext_getElem?
  intro i
  rw [hs_gridOf_getElem?]
  by_cases hi : i < sg.length
  · rw [if_pos hi, List.getElem?_eq_getElem hi]
    congr 1
    have hl := hrow sg[i] (List.getElem_mem hi)
    have e := take_drop_eq_filterMap sg[i] 0 sg[i].length
    rw [List.drop_zero, List.take_length, hl] at e
    conv => lhs; rw [e]
    apply filterMap_congr_mem
    intro c _
    unfold gcell
    rw [List.getElem?_eq_getElem hi, Nat.zero_add]
    rfl
  · rw [if_neg hi, List.getElem?_eq_none (by omega)]

theorem hs_rect_gcell_some (C : Nat) (sg : List (List α)) (hrow : ∀ ρ ∈ sg, ρ.length = C) {c r : Nat}
    (hc : c < C) (hr : r < sg.length) : (gcell sg c r).isSome := by
  unfold gcell
  rw [List.getElem?_eq_getElem hr]
  have hl := hrow sg[r] (List.getElem_mem hr)
  show (sg[r][c]?).isSome
  rw [List.getElem?_eq_getElem (by omega)]
  rfl

/-- the source of a `copy_from_toodee` shows a rectangular grid -/
theorem hs_src_rect (src : CopySrc α) (hsrc : src.arr.Inv) (sg : List (List α)) (hsg : src.grid? = some sg) :
    ∀ ρ ∈ sg, ρ.length = gcols sg := by
  unfold CopySrc.grid? at hsg
  cases hw : src.window with
  | none =>
    rw [hw] at hsg
    injection hsg with hsg
    subst hsg
    rw [hs_headC _ hsrc]
    exact src.arr.grid_row_length
  | some w =>
    obtain ⟨tl, br⟩ := w
    rw [hw] at hsg
    simp only at hsg
    by_cases hc : tl.1 ≤ br.1 ∧ tl.2 ≤ br.2 ∧ br.1 ≤ src.arr.numCols ∧ br.2 ≤ src.arr.numRows
    · rw [if_pos hc] at hsg
      injection hsg with hsg
      subst hsg
      have hX : ∀ c r, c < (viewSize tl br).1 → r < (viewSize tl br).2 →
          (gcell src.arr.grid (tl.1 + c) (tl.2 + r)).isSome := by
        intro c r hc' hr'
        unfold viewSize at hc' hr'
        by_cases hz : br.1 - tl.1 = 0 ∨ br.2 - tl.2 = 0
        · rw [if_pos hz] at hc'
          exact absurd hc' (Nat.not_lt_zero _)
        · rw [if_neg hz] at hc' hr'
          have h1 : tl.1 + c < src.arr.numCols := by have := hc.2.2.1; omega
          have h2 : tl.2 + r < src.arr.numRows := by have := hc.2.2.2; omega
          rw [hs_gcell _ hsrc _ _ h1]
          simp [hs_cell_lt _ hsrc h1 h2]
      have hzz : (viewSize tl br).2 = 0 → (viewSize tl br).1 = 0 := by
        unfold viewSize
        by_cases hz : br.1 - tl.1 = 0 ∨ br.2 - tl.2 = 0
        · rw [if_pos hz]; exact fun _ => rfl
        · rw [if_neg hz]; intro h0; exact absurd (Or.inr h0) hz
      rw [hs_gcols_gridOf _ _ _ hX hzz]
      exact hs_gridOf_rect _ _ _ hX
    · rw [if_neg hc] at hsg
      cases hsg

theorem hs_ref_copyFromTooDee (lim : Nat) (t : TD α) (h : t.Inv) (src : CopySrc α) (hsrc : src.arr.Inv) :
    gstepM t.grid (.copyFromTooDee src)
      = some (t.withData ((MOp.copyFromTooDee src).spec t.asView lim t.data)).grid := by
  simp only [gstepM, MOp.spec, hs_headC t h, h.grid_length]
  cases hsg : src.grid? with
  | none => rfl
  | some sg =>
    simp only
    by_cases hc : sg.length = t.numRows ∧ gcols sg = t.numCols
    · rw [if_pos hc, if_pos (show sg.length = t.asView.numRows ∧ gcols sg = t.asView.numCols from hc)]
      congr 1
      show _ = (t.withData (.ok _)).grid
      rw [hs_grid_upd t h]
      have hrect := hs_src_rect src hsrc sg hsg
      rw [hc.2] at hrect
      conv => lhs; rw [hs_rect_cells t.numCols sg hrect, hc.1]
      apply hs_gridOf_congr
      intro c r hcc hr
      exact (hs_match_some _ _ (hs_rect_gcell_some t.numCols sg hrect hcc (by rw [hc.1]; exact hr))).symm
    · rw [if_neg hc, if_neg (show ¬ (sg.length = t.asView.numRows ∧ gcols sg = t.asView.numCols) from hc)]
      rfl

theorem hs_ref_copyWithin (lim : Nat) (t : TD α) (h : t.Inv) (tl br dest : Nat × Nat) :
    gstepM t.grid (.copyWithin tl br dest)
      = some (t.withData ((MOp.copyWithin tl br dest).spec t.asView lim t.data)).grid := by
  simp only [gstepM, MOp.spec, hs_headC t h, h.grid_length]
  by_cases hf : rectsFit t.numCols t.numRows tl br dest
  · rw [if_pos hf, if_pos (show rectsFit t.asView.numCols t.asView.numRows tl br dest from hf)]
    congr 1
    show _ = (t.withData (.ok _)).grid
    rw [hs_grid_upd t h]
    apply hs_gridOf_congr
    intro c r hc hr
    unfold rectsFit at hf
    obtain ⟨h1, h2, h3, h4, h5, h6⟩ := hf
    unfold copyWithinCells
    by_cases hin : dest.1 ≤ c ∧ c < dest.1 + (br.1 - tl.1) ∧ dest.2 ≤ r ∧ r < dest.2 + (br.2 - tl.2)
    · have hc' : c - dest.1 + tl.1 < t.numCols := by omega
      have hr' : r - dest.2 + tl.2 < t.numRows := by omega
      simp only [if_pos hin]
      rw [hs_gcell t h _ _ hc', (C02_owned_as_view t h).2]
      unfold TD.pos
      exact (hs_match_some _ _ (by simp [hs_cell_lt t h hc' hr'])).symm
    · simp only [if_neg hin]
      exact hs_gcell t h c r hc
  · rw [if_neg hf, if_neg (show ¬ rectsFit t.asView.numCols t.asView.numRows tl br dest from hf)]
    rfl

/-! ### sorts with an arbitrary side sort -/

/-- the key row of a row sort is the grid's row -/
theorem hs_row_key (t : TD α) (h : t.Inv) (row : Nat) (hr : row < t.numRows) :
    t.grid[row]?.getD [] = readWin t.data (t.asView.rowWin row) := by
  have hC : 0 < t.numCols := h.cols_pos hr
  have hdiv : t.data.length / t.numCols = t.numRows := by
    rw [h.len, Nat.mul_div_cancel_left _ hC]
  unfold TD.grid toRows
  rw [List.getElem?_map, hdiv, List.getElem?_range hr]
  show (t.data.drop (row * t.numCols)).take t.numCols = (t.data.drop (0 + row * t.numCols + 0)).take t.numCols
  rw [Nat.zero_add, Nat.add_zero]

/-- the key column of a column sort is the grid's column -/
theorem hs_col_key (t : TD α) (h : t.Inv) (col : Nat) (hc : col < t.numCols) :
    t.grid.filterMap (·[col]?) = (List.range t.asView.numRows).filterMap fun r => t.data[t.asView.pos col r]? := by
  have hdiv : t.data.length / t.numCols = t.numRows := by
    rw [h.len, Nat.mul_div_cancel_left _ (by omega)]
  unfold TD.grid toRows
  rw [List.filterMap_map, hdiv]
  apply filterMap_congr_mem
  intro r _
  show ((t.data.drop (r * t.numCols)).take t.numCols)[col]? = t.data[0 + r * t.numCols + col]?
  rw [List.getElem?_take, if_pos hc, List.getElem?_drop, Nat.zero_add]

theorem hs_ref_sortRow (lim : Nat) (t : TD α) (h : t.Inv) (side : SideSort α) (row : Nat) (hlim : t.numCols ≤ lim)
    (g' : List (List α)) (hg : gstepM t.grid (.sortRow side row) = some g') :
    (t.withData ((MOp.sortRow side row).spec t.asView lim t.data)).grid = g' := by
  simp only [gstepM, hs_headC t h, h.grid_length] at hg
  simp only [MOp.spec]
  by_cases hr : row < t.numRows
  · rw [if_pos hr, hs_row_key t h row hr] at hg
    rw [if_pos (show row < t.asView.numRows ∧ t.asView.numCols ≤ lim from ⟨hr, hlim⟩)]
    cases hs : side (readWin t.data (t.asView.rowWin row)) with
    | error e =>
      rw [hs] at hg
      simp only at hg
      injection hg with hg
    | ok p =>
      rw [hs] at hg
      simp only at hg
      by_cases hp : p.Perm (List.range t.numCols)
      · rw [if_pos hp] at hg
        injection hg with hg
        rw [← hg]
        exact hs_ref_perm t h _ (hs_sortColsG_cells t p hp)
      · rw [if_neg hp] at hg
        cases hg
  · rw [if_neg hr] at hg
    rw [if_neg (show ¬ (row < t.asView.numRows ∧ t.asView.numCols ≤ lim) from fun hc => hr hc.1)]
    injection hg with hg

theorem hs_ref_sortCol (lim : Nat) (t : TD α) (h : t.Inv) (side : SideSort α) (col : Nat) (hlim : t.numRows ≤ lim)
    (g' : List (List α)) (hg : gstepM t.grid (.sortCol side col) = some g') :
    (t.withData ((MOp.sortCol side col).spec t.asView lim t.data)).grid = g' := by
  simp only [gstepM, hs_headC t h, h.grid_length] at hg
  simp only [MOp.spec]
  by_cases hc : col < t.numCols
  · rw [if_pos hc, hs_col_key t h col hc] at hg
    rw [if_pos (show col < t.asView.numCols ∧ t.asView.numRows ≤ lim from ⟨hc, hlim⟩)]
    cases hs : side ((List.range t.asView.numRows).filterMap fun r => t.data[t.asView.pos col r]?) with
    | error e =>
      rw [hs] at hg
      simp only at hg
      injection hg with hg
    | ok p =>
      rw [hs] at hg
      simp only at hg
      by_cases hp : p.Perm (List.range t.numRows)
      · rw [if_pos hp] at hg
        injection hg with hg
        rw [← hg]
        exact hs_ref_perm t h _ (hs_sortRowsG_cells t p hp)
      · rw [if_neg hp] at hg
        cases hg
  · rw [if_neg hc] at hg
    rw [if_neg (show ¬ (col < t.asView.numCols ∧ t.asView.numRows ≤ lim) from fun hcc => hc hcc.1)]
    injection hg with hg

/-- **every in-place operation follows the plain model** -/
theorem hs_ref_inplace_spec (lim : Nat) (t : TD α) (h : t.Inv) (op : MOp α) (hsrc : op.srcOk)
    (hrow : ∀ side row, op = .sortRow side row → t.numCols ≤ lim)
    (hcol : ∀ side col, op = .sortCol side col → t.numRows ≤ lim)
    (g' : List (List α)) (hg : gstepM t.grid op = some g') :
    (t.withData (op.spec t.asView lim t.data)).grid = g' := by
  have fin : ∀ x : List (List α), gstepM t.grid op = some x → x = g' := fun x hx => by
    rw [hx] at hg
    exact Option.some.inj hg
  cases op with
  | set c r x => exact fin _ (hs_ref_set lim t h c r x)
  | setInRow r c x => exact fin _ (hs_ref_setInRow lim t h r c x)
  | fill x => exact fin _ (hs_ref_fill lim t h x)
  | swap c1 r1 c2 r2 => exact fin _ (hs_ref_swap lim t h c1 r1 c2 r2)
  | swapRows r1 r2 => exact fin _ (hs_ref_swapRows lim t h r1 r2)
  | swapCols c1 c2 => exact fin _ (hs_ref_swapCols lim t h c1 c2)
  | copyFromSlice src => exact fin _ (hs_ref_copyFromSlice lim t h src)
  | copyFromTooDee src => exact fin _ (hs_ref_copyFromTooDee lim t h src hsrc)
  | copyWithin tl br dest => exact fin _ (hs_ref_copyWithin lim t h tl br dest)
  | translate mc mr => exact fin _ (hs_ref_translate lim t h mc mr)
  | flipRows => exact fin _ (hs_ref_flipRows lim t h)
  | flipCols => exact fin _ (hs_ref_flipCols lim t h)
  | sortRow side row => exact hs_ref_sortRow lim t h side row (hrow side row rfl) g' hg
  | sortCol side col => exact hs_ref_sortCol lim t h side col (hcol side col rfl) g' hg

/-! ### the plain model's acceptance (`MOp.gok`) against the specification -/

theorem hs_gok_false_gstepM (g : List (List α)) (op : MOp α) (hk : op.gok g = false) : gstepM g op = some g := by
  cases op with
  | set c r x =>
    simp only [MOp.gok, decide_eq_false_iff_not] at hk
    simp only [gstepM, if_neg hk]
  | setInRow r c x =>
    simp only [MOp.gok, decide_eq_false_iff_not] at hk
    simp only [gstepM, if_neg hk]
  | fill x => cases hk
  | flipRows => cases hk
  | flipCols => cases hk
  | swap c1 r1 c2 r2 =>
    simp only [MOp.gok, decide_eq_false_iff_not] at hk
    simp only [gstepM, if_neg hk]
  | swapRows r1 r2 =>
    simp only [MOp.gok, decide_eq_false_iff_not] at hk
    simp only [gstepM, if_neg hk]
  | swapCols c1 c2 =>
    simp only [MOp.gok, decide_eq_false_iff_not] at hk
    simp only [gstepM, if_neg hk]
  | copyFromSlice src =>
    simp only [MOp.gok, decide_eq_false_iff_not] at hk
    simp only [gstepM, if_neg hk]
  | copyFromTooDee src =>
    simp only [MOp.gok] at hk
    simp only [gstepM]
    cases hsg : src.grid? with
    | none => rfl
    | some sg =>
      rw [hsg] at hk
      simp only [decide_eq_false_iff_not] at hk
      simp only [if_neg hk]
  | copyWithin tl br dest =>
    simp only [MOp.gok, decide_eq_false_iff_not] at hk
    simp only [gstepM, if_neg hk]
  | translate mc mr =>
    simp only [MOp.gok, decide_eq_false_iff_not] at hk
    simp only [gstepM, if_neg hk]
  | sortRow side row =>
    simp only [MOp.gok] at hk
    simp only [gstepM]
    by_cases hr : row < g.length
    · rw [if_pos hr]
      rw [decide_eq_true hr, Bool.true_and] at hk
      cases hs : side (g[row]?.getD []) with
      | ok p => rw [hs] at hk; cases hk
      | error er => rfl
    · rw [if_neg hr]
  | sortCol side col =>
    simp only [MOp.gok] at hk
    simp only [gstepM]
    by_cases hr : col < gcols g
    · rw [if_pos hr]
      rw [decide_eq_true hr, Bool.true_and] at hk
      cases hs : side (g.filterMap (·[col]?)) with
      | ok p => rw [hs] at hk; cases hk
      | error er => rfl
    · rw [if_neg hr]

/-- a call the plain model does not accept is rejected by the specification (or caller code panics inside its sort) -/
theorem hs_gok_false_spec (lim : Nat) (t : TD α) (h : t.Inv) (op : MOp α) (hs : op.Sane) (hk : op.gok t.grid = false) :
    op.spec t.asView lim t.data = .error .panic := by
  cases op with
  | set c r x =>
    simp only [MOp.gok, decide_eq_false_iff_not, hs_headC t h, h.grid_length] at hk
    simp only [MOp.spec, if_neg (show ¬ (c < t.asView.numCols ∧ r < t.asView.numRows) from hk)]
    rfl
  | setInRow r c x =>
    simp only [MOp.gok, decide_eq_false_iff_not, hs_headC t h, h.grid_length] at hk
    simp only [MOp.spec, if_neg (show ¬ (c < t.asView.numCols ∧ r < t.asView.numRows) from hk)]
    rfl
  | fill x => cases hk
  | flipRows => cases hk
  | flipCols => cases hk
  | swap c1 r1 c2 r2 =>
    simp only [MOp.gok, decide_eq_false_iff_not, hs_headC t h, h.grid_length] at hk
    simp only [MOp.spec, if_neg (show ¬ (c1 < t.asView.numCols ∧ c2 < t.asView.numCols ∧ r1 < t.asView.numRows ∧ r2 < t.asView.numRows) from hk)]
    rfl
  | swapRows r1 r2 =>
    simp only [MOp.gok, decide_eq_false_iff_not, h.grid_length] at hk
    simp only [MOp.spec, if_neg (show ¬ (r1 < t.asView.numRows ∧ r2 < t.asView.numRows) from hk)]
    rfl
  | swapCols c1 c2 =>
    simp only [MOp.gok, decide_eq_false_iff_not, hs_headC t h] at hk
    simp only [MOp.spec, if_neg (show ¬ (c1 < t.asView.numCols ∧ c2 < t.asView.numCols) from hk)]
    rfl
  | copyFromSlice src =>
    simp only [MOp.gok, decide_eq_false_iff_not, hs_headC t h, h.grid_length] at hk
    simp only [MOp.spec, if_neg (show ¬ (t.asView.numCols * t.asView.numRows = src.length) from hk)]
    rfl
  | copyFromTooDee src =>
    simp only [MOp.gok, hs_headC t h, h.grid_length] at hk
    simp only [MOp.spec]
    cases hsg : src.grid? with
    | none => rfl
    | some sg =>
      rw [hsg] at hk
      simp only [decide_eq_false_iff_not] at hk
      simp only [if_neg (show ¬ (sg.length = t.asView.numRows ∧ gcols sg = t.asView.numCols) from hk)]
      rfl
  | copyWithin tl br dest =>
    simp only [MOp.gok, decide_eq_false_iff_not, hs_headC t h, h.grid_length] at hk
    simp only [MOp.spec, if_neg (show ¬ rectsFit t.asView.numCols t.asView.numRows tl br dest from hk)]
    rfl
  | translate mc mr =>
    simp only [MOp.gok, decide_eq_false_iff_not, hs_headC t h, h.grid_length] at hk
    simp only [MOp.spec, if_neg (show ¬ (mc ≤ t.asView.numCols ∧ mr ≤ t.asView.numRows) from hk)]
    rfl
  | sortRow side row =>
    simp only [MOp.gok, h.grid_length] at hk
    simp only [MOp.spec]
    by_cases hr : row < t.numRows ∧ t.numCols ≤ lim
    · rw [if_pos (show row < t.asView.numRows ∧ t.asView.numCols ≤ lim from hr)]
      rw [decide_eq_true hr.1, Bool.true_and, hs_row_key t h row hr.1] at hk
      rcases hs (readWin t.data (t.asView.rowWin row)) with hside | ⟨p, hside, _⟩
      · rw [hside]; rfl
      · rw [hside] at hk; cases hk
    · rw [if_neg (show ¬ (row < t.asView.numRows ∧ t.asView.numCols ≤ lim) from hr)]
      rfl
  | sortCol side col =>
    simp only [MOp.gok, hs_headC t h] at hk
    simp only [MOp.spec]
    by_cases hc : col < t.numCols ∧ t.numRows ≤ lim
    · rw [if_pos (show col < t.asView.numCols ∧ t.asView.numRows ≤ lim from hc)]
      rw [decide_eq_true hc.1, Bool.true_and, hs_col_key t h col hc.1] at hk
      rcases hs ((List.range t.asView.numRows).filterMap fun r => t.data[t.asView.pos col r]?) with hside | ⟨p, hside, _⟩
      · rw [hside]; rfl
      · rw [hside] at hk; cases hk
    · rw [if_neg (show ¬ (col < t.asView.numCols ∧ t.asView.numRows ≤ lim) from hc)]
      rfl

/-- a call the plain model accepts succeeds (a sorted line must fit the side table) -/
theorem hs_gok_true_spec (lim : Nat) (t : TD α) (h : t.Inv) (op : MOp α)
    (hrow : ∀ side row, op = .sortRow side row → t.numCols ≤ lim)
    (hcol : ∀ side col, op = .sortCol side col → t.numRows ≤ lim) (hk : op.gok t.grid = true) :
    ∃ d, op.spec t.asView lim t.data = .ok d := by
  cases op with
  | set c r x =>
    simp only [MOp.gok, decide_eq_true_eq, hs_headC t h, h.grid_length] at hk
    simp only [MOp.spec, if_pos (show c < t.asView.numCols ∧ r < t.asView.numRows from hk)]
    exact ⟨_, rfl⟩
  | setInRow r c x =>
    simp only [MOp.gok, decide_eq_true_eq, hs_headC t h, h.grid_length] at hk
    simp only [MOp.spec, if_pos (show c < t.asView.numCols ∧ r < t.asView.numRows from hk)]
    exact ⟨_, rfl⟩
  | fill x => exact ⟨_, rfl⟩
  | flipRows => exact ⟨_, rfl⟩
  | flipCols => exact ⟨_, rfl⟩
  | swap c1 r1 c2 r2 =>
    simp only [MOp.gok, decide_eq_true_eq, hs_headC t h, h.grid_length] at hk
    simp only [MOp.spec, if_pos (show c1 < t.asView.numCols ∧ c2 < t.asView.numCols ∧ r1 < t.asView.numRows ∧ r2 < t.asView.numRows from hk)]
    exact ⟨_, rfl⟩
  | swapRows r1 r2 =>
    simp only [MOp.gok, decide_eq_true_eq, h.grid_length] at hk
    simp only [MOp.spec, if_pos (show r1 < t.asView.numRows ∧ r2 < t.asView.numRows from hk)]
    exact ⟨_, rfl⟩
  | swapCols c1 c2 =>
    simp only [MOp.gok, decide_eq_true_eq, hs_headC t h] at hk
    simp only [MOp.spec, if_pos (show c1 < t.asView.numCols ∧ c2 < t.asView.numCols from hk)]
    exact ⟨_, rfl⟩
  | copyFromSlice src =>
    simp only [MOp.gok, decide_eq_true_eq, hs_headC t h, h.grid_length] at hk
    simp only [MOp.spec, if_pos (show t.asView.numCols * t.asView.numRows = src.length from hk)]
    exact ⟨_, rfl⟩
  | copyFromTooDee src =>
    simp only [MOp.gok, hs_headC t h, h.grid_length] at hk
    simp only [MOp.spec]
    cases hsg : src.grid? with
    | none => rw [hsg] at hk; cases hk
    | some sg =>
      rw [hsg] at hk
      simp only [decide_eq_true_eq] at hk
      simp only [if_pos (show sg.length = t.asView.numRows ∧ gcols sg = t.asView.numCols from hk)]
      exact ⟨_, rfl⟩
  | copyWithin tl br dest =>
    simp only [MOp.gok, decide_eq_true_eq, hs_headC t h, h.grid_length] at hk
    simp only [MOp.spec, if_pos (show rectsFit t.asView.numCols t.asView.numRows tl br dest from hk)]
    exact ⟨_, rfl⟩
  | translate mc mr =>
    simp only [MOp.gok, decide_eq_true_eq, hs_headC t h, h.grid_length] at hk
    simp only [MOp.spec, if_pos (show mc ≤ t.asView.numCols ∧ mr ≤ t.asView.numRows from hk)]
    exact ⟨_, rfl⟩
  | sortRow side row =>
    simp only [MOp.gok, h.grid_length, Bool.and_eq_true, decide_eq_true_eq] at hk
    obtain ⟨hr, hk⟩ := hk
    rw [hs_row_key t h row hr] at hk
    simp only [MOp.spec]
    rw [if_pos (show row < t.asView.numRows ∧ t.asView.numCols ≤ lim from ⟨hr, hrow side row rfl⟩)]
    cases hside : side (readWin t.data (t.asView.rowWin row)) with
    | ok p => exact ⟨_, rfl⟩
    | error er => rw [hside] at hk; cases hk
  | sortCol side col =>
    simp only [MOp.gok, hs_headC t h, Bool.and_eq_true, decide_eq_true_eq] at hk
    obtain ⟨hc, hk⟩ := hk
    rw [hs_col_key t h col hc] at hk
    simp only [MOp.spec]
    rw [if_pos (show col < t.asView.numCols ∧ t.asView.numRows ≤ lim from ⟨hc, hcol side col rfl⟩)]
    cases hside : side ((List.range t.asView.numRows).filterMap fun r => t.data[t.asView.pos col r]?) with
    | ok p => exact ⟨_, rfl⟩
    | error er => rw [hside] at hk; cases hk

end Toodee
