import Toodee.Impl.Translate
import Toodee.Proofs.CellsLemmas
import Toodee.Properties.C13
/-
  Helper lemmas for C15 (translate / flips).  Core-only (no Mathlib); the number theory of the cycle-leader loop is
  isolated in the hypothesis structure `OrbitFacts`, which `Toodee/Proofs/Orbit.lean` establishes (also core-only:
  `Nat.gcd` / `Nat.Coprime` are in Lean core) together with the final `translate_spec`.

  * arithmetic: `x % C` for `x < 2C`, the predecessor row on a cycle;
  * cell maps of the std building blocks on row windows (`rotlMap`, `revMap`, `swapWinMap`, the two `swap_with_slice`
    of `swapRotate`) as `mapCells`;
  * per-row folds (`flip_cols`, the column-only fast path of `translate_with_wrap`);
  * the `flip_rows` loop;
  * the row-state abstraction `rowG C src rot` ("row `r` holds old row `src r` rotated left by `rot r`"), the inner
    (one cycle) and the outer loop of `translate_with_wrap`.
-/
namespace Toodee
variable {α : Type}

/-! ### arithmetic -/

theorem tr_mod_eq_of_cases {x C y : Nat} (hy : y < C) (h : x = y ∨ x = y + C) : x % C = y := by
  rcases h with h | h
  · rw [h]; exact Nat.mod_eq_of_lt hy
  · rw [h, Nat.add_mod_right]; exact Nat.mod_eq_of_lt hy

theorem tr_mod_cases {x C : Nat} (h : x < 2 * C) : (x < C ∧ x % C = x) ∨ (C ≤ x ∧ x % C = x - C) := by
  by_cases hx : x < C
  · exact Or.inl ⟨hx, Nat.mod_eq_of_lt hx⟩
  · refine Or.inr ⟨Nat.le_of_not_lt hx, ?_⟩
    rw [Nat.mod_eq_sub_mod (Nat.le_of_not_lt hx)]; exact Nat.mod_eq_of_lt (by omega)

/-- the row that precedes `b` on the cycle with step `R - mr` is `(b + mr) % R` -/
theorem pred_row {x b R mr : Nat} (hx : x < R) (_hb : b < R) (h0 : 0 < mr) (h1 : mr < R)
    (he : (x + (R - mr)) % R = b) : x = (b + mr) % R := by
  rcases tr_mod_cases (x := x + (R - mr)) (C := R) (by omega) with ⟨h2, h3⟩ | ⟨h2, h3⟩
  · rw [h3] at he
    exact (tr_mod_eq_of_cases hx (Or.inr (by omega))).symm
  · rw [h3] at he
    exact (tr_mod_eq_of_cases hx (Or.inl (by omega))).symm

theorem tr_add_mod_inj {c c' k C : Nat} (hc : c < C) (hc' : c' < C) (he : (c + k) % C = (c' + k) % C) : c = c' := by
  rw [← Nat.add_mod_mod c k C, ← Nat.add_mod_mod c' k C] at he
  have hk : k % C < C := Nat.mod_lt _ (by omega)
  rcases tr_mod_cases (x := c + k % C) (C := C) (by omega) with ⟨_, h1⟩ | ⟨_, h1⟩ <;>
  rcases tr_mod_cases (x := c' + k % C) (C := C) (by omega) with ⟨_, h2⟩ | ⟨_, h2⟩ <;>
  rw [h1, h2] at he <;> omega

/-! ### sizes under the invariants -/

theorem tr_wf_le_len {it : Rows} {k n : Nat} (h : it.WF k n) : k ≤ it.v.len := by
  by_cases hk : k = 0
  · omega
  · have hc := h.cols_pos hk
    have hl := h.len
    rw [if_neg hk] at hl
    have : (k - 1) * 1 ≤ (k - 1) * (it.cols + it.skip) := Nat.mul_le_mul_left _ (by omega)
    omega

theorem tr_cols_pos {v : VW} {n : Nat} (h : v.Inv n) (hr : 0 < v.numRows) : 0 < v.numCols := by
  have := h.zero; omega

theorem tr_rows_le {v : VW} {n : Nat} (h : v.Inv n) : v.numRows ≤ n := by
  by_cases hr : v.numRows = 0
  · omega
  · have hc := tr_cols_pos h (by omega)
    have hl := h.len
    rw [if_neg hr] at hl
    have h1 := h.inside
    have h2 := h.stride
    have : (v.numRows - 1) * 1 ≤ (v.numRows - 1) * v.stride := Nat.mul_le_mul_left _ (by omega)
    omega

theorem tr_cols_le {v : VW} {n : Nat} (h : v.Inv n) (hr : 0 < v.numRows) : v.numCols ≤ n := by
  have hl := h.len
  rw [if_neg (by omega)] at hl
  have h1 := h.inside
  omega

/-- with at least two rows, twice the row length fits a `usize` (so `mid += col_mid` cannot overflow) -/
theorem tr_two_cols_lt {v : VW} {n : Nat} (h : v.Inv n) (hr : 2 ≤ v.numRows) : 2 * v.numCols < WORD := by
  have hl := h.len
  rw [if_neg (by omega)] at hl
  have h1 := h.inside
  have h2 := h.stride
  have h3 := h.word
  have : 1 * v.stride ≤ (v.numRows - 1) * v.stride := Nat.mul_le_mul_right _ (by omega)
  omega

/-! ### cell maps that act inside rows -/

/-- apply the column map `f` in row `r0` only -/
def rowColG (r0 : Nat) (f : Nat → Nat) : Nat × Nat → Nat × Nat := fun cr => if cr.2 = r0 then (f cr.1, cr.2) else cr
/-- apply the column map `f` in all rows `< k` -/
def prefColG (k : Nat) (f : Nat → Nat) : Nat × Nat → Nat × Nat := fun cr => if cr.2 < k then (f cr.1, cr.2) else cr

theorem rowColG_lt {C R r0 : Nat} {f : Nat → Nat} (hf : ∀ c, c < C → f c < C) :
    ∀ c r, c < C → r < R → (rowColG r0 f (c, r)).1 < C ∧ (rowColG r0 f (c, r)).2 < R := by
  intro c r hc hr
  simp only [rowColG]
  split
  · exact ⟨hf c hc, hr⟩
  · exact ⟨hc, hr⟩

theorem prefColG_lt {C R k : Nat} {f : Nat → Nat} (hf : ∀ c, c < C → f c < C) :
    ∀ c r, c < C → r < R → (prefColG k f (c, r)).1 < C ∧ (prefColG k f (c, r)).2 < R := by
  intro c r hc hr
  simp only [prefColG]
  split
  · exact ⟨hf c hc, hr⟩
  · exact ⟨hc, hr⟩

theorem prefColG_succ (k : Nat) (f : Nat → Nat) (cr : Nat × Nat) :
    prefColG k f (rowColG k f cr) = prefColG (k + 1) f cr := by
  obtain ⟨c, r⟩ := cr
  simp only [prefColG, rowColG]
  by_cases h1 : r = k
  · subst h1; simp
  · by_cases h2 : r < k
    · have : r < k + 1 := by omega
      simp [h1, h2, this]
    · have : ¬ r < k + 1 := by omega
      simp [h1, h2, this]

/-- a position map that acts on the row window `r0` by `w.off + f (p - w.off)` is the cell map `rowColG r0 f` -/
theorem rowMap_eq_mapCells {v : VW} {n : Nat} (h : v.Inv n) {r0 : Nat} (hr0 : r0 < v.numRows) (f : Nat → Nat)
    (F : Nat → Nat)
    (hF : ∀ p, F p = if (v.rowWin r0).contains p then (v.rowWin r0).off + f (p - (v.rowWin r0).off) else p)
    (p : Nat) : F p = v.mapCells (rowColG r0 f) p := by
  rw [hF]
  cases hq : v.coord? p with
  | none =>
    rw [VW.rowWin_contains_of_none h hr0 hq, VW.mapCells_of_none _ hq]; simp
  | some cr =>
    obtain ⟨c, r⟩ := cr
    obtain ⟨hp, hc, hr⟩ := VW.coord?_eq_some hq
    rw [VW.mapCells_of_some _ hq]
    by_cases hrr : r = r0
    · subst hrr
      have hcont : (v.rowWin r).contains p = true := by
        rw [hp]; exact (VW.rowWin_contains_pos h hr hc hr).2 rfl
      rw [hcont]
      have : p - (v.rowWin r).off = c := by rw [hp]; simp only [VW.rowWin, VW.pos]; omega
      rw [this]
      simp only [rowColG, if_true, VW.rowWin, VW.pos]
      omega
    · have hcont : (v.rowWin r0).contains p = false := by
        cases hb : (v.rowWin r0).contains p
        · rfl
        · rw [hp] at hb
          exact absurd ((VW.rowWin_contains_pos h hr0 hc hr).1 hb) hrr
      rw [hcont]
      simp only [rowColG, if_neg hrr, Bool.false_eq_true, if_false]
      exact hp

theorem rotlMap_eq_mapCells {v : VW} {n : Nat} (h : v.Inv n) {r0 : Nat} (hr0 : r0 < v.numRows) (mid p : Nat) :
    rotlMap (v.rowWin r0) mid p = v.mapCells (rowColG r0 (fun c => (c + mid) % v.numCols)) p :=
  rowMap_eq_mapCells h hr0 (fun c => (c + mid) % v.numCols) (rotlMap (v.rowWin r0) mid) (fun _ => rfl) p

theorem revMap_eq_mapCells {v : VW} {n : Nat} (h : v.Inv n) {r0 : Nat} (hr0 : r0 < v.numRows) (p : Nat) :
    revMap (v.rowWin r0) p = v.mapCells (rowColG r0 (fun c => v.numCols - 1 - c)) p :=
  rowMap_eq_mapCells h hr0 (fun c => v.numCols - 1 - c) (revMap (v.rowWin r0)) (fun _ => rfl) p

/-! ### per-row folds: `flip_cols` and the column-only fast path -/

theorem foldl_rows {v : VW} (buf : List α) (h : v.Inv buf.length) (f : Nat → Nat)
    (hf : ∀ c, c < v.numCols → f c < v.numCols)
    (step : List α → Win → List α)
    (hstep : ∀ (cur : List α) r, cur.length = buf.length → r < v.numRows →
      step cur (v.rowWin r) = gather cur (v.mapCells (rowColG r f)))
    (k : Nat) (hk : k ≤ v.numRows) :
    ((List.range k).map v.rowWin).foldl step buf = gather buf (v.mapCells (prefColG k f)) := by
  induction k with
  | zero =>
    simp only [List.range_zero, List.map_nil, List.foldl_nil]
    exact (gather_eq_self buf _ (fun p _ => VW.mapCells_eq_self _ (fun c r _ _ => by simp [prefColG]) p)).symm
  | succ k ih =>
    rw [List.range_succ, List.map_append, List.foldl_append, ih (by omega)]
    simp only [List.map_cons, List.map_nil, List.foldl_cons, List.foldl_nil]
    rw [hstep _ k (gather_mapCells_length buf h _ (prefColG_lt hf)) (by omega),
      gather_mapCells_comp buf h _ _ (prefColG_lt hf) (rowColG_lt hf)]
    exact gather_congr buf _ _ (fun p _ => VW.mapCells_congr _ _ (fun c r _ _ => prefColG_succ k f (c, r)) p)

theorem foldlM_rows {v : VW} (buf : List α) (h : v.Inv buf.length) (f : Nat → Nat)
    (hf : ∀ c, c < v.numCols → f c < v.numCols)
    (step : List α → Win → Res (List α))
    (hstep : ∀ (cur : List α) r, cur.length = buf.length → r < v.numRows →
      step cur (v.rowWin r) = .ok (gather cur (v.mapCells (rowColG r f))))
    (k : Nat) (hk : k ≤ v.numRows) :
    ((List.range k).map v.rowWin).foldlM step buf = .ok (gather buf (v.mapCells (prefColG k f))) := by
  induction k with
  | zero =>
    simp only [List.range_zero, List.map_nil, List.foldlM_nil, pure_eq]
    congr 1
    exact (gather_eq_self buf _ (fun p _ => VW.mapCells_eq_self _ (fun c r _ _ => by simp [prefColG]) p)).symm
  | succ k ih =>
    rw [List.range_succ, List.map_append, List.foldlM_append, ih (by omega)]
    simp only [List.map_cons, List.map_nil, List.foldlM_cons, List.foldlM_nil, ok_bind]
    rw [hstep _ k (gather_mapCells_length buf h _ (prefColG_lt hf)) (by omega)]
    simp only [ok_bind, pure_eq]
    congr 1
    rw [gather_mapCells_comp buf h _ _ (prefColG_lt hf) (rowColG_lt hf)]
    exact gather_congr buf _ _ (fun p _ => VW.mapCells_congr _ _ (fun c r _ _ => prefColG_succ k f (c, r)) p)

/-! ### the `flip_rows` loop -/

/-- rows `< t` and `≥ R - t` are flipped already -/
def flipPrefG (R t : Nat) : Nat × Nat → Nat × Nat :=
  fun cr => if cr.2 < t ∨ R - t ≤ cr.2 then (cr.1, R - 1 - cr.2) else cr

theorem flipPrefG_lt {C R t : Nat} :
    ∀ c r, c < C → r < R → (flipPrefG R t (c, r)).1 < C ∧ (flipPrefG R t (c, r)).2 < R := by
  intro c r hc hr
  simp only [flipPrefG]
  split
  · exact ⟨hc, by simp only; omega⟩
  · exact ⟨hc, hr⟩

theorem flipRowsLoop_spec (m : Mode) {v : VW} (buf : List α) (h : v.Inv buf.length) :
    ∀ (fuel t k : Nat) (it : Rows) (cur : List α), it.WF k buf.length →
      it.abs k = (List.range' t k).map v.rowWin → t + k + t = v.numRows → k < 2 * fuel →
      cur = gather buf (v.mapCells (flipPrefG v.numRows t)) →
      flipRowsLoop m fuel it cur = .ok (gather buf (v.mapCells (fun cr => (cr.1, v.numRows - 1 - cr.2)))) := by
  intro fuel
  induction fuel with
  | zero => intro t k it cur _ _ _ hf; omega
  | succ fuel ih =>
    intro t k it cur hwf habs htk hf hcur
    obtain ⟨it1, hn, hwf1, _, _, habs1⟩ := Rows.next_spec hwf
    obtain ⟨it2, hb, hwf2, _, _, habs2⟩ := Rows.nextBack_spec m hwf1
    have hdone : ∀ t', t' + t' = v.numRows ∨ t' + 1 + t' = v.numRows →
        gather buf (v.mapCells (flipPrefG v.numRows t')) =
          gather buf (v.mapCells (fun cr => (cr.1, v.numRows - 1 - cr.2))) := by
      intro t' ht'
      apply gather_congr
      intro p _
      apply VW.mapCells_congr
      intro c r _ hr
      simp only [flipPrefG]
      split
      · rfl
      · have : r = v.numRows - 1 - r := by omega
        rw [← this]
    rw [flipRowsLoop, hn]
    simp only [ok_bind]
    rw [hb]
    simp only [ok_bind]
    match k, hwf, habs, htk, hf, hwf1, hwf2, habs1, habs2 with
    | 0, hwf, habs, htk, hf, hwf1, hwf2, habs1, habs2 =>
      rw [habs]
      simp only [List.range'_zero, List.map_nil, List.head?_nil, pure_eq]
      rw [hcur, hdone t (Or.inl (by omega))]
    | 1, hwf, habs, htk, hf, hwf1, hwf2, habs1, habs2 =>
      have e0 : it1.abs (1 - 1) = [] := Rows.abs_zero it1
      rw [habs, e0]
      simp only [List.range'_one, List.map_cons, List.map_nil, List.head?_cons, List.getLast?_nil, pure_eq]
      rw [hcur, hdone t (Or.inr (by omega))]
    | k + 2, hwf, habs, htk, hf, hwf1, hwf2, habs1, habs2 =>
      have e1 : (it.abs (k + 2)).head? = some (v.rowWin t) := by
        rw [habs, List.range'_succ]; rfl
      have e2 : (it.abs (k + 2)).tail = (List.range' (t + 1) (k + 1)).map v.rowWin := by
        rw [habs, List.range'_succ]; rfl
      have e3 : ((it.abs (k + 2)).tail).getLast? = some (v.rowWin (t + 1 + k)) := by
        rw [e2, List.range'_concat]; simp
      have e4 : ((it.abs (k + 2)).tail).dropLast = (List.range' (t + 1) k).map v.rowWin := by
        rw [e2, List.range'_concat]; simp
      have hr1 : t < v.numRows := by omega
      have hr2 : t + 1 + k < v.numRows := by omega
      have hne : t ≠ t + 1 + k := by omega
      simp only [show k + 2 - 1 = k + 1 from rfl, show k + 1 - 1 = k from rfl] at habs1 habs2 hwf2 hb
      rw [habs1] at habs2
      simp only [show k + 2 - 1 = k + 1 from rfl]
      rw [e1, habs1, e3]
      simp only
      have hlen : cur.length = buf.length := by
        rw [hcur]; exact gather_mapCells_length buf h _ flipPrefG_lt
      have hsw : swapWithSlice cur (v.rowWin t) (v.rowWin (t + 1 + k)) =
          .ok (gather buf (v.mapCells (flipPrefG v.numRows (t + 1)))) := by
        unfold swapWithSlice
        rw [if_pos (by simp [VW.rowWin])]
        simp only [pure_eq]
        congr 1
        rw [gather_congr cur _ _ (fun p _ => VW.swapWinMap_rows (hlen ▸ h) hr1 hr2 hne p), hcur,
          gather_mapCells_comp buf h _ _ flipPrefG_lt
            (fun c r hc hr => ⟨hc, swapIdx_lt hr1 hr2 hr⟩)]
        apply gather_congr
        intro p _
        apply VW.mapCells_congr
        intro c r _ hr
        simp only [flipPrefG, swapIdx]
        by_cases h1 : r = t
        · subst h1
          rw [if_pos rfl, if_neg (by omega), if_pos (by omega)]
          simp only [Prod.mk.injEq, true_and]; omega
        · rw [if_neg h1]
          by_cases h2 : r = t + 1 + k
          · subst h2
            rw [if_pos rfl, if_neg (by omega), if_pos (by omega)]
            simp only [Prod.mk.injEq, true_and]; omega
          · rw [if_neg h2]
            by_cases h3 : r < t ∨ v.numRows - t ≤ r
            · rw [if_pos h3, if_pos (by omega)]
            · rw [if_neg h3, if_neg (by omega)]
      rw [hsw]
      simp only [ok_bind]
      exact ih (t + 1) k it2 _ hwf2 (by rw [habs2, e4]) (by omega) (by omega) rfl

/-! ### the rotate-while-swapping step as a cell permutation -/

theorem swapWinMap_fst {w1 w2 : Win} {p : Nat} (h : w1.off ≤ p ∧ p < w1.off + w1.len) :
    swapWinMap w1 w2 p = w2.off + (p - w1.off) := by
  simp [swapWinMap, Win.contains, h.1, h.2]

theorem swapWinMap_snd {w1 w2 : Win} {p : Nat} (h1 : ¬ (w1.off ≤ p ∧ p < w1.off + w1.len))
    (h2 : w2.off ≤ p ∧ p < w2.off + w2.len) : swapWinMap w1 w2 p = w1.off + (p - w2.off) := by
  have c1 : w1.contains p = false := (Win.contains_eq_false_iff w1 p).2 h1
  have c2 : w2.contains p = true := (Win.contains_iff w2 p).2 h2
  simp [swapWinMap, c1, c2]

theorem swapWinMap_not {w1 w2 : Win} {p : Nat} (h1 : ¬ (w1.off ≤ p ∧ p < w1.off + w1.len))
    (h2 : ¬ (w2.off ≤ p ∧ p < w2.off + w2.len)) : swapWinMap w1 w2 p = p := by
  have c1 : w1.contains p = false := (Win.contains_eq_false_iff w1 p).2 h1
  have c2 : w2.contains p = false := (Win.contains_eq_false_iff w2 p).2 h2
  simp [swapWinMap, c1, c2]

/-- `next := rotl(base, mid)`, `base := rotr(next, mid)` -/
def swapRotG (C b n mid : Nat) : Nat × Nat → Nat × Nat := fun cr =>
  if cr.2 = n then ((cr.1 + mid) % C, b)
  else if cr.2 = b then ((cr.1 + (C - mid)) % C, n)
  else cr

theorem swapRotG_lt {C R b n mid : Nat} (hb : b < R) (hn : n < R) :
    ∀ c r, c < C → r < R → (swapRotG C b n mid (c, r)).1 < C ∧ (swapRotG C b n mid (c, r)).2 < R := by
  intro c r hc hr
  simp only [swapRotG]
  split
  · exact ⟨Nat.mod_lt _ (by omega), hb⟩
  · split
    · exact ⟨Nat.mod_lt _ (by omega), hn⟩
    · exact ⟨hc, hr⟩

/-- the two `swap_with_slice` of complementary pieces of rows `b` (base) and `x` (next) -/
theorem swapRot_eq_mapCells {v : VW} {n : Nat} (h : v.Inv n) {b x mid : Nat} (hb : b < v.numRows)
    (hx : x < v.numRows) (hne : b ≠ x) (hmid : mid < v.numCols) (p : Nat) :
    swapWinMap ⟨v.pos 0 b, mid⟩ ⟨v.pos 0 x + (v.numCols - mid), v.numCols - (v.numCols - mid)⟩
      (swapWinMap ⟨v.pos 0 b + mid, v.numCols - mid⟩ ⟨v.pos 0 x, v.numCols - mid⟩ p)
      = v.mapCells (swapRotG v.numCols b x mid) p := by
  have hd := VW.rowWin_disjoint h hne
  simp only [Win.Disjoint, VW.rowWin] at hd
  cases hq : v.coord? p with
  | none =>
    rw [VW.mapCells_of_none _ hq]
    have hA := (Win.contains_eq_false_iff _ _).1 (VW.rowWin_contains_of_none h hb hq)
    have hB := (Win.contains_eq_false_iff _ _).1 (VW.rowWin_contains_of_none h hx hq)
    simp only [VW.rowWin] at hA hB
    rw [swapWinMap_not (p := p) (by simp only; omega) (by simp only; omega),
      swapWinMap_not (by simp only; omega) (by simp only; omega)]
  | some cr =>
    obtain ⟨c, r⟩ := cr
    obtain ⟨he, hc, hr⟩ := VW.coord?_eq_some hq
    rw [VW.mapCells_of_some _ hq]
    simp only [swapRotG]
    by_cases h1 : r = x
    · subst h1
      rw [if_pos rfl]
      simp only [VW.pos] at he hd ⊢
      rcases tr_mod_cases (x := c + mid) (C := v.numCols) (by omega) with ⟨h2, h3⟩ | ⟨h2, h3⟩
      · rw [h3, swapWinMap_snd (p := p) (by simp only; omega) (by simp only; omega)]
        simp only
        rw [swapWinMap_not (by simp only; omega) (by simp only; omega)]
        omega
      · rw [h3, swapWinMap_not (p := p) (by simp only; omega) (by simp only; omega),
          swapWinMap_snd (by simp only; omega) (by simp only; omega)]
        simp only
        omega
    · rw [if_neg h1]
      by_cases h2 : r = b
      · subst h2
        rw [if_pos rfl]
        simp only [VW.pos] at he hd ⊢
        rcases tr_mod_cases (x := c + (v.numCols - mid)) (C := v.numCols) (by omega) with ⟨h2, h3⟩ | ⟨h2, h3⟩
        · rw [h3, swapWinMap_not (p := p) (by simp only; omega) (by simp only; omega),
            swapWinMap_fst (by simp only; omega)]
          simp only
          omega
        · rw [h3, swapWinMap_fst (p := p) (by simp only; omega)]
          simp only
          rw [swapWinMap_not (by simp only; omega) (by simp only; omega)]
          omega
      · rw [if_neg h2]
        have hd1 := VW.rowWin_disjoint h h1
        have hd2 := VW.rowWin_disjoint h h2
        simp only [Win.Disjoint, VW.rowWin] at hd1 hd2
        simp only [VW.pos] at he hd hd1 hd2 ⊢
        rw [swapWinMap_not (p := p) (by simp only; omega) (by simp only; omega),
          swapWinMap_not (by simp only; omega) (by simp only; omega)]
        exact he

theorem swapWinMap_lt {w1 w2 : Win} {N : Nat} (hl : w1.len = w2.len) (h1 : w1.off + w1.len ≤ N)
    (h2 : w2.off + w2.len ≤ N) {p : Nat} (hp : p < N) : swapWinMap w1 w2 p < N := by
  by_cases c1 : w1.off ≤ p ∧ p < w1.off + w1.len
  · rw [swapWinMap_fst c1]; omega
  · by_cases c2 : w2.off ≤ p ∧ p < w2.off + w2.len
    · rw [swapWinMap_snd c1 c2]; omega
    · rw [swapWinMap_not c1 c2]; exact hp

theorem tr_getTo_ok (w : Win) {e : Nat} (h : e ≤ w.len) : w.getTo e = .ok ⟨w.off, e⟩ := by
  simp [Win.getTo, h]

theorem swapWithSlice_ok (cur : List α) {a b : Win} (h : a.len = b.len) :
    swapWithSlice cur a b = .ok (gather cur (swapWinMap a b)) := by
  simp [swapWithSlice, h]

/-- `swapRotate` on two distinct rows of the receiver -/
theorem swapRotate_ok (m : Mode) {v : VW} (cur : List α) (h : v.Inv cur.length) {a : Acc} (ha : a.Of v cur.length)
    {b x mid : Nat} (hb : b < v.numRows) (hx : x < v.numRows) (hne : b ≠ x) (hmid : mid < v.numCols) :
    swapRotate m a cur b x mid v.numCols = .ok (gather cur (v.mapCells (swapRotG v.numCols b x mid))) := by
  have hRw : v.numRows < WORD := Nat.lt_of_le_of_lt (tr_rows_le h) h.word
  have hpair := ((C13_row_pair m v cur.length h a ha b x ⟨by omega, by omega⟩).1 ⟨hb, hx, hne⟩).1
  have hib := VW.rowWin_inside h hb
  have hix := VW.rowWin_inside h hx
  simp only [VW.rowWin] at hib hix
  have hsub : usub m v.numCols mid = .ok (v.numCols - mid) := usub_ok m _ _ (by omega)
  have g1 : (v.rowWin b).getTo mid = .ok ⟨v.pos 0 b, mid⟩ :=
    tr_getTo_ok _ (by simp only [VW.rowWin]; omega)
  have g2 : (v.rowWin x).getRange (v.numCols - mid) v.numCols =
      .ok ⟨v.pos 0 x + (v.numCols - mid), v.numCols - (v.numCols - mid)⟩ :=
    Win.getRange_ok _ (by omega) (by simp only [VW.rowWin]; omega)
  have g3 : (v.rowWin b).getRange mid v.numCols = .ok ⟨v.pos 0 b + mid, v.numCols - mid⟩ :=
    Win.getRange_ok _ (by omega) (by simp only [VW.rowWin]; omega)
  have g4 : (v.rowWin x).getTo (v.numCols - mid) = .ok ⟨v.pos 0 x, v.numCols - mid⟩ :=
    tr_getTo_ok _ (by simp only [VW.rowWin]; omega)
  have s1 : ∀ c : List α, swapWithSlice c ⟨v.pos 0 b, mid⟩
      ⟨v.pos 0 x + (v.numCols - mid), v.numCols - (v.numCols - mid)⟩ = .ok (gather c (swapWinMap ⟨v.pos 0 b, mid⟩
        ⟨v.pos 0 x + (v.numCols - mid), v.numCols - (v.numCols - mid)⟩)) :=
    fun c => swapWithSlice_ok c (by simp only; omega)
  have s2 : ∀ c : List α, swapWithSlice c ⟨v.pos 0 b + mid, v.numCols - mid⟩ ⟨v.pos 0 x, v.numCols - mid⟩ =
      .ok (gather c (swapWinMap ⟨v.pos 0 b + mid, v.numCols - mid⟩ ⟨v.pos 0 x, v.numCols - mid⟩)) :=
    fun c => swapWithSlice_ok c rfl
  have hfin : gather (gather cur (swapWinMap ⟨v.pos 0 b, mid⟩
        ⟨v.pos 0 x + (v.numCols - mid), v.numCols - (v.numCols - mid)⟩))
        (swapWinMap ⟨v.pos 0 b + mid, v.numCols - mid⟩ ⟨v.pos 0 x, v.numCols - mid⟩) =
      gather cur (v.mapCells (swapRotG v.numCols b x mid)) := by
    rw [gather_gather cur _ _
      (fun p hp => swapWinMap_lt (by simp only; omega) (by simp only; omega) (by simp only; omega) hp)
      (fun p hp => swapWinMap_lt (by simp only) (by simp only; omega) (by simp only; omega) hp)]
    exact gather_congr cur _ _ (fun p _ => swapRot_eq_mapCells h hb hx hne hmid p)
  by_cases hm0 : mid > 0
  · simp only [swapRotate, hpair, ok_bind, if_pos hm0, if_pos hmid, g1, g2, g3, g4, hsub, s1, s2, hfin]
  · have hid : gather cur (swapWinMap ⟨v.pos 0 b, mid⟩
        ⟨v.pos 0 x + (v.numCols - mid), v.numCols - (v.numCols - mid)⟩) = cur :=
      gather_eq_self cur _ (fun p _ => swapWinMap_not (by simp only; omega) (by simp only; omega))
    rw [hid] at hfin
    simp only [swapRotate, hpair, ok_bind, if_neg hm0, if_pos hmid, pure_eq, g3, g4, hsub, s2, hfin]

/-! ### the row-state abstraction: row `r` holds old row `src r` rotated left by `rot r` -/

def rowG (C : Nat) (src rot : Nat → Nat) : Nat × Nat → Nat × Nat :=
  fun cr => ((cr.1 + rot cr.2) % C, src cr.2)

/-- function update -/
def upd (f : Nat → Nat) (i x : Nat) : Nat → Nat := fun j => if j = i then x else f j

theorem upd_same (f : Nat → Nat) (i x : Nat) : upd f i x i = x := by simp [upd]
theorem upd_ne (f : Nat → Nat) {i j : Nat} (x : Nat) (h : j ≠ i) : upd f i x j = f j := by simp [upd, h]

theorem rowG_lt {C R : Nat} {src rot : Nat → Nat} (hC : 0 < C) (hsrc : ∀ r, r < R → src r < R) :
    ∀ c r, c < C → r < R → (rowG C src rot (c, r)).1 < C ∧ (rowG C src rot (c, r)).2 < R :=
  fun _ r _ hr => ⟨Nat.mod_lt _ hC, hsrc r hr⟩

theorem rowG_swapRot {C b x mid : Nat} (hne : b ≠ x) (src rot : Nat → Nat) (cr : Nat × Nat) :
    rowG C src rot (swapRotG C b x mid cr) =
      rowG C (upd (upd src x (src b)) b (src x))
        (upd (upd rot x ((rot b + mid) % C)) b ((rot x + (C - mid)) % C)) cr := by
  obtain ⟨c, r⟩ := cr
  simp only [rowG, swapRotG]
  by_cases h1 : r = x
  · subst h1
    have hrb : r ≠ b := fun e => hne e.symm
    rw [if_pos rfl, upd_ne _ _ hrb, upd_same, upd_ne _ _ hrb, upd_same]
    simp only [Nat.mod_add_mod, Nat.add_mod_mod, Prod.mk.injEq, and_true]
    congr 1; omega
  · rw [if_neg h1]
    by_cases h2 : r = b
    · subst h2
      rw [if_pos rfl, upd_same, upd_same]
      simp only [Nat.mod_add_mod, Nat.add_mod_mod, Prod.mk.injEq, and_true]
      congr 1; omega
    · rw [if_neg h2, upd_ne _ _ h2, upd_ne _ _ h1, upd_ne _ _ h2, upd_ne _ _ h1]

theorem rowG_rotRow {C b mid : Nat} (src rot : Nat → Nat) (cr : Nat × Nat) :
    rowG C src rot (rowColG b (fun c => (c + mid) % C) cr) = rowG C src (upd rot b ((rot b + mid) % C)) cr := by
  obtain ⟨c, r⟩ := cr
  simp only [rowG, rowColG]
  by_cases h1 : r = b
  · subst h1
    rw [if_pos rfl, upd_same]
    simp only [Nat.mod_add_mod, Nat.add_mod_mod, Prod.mk.injEq, and_true]
    congr 1; omega
  · rw [if_neg h1, upd_ne _ _ h1]

/-- one rotate-while-swapping step on the row state -/
theorem step_swapRotate (m : Mode) {v : VW} (buf cur : List α) (h : v.Inv buf.length) {a : Acc}
    (ha : a.Of v buf.length) {src rot : Nat → Nat} (hsrc : ∀ r, r < v.numRows → src r < v.numRows)
    (hcur : cur = gather buf (v.mapCells (rowG v.numCols src rot)))
    {b x mid : Nat} (hb : b < v.numRows) (hx : x < v.numRows) (hne : b ≠ x) (hmid : mid < v.numCols) :
    swapRotate m a cur b x mid v.numCols =
      .ok (gather buf (v.mapCells (rowG v.numCols (upd (upd src x (src b)) b (src x))
        (upd (upd rot x ((rot b + mid) % v.numCols)) b ((rot x + (v.numCols - mid)) % v.numCols))))) := by
  have hC : 0 < v.numCols := by omega
  have hlen : cur.length = buf.length := by
    rw [hcur]; exact gather_mapCells_length buf h _ (rowG_lt hC hsrc)
  rw [swapRotate_ok m cur (hlen ▸ h) (hlen ▸ ha) hb hx hne hmid, hcur,
    gather_mapCells_comp buf h _ _ (rowG_lt hC hsrc) (swapRotG_lt hb hx)]
  congr 1
  exact gather_congr buf _ _ (fun p _ => VW.mapCells_congr _ _ (fun c r _ _ => rowG_swapRot hne src rot (c, r)) p)

/-- the closing `rotate_left` on the row state -/
theorem step_rotate {v : VW} (buf cur : List α) (h : v.Inv buf.length) {src rot : Nat → Nat}
    (hsrc : ∀ r, r < v.numRows → src r < v.numRows)
    (hcur : cur = gather buf (v.mapCells (rowG v.numCols src rot)))
    {b mid : Nat} (hb : b < v.numRows) (hmid : mid < v.numCols) :
    rotateLeftWin cur (v.rowWin b) mid =
      .ok (gather buf (v.mapCells (rowG v.numCols src (upd rot b ((rot b + mid) % v.numCols))))) := by
  have hC : 0 < v.numCols := by omega
  have hlen : cur.length = buf.length := by
    rw [hcur]; exact gather_mapCells_length buf h _ (rowG_lt hC hsrc)
  unfold rotateLeftWin
  rw [if_pos (by simp only [VW.rowWin]; omega)]
  simp only [pure_eq]
  congr 1
  rw [gather_congr cur _ _ (fun p _ => rotlMap_eq_mapCells (hlen ▸ h) hb mid p), hcur,
    gather_mapCells_comp buf h _ _ (rowG_lt hC hsrc) (rowColG_lt (fun c _ => Nat.mod_lt _ hC))]
  exact gather_congr buf _ _ (fun p _ => VW.mapCells_congr _ _ (fun c r _ _ => rowG_rotRow src rot (c, r)) p)

/-! ### the loops, one iteration unfolded (explicit binds instead of the join points of `do`) -/

theorem tr_ite_bind {β γ : Type} (c : Prop) [Decidable c] (x y : Res β) (f : β → Res γ) :
    ((if c then x else y) >>= f) = if c then x >>= f else y >>= f := by
  split <;> rfl

theorem translateInner_succ (m : Mode) (a : Acc) (getRowMut : Nat → Res Win)
    (numCols numRows colMid rowMid rowAdj baseRow fuel : Nat) (buf : List α) (mid nextRow sc : Nat) :
    translateInner m a getRowMut numCols numRows colMid rowMid rowAdj baseRow (fuel + 1) buf mid nextRow sc =
     ((if nextRow ≥ numRows then usub m nextRow numRows else pure nextRow) >>= fun nextRow =>
      uadd m sc 1 >>= fun swapCount =>
      if baseRow = nextRow then
        (if mid > 0 then
          getRowMut baseRow >>= fun w => rotateLeftWin buf w mid >>= fun buf => pure (buf, swapCount)
        else pure (buf, swapCount))
      else
        swapRotate m a buf baseRow nextRow mid numCols >>= fun buf =>
        uadd m mid colMid >>= fun mid1 =>
        (if mid1 ≥ numCols then usub m mid1 numCols else pure mid1) >>= fun mid2 =>
        (if nextRow ≥ rowMid then usub m nextRow rowMid else uadd m nextRow rowAdj) >>= fun nextRow' =>
        translateInner m a getRowMut numCols numRows colMid rowMid rowAdj baseRow fuel buf mid2 nextRow' swapCount) := by
  rw [translateInner]
  simp only [tr_ite_bind, pure_eq, ok_bind]

theorem translateOuter_succ (m : Mode) (a : Acc) (getRowMut : Nat → Res Win)
    (numCols numRows colMid rowMid rowAdj fuel : Nat) (buf : List α) (sc baseRow : Nat) :
    translateOuter m a getRowMut numCols numRows colMid rowMid rowAdj (fuel + 1) buf sc baseRow =
      if sc < numRows then
        uadd m baseRow rowAdj >>= fun nextRow =>
        translateInner m a getRowMut numCols numRows colMid rowMid rowAdj baseRow (numRows + 2) buf colMid nextRow sc
          >>= fun r =>
        if r.2 ≥ numRows then pure r.1
        else
          uadd m baseRow 1 >>= fun baseRow =>
          translateOuter m a getRowMut numCols numRows colMid rowMid rowAdj fuel r.1 r.2 baseRow
      else pure buf := by
  rw [translateOuter]

/-! ### the inner loop: one cycle of the cycle-leader algorithm -/

/-- the `k`-th row on the cycle of base `b` with step `A` -/
def nx (R A b k : Nat) : Nat := (b + k * A) % R

theorem nx_zero {R A b : Nat} (hb : b < R) : nx R A b 0 = b := by
  simp [nx, Nat.mod_eq_of_lt hb]

theorem nx_lt {R : Nat} (A b k : Nat) (hR : 0 < R) : nx R A b k < R := Nat.mod_lt _ hR

theorem nx_succ (R A b k : Nat) : nx R A b (k + 1) = (nx R A b k + A) % R := by
  simp only [nx, Nat.mod_add_mod, Nat.succ_mul, Nat.add_assoc]

/-- row `r` has its final content -/
def RowDone (R mr mc : Nat) (src rot : Nat → Nat) (r : Nat) : Prop := src r = (r + mr) % R ∧ rot r = mc
/-- row `r` is untouched -/
def RowFresh (src rot : Nat → Nat) (r : Nat) : Prop := src r = r ∧ rot r = 0

theorem inner_spec (m : Mode) {v : VW} (buf : List α) (h : v.Inv buf.length) {a : Acc} (ha : a.Of v buf.length)
    (getRowMut : Nat → Res Win) (hget : ∀ r, r < v.numRows → getRowMut r = .ok (v.rowWin r))
    {mc mr : Nat} (hmc : mc < v.numCols) (hmr0 : 0 < mr) (hmr : mr < v.numRows)
    {b L : Nat} (hb : b < v.numRows) (S : List Nat)
    (hret : nx v.numRows (v.numRows - mr) b L = b)
    (hnr : ∀ k, 0 < k → k < L → nx v.numRows (v.numRows - mr) b k ≠ b)
    (hinj : ∀ j k, 0 < j → j < k → k < L →
      nx v.numRows (v.numRows - mr) b j ≠ nx v.numRows (v.numRows - mr) b k)
    (hS : ∀ k, nx v.numRows (v.numRows - mr) b k ∉ S) :
    ∀ (fuel j : Nat) (cur : List α) (src rot : Nat → Nat) (mid sc : Nat),
      j < L → L - j ≤ fuel → sc + (L - j) < WORD →
      cur = gather buf (v.mapCells (rowG v.numCols src rot)) →
      (∀ r, r < v.numRows → r ≠ b →
        (r ∈ S ∨ ∃ k, 0 < k ∧ k ≤ j ∧ r = nx v.numRows (v.numRows - mr) b k) →
        RowDone v.numRows mr mc src rot r) →
      (∀ r, r < v.numRows → r ≠ b →
        ¬ (r ∈ S ∨ ∃ k, 0 < k ∧ k ≤ j ∧ r = nx v.numRows (v.numRows - mr) b k) → RowFresh src rot r) →
      src b = nx v.numRows (v.numRows - mr) b j → rot b < v.numCols → (rot b + mid) % v.numCols = mc →
      mid < v.numCols →
      ∃ src' rot',
        translateInner m a getRowMut v.numCols v.numRows mc mr (v.numRows - mr) b fuel cur mid
            (nx v.numRows (v.numRows - mr) b (j + 1)) sc
          = .ok (gather buf (v.mapCells (rowG v.numCols src' rot')), sc + (L - j)) ∧
        (∀ r, r < v.numRows →
          (r ∈ S ∨ ∃ k, 0 < k ∧ k ≤ L ∧ r = nx v.numRows (v.numRows - mr) b k) →
          RowDone v.numRows mr mc src' rot' r) ∧
        (∀ r, r < v.numRows →
          ¬ (r ∈ S ∨ ∃ k, 0 < k ∧ k ≤ L ∧ r = nx v.numRows (v.numRows - mr) b k) → RowFresh src' rot' r) := by
  have hR : 0 < v.numRows := by omega
  have hC : 0 < v.numCols := by omega
  have hRw : v.numRows < WORD := Nat.lt_of_le_of_lt (tr_rows_le h) h.word
  have hCw : 2 * v.numCols < WORD := tr_two_cols_lt h (by omega)
  intro fuel
  induction fuel with
  | zero => intro j _ _ _ _ _ hjL hfuel; omega
  | succ fuel ih =>
    intro j cur src rot mid sc hjL hfuel hsc hcur hdone hfresh hsb hrb hrm hmid
    have hnj : nx v.numRows (v.numRows - mr) b j < v.numRows := nx_lt _ _ _ hR
    have hn1 : nx v.numRows (v.numRows - mr) b (j + 1) < v.numRows := nx_lt _ _ _ hR
    -- the row state only mentions valid rows
    have hsrc : ∀ r, r < v.numRows → src r < v.numRows := by
      intro r hr
      by_cases hrb' : r = b
      · rw [hrb', hsb]; exact hnj
      · by_cases hin : r ∈ S ∨ ∃ k, 0 < k ∧ k ≤ j ∧ r = nx v.numRows (v.numRows - mr) b k
        · rw [(hdone r hr hrb' hin).1]; exact Nat.mod_lt _ hR
        · rw [(hfresh r hr hrb' hin).1]; exact hr
    -- the predecessor of row `nx (j+1)` on the cycle is `nx j`
    have hpred : nx v.numRows (v.numRows - mr) b j = (nx v.numRows (v.numRows - mr) b (j + 1) + mr) % v.numRows :=
      pred_row hnj hn1 hmr0 hmr (nx_succ _ _ _ _).symm
    have hnorm : (if nx v.numRows (v.numRows - mr) b (j + 1) ≥ v.numRows then
          usub m (nx v.numRows (v.numRows - mr) b (j + 1)) v.numRows
        else pure (nx v.numRows (v.numRows - mr) b (j + 1)))
        = Except.ok (nx v.numRows (v.numRows - mr) b (j + 1)) := by
      rw [if_neg (by omega)]; rfl
    rw [translateInner_succ, hnorm]
    simp only [ok_bind]
    rw [uadd_ok m sc 1 (by omega)]
    simp only [ok_bind]
    by_cases hlast : j + 1 = L
    · -- the cycle closes: finish with a rotate
      have hb' : nx v.numRows (v.numRows - mr) b (j + 1) = b := by rw [hlast]; exact hret
      rw [if_pos hb'.symm]
      have hcnt : sc + 1 = sc + (L - j) := by omega
      have key : ∀ rot' : Nat → Nat, rot' b = mc → (∀ r, r ≠ b → rot' r = rot r) →
          (∀ r, r < v.numRows →
            (r ∈ S ∨ ∃ k, 0 < k ∧ k ≤ L ∧ r = nx v.numRows (v.numRows - mr) b k) →
            RowDone v.numRows mr mc src rot' r) ∧
          (∀ r, r < v.numRows →
            ¬ (r ∈ S ∨ ∃ k, 0 < k ∧ k ≤ L ∧ r = nx v.numRows (v.numRows - mr) b k) → RowFresh src rot' r) := by
        intro rot' hr1 hr2
        constructor
        · intro r hr hin
          by_cases hrb' : r = b
          · subst hrb'
            refine ⟨?_, hr1⟩
            rw [hsb, hpred, hb']
          · have hin' : r ∈ S ∨ ∃ k, 0 < k ∧ k ≤ j ∧ r = nx v.numRows (v.numRows - mr) b k := by
              rcases hin with hin | ⟨k, hk0, hkL, hk⟩
              · exact Or.inl hin
              · by_cases hkl : k = L
                · exfalso; apply hrb'; rw [hk, hkl]; exact hret
                · exact Or.inr ⟨k, hk0, by omega, hk⟩
            have := hdone r hr hrb' hin'
            exact ⟨this.1, by rw [hr2 r hrb']; exact this.2⟩
        · intro r hr hin
          have hrb' : r ≠ b := by
            intro e; apply hin; exact Or.inr ⟨L, by omega, Nat.le_refl _, by rw [e]; exact hret.symm⟩
          have hin' : ¬ (r ∈ S ∨ ∃ k, 0 < k ∧ k ≤ j ∧ r = nx v.numRows (v.numRows - mr) b k) := by
            intro hh; apply hin
            rcases hh with hh | ⟨k, hk0, hkj, hk⟩
            · exact Or.inl hh
            · exact Or.inr ⟨k, hk0, by omega, hk⟩
          have := hfresh r hr hrb' hin'
          exact ⟨this.1, by rw [hr2 r hrb']; exact this.2⟩
      by_cases hm0 : mid > 0
      · rw [if_pos hm0, hget b hb]
        simp only [ok_bind]
        rw [step_rotate buf cur h hsrc hcur hb hmid]
        simp only [ok_bind, pure_eq, hcnt]
        exact ⟨src, _, rfl, key _ (by rw [upd_same]; exact hrm) (fun r hr => upd_ne _ _ hr)⟩
      · rw [if_neg hm0]
        simp only [pure_eq, hcnt]
        refine ⟨src, rot, by rw [hcur], key rot ?_ (fun _ _ => rfl)⟩
        have : mid = 0 := by omega
        rw [this, Nat.add_zero, Nat.mod_eq_of_lt hrb] at hrm
        exact hrm
    · -- one more rotate-while-swapping step
      have hj1 : j + 1 < L := by omega
      have hne : b ≠ nx v.numRows (v.numRows - mr) b (j + 1) := fun e => hnr (j + 1) (by omega) hj1 e.symm
      rw [if_neg hne]
      have hfr : RowFresh src rot (nx v.numRows (v.numRows - mr) b (j + 1)) := by
        apply hfresh _ hn1 (fun e => hne e.symm)
        rintro (hin | ⟨k, hk0, hkj, hk⟩)
        · exact hS _ hin
        · exact hinj k (j + 1) hk0 (by omega) hj1 hk.symm
      rw [step_swapRotate m buf cur h ha hsrc hcur hb hn1 hne hmid]
      simp only [ok_bind]
      rw [uadd_ok m mid mc (by omega)]
      simp only [ok_bind]
      -- the new `mid`
      obtain ⟨mid', hmid'eq, hmid'lt, hmid'c⟩ : ∃ mid', (if mid + mc ≥ v.numCols then usub m (mid + mc) v.numCols
          else pure (mid + mc)) = Except.ok mid' ∧ mid' < v.numCols ∧
          (mid' = mid + mc ∨ mid' + v.numCols = mid + mc) := by
        by_cases hge : mid + mc ≥ v.numCols
        · exact ⟨mid + mc - v.numCols, by rw [if_pos hge, usub_ok m _ _ hge], by omega, Or.inr (by omega)⟩
        · exact ⟨mid + mc, by rw [if_neg hge]; rfl, by omega, Or.inl rfl⟩
      rw [hmid'eq]
      simp only [ok_bind]
      -- the next row on the cycle, formed without exceeding `numRows`
      have hnext : (if nx v.numRows (v.numRows - mr) b (j + 1) ≥ mr then
            usub m (nx v.numRows (v.numRows - mr) b (j + 1)) mr
          else uadd m (nx v.numRows (v.numRows - mr) b (j + 1)) (v.numRows - mr))
          = Except.ok (nx v.numRows (v.numRows - mr) b (j + 1 + 1)) := by
        rw [nx_succ v.numRows (v.numRows - mr) b (j + 1)]
        rcases tr_mod_cases (x := nx v.numRows (v.numRows - mr) b (j + 1) + (v.numRows - mr)) (C := v.numRows)
          (by omega) with ⟨h1, h2⟩ | ⟨h1, h2⟩
        · rw [if_neg (by omega), h2, uadd_ok m _ _ (by omega)]
        · rw [if_pos (by omega), h2, usub_ok m _ _ (by omega)]
          congr 1; omega
      rw [hnext]
      simp only [ok_bind]
      have hcnt : sc + 1 + (L - (j + 1)) = sc + (L - j) := by omega
      rw [← hcnt]
      refine ih (j + 1) _ _ _ mid' (sc + 1) hj1 (by omega) (by omega) rfl ?_ ?_ ?_ ?_ ?_ hmid'lt
      · intro r hr hrb' hin
        by_cases hrn : r = nx v.numRows (v.numRows - mr) b (j + 1)
        · subst hrn
          refine ⟨?_, ?_⟩
          · rw [upd_ne _ _ hrb', upd_same, hsb, hpred]
          · rw [upd_ne _ _ hrb', upd_same]; exact hrm
        · have hin' : r ∈ S ∨ ∃ k, 0 < k ∧ k ≤ j ∧ r = nx v.numRows (v.numRows - mr) b k := by
            rcases hin with hin | ⟨k, hk0, hkj, hk⟩
            · exact Or.inl hin
            · by_cases hkl : k = j + 1
              · exfalso; apply hrn; rw [hk, hkl]
              · exact Or.inr ⟨k, hk0, by omega, hk⟩
          have := hdone r hr hrb' hin'
          exact ⟨by rw [upd_ne _ _ hrb', upd_ne _ _ hrn]; exact this.1,
            by rw [upd_ne _ _ hrb', upd_ne _ _ hrn]; exact this.2⟩
      · intro r hr hrb' hin
        have hrn : r ≠ nx v.numRows (v.numRows - mr) b (j + 1) := by
          intro e; apply hin; exact Or.inr ⟨j + 1, by omega, Nat.le_refl _, e⟩
        have hin' : ¬ (r ∈ S ∨ ∃ k, 0 < k ∧ k ≤ j ∧ r = nx v.numRows (v.numRows - mr) b k) := by
          intro hh; apply hin
          rcases hh with hh | ⟨k, hk0, hkj, hk⟩
          · exact Or.inl hh
          · exact Or.inr ⟨k, hk0, by omega, hk⟩
        have := hfresh r hr hrb' hin'
        exact ⟨by rw [upd_ne _ _ hrb', upd_ne _ _ hrn]; exact this.1,
          by rw [upd_ne _ _ hrb', upd_ne _ _ hrn]; exact this.2⟩
      · rw [upd_same]; exact hfr.1
      · rw [upd_same]; exact Nat.mod_lt _ hC
      · rw [upd_same, hfr.2, Nat.mod_add_mod]
        exact tr_mod_eq_of_cases hmc (by omega)

/-! ### counting: a duplicate-free list of `R` naturals below `R` contains all of them -/

theorem tr_nodup_length_le (l : List Nat) (R : Nat) (hn : l.Nodup) (hlt : ∀ x ∈ l, x < R) : l.length ≤ R := by
  induction R generalizing l with
  | zero =>
    cases l with
    | nil => simp
    | cons x xs => exact absurd (hlt x List.mem_cons_self) (Nat.not_lt_zero _)
  | succ R ih =>
    have h1 := ih (l.erase R) (hn.erase R) (fun x hx => by
      have h2 := (hn.mem_erase_iff).1 hx
      have h3 := hlt x h2.2
      have h4 := h2.1
      omega)
    by_cases hm : R ∈ l
    · rw [List.length_erase_of_mem hm] at h1; omega
    · rw [List.erase_of_not_mem hm] at h1; omega

theorem tr_nodup_full (l : List Nat) (R : Nat) (hn : l.Nodup) (hlt : ∀ x ∈ l, x < R) (hlen : l.length = R) :
    ∀ r, r < R → r ∈ l := by
  intro r hr
  apply Classical.byContradiction
  intro hnot
  have h1 := tr_nodup_length_le (r :: l) R (List.nodup_cons.2 ⟨hnot, hn⟩) (by
    intro x hx
    rcases List.mem_cons.1 hx with rfl | hx
    · exact hr
    · exact hlt x hx)
  simp only [List.length_cons] at h1
  omega

/-! ### the outer loop -/

/-- the target cell map of `translate_with_wrap` (`translateG` of C15) -/
def trG (C R mc mr : Nat) : Nat × Nat → Nat × Nat := fun cr => ((cr.1 + mc) % C, (cr.2 + mr) % R)

/-- what the loops need to know about the orbits of `r ↦ (r + A) % R`: `g` orbits of length `L`, the orbit of `b`
    lies in the residue class of `b` modulo `g` -/
structure OrbitFacts (R A g L : Nat) : Prop where
  gL : g * L = R
  gA : g ∣ A
  ret : ∀ b, b < R → nx R A b L = b
  inj : ∀ b j k, j < k → nx R A b j = nx R A b k → L ∣ (k - j)
  res : ∀ b k, nx R A b k % g = b % g

/-- the rows `nx 1, …, nx L` of the cycle of base `b` -/
def cyc (R A b L : Nat) : List Nat := (List.range L).map fun k => nx R A b (k + 1)

theorem mem_cyc {R A b L r : Nat} : r ∈ cyc R A b L ↔ ∃ k, 0 < k ∧ k ≤ L ∧ r = nx R A b k := by
  simp only [cyc, List.mem_map, List.mem_range]
  constructor
  · rintro ⟨k, hk, rfl⟩; exact ⟨k + 1, by omega, by omega, rfl⟩
  · rintro ⟨k, hk0, hkL, rfl⟩; exact ⟨k - 1, by omega, by rw [Nat.sub_add_cancel hk0]⟩

theorem cyc_length (R A b L : Nat) : (cyc R A b L).length = L := by simp [cyc]

theorem cyc_nodup {R A g L b : Nat} (of : OrbitFacts R A g L) : (cyc R A b L).Nodup := by
  rw [cyc, List.nodup_iff_pairwise_ne, List.pairwise_map]
  refine List.Pairwise.imp_of_mem ?_ (List.pairwise_lt_range (n := L))
  intro j k hj hk hjk he
  have hd := of.inj b (j + 1) (k + 1) (by omega) he
  have := Nat.le_of_dvd (by omega) hd
  have := List.mem_range.1 hk
  omega

theorem outer_spec (m : Mode) {v : VW} (buf : List α) (h : v.Inv buf.length) {a : Acc} (ha : a.Of v buf.length)
    (getRowMut : Nat → Res Win) (hget : ∀ r, r < v.numRows → getRowMut r = .ok (v.rowWin r))
    {mc mr : Nat} (hmc : mc < v.numCols) (hmr0 : 0 < mr) (hmr : mr < v.numRows)
    {g L : Nat} (of : OrbitFacts v.numRows (v.numRows - mr) g L) :
    ∀ (fuel i : Nat) (cur : List α) (src rot : Nat → Nat) (S : List Nat),
      i < g → g - i ≤ fuel →
      cur = gather buf (v.mapCells (rowG v.numCols src rot)) →
      S.length = i * L → S.Nodup → (∀ r ∈ S, r < v.numRows ∧ r % g < i) →
      (∀ r, r < v.numRows → r ∈ S → RowDone v.numRows mr mc src rot r) →
      (∀ r, r < v.numRows → r ∉ S → RowFresh src rot r) →
      translateOuter m a getRowMut v.numCols v.numRows mc mr (v.numRows - mr) fuel cur (i * L) i =
        .ok (gather buf (v.mapCells (trG v.numCols v.numRows mc mr))) := by
  have hR : 0 < v.numRows := by omega
  have hRw : v.numRows < WORD := Nat.lt_of_le_of_lt (tr_rows_le h) h.word
  have hL : 0 < L := by
    rcases Nat.eq_zero_or_pos L with h0 | h0
    · have := of.gL; rw [h0, Nat.mul_zero] at this; omega
    · exact h0
  have hgR : g ≤ v.numRows := by
    have := of.gL
    have : g * 1 ≤ g * L := Nat.mul_le_mul_left g hL
    omega
  -- `g ∣ mr`, so a base row `i < g` has `i + (R - mr) < R`
  have hgmr : g ≤ mr := by
    have h1 : g ∣ v.numRows := ⟨L, of.gL.symm⟩
    have h2 : g ∣ v.numRows - (v.numRows - mr) := Nat.dvd_sub h1 of.gA
    have h3 : v.numRows - (v.numRows - mr) = mr := by omega
    rw [h3] at h2
    exact Nat.le_of_dvd hmr0 h2
  intro fuel
  induction fuel with
  | zero => intro i _ _ _ _ hi hf; omega
  | succ fuel ih =>
    intro i cur src rot S hig hfuel hcur hSlen hSnd hSres hdone hfresh
    have hiR : i < v.numRows := by omega
    -- `(i + 1) * L ≤ R`
    have hcount : i * L + L ≤ v.numRows := by
      have h1 : (i + 1) * L ≤ g * L := Nat.mul_le_mul_right L (by omega)
      rw [Nat.succ_mul, of.gL] at h1; exact h1
    have hLR : L ≤ v.numRows := by omega
    have hiS : i ∉ S := by
      intro hin
      have := (hSres i hin).2
      rw [Nat.mod_eq_of_lt hig] at this
      omega
    have hfi := hfresh i hiR hiS
    -- the facts about the cycle of base `i`
    have hnS : ∀ k, nx v.numRows (v.numRows - mr) i k ∉ S := by
      intro k hin
      have := (hSres _ hin).2
      rw [of.res, Nat.mod_eq_of_lt hig] at this
      omega
    have hnr : ∀ k, 0 < k → k < L → nx v.numRows (v.numRows - mr) i k ≠ i := by
      intro k hk0 hkL he
      have hd := of.inj i 0 k hk0 (by rw [nx_zero hiR, he])
      have := Nat.le_of_dvd (by omega) hd
      omega
    have hinj : ∀ j k, 0 < j → j < k → k < L →
        nx v.numRows (v.numRows - mr) i j ≠ nx v.numRows (v.numRows - mr) i k := by
      intro j k _ hjk hkL he
      have hd := of.inj i j k hjk he
      have := Nat.le_of_dvd (by omega) hd
      omega
    rw [translateOuter_succ, if_pos (by omega), uadd_ok m _ _ (by omega)]
    simp only [ok_bind]
    obtain ⟨src', rot', hinner, hdone', hfresh'⟩ :=
      inner_spec m buf h ha getRowMut hget hmc hmr0 hmr hiR S (of.ret i hiR) hnr hinj hnS
        (v.numRows + 2) 0 cur src rot mc (i * L) hL (by omega) (by omega) hcur
        (fun r hr hri hin => by
          rcases hin with hin | ⟨k, hk0, hk1, _⟩
          · exact hdone r hr hin
          · omega)
        (fun r hr hri hin => hfresh r hr (fun hh => hin (Or.inl hh)))
        (by rw [nx_zero hiR]; exact hfi.1) (by rw [hfi.2]; omega)
        (by rw [hfi.2, Nat.zero_add]; exact Nat.mod_eq_of_lt hmc) hmc
    have hfirst : i + (v.numRows - mr) = nx v.numRows (v.numRows - mr) i (0 + 1) := by
      rw [nx, Nat.zero_add, Nat.one_mul, Nat.mod_eq_of_lt (by omega)]
    rw [hfirst, hinner]
    simp only [ok_bind, Nat.sub_zero]
    -- the new set of finished rows
    have hmemS' : ∀ r, r ∈ S ++ cyc v.numRows (v.numRows - mr) i L ↔
        (r ∈ S ∨ ∃ k, 0 < k ∧ k ≤ L ∧ r = nx v.numRows (v.numRows - mr) i k) := by
      intro r; rw [List.mem_append, mem_cyc]
    have hS'len : (S ++ cyc v.numRows (v.numRows - mr) i L).length = (i + 1) * L := by
      rw [List.length_append, cyc_length, hSlen, Nat.succ_mul]
    have hS'nd : (S ++ cyc v.numRows (v.numRows - mr) i L).Nodup := by
      rw [List.nodup_append]
      refine ⟨hSnd, cyc_nodup of, ?_⟩
      intro x hx y hy hxy
      obtain ⟨k, _, _, hk⟩ := mem_cyc.1 hy
      exact hnS k (by rw [← hk, ← hxy]; exact hx)
    have hS'res : ∀ r ∈ S ++ cyc v.numRows (v.numRows - mr) i L, r < v.numRows ∧ r % g < i + 1 := by
      intro r hr
      rcases List.mem_append.1 hr with hr | hr
      · have := hSres r hr; exact ⟨this.1, by omega⟩
      · obtain ⟨k, _, _, hk⟩ := mem_cyc.1 hr
        rw [hk]
        refine ⟨nx_lt _ _ _ hR, ?_⟩
        rw [of.res, Nat.mod_eq_of_lt hig]; omega
    have hsc : i * L + L = (i + 1) * L := by rw [Nat.succ_mul]
    by_cases hlast : i + 1 = g
    · -- all rows are finished
      have hfull : (i + 1) * L = v.numRows := by rw [hlast]; exact of.gL
      rw [if_pos (by omega)]
      simp only [pure_eq]
      congr 1
      apply gather_congr
      intro p _
      apply VW.mapCells_congr
      intro c r _ hr
      have hin := tr_nodup_full _ v.numRows hS'nd (fun x hx => (hS'res x hx).1) (by rw [hS'len, hfull]) r hr
      have hd := hdone' r hr ((hmemS' r).1 hin)
      simp only [rowG, trG, hd.1, hd.2]
    · have hi1 : i + 1 < g := by omega
      have hcount2 : (i + 1) * L + L ≤ v.numRows := by
        have h1 : (i + 1 + 1) * L ≤ g * L := Nat.mul_le_mul_right L (by omega)
        rw [Nat.succ_mul, of.gL] at h1; exact h1
      rw [if_neg (by omega), uadd_ok m _ _ (by omega)]
      simp only [ok_bind]
      rw [hsc]
      exact ih (i + 1) _ src' rot' (S ++ cyc v.numRows (v.numRows - mr) i L) hi1 (by omega) rfl hS'len hS'nd
        hS'res (fun r hr hin => hdone' r hr ((hmemS' r).1 hin))
        (fun r hr hin => hfresh' r hr (fun hh => hin ((hmemS' r).2 hh)))

/-! ### `translate_with_wrap` -/

/-- the column-only fast path (`row_mid == 0` after normalisation) -/
theorem translate_cols_only (m : Mode) {v : VW} (buf : List α) (h : v.Inv buf.length) {a : Acc}
    (ha : a.Of v buf.length) (getRowMut : Nat → Res Win) (mid : Nat × Nat)
    (hm : mid.1 ≤ v.numCols) (hr : mid.2 = 0 ∨ mid.2 = v.numRows) :
    a.translateWithWrap m getRowMut buf mid =
      .ok (gather buf (v.mapCells (trG v.numCols v.numRows mid.1 mid.2))) := by
  have hm2 : mid.2 ≤ v.numRows := by rcases hr with h | h <;> omega
  have hrow : (if mid.2 = v.numRows then 0 else mid.2) = 0 := by
    rcases hr with h | h
    · rw [h]; split <;> rfl
    · rw [if_pos h]
  -- the target cell map only rotates inside rows
  have htgt : ∀ c r, c < v.numCols → r < v.numRows →
      trG v.numCols v.numRows mid.1 mid.2 (c, r) =
        ((c + (if mid.1 = v.numCols then 0 else mid.1)) % v.numCols, r) := by
    intro c r _ hr'
    simp only [trG, Prod.mk.injEq]
    constructor
    · split
      · rename_i h1; rw [h1, Nat.add_mod_right, Nat.add_zero]
      · rfl
    · rcases hr with h | h
      · rw [h, Nat.add_zero, Nat.mod_eq_of_lt hr']
      · rw [h, Nat.add_mod_right, Nat.mod_eq_of_lt hr']
  unfold Acc.translateWithWrap
  simp only [ha.cols, ha.rows, hm, hm2, hrow, not_true_eq_false, if_false, if_true]
  by_cases hc0 : (if mid.1 = v.numCols then 0 else mid.1) = 0
  · simp only [hc0, ne_eq, not_true_eq_false, if_false, pure_eq]
    congr 1
    refine (gather_eq_self buf _ (fun p _ => VW.mapCells_eq_self _ (fun c r hc hr' => ?_) p)).symm
    rw [htgt c r hc hr', hc0, Nat.add_zero, Nat.mod_eq_of_lt hc]
  · simp only [hc0, ne_eq, not_false_eq_true, if_true]
    rw [ha.collect_rows]
    simp only [ok_bind]
    have hcm : (if mid.1 = v.numCols then 0 else mid.1) ≤ v.numCols := by split <;> omega
    have hC : 0 < v.numCols := by
      rcases Nat.eq_zero_or_pos v.numCols with h0 | h0
      · exfalso; apply hc0; split <;> omega
      · exact h0
    rw [foldlM_rows buf h (fun c => (c + (if mid.1 = v.numCols then 0 else mid.1)) % v.numCols)
      (fun c _ => Nat.mod_lt _ hC) _ ?_ v.numRows (Nat.le_refl _)]
    · congr 1
      exact gather_congr buf _ _ (fun p _ => VW.mapCells_congr _ _
        (fun c r hc hr' => by rw [htgt c r hc hr']; simp [prefColG, hr']) p)
    · intro cur r hl hr'
      unfold rotateLeftWin
      rw [if_pos (by simpa [VW.rowWin] using hcm)]
      simp only [pure_eq]
      congr 1
      exact gather_congr cur _ _ (fun p _ => rotlMap_eq_mapCells (hl ▸ h) hr' _ p)

/-- the general case, given the orbit structure of `r ↦ (r + (R - mr)) % R` -/
theorem translate_of_orbit (m : Mode) {v : VW} (buf : List α) (h : v.Inv buf.length) {a : Acc}
    (ha : a.Of v buf.length) (getRowMut : Nat → Res Win)
    (hget : ∀ r, r < v.numRows → getRowMut r = .ok (v.rowWin r))
    (mid : Nat × Nat) (hm : mid.1 ≤ v.numCols ∧ mid.2 ≤ v.numRows)
    (horb : ∀ A, 0 < A → A < v.numRows → ∃ g L, OrbitFacts v.numRows A g L) :
    a.translateWithWrap m getRowMut buf mid =
      .ok (gather buf (v.mapCells (trG v.numCols v.numRows mid.1 mid.2))) := by
  by_cases hr : mid.2 = 0 ∨ mid.2 = v.numRows
  · exact translate_cols_only m buf h ha getRowMut mid hm.1 hr
  · have hmr0 : 0 < mid.2 := by omega
    have hmr : mid.2 < v.numRows := by omega
    have hR : 0 < v.numRows := by omega
    have hC : 0 < v.numCols := tr_cols_pos h hR
    obtain ⟨g, L, of⟩ := horb (v.numRows - mid.2) (by omega) (by omega)
    have hg : 0 < g := by
      rcases Nat.eq_zero_or_pos g with h0 | h0
      · have := of.gL; rw [h0, Nat.zero_mul] at this; omega
      · exact h0
    have hgR : g ≤ v.numRows := by
      have h1 := of.gL
      rcases Nat.eq_zero_or_pos L with h0 | h0
      · rw [h0, Nat.mul_zero] at h1; omega
      · have : g * 1 ≤ g * L := Nat.mul_le_mul_left g h0
        omega
    have hmc : (if mid.1 = v.numCols then 0 else mid.1) < v.numCols := by split <;> omega
    have hout := outer_spec m buf h ha getRowMut hget hmc hmr0 hmr of (v.numRows + 2) 0 buf
      (fun r => r) (fun _ => 0) [] hg (by omega)
      (gather_eq_self buf _ (fun p _ => VW.mapCells_eq_self _ (fun c r hc _ => by
        simp only [rowG, Nat.add_zero, Nat.mod_eq_of_lt hc]) p)).symm
      (by simp) List.nodup_nil (fun r hr => by cases hr) (fun r _ hr => by cases hr)
      (fun r _ _ => ⟨rfl, rfl⟩)
    rw [Nat.zero_mul] at hout
    unfold Acc.translateWithWrap
    simp only [ha.cols, ha.rows, hm.1, hm.2, not_true_eq_false, if_false]
    rw [if_neg (by omega : ¬ mid.2 = v.numRows), if_neg (by omega : ¬ mid.2 = 0), usub_ok m _ _ hm.2]
    simp only [ok_bind]
    rw [hout]
    congr 1
    apply gather_congr
    intro p _
    apply VW.mapCells_congr
    intro c r _ _
    simp only [trG, Prod.mk.injEq, and_true]
    split
    · rename_i h1; rw [h1, Nat.add_mod_right, Nat.add_zero]
    · rfl

end Toodee
