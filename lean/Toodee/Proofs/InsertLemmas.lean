import Toodee.Proofs.MemLemmas
/-
  Loop invariants for `insert_row` (`fillLoop`) and `insert_col` (`insColLoop`, `insertColCrit`), DESIGN.md Appendix A.
-/
namespace Toodee
variable {α : Type}

theorem debugExhausted_nil (m : Mode) : debugExhausted m ([] : List (Option α)) = ([], none, []) := by
  cases m <;> rfl

/-- the fill loop of `insert_row` with an honest iterator: the junk block `J` at `|X|` is overwritten by `xs` -/
theorem fillLoop_spec (xs : List α) : ∀ (X J Y : List α), J.length = xs.length →
    fillLoop xs.length (xs.map some) (X ++ J ++ Y) X.length = (X ++ xs ++ Y, [], xs.length, none) := by
  induction xs with
  | nil =>
    intro X J Y hJ
    have : J = [] := List.eq_nil_of_length_eq_zero (by simpa using hJ)
    subst this
    simp [fillLoop]
  | cons x xs ih =>
    intro X J Y hJ
    match J, hJ with
    | j :: J0, hJ =>
      have hlt : X.length < (X ++ j :: J0 ++ Y).length := by simp
      have hset : (X ++ j :: J0 ++ Y).set X.length x = (X ++ [x]) ++ J0 ++ Y := by simp
      have hl : X.length + 1 = (X ++ [x]).length := by simp
      simp only [List.map_cons, List.length_cons, fillLoop, if_pos hlt]
      rw [hset, hl, ih (X ++ [x]) J0 Y (by simpa using hJ)]
      simp

/-- the `for _ in 0..(num_rows-1)` loop of `insert_col`, invariant of Appendix A, by induction on the rows still to be
    processed (given in reverse, as are the items) -/
theorem insColLoop_spec (C i : Nat) (hi : i ≤ C) :
    ∀ (preRev : List (List α)) (xsRev : List α) (ρ : List α) (J done rest : List α),
      (∀ r ∈ preRev, r.length = C) → ρ.length = C → xsRev.length = preRev.length → J.length = preRev.length →
      insColLoop C preRev.length (xsRev.map some) (preRev.reverse.flatten ++ ρ.take i ++ J ++ done ++ rest)
          (preRev.length * C + i) (preRev.length * C + i + preRev.length)
        = ((List.zipWith (insAt i) preRev.reverse xsRev.reverse).flatten ++ ρ.take i ++ done ++ rest,
            [], i, i, preRev.length, none) := by
  intro preRev
  induction preRev with
  | nil =>
    intro xsRev ρ J done rest _ _ hx hJ
    have : xsRev = [] := by simpa using hx
    subst this
    have : J = [] := by simpa using hJ
    subst this
    simp [insColLoop]
  | cons ρ' pre ih =>
    intro xsRev ρ J done rest hall hρ hx hJ
    match xsRev, hx with
    | x' :: xs, hx =>
      have hρ' : ρ'.length = C := hall ρ' (by simp)
      have hall' : ∀ r ∈ pre, r.length = C := fun r hr => hall r (by simp [hr])
      have hxs : xs.length = pre.length := by simpa using hx
      have hflat : pre.reverse.flatten.length = pre.length * C := by
        simpa using flatten_length_uniform C pre.reverse (by simpa using hall')
      -- reshape the buffer
      let X := pre.reverse.flatten ++ ρ'.take i
      let blk := ρ'.drop i ++ ρ.take i
      have hX : X.length = pre.length * C + i := by simp [X, hflat, hρ']; omega
      have hblk : blk.length = C := by simp [blk, hρ', hρ]; omega
      have hbuf : (ρ' :: pre).reverse.flatten ++ ρ.take i ++ J ++ done ++ rest = X ++ blk ++ J ++ (done ++ rest) := by
        simp [X, blk, List.flatten_append]
        rw [← List.append_assoc (ρ'.take i), List.take_append_drop]
      have hJlen : J.length = pre.length + 1 := by simpa using hJ
      obtain ⟨J1, hJ1, hmv⟩ := memmoveChecked_right X blk J (done ++ rest)
      obtain ⟨J2, hJ2, hset⟩ := ptrWrite_last_of_junk X J1 (blk ++ (done ++ rest)) x' (by rw [hJ1, hJ]; simp)
      have ih' := ih xs ρ' J2 ([x'] ++ blk ++ done) rest hall' hρ' hxs (by omega)
      have e1 : (pre.length + 1) * C + i - C = X.length := by rw [hX, Nat.add_mul]; omega
      have e2 : (pre.length + 1) * C + i + (pre.length + 1) - C = X.length + J.length := by
        rw [hX, hJlen, Nat.add_mul]; omega
      have e0 : ¬ ((pre.length + 1) * C + i < C ∨ (pre.length + 1) * C + i + (pre.length + 1) < C) := by
        rw [Nat.add_mul]; omega
      have e3 : ¬ (X.length + J.length < 1) := by omega
      have hmv' : memmoveChecked (X ++ blk ++ J ++ (done ++ rest)) X.length (X.length + J.length) C
          = .ok (X ++ J1 ++ blk ++ (done ++ rest)) := by
        rw [← hblk]; exact hmv
      have hset' : ptrWrite (X ++ J1 ++ blk ++ (done ++ rest)) (X.length + J.length - 1) x'
          = .ok (pre.reverse.flatten ++ ρ'.take i ++ J2 ++ ([x'] ++ blk ++ done) ++ rest) := by
        rw [← hJ1, show X ++ J1 ++ blk ++ (done ++ rest) = X ++ J1 ++ (blk ++ (done ++ rest)) by simp, hset]
        simp [X]
      have e4 : X.length + J.length - 1 = pre.length * C + i + pre.length := by rw [hX, hJlen]; omega
      simp only [List.length_cons, List.map_cons, insColLoop, if_neg e0, e1, e2, hbuf, hmv', if_neg e3, hset']
      rw [e4, hX, ih']
      have hz : List.zipWith (insAt i) (ρ' :: pre).reverse (x' :: xs).reverse
          = List.zipWith (insAt i) pre.reverse xs.reverse ++ [insAt i ρ' x'] := by
        simp only [List.reverse_cons]
        rw [List.zipWith_append (by simp [hxs])]
        simp
      rw [hz]
      simp [insAt, blk, List.flatten_append]

/-- the whole critical section of `insert_col` on a buffer that is the concatenation of `rows` (each of `C` cells)
    followed by spare capacity, with an honest iterator yielding `xs` (one item per row): every row gets its item at
    column `i`, the spare cells not used stay behind, the iterator is exhausted -/
theorem insertColCrit_spec (m : Mode) (C i : Nat) (hi : i ≤ C) (rows : List (List α)) (xs spare : List α)
    (hrows : ∀ r ∈ rows, r.length = C) (hx : xs.length = rows.length) (hsp : xs.length ≤ spare.length) :
    insertColCrit m C xs.length i rows.flatten.length (rows.flatten.length + xs.length) (C - i)
        (rows.flatten ++ spare) (xs.map some).reverse
      = (.ok ((List.zipWith (insAt i) rows xs).flatten ++ spare.drop xs.length), []) := by
  rcases List.eq_nil_or_concat rows with rfl | ⟨pre, ρ, rfl⟩
  · have : xs = [] := by simpa using hx
    subst this
    simp [insertColCrit, debugExhausted_nil]
  · rcases List.eq_nil_or_concat xs with rfl | ⟨xs', x, rfl⟩
    · simp at hx
    · simp only [List.concat_eq_append] at *
      have hρ : ρ.length = C := hrows ρ (by simp)
      have hpre : ∀ r ∈ pre, r.length = C := fun r hr => hrows r (by simp [hr])
      have hxs : xs'.length = pre.length := by simpa using hx
      have hflat : pre.flatten.length = pre.length * C := flatten_length_uniform C pre hpre
      have hlenAll : (pre ++ [ρ]).flatten.length = pre.length * C + C := by
        simp [List.flatten_append, hflat, hρ]
      have hxl : (xs' ++ [x]).length = pre.length + 1 := by simp [hxs]
      let X := pre.flatten ++ ρ.take i
      let blk := ρ.drop i
      let J := spare.take (pre.length + 1)
      let Y := spare.drop (pre.length + 1)
      have hX : X.length = pre.length * C + i := by simp [X, hflat, hρ]; omega
      have hblk : blk.length = C - i := by simp [blk, hρ]
      have hJ : J.length = pre.length + 1 := by simp [J]; omega
      have hbuf : (pre ++ [ρ]).flatten ++ spare = X ++ blk ++ J ++ Y := by
        simp [X, blk, J, Y, List.flatten_append]
      obtain ⟨J1, hJ1, hmv⟩ := memmoveChecked_right X blk J Y
      obtain ⟨J2, hJ2, hset⟩ := ptrWrite_last_of_junk X J1 (blk ++ Y) x (by rw [hJ1, hJ]; simp)
      have hloop := insColLoop_spec C i hi pre.reverse xs'.reverse ρ J2 ([x] ++ blk) Y
        (by simpa using hpre) hρ (by simpa using hxs) (by simp; omega)
      simp only [List.reverse_reverse, List.length_reverse] at hloop
      have e0 : ¬ (pre.length * C + C < C - i ∨ pre.length * C + C + (pre.length + 1) < C - i) := by omega
      have e1 : pre.length * C + C - (C - i) = X.length := by rw [hX]; omega
      have e2 : pre.length * C + C + (pre.length + 1) - (C - i) = X.length + J.length := by rw [hX, hJ]; omega
      have e3 : ¬ (X.length + J.length < 1) := by omega
      have hmv' : memmoveChecked (X ++ blk ++ J ++ Y) X.length (X.length + J.length) (C - i)
          = .ok (X ++ J1 ++ blk ++ Y) := by
        rw [← hblk]; exact hmv
      have e4 : X.length + J.length - 1 = X.length + pre.length := by rw [hJ]; omega
      have hset' : ptrWrite (X ++ J1 ++ blk ++ Y) (X.length + pre.length) x
          = .ok (pre.flatten ++ ρ.take i ++ J2 ++ ([x] ++ blk) ++ Y) := by
        rw [← e4, ← hJ1, show X ++ J1 ++ blk ++ Y = X ++ J1 ++ (blk ++ Y) by simp, hset]
        simp [X]
      have e5 : pre.length + 1 - 1 = pre.length := by omega
      rw [← hX] at hloop
      have hev : (List.map some (xs' ++ [x])).reverse = some x :: xs'.reverse.map some := by simp
      have e6 : ¬ (i < i ∨ i < i) := by omega
      have hpos : pre.length + 1 > 0 := by omega
      have hfin : memmoveChecked ((List.zipWith (insAt i) pre xs').flatten ++ ρ.take i ++ ([x] ++ blk) ++ Y) (i - i) (i - i) i
          = .ok ((List.zipWith (insAt i) pre xs').flatten ++ ρ.take i ++ ([x] ++ blk) ++ Y) := by
        apply memmoveChecked_self
        simp [hρ]; omega
      unfold insertColCrit
      simp only [hxl, hlenAll, if_pos hpos, if_neg e0, e1, e2, hbuf, hmv', if_neg e3, hev, hset', e4, e5, hloop,
        if_neg e6, hfin, debugExhausted_nil]
      have hz : List.zipWith (insAt i) (pre ++ [ρ]) (xs' ++ [x])
          = List.zipWith (insAt i) pre xs' ++ [insAt i ρ x] := by
        rw [List.zipWith_append (by simp [hxs])]
        simp
      rw [hz]
      simp [insAt, blk, Y, List.flatten_append]

/-- `insert_row` with an honest iterator, any sufficient spare capacity, both modes: the complete outcome -/
theorem insertRow_honest (m : Mode) (cap : Nat) (t : TD α) (h : t.Inv) (i : Nat) (xs spare : List α)
    (hi : i ≤ t.numRows) (hlen : t.numRows = 0 ∨ xs.length = t.numCols)
    (hcap : t.data.length + xs.length ≤ cap) (hsp : xs.length ≤ spare.length)
    (hword : t.data.length + xs.length < WORD) :
    t.insertRow m cap i (honest xs) spare =
      ⟨⟨t.data.take (i * t.numCols) ++ xs ++ t.data.drop (i * t.numCols),
        if xs.length > 0 then t.numRows + 1 else t.numRows, xs.length⟩, .ok (), [], []⟩ := by
  have hC : (if t.numRows = 0 then xs.length else t.numCols) = xs.length := by
    rcases hlen with h0 | h1
    · simp [h0]
    · simp [h1]
  have hs : i * xs.length = i * t.numCols := by
    rcases hlen with h0 | h1
    · have : i = 0 := by omega
      simp [this]
    · rw [h1]
  have hsle : i * t.numCols ≤ t.data.length := by
    rw [h.len, Nat.mul_comm t.numCols]
    exact Nat.mul_le_mul_right _ hi
  have hlenOk : (t.numRows == 0 || t.numCols == xs.length) = true := by
    rcases hlen with h0 | h1
    · simp [h0]
    · simp [h1]
  have hres : reserveOk cap t.data.length xs.length = true := by simp [reserveOk, hcap]
  have hmul : umul m i xs.length = .ok (i * t.numCols) := by
    rw [← hs]; apply umul_ok; rw [hs]; omega
  let A := t.data.take (i * t.numCols)
  let T := t.data.drop (i * t.numCols)
  let J := spare.take xs.length
  let Y := spare.drop xs.length
  have hA : A.length = i * t.numCols := by simp [A]; omega
  have hT : T.length = t.data.length - i * t.numCols := by simp [T]
  have hJ : J.length = xs.length := by simp [J]; omega
  have hbuf : t.data ++ spare = A ++ T ++ J ++ Y := by simp [A, T, J, Y]
  obtain ⟨J', hJ', hmv⟩ := memmoveChecked_right A T J Y
  rw [hA, hJ, hT, ← hbuf] at hmv
  have hfill := fillLoop_spec xs A J' (T ++ Y) (by omega)
  rw [hA, ← List.append_assoc] at hfill
  have hspn : ¬ spare.length < xs.length := by omega
  unfold TD.insertRow
  simp only [honest, hlenOk, hres, hC, hmul, hmv, hfill, debugExhausted_nil, Bool.not_true, Bool.false_eq_true,
    if_false, if_neg hspn, hi, hsle]
  have htake : List.take (t.data.length + xs.length) (A ++ xs ++ (T ++ Y)) = A ++ xs ++ T := by
    rw [show A ++ xs ++ (T ++ Y) = (A ++ xs ++ T) ++ Y by simp]
    apply List.take_left'
    simp only [List.length_append, hA, hT]; omega
  simp only [not_true_eq_false, if_false, htake, pure_eq]
  rfl

theorem insAt_length (i : Nat) (ρ : List α) (x : α) (hi : i ≤ ρ.length) : (insAt i ρ x).length = ρ.length + 1 := by
  simp [insAt]; omega

theorem zipWith_insAt_row_length (C i : Nat) (hi : i ≤ C) (rows : List (List α)) (xs : List α)
    (hrows : ∀ r ∈ rows, r.length = C) : ∀ r ∈ List.zipWith (insAt i) rows xs, r.length = C + 1 := by
  induction rows generalizing xs with
  | nil => simp
  | cons ρ rows ih =>
    cases xs with
    | nil => simp
    | cons x xs =>
      intro r hr
      simp only [List.zipWith_cons_cons, List.mem_cons] at hr
      rcases hr with rfl | hr
      · have := hrows ρ (by simp)
        rw [insAt_length i ρ x (by omega), this]
      · exact ih xs (fun r hr => hrows r (by simp [hr])) r hr

theorem zipWith_insAt_flatten_length (C i : Nat) (hi : i ≤ C) (rows : List (List α)) (xs : List α)
    (hrows : ∀ r ∈ rows, r.length = C) (hrl : xs.length = rows.length) :
    (List.zipWith (insAt i) rows xs).flatten.length = rows.flatten.length + xs.length := by
  rw [flatten_length_uniform (C + 1) _ (zipWith_insAt_row_length C i hi rows xs hrows),
    flatten_length_uniform C rows hrows, List.length_zipWith, ← hrl, Nat.min_self, Nat.mul_add]
  omega

/-- inserting a column into an array without columns: the rows are the single items -/
theorem zipWith_insAt_replicate_nil (xs : List α) :
    (List.zipWith (insAt 0) (List.replicate xs.length ([] : List α)) xs).flatten = xs := by
  induction xs with
  | nil => simp
  | cons x xs ih => simp [List.replicate_succ, insAt, ih]

/-- `insert_col` with an honest iterator on a buffer that is the concatenation of `rows` (one item per row), any
    sufficient spare capacity, both modes: the complete outcome -/
theorem insertCol_honest (m : Mode) (cap : Nat) (t : TD α) (i : Nat) (xs spare : List α) (rows : List (List α))
    (hrows : ∀ r ∈ rows, r.length = t.numCols) (hdata : t.data = rows.flatten) (hrl : xs.length = rows.length)
    (hi : i ≤ t.numCols) (hlen : t.numCols = 0 ∨ xs.length = t.numRows)
    (hcap : t.data.length + xs.length ≤ cap) (hsp : xs.length ≤ spare.length)
    (hword : t.data.length + xs.length < WORD) :
    t.insertCol m cap i (honest xs) spare =
      if xs.length > 0 then ⟨⟨(List.zipWith (insAt i) rows xs).flatten, xs.length, t.numCols + 1⟩, .ok (), [], []⟩
      else ⟨⟨(List.zipWith (insAt i) rows xs).flatten, 0, 0⟩, .ok (), [], []⟩ := by
  have hR : (if t.numCols = 0 then xs.length else t.numRows) = xs.length := by
    rcases hlen with h0 | h1
    · simp [h0]
    · simp [h1]
  have hlenOk : (t.numCols == 0 || t.numRows == xs.length) = true := by
    rcases hlen with h0 | h1
    · simp [h0]
    · simp [h1]
  have hres : reserveOk cap t.data.length xs.length = true := by simp [reserveOk, hcap]
  have hadd : uadd m t.data.length xs.length = .ok (t.data.length + xs.length) := uadd_ok m _ _ hword
  have hsub : usub m t.numCols i = .ok (t.numCols - i) := usub_ok m _ _ hi
  have hspn : ¬ spare.length < xs.length := by omega
  have hcrit := insertColCrit_spec m t.numCols i hi rows xs spare hrows hrl hsp
  rw [← hdata] at hcrit
  have hflat : (List.zipWith (insAt i) rows xs).flatten.length = t.data.length + xs.length := by
    rw [hdata]; exact zipWith_insAt_flatten_length t.numCols i hi rows xs hrows hrl
  have htake : List.take (t.data.length + xs.length)
      ((List.zipWith (insAt i) rows xs).flatten ++ spare.drop xs.length) = (List.zipWith (insAt i) rows xs).flatten :=
    List.take_left' hflat
  unfold TD.insertCol
  simp only [honest, hlenOk, hres, hR, hadd, hsub, hcrit, htake, Bool.not_true, Bool.false_eq_true,
    if_false, if_neg hspn, hi, not_true_eq_false, List.reverse_nil, pure_eq]

end Toodee
