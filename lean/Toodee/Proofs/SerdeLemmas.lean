import Toodee.Impl.Serde
import Toodee.Spec.Inv
import Toodee.Properties.C20
/-
  Helper lemmas for C18 / C19 (the serde model `Toodee/Impl/Serde.lean`).
-/
namespace Toodee
variable {α : Type}

theorem decUsize_eq_some {v : JVal} {n : Nat} (h : decUsize v = some n) : v = .num n ∧ n < WORD := by
  cases v with
  | num m =>
    change (if m < WORD then some m else none) = some n at h
    by_cases hm : m < WORD
    · rw [if_pos hm] at h
      cases h
      exact ⟨rfl, hm⟩
    · rw [if_neg hm] at h
      cases h
  | arr xs => simp [decUsize] at h
  | obj kvs => simp [decUsize] at h
  | other => simp [decUsize] at h

theorem decUsize_num {n : Nat} (h : n < WORD) : decUsize (.num n) = some n := by
  simp [decUsize, h]

/-- a codec that round-trips elements round-trips vectors -/
theorem mapM_dec_enc (enc : α → JVal) (dec : JVal → Option α) (hcodec : ∀ x, dec (enc x) = some x)
    (xs : List α) : (xs.map enc).mapM dec = some xs := by
  induction xs with
  | nil => simp
  | cons x xs ih => simp [List.mapM_cons, hcodec, ih]

theorem decVec_arr_enc (enc : α → JVal) (dec : JVal → Option α) (hcodec : ∀ x, dec (enc x) = some x)
    (xs : List α) : decVec dec (.arr (xs.map enc)) = some xs := by
  simp [decVec, mapM_dec_enc enc dec hcodec]

/-- both dimensions fit a `usize` when their product does and the zero rule holds -/
theorem dims_lt_word {c r : Nat} (hz : c = 0 ↔ r = 0) (hw : c * r < WORD) : c < WORD ∧ r < WORD := by
  by_cases hc : c = 0
  · have hr : r = 0 := hz.1 hc
    subst hc; subst hr
    simp [WORD]
  · have hr : r ≠ 0 := fun h => hc (hz.2 h)
    have h1 : c * 1 ≤ c * r := Nat.mul_le_mul_left c (by omega)
    have h2 : 1 * r ≤ c * r := Nat.mul_le_mul_right r (by omega)
    omega

/-- what the visitor loop returns, for arbitrary accumulators: each component is the accumulator's value or is stated
    by an entry of the document. -/
theorem visitLoop_sound (dec : JVal → Option α) (kvs : List (String × JVal)) :
    ∀ (nc nr : Option Nat) (d : Option (List α)) (nc' nr' : Option Nat) (d' : Option (List α)),
      visitLoop dec kvs nc nr d = some (nc', nr', d') →
      (nc' = nc ∨ ∃ n, nc' = some n ∧ ("num_cols", JVal.num n) ∈ kvs) ∧
      (nr' = nr ∨ ∃ n, nr' = some n ∧ ("num_rows", JVal.num n) ∈ kvs) ∧
      (d' = d ∨ ∃ v xs, d' = some xs ∧ ("data", v) ∈ kvs ∧ decVec dec v = some xs) := by
  induction kvs with
  | nil =>
    intro nc nr d nc' nr' d' h
    simp only [visitLoop, Option.some.injEq, Prod.mk.injEq] at h
    obtain ⟨h1, h2, h3⟩ := h
    exact ⟨.inl h1.symm, .inl h2.symm, .inl h3.symm⟩
  | cons kv rest ih =>
    obtain ⟨k, v⟩ := kv
    intro nc nr d nc' nr' d' h
    unfold visitLoop at h
    by_cases hk1 : k = "num_cols"
    · rw [if_pos hk1] at h
      by_cases hs : nc.isSome = true
      · rw [if_pos hs] at h; cases h
      · rw [if_neg hs] at h
        cases hd : decUsize v with
        | none => rw [hd] at h; cases h
        | some n =>
          rw [hd] at h
          have hnc : nc = none := by cases nc <;> simp_all
          obtain ⟨hv, _⟩ := decUsize_eq_some hd
          obtain ⟨a, b, c⟩ := ih _ _ _ _ _ _ h
          subst hk1; subst hv
          refine ⟨?_, ?_, ?_⟩
          · rcases a with a | ⟨m, hm, hmem⟩
            · exact .inr ⟨n, a, List.mem_cons_self⟩
            · exact .inr ⟨m, hm, List.mem_cons_of_mem _ hmem⟩
          · rcases b with b | ⟨m, hm, hmem⟩
            · exact .inl b
            · exact .inr ⟨m, hm, List.mem_cons_of_mem _ hmem⟩
          · rcases c with c | ⟨w, xs, hm, hmem, hdv⟩
            · exact .inl c
            · exact .inr ⟨w, xs, hm, List.mem_cons_of_mem _ hmem, hdv⟩
    · rw [if_neg hk1] at h
      by_cases hk2 : k = "num_rows"
      · rw [if_pos hk2] at h
        by_cases hs : nr.isSome = true
        · rw [if_pos hs] at h; cases h
        · rw [if_neg hs] at h
          cases hd : decUsize v with
          | none => rw [hd] at h; cases h
          | some n =>
            rw [hd] at h
            obtain ⟨hv, _⟩ := decUsize_eq_some hd
            obtain ⟨a, b, c⟩ := ih _ _ _ _ _ _ h
            subst hk2; subst hv
            refine ⟨?_, ?_, ?_⟩
            · rcases a with a | ⟨m, hm, hmem⟩
              · exact .inl a
              · exact .inr ⟨m, hm, List.mem_cons_of_mem _ hmem⟩
            · rcases b with b | ⟨m, hm, hmem⟩
              · exact .inr ⟨n, b, List.mem_cons_self⟩
              · exact .inr ⟨m, hm, List.mem_cons_of_mem _ hmem⟩
            · rcases c with c | ⟨w, xs, hm, hmem, hdv⟩
              · exact .inl c
              · exact .inr ⟨w, xs, hm, List.mem_cons_of_mem _ hmem, hdv⟩
      · rw [if_neg hk2] at h
        by_cases hk3 : k = "data"
        · rw [if_pos hk3] at h
          cases hd : decVec dec v with
          | none => rw [hd] at h; cases h
          | some ys =>
            rw [hd] at h
            obtain ⟨a, b, c⟩ := ih _ _ _ _ _ _ h
            subst hk3
            refine ⟨?_, ?_, ?_⟩
            · rcases a with a | ⟨m, hm, hmem⟩
              · exact .inl a
              · exact .inr ⟨m, hm, List.mem_cons_of_mem _ hmem⟩
            · rcases b with b | ⟨m, hm, hmem⟩
              · exact .inl b
              · exact .inr ⟨m, hm, List.mem_cons_of_mem _ hmem⟩
            · rcases c with c | ⟨w, xs, hm, hmem, hdv⟩
              · exact .inr ⟨v, ys, c, List.mem_cons_self, hd⟩
              · exact .inr ⟨w, xs, hm, List.mem_cons_of_mem _ hmem, hdv⟩
        · rw [if_neg hk3] at h; cases h

/-- from the empty accumulators: all three values are stated by the document -/
theorem visitLoop_sound_init (dec : JVal → Option α) (kvs : List (String × JVal)) (nc nr : Nat) (data : List α)
    (h : visitLoop dec kvs none none none = some (some nc, some nr, some data)) :
    ("num_cols", JVal.num nc) ∈ kvs ∧ ("num_rows", JVal.num nr) ∈ kvs ∧
      ∃ v, ("data", v) ∈ kvs ∧ decVec dec v = some data := by
  obtain ⟨a, b, c⟩ := visitLoop_sound dec kvs _ _ _ _ _ _ h
  refine ⟨?_, ?_, ?_⟩
  · rcases a with a | ⟨m, hm, hmem⟩
    · cases a
    · cases hm; exact hmem
  · rcases b with b | ⟨m, hm, hmem⟩
    · cases b
    · cases hm; exact hmem
  · rcases c with c | ⟨w, xs, hm, hmem, hdv⟩
    · cases c
    · cases hm; exact ⟨w, hmem, hdv⟩

/-- a document that is not an object is rejected -/
theorem deserialize_not_obj (dec : JVal → Option α) (doc : JVal) (h : ∀ kvs, doc ≠ .obj kvs) :
    deserialize dec doc = .err := by
  cases doc with
  | obj kvs => exact absurd rfl (h kvs)
  | num n => rfl
  | arr xs => rfl
  | other => rfl

/-- the checks after the loop, as one condition: accepted iff the product fits, equals the data length and the zero
    rule holds; otherwise an error — never a panic. -/
theorem deserialize_of_visit (dec : JVal → Option α) (kvs : List (String × JVal)) (nc nr : Nat) (data : List α)
    (hv : visitLoop dec kvs none none none = some (some nc, some nr, some data)) :
    deserialize dec (.obj kvs) =
      if nc * nr < WORD ∧ nc * nr = data.length ∧ (nc = 0 ↔ nr = 0) then .ok ⟨data, nr, nc⟩ else .err := by
  by_cases hw : nc * nr < WORD
  · have ho : omul nc nr = (nc * nr, false) := by
      simp [omul, Nat.mod_eq_of_lt hw, hw]
    simp only [deserialize, hv, ho]
    by_cases hl : nc * nr = data.length
    · by_cases hz : (nc = 0 ↔ nr = 0)
      · have hzz : ((nc = 0) = (nr = 0)) := propext hz
        have hf : TD.fromVec nc nr data = .ok ⟨data, nr, nc⟩ := by
          simp [TD.fromVec, (zeroRuleOk_iff nc nr).2 hz, cmul_some hw, hl]
        have hc : nc * nr < WORD ∧ nc * nr = data.length ∧ (nc = 0 ↔ nr = 0) := ⟨hw, hl, hz⟩
        rw [if_pos hc]
        simp [hl, hzz, hf]
      · have hzz : (nc = 0) ≠ (nr = 0) := fun he => hz (by rw [he])
        have hc : ¬ (nc * nr < WORD ∧ nc * nr = data.length ∧ (nc = 0 ↔ nr = 0)) := fun h => hz h.2.2
        rw [if_neg hc]
        simp [hl, hzz]
    · have hc : ¬ (nc * nr < WORD ∧ nc * nr = data.length ∧ (nc = 0 ↔ nr = 0)) := fun h => hl h.2.1
      rw [if_neg hc]
      simp [hl]
  · have ho : omul nc nr = (nc * nr % WORD, true) := by
      simp [omul]; omega
    have hc : ¬ (nc * nr < WORD ∧ nc * nr = data.length ∧ (nc = 0 ↔ nr = 0)) := fun h => hw h.1
    rw [if_neg hc]
    simp only [deserialize, hv, ho]
    rfl

/-- when the loop does not deliver all three values the document is rejected -/
theorem deserialize_of_visit_incomplete (dec : JVal → Option α) (kvs : List (String × JVal))
    (h : ∀ nc nr data, visitLoop dec kvs none none none ≠ some (some nc, some nr, some data)) :
    deserialize dec (.obj kvs) = .err := by
  cases hvl : visitLoop dec kvs none none none with
  | none => simp only [deserialize, hvl]
  | some p =>
    obtain ⟨a, b, c⟩ := p
    cases a with
    | none => simp only [deserialize, hvl]
    | some nc =>
      cases b with
      | none => simp only [deserialize, hvl]
      | some nr =>
        cases c with
        | none => simp only [deserialize, hvl]
        | some data => exact absurd hvl (h nc nr data)

/-- a permutation of a two-element list -/
theorem perm_two {β : Type} {y z p q : β} (h : [y, z].Perm [p, q]) : (y = p ∧ z = q) ∨ (y = q ∧ z = p) := by
  have hy : y ∈ [p, q] := h.subset (by simp)
  simp only [List.mem_cons, List.not_mem_nil, or_false] at hy
  rcases hy with rfl | rfl
  · have := h.cons_inv
    exact .inl ⟨rfl, by simpa using this⟩
  · have h2 : [y, z].Perm [y, p] := h.trans (List.Perm.swap _ _ _)
    have := h2.cons_inv
    exact .inr ⟨rfl, by simpa using this⟩

/-- a permutation of a three-element list is one of the six orderings -/
theorem perm_three {β : Type} {a b c : β} (kvs : List β) (h : kvs.Perm [a, b, c]) :
    kvs = [a, b, c] ∨ kvs = [a, c, b] ∨ kvs = [b, a, c] ∨ kvs = [b, c, a] ∨ kvs = [c, a, b] ∨ kvs = [c, b, a] := by
  have hl := h.length_eq
  match kvs, hl, h with
  | [x, y, z], _, h =>
    have hx : x ∈ [a, b, c] := h.subset (by simp)
    simp only [List.mem_cons, List.not_mem_nil, or_false] at hx
    rcases hx with rfl | rfl | rfl
    · rcases perm_two h.cons_inv with ⟨rfl, rfl⟩ | ⟨rfl, rfl⟩ <;> simp
    · have h2 : [x, y, z].Perm [x, a, c] := h.trans (List.Perm.swap _ _ _)
      rcases perm_two h2.cons_inv with ⟨rfl, rfl⟩ | ⟨rfl, rfl⟩ <;> simp
    · have h2 : [x, y, z].Perm [x, a, b] :=
        h.trans (((List.Perm.swap _ _ _).cons a).trans (List.Perm.swap _ _ _))
      rcases perm_two h2.cons_inv with ⟨rfl, rfl⟩ | ⟨rfl, rfl⟩ <;> simp

/-- the visitor loop on a document with exactly the three entries, in any order -/
theorem visitLoop_of_perm (dec : JVal → Option α) (kvs : List (String × JVal)) (nc nr : Nat) (v : JVal) (data : List α)
    (hk : kvs.Perm [("num_cols", JVal.num nc), ("num_rows", JVal.num nr), ("data", v)])
    (hd : decVec dec v = some data) (hc : nc < WORD) (hr : nr < WORD) :
    visitLoop dec kvs none none none = some (some nc, some nr, some data) := by
  have e1 : ¬ ("num_rows" = "num_cols") := by decide
  have e2 : ¬ ("data" = "num_cols") := by decide
  have e3 : ¬ ("data" = "num_rows") := by decide
  rcases perm_three kvs hk with h | h | h | h | h | h <;> subst h <;>
    simp [visitLoop, decUsize_num hc, decUsize_num hr, hd, e1, e2, e3]

end Toodee
