import Toodee.Spec.Cells
import Toodee.Impl.Copy
import Toodee.Proofs.Index
import Toodee.Properties.C08
/-
  Helper lemmas for C14 (copy operations): pointwise characterisation of `writeWin` / `readWin` / `updCells`,
  `coord?` vs `pos`, writing a segment of a row as `updCells`, and the row loops of the copy operations.
-/
namespace Toodee
variable {α : Type}

/-! ### buffers pointwise -/

theorem readWin_length (buf : List α) (w : Win) (h : w.off + w.len ≤ buf.length) :
    (readWin buf w).length = w.len := by
  simp [readWin]; omega

theorem readWin_getElem? (buf : List α) (w : Win) (i : Nat) :
    (readWin buf w)[i]? = if i < w.len then buf[w.off + i]? else none := by
  simp [readWin, List.getElem?_take]

theorem writeWin_length (buf : List α) (w : Win) (vals : List α) (h : w.off + w.len ≤ buf.length)
    (hv : vals.length = w.len) : (writeWin buf w vals).length = buf.length := by
  simp [writeWin]; omega

theorem writeWin_getElem? (buf : List α) (w : Win) (vals : List α) (h : w.off + w.len ≤ buf.length)
    (hv : vals.length = w.len) (p : Nat) :
    (writeWin buf w vals)[p]? = if w.off ≤ p ∧ p < w.off + w.len then vals[p - w.off]? else buf[p]? := by
  unfold writeWin
  have h1 : (List.take w.off buf).length = w.off := by simp; omega
  by_cases hp1 : p < w.off
  · rw [List.append_assoc, List.getElem?_append_left (by omega)]
    simp [hp1]
    intro h'; omega
  · by_cases hp2 : p < w.off + w.len
    · rw [List.getElem?_append_left (by simp; omega), List.getElem?_append_right (by omega), h1]
      simp [hp2, Nat.le_of_not_lt hp1]
    · rw [List.getElem?_append_right (by simp; omega)]
      simp [hp2]
      congr 1
      omega

/-! ### `coord?` and `pos` -/

theorem VW.Inv.rows_le {v : VW} {n : Nat} (h : v.Inv n) : v.numRows ≤ v.data.len := by
  by_cases hR : v.numRows = 0
  · omega
  · have hC : 0 < v.numCols := Nat.pos_of_ne_zero fun hc => hR (h.zero.1 hc)
    have hS := h.stride
    have := Nat.le_mul_of_pos_right (v.numRows - 1) (Nat.lt_of_lt_of_le hC hS)
    have hl := h.len
    rw [if_neg hR] at hl
    omega

theorem VW.Inv.rows_word {v : VW} {n : Nat} (h : v.Inv n) : v.numRows < WORD := by
  have := h.rows_le; have := h.inside; have := h.word; omega

theorem VW.Inv.cols_word {v : VW} {n : Nat} (h : v.Inv n) : v.numCols < WORD := by
  have := h.stride; have := h.stride_word; omega

/-- `C*R` fits the buffer -/
theorem VW.Inv.area_le {v : VW} {n : Nat} (h : v.Inv n) : v.numCols * v.numRows ≤ v.data.len := by
  by_cases hR : v.numRows = 0
  · simp [hR]
  · have hl := h.len
    rw [if_neg hR] at hl
    have h1 := Nat.mul_le_mul_left (v.numRows - 1) h.stride
    have h2 := pred_mul_add v.numCols (Nat.pos_of_ne_zero hR)
    rw [Nat.mul_comm v.numCols]
    omega

/-- a segment of a row lies inside the buffer -/
theorem VW.Inv.seg_inside {v : VW} {n : Nat} (h : v.Inv n) {c w r : Nat} (hr : r < v.numRows)
    (hc : c + w ≤ v.numCols) : v.pos c r + w ≤ n := by
  have hl := h.len
  rw [if_neg (by omega)] at hl
  have := row_start_le v.stride hr
  have := h.inside
  unfold VW.pos
  omega

theorem VW.Inv.coord_pos {v : VW} {n : Nat} (h : v.Inv n) {c r : Nat} (hc : c < v.numCols)
    (hr : r < v.numRows) : v.coord? (v.pos c r) = some (c, r) := by
  have hS := h.stride
  have hcS : c < v.stride := by omega
  have hq : v.data.off + r * v.stride + c - v.data.off = c + v.stride * r := by
    rw [Nat.mul_comm]; omega
  unfold VW.coord? VW.pos
  have h0 : v.data.off ≤ v.data.off + r * v.stride + c ∧ 0 < v.stride := ⟨by omega, by omega⟩
  rw [if_pos h0]
  simp only [hq, Nat.add_mul_mod_self_left, Nat.mod_eq_of_lt hcS,
    Nat.add_mul_div_left _ _ (show 0 < v.stride by omega), Nat.div_eq_of_lt hcS, Nat.zero_add]
  rw [if_pos ⟨hc, hr⟩]

theorem VW.coord_some {v : VW} {p c r : Nat} (h : v.coord? p = some (c, r)) :
    p = v.pos c r ∧ c < v.numCols ∧ r < v.numRows := by
  unfold VW.coord? at h
  split at h
  · rename_i h0
    simp only at h
    split at h
    · rename_i h1
      simp only [Option.some.injEq, Prod.mk.injEq] at h
      obtain ⟨rfl, rfl⟩ := h
      refine ⟨?_, h1.1, h1.2⟩
      have := Nat.div_add_mod' (p - v.data.off) v.stride
      unfold VW.pos
      omega
    · cases h
  · cases h

/-! ### `updCells` pointwise -/

theorem updCells_length (v : VW) (buf : List α) (f : Nat × Nat → Option α) :
    (v.updCells buf f).length = buf.length := by
  simp [VW.updCells]

theorem updCells_getElem? (v : VW) (buf : List α) (f : Nat × Nat → Option α) (p : Nat) :
    (v.updCells buf f)[p]? = buf[p]?.map fun x =>
      match v.coord? p with
      | some cr => (f cr).getD x
      | none => x := by
  unfold VW.updCells
  rw [List.getElem?_mapIdx]
  rfl

/-- only the values on cells of the view matter -/
theorem updCells_congr (v : VW) (buf : List α) (f g : Nat × Nat → Option α)
    (hfg : ∀ c r, c < v.numCols → r < v.numRows → f (c, r) = g (c, r)) :
    v.updCells buf f = v.updCells buf g := by
  apply List.ext_getElem?
  intro p
  rw [updCells_getElem?, updCells_getElem?]
  cases hc : v.coord? p with
  | none => rfl
  | some cr =>
    obtain ⟨c, r⟩ := cr
    obtain ⟨_, h1, h2⟩ := VW.coord_some hc
    simp only [hfg c r h1 h2]

theorem updCells_none (v : VW) (buf : List α) : v.updCells buf (fun _ => none) = buf := by
  apply List.ext_getElem?
  intro p
  rw [updCells_getElem?]
  cases v.coord? p <;> simp

/-- a cell function that is `none` on all cells of the view changes nothing -/
theorem updCells_eq_self (v : VW) (buf : List α) (f : Nat × Nat → Option α)
    (hf : ∀ c r, c < v.numCols → r < v.numRows → f (c, r) = none) : v.updCells buf f = buf := by
  rw [updCells_congr v buf f (fun _ => none) hf, updCells_none]

/-- reading a cell of an updated buffer -/
theorem updCells_getElem?_pos {v : VW} {buf : List α} (h : v.Inv buf.length) (f : Nat × Nat → Option α)
    {c r : Nat} (hc : c < v.numCols) (hr : r < v.numRows) :
    (v.updCells buf f)[v.pos c r]? = match f (c, r) with | some x => some x | none => buf[v.pos c r]? := by
  have hlt : v.pos c r < buf.length := by
    have := h.seg_inside (c := c) (w := 1) hr (by omega); omega
  rw [updCells_getElem?, h.coord_pos hc hr, List.getElem?_eq_getElem hlt]
  dsimp only [Option.map_some]
  cases f (c, r) <;> simp

/-- overwriting a segment of a row of the view is an `updCells` -/
theorem writeWin_updCells {v : VW} {buf : List α} (h : v.Inv buf.length) (F : Nat × Nat → Option α)
    {r d0 w : Nat} (vals : List α) (hr : r < v.numRows) (hd : d0 + w ≤ v.numCols) (hv : vals.length = w) :
    writeWin (v.updCells buf F) ⟨v.pos d0 r, w⟩ vals =
      v.updCells buf fun cr => if cr.2 = r ∧ d0 ≤ cr.1 ∧ cr.1 < d0 + w then vals[cr.1 - d0]? else F cr := by
  have hin := h.seg_inside hr hd
  apply List.ext_getElem?
  intro p
  rw [writeWin_getElem? _ _ _ (by rw [updCells_length]; exact hin) hv]
  simp only
  by_cases hp : v.pos d0 r ≤ p ∧ p < v.pos d0 r + w
  · rw [if_pos hp, updCells_getElem?]
    have hpe : p = v.pos (d0 + (p - v.pos d0 r)) r := by unfold VW.pos at *; omega
    have hc : d0 + (p - v.pos d0 r) < v.numCols := by omega
    have hco := h.coord_pos hc hr
    rw [← hpe] at hco
    rw [hco]
    simp only
    rw [if_pos ⟨trivial, by omega, by omega⟩]
    have hlt : p < buf.length := by omega
    have hi : d0 + (p - v.pos d0 r) - d0 = p - v.pos d0 r := by omega
    rw [List.getElem?_eq_getElem hlt, hi, List.getElem?_eq_getElem (by omega)]
    simp
  · rw [if_neg hp, updCells_getElem?, updCells_getElem?]
    cases hc : v.coord? p with
    | none => rfl
    | some cr =>
      obtain ⟨c', r'⟩ := cr
      obtain ⟨hpe, _, _⟩ := VW.coord_some hc
      have hn : ¬ (r' = r ∧ d0 ≤ c' ∧ c' < d0 + w) := by
        rintro ⟨rfl, h1, h2⟩
        apply hp
        unfold VW.pos at *
        omega
      simp only [if_neg hn]

/-! ### the rows seen through an accessor -/

theorem Acc.Of.collect_rowWins {a : Acc} {v : VW} {n : Nat} (ha : a.Of v n) :
    a.rows.collect (a.rows.v.len + 2) = .ok ((List.range v.numRows).map v.rowWin) := by
  have hwf := ha.wf
  have hk : v.numRows < a.rows.v.len + 2 := by
    by_cases hR : v.numRows = 0
    · omega
    · have hc := hwf.cols_pos hR
      have hl := hwf.len
      rw [if_neg hR] at hl
      have := Nat.le_mul_of_pos_right (v.numRows - 1) (show 0 < a.rows.cols + a.rows.skip by omega)
      omega
  rw [C08_fold a.rows v.numRows n hwf _ hk, ha.abs]
  rfl

/-! ### `zipCopy` over the rows -/

theorem copyIntoWin_ok (buf : List α) (d : Win) (s : List α) (h : d.len = s.length) :
    copyIntoWin buf d s = .ok (writeWin buf d s) := by
  simp [copyIntoWin, h]

theorem zipCopy_rows_aux {v : VW} {buf : List α} (h : v.Inv buf.length) (g : Nat → List α)
    (hg : ∀ r, r < v.numRows → (g r).length = v.numCols) :
    ∀ n k, k + n = v.numRows →
      zipCopy (v.updCells buf fun cr => if cr.2 < k then (g cr.2)[cr.1]? else none)
        ((List.range' k n).map v.rowWin) ((List.range' k n).map g)
      = .ok (v.updCells buf fun cr => (g cr.2)[cr.1]?) := by
  intro n
  induction n with
  | zero =>
    intro k hk
    simp only [List.range'_zero, List.map_nil, zipCopy, pure_eq]
    congr 1
    apply updCells_congr
    intro c r hc hr
    have : r < k := by omega
    simp [this]
  | succ n ih =>
    intro k hk
    have hkR : k < v.numRows := by omega
    simp only [List.range'_succ, List.map_cons, zipCopy]
    rw [copyIntoWin_ok _ _ _ (by rw [hg k hkR]; rfl)]
    have hw := writeWin_updCells h (fun cr => if cr.2 < k then (g cr.2)[cr.1]? else none)
      (r := k) (d0 := 0) (w := v.numCols) (g k) hkR (by omega) (hg k hkR)
    rw [show v.rowWin k = ⟨v.pos 0 k, v.numCols⟩ from rfl, hw, ok_bind]
    rw [← ih (k + 1) (by omega)]
    congr 1
    apply updCells_congr
    intro c r hc hr
    by_cases hrk : r = k
    · subst hrk; simp [hc]
    · have : (r < k + 1) = (r < k) := by apply propext; omega
      simp [hrk, this]

/-- copying row `r` of the chunks `g` into row `r` of the view, for all rows -/
theorem zipCopy_rows {v : VW} {buf : List α} (h : v.Inv buf.length) (g : Nat → List α)
    (hg : ∀ r, r < v.numRows → (g r).length = v.numCols) :
    zipCopy buf ((List.range v.numRows).map v.rowWin) ((List.range v.numRows).map g)
      = .ok (v.updCells buf fun cr => (g cr.2)[cr.1]?) := by
  have := zipCopy_rows_aux h g hg v.numRows 0 (by omega)
  rw [updCells_eq_self _ _ _ (by intros; simp)] at this
  rw [List.range_eq_range']
  exact this

/-- the `TooDee` loop (successive `split_at_mut(num_cols)`) visits the same windows -/
theorem tdCopyLoop_eq_zipCopy (C : Nat) : ∀ (rs : List (List α)) (k : Nat) (b : List α),
    tdCopyLoop C b ⟨k * C, rs.length * C⟩ rs =
      zipCopy b ((List.range' k rs.length).map fun i => ⟨i * C, C⟩) rs := by
  intro rs
  induction rs with
  | nil => intro k b; simp [tdCopyLoop, zipCopy]
  | cons r rs ih =>
    intro k b
    have hle : C ≤ (rs.length + 1) * C := by rw [Nat.succ_mul]; omega
    have hsnd : (⟨k * C + C, (rs.length + 1) * C - C⟩ : Win) = ⟨(k + 1) * C, rs.length * C⟩ := by
      rw [Nat.succ_mul, Nat.succ_mul, Nat.add_sub_cancel]
    simp only [tdCopyLoop, List.length_cons, Win.splitAt, if_pos hle, pure_eq, ok_bind,
      List.range'_succ, List.map_cons, zipCopy, hsnd]
    cases copyIntoWin b ⟨k * C, C⟩ r with
    | error e => rfl
    | ok b' => simp only [ok_bind]; exact ih (k + 1) b'

/-! ### `copy_within` -/

/-- the cells written once the source rows in `done` have been processed: destination cell `(c,r)` holds the *original*
    source cell at the same offset -/
def cwF (v : VW) (buf : List α) (tl br dest : Nat × Nat) (done : List Nat) : Nat × Nat → Option α := fun cr =>
  if dest.1 ≤ cr.1 ∧ cr.1 < dest.1 + (br.1 - tl.1) ∧ dest.2 ≤ cr.2 ∧ cr.2 < dest.2 + (br.2 - tl.2) ∧
      (cr.2 - dest.2 + tl.2) ∈ done then
    buf[v.pos (cr.1 - dest.1 + tl.1) (cr.2 - dest.2 + tl.2)]?
  else none

/-- one row of `copy_within`: source row `r` still holds its original content, so after the row copy the destination
    row holds the original source segment -/
theorem cw_step {v : VW} {buf : List α} (h : v.Inv buf.length) (tl br dest : Nat × Nat)
    (h1 : tl.1 ≤ br.1) (h3 : br.1 ≤ v.numCols) (h4 : br.2 ≤ v.numRows)
    (h5 : dest.1 + (br.1 - tl.1) ≤ v.numCols) (h6 : dest.2 + (br.2 - tl.2) ≤ v.numRows)
    (done : List Nat) (r : Nat) (hr : tl.2 ≤ r ∧ r < br.2)
    (hnc : ∀ r' ∈ done, r' - tl.2 + dest.2 ≠ r) :
    writeWin (v.updCells buf (cwF v buf tl br dest done)) ⟨v.pos dest.1 (r - tl.2 + dest.2), br.1 - tl.1⟩
        (readWin (v.updCells buf (cwF v buf tl br dest done)) ⟨v.pos tl.1 r, br.1 - tl.1⟩) =
      v.updCells buf (cwF v buf tl br dest (r :: done)) := by
  have hrR : r < v.numRows := by omega
  have hsrc := h.seg_inside (c := tl.1) (w := br.1 - tl.1) hrR (by omega)
  -- the source segment is still original
  have hread : readWin (v.updCells buf (cwF v buf tl br dest done)) ⟨v.pos tl.1 r, br.1 - tl.1⟩ =
      readWin buf ⟨v.pos tl.1 r, br.1 - tl.1⟩ := by
    apply List.ext_getElem?
    intro i
    rw [readWin_getElem?, readWin_getElem?]
    by_cases hi : i < br.1 - tl.1
    · simp only [if_pos hi]
      have hpe : v.pos tl.1 r + i = v.pos (tl.1 + i) r := by unfold VW.pos; omega
      rw [hpe, updCells_getElem?_pos h _ (by omega) hrR]
      have hnone : cwF v buf tl br dest done (tl.1 + i, r) = none := by
        unfold cwF
        rw [if_neg]
        rintro ⟨_, _, h7, _, h9⟩
        exact hnc _ h9 (by simp only; omega)
      rw [hnone]
    · simp only [if_neg hi]
  rw [hread, writeWin_updCells h _ _ (by omega) h5 (readWin_length _ _ hsrc)]
  apply updCells_congr
  intro c r2 hc hr2
  simp only [cwF, List.mem_cons]
  by_cases hA : r2 = r - tl.2 + dest.2 ∧ dest.1 ≤ c ∧ c < dest.1 + (br.1 - tl.1)
  · rw [if_pos hA, if_pos ⟨hA.2.1, hA.2.2, by omega, by omega, Or.inl (by omega)⟩, readWin_getElem?,
      if_pos (show c - dest.1 < br.1 - tl.1 by omega)]
    have hr2e : r2 - dest.2 + tl.2 = r := by omega
    rw [hr2e]
    congr 1
    unfold VW.pos
    simp only
    omega
  · rw [if_neg hA]
    by_cases hB : dest.1 ≤ c ∧ c < dest.1 + (br.1 - tl.1) ∧ dest.2 ≤ r2 ∧ r2 < dest.2 + (br.2 - tl.2) ∧
        (r2 - dest.2 + tl.2) ∈ done
    · rw [if_pos hB, if_pos ⟨hB.1, hB.2.1, hB.2.2.1, hB.2.2.2.1, Or.inr hB.2.2.2.2⟩]
    · rw [if_neg hB, if_neg]
      rintro ⟨g1, g2, g3, g4, g5 | g5⟩
      · exact hA ⟨by omega, g1, g2⟩
      · exact hB ⟨g1, g2, g3, g4, g5⟩

/-- the row loop of `copy_within`, for any processing order in which no destination row written earlier is a source
    row read later -/
theorem cw_fold {v : VW} {buf : List α} (h : v.Inv buf.length) (tl br dest : Nat × Nat)
    (h1 : tl.1 ≤ br.1) (h3 : br.1 ≤ v.numCols) (h4 : br.2 ≤ v.numRows)
    (h5 : dest.1 + (br.1 - tl.1) ≤ v.numCols) (h6 : dest.2 + (br.2 - tl.2) ≤ v.numRows)
    (step : List α → Nat → Res (List α)) (rs : List Nat)
    (hstep : ∀ b r, b.length = buf.length → r ∈ rs → step b r =
      .ok (writeWin b ⟨v.pos dest.1 (r - tl.2 + dest.2), br.1 - tl.1⟩ (readWin b ⟨v.pos tl.1 r, br.1 - tl.1⟩)))
    (hrs : ∀ r ∈ rs, tl.2 ≤ r ∧ r < br.2)
    (hpw : rs.Pairwise fun r r' => r - tl.2 + dest.2 ≠ r') :
    ∀ done : List Nat, (∀ r ∈ done, ∀ r' ∈ rs, r - tl.2 + dest.2 ≠ r') →
      rs.foldlM step (v.updCells buf (cwF v buf tl br dest done)) =
        .ok (v.updCells buf (cwF v buf tl br dest (rs.reverse ++ done))) := by
  induction rs with
  | nil => intro done _; simp
  | cons r rs ih =>
    intro done hdone
    rw [List.pairwise_cons] at hpw
    rw [List.foldlM_cons, hstep _ r (updCells_length _ _ _) (by simp),
      cw_step h tl br dest h1 h3 h4 h5 h6 done r (hrs r (by simp)) (fun r' hr' => hdone r' hr' r (by simp)),
      ok_bind]
    rw [ih (fun b r' hb hr' => hstep b r' hb (by simp [hr'])) (fun r' hr' => hrs r' (by simp [hr'])) hpw.2
      (r :: done)]
    · simp
    · intro x hx r' hr'
      rcases List.mem_cons.1 hx with rfl | hx
      · exact hpw.1 r' hr'
      · exact hdone x hx r' (by simp [hr'])

/-- once all source rows are processed -/
theorem cwF_all (v : VW) (buf : List α) (tl br dest : Nat × Nat) (L : List Nat)
    (hL : ∀ x, tl.2 ≤ x → x < br.2 → x ∈ L) (cr : Nat × Nat) :
    cwF v buf tl br dest L cr =
      if dest.1 ≤ cr.1 ∧ cr.1 < dest.1 + (br.1 - tl.1) ∧ dest.2 ≤ cr.2 ∧ cr.2 < dest.2 + (br.2 - tl.2) then
        buf[v.pos (cr.1 - dest.1 + tl.1) (cr.2 - dest.2 + tl.2)]?
      else none := by
  unfold cwF
  by_cases hc : dest.1 ≤ cr.1 ∧ cr.1 < dest.1 + (br.1 - tl.1) ∧ dest.2 ≤ cr.2 ∧ cr.2 < dest.2 + (br.2 - tl.2)
  · rw [if_pos hc, if_pos ⟨hc.1, hc.2.1, hc.2.2.1, hc.2.2.2, hL _ (by omega) (by omega)⟩]
  · rw [if_neg hc, if_neg]
    rintro ⟨g1, g2, g3, g4, _⟩
    exact hc ⟨g1, g2, g3, g4⟩

/-- the whole row loop, started on the original buffer -/
theorem cw_fold_all {v : VW} {buf : List α} (h : v.Inv buf.length) (tl br dest : Nat × Nat)
    (h1 : tl.1 ≤ br.1) (h3 : br.1 ≤ v.numCols) (h4 : br.2 ≤ v.numRows)
    (h5 : dest.1 + (br.1 - tl.1) ≤ v.numCols) (h6 : dest.2 + (br.2 - tl.2) ≤ v.numRows)
    (step : List α → Nat → Res (List α)) (rs : List Nat)
    (hstep : ∀ b r, b.length = buf.length → r ∈ rs → step b r =
      .ok (writeWin b ⟨v.pos dest.1 (r - tl.2 + dest.2), br.1 - tl.1⟩ (readWin b ⟨v.pos tl.1 r, br.1 - tl.1⟩)))
    (hmem : ∀ x, x ∈ rs ↔ tl.2 ≤ x ∧ x < br.2)
    (hpw : rs.Pairwise fun r r' => r - tl.2 + dest.2 ≠ r') :
    rs.foldlM step buf = .ok (v.updCells buf fun cr =>
      if dest.1 ≤ cr.1 ∧ cr.1 < dest.1 + (br.1 - tl.1) ∧ dest.2 ≤ cr.2 ∧ cr.2 < dest.2 + (br.2 - tl.2) then
        buf[v.pos (cr.1 - dest.1 + tl.1) (cr.2 - dest.2 + tl.2)]?
      else none) := by
  have h0 : v.updCells buf (cwF v buf tl br dest []) = buf :=
    updCells_eq_self _ _ _ (by intro c r _ _; simp [cwF])
  have := cw_fold h tl br dest h1 h3 h4 h5 h6 step rs hstep (fun r hr => (hmem r).1 hr) hpw []
    (by intro r hr; cases hr)
  rw [h0] at this
  rw [this]
  congr 2
  funext cr
  exact cwF_all v buf tl br dest _ (fun x hx1 hx2 => by simp [(hmem x).2 ⟨hx1, hx2⟩]) cr

/-- the source rows `top_left.1..bottom_right.1` -/
theorem cw_rows_mem (tl2 br2 x : Nat) :
    x ∈ (List.range (br2 - tl2)).map (tl2 + ·) ↔ tl2 ≤ x ∧ x < br2 := by
  simp only [List.mem_map, List.mem_range]
  constructor
  · rintro ⟨i, hi, rfl⟩; omega
  · intro hx; exact ⟨x - tl2, by omega, by omega⟩

/-- `Less` / `Greater` arms: one `row_pair_mut` step -/
theorem copyWithinRowPair_ok {v : VW} {n : Nat} (h : v.Inv n) (m : Mode) (a : Acc) (b : List α)
    (hb : b.length = n) {r r2 tl0 br0 dest0 : Nat}
    (hrp : a.rowPairMut m r r2 = .ok (v.rowWin r, v.rowWin r2))
    (hr : r < v.numRows) (h1 : tl0 ≤ br0) (h3 : br0 ≤ v.numCols) (h5 : dest0 + (br0 - tl0) ≤ v.numCols) :
    copyWithinRowPair m a b r r2 tl0 br0 dest0 (br0 - tl0) =
      .ok (writeWin b ⟨v.pos dest0 r2, br0 - tl0⟩ (readWin b ⟨v.pos tl0 r, br0 - tl0⟩)) := by
  have hw := h.cols_word
  have hsrc := h.seg_inside (c := tl0) (w := br0 - tl0) hr (by omega)
  have e1 : v.pos 0 r2 + dest0 = v.pos dest0 r2 := by unfold VW.pos; omega
  have e2 : v.pos 0 r + tl0 = v.pos tl0 r := by unfold VW.pos; omega
  unfold copyWithinRowPair
  rw [hrp]
  simp only [ok_bind, uadd_ok m _ _ (show dest0 + (br0 - tl0) < WORD by omega)]
  rw [Win.indexRange_ok _ (by omega) (by show _ ≤ v.numCols; omega),
    Win.indexRange_ok _ h1 (by show _ ≤ v.numCols; omega)]
  simp only [ok_bind, VW.rowWin, e1, e2, Nat.add_sub_cancel_left]
  rw [copyIntoWin_ok]
  rw [readWin_length _ _ (by rw [hb]; exact hsrc)]

/-- `Equal` arm: one `slice::copy_within` step -/
theorem sliceCopyWithin_ok (v : VW) (b : List α) {r tl0 br0 dest0 : Nat}
    (h1 : tl0 ≤ br0) (h3 : br0 ≤ v.numCols) (h5 : dest0 + (br0 - tl0) ≤ v.numCols) :
    sliceCopyWithin b (v.rowWin r) tl0 br0 dest0 =
      .ok (writeWin b ⟨v.pos dest0 r, br0 - tl0⟩ (readWin b ⟨v.pos tl0 r, br0 - tl0⟩)) := by
  have e1 : v.pos 0 r + dest0 = v.pos dest0 r := by unfold VW.pos; omega
  have e2 : v.pos 0 r + tl0 = v.pos tl0 r := by unfold VW.pos; omega
  unfold sliceCopyWithin
  rw [if_neg (by simp only [VW.rowWin]; exact fun hn => hn ⟨h1, h3⟩),
    if_neg (by simp only [VW.rowWin]; omega)]
  simp only [copyWithinWin, VW.rowWin, e1, e2, pure_eq]

end Toodee
