import Toodee.Proofs.RemoveLemmas
import Toodee.Properties.C09
/-
  Helper lemmas for the whole-lifetime drain theorems of C07 / C12: the ideal `Seq.ends`, and the row / column drains consumed
  from either end along a word.
-/
namespace Toodee
variable {α : Type}

/-! ### the ideal sequence consumed from either end -/

theorem dr_ends_nil {ι : Type} (l : List ι) : Seq.ends l [] = ([], l) := rfl

theorem dr_ends_cons {ι : Type} (l : List ι) (b : Bool) (w : List Bool) :
    Seq.ends l (b :: w) =
      ((if b then Seq.next l else Seq.nextBack l).1.toList ++ (Seq.ends (if b then Seq.next l else Seq.nextBack l).2 w).1,
       (Seq.ends (if b then Seq.next l else Seq.nextBack l).2 w).2) := rfl

theorem dr_next_perm {ι : Type} (l : List ι) : ((Seq.next l).1.toList ++ (Seq.next l).2).Perm l := by
  cases l <;> simp [Seq.next]

theorem dr_nextBack_perm {ι : Type} (l : List ι) : ((Seq.nextBack l).1.toList ++ (Seq.nextBack l).2).Perm l := by
  rcases List.eq_nil_or_concat l with rfl | ⟨xs, x, rfl⟩
  · simp [Seq.nextBack]
  · simp only [Seq.nextBack, List.concat_eq_append, List.getLast?_append, List.getLast?_singleton, Option.some_or,
      Option.toList_some, List.dropLast_concat]
    exact List.perm_append_comm

theorem dr_step_perm {ι : Type} (l : List ι) (b : Bool) :
    ((if b then Seq.next l else Seq.nextBack l).1.toList ++ (if b then Seq.next l else Seq.nextBack l).2).Perm l := by
  cases b
  · exact dr_nextBack_perm l
  · exact dr_next_perm l

/-- the ideal sequence conserves items along any word -/
theorem dr_ends_perm {ι : Type} : ∀ (w : List Bool) (l : List ι), ((Seq.ends l w).1 ++ (Seq.ends l w).2).Perm l
  | [], l => by simp [dr_ends_nil]
  | b :: w, l => by
    rw [dr_ends_cons]
    have ih := dr_ends_perm w (if b then Seq.next l else Seq.nextBack l).2
    have hs := dr_step_perm l b
    simp only [List.append_assoc]
    exact (List.Perm.append_left _ ih).trans hs

/-- one step on a list all of whose items survive `f` -/
theorem dr_next_filterMap {ι κ : Type} (f : ι → Option κ) (l : List ι) (hf : ∀ x ∈ l, (f x).isSome) :
    Seq.next (l.filterMap f) = ((Seq.next l).1.bind f, (Seq.next l).2.filterMap f) := by
  cases l with
  | nil => rfl
  | cons x xs =>
    have hx := hf x (by simp)
    obtain ⟨y, hy⟩ := Option.isSome_iff_exists.1 hx
    simp [Seq.next, List.filterMap_cons_some hy, hy]

theorem dr_nextBack_filterMap {ι κ : Type} (f : ι → Option κ) (l : List ι) (hf : ∀ x ∈ l, (f x).isSome) :
    Seq.nextBack (l.filterMap f) = ((Seq.nextBack l).1.bind f, (Seq.nextBack l).2.filterMap f) := by
  rcases List.eq_nil_or_concat l with rfl | ⟨xs, x, rfl⟩
  · rfl
  · have hx := hf x (by simp)
    obtain ⟨y, hy⟩ := Option.isSome_iff_exists.1 hx
    simp [Seq.nextBack, List.filterMap_append, List.filterMap_cons_some hy, hy]

theorem dr_step_mem {ι : Type} (l : List ι) (b : Bool) :
    ∀ x ∈ (if b then Seq.next l else Seq.nextBack l).2, x ∈ l := by
  intro x hx
  cases b
  · exact (List.dropLast_sublist l).subset hx
  · exact List.mem_of_mem_tail hx

/-- consuming the surviving images is the image of consuming, when every item survives `f` -/
theorem dr_ends_filterMap {ι κ : Type} (f : ι → Option κ) : ∀ (w : List Bool) (l : List ι), (∀ x ∈ l, (f x).isSome) →
    Seq.ends (l.filterMap f) w = ((Seq.ends l w).1.filterMap f, (Seq.ends l w).2.filterMap f)
  | [], l, _ => rfl
  | b :: w, l, hf => by
    have hstep : (if b then Seq.next (l.filterMap f) else Seq.nextBack (l.filterMap f))
        = ((if b then Seq.next l else Seq.nextBack l).1.bind f, (if b then Seq.next l else Seq.nextBack l).2.filterMap f) := by
      cases b
      · exact dr_nextBack_filterMap f l hf
      · exact dr_next_filterMap f l hf
    have ih := dr_ends_filterMap f w (if b then Seq.next l else Seq.nextBack l).2
      (fun x hx => hf x (dr_step_mem l b x hx))
    rw [dr_ends_cons, dr_ends_cons, hstep]
    simp only [ih, List.filterMap_append]
    congr 2
    cases (if b then Seq.next l else Seq.nextBack l).1 with
    | none => rfl
    | some x =>
      cases hfx : f x <;> simp [hfx]

/-! ### the row drain along a word -/

theorem dr_row_step (d : DrainRow α) (b : Bool) :
    (if b then d.next else d.nextBack) =
      ((if b then Seq.next d.items else Seq.nextBack d.items).1,
       { d with items := (if b then Seq.next d.items else Seq.nextBack d.items).2 }) := by
  cases b
  · cases d with
    | mk items pre tail lr lc fr fc =>
      simp only [Bool.false_eq_true, if_false]
      unfold DrainRow.nextBack Seq.nextBack
      cases hx : items.getLast? with
      | none =>
        have : items = [] := List.getLast?_eq_none_iff.1 hx
        subst this
        simp
      | some x => simp
  · cases d with
    | mk items pre tail lr lc fr fc =>
      cases items <;> simp [DrainRow.next, Seq.next]

theorem dr_row_run_cons (d : DrainRow α) (b : Bool) (w : List Bool) :
    d.run (b :: w) = ((if b then d.next else d.nextBack).1.toList ++ ((if b then d.next else d.nextBack).2.run w).1,
      ((if b then d.next else d.nextBack).2.run w).2) := rfl

/-- the row drain is the ideal sequence over its items; nothing else changes -/
theorem dr_row_run : ∀ (w : List Bool) (d : DrainRow α),
    d.run w = ((Seq.ends d.items w).1, { d with items := (Seq.ends d.items w).2 })
  | [], d => rfl
  | b :: w, d => by
    rw [dr_row_run_cons, dr_row_step, dr_ends_cons]
    simp only [dr_row_run w]

/-! ### the column drain along a word -/

theorem dr_col_next (d : DrainCol α) (k : Nat) (hwf : d.iter.WF k d.buf.length) :
    ∃ it', it'.WF (k - 1) d.buf.length ∧ it'.abs (k - 1) = (Seq.next (d.iter.abs k)).2 ∧
      d.next = .ok (((Seq.next (d.iter.abs k)).1).bind (d.buf[·]?),
        { d with iter := it', taken := (Seq.next (d.iter.abs k)).1.toList ++ d.taken }) := by
  have hlt := rl_col_abs_lt d.iter k _ hwf
  obtain ⟨it', hn, hwf', habs⟩ := C09_next d.iter k _ hwf
  refine ⟨it', hwf', habs, ?_⟩
  rcases hx : (Seq.next (d.iter.abs k)).1 with _ | p
  · rw [hx] at hn
    unfold DrainCol.next
    rw [hn]
    rfl
  · rw [hx] at hn
    have hp : p < d.buf.length := hlt p (List.mem_of_head? hx)
    unfold DrainCol.next
    rw [hn]
    simp only [ok_bind, rl_readCell_ok d.buf p hp, pure_eq, Option.bind_some,
      List.getElem?_eq_getElem hp, Option.toList_some, List.singleton_append]

theorem dr_col_nextBack (m : Mode) (d : DrainCol α) (k : Nat) (hwf : d.iter.WF k d.buf.length) :
    ∃ it', it'.WF (k - 1) d.buf.length ∧ it'.abs (k - 1) = (Seq.nextBack (d.iter.abs k)).2 ∧
      d.nextBack m = .ok (((Seq.nextBack (d.iter.abs k)).1).bind (d.buf[·]?),
        { d with iter := it', taken := (Seq.nextBack (d.iter.abs k)).1.toList ++ d.taken }) := by
  have hlt := rl_col_abs_lt d.iter k _ hwf
  obtain ⟨it', hn, hwf', habs⟩ := C09_next_back m d.iter k _ hwf
  refine ⟨it', hwf', habs, ?_⟩
  rcases hx : (Seq.nextBack (d.iter.abs k)).1 with _ | p
  · rw [hx] at hn
    unfold DrainCol.nextBack
    rw [hn]
    rfl
  · rw [hx] at hn
    have hp : p < d.buf.length := hlt p (List.mem_of_getLast? hx)
    unfold DrainCol.nextBack
    rw [hn]
    simp only [ok_bind, rl_readCell_ok d.buf p hp, pure_eq, Option.bind_some,
      List.getElem?_eq_getElem hp, Option.toList_some, List.singleton_append]

theorem dr_col_step (m : Mode) (d : DrainCol α) (k : Nat) (hwf : d.iter.WF k d.buf.length) (b : Bool) :
    ∃ it', it'.WF (k - 1) d.buf.length ∧
      it'.abs (k - 1) = (if b then Seq.next (d.iter.abs k) else Seq.nextBack (d.iter.abs k)).2 ∧
      (if b then d.next else d.nextBack m) =
        .ok (((if b then Seq.next (d.iter.abs k) else Seq.nextBack (d.iter.abs k)).1).bind (d.buf[·]?),
          { d with iter := it',
                   taken := (if b then Seq.next (d.iter.abs k) else Seq.nextBack (d.iter.abs k)).1.toList ++ d.taken }) := by
  cases b
  · exact dr_col_nextBack m d k hwf
  · exact dr_col_next d k hwf

theorem dr_col_run_cons (m : Mode) (d : DrainCol α) (b : Bool) (w : List Bool) :
    d.run m (b :: w) = ((if b then d.next else d.nextBack m) >>= fun r =>
      DrainCol.run m r.2 w >>= fun s => pure (r.1.toList ++ s.1, s.2)) := by
  rw [DrainCol.run]
  cases b <;> rfl

/-- The invariant along `run`: the cursor stays well-formed and stands for what the ideal sequence over its positions leaves;
    the yielded items are the cells at the yielded positions; `taken` collects the yielded positions; nothing else changes. -/
theorem dr_col_run (m : Mode) : ∀ (w : List Bool) (d : DrainCol α) (k : Nat), d.iter.WF k d.buf.length →
    ∃ it' k', it'.WF k' d.buf.length ∧ it'.abs k' = (Seq.ends (d.iter.abs k) w).2 ∧
      d.run m w = .ok ((Seq.ends (d.iter.abs k) w).1.filterMap (d.buf[·]?),
        { d with iter := it', taken := (Seq.ends (d.iter.abs k) w).1.reverse ++ d.taken })
  | [], d, k, hwf => ⟨d.iter, k, hwf, rfl, rfl⟩
  | b :: w, d, k, hwf => by
    obtain ⟨it1, hwf1, habs1, hstep⟩ := dr_col_step m d k hwf b
    obtain ⟨it', k', hwf', habs', hrun⟩ := dr_col_run m w
      { d with iter := it1,
               taken := (if b then Seq.next (d.iter.abs k) else Seq.nextBack (d.iter.abs k)).1.toList ++ d.taken }
      (k - 1) hwf1
    refine ⟨it', k', hwf', ?_, ?_⟩
    · rw [habs', dr_ends_cons]
      simp only [habs1]
    · rw [dr_col_run_cons, hstep, ok_bind, hrun, ok_bind, dr_ends_cons]
      simp only [habs1, pure_eq]
      congr 2
      · rw [List.filterMap_append]
        congr 1
        cases (if b then Seq.next (d.iter.abs k) else Seq.nextBack (d.iter.abs k)).1 with
        | none => rfl
        | some p => cases hp : d.buf[p]? <;> simp [hp]
      · simp only [List.reverse_append, List.append_assoc]
        congr 2
        cases (if b then Seq.next (d.iter.abs k) else Seq.nextBack (d.iter.abs k)).1 <;> rfl

end Toodee
