import Toodee.Spec.Cells
import Toodee.Impl.Sort
/-
  `build_swap_trace` (src/sort.rs:10-46): the in-place construction of a list of transpositions that realises a permutation.

  * `swapAt` / `applySwapsL` / `traceMap`: applying a list of transpositions to a list is reading through the index map
    `traceMap trace` (`new[k] = old[traceMap trace k]`).
  * `BInv`: the invariant of the second loop on the ghost state `(P, Q, trace)`; `BInv.step_eq`, `BInv.step_ne`.
  * `bstInverse_spec`, `bstTrace_spec`: the two loops on the array (the in-place reuse of the dead prefix for the trace is
    invisible); `buildSwapTrace_spec`: the result in terms of `traceMap`.
-/
namespace Toodee

/-! ### transpositions on lists -/

/-- exchange entries `i` and `j` (nothing when one is out of range) -/
def swapAt {β : Type} (l : List β) (i j : Nat) : List β :=
  match l[i]?, l[j]? with
  | some a, some b => (l.set i b).set j a
  | _, _ => l

/-- apply transpositions left to right (same function as `applySwaps` of C16) -/
def applySwapsL {β : Type} (xs : List β) (trace : List (Nat × Nat)) : List β :=
  trace.foldl (fun l ij => swapAt l ij.1 ij.2) xs

/-- index map of a list of transpositions: `new[k] = old[traceMap trace k]` -/
def traceMap : List (Nat × Nat) → Nat → Nat
  | [], k => k
  | t :: rest, k => swapIdx t.1 t.2 (traceMap rest k)

theorem swapAt_length {β : Type} (l : List β) (i j : Nat) : (swapAt l i j).length = l.length := by
  unfold swapAt
  split <;> simp

theorem swapAt_getElem? {β : Type} (l : List β) {i j : Nat} (hi : i < l.length) (hj : j < l.length) (k : Nat) :
    (swapAt l i j)[k]? = l[swapIdx i j k]? := by
  unfold swapAt
  rw [List.getElem?_eq_getElem hi, List.getElem?_eq_getElem hj]
  simp only [List.getElem?_set, List.length_set, swapIdx]
  by_cases h1 : k = j
  · subst h1
    by_cases h2 : k = i
    · subst h2; simp [hi]
    · simp [h2, hj, hi]
  · by_cases h2 : k = i
    · subst h2
      have : ¬ j = k := fun h => h1 h.symm
      simp [this, hi, hj]
    · have h1' : ¬ j = k := fun h => h1 h.symm
      have h2' : ¬ i = k := fun h => h2 h.symm
      simp [h1, h2, h1', h2']

theorem swapIdx_lt' {a b i k : Nat} (ha : a < k) (hb : b < k) (hi : i < k) : swapIdx a b i < k := by
  unfold swapIdx
  split
  · exact hb
  · split
    · exact ha
    · exact hi

theorem traceMap_lt {n : Nat} (tr : List (Nat × Nat)) (hb : ∀ ij ∈ tr, ij.1 < n ∧ ij.2 < n) {k : Nat} (hk : k < n) :
    traceMap tr k < n := by
  induction tr with
  | nil => exact hk
  | cons t rest ih =>
    have ht := hb t (by simp)
    exact swapIdx_lt' ht.1 ht.2 (ih (fun ij h => hb ij (by simp [h])))

theorem traceMap_append (tr : List (Nat × Nat)) (t : Nat × Nat) (k : Nat) :
    traceMap (tr ++ [t]) k = traceMap tr (swapIdx t.1 t.2 k) := by
  induction tr with
  | nil => rfl
  | cons s rest ih => simp only [List.cons_append, traceMap, ih]

/-- applying transpositions = reading through `traceMap` -/
theorem applySwapsL_spec {β : Type} {n : Nat} (tr : List (Nat × Nat)) (hb : ∀ ij ∈ tr, ij.1 < n ∧ ij.2 < n)
    (xs : List β) (hx : xs.length = n) :
    (applySwapsL xs tr).length = n ∧ ∀ k, (applySwapsL xs tr)[k]? = xs[traceMap tr k]? := by
  induction tr generalizing xs with
  | nil => exact ⟨hx, fun _ => rfl⟩
  | cons t rest ih =>
    have ht := hb t (by simp)
    have hl : (swapAt xs t.1 t.2).length = n := by rw [swapAt_length, hx]
    obtain ⟨h1, h2⟩ := ih (fun ij h => hb ij (by simp [h])) (swapAt xs t.1 t.2) hl
    refine ⟨h1, fun k => ?_⟩
    show (applySwapsL (swapAt xs t.1 t.2) rest)[k]? = _
    rw [h2 k, swapAt_getElem? xs (by omega) (by omega)]
    rfl

/-! ### the permutation as a function -/

/-- what `p.Perm (range n)` gives pointwise -/
theorem perm_range_facts (p : List Nat) (hp : p.Perm (List.range p.length)) :
    (∀ j, j < p.length → p.getD j 0 < p.length) ∧
    (∀ j k, j < p.length → k < p.length → p.getD j 0 = p.getD k 0 → j = k) ∧
    (∀ v, v < p.length → ∃ k, k < p.length ∧ p.getD k 0 = v) := by
  have hnd : p.Nodup := hp.nodup_iff.2 List.nodup_range
  have hget : ∀ j (h : j < p.length), p.getD j 0 = p[j] := fun j h => by
    simp [List.getD_eq_getElem?_getD, h]
  refine ⟨fun j hj => ?_, fun j k hj hk he => ?_, fun v hv => ?_⟩
  · rw [hget j hj]
    exact List.mem_range.1 (hp.mem_iff.1 (List.getElem_mem hj))
  · exact (List.getD_inj hj hk hnd).1 he
  · have : v ∈ p := hp.mem_iff.2 (List.mem_range.2 hv)
    obtain ⟨k, hk, he⟩ := List.mem_iff_getElem.1 this
    exact ⟨k, hk, by rw [hget k hk, he]⟩

/-! ### the invariant of the second loop, on the ghost state -/

/-- head of iteration `i`: `P j` is the position that currently holds what slot `j` wants, `Q = P⁻¹` on `[i, n)`,
    `traceMap tr` is the arrangement reached by the swaps emitted so far -/
structure BInv (pf : Nat → Nat) (n i : Nat) (P Q : Nat → Nat) (tr : List (Nat × Nat)) : Prop where
  done : ∀ j, j < i → traceMap tr j = pf j
  todo : ∀ j, i ≤ j → j < n → traceMap tr (P j) = pf j ∧ i ≤ P j ∧ P j < n
  inv : ∀ j, i ≤ j → j < n → Q (P j) = j ∧ P (Q j) = j ∧ i ≤ Q j ∧ Q j < n
  bounds : ∀ ij ∈ tr, ij.1 < ij.2 ∧ ij.2 < n

/-- slot `i` already holds its element: nothing to do -/
theorem BInv.step_eq {pf : Nat → Nat} {n i : Nat} {P Q : Nat → Nat} {tr : List (Nat × Nat)}
    (H : BInv pf n i P Q tr) (hi : i < n) (he : P i = i) : BInv pf n (i + 1) P Q tr := by
  have hQi : Q i = i := by have := (H.inv i (Nat.le_refl i) hi).1; rw [he] at this; exact this
  refine ⟨fun j hj => ?_, fun j hj hjn => ?_, fun j hj hjn => ?_, H.bounds⟩
  · by_cases h : j = i
    · subst h; have := (H.todo j (Nat.le_refl j) hi).1; rw [he] at this; exact this
    · exact H.done j (by omega)
  · obtain ⟨h1, h2, h3⟩ := H.todo j (by omega) hjn
    refine ⟨h1, ?_, h3⟩
    have : P j ≠ i := fun h => by
      have := (H.inv j (by omega) hjn).1
      rw [h, hQi] at this; omega
    omega
  · obtain ⟨h1, h2, h3, h4⟩ := H.inv j (by omega) hjn
    refine ⟨h1, h2, ?_, h4⟩
    have : Q j ≠ i := fun h => by rw [h, he] at h2; omega
    omega

/-- what the guard `inv_i > i` and the unchecked indices need when `P i ≠ i` -/
theorem BInv.ne_facts {pf : Nat → Nat} {n i : Nat} {P Q : Nat → Nat} {tr : List (Nat × Nat)}
    (H : BInv pf n i P Q tr) (hi : i < n) (hne : P i ≠ i) :
    i < P i ∧ P i < n ∧ i < Q i ∧ Q i < n := by
  obtain ⟨_, h2, h3⟩ := H.todo i (Nat.le_refl i) hi
  obtain ⟨_, k2, k3, k4⟩ := H.inv i (Nat.le_refl i) hi
  refine ⟨by omega, h3, ?_, k4⟩
  have : Q i ≠ i := fun h => by rw [h] at k2; exact hne k2
  omega

/-- slot `i` wants what sits at `P i ≠ i`: emit `(i, P i)` and redirect the slot that wanted what sat at `i` -/
theorem BInv.step_ne {pf : Nat → Nat} {n i : Nat} {P Q : Nat → Nat} {tr : List (Nat × Nat)}
    (H : BInv pf n i P Q tr) (hi : i < n) (hne : P i ≠ i) :
    BInv pf n (i + 1) (fun j => if j = Q i then P i else P j) (fun k => if k = P i then Q i else Q k)
      (tr ++ [(i, P i)]) := by
  obtain ⟨ho1, ho2, hq1, hq2⟩ := H.ne_facts hi hne
  obtain ⟨ti, _, _⟩ := H.todo i (Nat.le_refl i) hi
  obtain ⟨ii1, ii2, _, _⟩ := H.inv i (Nat.le_refl i) hi
  refine ⟨fun j hj => ?_, fun j hj hjn => ?_, fun j hj hjn => ?_, fun ij hij => ?_⟩
  · rw [traceMap_append]
    by_cases h : j = i
    · subst h
      simp only [swapIdx, if_true]; exact ti
    · have h2 : j ≠ P i := by omega
      simp only [swapIdx, if_neg h, if_neg h2]
      exact H.done j (by omega)
  · rw [traceMap_append]
    obtain ⟨t1, t2, t3⟩ := H.todo j (by omega) hjn
    obtain ⟨i1, i2, i3, i4⟩ := H.inv j (by omega) hjn
    by_cases h : j = Q i
    · subst h
      simp only [if_true]
      refine ⟨?_, by omega, ho2⟩
      have : swapIdx i (P i) (P i) = i := by
        simp only [swapIdx, if_neg hne, if_true]
      rw [this]
      rw [ii2] at t1; exact t1
    · simp only [if_neg h]
      have n1 : P j ≠ i := fun e => by rw [e] at i1; exact h i1.symm
      have n2 : P j ≠ P i := fun e => by rw [e, ii1] at i1; omega
      refine ⟨?_, by omega, t3⟩
      simp only [swapIdx, if_neg n1, if_neg n2]; exact t1
  · obtain ⟨t1, t2, t3⟩ := H.todo j (by omega) hjn
    obtain ⟨i1, i2, i3, i4⟩ := H.inv j (by omega) hjn
    refine ⟨?_, ?_, ?_, ?_⟩
    · by_cases h : j = Q i
      · subst h; simp
      · have n2 : P j ≠ P i := fun e => by rw [e, ii1] at i1; omega
        simp only [if_neg h, if_neg n2]; exact i1
    · by_cases h : j = P i
      · subst h; simp
      · have n3 : Q j ≠ Q i := fun e => by rw [e, ii2] at i2; omega
        simp only [if_neg h, if_neg n3]; exact i2
    · by_cases h : j = P i
      · subst h; simp only [if_true]; omega
      · have : Q j ≠ i := fun e => by rw [e] at i2; exact h i2.symm
        simp only [if_neg h]; omega
    · by_cases h : j = P i
      · subst h; simp only [if_true]; exact hq2
      · simp only [if_neg h]; exact i4
  · rcases List.mem_append.1 hij with h | h
    · exact H.bounds ij h
    · simp only [List.mem_singleton] at h; subst h; exact ⟨ho1, ho2⟩

/-! ### the two loops on the array -/

theorem bstInverse_spec (pf : Nat → Nat) (n : Nat) (hlt : ∀ j, j < n → pf j < n)
    (hinj : ∀ j k, j < n → k < n → pf j = pf k → j = k) :
    ∀ (k idx : Nat) (ord : Array (Nat × Nat)), idx + k = n → ord.size = n →
      (∀ j (h : j < ord.size), ord[j].1 = pf j) →
      (∀ j, j < idx → ∀ (h : pf j < ord.size), ord[pf j].2 = j) →
      ∃ ord', bstInverse ord k idx = .ok ord' ∧ ord'.size = n ∧
        (∀ j (h : j < ord'.size), ord'[j].1 = pf j) ∧
        (∀ j, j < n → ∀ (h : pf j < ord'.size), ord'[pf j].2 = j) := by
  intro k
  induction k with
  | zero =>
    intro idx ord hk hs h1 h2
    exact ⟨ord, by simp [bstInverse], hs, h1, fun j hj => h2 j (by omega)⟩
  | succ k ih =>
    intro idx ord hk hs h1 h2
    have hidx : idx < ord.size := by omega
    have hv : ord[idx].1 < ord.size := by rw [h1 idx hidx, hs]; exact hlt idx (by omega)
    rw [bstInverse]
    simp only [hidx, hv, dite_true]
    apply ih (idx + 1) _ (by omega) (by simp [hs])
    · intro j hj
      rw [Array.getElem_set]
      split
      · next e => subst e; exact h1 _ _
      · exact h1 j _
    · intro j hj hpj
      rw [Array.getElem_set]
      have e1 := h1 idx hidx
      by_cases e : ord[idx].1 = pf j
      · rw [if_pos e]
        exact hinj _ _ (by omega) (by omega) (e1.symm.trans e)
      · rw [if_neg e]
        have : j ≠ idx := fun h => e (by rw [e1, h])
        exact h2 j (by omega) _

theorem take_eq_of_getElem? (ord : Array (Nat × Nat)) (sc : Nat) (tr : List (Nat × Nat)) (hl : tr.length = sc)
    (ht : ∀ m, m < sc → ord[m]? = tr[m]?) : ord.toList.take sc = tr := by
  apply List.ext_getElem?
  intro m
  rw [List.getElem?_take]
  by_cases h : m < sc
  · rw [if_pos h, Array.getElem?_toList, ht m h]
  · rw [if_neg h, List.getElem?_eq_none (by omega)]

theorem bstTrace_spec (pf : Nat → Nat) (n : Nat) :
    ∀ (k i : Nat) (ord : Array (Nat × Nat)) (sc : Nat) (P Q : Nat → Nat) (tr : List (Nat × Nat)),
      i + k = n → ord.size = n → sc ≤ i → tr.length = sc →
      (∀ m, m < sc → ord[m]? = tr[m]?) →
      (∀ j (h : j < ord.size), i ≤ j → ord[j] = (P j, Q j)) →
      BInv pf n i P Q tr →
      ∃ ord' sc', bstTrace ord sc k i = .ok (ord', sc') ∧ sc' ≤ ord'.size ∧
        (∀ j, j < n → traceMap (ord'.toList.take sc') j = pf j) ∧
        (∀ ij ∈ ord'.toList.take sc', ij.1 < ij.2 ∧ ij.2 < n) := by
  intro k
  induction k with
  | zero =>
    intro i ord sc P Q tr hk hs hsc hl ht ha H
    refine ⟨ord, sc, by simp [bstTrace], by omega, ?_, ?_⟩
    · rw [take_eq_of_getElem? ord sc tr hl ht]
      exact fun j hj => H.done j (by omega)
    · rw [take_eq_of_getElem? ord sc tr hl ht]
      exact H.bounds
  | succ k ih =>
    intro i ord sc P Q tr hk hs hsc hl ht ha H
    have hi : i < ord.size := by omega
    have hin : i < n := by omega
    have e : ord[i] = (P i, Q i) := ha i hi (Nat.le_refl i)
    rw [bstTrace]
    simp only [hi, dite_true, e]
    by_cases he : i = P i
    · rw [if_neg (fun h : i ≠ P i => h he)]
      exact ih (i + 1) ord sc P Q tr (by omega) hs (by omega) hl ht
        (fun j h hj => ha j h (by omega)) (H.step_eq hin he.symm)
    · have hne : P i ≠ i := fun h => he h.symm
      obtain ⟨ho1, ho2, hq1, hq2⟩ := H.ne_facts hin hne
      have hsc' : sc < ord.size := by omega
      have g1 : Q i > i := hq1
      have g2 : Q i < (ord.set sc (i, P i) hsc').size := by rw [Array.size_set]; omega
      rw [if_pos he, dif_pos hsc', if_pos g1, dif_pos g2]
      have g3 : P i < ((ord.set sc (i, P i) hsc').set (Q i)
          (P i, ((ord.set sc (i, P i) hsc')[Q i]'g2).2) g2).size := by
        rw [Array.size_set, Array.size_set]; omega
      rw [dif_pos g3]
      refine ih (i + 1) _ (sc + 1) _ _ (tr ++ [(i, P i)]) (by omega) (by simp [hs]) (by omega)
        (by simp [hl]) ?_ ?_ (H.step_ne hin hne)
      · intro m hm
        rw [Array.getElem?_set, Array.getElem?_set, Array.getElem?_set]
        rw [if_neg (by omega), if_neg (by omega)]
        by_cases hms : sc = m
        · subst hms; rw [if_pos rfl, List.getElem?_append_right (by omega)]; simp [hl]
        · rw [if_neg hms, List.getElem?_append_left (by omega)]
          exact ht m (by omega)
      · intro j hj hij
        have hjs : j < ord.size := by simpa using hj
        have hj1 : ord[j] = (P j, Q j) := ha j hjs (by omega)
        have hq : ord[Q i] = (P (Q i), Q (Q i)) := ha (Q i) (by omega) (by omega)
        have ho : ord[P i] = (P (P i), Q (P i)) := ha (P i) (by omega) (by omega)
        simp only [Array.getElem_set]
        have c1 : ¬ sc = j := by omega
        have c2 : ¬ sc = Q i := by omega
        have c3 : ¬ sc = P i := by omega
        by_cases a1 : P i = j
        · by_cases a2 : Q i = j
          · subst a2; simp [a1, hj1]
          · have a2' : ¬ j = Q i := fun h => a2 h.symm
            subst a1
            by_cases a3 : Q i = P i
            · exact absurd a3 a2
            · simp [a3, a2', c3, ho]
        · have a1' : ¬ j = P i := fun h => a1 h.symm
          by_cases a2 : Q i = j
          · subst a2; simp [a1, a1', c2, hq]
          · have a2' : ¬ j = Q i := fun h => a2 h.symm
            simp [a1, a1', a2, a2', c1, hj1]

/-- `build_swap_trace` on a permutation `p` of `0..n`: no `ub`, transpositions `(i,j)` with `i < j < n`, whose index map is
    `k ↦ p[k]` -/
theorem buildSwapTrace_spec (p : List Nat) (hp : p.Perm (List.range p.length)) :
    ∃ tr, buildSwapTrace p = .ok tr ∧ (∀ ij ∈ tr, ij.1 < ij.2 ∧ ij.2 < p.length) ∧
      ∀ k, k < p.length → traceMap tr k = p.getD k 0 := by
  obtain ⟨hlt, hinj, hsurj⟩ := perm_range_facts p hp
  have hs0 : (p.map fun v => (v, 0)).toArray.size = p.length := by simp
  obtain ⟨ord1, e1, hs1, hP, hQ⟩ := bstInverse_spec (fun j => p.getD j 0) p.length hlt hinj p.length 0
    (p.map fun v => (v, 0)).toArray (by omega) hs0
    (fun j h => by
      have hj : j < p.length := by simpa using h
      simp [List.getD_eq_getElem?_getD, hj])
    (fun j hj => absurd hj (Nat.not_lt_zero j))
  have H : BInv (fun j => p.getD j 0) p.length 0 (fun j => p.getD j 0) (fun j => (ord1.getD j (0, 0)).2) [] := by
    refine ⟨fun j hj => absurd hj (Nat.not_lt_zero j), fun j _ hj => ⟨rfl, Nat.zero_le _, hlt j hj⟩,
      fun j _ hj => ?_, fun ij h => by cases h⟩
    have q1 : ∀ k, k < p.length → (ord1.getD (p.getD k 0) (0, 0)).2 = k := fun k hk => by
      have hlk : p.getD k 0 < ord1.size := by rw [hs1]; exact hlt k hk
      have := hQ k hk hlk
      simp only [Array.getD, hlk, dite_true]
      exact this
    obtain ⟨k, hk, hkj⟩ := hsurj j hj
    refine ⟨q1 j hj, ?_, Nat.zero_le _, ?_⟩
    · show p.getD ((ord1.getD j (0, 0)).2) 0 = j
      rw [← hkj, q1 k hk]
    · show (ord1.getD j (0, 0)).2 < p.length
      rw [← hkj, q1 k hk]; exact hk
  obtain ⟨ord2, sc, e2, hsc, hd, hb⟩ := bstTrace_spec (fun j => p.getD j 0) p.length p.length 0 ord1 0
    (fun j => p.getD j 0) (fun j => (ord1.getD j (0, 0)).2) [] (by omega) hs1 (Nat.le_refl 0) rfl
    (fun m hm => absurd hm (Nat.not_lt_zero m))
    (fun j h _ => by
      have := hP j h
      simp only [Array.getD, h, dite_true]
      exact Prod.ext this rfl) H
  refine ⟨ord2.toList.take sc, ?_, hb, hd⟩
  unfold buildSwapTrace
  dsimp only
  rw [hs0, e1]
  simp only [ok_bind]
  rw [e2]
  simp only [ok_bind, if_pos hsc, pure_eq]

end Toodee
