import Toodee.Spec.History
import Toodee.Proofs.HistoryLemmas
import Toodee.Proofs.OwnershipLemmas
/-
  Lemmas for C05 (the accounting law over histories): position-wise accounting of an overwrite, conservation by cell
  permutations, and the flow of every in-place operation (`HOp.inplace op`, through its specification `MOp.spec`).
-/
namespace Toodee
variable {α : Type}

/-! ### position-wise accounting -/

theorem fl_filterMap_cons {ι β : Type} (f : ι → Option β) (p : ι) (l : List ι) :
    (p :: l).filterMap f = (f p).toList ++ l.filterMap f := by
  cases h : f p <;> simp [h]

theorem fl_shuffle {β : Type} (A B C D : List β) : (A ++ B ++ (C ++ D)).Perm (A ++ C ++ (B ++ D)) := by
  rw [List.append_assoc, List.append_assoc]
  exact List.Perm.append_left A (List.perm_append_comm_assoc B C D)

/-- if at every position what is there afterwards plus what left is what was there plus what came in, the same holds overall -/
theorem fl_pointwise {ι β : Type} (l : List ι) (a o d w : ι → Option β)
    (hp : ∀ p ∈ l, ((a p).toList ++ (o p).toList).Perm ((d p).toList ++ (w p).toList)) :
    (l.filterMap a ++ l.filterMap o).Perm (l.filterMap d ++ l.filterMap w) := by
  induction l with
  | nil => exact List.Perm.refl _
  | cons p l ih =>
    rw [fl_filterMap_cons, fl_filterMap_cons, fl_filterMap_cons, fl_filterMap_cons]
    have h1 := hp p (List.mem_cons_self ..)
    have h2 := ih (fun q hq => hp q (List.mem_cons_of_mem _ hq))
    exact (fl_shuffle _ _ _ _).trans ((List.Perm.append h1 h2).trans (fl_shuffle _ _ _ _))

theorem fl_range_self (l : List α) : l = (List.range l.length).filterMap fun p => l[p]? := by
  have e := take_drop_eq_filterMap l 0 l.length
  rw [List.drop_zero, List.take_length] at e
  conv => lhs; rw [e]
  apply filterMap_congr_mem
  intro c _
  rw [Nat.zero_add]

theorem fl_mapIdx_range {β : Type} (l : List α) (g : Nat → α → β) :
    l.mapIdx g = (List.range l.length).filterMap fun p => l[p]?.map (g p) := by
  apply List.ext_getElem?
  intro i
  rw [List.getElem?_mapIdx, filterMap_getElem?_of_isSome _ _ (fun p hp => by
    have := List.mem_range.1 hp
    simp [this])]
  by_cases hi : i < l.length
  · rw [List.getElem?_range hi]
    rfl
  · rw [List.getElem?_eq_none (l := List.range l.length) (by simpa using hi),
      List.getElem?_eq_none (l := l) (by omega)]
    rfl

/-- **an overwrite conserves elements**: the new buffer plus the replaced cells are the old buffer plus the written values -/
theorem fl_overwrite_conserves (t : TD α) (f : Nat × Nat → Option α) :
    (t.asView.updCells t.data f ++ t.overwritten f).Perm (t.data ++ t.written f) := by
  unfold VW.updCells TD.overwritten TD.written
  rw [fl_mapIdx_range]
  conv => rhs; lhs; rw [fl_range_self t.data]
  apply fl_pointwise
  intro p hp
  have hlt : p < t.data.length := List.mem_range.1 hp
  rw [List.getElem?_eq_getElem hlt]
  cases hc : t.asView.coord? p with
  | none => exact List.Perm.refl _
  | some cr =>
    cases hf : f cr with
    | none =>
      simp only [Option.map_some, Option.bind_some, hf, Option.getD_none, Option.bind_none]
      exact List.Perm.refl _
    | some y =>
      simp only [Option.map_some, Option.bind_some, hf, Option.getD_some, Option.toList_some]
      exact List.Perm.swap _ _ _

/-! ### cell permutations conserve the buffer -/

/-- exchanging two values is an involution (shape shared by `swapIdx` and `swapCellG`) -/
theorem fl_swap_invol {β : Type} [DecidableEq β] (a b x : β) :
    (if (if x = a then b else if x = b then a else x) = a then b
      else if (if x = a then b else if x = b then a else x) = b then a
      else (if x = a then b else if x = b then a else x)) = x := by
  by_cases h1 : x = a
  · rw [if_pos h1]
    by_cases h2 : b = a
    · rw [if_pos h2, h2, h1]
    · rw [if_neg h2, if_pos rfl, h1]
  · rw [if_neg h1]
    by_cases h2 : x = b
    · rw [if_pos h2, if_pos rfl, h2]
    · rw [if_neg h2, if_neg h1, if_neg h2]

theorem fl_swapIdx_inj {a b i j : Nat} (he : swapIdx a b i = swapIdx a b j) : i = j := by
  have hi : swapIdx a b (swapIdx a b i) = i := fl_swap_invol a b i
  have hj : swapIdx a b (swapIdx a b j) = j := fl_swap_invol a b j
  rw [← hi, ← hj, he]

theorem fl_swapCellG_inj {a b x y : Nat × Nat} (he : swapCellG a b x = swapCellG a b y) : x = y := by
  have hx : swapCellG a b (swapCellG a b x) = x := fl_swap_invol a b x
  have hy : swapCellG a b (swapCellG a b y) = y := fl_swap_invol a b y
  rw [← hx, ← hy, he]

/-- a cell bijection of the whole owned array conserves its cells -/
theorem fl_gather_perm (t : TD α) (h : t.Inv) (g : Nat × Nat → Nat × Nat)
    (hg : ∀ c r, c < t.numCols → r < t.numRows → (g (c, r)).1 < t.numCols ∧ (g (c, r)).2 < t.numRows)
    (hinj : ∀ c r c' r', c < t.numCols → r < t.numRows → c' < t.numCols → r' < t.numRows →
      g (c, r) = g (c', r') → (c, r) = (c', r')) :
    (gather t.data (t.asView.mapCells g)).Perm t.data :=
  have hv := (C02_owned_as_view t h).1
  ow_gather_perm t.data _ (fun _ hp => VW.mapCells_lt hv g hg hp)
    (fun p q _ _ he => ow_mapCells_inj hv g hg hinj p q he)

/-- the successful result of a permuting operation is a permutation of the buffer -/
def MOp.permuting : MOp α → Prop
  | .swap .. | .swapRows .. | .swapCols .. | .translate .. | .flipRows | .flipCols | .sortRow .. | .sortCol .. => True
  | _ => False

theorem fl_spec_perm (lim : Nat) (t : TD α) (h : t.Inv) (op : MOp α) (hs : op.Sane) (hp : op.permuting)
    (d : List α) (hd : op.spec t.asView lim t.data = .ok d) : d.Perm t.data := by
  cases op with
  | set c r x => exact absurd hp id
  | setInRow r c x => exact absurd hp id
  | fill x => exact absurd hp id
  | copyFromSlice src => exact absurd hp id
  | copyFromTooDee src => exact absurd hp id
  | copyWithin tl br dest => exact absurd hp id
  | swap c1 r1 c2 r2 =>
    simp only [MOp.spec] at hd
    by_cases hr : c1 < t.numCols ∧ c2 < t.numCols ∧ r1 < t.numRows ∧ r2 < t.numRows
    · rw [if_pos (show c1 < t.asView.numCols ∧ c2 < t.asView.numCols ∧ r1 < t.asView.numRows ∧ r2 < t.asView.numRows from hr)] at hd
      injection hd with hd
      rw [← hd]
      exact fl_gather_perm t h _ (hs_swapCellG_cells t hr) (fun _ _ _ _ _ _ _ _ he => fl_swapCellG_inj he)
    · rw [if_neg (show ¬ (c1 < t.asView.numCols ∧ c2 < t.asView.numCols ∧ r1 < t.asView.numRows ∧ r2 < t.asView.numRows) from hr)] at hd
      cases hd
  | swapRows r1 r2 =>
    simp only [MOp.spec] at hd
    by_cases hr : r1 < t.numRows ∧ r2 < t.numRows
    · rw [if_pos (show r1 < t.asView.numRows ∧ r2 < t.asView.numRows from hr)] at hd
      injection hd with hd
      rw [← hd]
      refine fl_gather_perm t h _ (hs_swapRowsG_cells t hr) (fun c r c' r' _ _ _ _ he => ?_)
      simp only [swapRowsG, Prod.mk.injEq] at he
      rw [he.1, fl_swapIdx_inj he.2]
    · rw [if_neg (show ¬ (r1 < t.asView.numRows ∧ r2 < t.asView.numRows) from hr)] at hd
      cases hd
  | swapCols c1 c2 =>
    simp only [MOp.spec] at hd
    by_cases hc : c1 < t.numCols ∧ c2 < t.numCols
    · rw [if_pos (show c1 < t.asView.numCols ∧ c2 < t.asView.numCols from hc)] at hd
      injection hd with hd
      rw [← hd]
      refine fl_gather_perm t h _ (hs_swapColsG_cells t hc) (fun c r c' r' _ _ _ _ he => ?_)
      simp only [swapColsG, Prod.mk.injEq] at he
      rw [he.2, fl_swapIdx_inj he.1]
    · rw [if_neg (show ¬ (c1 < t.asView.numCols ∧ c2 < t.asView.numCols) from hc)] at hd
      cases hd
  | translate mc mr =>
    simp only [MOp.spec] at hd
    by_cases hm : mc ≤ t.numCols ∧ mr ≤ t.numRows
    · rw [if_pos (show mc ≤ t.asView.numCols ∧ mr ≤ t.asView.numRows from hm)] at hd
      injection hd with hd
      rw [← hd]
      have hb := C15_maps_bijective t.numCols t.numRows mc mr _ (List.mem_cons_self ..)
      exact fl_gather_perm t h _ hb.1 hb.2
    · rw [if_neg (show ¬ (mc ≤ t.asView.numCols ∧ mr ≤ t.asView.numRows) from hm)] at hd
      cases hd
  | flipRows =>
    simp only [MOp.spec] at hd
    injection hd with hd
    rw [← hd]
    have hb := C15_maps_bijective t.numCols t.numRows 0 0 (flipRowsG t.numRows) (by simp)
    exact fl_gather_perm t h _ hb.1 hb.2
  | flipCols =>
    simp only [MOp.spec] at hd
    injection hd with hd
    rw [← hd]
    have hb := C15_maps_bijective t.numCols t.numRows 0 0 (flipColsG t.numCols) (by simp)
    exact fl_gather_perm t h _ hb.1 hb.2
  | sortRow side row =>
    simp only [MOp.spec] at hd
    by_cases hr : row < t.asView.numRows ∧ t.asView.numCols ≤ lim
    · rw [if_pos hr] at hd
      have hv := (C02_owned_as_view t h).1
      rcases hs (readWin t.data (t.asView.rowWin row)) with hside | ⟨p, hside, hp⟩
      · rw [hside] at hd
        cases hd
      · rw [hside] at hd
        simp only [ok_bind, pure_eq] at hd
        injection hd with hd
        rw [← hd]
        have hin := VW.rowWin_inside hv hr.1
        have hl : (readWin t.data (t.asView.rowWin row)).length = t.numCols := by
          simp only [readWin, List.length_take, List.length_drop]
          have : (t.asView.rowWin row).len = t.numCols := rfl
          omega
        rw [hl] at hp
        have hb := C16_cols_bijective t.numCols t.numRows _ hp
        refine fl_gather_perm t h _ (hs_sortColsG_cells t p hp) (fun c r c' r' hc hr' hc' hr'' he => ?_)
        have h2 : r = r' := by
          have := congrArg Prod.snd he
          rw [(hb.1 c r hc hr').2, (hb.1 c' r' hc' hr'').2] at this
          exact this
        subst h2
        rw [hb.2 c c' r hc hc' (congrArg Prod.fst he)]
    · rw [if_neg hr] at hd
      cases hd
  | sortCol side col =>
    simp only [MOp.spec] at hd
    by_cases hc : col < t.asView.numCols ∧ t.asView.numRows ≤ lim
    · rw [if_pos hc] at hd
      have hv := (C02_owned_as_view t h).1
      rcases hs ((List.range t.asView.numRows).filterMap fun r => t.data[t.asView.pos col r]?) with hside | ⟨p, hside, hp⟩
      · rw [hside] at hd
        cases hd
      · rw [hside] at hd
        simp only [ok_bind, pure_eq] at hd
        injection hd with hd
        rw [← hd]
        rw [col_keys_length t.asView t.data hv hc.1] at hp
        have hb := C17_rows_bijective t.numCols t.numRows _ hp
        refine fl_gather_perm t h _ (hs_sortRowsG_cells t p hp) (fun c r c' r' hc' hr hc'' hr' he => ?_)
        have h1 : c = c' := by
          have := congrArg Prod.fst he
          rw [(hb.1 c r hc' hr).2, (hb.1 c' r' hc'' hr').2] at this
          exact this
        subst h1
        rw [hb.2 c r r' hr hr' (congrArg Prod.snd he)]
    · rw [if_neg hc] at hd
      cases hd

/-! ### the flow of an in-place operation -/

theorem fl_overwrite_flow (t : TD α) (f : Nat × Nat → Option α) (extra : List α) :
    (t.asView.updCells t.data f ++ [] ++ (t.overwritten f ++ extra) ++ []).Perm (t.data ++ (t.written f ++ extra)) := by
  simp only [List.append_nil]
  rw [← List.append_assoc, ← List.append_assoc]
  exact (fl_overwrite_conserves t f).append_right extra

/-- a successful in-place operation conserves elements, with the flow `mflow` -/
theorem fl_mflow (lim : Nat) (t : TD α) (h : t.Inv) (op : MOp α) (hs : op.Sane) (d : List α)
    (hd : op.spec t.asView lim t.data = .ok d) :
    (d ++ (mflow t op).handed ++ (mflow t op).dropped ++ (mflow t op).leaked).Perm (t.data ++ (mflow t op).supplied) := by
  have perm : ∀ op' : MOp α, op' = op → op'.permuting → mflow t op' = {} →
      (d ++ (mflow t op').handed ++ (mflow t op').dropped ++ (mflow t op').leaked).Perm (t.data ++ (mflow t op').supplied) := by
    intro op' he hp hm
    subst he
    rw [hm]
    show (d ++ [] ++ [] ++ []).Perm (t.data ++ [])
    simp only [List.append_nil]
    exact fl_spec_perm lim t h _ hs hp d hd
  cases op with
  | swap c1 r1 c2 r2 => exact perm _ rfl trivial rfl
  | swapRows r1 r2 => exact perm _ rfl trivial rfl
  | swapCols c1 c2 => exact perm _ rfl trivial rfl
  | translate mc mr => exact perm _ rfl trivial rfl
  | flipRows => exact perm _ rfl trivial rfl
  | flipCols => exact perm _ rfl trivial rfl
  | sortRow side row => exact perm _ rfl trivial rfl
  | sortCol side col => exact perm _ rfl trivial rfl
  | set c r x =>
    simp only [MOp.spec] at hd
    by_cases hc : c < t.numCols ∧ r < t.numRows
    · rw [if_pos (show c < t.asView.numCols ∧ r < t.asView.numRows from hc)] at hd
      injection hd with hd
      subst hd
      simp only [mflow, MOp.cellsWritten, if_pos hc]
      exact fl_overwrite_flow t _ []
    · rw [if_neg (show ¬ (c < t.asView.numCols ∧ r < t.asView.numRows) from hc)] at hd
      cases hd
  | setInRow r c x =>
    simp only [MOp.spec] at hd
    by_cases hc : c < t.numCols ∧ r < t.numRows
    · rw [if_pos (show c < t.asView.numCols ∧ r < t.asView.numRows from hc)] at hd
      injection hd with hd
      subst hd
      simp only [mflow, MOp.cellsWritten, if_pos hc]
      exact fl_overwrite_flow t _ []
    · rw [if_neg (show ¬ (c < t.asView.numCols ∧ r < t.asView.numRows) from hc)] at hd
      cases hd
  | fill x =>
    simp only [MOp.spec] at hd
    injection hd with hd
    subst hd
    simp only [mflow, MOp.cellsWritten]
    exact fl_overwrite_flow t _ _
  | copyFromSlice src =>
    simp only [MOp.spec] at hd
    by_cases hc : t.data.length = src.length
    · rw [if_pos (show t.asView.numCols * t.asView.numRows = src.length by rw [← hc, h.len]; rfl)] at hd
      injection hd with hd
      subst hd
      simp only [mflow, MOp.cellsWritten, if_pos hc]
      exact fl_overwrite_flow t _ []
    · rw [if_neg (show ¬ (t.asView.numCols * t.asView.numRows = src.length) from fun hcc => hc (by rw [h.len]; exact hcc))] at hd
      cases hd
  | copyFromTooDee src =>
    simp only [MOp.spec] at hd
    cases hsg : src.grid? with
    | none => rw [hsg] at hd; cases hd
    | some sg =>
      rw [hsg] at hd
      simp only at hd
      by_cases hc : sg.length = t.numRows ∧ gcols sg = t.numCols
      · rw [if_pos (show sg.length = t.asView.numRows ∧ gcols sg = t.asView.numCols from hc)] at hd
        injection hd with hd
        subst hd
        simp only [mflow, MOp.cellsWritten, hsg, if_pos hc]
        exact fl_overwrite_flow t _ []
      · rw [if_neg (show ¬ (sg.length = t.asView.numRows ∧ gcols sg = t.asView.numCols) from hc)] at hd
        cases hd
  | copyWithin tl br dest =>
    simp only [MOp.spec] at hd
    by_cases hc : rectsFit t.numCols t.numRows tl br dest
    · rw [if_pos (show rectsFit t.asView.numCols t.asView.numRows tl br dest from hc)] at hd
      injection hd with hd
      subst hd
      simp only [mflow, MOp.cellsWritten, if_pos hc]
      exact fl_overwrite_flow t _ []
    · rw [if_neg (show ¬ rectsFit t.asView.numCols t.asView.numRows tl br dest from hc)] at hd
      cases hd

/-- the flow of a failed in-place operation -/
theorem fl_inplace_err (t : TD α) (op : MOp α) :
    let F : Flow α := (match op with | .set _ _ x | .setInRow _ _ x => { supplied := [x], dropped := [x] } | _ => {})
    (t.data ++ F.handed ++ F.dropped ++ F.leaked).Perm (t.data ++ F.supplied) ∧ F.leaked = [] := by
  cases op <;> exact ⟨by simp, rfl⟩

theorem fl_mflow_leaked (t : TD α) (op : MOp α) : (mflow t op).leaked = [] := by
  unfold mflow
  cases op.cellsWritten t with
  | some f => rfl
  | none => cases op <;> rfl

/-- **an in-place call conserves elements and leaks nothing** -/
theorem fl_step_inplace (e : HEnv) (t : TD α) (h : t.Inv) (op : MOp α) (hw : op.Sane ∧ op.srcOk) :
    ((hstep e t (.inplace op)).data ++ (hflow e t (.inplace op)).handed ++ (hflow e t (.inplace op)).dropped
      ++ (hflow e t (.inplace op)).leaked).Perm (t.data ++ (hflow e t (.inplace op)).supplied) ∧
    (hflow e t (.inplace op)).leaked = [] := by
  have hrs := hs_run_spec e.m e.lim t h op hw
  simp only [hstep, hflow, hrs]
  cases hsp : op.spec t.asView e.lim t.data with
  | ok d => exact ⟨fl_mflow e.lim t h op hw.1 d hsp, fl_mflow_leaked t op⟩
  | error er => exact fl_inplace_err t op

end Toodee
