import Toodee.Spec.History
import Toodee.Proofs.HistoryLemmas
import Toodee.Proofs.OwnershipLemmas
/-
  Lemmas for C05 (the accounting law over histories): position-wise accounting of an overwrite, conservation by cell
  permutations, and the flow of every in-place operation (`HOp.inplace op`, through its specification `MOp.spec`).
-/
namespace Toodee
variable {α : Type}

/-! ### position-wise accounting -/

theorem fl_filterMap_cons {ι β : Type} (f : ι → Option β) (p : ι) (l : List ι) :
    (p :: l).filterMap f = (f p).toList ++ l.filterMap f := by
  cases h : f p <;> simp [h]

theorem fl_shuffle {β : Type} (A B C D : List β) : (A ++ B ++ (C ++ D)).Perm (A ++ C ++ (B ++ D)) := by
  rw [List.append_assoc, List.append_assoc]
  exact List.Perm.append_left A (List.perm_append_comm_assoc B C D)

/-- if at every position what is there afterwards plus what left is what was there plus what came in, the same holds overall -/
theorem fl_pointwise {ι β : Type} (l : List ι) (a o d w : ι → Option β)
    (hp : ∀ p ∈ l, ((a p).toList ++ (o p).toList).Perm ((d p).toList ++ (w p).toList)) :
    (l.filterMap a ++ l.filterMap o).Perm (l.filterMap d ++ l.filterMap w) := by
  induction l with
  | nil => exact List.Perm.refl _
  | cons p l ih =>
    rw [fl_filterMap_cons, fl_filterMap_cons, fl_filterMap_cons, fl_filterMap_cons]
    have h1 := hp p (List.mem_cons_self ..)
    have h2 := ih (fun q hq => hp q (List.mem_cons_of_mem _ hq))
    exact (fl_shuffle _ _ _ _).trans ((List.Perm.append h1 h2).trans (fl_shuffle _ _ _ _))

theorem fl_range_self (l : List α) : l = (List.range l.length).filterMap fun p => l[p]? := by
  have e := take_drop_eq_filterMap l 0 l.length
  rw [List.drop_zero, List.take_length] at e
  conv => lhs; rw [e]
  apply filterMap_congr_mem
  intro c _
  rw [Nat.zero_add]

theorem fl_mapIdx_range {β : Type} (l : List α) (g : Nat → α → β) :
    l.mapIdx g = (List.range l.length).filterMap fun p => l[p]?.map (g p) := by
  apply List.ext_getElem?
  intro i
  rw [List.getElem?_mapIdx, filterMap_getElem?_of_isSome _ _ (fun p hp => by
    have := List.mem_range.1 hp
    simp [this])]
  by_cases hi : i < l.length
  · rw [List.getElem?_range hi]
    rfl
  · rw [List.getElem?_eq_none (l := List.range l.length) (by simpa using hi),
      List.getElem?_eq_none (l := l) (by omega)]
    rfl

/-- **an overwrite through any window conserves elements**: the new buffer plus the replaced cells are the old buffer plus the
    written values -/
theorem fl_overwrite_conserves_v (v : VW) (buf : List α) (f : Nat × Nat → Option α) :
    (v.updCells buf f ++ v.overwritten buf f).Perm (buf ++ v.written buf.length f) := by
  unfold VW.updCells VW.overwritten VW.written
  rw [fl_mapIdx_range]
  conv => rhs; lhs; rw [fl_range_self buf]
  apply fl_pointwise
  intro p hp
  have hlt : p < buf.length := List.mem_range.1 hp
  rw [List.getElem?_eq_getElem hlt]
  cases hc : v.coord? p with
  | none => exact List.Perm.refl _
  | some cr =>
    cases hf : f cr with
    | none =>
      simp only [Option.map_some, Option.bind_some, hf, Option.getD_none, Option.bind_none]
      exact List.Perm.refl _
    | some y =>
      simp only [Option.map_some, Option.bind_some, hf, Option.getD_some, Option.toList_some]
      exact List.Perm.swap _ _ _

/-- … on an owned array -/
theorem fl_overwrite_conserves (t : TD α) (f : Nat × Nat → Option α) :
    (t.asView.updCells t.data f ++ t.overwritten f).Perm (t.data ++ t.written f) :=
  fl_overwrite_conserves_v t.asView t.data f

/-! ### cell permutations conserve the buffer -/

/-- exchanging two values is an involution (shape shared by `swapIdx` and `swapCellG`) -/
theorem fl_swap_invol {β : Type} [DecidableEq β] (a b x : β) :
    (if (if x = a then b else if x = b then a else x) = a then b
      else if (if x = a then b else if x = b then a else x) = b then a
      else (if x = a then b else if x = b then a else x)) = x := by
  by_cases h1 : x = a
  · rw [if_pos h1]
    by_cases h2 : b = a
    · rw [if_pos h2, h2, h1]
    · rw [if_neg h2, if_pos rfl, h1]
  · rw [if_neg h1]
    by_cases h2 : x = b
    · rw [if_pos h2, if_pos rfl, h2]
    · rw [if_neg h2, if_neg h1, if_neg h2]

theorem fl_swapIdx_inj {a b i j : Nat} (he : swapIdx a b i = swapIdx a b j) : i = j := by
  have hi : swapIdx a b (swapIdx a b i) = i := fl_swap_invol a b i
  have hj : swapIdx a b (swapIdx a b j) = j := fl_swap_invol a b j
  rw [← hi, ← hj, he]

theorem fl_swapCellG_inj {a b x y : Nat × Nat} (he : swapCellG a b x = swapCellG a b y) : x = y := by
  have hx : swapCellG a b (swapCellG a b x) = x := fl_swap_invol a b x
  have hy : swapCellG a b (swapCellG a b y) = y := fl_swap_invol a b y
  rw [← hx, ← hy, he]

/-- a cell bijection of the whole owned array conserves its cells -/
theorem fl_gather_perm (t : TD α) (h : t.Inv) (g : Nat × Nat → Nat × Nat)
    (hg : ∀ c r, c < t.numCols → r < t.numRows → (g (c, r)).1 < t.numCols ∧ (g (c, r)).2 < t.numRows)
    (hinj : ∀ c r c' r', c < t.numCols → r < t.numRows → c' < t.numCols → r' < t.numRows →
      g (c, r) = g (c', r') → (c, r) = (c', r')) :
    (gather t.data (t.asView.mapCells g)).Perm t.data :=
  have hv := (C02_owned_as_view t h).1
  ow_gather_perm t.data _ (fun _ hp => VW.mapCells_lt hv g hg hp)
    (fun p q _ _ he => ow_mapCells_inj hv g hg hinj p q he)

/-- the successful result of a permuting operation is a permutation of the buffer -/
def MOp.permuting : MOp α → Prop
  | .swap .. | .swapRows .. | .swapCols .. | .translate .. | .flipRows | .flipCols | .sortRow .. | .sortCol .. => True
  | _ => False

/-- a cell bijection of any window conserves the root buffer -/
theorem fl_gather_perm_v (v : VW) (buf : List α) (h : v.Inv buf.length) (g : Nat × Nat → Nat × Nat)
    (hg : ∀ c r, c < v.numCols → r < v.numRows → (g (c, r)).1 < v.numCols ∧ (g (c, r)).2 < v.numRows)
    (hinj : ∀ c r c' r', c < v.numCols → r < v.numRows → c' < v.numCols → r' < v.numRows →
      g (c, r) = g (c', r') → (c, r) = (c', r')) :
    (gather buf (v.mapCells g)).Perm buf :=
  ow_gather_perm buf _ (fun _ hp => VW.mapCells_lt h g hg hp)
    (fun p q _ _ he => ow_mapCells_inj h g hg hinj p q he)

/-- an array of the window's dimensions (to reuse the `hs_*_cells` lemmas, which only look at the dimensions) -/
private def dimsOf (v : VW) : TD α := ⟨[], v.numRows, v.numCols⟩

/-- the successful result of a permuting operation on any receiver is a permutation of the root buffer -/
theorem fl_spec_perm_v (lim : Nat) (v : VW) (buf : List α) (h : v.Inv buf.length) (op : MOp α) (hs : op.Sane) (hp : op.permuting)
    (d : List α) (hd : op.spec v lim buf = .ok d) : d.Perm buf := by
  cases op with
  | set c r x => exact absurd hp id
  | setInRow r c x => exact absurd hp id
  | fill x => exact absurd hp id
  | copyFromSlice src => exact absurd hp id
  | copyFromTooDee src => exact absurd hp id
  | copyWithin tl br dest => exact absurd hp id
  | swap c1 r1 c2 r2 =>
    simp only [MOp.spec] at hd
    by_cases hr : c1 < v.numCols ∧ c2 < v.numCols ∧ r1 < v.numRows ∧ r2 < v.numRows
    · rw [if_pos hr] at hd
      injection hd with hd
      rw [← hd]
      exact fl_gather_perm_v v buf h _ (hs_swapCellG_cells (dimsOf v : TD α) hr) (fun _ _ _ _ _ _ _ _ he => fl_swapCellG_inj he)
    · rw [if_neg hr] at hd
      cases hd
  | swapRows r1 r2 =>
    simp only [MOp.spec] at hd
    by_cases hr : r1 < v.numRows ∧ r2 < v.numRows
    · rw [if_pos hr] at hd
      injection hd with hd
      rw [← hd]
      refine fl_gather_perm_v v buf h _ (hs_swapRowsG_cells (dimsOf v : TD α) hr) (fun c r c' r' _ _ _ _ he => ?_)
      simp only [swapRowsG, Prod.mk.injEq] at he
      rw [he.1, fl_swapIdx_inj he.2]
    · rw [if_neg hr] at hd
      cases hd
  | swapCols c1 c2 =>
    simp only [MOp.spec] at hd
    by_cases hc : c1 < v.numCols ∧ c2 < v.numCols
    · rw [if_pos hc] at hd
      injection hd with hd
      rw [← hd]
      refine fl_gather_perm_v v buf h _ (hs_swapColsG_cells (dimsOf v : TD α) hc) (fun c r c' r' _ _ _ _ he => ?_)
      simp only [swapColsG, Prod.mk.injEq] at he
      rw [he.2, fl_swapIdx_inj he.1]
    · rw [if_neg hc] at hd
      cases hd
  | translate mc mr =>
    simp only [MOp.spec] at hd
    by_cases hm : mc ≤ v.numCols ∧ mr ≤ v.numRows
    · rw [if_pos hm] at hd
      injection hd with hd
      rw [← hd]
      have hb := C15_maps_bijective v.numCols v.numRows mc mr _ (List.mem_cons_self ..)
      exact fl_gather_perm_v v buf h _ hb.1 hb.2
    · rw [if_neg hm] at hd
      cases hd
  | flipRows =>
    simp only [MOp.spec] at hd
    injection hd with hd
    rw [← hd]
    have hb := C15_maps_bijective v.numCols v.numRows 0 0 (flipRowsG v.numRows) (by simp)
    exact fl_gather_perm_v v buf h _ hb.1 hb.2
  | flipCols =>
    simp only [MOp.spec] at hd
    injection hd with hd
    rw [← hd]
    have hb := C15_maps_bijective v.numCols v.numRows 0 0 (flipColsG v.numCols) (by simp)
    exact fl_gather_perm_v v buf h _ hb.1 hb.2
  | sortRow side row =>
    simp only [MOp.spec] at hd
    by_cases hr : row < v.numRows ∧ v.numCols ≤ lim
    · rw [if_pos hr] at hd
      rcases hs (readWin buf (v.rowWin row)) with hside | ⟨p, hside, hp⟩
      · rw [hside] at hd
        cases hd
      · rw [hside] at hd
        simp only [ok_bind, pure_eq] at hd
        injection hd with hd
        rw [← hd]
        have hin := VW.rowWin_inside h hr.1
        have hl : (readWin buf (v.rowWin row)).length = v.numCols := by
          simp only [readWin, List.length_take, List.length_drop]
          have : (v.rowWin row).len = v.numCols := rfl
          omega
        rw [hl] at hp
        have hb := C16_cols_bijective v.numCols v.numRows _ hp
        refine fl_gather_perm_v v buf h _ (hs_sortColsG_cells (dimsOf v : TD α) p hp) (fun c r c' r' hc hr' hc' hr'' he => ?_)
        have h2 : r = r' := by
          have := congrArg Prod.snd he
          rw [(hb.1 c r hc hr').2, (hb.1 c' r' hc' hr'').2] at this
          exact this
        subst h2
        rw [hb.2 c c' r hc hc' (congrArg Prod.fst he)]
    · rw [if_neg hr] at hd
      cases hd
  | sortCol side col =>
    simp only [MOp.spec] at hd
    by_cases hc : col < v.numCols ∧ v.numRows ≤ lim
    · rw [if_pos hc] at hd
      rcases hs ((List.range v.numRows).filterMap fun r => buf[v.pos col r]?) with hside | ⟨p, hside, hp⟩
      · rw [hside] at hd
        cases hd
      · rw [hside] at hd
        simp only [ok_bind, pure_eq] at hd
        injection hd with hd
        rw [← hd]
        rw [col_keys_length v buf h hc.1] at hp
        have hb := C17_rows_bijective v.numCols v.numRows _ hp
        refine fl_gather_perm_v v buf h _ (hs_sortRowsG_cells (dimsOf v : TD α) p hp) (fun c r c' r' hc' hr hc'' hr' he => ?_)
        have h1 : c = c' := by
          have := congrArg Prod.fst he
          rw [(hb.1 c r hc' hr).2, (hb.1 c' r' hc'' hr').2] at this
          exact this
        subst h1
        rw [hb.2 c r r' hr hr' (congrArg Prod.snd he)]
    · rw [if_neg hc] at hd
      cases hd

theorem fl_spec_perm (lim : Nat) (t : TD α) (h : t.Inv) (op : MOp α) (hs : op.Sane) (hp : op.permuting)
    (d : List α) (hd : op.spec t.asView lim t.data = .ok d) : d.Perm t.data :=
  fl_spec_perm_v lim t.asView t.data (C02_owned_as_view t h).1 op hs hp d hd

/-! ### the flow of an in-place operation -/

theorem fl_overwrite_flow (t : TD α) (f : Nat × Nat → Option α) (extra : List α) :
    (t.asView.updCells t.data f ++ [] ++ (t.overwritten f ++ extra) ++ []).Perm (t.data ++ (t.written f ++ extra)) := by
  simp only [List.append_nil]
  rw [← List.append_assoc, ← List.append_assoc]
  exact (fl_overwrite_conserves t f).append_right extra

/-- a successful in-place operation conserves elements, with the flow `mflow` -/
theorem fl_mflow (lim : Nat) (t : TD α) (h : t.Inv) (op : MOp α) (hs : op.Sane) (d : List α)
    (hd : op.spec t.asView lim t.data = .ok d) :
    (d ++ (mflow t op).handed ++ (mflow t op).dropped ++ (mflow t op).leaked).Perm (t.data ++ (mflow t op).supplied) := by
  have perm : ∀ op' : MOp α, op' = op → op'.permuting → mflow t op' = {} →
      (d ++ (mflow t op').handed ++ (mflow t op').dropped ++ (mflow t op').leaked).Perm (t.data ++ (mflow t op').supplied) := by
    intro op' he hp hm
    subst he
    rw [hm]
    show (d ++ [] ++ [] ++ []).Perm (t.data ++ [])
    simp only [List.append_nil]
    exact fl_spec_perm lim t h _ hs hp d hd
  cases op with
  | swap c1 r1 c2 r2 => exact perm _ rfl trivial rfl
  | swapRows r1 r2 => exact perm _ rfl trivial rfl
  | swapCols c1 c2 => exact perm _ rfl trivial rfl
  | translate mc mr => exact perm _ rfl trivial rfl
  | flipRows => exact perm _ rfl trivial rfl
  | flipCols => exact perm _ rfl trivial rfl
  | sortRow side row => exact perm _ rfl trivial rfl
  | sortCol side col => exact perm _ rfl trivial rfl
  | set c r x =>
    simp only [MOp.spec] at hd
    by_cases hc : c < t.numCols ∧ r < t.numRows
    · rw [if_pos (show c < t.asView.numCols ∧ r < t.asView.numRows from hc)] at hd
      injection hd with hd
      subst hd
      simp only [mflow, MOp.cellsWritten, if_pos hc]
      exact fl_overwrite_flow t _ []
    · rw [if_neg (show ¬ (c < t.asView.numCols ∧ r < t.asView.numRows) from hc)] at hd
      cases hd
  | setInRow r c x =>
    simp only [MOp.spec] at hd
    by_cases hc : c < t.numCols ∧ r < t.numRows
    · rw [if_pos (show c < t.asView.numCols ∧ r < t.asView.numRows from hc)] at hd
      injection hd with hd
      subst hd
      simp only [mflow, MOp.cellsWritten, if_pos hc]
      exact fl_overwrite_flow t _ []
    · rw [if_neg (show ¬ (c < t.asView.numCols ∧ r < t.asView.numRows) from hc)] at hd
      cases hd
  | fill x =>
    simp only [MOp.spec] at hd
    injection hd with hd
    subst hd
    simp only [mflow, MOp.cellsWritten]
    exact fl_overwrite_flow t _ _
  | copyFromSlice src =>
    simp only [MOp.spec] at hd
    by_cases hc : t.data.length = src.length
    · rw [if_pos (show t.asView.numCols * t.asView.numRows = src.length by rw [← hc, h.len]; rfl)] at hd
      injection hd with hd
      subst hd
      simp only [mflow, MOp.cellsWritten, if_pos hc]
      exact fl_overwrite_flow t _ []
    · rw [if_neg (show ¬ (t.asView.numCols * t.asView.numRows = src.length) from fun hcc => hc (by rw [h.len]; exact hcc))] at hd
      cases hd
  | copyFromTooDee src =>
    simp only [MOp.spec] at hd
    cases hsg : src.grid? with
    | none => rw [hsg] at hd; cases hd
    | some sg =>
      rw [hsg] at hd
      simp only at hd
      by_cases hc : sg.length = t.numRows ∧ gcols sg = t.numCols
      · rw [if_pos (show sg.length = t.asView.numRows ∧ gcols sg = t.asView.numCols from hc)] at hd
        injection hd with hd
        subst hd
        simp only [mflow, MOp.cellsWritten, hsg, if_pos hc]
        exact fl_overwrite_flow t _ []
      · rw [if_neg (show ¬ (sg.length = t.asView.numRows ∧ gcols sg = t.asView.numCols) from hc)] at hd
        cases hd
  | copyWithin tl br dest =>
    simp only [MOp.spec] at hd
    by_cases hc : rectsFit t.numCols t.numRows tl br dest
    · rw [if_pos (show rectsFit t.asView.numCols t.asView.numRows tl br dest from hc)] at hd
      injection hd with hd
      subst hd
      simp only [mflow, MOp.cellsWritten, if_pos hc]
      exact fl_overwrite_flow t _ []
    · rw [if_neg (show ¬ rectsFit t.asView.numCols t.asView.numRows tl br dest from hc)] at hd
      cases hd

/-- the flow of a failed in-place operation -/
theorem fl_inplace_err (t : TD α) (op : MOp α) :
    let F : Flow α := (match op with | .set _ _ x | .setInRow _ _ x => { supplied := [x], dropped := [x] } | _ => {})
    (t.data ++ F.handed ++ F.dropped ++ F.leaked).Perm (t.data ++ F.supplied) ∧ F.leaked = [] := by
  cases op <;> exact ⟨by simp, rfl⟩

theorem fl_mflow_leaked (t : TD α) (op : MOp α) : (mflow t op).leaked = [] := by
  unfold mflow
  cases op.cellsWritten t with
  | some f => rfl
  | none => cases op <;> rfl

/-- **an in-place call conserves elements and leaks nothing** -/
theorem fl_step_inplace (e : HEnv) (t : TD α) (h : t.Inv) (op : MOp α) (hw : op.Sane ∧ op.srcOk) :
    ((hstep e t (.inplace op)).data ++ (hflow e t (.inplace op)).handed ++ (hflow e t (.inplace op)).dropped
      ++ (hflow e t (.inplace op)).leaked).Perm (t.data ++ (hflow e t (.inplace op)).supplied) ∧
    (hflow e t (.inplace op)).leaked = [] := by
  have hrs := hs_run_spec e.m e.lim t h op hw
  simp only [hstep, hflow, hrs]
  cases hsp : op.spec t.asView e.lim t.data with
  | ok d => exact ⟨fl_mflow e.lim t h op hw.1 d hsp, fl_mflow_leaked t op⟩
  | error er => exact fl_inplace_err t op

/-! ### the flow of a block of calls on a view -/

theorem fl_overwrite_flow_v (v : VW) (buf : List α) (f : Nat × Nat → Option α) (extra : List α) :
    (v.updCells buf f ++ [] ++ (v.overwritten buf f ++ extra) ++ []).Perm (buf ++ (v.written buf.length f ++ extra)) := by
  simp only [List.append_nil]
  rw [← List.append_assoc, ← List.append_assoc]
  exact (fl_overwrite_conserves_v v buf f).append_right extra

/-- a successful in-place call on a view conserves the elements of the root buffer, with the flow `vflow` -/
theorem fl_vflow (lim : Nat) (v : VW) (buf : List α) (h : v.Inv buf.length) (op : MOp α) (hs : op.Sane) (d : List α)
    (hd : op.spec v lim buf = .ok d) :
    (d ++ (vflow v buf op).handed ++ (vflow v buf op).dropped ++ (vflow v buf op).leaked).Perm
      (buf ++ (vflow v buf op).supplied) := by
  have perm : ∀ op' : MOp α, op' = op → op'.permuting → vflow v buf op' = {} →
      (d ++ (vflow v buf op').handed ++ (vflow v buf op').dropped ++ (vflow v buf op').leaked).Perm
        (buf ++ (vflow v buf op').supplied) := by
    intro op' he hp hm
    subst he
    rw [hm]
    show (d ++ [] ++ [] ++ []).Perm (buf ++ [])
    simp only [List.append_nil]
    exact fl_spec_perm_v lim v buf h _ hs hp d hd
  cases op with
  | swap c1 r1 c2 r2 => exact perm _ rfl trivial rfl
  | swapRows r1 r2 => exact perm _ rfl trivial rfl
  | swapCols c1 c2 => exact perm _ rfl trivial rfl
  | translate mc mr => exact perm _ rfl trivial rfl
  | flipRows => exact perm _ rfl trivial rfl
  | flipCols => exact perm _ rfl trivial rfl
  | sortRow side row => exact perm _ rfl trivial rfl
  | sortCol side col => exact perm _ rfl trivial rfl
  | set c r x =>
    simp only [MOp.spec] at hd
    by_cases hc : c < v.numCols ∧ r < v.numRows
    · rw [if_pos hc] at hd
      injection hd with hd
      subst hd
      simp only [vflow, MOp.cellsWrittenV, if_pos hc]
      exact fl_overwrite_flow_v v buf _ []
    · rw [if_neg hc] at hd
      cases hd
  | setInRow r c x =>
    simp only [MOp.spec] at hd
    by_cases hc : c < v.numCols ∧ r < v.numRows
    · rw [if_pos hc] at hd
      injection hd with hd
      subst hd
      simp only [vflow, MOp.cellsWrittenV, if_pos hc]
      exact fl_overwrite_flow_v v buf _ []
    · rw [if_neg hc] at hd
      cases hd
  | fill x =>
    simp only [MOp.spec] at hd
    injection hd with hd
    subst hd
    simp only [vflow, MOp.cellsWrittenV]
    exact fl_overwrite_flow_v v buf _ _
  | copyFromSlice src =>
    simp only [MOp.spec] at hd
    by_cases hc : v.numCols * v.numRows = src.length
    · rw [if_pos hc] at hd
      injection hd with hd
      subst hd
      simp only [vflow, MOp.cellsWrittenV, if_pos hc]
      exact fl_overwrite_flow_v v buf _ []
    · rw [if_neg hc] at hd
      cases hd
  | copyFromTooDee src =>
    simp only [MOp.spec] at hd
    cases hsg : src.grid? with
    | none => rw [hsg] at hd; cases hd
    | some sg =>
      rw [hsg] at hd
      simp only at hd
      by_cases hc : sg.length = v.numRows ∧ gcols sg = v.numCols
      · rw [if_pos hc] at hd
        injection hd with hd
        subst hd
        simp only [vflow, MOp.cellsWrittenV, hsg, if_pos hc]
        exact fl_overwrite_flow_v v buf _ []
      · rw [if_neg hc] at hd
        cases hd
  | copyWithin tl br dest =>
    simp only [MOp.spec] at hd
    by_cases hc : rectsFit v.numCols v.numRows tl br dest
    · rw [if_pos hc] at hd
      injection hd with hd
      subst hd
      simp only [vflow, MOp.cellsWrittenV, if_pos hc]
      exact fl_overwrite_flow_v v buf _ []
    · rw [if_neg hc] at hd
      cases hd

theorem fl_vflow_leaked (v : VW) (buf : List α) (op : MOp α) : (vflow v buf op).leaked = [] := by
  unfold vflow
  cases op.cellsWrittenV v buf with
  | some f => rfl
  | none => cases op <;> rfl

/-- the flow of a call that panicked: a `set` gives back the value it was handed -/
def errFlow (op : MOp α) : Flow α :=
  match op with | .set _ _ x | .setInRow _ _ x => { supplied := [x], dropped := [x] } | _ => {}

theorem fl_view_err (buf : List α) (op : MOp α) :
    (buf ++ (errFlow op).handed ++ (errFlow op).dropped ++ (errFlow op).leaked).Perm (buf ++ (errFlow op).supplied) ∧
    (errFlow op).leaked = [] := by
  cases op <;> exact ⟨by simp [errFlow], rfl⟩

/-- chaining two conservation steps: handed, dropped, leaked and supplied elements accumulate -/
theorem fl_chain {A0 A1 A2 H1 H2 D1 D2 L1 L2 S1 S2 : List α}
    (h1 : (A1 ++ H1 ++ D1 ++ L1).Perm (A0 ++ S1)) (h2 : (A2 ++ H2 ++ D2 ++ L2).Perm (A1 ++ S2)) :
    (A2 ++ (H1 ++ H2) ++ (D1 ++ D2) ++ (L1 ++ L2)).Perm (A0 ++ (S1 ++ S2)) := by
  have e0 : (A2 ++ (H1 ++ H2) ++ (D1 ++ D2) ++ (L1 ++ L2)).Perm (A2 ++ ((H1 ++ D1 ++ L1) ++ (H2 ++ D2 ++ L2))) := by
    rw [List.append_assoc, List.append_assoc]
    apply List.Perm.append_left
    rw [← List.append_assoc]
    exact ((fl_shuffle H1 H2 D1 D2).append_right _).trans (fl_shuffle (H1 ++ D1) (H2 ++ D2) L1 L2)
  have e1 : (A2 ++ ((H1 ++ D1 ++ L1) ++ (H2 ++ D2 ++ L2))).Perm (A2 ++ (H2 ++ D2 ++ L2) ++ (H1 ++ D1 ++ L1)) := by
    have := ow_perm_swap_tail A2 (H1 ++ D1 ++ L1) (H2 ++ D2 ++ L2)
    rw [List.append_assoc A2 (H1 ++ D1 ++ L1) (H2 ++ D2 ++ L2)] at this
    exact this
  have h2' : (A2 ++ (H2 ++ D2 ++ L2)).Perm (A1 ++ S2) := by
    rw [← List.append_assoc, ← List.append_assoc]; exact h2
  have h1' : (A1 ++ (H1 ++ D1 ++ L1)).Perm (A0 ++ S1) := by
    rw [← List.append_assoc, ← List.append_assoc]; exact h1
  have e2 : (A2 ++ (H2 ++ D2 ++ L2) ++ (H1 ++ D1 ++ L1)).Perm (A1 ++ S2 ++ (H1 ++ D1 ++ L1)) := h2'.append_right _
  have e3 : (A1 ++ S2 ++ (H1 ++ D1 ++ L1)).Perm (A1 ++ (H1 ++ D1 ++ L1) ++ S2) := ow_perm_swap_tail _ _ _
  have e4 : (A1 ++ (H1 ++ D1 ++ L1) ++ S2).Perm (A0 ++ S1 ++ S2) := h1'.append_right _
  have e5 : A0 ++ (S1 ++ S2) = A0 ++ S1 ++ S2 := (List.append_assoc ..).symm
  rw [e5]
  exact (((e0.trans e1).trans e2).trans e3).trans e4

theorem fl_vflowRun_ok {m : Mode} {lim : Nat} {v : VW} {buf b : List α} {op : MOp α} (ops : List (MOp α))
    (hr : (Recv.vmut v).run m lim buf op = .ok b) :
    vflowRun m lim v buf (op :: ops) = (vflow v buf op).append (vflowRun m lim v b ops) := by
  cases op <;> simp only [vflowRun, hr]

theorem fl_vflowRun_err {m : Mode} {lim : Nat} {v : VW} {buf : List α} {op : MOp α} {er : Err} (ops : List (MOp α))
    (hr : (Recv.vmut v).run m lim buf op = .error er) :
    vflowRun m lim v buf (op :: ops) = errFlow op := by
  cases op <;> simp only [vflowRun, hr, errFlow]

/-- **a block of calls on a view conserves the elements of the root buffer and leaks nothing** (a call that panics ends the
    block and only gives back what it was handed) -/
theorem fl_vflowRun (m : Mode) (lim : Nat) (v : VW) (ops : List (MOp α)) (hs : ∀ op ∈ ops, op.Sane ∧ op.srcOk)
    (buf : List α) (h : v.Inv buf.length) :
    (((Recv.vmut v).runKeep m lim buf ops).1 ++ (vflowRun m lim v buf ops).handed ++ (vflowRun m lim v buf ops).dropped
      ++ (vflowRun m lim v buf ops).leaked).Perm (buf ++ (vflowRun m lim v buf ops).supplied) ∧
    (vflowRun m lim v buf ops).leaked = [] := by
  induction ops generalizing buf with
  | nil =>
    refine ⟨?_, rfl⟩
    show (buf ++ [] ++ [] ++ []).Perm (buf ++ [])
    simp
  | cons op ops ih =>
    obtain ⟨hsop, hsrc⟩ := hs op (List.mem_cons_self ..)
    have hrs := C04_run_view m lim v buf h op hsop hsrc
    cases hr : (Recv.vmut v).run m lim buf op with
    | error er =>
      rw [hv_runKeep_err ops hr, fl_vflowRun_err ops hr]
      exact fl_view_err buf op
    | ok b =>
      rw [hv_runKeep_ok ops hr, fl_vflowRun_ok ops hr]
      rw [hrs] at hr
      have hb : v.Inv b.length := by
        rw [((C04_spec_frame lim v buf h op hsop).2.2 b hr).1]
        exact h
      obtain ⟨i1, i2⟩ := ih (fun op' hop' => hs op' (List.mem_cons_of_mem _ hop')) b hb
      refine ⟨fl_chain (fl_vflow lim v buf h op hsop b hr) i1, ?_⟩
      show (vflow v buf op).leaked ++ (vflowRun m lim v b ops).leaked = []
      rw [fl_vflow_leaked, i2]
      rfl

/-- **a block of calls on a view of the array conserves elements and leaks nothing** -/
theorem fl_step_viaView (e : HEnv) (t : TD α) (h : t.Inv) (s e' : Nat × Nat) (ops : List (MOp α))
    (hop : (HOp.viaView s e' ops).wf) :
    ((hstep e t (.viaView s e' ops)).data ++ (hflow e t (.viaView s e' ops)).handed ++ (hflow e t (.viaView s e' ops)).dropped
      ++ (hflow e t (.viaView s e' ops)).leaked).Perm (t.data ++ (hflow e t (.viaView s e' ops)).supplied) ∧
    (hflow e t (.viaView s e' ops)).leaked = [] := by
  by_cases hok : (s.1 ≤ e'.1 ∧ s.2 ≤ e'.2) ∧ (e'.1 ≤ t.numCols ∧ e'.2 ≤ t.numRows)
  · obtain ⟨v, hv, hinv, _, _, hst, _⟩ := hv_step_valid e t h s e' ops hok
    rw [hst]
    simp only [hflow, hv]
    exact fl_vflowRun e.m e.lim v ops hop.2 t.data hinv
  · obtain ⟨hv, hst, _⟩ := hv_step_invalid e t h s e' ops hop.1 hok
    rw [hst]
    simp only [hflow, hv]
    exact ⟨by simp, trivial⟩

end Toodee
