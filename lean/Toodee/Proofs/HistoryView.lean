import Toodee.Spec.History
import Toodee.Proofs.HistoryInplace
import Toodee.Properties.C03
import Toodee.Properties.C04
/-
  Lemmas for C01 (histories), part 1b: a block of calls on a mutable view of the owned array (`HOp.viaView`).  The block as the
  caller runs it (`Recv.runKeep`): every call keeps the length of the root buffer and everything outside the window, no call ends
  in `ub`; the window's rows-of-cells follow the plain model's block `gblock` call by call, up to and excluding the first call that
  is not accepted (C04_view_op: the same call on the owned copy of the window, accepted or rejected alike; `hs_gok_*_spec`: the
  plain model's acceptance against the specification; `hs_ref_inplace_spec`: an owned array against `gstepM`), and the array's
  rows-of-cells are the old ones with the window patched.
-/
namespace Toodee
variable {α : Type}

/-! ### the block, call by call -/

theorem hv_runKeep_ok {m : Mode} {lim : Nat} {rc : Recv α} {buf b : List α} {op : MOp α} (ops : List (MOp α))
    (hr : rc.run m lim buf op = .ok b) : rc.runKeep m lim buf (op :: ops) = rc.runKeep m lim b ops := by
  rw [Recv.runKeep, hr]

theorem hv_runKeep_err {m : Mode} {lim : Nat} {rc : Recv α} {buf : List α} {op : MOp α} {er : Err} (ops : List (MOp α))
    (hr : rc.run m lim buf op = .error er) : rc.runKeep m lim buf (op :: ops) = (buf, .error er) := by
  rw [Recv.runKeep, hr]
  rfl

/-- the block against `runAll`: it runs to its end exactly when `runAll` succeeds, with the same buffer -/
theorem hv_runKeep_runAll (m : Mode) (lim : Nat) (rc : Recv α) (ops : List (MOp α)) (buf b : List α) :
    rc.runKeep m lim buf ops = (b, .ok ()) ↔ rc.runAll m lim buf ops = .ok b := by
  induction ops generalizing buf with
  | nil =>
    show (buf, (Except.ok () : Res Unit)) = (b, .ok ()) ↔ (Except.ok buf : Res (List α)) = .ok b
    constructor
    · intro h
      rw [(Prod.mk.inj h).1]
    · intro h
      rw [Except.ok.inj h]
  | cons op ops ih =>
    have hstep : rc.runAll m lim buf (op :: ops) = (rc.run m lim buf op >>= fun b' => rc.runAll m lim b' ops) := rfl
    cases hr : rc.run m lim buf op with
    | ok b' => rw [hv_runKeep_ok ops hr, hstep, hr, ok_bind]; exact ih b'
    | error er =>
      rw [hv_runKeep_err ops hr, hstep, hr, err_bind]
      constructor
      · intro h
        have := (Prod.mk.inj h).2
        cases this
      · intro h
        cases h

/-- every call of the block keeps the buffer's length and everything outside the window; the block never ends in `ub` -/
theorem hv_runKeep_frame (m : Mode) (lim : Nat) (v : VW) (ops : List (MOp α)) (hs : ∀ op ∈ ops, op.Sane ∧ op.srcOk)
    (buf : List α) (h : v.Inv buf.length) :
    ((Recv.vmut v).runKeep m lim buf ops).1.length = buf.length ∧
    (∀ p, v.coord? p = none → ((Recv.vmut v).runKeep m lim buf ops).1[p]? = buf[p]?) ∧
    ((Recv.vmut v).runKeep m lim buf ops).2 ≠ .error .ub ∧ ((Recv.vmut v).runKeep m lim buf ops).2 ≠ .error .fuel := by
  induction ops generalizing buf with
  | nil => exact ⟨rfl, fun _ _ => rfl, nofun, nofun⟩
  | cons op ops ih =>
    obtain ⟨hsop, hsrc⟩ := hs op (List.mem_cons_self ..)
    obtain ⟨o1, o2, o3, _⟩ := C04_view_op m lim v buf h op hsop hsrc
    cases hr : (Recv.vmut v).run m lim buf op with
    | error er =>
      rw [hv_runKeep_err ops hr]
      rw [hr] at o1 o2
      refine ⟨rfl, fun _ _ => rfl, fun hc => o1 ?_, fun hc => o2 ?_⟩
      · have : er = .ub := by injection hc
        rw [this]
      · have : er = .fuel := by injection hc
        rw [this]
    | ok b =>
      obtain ⟨l1, l2, _⟩ := o3 b hr
      have hb : v.Inv b.length := by rw [l1]; exact h
      obtain ⟨i1, i2, i3, i4⟩ := ih (fun op' hop' => hs op' (List.mem_cons_of_mem _ hop')) b hb
      rw [hv_runKeep_ok ops hr]
      exact ⟨by rw [i1, l1], fun p hp => by rw [i2 p hp, l2 p hp], i3, i4⟩

/-! ### the window's rows of cells along the block -/

theorem hv_sortRow_lim (v : VW) (lim : Nat) (buf b : List α) (side : SideSort α) (row : Nat)
    (hd : (MOp.sortRow side row).spec v lim buf = .ok b) : v.numCols ≤ lim := by
  simp only [MOp.spec] at hd
  by_cases hc : row < v.numRows ∧ v.numCols ≤ lim
  · exact hc.2
  · rw [if_neg hc] at hd
    cases hd

theorem hv_sortCol_lim (v : VW) (lim : Nat) (buf b : List α) (side : SideSort α) (col : Nat)
    (hd : (MOp.sortCol side col).spec v lim buf = .ok b) : v.numRows ≤ lim := by
  simp only [MOp.spec] at hd
  by_cases hc : col < v.numCols ∧ v.numRows ≤ lim
  · exact hc.2
  · rw [if_neg hc] at hd
    cases hd

/-- a block followed by more calls: when the block runs to its end, the rest continues from the buffer it left -/
theorem hv_runKeep_append (m : Mode) (lim : Nat) (rc : Recv α) (pre l : List (MOp α)) (buf b : List α)
    (hpre : rc.runKeep m lim buf pre = (b, .ok ())) : rc.runKeep m lim buf (pre ++ l) = rc.runKeep m lim b l := by
  induction pre generalizing buf with
  | nil =>
    have e1 : buf = b := (Prod.mk.inj hpre).1
    rw [e1]
    rfl
  | cons op pre ih =>
    cases hr : rc.run m lim buf op with
    | ok b' =>
      rw [hv_runKeep_ok pre hr] at hpre
      rw [List.cons_append, hv_runKeep_ok _ hr]
      exact ih b' hpre
    | error er =>
      rw [hv_runKeep_err pre hr] at hpre
      have := (Prod.mk.inj hpre).2
      cases this

/-- **the window's rows-of-cells follow the plain model's block**: every accepted call succeeds on the view and acts as `gstepM`
    says; the first call that is not accepted panics on the view too and ends the block there -/
theorem hv_block_grid (m : Mode) (lim : Nat) (v : VW) (ops : List (MOp α)) (hs : ∀ op ∈ ops, op.Sane ∧ op.srcOk)
    (hrow : ∀ side row, MOp.sortRow side row ∈ ops → v.numCols ≤ lim)
    (hcol : ∀ side col, MOp.sortCol side col ∈ ops → v.numRows ≤ lim)
    (buf : List α) (h : v.Inv buf.length)
    (sub' : List (List α)) (hg : gblock (v.ownedOf buf).grid ops = some sub') :
    (v.ownedOf ((Recv.vmut v).runKeep m lim buf ops).1).grid = sub' := by
  induction ops generalizing buf with
  | nil => exact Option.some.inj hg
  | cons op ops ih =>
    obtain ⟨hsop, hsrc⟩ := hs op (List.mem_cons_self ..)
    obtain ⟨_, _, o3, o4⟩ := C04_view_op m lim v buf h op hsop hsrc
    have hinv0 := C04_owned_of_inv v buf h
    have hown : (Recv.root (v.ownedOf buf)).run m lim (v.cellsOf buf) op
        = op.spec (v.ownedOf buf).asView lim (v.ownedOf buf).data := hs_run_spec m lim (v.ownedOf buf) hinv0 op ⟨hsop, hsrc⟩
    have hg' : (if op.gok (v.ownedOf buf).grid = true then (gstepM (v.ownedOf buf).grid op).bind fun g' => gblock g' ops
        else some (v.ownedOf buf).grid) = some sub' := hg
    have hrow0 : ∀ side row, op = .sortRow side row → (v.ownedOf buf).numCols ≤ lim := fun side row he =>
      hrow side row (by rw [← he]; exact List.mem_cons_self ..)
    have hcol0 : ∀ side col, op = .sortCol side col → (v.ownedOf buf).numRows ≤ lim := fun side col he =>
      hcol side col (by rw [← he]; exact List.mem_cons_self ..)
    cases hk : op.gok (v.ownedOf buf).grid with
    | false =>
      rw [hk, if_neg (by decide)] at hg'
      have hsp := hs_gok_false_spec lim _ hinv0 op hsop hk
      cases hr : (Recv.vmut v).run m lim buf op with
      | ok b =>
        have l3 := (o3 b hr).2.2
        rw [hown, hsp] at l3
        cases l3
      | error er =>
        rw [hv_runKeep_err ops hr]
        exact Option.some.inj hg'
    | true =>
      rw [hk, if_pos rfl] at hg'
      obtain ⟨d, hsp⟩ := hs_gok_true_spec lim _ hinv0 op hrow0 hcol0 hk
      cases hr : (Recv.vmut v).run m lim buf op with
      | error er =>
        have l4 := o4 er hr
        rw [hown, hsp] at l4
        cases l4
      | ok b =>
        obtain ⟨l1, _, l3⟩ := o3 b hr
        have hb : v.Inv b.length := by rw [l1]; exact h
        rw [hown] at l3
        rw [hv_runKeep_ok ops hr]
        cases hg1 : gstepM (v.ownedOf buf).grid op with
        | none =>
          rw [hg1] at hg'
          cases hg'
        | some g1 =>
          rw [hg1] at hg'
          have href := hs_ref_inplace_spec lim (v.ownedOf buf) hinv0 op hsrc hrow0 hcol0 g1 hg1
          rw [l3] at href
          have href' : (v.ownedOf b).grid = g1 := href
          refine ih (fun op' hop' => hs op' (List.mem_cons_of_mem _ hop'))
            (fun side row hm => hrow side row (List.mem_cons_of_mem _ hm))
            (fun side col hm => hcol side col (List.mem_cons_of_mem _ hm)) b hb ?_
          rw [href']
          exact hg'

/-! ### the window inside the array -/

/-- a cell of the array outside the window is not a cell of the view -/
theorem hv_coord_none (t : TD α) (h : t.Inv) (v : VW) (s e : Nat × Nat) (hle : e.1 ≤ t.numCols ∧ e.2 ≤ t.numRows)
    (hsz : (v.numCols, v.numRows) = viewSize s e)
    (hpos : ∀ c r, c < v.numCols → r < v.numRows → v.pos c r = t.pos (s.1 + c) (s.2 + r))
    (c r : Nat) (hc : c < t.numCols) (hr : r < t.numRows)
    (hout : ¬ (s.1 ≤ c ∧ c < s.1 + v.numCols ∧ s.2 ≤ r ∧ r < s.2 + v.numRows)) :
    v.coord? (r * t.numCols + c) = none := by
  cases hq : v.coord? (r * t.numCols + c) with
  | none => rfl
  | some cr =>
    obtain ⟨c', r'⟩ := cr
    obtain ⟨he, hc', hr'⟩ := VW.coord?_eq_some hq
    obtain ⟨_, hcs, hrs⟩ := viewSize_facts s e
    have hC : (viewSize s e).1 = v.numCols := by rw [← hsz]
    have hR : (viewSize s e).2 = v.numRows := by rw [← hsz]
    have h1 : s.1 + c' < t.numCols := by have := hcs c' (hC ▸ hc'); omega
    have h2 : s.2 + r' < t.numRows := by have := hrs r' (hR ▸ hr'); omega
    obtain ⟨hva, hpa⟩ := TD.asView_inv t h
    rw [hpos c' r' hc' hr', ← hpa] at he
    have he' : t.asView.pos c r = t.asView.pos (s.1 + c') (s.2 + r') := by
      rw [← he, hpa]
      rfl
    have := VW.pos_inj hva (show c < t.asView.numCols from hc) (show r < t.asView.numRows from hr)
      (show s.1 + c' < t.asView.numCols from h1) (show s.2 + r' < t.asView.numRows from h2) he'
    exact absurd ⟨by omega, by omega, by omega, by omega⟩ hout

/-- the rows-of-cells of the owned copy of the window are the window cut out of the array's rows-of-cells -/
theorem hv_sub_grid (t : TD α) (h : t.Inv) (v : VW) (s e : Nat × Nat) (hle : e.1 ≤ t.numCols ∧ e.2 ≤ t.numRows)
    (hinv : v.Inv t.data.length) (hsz : (v.numCols, v.numRows) = viewSize s e)
    (hpos : ∀ c r, c < v.numCols → r < v.numRows → v.pos c r = t.pos (s.1 + c) (s.2 + r)) :
    gridOf v.numCols v.numRows (fun c r => gcell t.grid (s.1 + c) (s.2 + r)) = (v.ownedOf t.data).grid := by
  rw [hs_grid_cells _ (C04_owned_of_inv v t.data hinv)]
  show _ = gridOf v.numCols v.numRows (fun c r => (v.cellsOf t.data)[r * v.numCols + c]?)
  apply hs_gridOf_congr
  intro c r hc hr
  obtain ⟨_, hcs, _⟩ := viewSize_facts s e
  have hC : (viewSize s e).1 = v.numCols := by rw [← hsz]
  have h1 : s.1 + c < t.numCols := by have := hcs c (hC ▸ hc); omega
  rw [(v.cellsOf_facts t.data hinv).2 c r hc hr, hpos c r hc hr, hs_gcell t h _ _ h1]
  rfl

/-! ### the step -/

/-- the step as `hstep` / `hres` compute it when the window is valid -/
theorem hv_step_valid (e : HEnv) (t : TD α) (h : t.Inv) (s e' : Nat × Nat) (ops : List (MOp α))
    (hok : (s.1 ≤ e'.1 ∧ s.2 ≤ e'.2) ∧ (e'.1 ≤ t.numCols ∧ e'.2 ≤ t.numRows)) :
    ∃ v, VW.fromTooDee e.m s e' t = .ok v ∧ v.Inv t.data.length ∧ (v.numCols, v.numRows) = viewSize s e' ∧
      (∀ c r, c < v.numCols → r < v.numRows → v.pos c r = t.pos (s.1 + c) (s.2 + r)) ∧
      hstep e t (.viaView s e' ops) = { t with data := ((Recv.vmut v).runKeep e.m e.lim t.data ops).1 } ∧
      hres e t (.viaView s e' ops) = ((Recv.vmut v).runKeep e.m e.lim t.data ops).2 := by
  obtain ⟨v, hv, hinv, hsz, hpos⟩ := C03_from_toodee_valid e.m t h s e' hok.1 hok.2
  refine ⟨v, hv, hinv, hsz, hpos, ?_, ?_⟩
  · simp only [hstep, hv]
  · simp only [hres, hv, ok_bind]

theorem hv_step_invalid (e : HEnv) (t : TD α) (h : t.Inv) (s e' : Nat × Nat) (ops : List (MOp α))
    (hw : s.1 < WORD ∧ s.2 < WORD ∧ e'.1 < WORD ∧ e'.2 < WORD)
    (hbad : ¬ ((s.1 ≤ e'.1 ∧ s.2 ≤ e'.2) ∧ (e'.1 ≤ t.numCols ∧ e'.2 ≤ t.numRows))) :
    VW.fromTooDee e.m s e' t = .error .panic ∧
    hstep e t (.viaView s e' ops) = t ∧ hres e t (.viaView s e' ops) = .error .panic := by
  have hv := C03_from_toodee_invalid e.m t h s e' hw hbad
  refine ⟨hv, ?_, ?_⟩
  · simp only [hstep, hv]
  · simp only [hres, hv, err_bind]

theorem hs_inv_viaView (e : HEnv) (t : TD α) (h : t.Inv) (s e' : Nat × Nat) (ops : List (MOp α))
    (hop : (HOp.viaView s e' ops).wf) : (hstep e t (.viaView s e' ops)).Inv := by
  by_cases hok : (s.1 ≤ e'.1 ∧ s.2 ≤ e'.2) ∧ (e'.1 ≤ t.numCols ∧ e'.2 ≤ t.numRows)
  · obtain ⟨v, _, hinv, _, _, hs, _⟩ := hv_step_valid e t h s e' ops hok
    rw [hs]
    exact h.with_data _ (hv_runKeep_frame e.m e.lim v ops hop.2 t.data hinv).1
  · rw [(hv_step_invalid e t h s e' ops hop.1 hok).2.1]
    exact h

theorem hs_res_viaView (e : HEnv) (t : TD α) (h : t.Inv) (s e' : Nat × Nat) (ops : List (MOp α))
    (hop : (HOp.viaView s e' ops).wf) :
    hres e t (.viaView s e' ops) ≠ .error .ub ∧ hres e t (.viaView s e' ops) ≠ .error .fuel := by
  by_cases hok : (s.1 ≤ e'.1 ∧ s.2 ≤ e'.2) ∧ (e'.1 ≤ t.numCols ∧ e'.2 ≤ t.numRows)
  · obtain ⟨v, _, hinv, _, _, _, hr⟩ := hv_step_valid e t h s e' ops hok
    rw [hr]
    exact (hv_runKeep_frame e.m e.lim v ops hop.2 t.data hinv).2.2
  · rw [(hv_step_invalid e t h s e' ops hop.1 hok).2.2]
    exact ⟨nofun, nofun⟩

/-- the window of an array depends on the array only through its dimensions and the length of its buffer -/
theorem hv_fromTooDee_data (m : Mode) (s e' : Nat × Nat) (t : TD α) (d : List α) (hd : d.length = t.data.length) :
    VW.fromTooDee m s e' ({ t with data := d } : TD α) = VW.fromTooDee m s e' t := by
  simp only [VW.fromTooDee, TD.win, hd]

/-- **a block of calls on a view agrees with the plain model**, whether it runs to its end or is cut short by a rejected call or
    a panic of caller code: the window is cut out, the block runs on it as on an array of its own, the result is put back -/
theorem hs_ref_viaView (e : HEnv) (t : TD α) (h : t.Inv) (s e' : Nat × Nat) (ops : List (MOp α))
    (hop : (HOp.viaView s e' ops).wf) (hfit : (HOp.viaView s e' ops).fits e t)
    (g' : List (List α)) (hg : gstep t.grid (.viaView s e' ops) = some g') :
    (hstep e t (.viaView s e' ops)).grid = g' := by
  have hg2 : (if s.1 ≤ e'.1 ∧ s.2 ≤ e'.2 ∧ e'.1 ≤ gcols t.grid ∧ e'.2 ≤ t.grid.length then
      (gblock (gridOf (viewSize s e').1 (viewSize s e').2 fun c r => gcell t.grid (s.1 + c) (s.2 + r)) ops).map
        fun sub' => gridOf (gcols t.grid) t.grid.length fun c r =>
          if s.1 ≤ c ∧ c < s.1 + (viewSize s e').1 ∧ s.2 ≤ r ∧ r < s.2 + (viewSize s e').2 then gcell sub' (c - s.1) (r - s.2)
          else gcell t.grid c r
      else some t.grid) = some g' := hg
  rw [hs_headC t h, h.grid_length] at hg2
  by_cases hok : (s.1 ≤ e'.1 ∧ s.2 ≤ e'.2) ∧ (e'.1 ≤ t.numCols ∧ e'.2 ≤ t.numRows)
  · obtain ⟨v, _, hinv, hsz, hpos, hs, _⟩ := hv_step_valid e t h s e' ops hok
    rw [hs]
    have hC : (viewSize s e').1 = v.numCols := by rw [← hsz]
    have hR : (viewSize s e').2 = v.numRows := by rw [← hsz]
    have hrow : ∀ side row, MOp.sortRow side row ∈ ops → v.numCols ≤ e.lim := fun side row hm => by
      rw [← hC]; exact hfit _ hm
    have hcol : ∀ side col, MOp.sortCol side col ∈ ops → v.numRows ≤ e.lim := fun side col hm => by
      rw [← hR]; exact hfit _ hm
    rw [if_pos ⟨hok.1.1, hok.1.2, hok.2.1, hok.2.2⟩, hC, hR,
      hv_sub_grid t h v s e' hok.2 hinv hsz hpos] at hg2
    obtain ⟨f1, f2, _, _⟩ := hv_runKeep_frame e.m e.lim v ops hop.2 t.data hinv
    cases hf : gblock (v.ownedOf t.data).grid ops with
    | none =>
      rw [hf] at hg2
      cases hg2
    | some sub' =>
      rw [hf] at hg2
      have hg3 : (gridOf t.numCols t.numRows fun c r =>
          if s.1 ≤ c ∧ c < s.1 + v.numCols ∧ s.2 ≤ r ∧ r < s.2 + v.numRows then gcell sub' (c - s.1) (r - s.2)
          else gcell t.grid c r) = g' := Option.some.inj hg2
      have hb := hv_block_grid e.m e.lim v ops hop.2 hrow hcol t.data hinv sub' hf
      have hinv' : v.Inv ((Recv.vmut v).runKeep e.m e.lim t.data ops).1.length := by rw [f1]; exact hinv
      rw [← hg3, hs_grid_of_data t h _ f1]
      apply hs_gridOf_congr
      intro c r hc hr'
      by_cases hin : s.1 ≤ c ∧ c < s.1 + v.numCols ∧ s.2 ≤ r ∧ r < s.2 + v.numRows
      · have hcc : c - s.1 < v.numCols := by omega
        have hrr : r - s.2 < v.numRows := by omega
        rw [if_pos hin, ← hb, hs_gcell _ (C04_owned_of_inv v _ hinv') _ _ hcc]
        show _ = (v.cellsOf _)[(r - s.2) * v.numCols + (c - s.1)]?
        rw [(v.cellsOf_facts _ hinv').2 _ _ hcc hrr, hpos _ _ hcc hrr]
        have e1 : s.1 + (c - s.1) = c := by omega
        have e2 : s.2 + (r - s.2) = r := by omega
        rw [e1, e2]
        rfl
      · rw [if_neg hin, hs_gcell t h c r hc]
        exact f2 _ (hv_coord_none t h v s e' hok.2 hsz hpos c r hc hr' hin)
  · rw [if_neg (fun hc => hok ⟨⟨hc.1, hc.2.1⟩, hc.2.2⟩)] at hg2
    rw [(hv_step_invalid e t h s e' ops hop.1 hok).2.1]
    exact Option.some.inj hg2

/-- **a block of calls on a view that is cut short**: when the calls `pre` succeed and the next call `bad` fails, the array is as
    after the block `pre` alone and the block panics, whatever follows `bad` -/
theorem hs_block_prefix (e : HEnv) (t : TD α) (h : t.Inv) (s w : Nat × Nat) (pre rest : List (MOp α)) (bad : MOp α)
    (hop : (HOp.viaView s w (pre ++ bad :: rest)).wf)
    (hpre : hres e t (.viaView s w pre) = .ok ())
    (hbad : hres e (hstep e t (.viaView s w pre)) (.viaView s w [bad]) ≠ .ok ()) :
    hstep e t (.viaView s w (pre ++ bad :: rest)) = hstep e t (.viaView s w pre) ∧
    hres e t (.viaView s w (pre ++ bad :: rest)) = .error .panic := by
  by_cases hok : (s.1 ≤ w.1 ∧ s.2 ≤ w.2) ∧ (w.1 ≤ t.numCols ∧ w.2 ≤ t.numRows)
  · obtain ⟨v, hv, hinv, _, _, _, _⟩ := hv_step_valid e t h s w pre hok
    have hpre2 : ((Recv.vmut v).runKeep e.m e.lim t.data pre).2 = .ok () := by
      simp only [hres, hv, ok_bind] at hpre
      exact hpre
    have hspre : hstep e t (.viaView s w pre) = { t with data := ((Recv.vmut v).runKeep e.m e.lim t.data pre).1 } := by
      simp only [hstep, hv]
    have hsane : ∀ op ∈ pre, op.Sane ∧ op.srcOk := fun op hm => hop.2 op (List.mem_append_left _ hm)
    obtain ⟨f1, _, _, _⟩ := hv_runKeep_frame e.m e.lim v pre hsane t.data hinv
    have hrk : (Recv.vmut v).runKeep e.m e.lim t.data pre = (((Recv.vmut v).runKeep e.m e.lim t.data pre).1, .ok ()) :=
      Prod.ext rfl hpre2
    generalize ((Recv.vmut v).runKeep e.m e.lim t.data pre).1 = b at f1 hrk hspre
    have happ := hv_runKeep_append e.m e.lim (Recv.vmut v) pre (bad :: rest) t.data b hrk
    have hbad2 : ((Recv.vmut v).runKeep e.m e.lim b [bad]).2 ≠ .ok () := by
      rw [hspre] at hbad
      simp only [hres, hv_fromTooDee_data e.m s w t b f1, hv, ok_bind] at hbad
      exact hbad
    have hb : v.Inv b.length := by rw [f1]; exact hinv
    obtain ⟨hsb, hsrcb⟩ := hop.2 bad (List.mem_append_right _ (List.mem_cons_self ..))
    obtain ⟨o1, o2, _, _⟩ := C04_view_op e.m e.lim v b hb bad hsb hsrcb
    cases hr : (Recv.vmut v).run e.m e.lim b bad with
    | ok b' =>
      rw [hv_runKeep_ok [] hr] at hbad2
      exact absurd rfl hbad2
    | error er =>
      rw [hr] at o1 o2
      have her : er = .panic := by
        cases er with
        | panic => rfl
        | ub => exact absurd rfl o1
        | fuel => exact absurd rfl o2
      subst her
      rw [hv_runKeep_err rest hr] at happ
      rw [hspre]
      constructor
      · simp only [hstep, hv, happ]
      · simp only [hres, hv, ok_bind, happ]
  · rw [(hv_step_invalid e t h s w pre hop.1 hok).2.2] at hpre
    cases hpre

end Toodee
