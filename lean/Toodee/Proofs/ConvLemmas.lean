import Toodee.Spec.Inv
import Toodee.Spec.Grid
import Toodee.Proofs.MemLemmas
/-
  Helper lemmas for the conversions / derived traits of `TooDee` (C20) and the view serialisation (C18).
-/
namespace Toodee
variable {α : Type}

/-- `[T] == [T]`: equal lengths and element-wise equality, index by index -/
theorem sliceEq_iff (eqα : α → α → Bool) : ∀ xs ys : List α,
    TD.sliceEq eqα xs ys = true ↔
      xs.length = ys.length ∧ ∀ (i : Nat) (x y : α), xs[i]? = some x → ys[i]? = some y → eqα x y = true
  | [], [] => by simp [TD.sliceEq]
  | [], _ :: _ => by simp [TD.sliceEq]
  | _ :: _, [] => by simp [TD.sliceEq]
  | x :: xs, y :: ys => by
    rw [TD.sliceEq, Bool.and_eq_true, sliceEq_iff eqα xs ys]
    constructor
    · rintro ⟨h0, hl, hi⟩
      refine ⟨by simp [hl], ?_⟩
      intro i a b ha hb
      cases i with
      | zero =>
        simp only [List.getElem?_cons_zero, Option.some.injEq] at ha hb
        rw [← ha, ← hb]; exact h0
      | succ i =>
        simp only [List.getElem?_cons_succ] at ha hb
        exact hi i a b ha hb
    · rintro ⟨hl, hi⟩
      refine ⟨hi 0 x y (by simp) (by simp), by simpa using hl, ?_⟩
      intro i a b ha hb
      exact hi (i + 1) a b (by simpa using ha) (by simpa using hb)

/-- with a lawful element equality, slice equality is equality -/
theorem sliceEq_lawful (eqα : α → α → Bool) (heq : ∀ x y, eqα x y = true ↔ x = y) : ∀ xs ys : List α,
    TD.sliceEq eqα xs ys = true ↔ xs = ys
  | [], [] => by simp [TD.sliceEq]
  | [], _ :: _ => by simp [TD.sliceEq]
  | _ :: _, [] => by simp [TD.sliceEq]
  | x :: xs, y :: ys => by
    rw [TD.sliceEq, Bool.and_eq_true, sliceEq_lawful eqα heq xs ys, heq]
    simp

/-- slices that compare equal feed the hasher the same sequence -/
theorem sliceEq_flatMap (eqα : α → α → Bool) (hα : α → List Nat) (hc : ∀ x y, eqα x y = true → hα x = hα y) :
    ∀ xs ys : List α, TD.sliceEq eqα xs ys = true → xs.length = ys.length ∧ xs.flatMap hα = ys.flatMap hα
  | [], [] => by simp
  | [], _ :: _ => by simp [TD.sliceEq]
  | _ :: _, [] => by simp [TD.sliceEq]
  | x :: xs, y :: ys => by
    rw [TD.sliceEq, Bool.and_eq_true]
    rintro ⟨h0, h1⟩
    obtain ⟨hl, hf⟩ := sliceEq_flatMap eqα hα hc xs ys h1
    refine ⟨by simp [hl], ?_⟩
    rw [List.flatMap_cons, List.flatMap_cons, hc x y h0, hf]

/-- a cloned slice compares equal to the original when clones compare equal to their originals -/
theorem sliceEq_map_clone (eqα : α → α → Bool) (cl : α → α) (h : ∀ x, eqα (cl x) x = true) :
    ∀ xs : List α, TD.sliceEq eqα (xs.map cl) xs = true
  | [] => by simp [TD.sliceEq]
  | x :: xs => by
    rw [List.map_cons, TD.sliceEq, h x, sliceEq_map_clone eqα cl h xs]
    rfl

/-- an index below `C * R` is the row-major position of a cell -/
theorem index_decomp {C R i : Nat} (hi : i < C * R) :
    i % C < C ∧ i / C < R ∧ i / C * C + i % C = i := by
  have hC : 0 < C := by
    rcases Nat.eq_zero_or_pos C with h0 | h0
    · rw [h0, Nat.zero_mul] at hi; omega
    · exact h0
  refine ⟨Nat.mod_lt _ hC, (Nat.div_lt_iff_lt_mul hC).2 (by rw [Nat.mul_comm]; exact hi), ?_⟩
  rw [Nat.mul_comm]; exact Nat.div_add_mod i C

/-- a row-major position lies below the product of the dimensions -/
theorem pos_lt_mul {C R c r : Nat} (hc : c < C) (hr : r < R) : r * C + c < C * R := by
  have : (r + 1) * C ≤ R * C := Nat.mul_le_mul_right C hr
  rw [Nat.add_mul, Nat.one_mul] at this
  rw [Nat.mul_comm C R]
  omega

/-- reading the buffer at the positions of the cells, row by row -/
theorem filterMap_cells_flatten (buf : List α) (R C : Nat) (pos : Nat → Nat → Nat) :
    (((List.range R).map fun r => (List.range C).map fun c => pos c r).flatten).filterMap (fun p => buf[p]?) =
      ((List.range R).map fun r => (List.range C).filterMap fun c => buf[pos c r]?).flatten := by
  induction (List.range R) with
  | nil => simp
  | cons r rs ih =>
    rw [List.map_cons, List.map_cons, List.flatten_cons, List.flatten_cons, List.filterMap_append, ih,
      List.filterMap_map]
    rfl

end Toodee
