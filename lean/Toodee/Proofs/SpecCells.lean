import Toodee.Properties.C04Frame
import Toodee.Properties.C15
import Toodee.Properties.C16
import Toodee.Properties.C17
/-
  Helper lemmas for C04: what `MOp.spec` means (one of three shapes: rejected, a cell permutation that stays inside the view, an
  overwrite of cells), and that it depends on the receiver only through its cells (`v`/`buf` against `v.ownedShape`/`v.cellsOf buf`).
-/
namespace Toodee
variable {α : Type}

/-- the value of `MOp.spec` on a view together with its value on the owned copy of the view's cells -/
inductive SpecPair (v : VW) (buf : List α) : Res (List α) → Res (List α) → Prop
  | panic : SpecPair v buf (.error .panic) (.error .panic)
  | perm (g : Nat × Nat → Nat × Nat)
      (hg : ∀ c r, c < v.numCols → r < v.numRows → (g (c, r)).1 < v.numCols ∧ (g (c, r)).2 < v.numRows) :
      SpecPair v buf (.ok (gather buf (v.mapCells g))) (.ok (gather (v.cellsOf buf) (v.ownedShape.mapCells g)))
  | upd (f f' : Nat × Nat → Option α) (hff : ∀ c r, c < v.numCols → r < v.numRows → f (c, r) = f' (c, r)) :
      SpecPair v buf (.ok (v.updCells buf f)) (.ok (v.ownedShape.updCells (v.cellsOf buf) f'))

theorem SpecPair.ite_perm {v : VW} {buf : List α} (P : Prop) [Decidable P] (g : Nat × Nat → Nat × Nat)
    (hg : P → ∀ c r, c < v.numCols → r < v.numRows → (g (c, r)).1 < v.numCols ∧ (g (c, r)).2 < v.numRows) :
    SpecPair v buf (if P then pure (gather buf (v.mapCells g)) else throw .panic)
      (if P then pure (gather (v.cellsOf buf) (v.ownedShape.mapCells g)) else throw .panic) := by
  by_cases hP : P
  · rw [if_pos hP, if_pos hP]; exact .perm g (hg hP)
  · rw [if_neg hP, if_neg hP]; exact .panic

theorem SpecPair.ite_upd {v : VW} {buf : List α} (P : Prop) [Decidable P] (f f' : Nat × Nat → Option α)
    (hff : P → ∀ c r, c < v.numCols → r < v.numRows → f (c, r) = f' (c, r)) :
    SpecPair v buf (if P then pure (v.updCells buf f) else throw .panic)
      (if P then pure (v.ownedShape.updCells (v.cellsOf buf) f') else throw .panic) := by
  by_cases hP : P
  · rw [if_pos hP, if_pos hP]; exact .upd f f' (hff hP)
  · rw [if_neg hP, if_neg hP]; exact .panic

/-! ### the keys of the sorts and the source cells of `copy_within`, read through the view or from the owned copy -/

theorem readWin_cellsOf (v : VW) (buf : List α) (h : v.Inv buf.length) {row : Nat} (hr : row < v.numRows) :
    readWin (v.cellsOf buf) (v.ownedShape.rowWin row) = readWin buf (v.rowWin row) := by
  obtain ⟨_, hcell⟩ := v.cellsOf_facts buf h
  apply List.ext_getElem?
  intro i
  rw [readWin_getElem?, readWin_getElem?]
  show (if i < v.numCols then (v.cellsOf buf)[v.ownedShape.pos 0 row + i]? else none)
    = if i < v.numCols then buf[v.pos 0 row + i]? else none
  by_cases hi : i < v.numCols
  · rw [if_pos hi, if_pos hi, VW.pos_zero_add, VW.pos_zero_add, VW.ownedShape_pos, hcell i row hi hr]
  · rw [if_neg hi, if_neg hi]

theorem colKeys_cellsOf (v : VW) (buf : List α) (h : v.Inv buf.length) {c : Nat} (hc : c < v.numCols) :
    ((List.range v.numRows).filterMap fun r => (v.cellsOf buf)[v.ownedShape.pos c r]?)
      = (List.range v.numRows).filterMap fun r => buf[v.pos c r]? := by
  obtain ⟨_, hcell⟩ := v.cellsOf_facts buf h
  apply filterMap_congr_mem
  intro r hr
  rw [VW.ownedShape_pos, hcell c r hc (List.mem_range.1 hr)]

theorem copyWithinCells_cellsOf (v : VW) (buf : List α) (h : v.Inv buf.length) (tl br dest : Nat × Nat)
    (hfit : rectsFit v.numCols v.numRows tl br dest) (c r : Nat) :
    copyWithinCells v buf tl br dest (c, r) = copyWithinCells v.ownedShape (v.cellsOf buf) tl br dest (c, r) := by
  obtain ⟨_, hcell⟩ := v.cellsOf_facts buf h
  obtain ⟨h1, h2, h3, h4, h5, h6⟩ := hfit
  unfold copyWithinCells
  by_cases hin : dest.1 ≤ c ∧ c < dest.1 + (br.1 - tl.1) ∧ dest.2 ≤ r ∧ r < dest.2 + (br.2 - tl.2)
  · rw [if_pos hin, if_pos hin, VW.ownedShape_pos, hcell _ _ (by simp only []; omega) (by simp only []; omega)]
  · rw [if_neg hin, if_neg hin]

/-! ### the cell maps stay inside the view -/

theorem swapCellG_range {C R c1 r1 c2 r2 : Nat} (hv : c1 < C ∧ c2 < C ∧ r1 < R ∧ r2 < R) (c r : Nat) (hc : c < C)
    (hr : r < R) : (swapCellG (c1, r1) (c2, r2) (c, r)).1 < C ∧ (swapCellG (c1, r1) (c2, r2) (c, r)).2 < R := by
  unfold swapCellG
  split
  · exact ⟨hv.2.1, hv.2.2.2⟩
  · split
    · exact ⟨hv.1, hv.2.2.1⟩
    · exact ⟨hc, hr⟩

/-- **every value of the specification is one of the three shapes**, on the view and on the owned copy of its cells alike -/
theorem spec_pair (lim : Nat) (v : VW) (buf : List α) (h : v.Inv buf.length) (op : MOp α) (hs : op.Sane) :
    SpecPair v buf (op.spec v lim buf) (op.spec v.ownedShape lim (v.cellsOf buf)) := by
  cases op with
  | set c r x => exact SpecPair.ite_upd _ _ _ (fun _ _ _ _ _ => rfl)
  | setInRow r c x => exact SpecPair.ite_upd _ _ _ (fun _ _ _ _ _ => rfl)
  | fill x => exact .upd _ _ (fun _ _ _ _ => rfl)
  | swap c1 r1 c2 r2 => exact SpecPair.ite_perm _ _ (fun hv => swapCellG_range hv)
  | swapRows r1 r2 =>
    exact SpecPair.ite_perm _ _ (fun hv c r hc hr => ⟨hc, swapIdx_lt hv.1 hv.2 hr⟩)
  | swapCols c1 c2 =>
    exact SpecPair.ite_perm _ _ (fun hv c r hc hr => ⟨swapIdx_lt hv.1 hv.2 hc, hr⟩)
  | copyFromSlice src => exact SpecPair.ite_upd _ _ _ (fun _ _ _ _ _ => rfl)
  | copyFromTooDee src =>
    show SpecPair v buf
      (match src.grid? with
        | some sg => if sg.length = v.numRows ∧ gcols sg = v.numCols then pure (v.updCells buf fun cr => gcell sg cr.1 cr.2)
            else throw .panic
        | none => throw .panic)
      (match src.grid? with
        | some sg => if sg.length = v.numRows ∧ gcols sg = v.numCols then
            pure (v.ownedShape.updCells (v.cellsOf buf) fun cr => gcell sg cr.1 cr.2) else throw .panic
        | none => throw .panic)
    cases src.grid? with
    | none => exact .panic
    | some sg => exact SpecPair.ite_upd _ _ _ (fun _ _ _ _ _ => rfl)
  | copyWithin tl br dest =>
    exact SpecPair.ite_upd _ _ _ (fun hfit c r _ _ => copyWithinCells_cellsOf v buf h tl br dest hfit c r)
  | translate mc mr =>
    exact SpecPair.ite_perm _ _ (fun _ =>
      (C15_maps_bijective v.numCols v.numRows mc mr _ (List.mem_cons_self ..)).1)
  | flipRows =>
    exact .perm _ (C15_maps_bijective v.numCols v.numRows 0 0 (flipRowsG v.numRows) (by simp)).1
  | flipCols =>
    exact .perm _ (C15_maps_bijective v.numCols v.numRows 0 0 (flipColsG v.numCols) (by simp)).1
  | sortRow side row =>
    show SpecPair v buf
      (if row < v.numRows ∧ v.numCols ≤ lim then
        side (readWin buf (v.rowWin row)) >>= fun p => pure (gather buf (v.mapCells (sortColsG p))) else throw .panic)
      (if row < v.numRows ∧ v.numCols ≤ lim then
        side (readWin (v.cellsOf buf) (v.ownedShape.rowWin row)) >>= fun p =>
          pure (gather (v.cellsOf buf) (v.ownedShape.mapCells (sortColsG p))) else throw .panic)
    by_cases hv : row < v.numRows ∧ v.numCols ≤ lim
    · rw [if_pos hv, if_pos hv, readWin_cellsOf v buf h hv.1]
      rcases hs (readWin buf (v.rowWin row)) with he | ⟨p, he, hp⟩
      · rw [he]; exact .panic
      · rw [he]
        rw [C16_key_row_length v buf h row hv.1] at hp
        refine .perm _ (fun c r hc hr => ?_)
        have := (C16_cols_bijective v.numCols v.numRows p hp).1 c r hc hr
        exact ⟨this.1, by rw [this.2]; exact hr⟩
    · rw [if_neg hv, if_neg hv]; exact .panic
  | sortCol side c =>
    show SpecPair v buf
      (if c < v.numCols ∧ v.numRows ≤ lim then
        side ((List.range v.numRows).filterMap fun r => buf[v.pos c r]?) >>= fun p =>
          pure (gather buf (v.mapCells (sortRowsG p))) else throw .panic)
      (if c < v.numCols ∧ v.numRows ≤ lim then
        side ((List.range v.numRows).filterMap fun r => (v.cellsOf buf)[v.ownedShape.pos c r]?) >>= fun p =>
          pure (gather (v.cellsOf buf) (v.ownedShape.mapCells (sortRowsG p))) else throw .panic)
    by_cases hv : c < v.numCols ∧ v.numRows ≤ lim
    · rw [if_pos hv, if_pos hv, colKeys_cellsOf v buf h hv.1]
      rcases hs (v.colKeys buf c) with he | ⟨p, he, hp⟩
      · show SpecPair v buf (side (v.colKeys buf c) >>= _) (side (v.colKeys buf c) >>= _)
        rw [he]; exact .panic
      · show SpecPair v buf (side (v.colKeys buf c) >>= _) (side (v.colKeys buf c) >>= _)
        rw [he]
        rw [C17_key_col_length v buf h c hv.1] at hp
        refine .perm _ (fun c' r hc hr => ?_)
        have := (C17_rows_bijective v.numCols v.numRows p hp).1 c' r hc hr
        exact ⟨by rw [this.2]; exact hc, this.1⟩
    · rw [if_neg hv, if_neg hv]; exact .panic

end Toodee
