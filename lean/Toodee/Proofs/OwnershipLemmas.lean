import Toodee.Proofs.InsertLemmas
import Toodee.Proofs.RemoveLemmas
import Toodee.Proofs.CellsLemmas
import Toodee.Properties.C06
import Toodee.Properties.C07
/-
  Helper lemmas for the ownership properties C05 (conservation), C11 (panic safety), C12 (leak safety).
-/
namespace Toodee
variable {α : Type}

/-! ### permutation algebra -/

theorem ow_perm_swap_tail (A B C : List α) : (A ++ B ++ C).Perm (A ++ C ++ B) := by
  rw [List.append_assoc, List.append_assoc]
  exact List.Perm.append_left A List.perm_append_comm

/-- cutting a middle block out and appending it at the end -/
theorem ow_perm_take_mid_drop (A M B : List α) : (A ++ B ++ M).Perm (A ++ M ++ B) :=
  ow_perm_swap_tail A B M

theorem ow_insAt_perm (i : Nat) (ρ : List α) (x : α) : (insAt i ρ x).Perm (x :: ρ) := by
  unfold insAt
  have h := (List.perm_middle (a := x) (l₁ := ρ.take i) (l₂ := ρ.drop i))
  rw [List.take_append_drop] at h
  exact h

/-- inserting one item per row conserves the cells -/
theorem ow_zipWith_insAt_perm (i : Nat) : ∀ (rows : List (List α)) (xs : List α), xs.length = rows.length →
    (List.zipWith (insAt i) rows xs).flatten.Perm (rows.flatten ++ xs)
  | [], xs, h => by
    have : xs = [] := List.eq_nil_of_length_eq_zero (by simpa using h)
    subst this
    simp
  | ρ :: rows, [], h => by simp at h
  | ρ :: rows, x :: xs, h => by
    have ih := ow_zipWith_insAt_perm i rows xs (by simpa using h)
    simp only [List.zipWith_cons_cons, List.flatten_cons]
    have h1 : (insAt i ρ x ++ (List.zipWith (insAt i) rows xs).flatten).Perm
        ((x :: ρ) ++ (rows.flatten ++ xs)) := (ow_insAt_perm i ρ x).append ih
    refine h1.trans ?_
    -- x :: ρ ++ (F ++ xs)  ~  ρ ++ F ++ x :: xs
    have h2 : (x :: (ρ ++ (rows.flatten ++ xs))).Perm (ρ ++ rows.flatten ++ x :: xs) := by
      rw [← List.append_assoc]
      exact (List.perm_middle (a := x) (l₁ := ρ ++ rows.flatten) (l₂ := xs)).symm
    simpa using h2

/-- removing one column conserves the cells: kept cells plus the column -/
theorem ow_eraseIdx_col_perm (C i : Nat) (hi : i < C) : ∀ (rows : List (List α)), (∀ ρ ∈ rows, ρ.length = C) →
    ((rows.map fun ρ => ρ.eraseIdx i).flatten ++ rows.filterMap (·[i]?)).Perm rows.flatten
  | [], _ => by simp
  | ρ :: rows, h => by
    have hρ : ρ.length = C := h ρ (by simp)
    have ih := ow_eraseIdx_col_perm C i hi rows (fun ρ' hm => h ρ' (by simp [hm]))
    have hlt : i < ρ.length := by omega
    have hsplit : ρ = ρ.take i ++ ρ[i] :: ρ.drop (i + 1) := by
      rw [← List.drop_eq_getElem_cons, List.take_append_drop]
    have hget : ρ[i]? = some ρ[i] := List.getElem?_eq_getElem hlt
    simp only [List.map_cons, List.flatten_cons, List.filterMap_cons, hget]
    -- (E ++ F') ++ (x :: K)  ~  ρ ++ F
    have h1 : (ρ.eraseIdx i ++ (rows.map fun ρ => ρ.eraseIdx i).flatten ++ ρ[i] :: rows.filterMap (·[i]?)).Perm
        (ρ[i] :: (ρ.eraseIdx i ++ ((rows.map fun ρ => ρ.eraseIdx i).flatten ++ rows.filterMap (·[i]?)))) := by
      rw [← List.append_assoc (ρ.eraseIdx i)]
      exact List.perm_middle
    refine h1.trans ?_
    have h2 : (ρ[i] :: ρ.eraseIdx i).Perm ρ := by
      rw [List.eraseIdx_eq_take_drop_succ]
      conv => rhs; rw [hsplit]
      exact List.perm_middle.symm
    have h3 := h2.append ih
    simpa using h3

end Toodee

namespace Toodee
variable {α : Type}

/-! ### remove_row: the complete drain, including the leak dimensions -/

theorem ow_row_end_le (t : TD α) (h : t.Inv) (i : Nat) (hi : i < t.numRows) :
    i * t.numCols + t.numCols ≤ t.data.length := by
  have h1 := Nat.mul_le_mul_right t.numCols (Nat.succ_le_of_lt hi)
  rw [Nat.succ_mul, Nat.mul_comm t.numRows, ← h.len] at h1
  exact h1

theorem ow_removeRow_eq (m : Mode) (t : TD α) (h : t.Inv) (i : Nat) (hi : i < t.numRows) :
    t.removeRow m i = .ok
      { items := (t.data.drop (i * t.numCols)).take t.numCols,
        pre := t.data.take (i * t.numCols), tail := t.data.drop (i * t.numCols + t.numCols),
        leakRows := i, leakCols := if i = 0 then 0 else t.numCols,
        finalRows := t.numRows - 1, finalCols := if t.numRows - 1 = 0 then 0 else t.numCols } := by
  have hend := ow_row_end_le t h i hi
  have hw := h.word
  have e1 : umul m i t.numCols = .ok (i * t.numCols) := umul_ok m _ _ (by omega)
  have e2 : usub m t.numRows 1 = .ok (t.numRows - 1) := usub_ok m _ _ (by omega)
  have e3 : uadd m (i * t.numCols) t.numCols = .ok (i * t.numCols + t.numCols) := uadd_ok m _ _ (by omega)
  have hcond : i * t.numCols ≤ i * t.numCols + t.numCols ∧ i * t.numCols + t.numCols ≤ t.data.length :=
    ⟨by omega, by omega⟩
  unfold TD.removeRow
  rw [if_neg (by simpa using hi)]
  simp only [pure_eq, ok_bind, e1, e2, e3]
  rw [if_neg (by simpa using hcond), Nat.add_sub_cancel_left]

/-- the buffer is the cells before row `i`, row `i`, and the cells after it -/
theorem ow_data_split_row (data : List α) (s c : Nat) :
    data = data.take s ++ (data.drop s).take c ++ data.drop (s + c) := by
  rw [List.append_assoc, ← List.drop_drop, List.take_append_drop, List.take_append_drop]

/-- the array a leaked row drain leaves behind -/
theorem ow_leak_row_inv (t : TD α) (h : t.Inv) (i : Nat) (hi : i ≤ t.numRows) :
    (⟨t.data.take (i * t.numCols), i, if i = 0 then 0 else t.numCols⟩ : TD α).Inv := by
  have hend : i * t.numCols ≤ t.data.length := by
    rw [h.len, Nat.mul_comm t.numCols]
    exact Nat.mul_le_mul_right _ hi
  have hw := h.word
  have hz := h.zero
  refine ⟨?_, ?_, ?_⟩
  · show (t.data.take (i * t.numCols)).length = (if i = 0 then 0 else t.numCols) * i
    rw [List.length_take, Nat.min_eq_left (by omega)]
    by_cases h0 : i = 0
    · simp [h0]
    · rw [if_neg h0, Nat.mul_comm]
  · show (if i = 0 then 0 else t.numCols) = 0 ↔ i = 0
    by_cases h0 : i = 0
    · simp [h0]
    · rw [if_neg h0]
      omega
  · show (t.data.take (i * t.numCols)).length < WORD
    rw [List.length_take]
    omega

/-! ### leaking a column drain -/

theorem ow_zipIdx_map_snd (l : List α) : l.zipIdx.map (·.2) = List.range l.length := by
  apply List.ext_getElem
  · simp
  · intro i h1 h2
    simp

theorem ow_leak_col_conserves (buf : List α) (taken : List Nat) (hnd : taken.Nodup) (hin : ∀ p ∈ taken, p < buf.length) :
    ((buf.zipIdx.filter fun xi => !taken.contains xi.2).map (·.1) ++ taken.filterMap (buf[·]?)).Perm buf := by
  -- the cells at the taken positions, in buffer order
  let F := buf.zipIdx.filter fun xi => taken.contains xi.2
  have hidx : F.map (·.2) = (List.range buf.length).filter (taken.contains ·) := by
    rw [← ow_zipIdx_map_snd, List.filter_map]
    rfl
  have hperm : (F.map (·.2)).Perm taken := by
    rw [hidx]
    apply (List.perm_ext_iff_of_nodup (List.nodup_range.filter _) hnd).2
    intro p
    simp only [List.mem_filter, List.mem_range, List.contains_iff_mem]
    exact ⟨fun hp => hp.2, fun hp => ⟨hin p hp, hp⟩⟩
  have hval : F.map (·.1) = (F.map (·.2)).filterMap (buf[·]?) := by
    rw [List.filterMap_map, ← List.filterMap_eq_map]
    apply filterMap_congr_mem
    intro xi hxi
    have hm : xi ∈ buf.zipIdx := (List.mem_filter.1 hxi).1
    obtain ⟨x, k⟩ := xi
    have := List.mem_zipIdx hm
    simp only [Function.comp]
    simp at this
    obtain ⟨hk, hx⟩ := this
    simp [← hx, hk]
  have h1 : ((buf.zipIdx.filter fun xi => !taken.contains xi.2) ++ F).Perm buf.zipIdx := by
    have := List.filter_append_perm (fun xi : α × Nat => taken.contains xi.2) buf.zipIdx
    exact List.perm_append_comm.trans this
  have h2 := h1.map (·.1)
  rw [List.map_append, hval] at h2
  have h3 : (buf.zipIdx.map (·.1)) = buf := by
    apply List.ext_getElem <;> simp
  rw [h3] at h2
  exact (List.Perm.append_left _ (hperm.filterMap _).symm).trans h2

/-! ### remove_col: the column's cells as a list -/

theorem ow_col_cells (t : TD α) (h : t.Inv) (i : Nat) (hi : i < t.numCols) :
    (List.range t.numRows).filterMap (fun r => t.data[t.pos i r]?) = t.grid.filterMap (·[i]?) := by
  have hR : t.data.length / t.numCols = t.numRows := by
    rw [h.len]; exact Nat.mul_div_cancel_left _ (by omega)
  unfold TD.grid toRows
  rw [List.filterMap_map, hR]
  apply filterMap_congr_mem
  intro r _
  simp only [Function.comp, TD.pos, List.getElem?_take, hi, if_true, List.getElem?_drop]

end Toodee

namespace Toodee
variable {α : Type}

/-! ### insert_row with an arbitrary iterator script -/

/-- the fill loop on an arbitrary event list: some prefix `xs` of the junk block is overwritten, the loop ends normally
    (block full) or with a panic (script ended or panicked); never `ub` -/
theorem ow_fillLoop_gen : ∀ (k : Nat) (ev : List (Option α)) (X J Y : List α), J.length = k →
    ∃ (xs J' : List α) (ev' : List (Option α)) (err : Option Err),
      fillLoop k ev (X ++ J ++ Y) X.length = (X ++ xs ++ J' ++ Y, ev', xs.length, err) ∧
      xs.length + J'.length = k ∧ ev.filterMap id = xs ++ ev'.filterMap id ∧
      (err = none ∨ err = some .panic) ∧ (err = none → J' = [])
  | 0, ev, X, J, Y, hJ => by
    have : J = [] := List.eq_nil_of_length_eq_zero hJ
    subst this
    exact ⟨[], [], ev, none, by simp [fillLoop], rfl, by simp, Or.inl rfl, fun _ => rfl⟩
  | k + 1, [], X, J, Y, hJ =>
    ⟨[], J, [], some .panic, by simp [fillLoop], by simpa using hJ, by simp, Or.inr rfl, fun h => by cases h⟩
  | k + 1, none :: ev, X, J, Y, hJ =>
    ⟨[], J, ev, some .panic, by simp [fillLoop], by simpa using hJ, by simp, Or.inr rfl, fun h => by cases h⟩
  | k + 1, some e :: ev, X, J, Y, hJ => by
    match J, hJ with
    | j :: J0, hJ =>
      have hlt : X.length < (X ++ j :: J0 ++ Y).length := by simp
      have hset : (X ++ j :: J0 ++ Y).set X.length e = (X ++ [e]) ++ J0 ++ Y := by simp
      have hl : X.length + 1 = (X ++ [e]).length := by simp
      obtain ⟨xs, J', ev', err, hf, hlen, hit, herr, hJ'⟩ := ow_fillLoop_gen k ev (X ++ [e]) J0 Y (by simpa using hJ)
      refine ⟨e :: xs, J', ev', err, ?_, by simp; omega, by simp [hit], herr, hJ'⟩
      simp only [fillLoop, if_pos hlt]
      rw [hset, hl, hf]
      simp

end Toodee

namespace Toodee
variable {α : Type}

/-- a permutation goal between concatenations: compare element counts -/
theorem ow_perm_of_count [DecidableEq α] {l₁ l₂ : List α} (h : ∀ a, l₁.count a = l₂.count a) : l₁.Perm l₂ :=
  List.perm_iff_count.2 h

theorem ow_insertRow_any (m : Mode) (cap : Nat) (t : TD α) (h : t.Inv) (i : Nat) (it : IterScript α) (spare : List α)
    (hsp : it.claimed ≤ spare.length ∨ ¬ reserveOk cap t.data.length (if t.numRows = 0 then it.claimed else t.numCols))
    (hcapw : cap < WORD) :
    (t.insertRow m cap i it spare).res ≠ .error .ub ∧ (t.insertRow m cap i it spare).res ≠ .error .fuel ∧
    (t.insertRow m cap i it spare).t.Inv ∧
    ((t.insertRow m cap i it spare).t.data ++ (t.insertRow m cap i it spare).leaked
        ++ (t.insertRow m cap i it spare).rest.filterMap id).Perm (t.data ++ it.events.filterMap id) := by
  classical
  have hd := h.len
  have hw := h.word
  have hz := h.zero
  unfold TD.insertRow
  by_cases hi : i ≤ t.numRows
  case neg =>
    rw [if_pos hi]
    exact ⟨by simp, by simp, h, by simp⟩
  rw [if_neg (by simpa using hi)]
  by_cases hlenOk : (t.numRows == 0 || t.numCols == it.claimed) = true
  case neg =>
    simp only [hlenOk]
    exact ⟨by simp, by simp, h, by simp⟩
  simp only [hlenOk, Bool.not_true, Bool.false_eq_true, if_false]
  generalize hN : (if t.numRows = 0 then it.claimed else t.numCols) = N at hsp ⊢
  by_cases hres : reserveOk cap t.data.length N = true
  case neg =>
    simp only [hres]
    exact ⟨by simp, by simp, h, by simp⟩
  simp only [hres, Bool.not_true, Bool.false_eq_true, if_false]
  have hNc : N = it.claimed := by
    by_cases h0 : t.numRows = 0
    · rw [← hN, if_pos h0]
    · rw [← hN, if_neg h0]
      simpa [h0] using hlenOk
  have hspn : ¬ spare.length < N := by
    rcases hsp with h1 | h1
    · omega
    · exact absurd hres h1
  rw [if_neg hspn]
  have hcapN : t.data.length + N ≤ cap := by simpa [reserveOk] using hres
  have hs : i * N = i * t.numCols := by
    by_cases h0 : t.numRows = 0
    · have : i = 0 := by omega
      simp [this]
    · rw [← hN, if_neg h0]
  have hsle : i * t.numCols ≤ t.data.length := by
    rw [hd, Nat.mul_comm t.numCols]
    exact Nat.mul_le_mul_right _ hi
  have hmul : umul m i N = .ok (i * t.numCols) := by
    rw [← hs]; apply umul_ok; rw [hs]; omega
  simp only [hmul]
  rw [if_neg (by simpa using hsle)]
  let A := t.data.take (i * t.numCols)
  let T := t.data.drop (i * t.numCols)
  let J := spare.take N
  let Y := spare.drop N
  have hA : A.length = i * t.numCols := by simp [A]; omega
  have hT : T.length = t.data.length - i * t.numCols := by simp [T]
  have hJ : J.length = N := by simp [J]; omega
  have hAT : t.data = A ++ T := (List.take_append_drop _ _).symm
  have hbuf : t.data ++ spare = A ++ T ++ J ++ Y := by simp [A, T, J, Y]
  obtain ⟨J', hJ', hmv⟩ := memmoveChecked_right A T J Y
  rw [hA, hJ, hT, ← hbuf] at hmv
  obtain ⟨xs, J2, ev', err, hfill, hlen2, hitems, herr, hfull⟩ := ow_fillLoop_gen N it.events A J' (T ++ Y) (by omega)
  rw [hA, ← List.append_assoc] at hfill
  simp only [hmv, hfill]
  have hleak : ((A ++ xs ++ J2 ++ (T ++ Y)).drop (i * t.numCols)).take xs.length = xs := by
    rw [← hA]
    simp
  have hpI : (⟨A, i, if i = 0 then 0 else t.numCols⟩ : TD α).Inv := ow_leak_row_inv t h i hi
  rw [hleak]
  have hpermFail : ∀ rest : List α, rest.Perm (ev'.filterMap id) →
      (A ++ (xs ++ T) ++ rest).Perm (t.data ++ it.events.filterMap id) := by
    intro rest hr
    refine (List.Perm.append_left _ hr).trans ?_
    rw [hitems, hAT]
    apply ow_perm_of_count
    intro a
    simp only [List.count_append]
    omega
  rcases herr with rfl | rfl
  · -- the fill loop completed
    have hJ2 : J2 = [] := hfull rfl
    subst hJ2
    have hxs : xs.length = N := by simpa using hlen2
    have htake : List.take (t.data.length + N) (A ++ xs ++ [] ++ (T ++ Y)) = A ++ xs ++ T := by
      rw [show A ++ xs ++ [] ++ (T ++ Y) = (A ++ xs ++ T) ++ Y by simp]
      apply List.take_left'
      simp only [List.length_append, hA, hT]; omega
    have hok : (⟨A ++ xs ++ T, if N > 0 then t.numRows + 1 else t.numRows, N⟩ : TD α).Inv ∧
        (A ++ xs ++ T ++ [] ++ ev'.filterMap id).Perm (t.data ++ it.events.filterMap id) := by
      refine ⟨⟨?_, ?_, ?_⟩, ?_⟩
      · show (A ++ xs ++ T).length = N * (if N > 0 then t.numRows + 1 else t.numRows)
        simp only [List.length_append, hA, hT, hxs]
        by_cases hN0 : N = 0
        · have hR : t.data.length = 0 := by
            by_cases h0 : t.numRows = 0
            · rw [hd, h0, Nat.mul_zero]
            · rw [← hN, if_neg h0] at hN0
              rw [hd, hN0, Nat.zero_mul]
          simp [hN0]; omega
        · rw [if_pos (Nat.pos_of_ne_zero hN0), Nat.mul_add, Nat.mul_one]
          by_cases h0 : t.numRows = 0
          · rw [h0, Nat.mul_zero] at hd ⊢; omega
          · rw [← hN, if_neg h0, ← hd]; omega
      · show N = 0 ↔ (if N > 0 then t.numRows + 1 else t.numRows) = 0
        by_cases hN0 : N = 0
        · have hR : t.numRows = 0 := by
            by_cases h0 : t.numRows = 0
            · exact h0
            · rw [← hN, if_neg h0] at hN0
              exact hz.1 hN0
          simp [hN0, hR]
        · simp [hN0, Nat.pos_of_ne_zero hN0]
      · show (A ++ xs ++ T).length < WORD
        simp only [List.length_append, hA, hT, hxs]
        omega
      · rw [hitems, hAT]
        apply ow_perm_of_count
        intro a
        simp only [List.count_append, List.count_nil]
        omega
    cases m with
    | release =>
      simp only [debugExhausted, htake]
      exact ⟨by simp, by simp, hok.1, hok.2⟩
    | debug =>
      match ev' with
      | [] =>
        simp only [debugExhausted, htake]
        exact ⟨by simp, by simp, hok.1, hok.2⟩
      | none :: ev2 =>
        simp only [debugExhausted]
        exact ⟨by simp, by simp, hpI, hpermFail _ (by simp)⟩
      | some x :: ev2 =>
        simp only [debugExhausted]
        refine ⟨by simp, by simp, hpI, hpermFail _ ?_⟩
        simp only [List.filterMap_append, List.map_cons, List.map_nil, List.filterMap_cons, id, List.filterMap_nil]
        exact List.perm_append_comm
  · exact ⟨by simp, by simp, hpI, hpermFail _ (List.Perm.refl _)⟩

end Toodee
