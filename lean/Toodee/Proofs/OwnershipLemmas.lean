import Toodee.Proofs.InsertLemmas
import Toodee.Proofs.RemoveLemmas
import Toodee.Proofs.CellsLemmas
import Toodee.Properties.C06
import Toodee.Properties.C07
/-
  Helper lemmas for the ownership properties C05 (conservation), C11 (panic safety), C12 (leak safety).
-/
namespace Toodee
variable {α : Type}

/-! ### permutation algebra -/

theorem ow_perm_swap_tail (A B C : List α) : (A ++ B ++ C).Perm (A ++ C ++ B) := by
  rw [List.append_assoc, List.append_assoc]
  exact List.Perm.append_left A List.perm_append_comm

/-- cutting a middle block out and appending it at the end -/
theorem ow_perm_take_mid_drop (A M B : List α) : (A ++ B ++ M).Perm (A ++ M ++ B) :=
  ow_perm_swap_tail A B M

theorem ow_insAt_perm (i : Nat) (ρ : List α) (x : α) : (insAt i ρ x).Perm (x :: ρ) := by
  unfold insAt
  have h := (List.perm_middle (a := x) (l₁ := ρ.take i) (l₂ := ρ.drop i))
  rw [List.take_append_drop] at h
  exact h

/-- inserting one item per row conserves the cells -/
theorem ow_zipWith_insAt_perm (i : Nat) : ∀ (rows : List (List α)) (xs : List α), xs.length = rows.length →
    (List.zipWith (insAt i) rows xs).flatten.Perm (rows.flatten ++ xs)
  | [], xs, h => by
    have : xs = [] := List.eq_nil_of_length_eq_zero (by simpa using h)
    subst this
    simp
  | ρ :: rows, [], h => by simp at h
  | ρ :: rows, x :: xs, h => by
    have ih := ow_zipWith_insAt_perm i rows xs (by simpa using h)
    simp only [List.zipWith_cons_cons, List.flatten_cons]
    have h1 : (insAt i ρ x ++ (List.zipWith (insAt i) rows xs).flatten).Perm
        ((x :: ρ) ++ (rows.flatten ++ xs)) := (ow_insAt_perm i ρ x).append ih
    refine h1.trans ?_
    -- x :: ρ ++ (F ++ xs)  ~  ρ ++ F ++ x :: xs
    have h2 : (x :: (ρ ++ (rows.flatten ++ xs))).Perm (ρ ++ rows.flatten ++ x :: xs) := by
      rw [← List.append_assoc]
      exact (List.perm_middle (a := x) (l₁ := ρ ++ rows.flatten) (l₂ := xs)).symm
    simpa using h2

/-- removing one column conserves the cells: kept cells plus the column -/
theorem ow_eraseIdx_col_perm (C i : Nat) (hi : i < C) : ∀ (rows : List (List α)), (∀ ρ ∈ rows, ρ.length = C) →
    ((rows.map fun ρ => ρ.eraseIdx i).flatten ++ rows.filterMap (·[i]?)).Perm rows.flatten
  | [], _ => by simp
  | ρ :: rows, h => by
    have hρ : ρ.length = C := h ρ (by simp)
    have ih := ow_eraseIdx_col_perm C i hi rows (fun ρ' hm => h ρ' (by simp [hm]))
    have hlt : i < ρ.length := by omega
    have hsplit : ρ = ρ.take i ++ ρ[i] :: ρ.drop (i + 1) := by
      rw [← List.drop_eq_getElem_cons, List.take_append_drop]
    have hget : ρ[i]? = some ρ[i] := List.getElem?_eq_getElem hlt
    simp only [List.map_cons, List.flatten_cons, List.filterMap_cons, hget]
    -- (E ++ F') ++ (x :: K)  ~  ρ ++ F
    have h1 : (ρ.eraseIdx i ++ (rows.map fun ρ => ρ.eraseIdx i).flatten ++ ρ[i] :: rows.filterMap (·[i]?)).Perm
        (ρ[i] :: (ρ.eraseIdx i ++ ((rows.map fun ρ => ρ.eraseIdx i).flatten ++ rows.filterMap (·[i]?)))) := by
      rw [← List.append_assoc (ρ.eraseIdx i)]
      exact List.perm_middle
    refine h1.trans ?_
    have h2 : (ρ[i] :: ρ.eraseIdx i).Perm ρ := by
      rw [List.eraseIdx_eq_take_drop_succ]
      conv => rhs; rw [hsplit]
      exact List.perm_middle.symm
    have h3 := h2.append ih
    simpa using h3

end Toodee

namespace Toodee
variable {α : Type}

/-! ### remove_row: the complete drain, including the leak dimensions -/

theorem ow_row_end_le (t : TD α) (h : t.Inv) (i : Nat) (hi : i < t.numRows) :
    i * t.numCols + t.numCols ≤ t.data.length := by
  have h1 := Nat.mul_le_mul_right t.numCols (Nat.succ_le_of_lt hi)
  rw [Nat.succ_mul, Nat.mul_comm t.numRows, ← h.len] at h1
  exact h1

theorem ow_removeRow_eq (m : Mode) (t : TD α) (h : t.Inv) (i : Nat) (hi : i < t.numRows) :
    t.removeRow m i = .ok
      { items := (t.data.drop (i * t.numCols)).take t.numCols,
        pre := t.data.take (i * t.numCols), tail := t.data.drop (i * t.numCols + t.numCols),
        leakRows := i, leakCols := if i = 0 then 0 else t.numCols,
        finalRows := t.numRows - 1, finalCols := if t.numRows - 1 = 0 then 0 else t.numCols } := by
  have hend := ow_row_end_le t h i hi
  have hw := h.word
  have e1 : umul m i t.numCols = .ok (i * t.numCols) := umul_ok m _ _ (by omega)
  have e2 : usub m t.numRows 1 = .ok (t.numRows - 1) := usub_ok m _ _ (by omega)
  have e3 : uadd m (i * t.numCols) t.numCols = .ok (i * t.numCols + t.numCols) := uadd_ok m _ _ (by omega)
  have hcond : i * t.numCols ≤ i * t.numCols + t.numCols ∧ i * t.numCols + t.numCols ≤ t.data.length :=
    ⟨by omega, by omega⟩
  unfold TD.removeRow
  rw [if_neg (by simpa using hi)]
  simp only [pure_eq, ok_bind, e1, e2, e3]
  rw [if_neg (by simpa using hcond), Nat.add_sub_cancel_left]

/-- the buffer is the cells before row `i`, row `i`, and the cells after it -/
theorem ow_data_split_row (data : List α) (s c : Nat) :
    data = data.take s ++ (data.drop s).take c ++ data.drop (s + c) := by
  rw [List.append_assoc, ← List.drop_drop, List.take_append_drop, List.take_append_drop]

/-- the array a leaked row drain leaves behind -/
theorem ow_leak_row_inv (t : TD α) (h : t.Inv) (i : Nat) (hi : i ≤ t.numRows) :
    (⟨t.data.take (i * t.numCols), i, if i = 0 then 0 else t.numCols⟩ : TD α).Inv := by
  have hend : i * t.numCols ≤ t.data.length := by
    rw [h.len, Nat.mul_comm t.numCols]
    exact Nat.mul_le_mul_right _ hi
  have hw := h.word
  have hz := h.zero
  refine ⟨?_, ?_, ?_⟩
  · show (t.data.take (i * t.numCols)).length = (if i = 0 then 0 else t.numCols) * i
    rw [List.length_take, Nat.min_eq_left (by omega)]
    by_cases h0 : i = 0
    · simp [h0]
    · rw [if_neg h0, Nat.mul_comm]
  · show (if i = 0 then 0 else t.numCols) = 0 ↔ i = 0
    by_cases h0 : i = 0
    · simp [h0]
    · rw [if_neg h0]
      omega
  · show (t.data.take (i * t.numCols)).length < WORD
    rw [List.length_take]
    omega

/-! ### leaking a column drain -/

theorem ow_zipIdx_map_snd (l : List α) : l.zipIdx.map (·.2) = List.range l.length := by
  apply List.ext_getElem
  · simp
  · intro i h1 h2
    simp

theorem ow_leak_col_conserves (buf : List α) (taken : List Nat) (hnd : taken.Nodup) (hin : ∀ p ∈ taken, p < buf.length) :
    ((buf.zipIdx.filter fun xi => !taken.contains xi.2).map (·.1) ++ taken.filterMap (buf[·]?)).Perm buf := by
  -- the cells at the taken positions, in buffer order
  let F := buf.zipIdx.filter fun xi => taken.contains xi.2
  have hidx : F.map (·.2) = (List.range buf.length).filter (taken.contains ·) := by
    rw [← ow_zipIdx_map_snd, List.filter_map]
    rfl
  have hperm : (F.map (·.2)).Perm taken := by
    rw [hidx]
    apply (List.perm_ext_iff_of_nodup (List.nodup_range.filter _) hnd).2
    intro p
    simp only [List.mem_filter, List.mem_range, List.contains_iff_mem]
    exact ⟨fun hp => hp.2, fun hp => ⟨hin p hp, hp⟩⟩
  have hval : F.map (·.1) = (F.map (·.2)).filterMap (buf[·]?) := by
    rw [List.filterMap_map, ← List.filterMap_eq_map]
    apply filterMap_congr_mem
    intro xi hxi
    have hm : xi ∈ buf.zipIdx := (List.mem_filter.1 hxi).1
    obtain ⟨x, k⟩ := xi
    have := List.mem_zipIdx hm
    simp only [Function.comp]
    simp at this
    obtain ⟨hk, hx⟩ := this
    simp [← hx, hk]
  have h1 : ((buf.zipIdx.filter fun xi => !taken.contains xi.2) ++ F).Perm buf.zipIdx := by
    have := List.filter_append_perm (fun xi : α × Nat => taken.contains xi.2) buf.zipIdx
    exact List.perm_append_comm.trans this
  have h2 := h1.map (·.1)
  rw [List.map_append, hval] at h2
  have h3 : (buf.zipIdx.map (·.1)) = buf := by
    apply List.ext_getElem <;> simp
  rw [h3] at h2
  exact (List.Perm.append_left _ (hperm.filterMap _).symm).trans h2

/-! ### remove_col: the column's cells as a list -/

theorem ow_col_cells (t : TD α) (h : t.Inv) (i : Nat) (hi : i < t.numCols) :
    (List.range t.numRows).filterMap (fun r => t.data[t.pos i r]?) = t.grid.filterMap (·[i]?) := by
  have hR : t.data.length / t.numCols = t.numRows := by
    rw [h.len]; exact Nat.mul_div_cancel_left _ (by omega)
  unfold TD.grid toRows
  rw [List.filterMap_map, hR]
  apply filterMap_congr_mem
  intro r _
  simp only [Function.comp, TD.pos, List.getElem?_take, hi, if_true, List.getElem?_drop]

end Toodee

namespace Toodee
variable {α : Type}

/-! ### insert_row with an arbitrary iterator script -/

/-- the fill loop on an arbitrary event list: some prefix `xs` of the junk block is overwritten, the loop ends normally
    (block full) or with a panic (script ended or panicked); never `ub` -/
theorem ow_fillLoop_gen : ∀ (k : Nat) (ev : List (Option α)) (X J Y : List α), J.length = k →
    ∃ (xs J' : List α) (ev' : List (Option α)) (err : Option Err),
      fillLoop k ev (X ++ J ++ Y) X.length = (X ++ xs ++ J' ++ Y, ev', xs.length, err) ∧
      xs.length + J'.length = k ∧ ev.filterMap id = xs ++ ev'.filterMap id ∧
      (err = none ∨ err = some .panic) ∧ (err = none → J' = [])
  | 0, ev, X, J, Y, hJ => by
    have : J = [] := List.eq_nil_of_length_eq_zero hJ
    subst this
    exact ⟨[], [], ev, none, by simp [fillLoop], rfl, by simp, Or.inl rfl, fun _ => rfl⟩
  | k + 1, [], X, J, Y, hJ =>
    ⟨[], J, [], some .panic, by simp [fillLoop], by simpa using hJ, by simp, Or.inr rfl, fun h => by cases h⟩
  | k + 1, none :: ev, X, J, Y, hJ =>
    ⟨[], J, ev, some .panic, by simp [fillLoop], by simpa using hJ, by simp, Or.inr rfl, fun h => by cases h⟩
  | k + 1, some e :: ev, X, J, Y, hJ => by
    match J, hJ with
    | j :: J0, hJ =>
      have hlt : X.length < (X ++ j :: J0 ++ Y).length := by simp
      have hset : (X ++ j :: J0 ++ Y).set X.length e = (X ++ [e]) ++ J0 ++ Y := by simp
      have hl : X.length + 1 = (X ++ [e]).length := by simp
      obtain ⟨xs, J', ev', err, hf, hlen, hit, herr, hJ'⟩ := ow_fillLoop_gen k ev (X ++ [e]) J0 Y (by simpa using hJ)
      refine ⟨e :: xs, J', ev', err, ?_, by simp; omega, by simp [hit], herr, hJ'⟩
      simp only [fillLoop, if_pos hlt]
      rw [hset, hl, hf]
      simp

end Toodee

namespace Toodee
variable {α : Type}

/-- a permutation goal between concatenations: compare element counts -/
theorem ow_perm_of_count [DecidableEq α] {l₁ l₂ : List α} (h : ∀ a, l₁.count a = l₂.count a) : l₁.Perm l₂ :=
  List.perm_iff_count.2 h

theorem ow_insertRow_any (m : Mode) (cap : Nat) (t : TD α) (h : t.Inv) (i : Nat) (it : IterScript α) (spare : List α)
    (hsp : it.claimed ≤ spare.length ∨ ¬ reserveOk cap t.data.length (if t.numRows = 0 then it.claimed else t.numCols))
    (hcapw : cap < WORD) :
    (t.insertRow m cap i it spare).res ≠ .error .ub ∧ (t.insertRow m cap i it spare).res ≠ .error .fuel ∧
    (t.insertRow m cap i it spare).t.Inv ∧
    ((t.insertRow m cap i it spare).t.data ++ (t.insertRow m cap i it spare).leaked
        ++ (t.insertRow m cap i it spare).rest.filterMap id).Perm (t.data ++ it.events.filterMap id) := by
  classical
  have hd := h.len
  have hw := h.word
  have hz := h.zero
  unfold TD.insertRow
  by_cases hi : i ≤ t.numRows
  case neg =>
    rw [if_pos hi]
    exact ⟨by simp, by simp, h, by simp⟩
  rw [if_neg (by simpa using hi)]
  by_cases hlenOk : (t.numRows == 0 || t.numCols == it.claimed) = true
  case neg =>
    simp only [hlenOk]
    exact ⟨by simp, by simp, h, by simp⟩
  simp only [hlenOk, Bool.not_true, Bool.false_eq_true, if_false]
  generalize hN : (if t.numRows = 0 then it.claimed else t.numCols) = N at hsp ⊢
  by_cases hres : reserveOk cap t.data.length N = true
  case neg =>
    simp only [hres]
    exact ⟨by simp, by simp, h, by simp⟩
  simp only [hres, Bool.not_true, Bool.false_eq_true, if_false]
  have hNc : N = it.claimed := by
    by_cases h0 : t.numRows = 0
    · rw [← hN, if_pos h0]
    · rw [← hN, if_neg h0]
      simpa [h0] using hlenOk
  have hspn : ¬ spare.length < N := by
    rcases hsp with h1 | h1
    · omega
    · exact absurd hres h1
  rw [if_neg hspn]
  have hcapN : t.data.length + N ≤ cap := by simpa [reserveOk] using hres
  have hs : i * N = i * t.numCols := by
    by_cases h0 : t.numRows = 0
    · have : i = 0 := by omega
      simp [this]
    · rw [← hN, if_neg h0]
  have hsle : i * t.numCols ≤ t.data.length := by
    rw [hd, Nat.mul_comm t.numCols]
    exact Nat.mul_le_mul_right _ hi
  have hmul : umul m i N = .ok (i * t.numCols) := by
    rw [← hs]; apply umul_ok; rw [hs]; omega
  simp only [hmul]
  rw [if_neg (by simpa using hsle)]
  let A := t.data.take (i * t.numCols)
  let T := t.data.drop (i * t.numCols)
  let J := spare.take N
  let Y := spare.drop N
  have hA : A.length = i * t.numCols := by simp [A]; omega
  have hT : T.length = t.data.length - i * t.numCols := by simp [T]
  have hJ : J.length = N := by simp [J]; omega
  have hAT : t.data = A ++ T := (List.take_append_drop _ _).symm
  have hbuf : t.data ++ spare = A ++ T ++ J ++ Y := by simp [A, T, J, Y]
  obtain ⟨J', hJ', hmv⟩ := memmoveChecked_right A T J Y
  rw [hA, hJ, hT, ← hbuf] at hmv
  obtain ⟨xs, J2, ev', err, hfill, hlen2, hitems, herr, hfull⟩ := ow_fillLoop_gen N it.events A J' (T ++ Y) (by omega)
  rw [hA, ← List.append_assoc] at hfill
  simp only [hmv, hfill]
  have hleak : ((A ++ xs ++ J2 ++ (T ++ Y)).drop (i * t.numCols)).take xs.length = xs := by
    rw [← hA]
    simp
  have hpI : (⟨A, i, if i = 0 then 0 else t.numCols⟩ : TD α).Inv := ow_leak_row_inv t h i hi
  rw [hleak]
  have hpermFail : ∀ rest : List α, rest.Perm (ev'.filterMap id) →
      (A ++ (xs ++ T) ++ rest).Perm (t.data ++ it.events.filterMap id) := by
    intro rest hr
    refine (List.Perm.append_left _ hr).trans ?_
    rw [hitems, hAT]
    apply ow_perm_of_count
    intro a
    simp only [List.count_append]
    omega
  rcases herr with rfl | rfl
  · -- the fill loop completed
    have hJ2 : J2 = [] := hfull rfl
    subst hJ2
    have hxs : xs.length = N := by simpa using hlen2
    have htake : List.take (t.data.length + N) (A ++ xs ++ [] ++ (T ++ Y)) = A ++ xs ++ T := by
      rw [show A ++ xs ++ [] ++ (T ++ Y) = (A ++ xs ++ T) ++ Y by simp]
      apply List.take_left'
      simp only [List.length_append, hA, hT]; omega
    have hok : (⟨A ++ xs ++ T, if N > 0 then t.numRows + 1 else t.numRows, N⟩ : TD α).Inv ∧
        (A ++ xs ++ T ++ [] ++ ev'.filterMap id).Perm (t.data ++ it.events.filterMap id) := by
      refine ⟨⟨?_, ?_, ?_⟩, ?_⟩
      · show (A ++ xs ++ T).length = N * (if N > 0 then t.numRows + 1 else t.numRows)
        simp only [List.length_append, hA, hT, hxs]
        by_cases hN0 : N = 0
        · have hR : t.data.length = 0 := by
            by_cases h0 : t.numRows = 0
            · rw [hd, h0, Nat.mul_zero]
            · rw [← hN, if_neg h0] at hN0
              rw [hd, hN0, Nat.zero_mul]
          simp [hN0]; omega
        · rw [if_pos (Nat.pos_of_ne_zero hN0), Nat.mul_add, Nat.mul_one]
          by_cases h0 : t.numRows = 0
          · rw [h0, Nat.mul_zero] at hd ⊢; omega
          · rw [← hN, if_neg h0, ← hd]; omega
      · show N = 0 ↔ (if N > 0 then t.numRows + 1 else t.numRows) = 0
        by_cases hN0 : N = 0
        · have hR : t.numRows = 0 := by
            by_cases h0 : t.numRows = 0
            · exact h0
            · rw [← hN, if_neg h0] at hN0
              exact hz.1 hN0
          simp [hN0, hR]
        · simp [hN0, Nat.pos_of_ne_zero hN0]
      · show (A ++ xs ++ T).length < WORD
        simp only [List.length_append, hA, hT, hxs]
        omega
      · rw [hitems, hAT]
        apply ow_perm_of_count
        intro a
        simp only [List.count_append, List.count_nil]
        omega
    cases m with
    | release =>
      simp only [debugExhausted, htake]
      exact ⟨by simp, by simp, hok.1, hok.2⟩
    | debug =>
      match ev' with
      | [] =>
        simp only [debugExhausted, htake]
        exact ⟨by simp, by simp, hok.1, hok.2⟩
      | none :: ev2 =>
        simp only [debugExhausted]
        exact ⟨by simp, by simp, hpI, hpermFail _ (by simp)⟩
      | some x :: ev2 =>
        simp only [debugExhausted]
        refine ⟨by simp, by simp, hpI, hpermFail _ ?_⟩
        simp only [List.filterMap_append, List.map_cons, List.map_nil, List.filterMap_cons, id, List.filterMap_nil]
        exact List.perm_append_comm
  · exact ⟨by simp, by simp, hpI, hpermFail _ (List.Perm.refl _)⟩

end Toodee

namespace Toodee
variable {α : Type}

/-! ### insert_col with an arbitrary iterator script -/

theorem ow_memmove_length (buf : List α) (src dst n : Nat) (h1 : src + n ≤ buf.length) (h2 : dst + n ≤ buf.length) :
    (memmove buf src dst n).length = buf.length := by
  simp only [memmove, List.length_append, List.length_take, List.length_drop]
  omega

theorem ow_memmoveChecked_ok (buf : List α) (src dst n : Nat) (h1 : src + n ≤ buf.length) (h2 : dst + n ≤ buf.length) :
    ∃ b, memmoveChecked buf src dst n = .ok b ∧ b.length = buf.length :=
  ⟨memmove buf src dst n, by unfold memmoveChecked; rw [if_pos ⟨h1, h2⟩]; rfl, ow_memmove_length buf src dst n h1 h2⟩

theorem ow_ptrWrite_ok (buf : List α) (p : Nat) (x : α) (h : p < buf.length) :
    ∃ b, ptrWrite buf p x = .ok b ∧ b.length = buf.length :=
  ⟨buf.set p x, by unfold ptrWrite; rw [if_pos h]; rfl, by simp⟩

/-- events not consumed by a loop that ended normally can be anything: they are handed on unchanged -/
theorem ow_insColLoop_append (C : Nat) : ∀ (k : Nat) (ev rem : List (Option α)) (buf : List α) (rp wp : Nat)
    (b : List α) (ev' : List (Option α)) (rp' wp' n : Nat),
    insColLoop C k ev buf rp wp = (b, ev', rp', wp', n, none) →
    insColLoop C k (ev ++ rem) buf rp wp = (b, ev' ++ rem, rp', wp', n, none)
  | 0, ev, rem, buf, rp, wp, b, ev', rp', wp', n, h => by
    simp only [insColLoop, Prod.mk.injEq] at h ⊢
    obtain ⟨h1, h2, h3, h4, h5, _⟩ := h
    subst h1 h2 h3 h4 h5
    simp
  | k + 1, ev, rem, buf, rp, wp, b, ev', rp', wp', n, h => by
    simp only [insColLoop] at h ⊢
    by_cases hc : rp < C ∨ wp < C
    · rw [if_pos hc] at h; simp at h
    · rw [if_neg hc] at h ⊢
      cases hmv : memmoveChecked buf (rp - C) (wp - C) C with
      | error e => rw [hmv] at h; simp at h
      | ok buf1 =>
        rw [hmv] at h
        simp only at h ⊢
        by_cases hw : wp - C < 1
        · rw [if_pos hw] at h; simp at h
        · rw [if_neg hw] at h ⊢
          match ev, h with
          | [], h => simp at h
          | none :: ev0, h => simp at h
          | some x :: ev0, h =>
            simp only [List.cons_append] at h ⊢
            cases hpw : ptrWrite buf1 (wp - C - 1) x with
            | error e => rw [hpw] at h; simp at h
            | ok buf2 =>
              rw [hpw] at h
              simp only at h ⊢
              rcases hr : insColLoop C k ev0 buf2 (rp - C) (wp - C - 1) with ⟨b1, e1, r1, w1, n1, err1⟩
              rw [hr] at h
              simp only [Prod.mk.injEq] at h
              obtain ⟨h1, h2, h3, h4, h5, h6⟩ := h
              subst h1 h2 h3 h4 h5 h6
              rw [ow_insColLoop_append C k ev0 rem buf2 (rp - C) (wp - C - 1) _ _ _ _ _ hr]

/-- a script that ends (or panics) before the loop is done: the loop panics; never `ub` -/
theorem ow_insColLoop_short (C : Nat) : ∀ (k : Nat) (ys : List α) (tail : List (Option α)) (buf : List α) (rp wp : Nat),
    ys.length < k → (tail = [] ∨ ∃ tl, tail = none :: tl) →
    k * C ≤ rp → k * C + k ≤ wp → rp ≤ buf.length → wp ≤ buf.length →
    ∃ b ev' rp' wp' n, insColLoop C k (ys.map some ++ tail) buf rp wp = (b, ev', rp', wp', n, some .panic) ∧
      ∃ pre, ys.map some ++ tail = pre ++ ev'
  | 0, ys, tail, buf, rp, wp, hy, _, _, _, _, _ => by omega
  | k + 1, ys, tail, buf, rp, wp, hy, ht, h1, h2, h3, h4 => by
    rw [Nat.add_mul] at h1 h2
    have hc : ¬ (rp < C ∨ wp < C) := by omega
    obtain ⟨buf1, hmv, hl1⟩ := ow_memmoveChecked_ok buf (rp - C) (wp - C) C (by omega) (by omega)
    have hw : ¬ (wp - C < 1) := by omega
    simp only [insColLoop, if_neg hc, hmv, if_neg hw]
    match ys, hy with
    | [], _ =>
      rcases ht with rfl | ⟨tl, rfl⟩
      · exact ⟨_, _, _, _, _, rfl, [], rfl⟩
      · exact ⟨_, _, _, _, _, rfl, [none], rfl⟩
    | y :: ys0, hy =>
      obtain ⟨buf2, hpw, hl2⟩ := ow_ptrWrite_ok buf1 (wp - C - 1) y (by omega)
      obtain ⟨b, ev', rp', wp', n, hr, pre, hpre⟩ := ow_insColLoop_short C k ys0 tail buf2 (rp - C) (wp - C - 1)
        (by simpa using hy) ht (by omega) (by omega) (by omega) (by omega)
      simp only [List.map_cons, List.cons_append, hpw, hr]
      exact ⟨_, _, _, _, _, rfl, some y :: pre, by rw [hpre]; rfl⟩

/-- an event list either starts with `R` items, or with fewer items followed by the end of the script or a panic -/
theorem ow_events_split : ∀ (R : Nat) (ev : List (Option α)),
    (∃ (ys : List α) (rem : List (Option α)), ys.length = R ∧ ev = ys.map some ++ rem) ∨
    (∃ (ys : List α) (tail : List (Option α)), ys.length < R ∧ ev = ys.map some ++ tail ∧ (tail = [] ∨ ∃ tl, tail = none :: tl))
  | 0, ev => Or.inl ⟨[], ev, rfl, rfl⟩
  | R + 1, [] => Or.inr ⟨[], [], by simp, rfl, Or.inl rfl⟩
  | R + 1, none :: ev => Or.inr ⟨[], none :: ev, by simp, rfl, Or.inr ⟨ev, rfl⟩⟩
  | R + 1, some y :: ev => by
    rcases ow_events_split R ev with ⟨ys, rem, h1, h2⟩ | ⟨ys, tail, h1, h2, h3⟩
    · exact Or.inl ⟨y :: ys, rem, by simp [h1], by simp [h2]⟩
    · exact Or.inr ⟨y :: ys, tail, by simp; omega, by simp [h2], h3⟩


/-- what the end of `insert_col`'s critical section does with the events the loop did not consume -/
def ow_critTail (m : Mode) (b : List α) (rem : List (Option α)) : Res (List α) × List (Option α) :=
  let (ev, err, droppedItem) := debugExhausted m rem
  match err with
  | some e => (throw e, droppedItem.map some ++ ev)
  | none => (pure b, ev)

/-- `insertColCrit_spec` with unconsumed events `rem` behind the `|rows|` items -/
theorem ow_insertColCrit_full (m : Mode) (C i : Nat) (hi : i ≤ C) (rows : List (List α)) (xs spare : List α)
    (rem : List (Option α))
    (hrows : ∀ r ∈ rows, r.length = C) (hx : xs.length = rows.length) (hsp : xs.length ≤ spare.length) :
    insertColCrit m C xs.length i rows.flatten.length (rows.flatten.length + xs.length) (C - i)
        (rows.flatten ++ spare) ((xs.map some).reverse ++ rem)
      = ow_critTail m ((List.zipWith (insAt i) rows xs).flatten ++ spare.drop xs.length) rem := by
  rcases List.eq_nil_or_concat rows with rfl | ⟨pre, ρ, rfl⟩
  · have : xs = [] := by simpa using hx
    subst this
    rcases hde : debugExhausted m rem with ⟨ev2, _ | e2, d2⟩ <;> simp [insertColCrit, ow_critTail, hde]
  · rcases List.eq_nil_or_concat xs with rfl | ⟨xs', x, rfl⟩
    · simp at hx
    · simp only [List.concat_eq_append] at *
      have hρ : ρ.length = C := hrows ρ (by simp)
      have hpre : ∀ r ∈ pre, r.length = C := fun r hr => hrows r (by simp [hr])
      have hxs : xs'.length = pre.length := by simpa using hx
      have hflat : pre.flatten.length = pre.length * C := flatten_length_uniform C pre hpre
      have hlenAll : (pre ++ [ρ]).flatten.length = pre.length * C + C := by
        simp [List.flatten_append, hflat, hρ]
      have hxl : (xs' ++ [x]).length = pre.length + 1 := by simp [hxs]
      let X := pre.flatten ++ ρ.take i
      let blk := ρ.drop i
      let J := spare.take (pre.length + 1)
      let Y := spare.drop (pre.length + 1)
      have hX : X.length = pre.length * C + i := by simp [X, hflat, hρ]; omega
      have hblk : blk.length = C - i := by simp [blk, hρ]
      have hJ : J.length = pre.length + 1 := by simp [J]; omega
      have hbuf : (pre ++ [ρ]).flatten ++ spare = X ++ blk ++ J ++ Y := by
        simp [X, blk, J, Y, List.flatten_append]
      obtain ⟨J1, hJ1, hmv⟩ := memmoveChecked_right X blk J Y
      obtain ⟨J2, hJ2, hset⟩ := ptrWrite_last_of_junk X J1 (blk ++ Y) x (by rw [hJ1, hJ]; simp)
      have hloop0 := insColLoop_spec C i hi pre.reverse xs'.reverse ρ J2 ([x] ++ blk) Y
        (by simpa using hpre) hρ (by simpa using hxs) (by simp; omega)
      have hloop := ow_insColLoop_append C _ _ rem _ _ _ _ _ _ _ _ hloop0
      simp only [List.reverse_reverse, List.length_reverse, List.nil_append] at hloop
      have e0 : ¬ (pre.length * C + C < C - i ∨ pre.length * C + C + (pre.length + 1) < C - i) := by omega
      have e1 : pre.length * C + C - (C - i) = X.length := by rw [hX]; omega
      have e2 : pre.length * C + C + (pre.length + 1) - (C - i) = X.length + J.length := by rw [hX, hJ]; omega
      have e3 : ¬ (X.length + J.length < 1) := by omega
      have hmv' : memmoveChecked (X ++ blk ++ J ++ Y) X.length (X.length + J.length) (C - i)
          = .ok (X ++ J1 ++ blk ++ Y) := by
        rw [← hblk]; exact hmv
      have e4 : X.length + J.length - 1 = X.length + pre.length := by rw [hJ]; omega
      have hset' : ptrWrite (X ++ J1 ++ blk ++ Y) (X.length + pre.length) x
          = .ok (pre.flatten ++ ρ.take i ++ J2 ++ ([x] ++ blk) ++ Y) := by
        rw [← e4, ← hJ1, show X ++ J1 ++ blk ++ Y = X ++ J1 ++ (blk ++ Y) by simp, hset]
        simp [X]
      have e5 : pre.length + 1 - 1 = pre.length := by omega
      rw [← hX] at hloop
      have hev : (List.map some (xs' ++ [x])).reverse ++ rem = some x :: (xs'.reverse.map some ++ rem) := by simp
      have e6 : ¬ (i < i ∨ i < i) := by omega
      have hpos : pre.length + 1 > 0 := by omega
      have hfin : memmoveChecked ((List.zipWith (insAt i) pre xs').flatten ++ ρ.take i ++ ([x] ++ blk) ++ Y) (i - i) (i - i) i
          = .ok ((List.zipWith (insAt i) pre xs').flatten ++ ρ.take i ++ ([x] ++ blk) ++ Y) := by
        apply memmoveChecked_self
        simp [hρ]; omega
      unfold insertColCrit
      simp only [hxl, hlenAll, if_pos hpos, if_neg e0, e1, e2, hbuf, hmv', if_neg e3, hev, hset', e4, e5, hloop,
        if_neg e6, hfin]
      have hz : List.zipWith (insAt i) (pre ++ [ρ]) (xs' ++ [x])
          = List.zipWith (insAt i) pre xs' ++ [insAt i ρ x] := by
        rw [List.zipWith_append (by simp [hxs])]
        simp
      rw [hz]
      rcases hde : debugExhausted m rem with ⟨ev2, _ | e2, d2⟩ <;>
        simp [ow_critTail, hde, insAt, blk, Y, List.flatten_append]


/-- a script that ends or panics before one item per row was pulled: the critical section panics; never `ub` -/
theorem ow_insertColCrit_short (m : Mode) (C R i oldLen : Nat) (buf : List α) (ys : List α) (tail : List (Option α))
    (hi : i ≤ C) (hold : oldLen = R * C) (hbuf : oldLen + R ≤ buf.length)
    (hy : ys.length < R) (ht : tail = [] ∨ ∃ tl, tail = none :: tl) :
    ∃ rem, insertColCrit m C R i oldLen (oldLen + R) (C - i) buf (ys.map some ++ tail) = (.error .panic, rem) ∧
      ∃ pre, ys.map some ++ tail = pre ++ rem := by
  obtain ⟨R', rfl⟩ : ∃ R', R = R' + 1 := ⟨R - 1, by omega⟩
  rw [Nat.add_mul, Nat.one_mul] at hold
  have hpos : R' + 1 > 0 := by omega
  have e0 : ¬ (oldLen < C - i ∨ oldLen + (R' + 1) < C - i) := by omega
  obtain ⟨buf1, hmv, hl1⟩ := ow_memmoveChecked_ok buf (oldLen - (C - i)) (oldLen + (R' + 1) - (C - i)) (C - i)
    (by omega) (by omega)
  have hw : ¬ (oldLen + (R' + 1) - (C - i) < 1) := by omega
  unfold insertColCrit
  simp only [if_pos hpos, if_neg e0, hmv, if_neg hw]
  match ys, hy with
  | [], _ =>
    rcases ht with rfl | ⟨tl, rfl⟩
    · exact ⟨_, rfl, [], rfl⟩
    · exact ⟨_, rfl, [none], rfl⟩
  | y :: ys0, hy =>
    obtain ⟨buf2, hpw, hl2⟩ := ow_ptrWrite_ok buf1 (oldLen + (R' + 1) - (C - i) - 1) y (by omega)
    obtain ⟨b, ev', rp', wp', n, hr, pre, hpre⟩ := ow_insColLoop_short C R' ys0 tail buf2 (oldLen - (C - i))
      (oldLen + (R' + 1) - (C - i) - 1) (by simpa using hy) ht (by omega) (by omega) (by omega) (by omega)
    simp only [List.map_cons, List.cons_append, hpw, Nat.add_sub_cancel, hr]
    exact ⟨_, rfl, some y :: pre, by rw [hpre]; rfl⟩

/-- the critical section of `insert_col` for an arbitrary script: it panics, or it pulled exactly one item per row and the
    result is that of the honest run; the events left are a suffix of the script; never `ub` -/
theorem ow_insertColCrit_any (m : Mode) (C i : Nat) (hi : i ≤ C) (rows : List (List α)) (spare : List α)
    (ev : List (Option α)) (hrows : ∀ r ∈ rows, r.length = C) (hsp : rows.length ≤ spare.length) :
    ∃ r rem pre, insertColCrit m C rows.length i rows.flatten.length (rows.flatten.length + rows.length) (C - i)
        (rows.flatten ++ spare) ev = (r, rem) ∧ ev = pre ++ rem ∧
      (r = .error .panic ∨ ∃ xs : List α, xs.length = rows.length ∧ pre = (xs.map some).reverse ∧
        r = .ok ((List.zipWith (insAt i) rows xs).flatten ++ spare.drop rows.length)) := by
  rcases ow_events_split rows.length ev with ⟨ys, rem, h1, rfl⟩ | ⟨ys, tail, h1, rfl, h3⟩
  · have hfull := ow_insertColCrit_full m C i hi rows ys.reverse spare rem hrows (by simpa using h1) (by simpa [h1] using hsp)
    simp only [List.length_reverse, h1, List.map_reverse, List.reverse_reverse] at hfull
    rw [hfull]
    unfold ow_critTail
    cases m with
    | release =>
      exact ⟨_, _, _, rfl, rfl, Or.inr ⟨ys.reverse, by simpa using h1, by simp, rfl⟩⟩
    | debug =>
      match rem with
      | [] => exact ⟨_, _, ys.map some, rfl, rfl, Or.inr ⟨ys.reverse, by simpa using h1, by simp, rfl⟩⟩
      | none :: rem' => exact ⟨_, _, ys.map some ++ [none], rfl, by simp, Or.inl rfl⟩
      | some x :: rem' => exact ⟨_, _, ys.map some, rfl, by simp, Or.inl rfl⟩
  · obtain ⟨rem, hc, pre, hpre⟩ := ow_insertColCrit_short m C rows.length i rows.flatten.length (rows.flatten ++ spare)
      ys tail hi (flatten_length_uniform C rows hrows) (by simp; omega) h1 h3
    exact ⟨_, rem, pre, hc, hpre, Or.inl rfl⟩


theorem ow_pulled_eq (pre rem : List (Option α)) : pulled (pre ++ rem) rem = pre.filterMap id := by
  unfold pulled
  rw [List.length_append, Nat.add_sub_cancel, List.take_left' rfl]

theorem ow_insertCol_any (m : Mode) (cap : Nat) (t : TD α) (h : t.Inv) (i : Nat) (it : IterScript α) (spare : List α)
    (hsp : it.claimed ≤ spare.length ∨ ¬ reserveOk cap t.data.length (if t.numCols = 0 then it.claimed else t.numRows))
    (hcapw : cap < WORD) :
    (t.insertCol m cap i it spare).res ≠ .error .ub ∧ (t.insertCol m cap i it spare).res ≠ .error .fuel ∧
    (t.insertCol m cap i it spare).t.Inv ∧
    ((t.insertCol m cap i it spare).t.data ++ (t.insertCol m cap i it spare).leaked
        ++ (t.insertCol m cap i it spare).rest.filterMap id).Perm (t.data ++ it.events.filterMap id) := by
  classical
  have hd := h.len
  have hw := h.word
  have hz := h.zero
  have hword0 : (0 : Nat) < WORD := by unfold WORD; omega
  have hempty : (⟨[], 0, 0⟩ : TD α).Inv := ⟨rfl, Iff.rfl, hword0⟩
  unfold TD.insertCol
  by_cases hi : i ≤ t.numCols
  case neg =>
    rw [if_pos hi]
    exact ⟨by simp, by simp, h, by simp⟩
  rw [if_neg (by simpa using hi)]
  by_cases hlenOk : (t.numCols == 0 || t.numRows == it.claimed) = true
  case neg =>
    simp only [hlenOk]
    exact ⟨by simp, by simp, h, by simp⟩
  simp only [hlenOk, Bool.not_true, Bool.false_eq_true, if_false]
  generalize hN : (if t.numCols = 0 then it.claimed else t.numRows) = R at hsp ⊢
  by_cases hres : reserveOk cap t.data.length R = true
  case neg =>
    simp only [hres]
    exact ⟨by simp, by simp, h, by simp⟩
  simp only [hres, Bool.not_true, Bool.false_eq_true, if_false]
  have hRc : R = it.claimed := by
    by_cases h0 : t.numCols = 0
    · rw [← hN, if_pos h0]
    · rw [← hN, if_neg h0]
      simpa [h0] using hlenOk
  have hspn : ¬ spare.length < R := by
    rcases hsp with h1 | h1
    · omega
    · exact absurd hres h1
  rw [if_neg hspn]
  have hcapR : t.data.length + R ≤ cap := by simpa [reserveOk] using hres
  have hadd : uadd m t.data.length R = .ok (t.data.length + R) := uadd_ok m _ _ (by omega)
  have hsub : usub m t.numCols i = .ok (t.numCols - i) := usub_ok m _ _ hi
  simp only [hadd, hsub]
  -- the rows the buffer is made of (an array without columns: one empty row per item)
  obtain ⟨rows, hrows, hdata, hrl⟩ : ∃ rows : List (List α), (∀ r ∈ rows, r.length = t.numCols) ∧
      t.data = rows.flatten ∧ rows.length = R := by
    by_cases hc : t.numCols = 0
    · refine ⟨List.replicate R [], ?_, ?_, by simp⟩
      · intro r hr
        rw [List.eq_of_mem_replicate hr, hc]; rfl
      · rw [List.flatten_replicate_nil]
        apply List.eq_nil_of_length_eq_zero
        rw [hd, hc, Nat.zero_mul]
    · refine ⟨t.grid, t.grid_row_length, h.data_eq_flatten_grid, ?_⟩
      rw [h.grid_length, ← hN, if_neg hc]
  have hlenR : t.data.length = t.numCols * R := by
    rw [hd]
    by_cases hc : t.numCols = 0
    · rw [hc, Nat.zero_mul, Nat.zero_mul]
    · rw [← hN, if_neg hc]
  obtain ⟨r, rem, pre, hcrit, hev, hr⟩ := ow_insertColCrit_any m t.numCols i hi rows spare it.events.reverse hrows
    (by omega)
  rw [← hdata, hrl] at hcrit
  have hevents : it.events = rem.reverse ++ pre.reverse := by
    have := congrArg List.reverse hev
    simpa using this
  rw [hcrit]
  rcases hr with rfl | ⟨xs, hxl, hpre, rfl⟩
  · -- panic inside the critical section: everything is leaked
    simp only
    refine ⟨by simp, by simp, hempty, ?_⟩
    rw [hev, ow_pulled_eq, hevents]
    apply ow_perm_of_count
    intro a
    simp only [List.count_append, List.filterMap_append, List.filterMap_reverse, List.count_reverse, List.count_nil]
    omega
  · -- one item per row was pulled
    have hZ := zipWith_insAt_flatten_length t.numCols i hi rows xs hrows (by omega)
    rw [← hdata, hxl, hrl] at hZ
    have htake : List.take (t.data.length + R) ((List.zipWith (insAt i) rows xs).flatten ++ spare.drop R)
        = (List.zipWith (insAt i) rows xs).flatten := List.take_left' hZ
    have hperm : ((List.zipWith (insAt i) rows xs).flatten ++ [] ++ rem.reverse.filterMap id).Perm
        (t.data ++ it.events.filterMap id) := by
      have hp := ow_zipWith_insAt_perm i rows xs (by omega)
      rw [← hdata] at hp
      refine (List.Perm.append_right _ (List.Perm.append_right _ hp)).trans ?_
      rw [hevents, hpre]
      apply ow_perm_of_count
      intro a
      simp only [List.count_append, List.filterMap_append, List.filterMap_reverse, List.count_reverse, List.count_nil,
        List.reverse_reverse, List.filterMap_map, Function.comp_def, id, List.filterMap_some]
      omega
    rw [hrl]
    simp only [htake]
    generalize (List.zipWith (insAt i) rows xs).flatten = Z at hZ hperm ⊢
    by_cases hR0 : R > 0
    · rw [if_pos hR0]
      refine ⟨by simp, by simp, ⟨?_, ?_, ?_⟩, hperm⟩
      · show Z.length = (t.numCols + 1) * R
        rw [Nat.add_mul]; omega
      · show t.numCols + 1 = 0 ↔ R = 0
        omega
      · show Z.length < WORD
        omega
    · rw [if_neg hR0]
      have hR : R = 0 := by omega
      refine ⟨by simp, by simp, ⟨?_, Iff.rfl, ?_⟩, hperm⟩
      · show Z.length = 0 * 0
        rw [hR, Nat.mul_zero] at hlenR
        omega
      · show Z.length < WORD
        omega

end Toodee

namespace Toodee
variable {α : Type}

/-! ### `Drop for DrainCol` with a panicking element destructor -/

/-- the outcome of `DrainCol::drop` (C07_remove_col_drop) as an equation -/
theorem ow_drainCol_drop_eq (m : Mode) (t : TD α) (h : t.Inv) (i : Nat) (hi : i < t.numCols)
    (d : DrainCol α) (hb : d.buf = t.data) (hc : d.col = i) (hnc : d.numCols = t.numCols) (hnr : d.numRows = t.numRows)
    (k : Nat) (hwf : d.iter.WF k t.data.length) :
    d.drop m = .ok (⟨(t.grid.map fun ρ => ρ.eraseIdx i).flatten, if t.numCols = 1 then 0 else t.numRows, t.numCols - 1⟩,
      (d.iter.abs k).filterMap (t.data[·]?)) := by
  obtain ⟨t', dropped, hdrop, _, h1, h2, h3, h4, _⟩ := C07_remove_col_drop m t h i hi d hb hc hnc hnr k hwf
  rw [hdrop, h1]
  cases t' with
  | mk data nr nc =>
    simp only at h2 h3 h4
    rw [h2, h3, h4]

theorem ow_dropLoop (m : Mode) (t : TD α) (h : t.Inv) (i : Nat) (hi : i < t.numCols) :
    ∀ (k : Nat) (d : DrainCol α) (j : Option Nat) (acc : List α) (fuel : Nat),
      d.buf = t.data → d.col = i → d.numCols = t.numCols → d.numRows = t.numRows → d.iter.WF k t.data.length →
      k < fuel →
      ∃ t' dropped p, d.dropLoop m fuel j acc = .ok ((t', acc ++ dropped), p) ∧ d.drop m = .ok (t', dropped) ∧
        (p = true ↔ ∃ jj, j = some jj ∧ jj < k) := by
  intro k
  induction k with
  | zero =>
    intro d j acc fuel hb hc hnc hnr hwf hf
    obtain ⟨f, rfl⟩ : ∃ f, fuel = f + 1 := ⟨fuel - 1, by omega⟩
    have hwf' : d.iter.WF 0 d.buf.length := by rw [hb]; exact hwf
    obtain ⟨⟨d', hnext, hwfd, _, hb', hc', hnc', hnr'⟩, _, _⟩ := C07_drain_col_next m d 0 hwf'
    have hx : ((Seq.next (d.iter.abs 0)).1).bind (d.buf[·]?) = none := by simp [Col.abs, Seq.next]
    rw [hx] at hnext
    rw [hb] at hwfd
    have hd := ow_drainCol_drop_eq m t h i hi d hb hc hnc hnr 0 hwf
    have hd' := ow_drainCol_drop_eq m t h i hi d' (hb'.trans hb) (hc'.trans hc) (hnc'.trans hnc) (hnr'.trans hnr) 0 hwfd
    refine ⟨_, _, false, ?_, hd, by simp⟩
    simp only [DrainCol.dropLoop, hnext, ok_bind, hd', pure_eq]
    simp [Col.abs]
  | succ k ih =>
    intro d j acc fuel hb hc hnc hnr hwf hf
    obtain ⟨f, rfl⟩ : ∃ f, fuel = f + 1 := ⟨fuel - 1, by omega⟩
    have hwf' : d.iter.WF (k + 1) d.buf.length := by rw [hb]; exact hwf
    obtain ⟨⟨d', hnext, hwfd, habs, hb', hc', hnc', hnr'⟩, _, _⟩ := C07_drain_col_next m d (k + 1) hwf'
    have hlt := rl_col_abs_lt d.iter (k + 1) _ hwf
    have hlen : (d.iter.abs (k + 1)).length = k + 1 := by simp [Col.abs]
    rw [hb] at hwfd
    simp only [Nat.add_sub_cancel] at hwfd habs
    have hd := ow_drainCol_drop_eq m t h i hi d hb hc hnc hnr (k + 1) hwf
    have hd' := ow_drainCol_drop_eq m t h i hi d' (hb'.trans hb) (hc'.trans hc) (hnc'.trans hnc) (hnr'.trans hnr) k hwfd
    match hL : d.iter.abs (k + 1), hlen with
    | p0 :: L', _ =>
      rw [hL] at hnext habs hd hlt
      have hp0 : p0 < t.data.length := hlt p0 (by simp)
      have hget : t.data[p0]? = some t.data[p0] := List.getElem?_eq_getElem hp0
      simp only [Seq.next, List.head?_cons, List.tail_cons, Option.bind_some, hb, hget] at hnext habs
      rw [habs] at hd'
      rw [List.filterMap_cons_some hget] at hd
      by_cases hj : j = some 0
      · refine ⟨_, _, true, ?_, hd, ?_⟩
        · simp only [DrainCol.dropLoop, hnext, ok_bind, if_pos hj, hd', pure_eq]
          simp
        · simp only [true_iff]
          exact ⟨0, hj, by omega⟩
      · obtain ⟨t', dropped, p, hloop, hdrop, hp⟩ := ih d' (j.map (· - 1)) (acc ++ [t.data[p0]]) f (hb'.trans hb)
          (hc'.trans hc) (hnc'.trans hnc) (hnr'.trans hnr) hwfd (by omega)
        rw [hd'] at hdrop
        injection hdrop with hdrop
        injection hdrop with ht' hdr
        subst ht' hdr
        refine ⟨_, _, p, ?_, hd, ?_⟩
        · simp only [DrainCol.dropLoop, hnext, ok_bind, if_neg hj, hloop]
          simp
        · rw [hp]
          cases j with
          | none => simp
          | some n =>
            cases n with
            | zero => exact absurd rfl hj
            | succ n =>
              simp only [Option.map_some, Nat.add_sub_cancel, Option.some.injEq]
              constructor
              · rintro ⟨jj, h1, h2⟩
                exact ⟨jj + 1, by omega, by omega⟩
              · rintro ⟨jj, h1, h2⟩
                exact ⟨n, rfl, by omega⟩

end Toodee

namespace Toodee
variable {α : Type}

/-! ### a bijective position map gives a permutation -/

/-- pigeonhole: a duplicate-free list of numbers below `n` has at most `n` entries, and exactly `n` only if it is a
    permutation of `0..n` -/
theorem ow_nodup_bounded : ∀ (n : Nat) (l : List Nat), l.Nodup → (∀ a ∈ l, a < n) →
    l.length ≤ n ∧ (l.length = n → l.Perm (List.range n))
  | 0, l, _, hb => by
    have : l = [] := by
      cases l with
      | nil => rfl
      | cons a l => exact absurd (hb a (by simp)) (by omega)
    subst this
    exact ⟨Nat.le_refl _, fun _ => List.Perm.refl _⟩
  | n + 1, l, hn, hb => by
    by_cases hm : n ∈ l
    · have hp := List.perm_cons_erase hm
      have hn' : (l.erase n).Nodup := hn.erase n
      have hb' : ∀ a ∈ l.erase n, a < n := by
        intro a ha
        have := (hn.mem_erase_iff).1 ha
        have := hb a this.2
        omega
      obtain ⟨h1, h2⟩ := ow_nodup_bounded n (l.erase n) hn' hb'
      have hl : l.length = (l.erase n).length + 1 := by simpa using hp.length_eq
      refine ⟨by omega, fun he => ?_⟩
      refine hp.trans ?_
      rw [List.range_succ]
      exact ((h2 (by omega)).cons n).trans (List.perm_append_singleton n _).symm
    · have hb' : ∀ a ∈ l, a < n := by
        intro a ha
        have := hb a ha
        have : a ≠ n := fun h => hm (h ▸ ha)
        omega
      obtain ⟨h1, _⟩ := ow_nodup_bounded n l hn hb'
      exact ⟨by omega, fun he => by omega⟩

/-- gathering along a position map that is injective on the buffer gives a permutation of the buffer -/
theorem ow_gather_perm (buf : List α) (f : Nat → Nat) (hf : ∀ p, p < buf.length → f p < buf.length)
    (hinj : ∀ p q, p < buf.length → q < buf.length → f p = f q → p = q) : (gather buf f).Perm buf := by
  have hnd : ((List.range buf.length).map f).Nodup := by
    unfold List.Nodup
    rw [List.pairwise_map]
    refine List.Pairwise.imp_of_mem ?_ (List.nodup_range (n := buf.length))
    intro a b ha hb hab he
    exact hab (hinj a b (List.mem_range.1 ha) (List.mem_range.1 hb) he)
  have hbd : ∀ a ∈ (List.range buf.length).map f, a < buf.length := by
    intro a ha
    obtain ⟨p, hp, rfl⟩ := List.mem_map.1 ha
    exact hf p (List.mem_range.1 hp)
  have hperm := (ow_nodup_bounded buf.length _ hnd hbd).2 (by simp)
  have h1 : gather buf f = ((List.range buf.length).map f).filterMap (buf[·]?) := by
    unfold gather
    rw [List.filterMap_map]
    rfl
  have h2 : (List.range buf.length).filterMap (buf[·]?) = buf := by
    apply List.ext_getElem?
    intro k
    rw [filterMap_getElem?_of_isSome _ _ (by intro x hx; simp [List.mem_range.1 hx])]
    by_cases hk : k < buf.length
    · simp [hk]
    · simp [hk]
  rw [h1]
  exact (hperm.filterMap _).trans (by rw [h2])

/-- a cell map that is injective on the cells of the view gives an injective position map -/
theorem ow_mapCells_inj {v : VW} {n : Nat} (h : v.Inv n) (g : Nat × Nat → Nat × Nat)
    (hg : ∀ c r, c < v.numCols → r < v.numRows → (g (c, r)).1 < v.numCols ∧ (g (c, r)).2 < v.numRows)
    (hinj : ∀ c r c' r', c < v.numCols → r < v.numRows → c' < v.numCols → r' < v.numRows →
      g (c, r) = g (c', r') → (c, r) = (c', r'))
    (p q : Nat) (he : v.mapCells g p = v.mapCells g q) : p = q := by
  cases hp : v.coord? p with
  | none =>
    rw [VW.mapCells_of_none g hp] at he
    cases hq : v.coord? q with
    | none => rw [VW.mapCells_of_none g hq] at he; exact he
    | some cr =>
      obtain ⟨c, r⟩ := cr
      obtain ⟨_, hc, hr⟩ := VW.coord?_eq_some hq
      rw [VW.mapCells_of_some g hq] at he
      exact absurd he (VW.ne_pos_of_coord?_none h hp (hg c r hc hr).1 (hg c r hc hr).2)
  | some cr =>
    obtain ⟨c, r⟩ := cr
    obtain ⟨hpe, hc, hr⟩ := VW.coord?_eq_some hp
    rw [VW.mapCells_of_some g hp] at he
    cases hq : v.coord? q with
    | none =>
      rw [VW.mapCells_of_none g hq] at he
      exact absurd he.symm (VW.ne_pos_of_coord?_none h hq (hg c r hc hr).1 (hg c r hc hr).2)
    | some cr' =>
      obtain ⟨c', r'⟩ := cr'
      obtain ⟨hqe, hc', hr'⟩ := VW.coord?_eq_some hq
      rw [VW.mapCells_of_some g hq] at he
      have hgg := VW.pos_inj h (hg c r hc hr).1 (hg c r hc hr).2 (hg c' r' hc' hr').1 (hg c' r' hc' hr').2 he
      have hcr := hinj c r c' r' hc hr hc' hr' (Prod.ext hgg.1 hgg.2)
      injection hcr with e1 e2
      rw [hpe, hqe, e1, e2]

end Toodee

namespace Toodee
variable {α : Type}

/-! ### whole drain lifetimes (C12) -/

/-- the complete column drain `remove_col` returns, including what the borrowed array shows meanwhile -/
theorem ow_removeCol_eq (m : Mode) (t : TD α) (h : t.Inv) (i : Nat) (hi : i < t.numCols) :
    t.removeCol m i = .ok
      { iter := ⟨⟨i, t.data.length - t.numCols + 1⟩, t.numCols - 1⟩, col := i, numCols := t.numCols,
        numRows := t.numRows, buf := t.data, taken := [], tdLen := 0, tdCols := 0, tdRows := 0 } := by
  have hl := h.len
  have hw := h.word
  have hRpos : 0 < t.numRows := by
    have := h.zero
    omega
  have hCR : t.numCols * t.numRows = (t.numRows - 1) * t.numCols + t.numCols := by
    obtain ⟨r, hr⟩ : ∃ r, t.numRows = r + 1 := ⟨t.numRows - 1, by omega⟩
    rw [hr, Nat.mul_comm, Nat.succ_mul, Nat.add_sub_cancel]
  have e1 : usub m t.data.length t.numCols = .ok (t.data.length - t.numCols) := usub_ok m _ _ (by omega)
  have e2 : uadd m (t.data.length - t.numCols) 1 = .ok (t.data.length - t.numCols + 1) :=
    uadd_ok m _ _ (by omega)
  have e3 : usub m t.numCols 1 = .ok (t.numCols - 1) := usub_ok m _ _ (by omega)
  unfold TD.removeCol
  rw [if_neg (by simpa using hi)]
  simp only [pure_eq, ok_bind, e1, e2, e3]
  rw [if_neg (Decidable.not_not.2 (by omega))]

/-- leaking a column drain whose borrowed array shows `(0,0)` with an empty `Vec` -/
theorem ow_leak_col_zero (d : DrainCol α) (h0 : d.tdLen = 0) (hr : d.tdRows = 0) (hc : d.tdCols = 0) :
    d.leak = (⟨[], 0, 0⟩, (d.buf.zipIdx.filter fun xi => !d.taken.contains xi.2).map (·.1)) := by
  unfold DrainCol.leak
  rw [h0, hr, hc]
  simp

/-- the rows-of-cells model of what a leaked row drain leaves behind -/
theorem ow_leak_row_grid (t : TD α) (h : t.Inv) (i : Nat) (hi : i ≤ t.numRows) :
    (⟨t.data.take (i * t.numCols), i, if i = 0 then 0 else t.numCols⟩ : TD α).grid = t.grid.take i := by
  show toRows (if i = 0 then 0 else t.numCols) (t.data.take (i * t.numCols)) = t.grid.take i
  by_cases h0 : i = 0
  · subst h0
    simp [rl_toRows_zero]
  · rw [if_neg h0]
    have hC : 0 < t.numCols := by
      have := h.zero
      omega
    have hflat := rl_flatten_take_uniform t.grid i (rl_grid_row_length t)
    rw [rl_grid_flatten t h] at hflat
    rw [← hflat]
    apply rl_toRows_flatten hC
    intro ρ hρ
    exact rl_grid_row_length t ρ (List.mem_of_mem_take hρ)

/-- the yielded items and the leaked elements of a column drain that moved out the cells at `Y` -/
theorem ow_leak_col_run_perm (buf : List α) (Y : List Nat) (hnd : Y.Nodup) (hin : ∀ p ∈ Y, p < buf.length) :
    (Y.filterMap (buf[·]?) ++ (buf.zipIdx.filter fun xi => !(Y.reverse ++ []).contains xi.2).map (·.1)).Perm buf := by
  have hcons := ow_leak_col_conserves buf (Y.reverse ++ [])
    (by rw [List.append_nil]; exact (List.reverse_perm Y).nodup_iff.2 hnd) (by simpa using hin)
  refine List.perm_append_comm.trans ((List.Perm.append_left _ ?_).trans hcons)
  rw [List.append_nil, List.filterMap_reverse]
  exact (List.reverse_perm _).symm

end Toodee
