import Toodee.Proofs.RunSpecView
/-
  Helper lemmas for C04 / C13 (dispatch): `Recv.run` on an owned array (`TooDee`'s overrides and the defaults it inherits) and on
  a third-party implementor (every default) computes `MOp.spec` on the whole-extent view `t.asView`.
-/
namespace Toodee
variable {α : Type}

/-! ### the accessors of an owned array -/

theorem TD.rowWin_eq (t : TD α) (r : Nat) : (⟨t.pos 0 r, t.numCols⟩ : Win) = t.asView.rowWin r := by
  simp [VW.rowWin, TD.asView, VW.pos, TD.pos, TD.win]

theorem TD.cols_pos_of_row {t : TD α} (h : t.Inv) {r : Nat} (hr : r < t.numRows) : 0 < t.numCols := by
  rcases Nat.eq_zero_or_pos t.numCols with h0 | h0
  · have := h.zero.1 h0; omega
  · exact h0

theorem TD.indexRow_ok (m : Mode) {t : TD α} (h : t.Inv) {r : Nat} (hr : r < t.numRows) :
    t.indexRow m r = .ok (t.asView.rowWin r) := by
  rw [← TD.rowWin_eq]
  exact (C02_owned_valid m t h 0 r (TD.cols_pos_of_row h hr) hr).2.2.2.2.1

theorem TD.indexRowMut_ok (m : Mode) {t : TD α} (h : t.Inv) {r : Nat} (hr : r < t.numRows) :
    t.indexRowMut m r = .ok (t.asView.rowWin r) := by
  rw [← TD.rowWin_eq]
  exact (C02_owned_valid m t h 0 r (TD.cols_pos_of_row h hr) hr).2.2.2.2.2.1

theorem TD.indexRowMut_bad (m : Mode) (t : TD α) {r : Nat} (hr : ¬ r < t.numRows) :
    t.indexRowMut m r = .error .panic := by
  simp [TD.indexRowMut, hr]

theorem TD.getUncheckedRow_ok (m : Mode) {t : TD α} (h : t.Inv) {r : Nat} (hr : r < t.numRows) :
    t.getUncheckedRow m r = .ok (t.asView.rowWin r) := by
  rw [← TD.rowWin_eq]
  exact (C02_owned_valid m t h 0 r (TD.cols_pos_of_row h hr) hr).2.2.2.2.2.2.1

theorem TD.indexCoordMut_ok (m : Mode) {t : TD α} (h : t.Inv) {c r : Nat} (hv : c < t.numCols ∧ r < t.numRows) :
    t.indexCoordMut m c r = .ok (t.asView.pos c r) := by
  rw [(TD.asView_inv t h).2]
  exact (C02_owned_valid m t h c r hv.1 hv.2).2.2.1

theorem TD.indexCoordMut_bad (m : Mode) (t : TD α) {c r : Nat} (hv : ¬ (c < t.numCols ∧ r < t.numRows)) :
    t.indexCoordMut m c r = .error .panic := by
  by_cases hr : r < t.numRows
  · have hc : ¬ c < t.numCols := fun hc => hv ⟨hc, hr⟩
    simp [TD.indexCoordMut, hr, hc]
  · simp [TD.indexCoordMut, hr]

theorem TD.col_ok (m : Mode) {t : TD α} (h : t.Inv) {c : Nat} (hc : c < t.numCols) :
    ∃ it, t.col m c = .ok it ∧ it.WF t.asView.numRows t.data.length ∧
      it.abs t.asView.numRows = (List.range t.asView.numRows).map fun r => t.asView.pos c r := by
  obtain ⟨hvi, hpos⟩ := TD.asView_inv t h
  obtain ⟨it, e, hwf, habs⟩ := (C09_col_owned m t h c (Nat.lt_trans hc hvi.cols_word)).1 hc
  refine ⟨it, e, hwf, ?_⟩
  show it.abs t.numRows = _
  rw [habs]
  apply List.map_congr_left
  intro r _
  exact (hpos c r).symm

theorem TD.acc_of_length (t : TD α) (b : List α) (hb : b.length = t.data.length) :
    ({ t with data := b } : TD α).acc = t.acc := by
  simp [TD.acc, TD.rows, TD.win, hb]

/-- the generic part: the operations `TooDee` does not override run the default bodies through `t.acc` -/
theorem run_owned_default (m : Mode) (lim : Nat) (t : TD α) (h : t.Inv) :
    (∀ c r x, (t.indexCoordMut m c r >>= fun p => pure (t.data.set p x)) = (MOp.set c r x).spec t.asView lim t.data) ∧
    (∀ r c x, (t.indexRowMut m r >>= fun w => w.index c >>= fun p => pure (t.data.set p x))
      = (MOp.setInRow r c x).spec t.asView lim t.data) ∧
    (∀ c1 c2, t.acc.swapCols t.data c1 c2 = (MOp.swapCols c1 c2).spec t.asView lim t.data) ∧
    (∀ tl br dest, t.acc.copyWithin m (t.indexRowMut m) t.data tl br dest = (MOp.copyWithin tl br dest).spec t.asView lim t.data) ∧
    (∀ mc mr, t.acc.translateWithWrap m (t.getUncheckedRow m) t.data (mc, mr) = (MOp.translate mc mr).spec t.asView lim t.data) ∧
    (t.acc.flipRows m t.data = (MOp.flipRows).spec t.asView lim t.data) ∧
    (t.acc.flipCols t.data = (MOp.flipCols).spec t.asView lim t.data) ∧
    (∀ (side : SideSort α) row, side.Sane →
      t.acc.sortRowWith (t.indexRow m) t.data lim side row = (MOp.sortRow side row).spec t.asView lim t.data) := by
  obtain ⟨hvi, hpos⟩ := TD.asView_inv t h
  have ha := C13_acc_owned t h
  refine ⟨?_, ?_, ?_, ?_, ?_, ?_, ?_, ?_⟩
  · intro c r x
    exact spec_set lim t.data hvi c r x _ (TD.indexCoordMut_ok m h) (TD.indexCoordMut_bad m t)
  · intro r c x
    exact spec_setInRow lim t.data hvi c r x _ (TD.indexRowMut_ok m h) (TD.indexRowMut_bad m t)
  · intro c1 c2
    exact spec_swapCols_default lim t.data hvi t.acc ha c1 c2
  · intro tl br dest
    exact spec_copyWithin_default m lim t.data hvi t.acc ha _ (fun r hr => TD.indexRowMut_ok m h hr) tl br dest
  · intro mc mr
    exact spec_translate_default m lim t.data hvi t.acc ha _ (fun r hr => TD.getUncheckedRow_ok m h hr) mc mr
  · exact spec_flipRows_default m lim t.data hvi t.acc ha
  · exact spec_flipCols_default lim t.data hvi t.acc ha
  · intro side row hs
    exact spec_sortRow_default lim t.data hvi t.acc ha _ (fun r hr => TD.indexRow_ok m h hr) side hs row

/-- **the Impl-model refines the specification on owned arrays** -/
theorem run_owned_spec (m : Mode) (lim : Nat) (t : TD α) (h : t.Inv) (op : MOp α) (hs : op.Sane) (hsrc : op.srcOk) :
    (Recv.root t).run m lim t.data op = op.spec t.asView lim t.data := by
  obtain ⟨hvi, hpos⟩ := TD.asView_inv t h
  have ha := C13_acc_owned t h
  obtain ⟨d1, d2, d3, d4, d5, d6, d7, d8⟩ := run_owned_default m lim t h
  cases op with
  | set c r x => exact d1 c r x
  | setInRow r c x => exact d2 r c x
  | fill x => exact spec_fill_owned lim t h x
  | swap c1 r1 c2 r2 => exact spec_swap_owned m lim t h c1 r1 c2 r2
  | swapRows r1 r2 => exact spec_swapRows_owned m lim t h r1 r2
  | swapCols c1 c2 => exact d3 c1 c2
  | copyFromSlice src => exact spec_copyFromSlice_owned lim t h src
  | copyFromTooDee src => exact spec_copyFromTooDee_owned m lim t h src hsrc
  | copyWithin tl br dest => exact d4 tl br dest
  | translate mc mr => exact d5 mc mr
  | flipRows => exact d6
  | flipCols => exact d7
  | sortRow side row => exact d8 side row hs
  | sortCol side c =>
    show t.acc.sortColWith (t.col m) (fun b r1 r2 => ({ t with data := b } : TD α).swapRows m r1 r2) t.data lim side c = _
    exact spec_sortCol_default lim t.data hvi t.acc ha _ (fun c hc => TD.col_ok m h hc) _
      (C17_swap_rows_spec_owned m t h) side hs c

/-- **… and on any third-party implementor** (every trait default runs) -/
theorem run_ext_spec (m : Mode) (lim : Nat) (t : TD α) (h : t.Inv) (op : MOp α) (hs : op.Sane) (hsrc : op.srcOk) :
    (Recv.ext t).run m lim t.data op = op.spec t.asView lim t.data := by
  obtain ⟨hvi, hpos⟩ := TD.asView_inv t h
  have ha := C13_acc_owned t h
  obtain ⟨d1, d2, d3, d4, d5, d6, d7, d8⟩ := run_owned_default m lim t h
  cases op with
  | set c r x => exact d1 c r x
  | setInRow r c x => exact d2 r c x
  | fill x => exact spec_fill_default lim t.data hvi t.acc ha x
  | swap c1 r1 c2 r2 => exact spec_swap_default m lim t.data hvi t.acc ha c1 r1 c2 r2
  | swapRows r1 r2 => exact spec_swapRows_default m lim t.data hvi t.acc ha r1 r2
  | swapCols c1 c2 => exact d3 c1 c2
  | copyFromSlice src => exact spec_copyFromSlice_default m lim t.data hvi t.acc ha src
  | copyFromTooDee src => exact spec_copyFromTooDee_default m lim t.data hvi t.acc ha src hsrc
  | copyWithin tl br dest => exact d4 tl br dest
  | translate mc mr => exact d5 mc mr
  | flipRows => exact d6
  | flipCols => exact d7
  | sortRow side row => exact d8 side row hs
  | sortCol side c =>
    show t.acc.sortColWith (t.col m) (fun b r1 r2 => ({ t with data := b } : TD α).acc.swapRows m b r1 r2)
      t.data lim side c = _
    refine spec_sortCol_default lim t.data hvi t.acc ha _ (fun c hc => TD.col_ok m h hc) _ ?_ side hs c
    intro b r1 r2 hb hr1 hr2
    show ({ t with data := b } : TD α).acc.swapRows m b r1 r2 = _
    rw [TD.acc_of_length t b hb]
    exact C17_swap_rows_spec_default m t.asView t.data.length hvi t.acc ha b r1 r2 hb hr1 hr2

end Toodee
