import Toodee.Spec.History
import Toodee.Proofs.HistoryInplace
import Toodee.Proofs.HistoryView
import Toodee.Properties.C06
import Toodee.Properties.C07
import Toodee.Properties.C08
import Toodee.Properties.C09
import Toodee.Properties.C10
import Toodee.Properties.C11
import Toodee.Properties.C12
import Toodee.Properties.C20
/-
  Lemmas for C01 (histories), part 2: for every operation of a history (`HOp`) the shape invariant after it (`hs_inv_*`), the
  outcome the caller sees (`hs_res_*`: never `ub`, never `fuel`), and its agreement with the rows-of-cells model (`hs_ref_*`).
  The in-place operations are in Proofs/HistoryInplace.lean, blocks of calls on a view in Proofs/HistoryView.lean.
-/
namespace Toodee
variable {α : Type}

/-! ### evaluating the drains of a history step -/

/-- a successful `pop_row` is `remove_row(num_rows - 1)` -/
theorem hs_popRow_some (m : Mode) (t : TD α) (h : t.Inv) (h0 : t.numRows ≠ 0) (d : DrainRow α)
    (hd : t.removeRow m (t.numRows - 1) = .ok d) : t.popRow m = .ok (some d) := by
  rw [(C07_pop_row m t h).2 h0, hd]
  rfl

theorem hs_popCol_some (m : Mode) (t : TD α) (h : t.Inv) (h0 : t.numCols ≠ 0) (d : DrainCol α)
    (hd : t.removeCol m (t.numCols - 1) = .ok d) : t.popCol m = .ok (some d) := by
  rw [(C07_pop_col m t h).2 h0, hd]
  rfl

/-- the array after `remove_col(i)`, any consumption, drop — as `hstep` computes it -/
theorem hs_step_removeCol (e : HEnv) (t : TD α) (h : t.Inv) (i : Nat) (hi : i < t.numCols) (w : List Bool) :
    ∃ d ys d' t' dropped, t.removeCol e.m i = .ok d ∧ d.run e.m w = .ok (ys, d') ∧ d'.drop e.m = .ok (t', dropped) ∧
      hstep e t (.removeCol i w) = t' ∧ hres e t (.removeCol i w) = .ok () ∧
      ys = (Seq.ends (t.colCells i) w).1 ∧ dropped = (Seq.ends (t.colCells i) w).2 ∧
      t'.Inv ∧ t'.grid = (if t.numCols = 1 then [] else t.grid.map fun ρ => ρ.eraseIdx i) ∧
      (ys ++ dropped).Perm (t.colCells i) := by
  obtain ⟨d, ys, d', t', dropped, hd, hrun, hdrop, h1, h2, h3, h4, h5⟩ := C07_remove_col_run e.m t h i hi w
  refine ⟨d, ys, d', t', dropped, hd, hrun, hdrop, ?_, ?_, h1, h2, h3, h4, h5⟩
  · simp only [hstep, hd, ok_bind, hrun, hdrop]
  · simp only [hres, hd, ok_bind, hrun, hdrop, pure_eq]

theorem hs_step_removeCol_reject (e : HEnv) (t : TD α) (i : Nat) (hi : ¬ i < t.numCols) (w : List Bool) :
    hstep e t (.removeCol i w) = t ∧ hres e t (.removeCol i w) = .error .panic := by
  have hd := C07_remove_col_reject e.m t i hi
  constructor
  · simp only [hstep, hd, err_bind]
  · simp only [hres, hd, err_bind]

/-- the same for `pop_col` on an array with columns -/
theorem hs_step_popCol (e : HEnv) (t : TD α) (h : t.Inv) (h0 : t.numCols ≠ 0) (w : List Bool) :
    hstep e t (.popCol w) = hstep e t (.removeCol (t.numCols - 1) w) ∧
    hres e t (.popCol w) = hres e t (.removeCol (t.numCols - 1) w) := by
  obtain ⟨d, ys, d', t', dropped, hd, hrun, hdrop, hs, hr, _⟩ := hs_step_removeCol e t h (t.numCols - 1) (by omega) w
  rw [hs, hr]
  have hp := hs_popCol_some e.m t h h0 d hd
  constructor
  · simp only [hstep, hp, ok_bind, hrun, hdrop, pure_eq]
  · simp only [hres, hp, ok_bind, hrun, hdrop, pure_eq]

theorem hs_step_popCol_none (e : HEnv) (t : TD α) (h : t.Inv) (h0 : t.numCols = 0) (w : List Bool) :
    hstep e t (.popCol w) = t ∧ hres e t (.popCol w) = .ok () := by
  have hp := (C07_pop_col e.m t h).1 h0
  constructor
  · simp only [hstep, hp, ok_bind, pure_eq]
  · simp only [hres, hp, ok_bind, pure_eq]

/-- `remove_col(i)`, any consumption, `mem::forget` -/
theorem hs_step_removeColLeak (e : HEnv) (t : TD α) (h : t.Inv) (i : Nat) (hi : i < t.numCols) (w : List Bool) :
    ∃ d ys d', t.removeCol e.m i = .ok d ∧ d.run e.m w = .ok (ys, d') ∧
      hstep e t (.removeColLeak i w) = (⟨[], 0, 0⟩ : TD α) ∧ hres e t (.removeColLeak i w) = .ok () ∧
      (ys ++ d'.leak.2).Perm t.data := by
  obtain ⟨d, ys, d', hd, hrun, hl, _, hp⟩ := C12_leak_drain_col_run e.m t h i hi w
  refine ⟨d, ys, d', hd, hrun, ?_, ?_, hp⟩
  · simp only [hstep, hd, ok_bind, hrun, pure_eq]
    exact hl
  · simp only [hres, hd, ok_bind, hrun, pure_eq]

theorem hs_step_removeColLeak_reject (e : HEnv) (t : TD α) (i : Nat) (hi : ¬ i < t.numCols) (w : List Bool) :
    hstep e t (.removeColLeak i w) = t ∧ hres e t (.removeColLeak i w) = .error .panic := by
  have hd := C07_remove_col_reject e.m t i hi
  constructor
  · simp only [hstep, hd, err_bind]
  · simp only [hres, hd, err_bind]

/-! ### the invariant after each operation -/

theorem hs_inv_fromVec (t : TD α) (h : t.Inv) (c r : Nat) (v : List α) :
    (match TD.fromVec c r v with | .ok t' => t' | .error _ => t).Inv := by
  by_cases hs : shapeOk c r ∧ c * r = v.length
  · obtain ⟨t', e, hi, _⟩ := (C20_from_vec c r v).1 hs
    rw [e]; exact hi
  · rw [(C20_from_vec c r v).2 hs]; exact h

theorem hs_inv_newArr (cap : Nat) (t : TD α) (h : t.Inv) (c r : Nat) (d : α) :
    (match TD.new cap c r d with | .ok t' => t' | .error _ => t).Inv := by
  by_cases hs : shapeOk c r ∧ c * r ≤ cap
  · obtain ⟨t', e, hi, _⟩ := (C20_new cap c r d).1 hs
    rw [e]; exact hi
  · rw [(C20_new cap c r d).2 hs]; exact h

theorem hs_inv_initArr (cap : Nat) (t : TD α) (h : t.Inv) (c r : Nat) (x : α) :
    (match TD.init cap c r x with | .ok t' => t' | .error _ => t).Inv := by
  by_cases hs : shapeOk c r ∧ c * r ≤ cap
  · obtain ⟨t', e, hi, _⟩ := (C20_init cap c r x).1 hs
    rw [e]; exact hi
  · rw [(C20_init cap c r x).2 hs]; exact h

theorem hs_inv_insertRow (m : Mode) (cap : Nat) (hcap : cap < WORD) (t : TD α) (h : t.Inv) (i : Nat) (it : IterScript α)
    (spare : List α) (hop : it.claimed ≤ spare.length) : (t.insertRow m cap i it spare).t.Inv :=
  (C11_insert_row m cap t h i it spare (Or.inl hop) hcap).2.2.1

theorem hs_inv_insertCol (m : Mode) (cap : Nat) (hcap : cap < WORD) (t : TD α) (h : t.Inv) (i : Nat) (it : IterScript α)
    (spare : List α) (hop : it.claimed ≤ spare.length) : (t.insertCol m cap i it spare).t.Inv :=
  (C11_insert_col m cap t h i it spare (Or.inl hop) hcap).2.2.1

theorem hs_inv_removeRow (e : HEnv) (t : TD α) (h : t.Inv) (i : Nat) (w : List Bool) :
    (hstep e t (.removeRow i w)).Inv := by
  simp only [hstep]
  by_cases hi : i < t.numRows
  · obtain ⟨d, hd, _, _, hinv, _⟩ := C07_remove_row_run e.m t h i hi w
    rw [hd]; exact hinv
  · rw [C07_remove_row_reject e.m t i hi]; exact h

theorem hs_inv_removeRowLeak (e : HEnv) (t : TD α) (h : t.Inv) (i : Nat) (w : List Bool) :
    (hstep e t (.removeRowLeak i w)).Inv := by
  simp only [hstep]
  by_cases hi : i < t.numRows
  · obtain ⟨d, hd, hinv, _⟩ := C12_leak_drain_row_run e.m t h i hi w
    rw [hd]; exact hinv
  · rw [C07_remove_row_reject e.m t i hi]; exact h

theorem hs_inv_popRow (e : HEnv) (t : TD α) (h : t.Inv) (w : List Bool) :
    (hstep e t (.popRow w)).Inv := by
  simp only [hstep]
  by_cases h0 : t.numRows = 0
  · rw [(C07_pop_row e.m t h).1 h0]; exact h
  · obtain ⟨d, hd, _, _, hinv, _⟩ := C07_remove_row_run e.m t h (t.numRows - 1) (by omega) w
    rw [hs_popRow_some e.m t h h0 d hd]; exact hinv

theorem hs_inv_removeCol (e : HEnv) (t : TD α) (h : t.Inv) (i : Nat) (w : List Bool) :
    (hstep e t (.removeCol i w)).Inv := by
  by_cases hi : i < t.numCols
  · obtain ⟨_, _, _, t', _, _, _, _, hs, _, _, _, hinv, _⟩ := hs_step_removeCol e t h i hi w
    rw [hs]; exact hinv
  · rw [(hs_step_removeCol_reject e t i hi w).1]; exact h

theorem hs_inv_popCol (e : HEnv) (t : TD α) (h : t.Inv) (w : List Bool) :
    (hstep e t (.popCol w)).Inv := by
  by_cases h0 : t.numCols = 0
  · rw [(hs_step_popCol_none e t h h0 w).1]; exact h
  · rw [(hs_step_popCol e t h h0 w).1]; exact hs_inv_removeCol e t h _ w

theorem hs_inv_empty : (⟨[], 0, 0⟩ : TD α).Inv :=
  ⟨rfl, Iff.rfl, by show 0 < WORD; unfold WORD; omega⟩

theorem hs_inv_removeColLeak (e : HEnv) (t : TD α) (h : t.Inv) (i : Nat) (w : List Bool) :
    (hstep e t (.removeColLeak i w)).Inv := by
  by_cases hi : i < t.numCols
  · obtain ⟨_, _, _, _, _, hs, _⟩ := hs_step_removeColLeak e t h i hi w
    rw [hs]; exact hs_inv_empty
  · rw [(hs_step_removeColLeak_reject e t i hi w).1]; exact h

theorem hs_inv_swapDimensions (t : TD α) (h : t.Inv) : t.swapDimensions.Inv :=
  ⟨by show t.data.length = t.numRows * t.numCols; rw [h.len, Nat.mul_comm], h.zero.symm, h.word⟩

/-- **one step preserves the shape invariant** -/
theorem hs_step_inv (e : HEnv) (he : e.ok) (t : TD α) (h : t.Inv) (op : HOp α) (hop : op.wf) :
    (hstep e t op).Inv := by
  cases op with
  | fromVec c r v => exact hs_inv_fromVec t h c r v
  | newArr c r d => exact hs_inv_newArr e.cap t h c r d
  | initArr c r x => exact hs_inv_initArr e.cap t h c r x
  | insertRow i it spare => exact hs_inv_insertRow e.m e.cap he t h i it spare hop
  | insertCol i it spare => exact hs_inv_insertCol e.m e.cap he t h i it spare hop
  | removeRow i w => exact hs_inv_removeRow e t h i w
  | removeCol i w => exact hs_inv_removeCol e t h i w
  | popRow w => exact hs_inv_popRow e t h w
  | popCol w => exact hs_inv_popCol e t h w
  | removeRowLeak i w => exact hs_inv_removeRowLeak e t h i w
  | removeColLeak i w => exact hs_inv_removeColLeak e t h i w
  | clear => exact hs_inv_empty
  | swapDimensions => exact hs_inv_swapDimensions t h
  | capacityCall k => exact h
  | takeInto k => exact hs_inv_empty
  | inplace op => exact hs_inv_inplace e.m e.lim t h op hop
  | viaView s e' ops => exact hs_inv_viaView e t h s e' ops hop

/-! ### the outcome the caller sees -/

theorem hs_res_removeRow (m : Mode) (t : TD α) (h : t.Inv) (i : Nat) :
    (t.removeRow m i).map (fun _ => ()) = .ok () ∨ (t.removeRow m i).map (fun _ => ()) = .error .panic := by
  by_cases hi : i < t.numRows
  · obtain ⟨d, hd, _⟩ := C07_remove_row m t h i hi
    rw [hd]; exact Or.inl rfl
  · rw [C07_remove_row_reject m t i hi]; exact Or.inr rfl

/-- **no safe call ends in undefined behaviour**: the outcome is `ok` or `panic` -/
theorem hs_step_res (e : HEnv) (he : e.ok) (t : TD α) (h : t.Inv) (op : HOp α) (hop : op.wf) :
    hres e t op ≠ .error .ub ∧ hres e t op ≠ .error .fuel := by
  have okp : ∀ r : Res Unit, (r = .ok () ∨ r = .error .panic) → r ≠ .error .ub ∧ r ≠ .error .fuel := by
    intro r hr
    rcases hr with hr | hr <;> rw [hr] <;> exact ⟨nofun, nofun⟩
  cases op with
  | fromVec c r v =>
    have : (TD.fromVec c r v).map (fun _ => ()) = .ok () ∨ (TD.fromVec c r v).map (fun _ => ()) = .error .panic := by
      by_cases hs : shapeOk c r ∧ c * r = v.length
      · obtain ⟨t', e', _⟩ := (C20_from_vec c r v).1 hs
        rw [e']; exact Or.inl rfl
      · rw [(C20_from_vec c r v).2 hs]; exact Or.inr rfl
    exact okp _ this
  | newArr c r d =>
    have : (TD.new e.cap c r d).map (fun _ => ()) = .ok () ∨ (TD.new e.cap c r d).map (fun _ => ()) = .error .panic := by
      by_cases hs : shapeOk c r ∧ c * r ≤ e.cap
      · obtain ⟨t', e', _⟩ := (C20_new e.cap c r d).1 hs
        rw [e']; exact Or.inl rfl
      · rw [(C20_new e.cap c r d).2 hs]; exact Or.inr rfl
    exact okp _ this
  | initArr c r x =>
    have : (TD.init e.cap c r x).map (fun _ => ()) = .ok () ∨ (TD.init e.cap c r x).map (fun _ => ()) = .error .panic := by
      by_cases hs : shapeOk c r ∧ c * r ≤ e.cap
      · obtain ⟨t', e', _⟩ := (C20_init e.cap c r x).1 hs
        rw [e']; exact Or.inl rfl
      · rw [(C20_init e.cap c r x).2 hs]; exact Or.inr rfl
    exact okp _ this
  | insertRow i it spare =>
    have := C11_insert_row e.m e.cap t h i it spare (Or.inl hop) he
    exact ⟨this.1, this.2.1⟩
  | insertCol i it spare =>
    have := C11_insert_col e.m e.cap t h i it spare (Or.inl hop) he
    exact ⟨this.1, this.2.1⟩
  | removeRow i w => exact okp _ (hs_res_removeRow e.m t h i)
  | removeRowLeak i w => exact okp _ (hs_res_removeRow e.m t h i)
  | removeCol i w =>
    apply okp
    by_cases hi : i < t.numCols
    · obtain ⟨_, _, _, _, _, _, _, _, _, hr, _⟩ := hs_step_removeCol e t h i hi w
      exact Or.inl hr
    · exact Or.inr (hs_step_removeCol_reject e t i hi w).2
  | removeColLeak i w =>
    apply okp
    by_cases hi : i < t.numCols
    · obtain ⟨_, _, _, _, _, _, hr, _⟩ := hs_step_removeColLeak e t h i hi w
      exact Or.inl hr
    · exact Or.inr (hs_step_removeColLeak_reject e t i hi w).2
  | popRow w =>
    have : (t.popRow e.m).map (fun _ => ()) = .ok () := by
      by_cases h0 : t.numRows = 0
      · rw [(C07_pop_row e.m t h).1 h0]; rfl
      · obtain ⟨d, hd, _⟩ := C07_remove_row e.m t h (t.numRows - 1) (by omega)
        rw [hs_popRow_some e.m t h h0 d hd]; rfl
    exact okp _ (Or.inl this)
  | popCol w =>
    apply okp
    by_cases h0 : t.numCols = 0
    · exact Or.inl (hs_step_popCol_none e t h h0 w).2
    · rw [(hs_step_popCol e t h h0 w).2]
      obtain ⟨_, _, _, _, _, _, _, _, _, hr, _⟩ := hs_step_removeCol e t h (t.numCols - 1) (by omega) w
      exact Or.inl hr
  | clear => exact okp _ (Or.inl rfl)
  | swapDimensions => exact okp _ (Or.inl rfl)
  | capacityCall k =>
    cases k with
    | none => exact okp _ (Or.inl rfl)
    | some k =>
      have hres_eq : hres e t (.capacityCall (some k))
          = (if reserveOk e.cap t.data.length k = true then pure () else throw .panic : Res Unit) := rfl
      rw [hres_eq]
      apply okp
      by_cases hr : reserveOk e.cap t.data.length k = true
      · rw [if_pos hr]; exact Or.inl rfl
      · rw [if_neg hr]; exact Or.inr rfl
  | takeInto k => exact okp _ (Or.inl rfl)
  | inplace op =>
    have gen : ∀ r : Res (List α), r ≠ .error .ub → r ≠ .error .fuel →
        r.map (fun _ => ()) ≠ .error .ub ∧ r.map (fun _ => ()) ≠ .error .fuel := by
      intro r h1 h2
      cases r with
      | ok d => exact ⟨nofun, nofun⟩
      | error er =>
        refine ⟨fun hc => h1 ?_, fun hc => h2 ?_⟩
        · have : er = .ub := by injection hc
          rw [this]
        · have : er = .fuel := by injection hc
          rw [this]
    obtain ⟨h1, h2, _⟩ := hs_spec_facts e.lim t h op hop.1
    rw [← hs_run_spec e.m e.lim t h op hop] at h1 h2
    exact gen _ h1 h2
  | viaView s e' ops => exact hs_res_viaView e t h s e' ops hop

/-- **the outcome of an in-place call is the plain model's acceptance** -/
theorem hs_inplace_outcome (e : HEnv) (t : TD α) (h : t.Inv) (op : MOp α) (hop : (HOp.inplace op).wf)
    (hfit : (HOp.inplace op).fits e t) :
    (op.gok t.grid = true → hres e t (.inplace op) = .ok ()) ∧
    (op.gok t.grid = false → hres e t (.inplace op) = .error .panic ∧ hstep e t (.inplace op) = t) := by
  have hrs := hs_run_spec e.m e.lim t h op hop
  constructor
  · intro hk
    obtain ⟨d, hsp⟩ := hs_gok_true_spec e.lim t h op (fun side row he => by subst he; exact hfit)
      (fun side col he => by subst he; exact hfit) hk
    simp only [hres, hrs, hsp]
    rfl
  · intro hk
    have hsp := hs_gok_false_spec e.lim t h op hop.1 hk
    simp only [hres, hstep, hrs, hsp]
    exact ⟨rfl, rfl⟩

/-! ### each operation against the rows-of-cells model -/

theorem hs_grid_empty : (⟨[], 0, 0⟩ : TD α).grid = [] := rl_toRows_nil 0

theorem hs_ref_removeRow (e : HEnv) (t : TD α) (h : t.Inv) (i : Nat) (w : List Bool) :
    gstep t.grid (.removeRow i w) = some (hstep e t (.removeRow i w)).grid := by
  show some (t.grid.eraseIdx i) = _
  congr 1
  simp only [hstep]
  by_cases hi : i < t.numRows
  · obtain ⟨d, hd, _, _, _, hg, _⟩ := C07_remove_row_run e.m t h i hi w
    rw [hd]
    exact hg.symm
  · rw [C07_remove_row_reject e.m t i hi]
    exact List.eraseIdx_of_length_le (by rw [h.grid_length]; omega)

theorem hs_ref_popRow (e : HEnv) (t : TD α) (h : t.Inv) (w : List Bool) :
    gstep t.grid (.popRow w) = some (hstep e t (.popRow w)).grid := by
  show some t.grid.dropLast = _
  congr 1
  simp only [hstep]
  by_cases h0 : t.numRows = 0
  · rw [(C07_pop_row e.m t h).1 h0, (hs_grid_eq_nil t h).2 h0]
    rfl
  · obtain ⟨d, hd, _, _, _, hg, _⟩ := C07_remove_row_run e.m t h (t.numRows - 1) (by omega) w
    rw [hs_popRow_some e.m t h h0 d hd]
    show _ = (d.run w).2.drop.1.grid
    rw [hg, ← List.eraseIdx_eq_dropLast (i := t.numRows - 1) (by rw [h.grid_length]; omega)]

theorem hs_ref_removeRowLeak (e : HEnv) (t : TD α) (h : t.Inv) (i : Nat) (w : List Bool) :
    gstep t.grid (.removeRowLeak i w) = some (hstep e t (.removeRowLeak i w)).grid := by
  show (if i < t.grid.length then some (t.grid.take i) else some t.grid) = _
  rw [h.grid_length]
  simp only [hstep]
  by_cases hi : i < t.numRows
  · obtain ⟨d, hd, _, _, _, hg, _⟩ := C12_leak_drain_row_run e.m t h i hi w
    rw [if_pos hi, hd]
    exact congrArg some hg.symm
  · rw [if_neg hi, C07_remove_row_reject e.m t i hi]

theorem hs_ref_removeCol (e : HEnv) (t : TD α) (h : t.Inv) (i : Nat) (w : List Bool) :
    gstep t.grid (.removeCol i w) = some (hstep e t (.removeCol i w)).grid := by
  show (if i < gcols t.grid then
      (if gcols t.grid = 1 then some [] else some (t.grid.map fun ρ => ρ.eraseIdx i))
    else some t.grid) = _
  rw [hs_headC t h]
  by_cases hi : i < t.numCols
  · obtain ⟨_, _, _, t', _, _, _, _, hs, _, _, _, _, hg, _⟩ := hs_step_removeCol e t h i hi w
    rw [if_pos hi, hs, hg]
    by_cases h1 : t.numCols = 1
    · rw [if_pos h1, if_pos h1]
    · rw [if_neg h1, if_neg h1]
  · rw [if_neg hi, (hs_step_removeCol_reject e t i hi w).1]

theorem hs_ref_popCol (e : HEnv) (t : TD α) (h : t.Inv) (w : List Bool) :
    gstep t.grid (.popCol w) = some (hstep e t (.popCol w)).grid := by
  show (if gcols t.grid = 0 then some t.grid
    else if gcols t.grid = 1 then some []
    else some (t.grid.map fun ρ => ρ.eraseIdx (gcols t.grid - 1))) = _
  rw [hs_headC t h]
  by_cases h0 : t.numCols = 0
  · rw [if_pos h0, (hs_step_popCol_none e t h h0 w).1]
  · rw [if_neg h0, (hs_step_popCol e t h h0 w).1, ← hs_ref_removeCol e t h]
    show _ = (if t.numCols - 1 < gcols t.grid then
      (if gcols t.grid = 1 then some []
        else some (t.grid.map fun ρ => ρ.eraseIdx (t.numCols - 1)))
      else some t.grid)
    have hlt : t.numCols - 1 < t.numCols := by omega
    rw [hs_headC t h, if_pos hlt]

theorem hs_ref_removeColLeak (e : HEnv) (t : TD α) (h : t.Inv) (i : Nat) (w : List Bool) :
    gstep t.grid (.removeColLeak i w) = some (hstep e t (.removeColLeak i w)).grid := by
  show (if i < gcols t.grid then some [] else some t.grid) = _
  rw [hs_headC t h]
  by_cases hi : i < t.numCols
  · obtain ⟨_, _, _, _, _, hs, _⟩ := hs_step_removeColLeak e t h i hi w
    rw [if_pos hi, hs, hs_grid_empty]
  · rw [if_neg hi, (hs_step_removeColLeak_reject e t i hi w).1]

theorem hs_ref_fromVec (e : HEnv) (t : TD α) (c r : Nat) (v : List α) :
    gstep t.grid (.fromVec c r v) = some (hstep e t (.fromVec c r v)).grid := by
  show (if specShapeOk c r ∧ c * r = v.length then some (toRows c v) else some t.grid)
    = some (match TD.fromVec c r v with | .ok t' => t' | .error _ => t).grid
  have hsp : specShapeOk c r = true ↔ shapeOk c r := by
    unfold specShapeOk shapeOk
    exact decide_eq_true_iff
  by_cases hs : shapeOk c r ∧ c * r = v.length
  · obtain ⟨t', e, _, hc, _, hd⟩ := (C20_from_vec c r v).1 hs
    rw [if_pos ⟨hsp.2 hs.1, hs.2⟩, e]
    show _ = some (toRows t'.numCols t'.data)
    rw [hc, hd]
  · rw [if_neg (fun hc => hs ⟨hsp.1 hc.1, hc.2⟩), (C20_from_vec c r v).2 hs]

theorem hs_specShapeOk (c r : Nat) : specShapeOk c r = true ↔ shapeOk c r := by
  unfold specShapeOk shapeOk
  exact decide_eq_true_iff

theorem hs_ref_newArr (e : HEnv) (t : TD α) (c r : Nat) (d : α) (hfit : c * r ≤ e.cap) :
    gstep t.grid (.newArr c r d) = some (hstep e t (.newArr c r d)).grid := by
  show (if specShapeOk c r = true then some (toRows c (List.replicate (c * r) d)) else some t.grid)
    = some (match TD.new e.cap c r d with | .ok t' => t' | .error _ => t).grid
  by_cases hs : shapeOk c r
  · obtain ⟨t', e', _, hc, _, hd⟩ := (C20_new e.cap c r d).1 ⟨hs, hfit⟩
    rw [if_pos ((hs_specShapeOk c r).2 hs), e']
    show _ = some (toRows t'.numCols t'.data)
    rw [hc, hd]
  · rw [if_neg (fun hc => hs ((hs_specShapeOk c r).1 hc)), (C20_new e.cap c r d).2 (fun hc => hs hc.1)]

theorem hs_ref_initArr (e : HEnv) (t : TD α) (c r : Nat) (x : α) (hfit : c * r ≤ e.cap) :
    gstep t.grid (.initArr c r x) = some (hstep e t (.initArr c r x)).grid := by
  show (if specShapeOk c r = true then some (toRows c (List.replicate (c * r) x)) else some t.grid)
    = some (match TD.init e.cap c r x with | .ok t' => t' | .error _ => t).grid
  by_cases hs : shapeOk c r
  · obtain ⟨t', e', _, hc, _, hd⟩ := (C20_init e.cap c r x).1 ⟨hs, hfit⟩
    rw [if_pos ((hs_specShapeOk c r).2 hs), e']
    show _ = some (toRows t'.numCols t'.data)
    rw [hc, hd]
  · rw [if_neg (fun hc => hs ((hs_specShapeOk c r).1 hc)), (C20_init e.cap c r x).2 (fun hc => hs hc.1)]

theorem hs_ref_swapDimensions (e : HEnv) (t : TD α) (h : t.Inv) :
    gstep t.grid .swapDimensions = some (hstep e t .swapDimensions).grid := by
  show some (toRows t.grid.length t.grid.flatten) = some (toRows t.numRows t.data)
  rw [h.grid_length, ← h.data_eq_flatten_grid]

/-! ### insertion against the rows-of-cells model -/

theorem hs_all_some (ev : List (Option α)) (hall : ev.all Option.isSome = true) :
    ev = (ev.filterMap id).map some := by
  induction ev with
  | nil => rfl
  | cons e ev ih =>
    cases e with
    | none => simp at hall
    | some a =>
      have h2 : ev.all Option.isSome = true := by
        simp only [List.all_cons, Bool.and_eq_true] at hall
        exact hall.2
      have e : (some a :: ev).filterMap id = a :: ev.filterMap id := rfl
      rw [e, List.map_cons, ← ih h2]

theorem hs_events_honest (it : IterScript α) (hall : it.events.all Option.isSome = true)
    (hcl : it.claimed = (it.events.filterMap id).length) : it = honest (it.events.filterMap id) := by
  cases it with
  | mk claimed events =>
    simp only at hall hcl
    unfold honest
    rw [← hs_all_some events hall, ← hcl]

theorem hs_toRows_single (xs : List α) (hx : xs ≠ []) : toRows xs.length xs = [xs] := by
  have hpos : 0 < xs.length := List.length_pos_iff.2 hx
  have := toRows_flatten xs.length hpos [xs] (by simp)
  simpa using this

theorem hs_toRows_one (xs : List α) : toRows 1 xs = xs.map fun x => [x] := by
  have hf : (xs.map fun x => [x]).flatten = xs := by
    induction xs with
    | nil => rfl
    | cons x xs ih => simp [ih]
  have := toRows_flatten 1 (by omega) (xs.map fun x => [x]) (by simp)
  rw [hf] at this
  exact this

theorem hs_ref_insertRow (m : Mode) (cap : Nat) (hcapw : cap < WORD) (t : TD α) (h : t.Inv) (i : Nat) (it : IterScript α)
    (spare : List α) (hop : it.claimed ≤ spare.length) (hfit : t.data.length + it.claimed ≤ cap)
    (g' : List (List α)) (hg : gstep t.grid (.insertRow i it spare) = some g') :
    (t.insertRow m cap i it spare).t.grid = g' := by
  have hg2 : (if it.events.all Option.isSome ∧ it.claimed = (it.events.filterMap id).length then
      (if t.grid = [] then some (if i = 0 ∧ it.events.filterMap id ≠ [] then [it.events.filterMap id] else [])
       else if i ≤ t.grid.length ∧ (it.events.filterMap id).length = gcols t.grid
         then some (t.grid.insertIdx i (it.events.filterMap id)) else some t.grid)
      else none) = some g' := hg
  by_cases hcond : it.events.all Option.isSome ∧ it.claimed = (it.events.filterMap id).length
  · rw [if_pos hcond] at hg2
    have hit := hs_events_honest it hcond.1 hcond.2
    generalize it.events.filterMap id = xs at hit hg2
    subst hit
    have hop' : xs.length ≤ spare.length := hop
    have hcap : t.data.length + xs.length ≤ cap := hfit
    have hword : t.data.length + xs.length < WORD := by omega
    rw [h.grid_length, hs_headC t h] at hg2
    by_cases hg0 : t.grid = []
    · rw [if_pos hg0] at hg2
      injection hg2 with hg2
      have hR0 : t.numRows = 0 := (hs_grid_eq_nil t h).1 hg0
      have hd0 : t.data = [] := by
        apply List.eq_nil_of_length_eq_zero
        rw [h.len, hR0, Nat.mul_zero]
      by_cases hi0 : i = 0
      · subst hi0
        obtain ⟨_, _, _, _, hdata, hnc, _⟩ :=
          C06_insert_row_ok m cap t h 0 xs spare (Nat.zero_le _) (Or.inl hR0) hcap hop' hword
        show toRows _ _ = g'
        rw [hnc, hdata, hd0]
        simp only [List.take_nil, List.drop_nil, List.nil_append, List.append_nil]
        by_cases hx : xs = []
        · rw [if_neg (fun hc => hc.2 hx)] at hg2
          rw [← hg2, hx]
          exact rl_toRows_nil _
        · rw [if_pos ⟨rfl, hx⟩] at hg2
          rw [← hg2]
          exact hs_toRows_single xs hx
      · rw [if_neg (fun hc => hi0 hc.1)] at hg2
        have hrej := (C06_insert_row_reject m cap t i (honest xs) spare (by omega)).2.1
        rw [hrej, hg0, hg2]
    · rw [if_neg hg0] at hg2
      have hR0 : t.numRows ≠ 0 := fun h0 => hg0 ((hs_grid_eq_nil t h).2 h0)
      have hC0 : 0 < t.numCols := h.cols_pos (r := 0) (by omega)
      by_cases hacc : i ≤ t.numRows ∧ xs.length = t.numCols
      · rw [if_pos hacc] at hg2
        injection hg2 with hg2
        rw [← hg2]
        exact C06_insert_row_grid m cap t h i xs spare hacc.1 hacc.2 (by omega) hcap hop' hword
      · rw [if_neg hacc] at hg2
        injection hg2 with hg2
        have hbad : ¬ (i ≤ t.numRows ∧ (t.numRows = 0 ∨ (honest xs).claimed = t.numCols)) := by
          rintro ⟨h1, h2 | h2⟩
          · exact hR0 h2
          · exact hacc ⟨h1, h2⟩
        have hrej := (C06_insert_row_reject m cap t i (honest xs) spare hbad).2.1
        rw [hrej, hg2]
  · rw [if_neg hcond] at hg2
    cases hg2

theorem hs_ref_insertCol (m : Mode) (cap : Nat) (hcapw : cap < WORD) (t : TD α) (h : t.Inv) (i : Nat) (it : IterScript α)
    (spare : List α) (hop : it.claimed ≤ spare.length) (hfit : t.data.length + it.claimed ≤ cap)
    (g' : List (List α)) (hg : gstep t.grid (.insertCol i it spare) = some g') :
    (t.insertCol m cap i it spare).t.grid = g' := by
  have hg2 : (if it.events.all Option.isSome ∧ it.claimed = (it.events.filterMap id).length then
      (if t.grid = [] then some (if i = 0 then (it.events.filterMap id).map (fun x => [x]) else [])
       else if i ≤ gcols t.grid ∧ (it.events.filterMap id).length = t.grid.length
         then some (List.zipWith (insAt i) t.grid (it.events.filterMap id)) else some t.grid)
      else none) = some g' := hg
  by_cases hcond : it.events.all Option.isSome ∧ it.claimed = (it.events.filterMap id).length
  · rw [if_pos hcond] at hg2
    have hit := hs_events_honest it hcond.1 hcond.2
    generalize it.events.filterMap id = xs at hit hg2
    subst hit
    have hop' : xs.length ≤ spare.length := hop
    have hcap : t.data.length + xs.length ≤ cap := hfit
    have hword : t.data.length + xs.length < WORD := by omega
    rw [h.grid_length, hs_headC t h] at hg2
    by_cases hg0 : t.grid = []
    · rw [if_pos hg0] at hg2
      injection hg2 with hg2
      have hR0 : t.numRows = 0 := (hs_grid_eq_nil t h).1 hg0
      have hC0 : t.numCols = 0 := h.zero.2 hR0
      by_cases hi0 : i = 0
      · subst hi0
        rw [if_pos rfl] at hg2
        obtain ⟨_, _, _, _, hdata, _, hnc⟩ :=
          C06_insert_col_ok m cap t h 0 xs spare (Nat.zero_le _) (Or.inl hC0) hcap hop' hword
        show toRows _ _ = g'
        rw [hnc, hdata, if_pos hC0, ← hg2]
        by_cases hx : xs.length = 0
        · rw [if_pos hx, List.eq_nil_of_length_eq_zero hx]
          exact rl_toRows_nil _
        · rw [if_neg hx, hC0]
          exact hs_toRows_one xs
      · rw [if_neg hi0] at hg2
        have hrej := (C06_insert_col_reject m cap t i (honest xs) spare (by omega)).2.1
        rw [hrej, hg0, hg2]
    · rw [if_neg hg0] at hg2
      have hR0 : t.numRows ≠ 0 := fun h0 => hg0 ((hs_grid_eq_nil t h).2 h0)
      have hC0 : 0 < t.numCols := h.cols_pos (r := 0) (by omega)
      by_cases hacc : i ≤ t.numCols ∧ xs.length = t.numRows
      · rw [if_pos hacc] at hg2
        injection hg2 with hg2
        rw [← hg2]
        exact C06_insert_col_grid m cap t h i xs spare hacc.1 hacc.2 hC0 hcap hop' hword
      · rw [if_neg hacc] at hg2
        injection hg2 with hg2
        have hbad : ¬ (i ≤ t.numCols ∧ (t.numCols = 0 ∨ (honest xs).claimed = t.numRows)) := by
          rintro ⟨h1, h2 | h2⟩
          · omega
          · exact hacc ⟨h1, h2⟩
        have hrej := (C06_insert_col_reject m cap t i (honest xs) spare hbad).2.1
        rw [hrej, hg2]
  · rw [if_neg hcond] at hg2
    cases hg2

/-- **one step agrees with the rows-of-cells model wherever that model prescribes the result** -/
theorem hs_step_refines (e : HEnv) (he : e.ok) (t : TD α) (h : t.Inv) (op : HOp α) (hop : op.wf) (hfit : op.fits e t)
    (g' : List (List α)) (hg : gstep t.grid op = some g') :
    (hstep e t op).grid = g' := by
  have fin : ∀ x : List (List α), gstep t.grid op = some x → x = g' := fun x hx => by
    rw [hx] at hg
    exact Option.some.inj hg
  cases op with
  | fromVec c r v => exact fin _ (hs_ref_fromVec e t c r v)
  | newArr c r d => exact fin _ (hs_ref_newArr e t c r d hfit)
  | initArr c r x => exact fin _ (hs_ref_initArr e t c r x hfit)
  | insertRow i it spare => exact hs_ref_insertRow e.m e.cap he t h i it spare hop hfit g' hg
  | insertCol i it spare => exact hs_ref_insertCol e.m e.cap he t h i it spare hop hfit g' hg
  | removeRow i w => exact fin _ (hs_ref_removeRow e t h i w)
  | removeCol i w => exact fin _ (hs_ref_removeCol e t h i w)
  | popRow w => exact fin _ (hs_ref_popRow e t h w)
  | popCol w => exact fin _ (hs_ref_popCol e t h w)
  | removeRowLeak i w => exact fin _ (hs_ref_removeRowLeak e t h i w)
  | removeColLeak i w => exact fin _ (hs_ref_removeColLeak e t h i w)
  | clear => exact fin _ (congrArg some hs_grid_empty.symm)
  | swapDimensions => exact fin _ (hs_ref_swapDimensions e t h)
  | capacityCall k => exact fin _ rfl
  | takeInto k => exact fin _ (congrArg some hs_grid_empty.symm)
  | inplace op =>
    show (t.withData ((Recv.root t).run e.m e.lim t.data op)).grid = g'
    rw [hs_run_spec e.m e.lim t h op hop]
    refine hs_ref_inplace_spec e.lim t h op hop.2 ?_ ?_ g' hg
    · intro side row hs
      subst hs
      exact hfit
    · intro side col hs
      subst hs
      exact hfit
  | viaView s e' ops => exact hs_ref_viaView e t h s e' ops hop hfit g' hg

end Toodee
