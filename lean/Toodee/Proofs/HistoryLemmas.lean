import Toodee.Spec.History
import Toodee.Properties.C02
import Toodee.Properties.C04
import Toodee.Properties.C06
import Toodee.Properties.C07
import Toodee.Properties.C08
import Toodee.Properties.C09
import Toodee.Properties.C10
import Toodee.Properties.C11
import Toodee.Properties.C13
import Toodee.Properties.C15
import Toodee.Properties.C16
import Toodee.Properties.C17
import Toodee.Properties.C20
/-
  Lemmas for C01 (histories): one invariant-preservation lemma per operation (`hs_inv_*`), and the rows-of-cells
  readings (`hs_grid_*`) of the per-operation results used by `C01_step_refines`.
-/
namespace Toodee
variable {α : Type}

/-! ### small facts about the shape invariant -/

theorem TD.Inv.cols_le {t : TD α} (h : t.Inv) (hr : 0 < t.numRows) : t.numCols ≤ t.data.length := by
  rw [h.len]
  exact Nat.le_mul_of_pos_right _ hr

theorem TD.Inv.rows_le {t : TD α} (h : t.Inv) (hc : 0 < t.numCols) : t.numRows ≤ t.data.length := by
  rw [h.len]
  exact Nat.le_mul_of_pos_left _ hc

theorem TD.Inv.cols_pos {t : TD α} (h : t.Inv) {r : Nat} (hr : r < t.numRows) : 0 < t.numCols := by
  have := h.zero
  omega

theorem TD.Inv.rows_pos {t : TD α} (h : t.Inv) {c : Nat} (hc : c < t.numCols) : 0 < t.numRows := by
  have := h.zero
  omega

theorem TD.Inv.cols_word {t : TD α} (h : t.Inv) : t.numCols < WORD := by
  rcases Nat.eq_zero_or_pos t.numRows with h0 | h0
  · rw [h.zero.2 h0]; unfold WORD; omega
  · have := h.cols_le h0
    have := h.word
    omega

theorem TD.Inv.rows_word {t : TD α} (h : t.Inv) : t.numRows < WORD := by
  rcases Nat.eq_zero_or_pos t.numCols with h0 | h0
  · rw [h.zero.1 h0]; unfold WORD; omega
  · have := h.rows_le h0
    have := h.word
    omega

/-- replacing the data by a buffer of the same length keeps the invariant -/
theorem TD.Inv.with_data {t : TD α} (h : t.Inv) (d : List α) (hd : d.length = t.data.length) :
    ({ t with data := d } : TD α).Inv :=
  ⟨by show d.length = _; rw [hd]; exact h.len, h.zero, by show d.length < WORD; rw [hd]; exact h.word⟩

/-- an in-place operation that keeps the length keeps the invariant (a failed one leaves the array) -/
theorem TD.withData_inv (t : TD α) (h : t.Inv) (r : Res (List α))
    (hr : ∀ d, r = .ok d → d.length = t.data.length) : (t.withData r).Inv := by
  cases r with
  | error e => exact h
  | ok d => exact h.with_data d (hr d rfl)

/-- a cell permutation of the whole array keeps the length -/
theorem hs_gather_length (t : TD α) (h : t.Inv) (g : Nat × Nat → Nat × Nat)
    (hg : ∀ c r, c < t.numCols → r < t.numRows → (g (c, r)).1 < t.numCols ∧ (g (c, r)).2 < t.numRows) :
    (gather t.data (t.asView.mapCells g)).length = t.data.length :=
  gather_mapCells_length t.data (C02_owned_as_view t h).1 g hg

/-- the owned array's unchecked row accessor returns the row window -/
theorem hs_getUncheckedRow (m : Mode) (t : TD α) (h : t.Inv) (r : Nat) (hr : r < t.asView.numRows) :
    t.getUncheckedRow m r = .ok (t.asView.rowWin r) := by
  have hr' : r < t.numRows := hr
  obtain ⟨_, _, _, _, _, _, h7, _⟩ := C02_owned_valid m t h 0 r (h.cols_pos hr') hr'
  rw [h7]
  show _ = Except.ok (⟨t.asView.pos 0 r, t.numCols⟩ : Win)
  rw [(C02_owned_as_view t h).2]

theorem hs_indexRow (m : Mode) (t : TD α) (h : t.Inv) (r : Nat) (hr : r < t.asView.numRows) :
    t.indexRow m r = .ok (t.asView.rowWin r) := by
  have hr' : r < t.numRows := hr
  obtain ⟨_, _, _, _, h5, _⟩ := C02_owned_valid m t h 0 r (h.cols_pos hr') hr'
  rw [h5]
  show _ = Except.ok (⟨t.asView.pos 0 r, t.numCols⟩ : Win)
  rw [(C02_owned_as_view t h).2]

/-! ### the invariant after each operation -/

theorem hs_inv_fromVec (t : TD α) (h : t.Inv) (c r : Nat) (v : List α) :
    (match TD.fromVec c r v with | .ok t' => t' | .error _ => t).Inv := by
  by_cases hs : shapeOk c r ∧ c * r = v.length
  · obtain ⟨t', e, hi, _⟩ := (C20_from_vec c r v).1 hs
    rw [e]; exact hi
  · rw [(C20_from_vec c r v).2 hs]; exact h

theorem histCap_lt : histCap < WORD := by unfold histCap WORD; omega

theorem hs_inv_insertRow (m : Mode) (t : TD α) (h : t.Inv) (i : Nat) (it : IterScript α) (spare : List α)
    (hop : it.claimed ≤ spare.length) : (t.insertRow m histCap i it spare).t.Inv :=
  (C11_insert_row m histCap t h i it spare (Or.inl hop) histCap_lt).2.2.1

theorem hs_inv_insertCol (m : Mode) (t : TD α) (h : t.Inv) (i : Nat) (it : IterScript α) (spare : List α)
    (hop : it.claimed ≤ spare.length) : (t.insertCol m histCap i it spare).t.Inv :=
  (C11_insert_col m histCap t h i it spare (Or.inl hop) histCap_lt).2.2.1

/-- `remove_row(i)` then dropping the drain: the result and its grid, or the unchanged array -/
theorem hs_removeRow (m : Mode) (t : TD α) (h : t.Inv) (i : Nat) :
    (i < t.numRows → ∃ d, t.removeRow m i = .ok d ∧ d.drop.1.Inv ∧ d.drop.1.grid = t.grid.eraseIdx i) ∧
    (¬ i < t.numRows → t.removeRow m i = .error .panic) := by
  refine ⟨fun hi => ?_, C07_remove_row_reject m t i⟩
  obtain ⟨d, hd, _⟩ := C07_remove_row m t h i hi
  obtain ⟨_, h2, _, _, _, h6⟩ := C07_remove_row_drop m t h i hi d hd d.items
  exact ⟨d, hd, h2, h6⟩

theorem hs_inv_removeRow (m : Mode) (t : TD α) (h : t.Inv) (i : Nat) :
    (match t.removeRow m i with | .ok d => d.drop.1 | .error _ => t).Inv := by
  by_cases hi : i < t.numRows
  · obtain ⟨d, e, hinv, _⟩ := (hs_removeRow m t h i).1 hi
    rw [e]; exact hinv
  · rw [(hs_removeRow m t h i).2 hi]; exact h

/-- `remove_col(i)` then dropping the (unconsumed) drain -/
theorem hs_removeCol (m : Mode) (t : TD α) (h : t.Inv) (i : Nat) :
    (i < t.numCols → ∃ d t' dropped, t.removeCol m i = .ok d ∧ d.drop m = .ok (t', dropped) ∧ t'.Inv ∧
      t'.grid = (if t.numCols = 1 then [] else t.grid.map fun ρ => ρ.eraseIdx i)) ∧
    (¬ i < t.numCols → t.removeCol m i = .error .panic) := by
  refine ⟨fun hi => ?_, C07_remove_col_reject m t i⟩
  obtain ⟨d, hd, hb, hc, hnc, hnr, _, hwf, _⟩ := C07_remove_col m t h i hi
  obtain ⟨t', dropped, e, hinv, _, _, _, _, hg⟩ := C07_remove_col_drop m t h i hi d hb hc hnc hnr t.numRows hwf
  exact ⟨d, t', dropped, hd, e, hinv, hg⟩

theorem hs_inv_removeCol (m : Mode) (t : TD α) (h : t.Inv) (i : Nat) :
    (match t.removeCol m i with
      | .ok d => (match d.drop m with | .ok (t', _) => t' | .error _ => t)
      | .error _ => t).Inv := by
  by_cases hi : i < t.numCols
  · obtain ⟨d, t', dropped, e1, e2, hinv, _⟩ := (hs_removeCol m t h i).1 hi
    rw [e1]; simp only [e2]; exact hinv
  · rw [(hs_removeCol m t h i).2 hi]; exact h

theorem hs_popRow (m : Mode) (t : TD α) (h : t.Inv) :
    hstep m t .popRow = (if t.numRows = 0 then t else hstep m t (.removeRow (t.numRows - 1))) := by
  by_cases h0 : t.numRows = 0
  · rw [if_pos h0]
    simp only [hstep, (C07_pop_row m t h).1 h0]
  · rw [if_neg h0]
    simp only [hstep, (C07_pop_row m t h).2 h0]
    cases t.removeRow m (t.numRows - 1) <;> rfl

theorem hs_popCol (m : Mode) (t : TD α) (h : t.Inv) :
    hstep m t .popCol = (if t.numCols = 0 then t else hstep m t (.removeCol (t.numCols - 1))) := by
  by_cases h0 : t.numCols = 0
  · rw [if_pos h0]
    simp only [hstep, (C07_pop_col m t h).1 h0]
  · rw [if_neg h0]
    simp only [hstep, (C07_pop_col m t h).2 h0]
    cases t.removeCol m (t.numCols - 1) <;> rfl

theorem hs_inv_clear (t : TD α) : t.clear.Inv :=
  ⟨rfl, Iff.rfl, by show 0 < WORD; unfold WORD; omega⟩

theorem hs_inv_swapDimensions (t : TD α) (h : t.Inv) : t.swapDimensions.Inv :=
  ⟨by show t.data.length = t.numRows * t.numCols; rw [h.len, Nat.mul_comm], h.zero.symm, h.word⟩

theorem hs_inv_fill (t : TD α) (h : t.Inv) (x : α) : ({ t with data := t.fill x } : TD α).Inv :=
  h.with_data _ (by simp [TD.fill])

/-- `swap` with any out-of-range index panics (no bound on the arguments needed) -/
theorem hs_swap_reject (m : Mode) (t : TD α) (c1 r1 c2 r2 : Nat)
    (hn : ¬ (c1 < t.numCols ∧ c2 < t.numCols ∧ r1 < t.numRows ∧ r2 < t.numRows)) :
    t.swap m c1 r1 c2 r2 = .error .panic := by
  unfold TD.swap
  by_cases hc : c1 < t.numCols ∧ c2 < t.numCols
  · have hr : ¬ (r1 < t.numRows ∧ r2 < t.numRows) := fun hr => hn ⟨hc.1, hc.2, hr.1, hr.2⟩
    simp [hc, hr]
  · simp [hc]

theorem hs_swapCellG_cells (t : TD α) {c1 r1 c2 r2 : Nat}
    (hr : c1 < t.numCols ∧ c2 < t.numCols ∧ r1 < t.numRows ∧ r2 < t.numRows) :
    ∀ c r, c < t.numCols → r < t.numRows →
      (swapCellG (c1, r1) (c2, r2) (c, r)).1 < t.numCols ∧ (swapCellG (c1, r1) (c2, r2) (c, r)).2 < t.numRows := by
  intro c r hc hr'
  unfold swapCellG
  by_cases h1 : (c, r) = (c1, r1)
  · rw [if_pos h1]; exact ⟨hr.2.1, hr.2.2.2⟩
  · rw [if_neg h1]
    by_cases h2 : (c, r) = (c2, r2)
    · rw [if_pos h2]; exact ⟨hr.1, hr.2.2.1⟩
    · rw [if_neg h2]; exact ⟨hc, hr'⟩

theorem hs_inv_swap (m : Mode) (t : TD α) (h : t.Inv) (c1 r1 c2 r2 : Nat) :
    (t.withData (t.swap m c1 r1 c2 r2)).Inv := by
  apply t.withData_inv h
  intro d hd
  by_cases hr : c1 < t.numCols ∧ c2 < t.numCols ∧ r1 < t.numRows ∧ r2 < t.numRows
  · have hcw := h.cols_word
    have hrw := h.rows_word
    rw [(C13_swap_owned m t h c1 r1 c2 r2 ⟨by omega, by omega, by omega, by omega⟩).1 hr] at hd
    injection hd with hd
    rw [← hd]
    exact hs_gather_length t h _ (hs_swapCellG_cells t hr)
  · rw [hs_swap_reject m t c1 r1 c2 r2 hr] at hd
    cases hd

theorem hs_swapRows (m : Mode) (t : TD α) (h : t.Inv) (r1 r2 : Nat) :
    ((r1 < t.numRows ∧ r2 < t.numRows) →
      t.swapRows m r1 r2 = .ok (gather t.data (t.asView.mapCells (swapRowsG r1 r2)))) ∧
    (¬ (r1 < t.numRows ∧ r2 < t.numRows) → t.swapRows m r1 r2 = .error .panic) := by
  refine ⟨fun hr => ?_, fun hn => by simp [TD.swapRows, hn]⟩
  have hrw := h.rows_word
  exact (C13_swap_rows_owned m t h r1 r2 ⟨by omega, by omega⟩).1 hr

theorem hs_swapRowsG_cells (t : TD α) {r1 r2 : Nat} (hr : r1 < t.numRows ∧ r2 < t.numRows) :
    ∀ c r, c < t.numCols → r < t.numRows →
      (swapRowsG r1 r2 (c, r)).1 < t.numCols ∧ (swapRowsG r1 r2 (c, r)).2 < t.numRows :=
  fun _ _ hc hr' => ⟨hc, swapIdx_lt hr.1 hr.2 hr'⟩

theorem hs_swapColsG_cells (t : TD α) {c1 c2 : Nat} (hc : c1 < t.numCols ∧ c2 < t.numCols) :
    ∀ c r, c < t.numCols → r < t.numRows →
      (swapColsG c1 c2 (c, r)).1 < t.numCols ∧ (swapColsG c1 c2 (c, r)).2 < t.numRows :=
  fun _ _ hc' hr => ⟨swapIdx_lt hc.1 hc.2 hc', hr⟩

theorem hs_inv_swapRows (m : Mode) (t : TD α) (h : t.Inv) (r1 r2 : Nat) :
    (t.withData (t.swapRows m r1 r2)).Inv := by
  apply t.withData_inv h
  intro d hd
  by_cases hr : r1 < t.numRows ∧ r2 < t.numRows
  · rw [(hs_swapRows m t h r1 r2).1 hr] at hd
    injection hd with hd
    rw [← hd]
    exact hs_gather_length t h _ (hs_swapRowsG_cells t hr)
  · rw [(hs_swapRows m t h r1 r2).2 hr] at hd
    cases hd

theorem hs_swapCols (t : TD α) (h : t.Inv) (c1 c2 : Nat) :
    ((c1 < t.numCols ∧ c2 < t.numCols) →
      t.acc.swapCols t.data c1 c2 = .ok (gather t.data (t.asView.mapCells (swapColsG c1 c2)))) ∧
    (¬ (c1 < t.numCols ∧ c2 < t.numCols) → t.acc.swapCols t.data c1 c2 = .error .panic) :=
  C13_swap_cols t.asView t.data (C02_owned_as_view t h).1 t.acc (C13_acc_owned t h) c1 c2

theorem hs_inv_swapCols (t : TD α) (h : t.Inv) (c1 c2 : Nat) :
    (t.withData (t.acc.swapCols t.data c1 c2)).Inv := by
  apply t.withData_inv h
  intro d hd
  by_cases hc : c1 < t.numCols ∧ c2 < t.numCols
  · rw [(hs_swapCols t h c1 c2).1 hc] at hd
    injection hd with hd
    rw [← hd]
    exact hs_gather_length t h _ (hs_swapColsG_cells t hc)
  · rw [(hs_swapCols t h c1 c2).2 hc] at hd
    cases hd

theorem hs_inv_copyFromSlice (t : TD α) (h : t.Inv) (src : List α) :
    (t.withData (t.copyFromSlice src)).Inv := by
  apply t.withData_inv h
  intro d hd
  unfold TD.copyFromSlice at hd
  by_cases hl : t.data.length = src.length
  · rw [if_neg (by simpa using hl)] at hd
    injection hd with hd
    rw [← hd, hl]
  · rw [if_pos hl] at hd
    cases hd

theorem hs_inv_translate (m : Mode) (t : TD α) (h : t.Inv) (mc mr : Nat) :
    (t.withData (t.acc.translateWithWrap m (t.getUncheckedRow m) t.data (mc, mr))).Inv := by
  apply t.withData_inv h
  intro d hd
  by_cases hm : mc ≤ t.numCols ∧ mr ≤ t.numRows
  · rw [C15_translate m t.asView t.data (C02_owned_as_view t h).1 t.acc (C13_acc_owned t h) _
      (hs_getUncheckedRow m t h) (mc, mr) hm] at hd
    injection hd with hd
    rw [← hd]
    exact hs_gather_length t h _
      (C15_maps_bijective t.numCols t.numRows mc mr _ (List.mem_cons_self ..)).1
  · rw [C15_translate_reject m t.acc _ t.data (mc, mr) hm] at hd
    cases hd

theorem hs_flipRows (m : Mode) (t : TD α) (h : t.Inv) :
    t.acc.flipRows m t.data = .ok (gather t.data (t.asView.mapCells (flipRowsG t.numRows))) :=
  C15_flip_rows m t.asView t.data (C02_owned_as_view t h).1 t.acc (C13_acc_owned t h)

theorem hs_flipCols (t : TD α) (h : t.Inv) :
    t.acc.flipCols t.data = .ok (gather t.data (t.asView.mapCells (flipColsG t.numCols))) :=
  C15_flip_cols t.asView t.data (C02_owned_as_view t h).1 t.acc (C13_acc_owned t h)

theorem hs_flipRowsG_cells (t : TD α) :
    ∀ c r, c < t.numCols → r < t.numRows →
      (flipRowsG t.numRows (c, r)).1 < t.numCols ∧ (flipRowsG t.numRows (c, r)).2 < t.numRows :=
  fun _ _ hc hr => ⟨hc, by simp only [flipRowsG]; omega⟩

theorem hs_flipColsG_cells (t : TD α) :
    ∀ c r, c < t.numCols → r < t.numRows →
      (flipColsG t.numCols (c, r)).1 < t.numCols ∧ (flipColsG t.numCols (c, r)).2 < t.numRows :=
  fun _ _ hc hr => ⟨by simp only [flipColsG]; omega, hr⟩

theorem hs_inv_flipRows (m : Mode) (t : TD α) (h : t.Inv) : (t.withData (t.acc.flipRows m t.data)).Inv := by
  rw [hs_flipRows m t h]
  exact h.with_data _ (hs_gather_length t h _ (hs_flipRowsG_cells t))

theorem hs_inv_flipCols (t : TD α) (h : t.Inv) : (t.withData (t.acc.flipCols t.data)).Inv := by
  rw [hs_flipCols t h]
  exact h.with_data _ (hs_gather_length t h _ (hs_flipColsG_cells t))

theorem hs_inv_sortByRow (m : Mode) (t : TD α) (h : t.Inv) (le : α → α → Bool) (row : Nat) :
    (t.withData (t.acc.sortByRow (t.indexRow m) t.data le row)).Inv := by
  apply t.withData_inv h
  intro d hd
  have hv := (C02_owned_as_view t h).1
  have hs := C16_sort_by_row t.asView t.data hv t.acc (C13_acc_owned t h) (t.indexRow m) (hs_indexRow m t h) le row
  by_cases hr : row < t.asView.numRows
  · rw [hs.1 hr] at hd
    injection hd with hd
    rw [← hd]
    have hin := VW.rowWin_inside hv hr
    have hl : (readWin t.data (t.asView.rowWin row)).length = t.numCols := by
      simp only [readWin, List.length_take, List.length_drop]
      have : (t.asView.rowWin row).len = t.numCols := rfl
      omega
    have hp := stablePerm_perm le (readWin t.data (t.asView.rowWin row))
    rw [hl] at hp
    have hb := (C16_cols_bijective t.numCols t.numRows _ hp).1
    exact hs_gather_length t h _ (fun c r hc hr' => ⟨(hb c r hc hr').1, by rw [(hb c r hc hr').2]; exact hr'⟩)
  · rw [hs.2 hr] at hd
    cases hd

theorem hs_inv_sortByCol (m : Mode) (t : TD α) (h : t.Inv) (le : α → α → Bool) (col : Nat) :
    (t.withData (t.acc.sortByCol (t.col m)
      (fun b r1 r2 => ({ t with data := b } : TD α).swapRows m r1 r2) t.data le col)).Inv := by
  apply t.withData_inv h
  intro d hd
  have hv := (C02_owned_as_view t h).1
  have hcw := h.cols_word
  have hcol : ∀ c, c < t.asView.numCols → ∃ it, t.col m c = .ok it ∧ it.WF t.asView.numRows t.data.length ∧
      it.abs t.asView.numRows = (List.range t.asView.numRows).map fun r => t.asView.pos c r := by
    intro c hc
    have hc' : c < t.numCols := hc
    obtain ⟨it, e, hwf, habs⟩ := (C09_col_owned m t h c (by omega)).1 hc'
    refine ⟨it, e, hwf, ?_⟩
    show it.abs t.numRows = _
    rw [habs]
    apply List.map_congr_left
    intro r _
    exact ((C02_owned_as_view t h).2 c r).symm
  have hsw : SwapRowsSpec t.asView t.data.length
      (fun b r1 r2 => ({ t with data := b } : TD α).swapRows m r1 r2) := by
    intro b r1 r2 hb hr1 hr2
    have hbi := h.with_data b hb
    have e := (hs_swapRows m _ hbi r1 r2).1 ⟨hr1, hr2⟩
    have hview : ({ t with data := b } : TD α).asView = t.asView := by
      simp only [TD.asView, TD.win, hb]
    rw [hview] at e
    exact e
  have hs := C17_sort_by_col t.asView t.data hv t.acc (C13_acc_owned t h) (t.col m) hcol _ hsw le col
  by_cases hc : col < t.asView.numCols
  · rw [hs.1 hc] at hd
    injection hd with hd
    rw [← hd]
    have hp := stablePerm_perm le ((List.range t.asView.numRows).filterMap fun r => t.data[t.asView.pos col r]?)
    rw [col_keys_length t.asView t.data hv hc] at hp
    have hb := (C17_rows_bijective t.numCols t.numRows _ hp).1
    exact hs_gather_length t h _ (fun c r hc' hr => ⟨by rw [(hb c r hc' hr).2]; exact hc', (hb c r hc' hr).1⟩)
  · rw [hs.2 hc] at hd
    cases hd

/-! ### rows-of-cells readings -/

/-- the grid whose cell `(c,r)` is `X c r` -/
def cellsGrid (R C : Nat) (X : Nat → Nat → Option α) : List (List α) :=
  (List.range R).map fun r => (List.range C).filterMap fun c => X c r

theorem cellsGrid_congr (R C : Nat) (X Y : Nat → Nat → Option α)
    (hXY : ∀ c r, c < C → r < R → X c r = Y c r) : cellsGrid R C X = cellsGrid R C Y := by
  unfold cellsGrid
  apply List.map_congr_left
  intro r hr
  apply filterMap_congr_mem
  intro c hc
  exact hXY c r (List.mem_range.1 hc) (List.mem_range.1 hr)

theorem hs_take_drop_cells (d : List α) (s C : Nat) (h : s + C ≤ d.length) :
    (d.drop s).take C = (List.range C).filterMap fun c => d[s + c]? := by
  apply List.ext_getElem?
  intro i
  rw [filterMap_getElem?_of_isSome]
  · rw [List.getElem?_take]
    by_cases hi : i < C
    · rw [if_pos hi, List.getElem?_drop, List.getElem?_range hi]
      rfl
    · rw [if_neg hi, List.getElem?_eq_none (by simpa using hi)]
      rfl
  · intro c hc
    have hc' := List.mem_range.1 hc
    rw [List.getElem?_eq_getElem (by omega)]
    rfl

theorem hs_toRows_cells (C R : Nat) (d : List α) (hl : d.length = C * R) (hz : C = 0 → R = 0) :
    toRows C d = cellsGrid R C (fun c r => d[r * C + c]?) := by
  unfold toRows cellsGrid
  rcases Nat.eq_zero_or_pos C with h0 | hC
  · rw [hz h0, h0]; simp
  · rw [hl, Nat.mul_div_cancel_left _ hC]
    apply List.map_congr_left
    intro r hr
    have hr' := List.mem_range.1 hr
    apply hs_take_drop_cells
    rw [hl]
    exact row_end_le hr'

theorem hs_grid_cells (t : TD α) (h : t.Inv) :
    t.grid = cellsGrid t.numRows t.numCols (fun c r => t.data[r * t.numCols + c]?) :=
  hs_toRows_cells _ _ _ h.len h.zero.1

theorem hs_grid_of_data (t : TD α) (h : t.Inv) (d : List α) (hd : d.length = t.data.length) :
    ({ t with data := d } : TD α).grid = cellsGrid t.numRows t.numCols (fun c r => d[r * t.numCols + c]?) :=
  hs_grid_cells _ (h.with_data d hd)

theorem hs_headC (t : TD α) (h : t.Inv) : (t.grid.head?.map List.length).getD 0 = t.numCols := by
  have hl := h.grid_length
  have hrow := t.grid_row_length
  match hg : t.grid with
  | [] =>
    rw [hg] at hl
    have : t.numCols = 0 := h.zero.2 hl.symm
    simp [this]
  | ρ :: rest =>
    rw [hg] at hrow
    simp [hrow ρ (List.mem_cons_self ..)]

theorem hs_grid_eq_nil (t : TD α) (h : t.Inv) : t.grid = [] ↔ t.numRows = 0 := by
  rw [← h.grid_length]
  exact List.length_eq_zero_iff.symm

theorem hs_gcell (t : TD α) (h : t.Inv) (c r : Nat) (hc : c < t.numCols) :
    gcell t.grid c r = t.data[r * t.numCols + c]? := by
  have hlen := h.len
  have hdiv : t.data.length / t.numCols = t.numRows := by
    rw [hlen, Nat.mul_div_cancel_left _ (by omega)]
  unfold gcell TD.grid toRows
  rw [List.getElem?_map, hdiv]
  by_cases hr : r < t.numRows
  · rw [List.getElem?_range hr]
    show ((t.data.drop (r * t.numCols)).take t.numCols)[c]? = _
    rw [List.getElem?_take, if_pos hc, List.getElem?_drop]
  · rw [List.getElem?_eq_none (by simpa using hr)]
    have : t.numCols * t.numRows ≤ r * t.numCols := by
      rw [Nat.mul_comm]; exact Nat.mul_le_mul_right _ (by omega)
    rw [List.getElem?_eq_none (by omega)]
    rfl

/-- a cell permutation of the array, read on the rows of cells -/
theorem hs_grid_gather (t : TD α) (h : t.Inv) (f : Nat × Nat → Nat × Nat)
    (hf : ∀ c r, c < t.numCols → r < t.numRows → (f (c, r)).1 < t.numCols ∧ (f (c, r)).2 < t.numRows) :
    ({ t with data := gather t.data (t.asView.mapCells f) } : TD α).grid
      = cellsGrid t.numRows t.numCols (fun c r => t.data[(f (c, r)).2 * t.numCols + (f (c, r)).1]?) := by
  rw [hs_grid_of_data t h _ (hs_gather_length t h f hf)]
  apply cellsGrid_congr
  intro c r hc hr
  obtain ⟨hv, hpos⟩ := C02_owned_as_view t h
  have h3 := (C04_frame_perm t.asView t.data hv f hf).2.2 c r hc hr
  rw [hpos, hpos] at h3
  exact h3

theorem hs_gridPerm (t : TD α) (h : t.Inv) (f : Nat × Nat → Nat × Nat)
    (hf : ∀ c r, c < t.numCols → r < t.numRows → (f (c, r)).1 < t.numCols ∧ (f (c, r)).2 < t.numRows) :
    gridPerm t.grid f
      = cellsGrid t.numRows t.numCols (fun c r => t.data[(f (c, r)).2 * t.numCols + (f (c, r)).1]?) := by
  unfold gridPerm
  rw [h.grid_length, hs_headC t h]
  apply cellsGrid_congr
  intro c r hc hr
  exact hs_gcell t h _ _ (hf c r hc hr).1

/-! ### each operation against the rows-of-cells model -/

theorem hs_reverse_range (n : Nat) : (List.range n).reverse = (List.range n).map (fun i => n - 1 - i) := by
  rw [List.range_eq_range', List.reverse_range', ← List.range_eq_range']
  apply List.map_congr_left
  intro i _
  omega

theorem cellsGrid_reverse (R C : Nat) (X : Nat → Nat → Option α) :
    (cellsGrid R C X).reverse = cellsGrid R C (fun c r => X c (R - 1 - r)) := by
  unfold cellsGrid
  rw [← List.map_reverse, hs_reverse_range, List.map_map]
  rfl

theorem cellsGrid_map_reverse (R C : Nat) (X : Nat → Nat → Option α) :
    (cellsGrid R C X).map List.reverse = cellsGrid R C (fun c r => X (C - 1 - c) r) := by
  unfold cellsGrid
  rw [List.map_map]
  apply List.map_congr_left
  intro r _
  show ((List.range C).filterMap fun c => X c r).reverse = _
  rw [← List.filterMap_reverse, hs_reverse_range, List.filterMap_map]
  rfl

theorem hs_ref_removeRow (m : Mode) (t : TD α) (h : t.Inv) (i : Nat) :
    gstep t.grid (.removeRow i) = some (hstep m t (.removeRow i)).grid := by
  show some (t.grid.eraseIdx i) = _
  congr 1
  by_cases hi : i < t.numRows
  · obtain ⟨d, e, _, hg⟩ := (hs_removeRow m t h i).1 hi
    simp only [hstep, e]
    exact hg.symm
  · simp only [hstep, (hs_removeRow m t h i).2 hi]
    exact List.eraseIdx_of_length_le (by rw [h.grid_length]; omega)

theorem hs_ref_removeCol (m : Mode) (t : TD α) (h : t.Inv) (i : Nat) :
    gstep t.grid (.removeCol i) = some (hstep m t (.removeCol i)).grid := by
  show (if i < (t.grid.head?.map List.length).getD 0 then
      (if (t.grid.head?.map List.length).getD 0 = 1 then some [] else some (t.grid.map fun ρ => ρ.eraseIdx i))
    else some t.grid) = _
  rw [hs_headC t h]
  by_cases hi : i < t.numCols
  · obtain ⟨d, t', dropped, e1, e2, _, hg⟩ := (hs_removeCol m t h i).1 hi
    simp only [hstep, e1, e2]
    rw [if_pos hi, hg]
    by_cases h1 : t.numCols = 1
    · rw [if_pos h1, if_pos h1]
    · rw [if_neg h1, if_neg h1]
  · simp only [hstep, (hs_removeCol m t h i).2 hi]
    rw [if_neg hi]

theorem hs_ref_popRow (m : Mode) (t : TD α) (h : t.Inv) :
    gstep t.grid .popRow = some (hstep m t .popRow).grid := by
  show some t.grid.dropLast = _
  rw [hs_popRow m t h]
  by_cases h0 : t.numRows = 0
  · rw [if_pos h0, (hs_grid_eq_nil t h).2 h0]
    rfl
  · rw [if_neg h0, ← List.eraseIdx_eq_dropLast (i := t.numRows - 1) (by rw [h.grid_length]; omega)]
    exact hs_ref_removeRow m t h _

theorem hs_ref_popCol (m : Mode) (t : TD α) (h : t.Inv) :
    gstep t.grid .popCol = some (hstep m t .popCol).grid := by
  show (if (t.grid.head?.map List.length).getD 0 = 0 then some t.grid
    else if (t.grid.head?.map List.length).getD 0 = 1 then some []
    else some (t.grid.map fun ρ => ρ.eraseIdx ((t.grid.head?.map List.length).getD 0 - 1))) = _
  rw [hs_headC t h, hs_popCol m t h]
  by_cases h0 : t.numCols = 0
  · rw [if_pos h0, if_pos h0]
  · rw [if_neg h0, if_neg h0, ← hs_ref_removeCol m t h]
    show _ = (if t.numCols - 1 < (t.grid.head?.map List.length).getD 0 then
      (if (t.grid.head?.map List.length).getD 0 = 1 then some []
        else some (t.grid.map fun ρ => ρ.eraseIdx (t.numCols - 1)))
      else some t.grid)
    have hlt : t.numCols - 1 < t.numCols := by omega
    rw [hs_headC t h, if_pos hlt]

theorem hs_ref_clear (m : Mode) (t : TD α) : gstep t.grid .clear = some (hstep m t .clear).grid := by
  show some [] = some (toRows 0 [])
  rw [rl_toRows_nil]

theorem hs_ref_fill (m : Mode) (t : TD α) (h : t.Inv) (x : α) :
    gstep t.grid (.fill x) = some (hstep m t (.fill x)).grid := by
  show some (t.grid.map fun ρ => ρ.map fun _ => x) = some ({ t with data := t.fill x } : TD α).grid
  congr 1
  rw [hs_grid_of_data t h (t.fill x) (by simp [TD.fill]), hs_grid_cells t h]
  unfold cellsGrid
  rw [List.map_map]
  apply List.map_congr_left
  intro r hr
  show ((List.range t.numCols).filterMap fun c => t.data[r * t.numCols + c]?).map (fun _ => x) = _
  rw [List.map_filterMap]
  apply filterMap_congr_mem
  intro c hc
  have hlt : r * t.numCols + c < t.data.length := by
    rw [h.len]; exact cell_lt (List.mem_range.1 hc) (List.mem_range.1 hr)
  simp [TD.fill, hlt]

theorem hs_ref_swapRows (m : Mode) (t : TD α) (h : t.Inv) (r1 r2 : Nat) :
    gstep t.grid (.swapRows r1 r2) = some (hstep m t (.swapRows r1 r2)).grid := by
  show (if r1 < t.grid.length ∧ r2 < t.grid.length then some (gridPerm t.grid (swapRowsG r1 r2)) else some t.grid)
    = some (t.withData (t.swapRows m r1 r2)).grid
  rw [h.grid_length]
  by_cases hr : r1 < t.numRows ∧ r2 < t.numRows
  · rw [if_pos hr, (hs_swapRows m t h r1 r2).1 hr, hs_gridPerm t h _ (hs_swapRowsG_cells t hr)]
    exact congrArg some (hs_grid_gather t h _ (hs_swapRowsG_cells t hr)).symm
  · rw [if_neg hr, (hs_swapRows m t h r1 r2).2 hr]
    rfl

theorem hs_ref_swapCols (m : Mode) (t : TD α) (h : t.Inv) (c1 c2 : Nat) :
    gstep t.grid (.swapCols c1 c2) = some (hstep m t (.swapCols c1 c2)).grid := by
  show (if c1 < (t.grid.head?.map List.length).getD 0 ∧ c2 < (t.grid.head?.map List.length).getD 0 then
      some (gridPerm t.grid (swapColsG c1 c2)) else some t.grid)
    = some (t.withData (t.acc.swapCols t.data c1 c2)).grid
  rw [hs_headC t h]
  by_cases hc : c1 < t.numCols ∧ c2 < t.numCols
  · rw [if_pos hc, (hs_swapCols t h c1 c2).1 hc, hs_gridPerm t h _ (hs_swapColsG_cells t hc)]
    exact congrArg some (hs_grid_gather t h _ (hs_swapColsG_cells t hc)).symm
  · rw [if_neg hc, (hs_swapCols t h c1 c2).2 hc]
    rfl

theorem hs_ref_flipRows (m : Mode) (t : TD α) (h : t.Inv) :
    gstep t.grid .flipRows = some (hstep m t .flipRows).grid := by
  show some t.grid.reverse = some (t.withData (t.acc.flipRows m t.data)).grid
  rw [hs_flipRows m t h]
  congr 1
  rw [hs_grid_cells t h, cellsGrid_reverse]
  exact (hs_grid_gather t h _ (hs_flipRowsG_cells t)).symm

theorem hs_ref_flipCols (m : Mode) (t : TD α) (h : t.Inv) :
    gstep t.grid .flipCols = some (hstep m t .flipCols).grid := by
  show some (t.grid.map List.reverse) = some (t.withData (t.acc.flipCols t.data)).grid
  rw [hs_flipCols t h]
  congr 1
  rw [hs_grid_cells t h, cellsGrid_map_reverse]
  exact (hs_grid_gather t h _ (hs_flipColsG_cells t)).symm

/-! ### insertion against the rows-of-cells model -/

theorem hs_all_some (ev : List (Option α)) (hall : ev.all Option.isSome = true) :
    ev = (ev.filterMap id).map some := by
  induction ev with
  | nil => rfl
  | cons e ev ih =>
    cases e with
    | none => simp at hall
    | some a =>
      have h2 : ev.all Option.isSome = true := by
        simp only [List.all_cons, Bool.and_eq_true] at hall
        exact hall.2
      have e : (some a :: ev).filterMap id = a :: ev.filterMap id := rfl
      rw [e, List.map_cons, ← ih h2]

theorem hs_events_honest (it : IterScript α) (hall : it.events.all Option.isSome = true)
    (hcl : it.claimed = (it.events.filterMap id).length) : it = honest (it.events.filterMap id) := by
  cases it with
  | mk claimed events =>
    simp only at hall hcl
    unfold honest
    rw [← hs_all_some events hall, ← hcl]

theorem hs_toRows_single (xs : List α) (hx : xs ≠ []) : toRows xs.length xs = [xs] := by
  have hpos : 0 < xs.length := List.length_pos_iff.2 hx
  have := toRows_flatten xs.length hpos [xs] (by simp)
  simpa using this

theorem hs_toRows_one (xs : List α) : toRows 1 xs = xs.map fun x => [x] := by
  have hf : (xs.map fun x => [x]).flatten = xs := by
    induction xs with
    | nil => rfl
    | cons x xs ih => simp [ih]
  have := toRows_flatten 1 (by omega) (xs.map fun x => [x]) (by simp)
  rw [hf] at this
  exact this

theorem hs_ref_insertRow (m : Mode) (t : TD α) (h : t.Inv) (i : Nat) (it : IterScript α) (spare : List α)
    (hop : it.claimed ≤ spare.length) (hfit : t.data.length + it.claimed < WORD - 1)
    (g' : List (List α)) (hg : gstep t.grid (.insertRow i it spare) = some g') :
    (hstep m t (.insertRow i it spare)).grid = g' := by
  have hg2 : (if it.events.all Option.isSome ∧ it.claimed = (it.events.filterMap id).length then
      (if t.grid = [] then some (if i = 0 ∧ it.events.filterMap id ≠ [] then [it.events.filterMap id] else [])
       else if i ≤ t.grid.length ∧ (it.events.filterMap id).length = (t.grid.head?.map List.length).getD 0
         then some (t.grid.insertIdx i (it.events.filterMap id)) else some t.grid)
      else none) = some g' := hg
  by_cases hcond : it.events.all Option.isSome ∧ it.claimed = (it.events.filterMap id).length
  · rw [if_pos hcond] at hg2
    have hit := hs_events_honest it hcond.1 hcond.2
    generalize it.events.filterMap id = xs at hit hg2
    subst hit
    have hop' : xs.length ≤ spare.length := hop
    have hfit' : t.data.length + xs.length < WORD - 1 := hfit
    have hcap : t.data.length + xs.length ≤ histCap := by unfold histCap; omega
    have hword : t.data.length + xs.length < WORD := by omega
    show (t.insertRow m histCap i (honest xs) spare).t.grid = g'
    rw [h.grid_length, hs_headC t h] at hg2
    by_cases hg0 : t.grid = []
    · rw [if_pos hg0] at hg2
      injection hg2 with hg2
      have hR0 : t.numRows = 0 := (hs_grid_eq_nil t h).1 hg0
      have hd0 : t.data = [] := by
        apply List.eq_nil_of_length_eq_zero
        rw [h.len, hR0, Nat.mul_zero]
      by_cases hi0 : i = 0
      · subst hi0
        obtain ⟨_, _, _, _, hdata, hnc, _⟩ :=
          C06_insert_row_ok m histCap t h 0 xs spare (Nat.zero_le _) (Or.inl hR0) hcap hop' hword
        show toRows _ _ = g'
        rw [hnc, hdata, hd0]
        simp only [List.take_nil, List.drop_nil, List.nil_append, List.append_nil]
        by_cases hx : xs = []
        · rw [if_neg (fun hc => hc.2 hx)] at hg2
          rw [← hg2, hx]
          exact rl_toRows_nil _
        · rw [if_pos ⟨rfl, hx⟩] at hg2
          rw [← hg2]
          exact hs_toRows_single xs hx
      · rw [if_neg (fun hc => hi0 hc.1)] at hg2
        have hrej := (C06_insert_row_reject m histCap t i (honest xs) spare (by omega)).2.1
        rw [hrej, hg0, hg2]
    · rw [if_neg hg0] at hg2
      have hR0 : t.numRows ≠ 0 := fun h0 => hg0 ((hs_grid_eq_nil t h).2 h0)
      have hC0 : 0 < t.numCols := h.cols_pos (r := 0) (by omega)
      by_cases hacc : i ≤ t.numRows ∧ xs.length = t.numCols
      · rw [if_pos hacc] at hg2
        injection hg2 with hg2
        rw [← hg2]
        exact C06_insert_row_grid m histCap t h i xs spare hacc.1 hacc.2 (by omega) hcap hop' hword
      · rw [if_neg hacc] at hg2
        injection hg2 with hg2
        have hbad : ¬ (i ≤ t.numRows ∧ (t.numRows = 0 ∨ (honest xs).claimed = t.numCols)) := by
          rintro ⟨h1, h2 | h2⟩
          · exact hR0 h2
          · exact hacc ⟨h1, h2⟩
        have hrej := (C06_insert_row_reject m histCap t i (honest xs) spare hbad).2.1
        rw [hrej, hg2]
  · rw [if_neg hcond] at hg2
    cases hg2

theorem hs_ref_insertCol (m : Mode) (t : TD α) (h : t.Inv) (i : Nat) (it : IterScript α) (spare : List α)
    (hop : it.claimed ≤ spare.length) (hfit : t.data.length + it.claimed < WORD - 1)
    (g' : List (List α)) (hg : gstep t.grid (.insertCol i it spare) = some g') :
    (hstep m t (.insertCol i it spare)).grid = g' := by
  have hg2 : (if it.events.all Option.isSome ∧ it.claimed = (it.events.filterMap id).length then
      (if t.grid = [] then some (if i = 0 then (it.events.filterMap id).map (fun x => [x]) else [])
       else if i ≤ (t.grid.head?.map List.length).getD 0 ∧ (it.events.filterMap id).length = t.grid.length
         then some (List.zipWith (insAt i) t.grid (it.events.filterMap id)) else some t.grid)
      else none) = some g' := hg
  by_cases hcond : it.events.all Option.isSome ∧ it.claimed = (it.events.filterMap id).length
  · rw [if_pos hcond] at hg2
    have hit := hs_events_honest it hcond.1 hcond.2
    generalize it.events.filterMap id = xs at hit hg2
    subst hit
    have hop' : xs.length ≤ spare.length := hop
    have hfit' : t.data.length + xs.length < WORD - 1 := hfit
    have hcap : t.data.length + xs.length ≤ histCap := by unfold histCap; omega
    have hword : t.data.length + xs.length < WORD := by omega
    show (t.insertCol m histCap i (honest xs) spare).t.grid = g'
    rw [h.grid_length, hs_headC t h] at hg2
    by_cases hg0 : t.grid = []
    · rw [if_pos hg0] at hg2
      injection hg2 with hg2
      have hR0 : t.numRows = 0 := (hs_grid_eq_nil t h).1 hg0
      have hC0 : t.numCols = 0 := h.zero.2 hR0
      by_cases hi0 : i = 0
      · subst hi0
        rw [if_pos rfl] at hg2
        obtain ⟨_, _, _, _, hdata, _, hnc⟩ :=
          C06_insert_col_ok m histCap t h 0 xs spare (Nat.zero_le _) (Or.inl hC0) hcap hop' hword
        show toRows _ _ = g'
        rw [hnc, hdata, if_pos hC0, ← hg2]
        by_cases hx : xs.length = 0
        · rw [if_pos hx, List.eq_nil_of_length_eq_zero hx]
          exact rl_toRows_nil _
        · rw [if_neg hx, hC0]
          exact hs_toRows_one xs
      · rw [if_neg hi0] at hg2
        have hrej := (C06_insert_col_reject m histCap t i (honest xs) spare (by omega)).2.1
        rw [hrej, hg0, hg2]
    · rw [if_neg hg0] at hg2
      have hR0 : t.numRows ≠ 0 := fun h0 => hg0 ((hs_grid_eq_nil t h).2 h0)
      have hC0 : 0 < t.numCols := h.cols_pos (r := 0) (by omega)
      by_cases hacc : i ≤ t.numCols ∧ xs.length = t.numRows
      · rw [if_pos hacc] at hg2
        injection hg2 with hg2
        rw [← hg2]
        exact C06_insert_col_grid m histCap t h i xs spare hacc.1 hacc.2 hC0 hcap hop' hword
      · rw [if_neg hacc] at hg2
        injection hg2 with hg2
        have hbad : ¬ (i ≤ t.numCols ∧ (t.numCols = 0 ∨ (honest xs).claimed = t.numRows)) := by
          rintro ⟨h1, h2 | h2⟩
          · omega
          · exact hacc ⟨h1, h2⟩
        have hrej := (C06_insert_col_reject m histCap t i (honest xs) spare hbad).2.1
        rw [hrej, hg2]
  · rw [if_neg hcond] at hg2
    cases hg2

/-! ### the remaining operations against the rows-of-cells model -/

theorem hs_ref_fromVec (m : Mode) (t : TD α) (c r : Nat) (v : List α) :
    gstep t.grid (.fromVec c r v) = some (hstep m t (.fromVec c r v)).grid := by
  show (if specShapeOk c r ∧ c * r = v.length then some (toRows c v) else some t.grid)
    = some (match TD.fromVec c r v with | .ok t' => t' | .error _ => t).grid
  have hsp : specShapeOk c r = true ↔ shapeOk c r := by
    unfold specShapeOk shapeOk
    exact decide_eq_true_iff
  by_cases hs : shapeOk c r ∧ c * r = v.length
  · obtain ⟨t', e, _, hc, _, hd⟩ := (C20_from_vec c r v).1 hs
    rw [if_pos ⟨hsp.2 hs.1, hs.2⟩, e]
    show _ = some (toRows t'.numCols t'.data)
    rw [hc, hd]
  · rw [if_neg (fun hc => hs ⟨hsp.1 hc.1, hc.2⟩), (C20_from_vec c r v).2 hs]

theorem hs_ref_swapDimensions (m : Mode) (t : TD α) (h : t.Inv) :
    gstep t.grid .swapDimensions = some (hstep m t .swapDimensions).grid := by
  show some (toRows t.grid.length t.grid.flatten) = some (toRows t.numRows t.data)
  rw [h.grid_length, ← h.data_eq_flatten_grid]

theorem hs_ref_swap (m : Mode) (t : TD α) (h : t.Inv) (c1 r1 c2 r2 : Nat) :
    gstep t.grid (.swap c1 r1 c2 r2) = some (hstep m t (.swap c1 r1 c2 r2)).grid := by
  show (if c1 < (t.grid.head?.map List.length).getD 0 ∧ c2 < (t.grid.head?.map List.length).getD 0 ∧
        r1 < t.grid.length ∧ r2 < t.grid.length then
      some (gridPerm t.grid (swapCellG (c1, r1) (c2, r2))) else some t.grid)
    = some (t.withData (t.swap m c1 r1 c2 r2)).grid
  rw [hs_headC t h, h.grid_length]
  by_cases hr : c1 < t.numCols ∧ c2 < t.numCols ∧ r1 < t.numRows ∧ r2 < t.numRows
  · have hcw := h.cols_word
    have hrw := h.rows_word
    rw [if_pos hr, (C13_swap_owned m t h c1 r1 c2 r2 ⟨by omega, by omega, by omega, by omega⟩).1 hr,
      hs_gridPerm t h _ (hs_swapCellG_cells t hr)]
    exact congrArg some (hs_grid_gather t h _ (hs_swapCellG_cells t hr)).symm
  · rw [if_neg hr, hs_swap_reject m t c1 r1 c2 r2 hr]
    rfl

theorem hs_ref_copyFromSlice (m : Mode) (t : TD α) (h : t.Inv) (src : List α) :
    gstep t.grid (.copyFromSlice src) = some (hstep m t (.copyFromSlice src)).grid := by
  show (if (t.grid.head?.map List.length).getD 0 * t.grid.length = src.length then
      some (toRows ((t.grid.head?.map List.length).getD 0) src) else some t.grid)
    = some (t.withData (t.copyFromSlice src)).grid
  rw [hs_headC t h, h.grid_length, ← h.len]
  unfold TD.copyFromSlice
  by_cases hl : t.data.length = src.length
  · rw [if_pos hl, if_neg (by simpa using hl)]
    rfl
  · rw [if_neg hl, if_pos hl]
    rfl

theorem hs_ref_translate (m : Mode) (t : TD α) (h : t.Inv) (mc mr : Nat) :
    gstep t.grid (.translate mc mr) = some (hstep m t (.translate mc mr)).grid := by
  show (if mc ≤ (t.grid.head?.map List.length).getD 0 ∧ mr ≤ t.grid.length then
      some (gridPerm t.grid (translateG ((t.grid.head?.map List.length).getD 0) t.grid.length mc mr)) else some t.grid)
    = some (t.withData (t.acc.translateWithWrap m (t.getUncheckedRow m) t.data (mc, mr))).grid
  rw [hs_headC t h, h.grid_length]
  by_cases hm : mc ≤ t.numCols ∧ mr ≤ t.numRows
  · have hcells := (C15_maps_bijective t.numCols t.numRows mc mr _ (List.mem_cons_self ..)).1
    rw [if_pos hm, C15_translate m t.asView t.data (C02_owned_as_view t h).1 t.acc (C13_acc_owned t h) _
      (hs_getUncheckedRow m t h) (mc, mr) hm, hs_gridPerm t h _ hcells]
    exact congrArg some (hs_grid_gather t h _ hcells).symm
  · rw [if_neg hm, C15_translate_reject m t.acc _ t.data (mc, mr) hm]
    rfl

/-- the key row of `sort_by_row` is the grid's row -/
theorem hs_row_key (t : TD α) (h : t.Inv) (row : Nat) (hr : row < t.numRows) :
    t.grid[row]?.getD [] = readWin t.data (t.asView.rowWin row) := by
  have hC : 0 < t.numCols := h.cols_pos hr
  have hdiv : t.data.length / t.numCols = t.numRows := by
    rw [h.len, Nat.mul_div_cancel_left _ hC]
  unfold TD.grid toRows
  rw [List.getElem?_map, hdiv, List.getElem?_range hr]
  show (t.data.drop (row * t.numCols)).take t.numCols = (t.data.drop (0 + row * t.numCols + 0)).take t.numCols
  rw [Nat.zero_add, Nat.add_zero]

/-- the key column of `sort_by_col` is the grid's column -/
theorem hs_col_key (t : TD α) (h : t.Inv) (col : Nat) (hc : col < t.numCols) :
    t.grid.filterMap (·[col]?) = (List.range t.numRows).filterMap fun r => t.data[t.asView.pos col r]? := by
  have hdiv : t.data.length / t.numCols = t.numRows := by
    rw [h.len, Nat.mul_div_cancel_left _ (by omega)]
  unfold TD.grid toRows
  rw [List.filterMap_map, hdiv]
  apply filterMap_congr_mem
  intro r _
  show ((t.data.drop (r * t.numCols)).take t.numCols)[col]? = t.data[0 + r * t.numCols + col]?
  rw [List.getElem?_take, if_pos hc, List.getElem?_drop, Nat.zero_add]

theorem hs_ref_sortByRow (m : Mode) (t : TD α) (h : t.Inv) (le : α → α → Bool) (row : Nat) :
    gstep t.grid (.sortByRow le row) = some (hstep m t (.sortByRow le row)).grid := by
  show (if row < t.grid.length then
      some (gridPerm t.grid (sortColsG (stablePerm le (t.grid[row]?.getD [])))) else some t.grid)
    = some (t.withData (t.acc.sortByRow (t.indexRow m) t.data le row)).grid
  rw [h.grid_length]
  have hv := (C02_owned_as_view t h).1
  have hs := C16_sort_by_row t.asView t.data hv t.acc (C13_acc_owned t h) (t.indexRow m) (hs_indexRow m t h) le row
  by_cases hr : row < t.numRows
  · rw [if_pos hr, hs.1 hr, hs_row_key t h row hr]
    have hin := VW.rowWin_inside hv hr
    have hl : (readWin t.data (t.asView.rowWin row)).length = t.numCols := by
      simp only [readWin, List.length_take, List.length_drop]
      have : (t.asView.rowWin row).len = t.numCols := rfl
      omega
    have hp := stablePerm_perm le (readWin t.data (t.asView.rowWin row))
    rw [hl] at hp
    have hb := (C16_cols_bijective t.numCols t.numRows _ hp).1
    have hcells : ∀ c r, c < t.numCols → r < t.numRows →
        (sortColsG (stablePerm le (readWin t.data (t.asView.rowWin row))) (c, r)).1 < t.numCols ∧
        (sortColsG (stablePerm le (readWin t.data (t.asView.rowWin row))) (c, r)).2 < t.numRows :=
      fun c r hc hr' => ⟨(hb c r hc hr').1, by rw [(hb c r hc hr').2]; exact hr'⟩
    rw [hs_gridPerm t h _ hcells]
    exact congrArg some (hs_grid_gather t h _ hcells).symm
  · rw [if_neg hr, hs.2 hr]
    rfl

theorem hs_ref_sortByCol (m : Mode) (t : TD α) (h : t.Inv) (le : α → α → Bool) (col : Nat) :
    gstep t.grid (.sortByCol le col) = some (hstep m t (.sortByCol le col)).grid := by
  show (if col < (t.grid.head?.map List.length).getD 0 then
      some (gridPerm t.grid (sortRowsG (stablePerm le (t.grid.filterMap (·[col]?))))) else some t.grid)
    = some (t.withData (t.acc.sortByCol (t.col m)
        (fun b r1 r2 => ({ t with data := b } : TD α).swapRows m r1 r2) t.data le col)).grid
  rw [hs_headC t h]
  have hv := (C02_owned_as_view t h).1
  have hcw := h.cols_word
  have hcol : ∀ c, c < t.asView.numCols → ∃ it, t.col m c = .ok it ∧ it.WF t.asView.numRows t.data.length ∧
      it.abs t.asView.numRows = (List.range t.asView.numRows).map fun r => t.asView.pos c r := by
    intro c hc
    have hc' : c < t.numCols := hc
    obtain ⟨it, e, hwf, habs⟩ := (C09_col_owned m t h c (by omega)).1 hc'
    refine ⟨it, e, hwf, ?_⟩
    show it.abs t.numRows = _
    rw [habs]
    apply List.map_congr_left
    intro r _
    exact ((C02_owned_as_view t h).2 c r).symm
  have hsw : SwapRowsSpec t.asView t.data.length
      (fun b r1 r2 => ({ t with data := b } : TD α).swapRows m r1 r2) := by
    intro b r1 r2 hb hr1 hr2
    have hbi := h.with_data b hb
    have e := (hs_swapRows m _ hbi r1 r2).1 ⟨hr1, hr2⟩
    have hview : ({ t with data := b } : TD α).asView = t.asView := by
      simp only [TD.asView, TD.win, hb]
    rw [hview] at e
    exact e
  have hs := C17_sort_by_col t.asView t.data hv t.acc (C13_acc_owned t h) (t.col m) hcol _ hsw le col
  by_cases hc : col < t.numCols
  · rw [if_pos hc, hs.1 hc, hs_col_key t h col hc]
    have hp := stablePerm_perm le ((List.range t.asView.numRows).filterMap fun r => t.data[t.asView.pos col r]?)
    rw [col_keys_length t.asView t.data hv hc] at hp
    have hb := (C17_rows_bijective t.numCols t.numRows _ hp).1
    have hcells : ∀ c r, c < t.numCols → r < t.numRows →
        (sortRowsG (stablePerm le ((List.range t.asView.numRows).filterMap fun r => t.data[t.asView.pos col r]?)) (c, r)).1 < t.numCols ∧
        (sortRowsG (stablePerm le ((List.range t.asView.numRows).filterMap fun r => t.data[t.asView.pos col r]?)) (c, r)).2 < t.numRows :=
      fun c r hc' hr => ⟨by rw [(hb c r hc' hr).2]; exact hc', (hb c r hc' hr).1⟩
    have e1 := hs_gridPerm t h _ hcells
    have e2 := hs_grid_gather t h _ hcells
    show some (gridPerm t.grid (sortRowsG (stablePerm le
      ((List.range t.asView.numRows).filterMap fun r => t.data[t.asView.pos col r]?)))) = _
    rw [e1]
    exact congrArg some e2.symm
  · rw [if_neg hc, hs.2 hc]
    rfl

end Toodee
