import Toodee.Proofs.SwapTrace
import Toodee.Proofs.CellsLemmas
/-
  Helper lemmas for C16 / C17 (sorting by a row / by a column):

  * the stable side sort `stablePerm` (facts about `List.mergeSort` from core);
  * folding operations that are cell permutations (`foldlM_gather_mapCells`, `compCells`);
  * applying a swap trace to one row, to all rows (columns permuted), with `swap_rows` (rows permuted).
-/
namespace Toodee
variable {α : Type}

/-! ### the stable side sort -/

/-- in a list without duplicates a two-element sublist appears in index order -/
theorem nodup_pair_sublist_lt {β : Type} {l : List β} (hn : l.Nodup) {u w : β} (hs : [u, w].Sublist l)
    {i j : Nat} (hi : l[i]? = some u) (hj : l[j]? = some w) : i < j := by
  induction l generalizing i j with
  | nil => cases hs
  | cons x l' ih =>
    have hx : x ∉ l' := (List.nodup_cons.1 hn).1
    cases hs with
    | cons _ h =>
      have hu : u ∈ l' := h.subset (by simp)
      have hw : w ∈ l' := h.subset (by simp)
      cases i with
      | zero => simp at hi; subst hi; exact absurd hu hx
      | succ i' =>
        cases j with
        | zero => simp at hj; subst hj; exact absurd hw hx
        | succ j' =>
          have := ih (List.nodup_cons.1 hn).2 h (by simpa using hi) (by simpa using hj)
          omega
    | cons_cons _ h =>
      have hw : w ∈ l' := h.subset (by simp)
      cases j with
      | zero => simp at hj; subst hj; exact absurd hw hx
      | succ j' =>
        cases i with
        | zero => omega
        | succ i' =>
          have : u ∈ l' := List.mem_of_getElem? (by simpa using hi)
          exact absurd this hx

theorem stablePerm_perm (le : α → α → Bool) (keys : List α) :
    (stablePerm le keys).Perm (List.range keys.length) := by
  unfold stablePerm
  have h := (List.mergeSort_perm keys.zipIdx (fun a b => le a.1 b.1)).map (·.2)
  refine h.trans ?_
  have := List.zipIdx_map_snd 0 keys
  rw [List.range_eq_range', ← this]

theorem stablePerm_length (le : α → α → Bool) (keys : List α) : (stablePerm le keys).length = keys.length := by
  simp [stablePerm]

/-- the sorted list of `(key, index)` pairs behind `stablePerm` -/
def sortedPairs (le : α → α → Bool) (keys : List α) : List (α × Nat) :=
  keys.zipIdx.mergeSort fun a b => le a.1 b.1

theorem stablePerm_eq (le : α → α → Bool) (keys : List α) :
    stablePerm le keys = (sortedPairs le keys).map (·.2) := rfl

theorem mem_sortedPairs {le : α → α → Bool} {keys : List α} {x : α × Nat} (hx : x ∈ sortedPairs le keys) :
    keys[x.2]? = some x.1 :=
  List.mem_zipIdx_iff_getElem?.1 (List.mem_mergeSort.1 hx)

theorem stablePerm_keys (le : α → α → Bool) (keys : List α) :
    (stablePerm le keys).filterMap (keys[·]?) = (sortedPairs le keys).map (·.1) := by
  rw [stablePerm_eq, List.filterMap_map, ← List.filterMap_eq_map]
  apply filterMap_congr_mem
  intro x hx
  exact mem_sortedPairs hx

theorem stablePerm_sorted (le : α → α → Bool) (htrans : ∀ a b c, le a b → le b c → le a c)
    (htotal : ∀ a b, le a b ∨ le b a) (keys : List α) :
    ((stablePerm le keys).filterMap (keys[·]?)).Pairwise (fun a b => le a b = true) := by
  rw [stablePerm_keys, List.pairwise_map]
  exact List.pairwise_mergeSort (le := fun a b : α × Nat => le a.1 b.1)
    (fun a b c => htrans a.1 b.1 c.1) (fun a b => by simpa using htotal a.1 b.1) keys.zipIdx

theorem stablePerm_stable (le : α → α → Bool) (htrans : ∀ a b c, le a b → le b c → le a c)
    (htotal : ∀ a b, le a b ∨ le b a) (keys : List α) (i j : Nat) (hij : i < j) (hj : j < keys.length)
    (a b : α) (ha : keys[(stablePerm le keys).getD i 0]? = some a)
    (hb : keys[(stablePerm le keys).getD j 0]? = some b) (hba : le b a = true) :
    (stablePerm le keys).getD i 0 < (stablePerm le keys).getD j 0 := by
  have hlen : (sortedPairs le keys).length = keys.length := by simp [sortedPairs]
  have hnd : (stablePerm le keys).Nodup := (stablePerm_perm le keys).nodup_iff.2 List.nodup_range
  have hndS : (sortedPairs le keys).Nodup := by
    rw [stablePerm_eq] at hnd
    exact List.Pairwise.of_map (·.2) (fun a b (h : a.2 ≠ b.2) e => h (by rw [e])) hnd
  have hi : i < (sortedPairs le keys).length := by omega
  have hj' : j < (sortedPairs le keys).length := by omega
  have gi : (stablePerm le keys).getD i 0 = ((sortedPairs le keys)[i]).2 := by
    simp [stablePerm_eq, List.getD_eq_getElem?_getD, hi]
  have gj : (stablePerm le keys).getD j 0 = ((sortedPairs le keys)[j]).2 := by
    simp [stablePerm_eq, List.getD_eq_getElem?_getD, hj']
  have mi := mem_sortedPairs (List.getElem_mem hi)
  have mj := mem_sortedPairs (List.getElem_mem hj')
  rw [gi] at ha ⊢
  rw [gj] at hb ⊢
  rw [mi] at ha
  rw [mj] at hb
  have ea : (sortedPairs le keys)[i].1 = a := Option.some.inj ha
  have eb : (sortedPairs le keys)[j].1 = b := Option.some.inj hb
  -- suppose not
  apply Classical.byContradiction
  intro hnot
  have hne : (sortedPairs le keys)[i].2 ≠ (sortedPairs le keys)[j].2 := by
    intro he
    have : (stablePerm le keys)[i]? = (stablePerm le keys)[j]? := by
      simp [stablePerm_eq, hi, hj', he]
    have := (List.getElem?_inj (by rw [stablePerm_length]; omega) hnd).1 this
    omega
  have hlt : (sortedPairs le keys)[j].2 < (sortedPairs le keys)[i].2 := by omega
  -- `[S[j], S[i]]` is a sublist of `zipIdx` in index order, with `le b a`
  have hyl : (sortedPairs le keys)[j].2 < keys.zipIdx.length := by
    have := mj; rw [List.length_zipIdx]
    exact (List.getElem?_eq_some_iff.1 this).1
  have hxl : (sortedPairs le keys)[i].2 < keys.zipIdx.length := by
    have := mi; rw [List.length_zipIdx]
    exact (List.getElem?_eq_some_iff.1 this).1
  have hsub : [(sortedPairs le keys)[j], (sortedPairs le keys)[i]].Sublist keys.zipIdx := by
    have := List.map_getElem_sublist (l := keys.zipIdx)
      (is := [⟨(sortedPairs le keys)[j].2, hyl⟩, ⟨(sortedPairs le keys)[i].2, hxl⟩]) (by simpa using hlt)
    have e1 : keys.zipIdx[(sortedPairs le keys)[j].2]'hyl = (sortedPairs le keys)[j] := by
      rw [List.getElem_zipIdx]
      apply Prod.ext
      · have := mj; rw [List.getElem?_eq_getElem (by simpa using hyl)] at this
        exact Option.some.inj this
      · simp
    have e2 : keys.zipIdx[(sortedPairs le keys)[i].2]'hxl = (sortedPairs le keys)[i] := by
      rw [List.getElem_zipIdx]
      apply Prod.ext
      · have := mi; rw [List.getElem?_eq_getElem (by simpa using hxl)] at this
        exact Option.some.inj this
      · simp
    simp only [List.map_cons, List.map_nil, Fin.getElem_fin, e1, e2] at this
    exact this
  have hsub' := List.pair_sublist_mergeSort (le := fun a b : α × Nat => le a.1 b.1)
    (fun a b c => htrans a.1 b.1 c.1) (fun a b => by simpa using htotal a.1 b.1)
    (by show le _ _ = true; rw [ea, eb]; exact hba) hsub
  have := nodup_pair_sublist_lt hndS hsub' (List.getElem?_eq_getElem hj') (List.getElem?_eq_getElem hi)
  omega

/-! ### folding cell permutations -/

/-- a cell map that sends cells of `v` to cells of `v` -/
def CellMap (v : VW) (g : Nat × Nat → Nat × Nat) : Prop :=
  ∀ c r, c < v.numCols → r < v.numRows → (g (c, r)).1 < v.numCols ∧ (g (c, r)).2 < v.numRows

/-- composition of cell maps: the first of the list is applied last (it is the first *operation*) -/
def compCells : List (Nat × Nat → Nat × Nat) → Nat × Nat → Nat × Nat
  | [], cr => cr
  | g :: gs, cr => g (compCells gs cr)

theorem compCells_cellMap (v : VW) (gs : List (Nat × Nat → Nat × Nat)) (hg : ∀ g ∈ gs, CellMap v g) :
    CellMap v (compCells gs) := by
  induction gs with
  | nil => exact fun c r hc hr => ⟨hc, hr⟩
  | cons g gs ih =>
    intro c r hc hr
    have h1 := ih (fun g' h => hg g' (by simp [h])) c r hc hr
    exact hg g (by simp) _ _ h1.1 h1.2

/-- a sequence of operations each of which is a cell permutation of `v` is one cell permutation -/
theorem foldlM_gather_mapCells {ι : Type} (v : VW) (n : Nat) (h : v.Inv n) (step : List α → ι → Res (List α))
    (G : ι → Nat × Nat → Nat × Nat) (l : List ι) (hG : ∀ x ∈ l, CellMap v (G x))
    (hstep : ∀ x ∈ l, ∀ b : List α, b.length = n → step b x = .ok (gather b (v.mapCells (G x))))
    (buf : List α) (hlen : buf.length = n) :
    l.foldlM step buf = .ok (gather buf (v.mapCells (compCells (l.map G)))) := by
  induction l generalizing buf with
  | nil =>
    rw [gather_eq_self]
    · rfl
    · intro p _
      exact VW.mapCells_eq_self _ (fun c r _ _ => rfl) p
  | cons x xs ih =>
    have hx := hG x (by simp)
    have hxs : ∀ y ∈ xs, CellMap v (G y) := fun y hy => hG y (by simp [hy])
    subst hlen
    rw [List.foldlM_cons, hstep x (by simp) buf rfl]
    simp only [ok_bind]
    rw [ih hxs (fun y hy => hstep y (by simp [hy])) _ (gather_mapCells_length buf h _ hx),
      gather_mapCells_comp buf h _ _ hx (compCells_cellMap v _ (by
        intro g hg
        obtain ⟨y, hy, rfl⟩ := List.mem_map.1 hg
        exact hxs y hy))]
    rfl

/-! ### applying a swap trace -/

/-- `ptr::swap` of two cells of row `ρ` -/
theorem VW.swapPosMap_row {v : VW} {n : Nat} (h : v.Inv n) {i j ρ : Nat} (hi : i < v.numCols) (hj : j < v.numCols)
    (hρ : ρ < v.numRows) (p : Nat) :
    swapPosMap (v.pos i ρ) (v.pos j ρ) p
      = v.mapCells (fun cr => if cr.2 = ρ then (swapIdx i j cr.1, cr.2) else cr) p := by
  rw [VW.swapPosMap_cells h (a := (i, ρ)) (b := (j, ρ)) hi hρ hj hρ p]
  apply VW.mapCells_congr
  intro c r _ _
  by_cases h1 : r = ρ
  · subst h1
    by_cases h2 : c = i
    · subst h2; simp [swapIdx]
    · by_cases h3 : c = j
      · subst h3; simp [swapIdx, h2]
      · simp [swapIdx, h2, h3]
  · simp [h1]

theorem compCells_row_swaps (ρ : Nat) (tr : List (Nat × Nat)) (cr : Nat × Nat) :
    compCells (tr.map fun ij cr => if cr.2 = ρ then (swapIdx ij.1 ij.2 cr.1, cr.2) else cr) cr
      = if cr.2 = ρ then (traceMap tr cr.1, cr.2) else cr := by
  induction tr with
  | nil => simp [compCells, traceMap]
  | cons t rest ih =>
    simp only [List.map_cons, compCells, ih]
    by_cases h : cr.2 = ρ
    · simp [h, traceMap]
    · simp [h]

/-- the swap loop over one row: the cells of that row are read through `traceMap` -/
theorem applyTraceRow_spec {v : VW} {n : Nat} (h : v.Inv n) {ρ : Nat} (hρ : ρ < v.numRows) (tr : List (Nat × Nat))
    (hb : ∀ ij ∈ tr, ij.1 < v.numCols ∧ ij.2 < v.numCols) (b : List α) (hl : b.length = n) :
    applyTraceRow b (v.rowWin ρ) tr
      = .ok (gather b (v.mapCells (fun cr => if cr.2 = ρ then (traceMap tr cr.1, cr.2) else cr))) := by
  unfold applyTraceRow
  rw [foldlM_gather_mapCells v n h _
    (fun ij cr => if cr.2 = ρ then (swapIdx ij.1 ij.2 cr.1, cr.2) else cr) tr ?_ ?_ b hl]
  · congr 1
    apply gather_congr
    intro p _
    apply VW.mapCells_congr
    intro c r _ _
    exact compCells_row_swaps ρ tr (c, r)
  · intro ij hij c r hc hr
    have := hb ij hij
    by_cases h1 : r = ρ
    · simp only [h1, if_true]; exact ⟨swapIdx_lt this.1 this.2 hc, hρ⟩
    · simp only [if_neg h1]; exact ⟨hc, hr⟩
  · intro ij hij b' _
    have := hb ij hij
    simp only [Win.getIdx, VW.rowWin, this.1, this.2, if_true, pure_eq, ok_bind, VW.pos_zero_add]
    congr 1
    apply gather_congr
    intro p _
    exact VW.swapPosMap_row h this.1 this.2 hρ p

theorem compCells_rows (T : Nat → Nat) (l : List Nat) (hn : l.Nodup) (cr : Nat × Nat) :
    compCells (l.map fun ρ cr => if cr.2 = ρ then (T cr.1, cr.2) else cr) cr
      = if cr.2 ∈ l then (T cr.1, cr.2) else cr := by
  induction l with
  | nil => simp [compCells]
  | cons ρ rs ih =>
    obtain ⟨h1, h2⟩ := List.nodup_cons.1 hn
    simp only [List.map_cons, compCells, ih h2]
    by_cases h : cr.2 = ρ
    · subst h
      simp [h1]
    · by_cases h3 : cr.2 ∈ rs
      · simp [h, h3]
      · simp [h, h3]

/-- `for r in rows_mut()` visits the row windows top to bottom -/
theorem sort_collect_rows {a : Acc} {v : VW} {n : Nat} (ha : a.Of v n) :
    a.rows.collect (a.rows.v.len + 2) = .ok ((List.range v.numRows).map v.rowWin) := by
  have hwf := ha.wf
  have hk : v.numRows < a.rows.v.len + 2 := by
    by_cases hR : v.numRows = 0
    · omega
    · have hc := hwf.cols_pos hR
      have hl := hwf.len
      rw [if_neg hR] at hl
      have := Nat.le_mul_of_pos_right (v.numRows - 1) (show 0 < a.rows.cols + a.rows.skip by omega)
      omega
  rw [Rows.collect_spec hwf _ hk, ha.abs]
  rfl

/-- reading `p` with either default inside its range -/
theorem getD_irrel (p : List Nat) {k : Nat} (hk : k < p.length) (d d' : Nat) : p.getD k d = p.getD k d' := by
  simp [List.getD_eq_getElem?_getD, hk]

/-- applying the swap trace of `p` to every row: new column `j` is old column `p[j]` -/
theorem applyColPerm_spec (v : VW) (buf : List α) (h : v.Inv buf.length) (a : Acc) (ha : a.Of v buf.length)
    (p : List Nat) (hp : p.Perm (List.range v.numCols)) :
    a.applyColPerm buf p = .ok (gather buf (v.mapCells (fun cr => (p.getD cr.1 cr.1, cr.2)))) := by
  have hlen : p.length = v.numCols := by rw [hp.length_eq, List.length_range]
  obtain ⟨tr, e1, hb, ht⟩ := buildSwapTrace_spec p (by rw [hlen]; exact hp)
  have hb' : ∀ ij ∈ tr, ij.1 < v.numCols ∧ ij.2 < v.numCols := fun ij hij => by
    have := hb ij hij; omega
  unfold Acc.applyColPerm
  rw [e1]
  simp only [ok_bind]
  rw [sort_collect_rows ha]
  simp only [ok_bind]
  rw [List.foldlM_map,
    foldlM_gather_mapCells v buf.length h _
      (fun ρ cr => if cr.2 = ρ then (traceMap tr cr.1, cr.2) else cr) (List.range v.numRows) ?_ ?_ buf rfl]
  · congr 1
    apply gather_congr
    intro q _
    apply VW.mapCells_congr
    intro c r hc hr
    rw [compCells_rows (traceMap tr) _ List.nodup_range (c, r)]
    rw [if_pos (List.mem_range.2 hr)]
    show (traceMap tr c, r) = (p.getD c c, r)
    rw [ht c (by omega), getD_irrel p (by omega) 0 c]
  · intro ρ _ c r hc hr
    by_cases h1 : r = ρ
    · simp only [h1, if_true]
      exact ⟨traceMap_lt tr hb' hc, by omega⟩
    · simp only [if_neg h1]; exact ⟨hc, hr⟩
  · intro ρ hρ b hl
    exact applyTraceRow_spec h (List.mem_range.1 hρ) tr hb' b hl

theorem compCells_swap_rows (tr : List (Nat × Nat)) (cr : Nat × Nat) :
    compCells (tr.map fun ij cr => (cr.1, swapIdx ij.1 ij.2 cr.2)) cr = (cr.1, traceMap tr cr.2) := by
  induction tr with
  | nil => simp [compCells, traceMap]
  | cons t rest ih => simp only [List.map_cons, compCells, ih, traceMap]

/-- applying the swap trace of `p` with `swap_rows`: new row `j` is old row `p[j]` -/
theorem applyRowPerm_spec (v : VW) (buf : List α) (h : v.Inv buf.length)
    (swapRows : List α → Nat → Nat → Res (List α))
    (hsw : ∀ b r1 r2, b.length = buf.length → r1 < v.numRows → r2 < v.numRows →
      swapRows b r1 r2 = .ok (gather b (v.mapCells (fun cr => (cr.1, swapIdx r1 r2 cr.2)))))
    (p : List Nat) (hp : p.Perm (List.range v.numRows)) :
    applyRowPerm swapRows buf p = .ok (gather buf (v.mapCells (fun cr => (cr.1, p.getD cr.2 cr.2)))) := by
  have hlen : p.length = v.numRows := by rw [hp.length_eq, List.length_range]
  obtain ⟨tr, e1, hb, ht⟩ := buildSwapTrace_spec p (by rw [hlen]; exact hp)
  have hb' : ∀ ij ∈ tr, ij.1 < v.numRows ∧ ij.2 < v.numRows := fun ij hij => by
    have := hb ij hij; omega
  unfold applyRowPerm
  rw [e1]
  simp only [ok_bind]
  rw [foldlM_gather_mapCells v buf.length h _
      (fun ij cr => (cr.1, swapIdx ij.1 ij.2 cr.2)) tr ?_ ?_ buf rfl]
  · congr 1
    apply gather_congr
    intro q _
    apply VW.mapCells_congr
    intro c r hc hr
    rw [compCells_swap_rows tr (c, r)]
    show (c, traceMap tr r) = (c, p.getD r r)
    rw [ht r (by omega), getD_irrel p (by omega) 0 r]
  · intro ij hij c r hc hr
    have := hb' ij hij
    exact ⟨hc, swapIdx_lt this.1 this.2 hr⟩
  · intro ij hij b hl
    have := hb' ij hij
    exact hsw b ij.1 ij.2 hl this.1 this.2

/-- `col(c)`'s cells collected: the keys of column `c` -/
theorem sort_collect_col {it : Col} {k n : Nat} (hwf : it.WF k n) :
    it.collect (it.v.len + 2) = .ok (it.abs k) := by
  have hk : k < it.v.len + 2 := by
    by_cases hR : k = 0
    · omega
    · have hl := hwf.len
      rw [if_neg hR] at hl
      have := Nat.le_mul_of_pos_right (k - 1) (show 0 < 1 + it.skip by omega)
      omega
  exact Col.collect_spec hwf _ hk

/-- the keys of a column: one per row -/
theorem col_keys_length (v : VW) (buf : List α) (h : v.Inv buf.length) {c : Nat} (hc : c < v.numCols) :
    ((List.range v.numRows).filterMap fun r => buf[v.pos c r]?).length = v.numRows := by
  rw [filterMap_length_of_isSome, List.length_range]
  intro r hr
  have := VW.pos_lt h hc (List.mem_range.1 hr)
  simp [this]

end Toodee
