import Toodee.Properties.C02
import Toodee.Properties.C03
import Toodee.Properties.C08
import Toodee.Properties.C09
import Toodee.Properties.C13
import Toodee.Properties.C14
import Toodee.Properties.C15
import Toodee.Properties.C16
import Toodee.Properties.C17
import Toodee.Proofs.MemLemmas
/-
  Helper lemmas for C04 / C13 (dispatch): each default-method body, called through an accessor `a` with `a.Of v n`,
  computes exactly `MOp.spec v lim buf op` — for *every* argument (also arguments `≥ 2^64`, which the per-operation
  theorems exclude: they are rejected like any other out-of-range argument).
-/
namespace Toodee
variable {α : Type}

/-! ### cursors: `nth` without the word bound -/

theorem RowsFrom.nth_any {v : VW} {n : Nat} {it : Rows} {r0 : Nat} (m : Mode) (h : RowsFrom v n it r0) (j : Nat) :
    ∃ it', it.nth m j = .ok (if r0 + j < v.numRows then some (v.rowWin (r0 + j)) else none, it') ∧
      RowsFrom v n it' (r0 + j + 1) := by
  obtain ⟨it', he, hwf, _, _, habs⟩ := Rows.nth_spec m h.wf j
  have hk : v.numRows - r0 - (j + 1) = v.numRows - (r0 + j + 1) := by omega
  refine ⟨it', ?_, ?_, ?_⟩
  · rw [he, h.abs]
    simp only [cells_map_range_getElem?]
    by_cases hlt : r0 + j < v.numRows
    · rw [if_pos hlt, if_pos (by omega)]
    · rw [if_neg hlt, if_neg (by omega)]
  · rw [← hk]; exact hwf
  · rw [← hk, habs, h.abs]
    simp only [cells_map_range_drop]
    apply List.map_congr_left
    intro i _
    congr 1; omega

theorem Acc.Of.nth_row_any {a : Acc} {v : VW} {n : Nat} (m : Mode) (ha : a.Of v n) (r : Nat) :
    ∃ it', a.rows.nth m r = .ok (if r < v.numRows then some (v.rowWin r) else none, it') ∧
      RowsFrom v n it' (r + 1) := by
  simpa using ha.rowsFrom.nth_any m r

theorem Acc.Of.nth_row_pair_any {a : Acc} {v : VW} {n : Nat} (m : Mode) (ha : a.Of v n) {r1 r2 : Nat}
    (hlt : r1 < r2) :
    ∃ it' it'', a.rows.nth m r1 = .ok (if r1 < v.numRows then some (v.rowWin r1) else none, it') ∧
      it'.nth m (r2 - r1 - 1) = .ok (if r2 < v.numRows then some (v.rowWin r2) else none, it'') := by
  obtain ⟨it', h1, hf⟩ := ha.nth_row_any m r1
  obtain ⟨it'', h2, _⟩ := hf.nth_any m (r2 - r1 - 1)
  have he : r1 + 1 + (r2 - r1 - 1) = r2 := by omega
  rw [he] at h2
  exact ⟨it', it'', h1, h2⟩

/-! ### default `swap` for every argument -/

theorem Acc.swap_le_any (m : Mode) (v : VW) (buf : List α) (h : v.Inv buf.length) (a : Acc) (ha : a.Of v buf.length)
    (c1 r1 c2 r2 : Nat) (hle : r1 ≤ r2) :
    ((c1 < v.numCols ∧ c2 < v.numCols ∧ r1 < v.numRows ∧ r2 < v.numRows) →
      a.swap m buf (c1, r1) (c2, r2) = .ok (gather buf (v.mapCells (swapCellG (c1, r1) (c2, r2))))) ∧
    (¬ (c1 < v.numCols ∧ c2 < v.numCols ∧ r1 < v.numRows ∧ r2 < v.numRows) →
      a.swap m buf (c1, r1) (c2, r2) = .error .panic) := by
  have hC := ha.cols
  have hng : ¬ r2 < r1 := by omega
  rcases Nat.lt_or_eq_of_le hle with hlt | heq
  · obtain ⟨it', it'', n1, n2⟩ := ha.nth_row_pair_any m hlt
    have hne : ¬ r1 = r2 := by omega
    have e2 : usub m r2 r1 = .ok (r2 - r1) := usub_ok m _ _ (by omega)
    have e3 : usub m (r2 - r1) 1 = .ok (r2 - r1 - 1) := usub_ok m _ _ (by omega)
    constructor
    · rintro ⟨hc1, hc2, hr1, hr2⟩
      rw [if_pos hr1] at n1
      rw [if_pos hr2] at n2
      rw [← gather_swapCells buf h hc1 hr1 hc2 hr2]
      simp only [Acc.swap, gt_iff_lt, hng, hC, hc1, hc2, hne, n1, n2, e2, e3, unwrapWin,
        VW.rowWin_getIdx v _ hc1, VW.rowWin_getIdx v _ hc2,
        and_self, not_true_eq_false, if_false, ok_bind, pure_eq]
    · intro hn
      by_cases hc : c1 < v.numCols ∧ c2 < v.numCols
      · by_cases hr1 : r1 < v.numRows
        · have hr2 : ¬ r2 < v.numRows := fun hr2 => hn ⟨hc.1, hc.2, hr1, hr2⟩
          rw [if_pos hr1] at n1
          rw [if_neg hr2] at n2
          simp only [Acc.swap, gt_iff_lt, hng, hC, hc, hne, n1, n2, e2, e3, unwrapWin,
            and_self, not_true_eq_false, if_false, ok_bind, err_bind, pure_eq, throw_eq]
        · rw [if_neg hr1] at n1
          simp only [Acc.swap, gt_iff_lt, hng, hC, hc, n1, unwrapWin,
            and_self, not_true_eq_false, if_false, ok_bind, err_bind, pure_eq, throw_eq]
      · simp only [Acc.swap, gt_iff_lt, hng, hC, hc, not_false_eq_true, if_false, if_true, err_bind, throw_eq]
  · subst heq
    obtain ⟨it', n1, _⟩ := ha.nth_row_any m r1
    constructor
    · rintro ⟨hc1, hc2, hr1, -⟩
      rw [if_pos hr1] at n1
      rw [← gather_swapCells buf h hc1 hr1 hc2 hr1]
      simp only [Acc.swap, gt_iff_lt, hng, hC, hc1, hc2, n1, unwrapWin,
        VW.rowWin_getIdx v _ hc1, VW.rowWin_getIdx v _ hc2,
        and_self, not_true_eq_false, if_false, if_true, ok_bind, pure_eq]
    · intro hn
      by_cases hc : c1 < v.numCols ∧ c2 < v.numCols
      · have hr1 : ¬ r1 < v.numRows := fun hr1 => hn ⟨hc.1, hc.2, hr1, hr1⟩
        rw [if_neg hr1] at n1
        simp only [Acc.swap, gt_iff_lt, hng, hC, hc, n1, unwrapWin,
          and_self, not_true_eq_false, if_false, ok_bind, err_bind, pure_eq, throw_eq]
      · simp only [Acc.swap, gt_iff_lt, hng, hC, hc, not_false_eq_true, if_false, if_true, err_bind, throw_eq]

theorem Acc.swap_any (m : Mode) (v : VW) (buf : List α) (h : v.Inv buf.length) (a : Acc) (ha : a.Of v buf.length)
    (c1 r1 c2 r2 : Nat) :
    ((c1 < v.numCols ∧ c2 < v.numCols ∧ r1 < v.numRows ∧ r2 < v.numRows) →
      a.swap m buf (c1, r1) (c2, r2) = .ok (gather buf (v.mapCells (swapCellG (c1, r1) (c2, r2))))) ∧
    (¬ (c1 < v.numCols ∧ c2 < v.numCols ∧ r1 < v.numRows ∧ r2 < v.numRows) →
      a.swap m buf (c1, r1) (c2, r2) = .error .panic) := by
  by_cases hle : r1 ≤ r2
  · exact Acc.swap_le_any m v buf h a ha c1 r1 c2 r2 hle
  · have key := Acc.swap_le_any m v buf h a ha c2 r2 c1 r1 (by omega)
    rw [Acc.swap_comm_of_gt m a buf c1 r1 c2 r2 (by omega), swapCellG_comm]
    exact ⟨fun ⟨h1, h2, h3, h4⟩ => key.1 ⟨h2, h1, h4, h3⟩,
      fun hn => key.2 (fun ⟨h1, h2, h3, h4⟩ => hn ⟨h2, h1, h4, h3⟩)⟩

end Toodee

namespace Toodee
variable {α : Type}

/-! ### indexed writes -/

/-- writing one cell is the one-cell overwrite -/
theorem set_eq_updCells {v : VW} (buf : List α) (h : v.Inv buf.length) {c r : Nat} (hc : c < v.numCols)
    (hr : r < v.numRows) (x : α) :
    buf.set (v.pos c r) x = v.updCells buf (fun cr => if cr = (c, r) then some x else none) := by
  apply List.ext_getElem?
  intro p
  rw [VW.updCells_getElem?, List.getElem?_set]
  by_cases hp : v.pos c r = p
  · subst hp
    have hlt := VW.pos_lt h hc hr
    rw [if_pos rfl, VW.coord?_pos h hc hr, if_pos hlt, List.getElem?_eq_getElem hlt]
    simp
  · rw [if_neg hp]
    cases hq : v.coord? p with
    | none => simp
    | some cr =>
      obtain ⟨c', r'⟩ := cr
      obtain ⟨he, _, _⟩ := VW.coord?_eq_some hq
      have hne : ¬ (c', r') = (c, r) := by
        intro heq
        injection heq with h1 h2
        subst h1; subst h2
        exact hp he.symm
      simp [hne]

theorem spec_set {v : VW} (lim : Nat) (buf : List α) (h : v.Inv buf.length) (c r : Nat) (x : α) (res : Res Nat)
    (hok : c < v.numCols ∧ r < v.numRows → res = .ok (v.pos c r))
    (hbad : ¬ (c < v.numCols ∧ r < v.numRows) → res = .error .panic) :
    (res >>= fun p => pure (buf.set p x)) = (MOp.set c r x).spec v lim buf := by
  by_cases hv : c < v.numCols ∧ r < v.numRows
  · rw [hok hv, MOp.spec, if_pos hv, ok_bind, set_eq_updCells buf h hv.1 hv.2]
  · rw [hbad hv, MOp.spec, if_neg hv]; rfl

theorem spec_setInRow {v : VW} (lim : Nat) (buf : List α) (h : v.Inv buf.length) (c r : Nat) (x : α) (res : Res Win)
    (hok : r < v.numRows → res = .ok (v.rowWin r))
    (hbad : ¬ r < v.numRows → res = .error .panic) :
    (res >>= fun w => w.index c >>= fun p => pure (buf.set p x)) = (MOp.setInRow r c x).spec v lim buf := by
  by_cases hv : c < v.numCols ∧ r < v.numRows
  · have hi : (v.rowWin r).index c = .ok (v.pos c r) := by
      rw [Win.index_ok _ (show c < (v.rowWin r).len from hv.1)]
      simp [VW.rowWin, VW.pos]
    rw [hok hv.2, MOp.spec, if_pos hv, ok_bind, hi, ok_bind, set_eq_updCells buf h hv.1 hv.2]
  · rw [MOp.spec, if_neg hv]
    by_cases hr : r < v.numRows
    · have hc : ¬ c < v.numCols := fun hc => hv ⟨hc, hr⟩
      rw [hok hr, ok_bind, Win.index_panic _ (show (v.rowWin r).len ≤ c from Nat.not_lt.1 hc)]; rfl
    · rw [hbad hr]; rfl

end Toodee

namespace Toodee
variable {α : Type}

/-! ### the default bodies through an accessor: swaps, fill -/

theorem spec_fill_default {v : VW} (lim : Nat) (buf : List α) (h : v.Inv buf.length) (a : Acc) (ha : a.Of v buf.length)
    (x : α) : a.fill buf x = (MOp.fill x).spec v lim buf := by
  rw [C13_fill_default v buf h a ha x, MOp.spec]; rfl

theorem spec_swap_default {v : VW} (m : Mode) (lim : Nat) (buf : List α) (h : v.Inv buf.length) (a : Acc)
    (ha : a.Of v buf.length) (c1 r1 c2 r2 : Nat) :
    a.swap m buf (c1, r1) (c2, r2) = (MOp.swap c1 r1 c2 r2).spec v lim buf := by
  obtain ⟨h1, h2⟩ := Acc.swap_any m v buf h a ha c1 r1 c2 r2
  by_cases hv : c1 < v.numCols ∧ c2 < v.numCols ∧ r1 < v.numRows ∧ r2 < v.numRows
  · rw [h1 hv, MOp.spec, if_pos hv]; rfl
  · rw [h2 hv, MOp.spec, if_neg hv]; rfl

theorem spec_swapRows_of {v : VW} (lim : Nat) (buf : List α) (r1 r2 : Nat) (res : Res (List α))
    (hok : (r1 < v.numRows ∧ r2 < v.numRows) → res = .ok (gather buf (v.mapCells (swapRowsG r1 r2))))
    (hbad : ¬ (r1 < v.numRows ∧ r2 < v.numRows) → res = .error .panic) :
    res = (MOp.swapRows r1 r2).spec v lim buf := by
  by_cases hv : r1 < v.numRows ∧ r2 < v.numRows
  · rw [hok hv, MOp.spec, if_pos hv]; rfl
  · rw [hbad hv, MOp.spec, if_neg hv]; rfl

theorem spec_swapRows_default {v : VW} (m : Mode) (lim : Nat) (buf : List α) (h : v.Inv buf.length) (a : Acc)
    (ha : a.Of v buf.length) (r1 r2 : Nat) :
    a.swapRows m buf r1 r2 = (MOp.swapRows r1 r2).spec v lim buf := by
  apply spec_swapRows_of
  · intro hv
    exact (C13_swap_rows_default m v buf h a ha r1 r2
      ⟨Nat.lt_trans hv.1 h.rows_word, Nat.lt_trans hv.2 h.rows_word⟩).1 hv
  · intro hn
    simp [Acc.swapRows, ha.rows, hn]

theorem spec_swapRows_view {v : VW} (m : Mode) (lim : Nat) (buf : List α) (h : v.Inv buf.length) (r1 r2 : Nat) :
    v.swapRows m buf r1 r2 = (MOp.swapRows r1 r2).spec v lim buf := by
  apply spec_swapRows_of
  · intro hv
    exact (C13_swap_rows_view m v buf h r1 r2
      ⟨Nat.lt_trans hv.1 h.rows_word, Nat.lt_trans hv.2 h.rows_word⟩).1 hv
  · intro hn
    simp [VW.swapRows, hn]

theorem spec_swapRows_owned (m : Mode) (lim : Nat) (t : TD α) (h : t.Inv) (r1 r2 : Nat) :
    t.swapRows m r1 r2 = (MOp.swapRows r1 r2).spec t.asView lim t.data := by
  have hvi := (TD.asView_inv t h).1
  apply spec_swapRows_of
  · intro hv
    exact (C13_swap_rows_owned m t h r1 r2
      ⟨Nat.lt_trans hv.1 hvi.rows_word, Nat.lt_trans hv.2 hvi.rows_word⟩).1 hv
  · intro hn
    have hn' : ¬ (r1 < t.numRows ∧ r2 < t.numRows) := hn
    simp [TD.swapRows, hn']

theorem spec_swap_owned (m : Mode) (lim : Nat) (t : TD α) (h : t.Inv) (c1 r1 c2 r2 : Nat) :
    t.swap m c1 r1 c2 r2 = (MOp.swap c1 r1 c2 r2).spec t.asView lim t.data := by
  have hvi := (TD.asView_inv t h).1
  by_cases hv : c1 < t.asView.numCols ∧ c2 < t.asView.numCols ∧ r1 < t.asView.numRows ∧ r2 < t.asView.numRows
  · have hC := hvi.cols_word
    have hR := hvi.rows_word
    rw [(C13_swap_owned m t h c1 r1 c2 r2 ⟨by omega, by omega, by omega, by omega⟩).1 hv, MOp.spec, if_pos hv]; rfl
  · rw [MOp.spec, if_neg hv]
    have hn : ¬ (c1 < t.numCols ∧ c2 < t.numCols ∧ r1 < t.numRows ∧ r2 < t.numRows) := hv
    unfold TD.swap
    by_cases hc : c1 < t.numCols ∧ c2 < t.numCols
    · have hr : ¬ (r1 < t.numRows ∧ r2 < t.numRows) := fun hr => hn ⟨hc.1, hc.2, hr.1, hr.2⟩
      simp [hc, hr]
    · simp [hc]

theorem spec_swapCols_default {v : VW} (lim : Nat) (buf : List α) (h : v.Inv buf.length) (a : Acc)
    (ha : a.Of v buf.length) (c1 c2 : Nat) :
    a.swapCols buf c1 c2 = (MOp.swapCols c1 c2).spec v lim buf := by
  obtain ⟨h1, h2⟩ := C13_swap_cols v buf h a ha c1 c2
  by_cases hv : c1 < v.numCols ∧ c2 < v.numCols
  · rw [h1 hv, MOp.spec, if_pos hv]; rfl
  · rw [h2 hv, MOp.spec, if_neg hv]; rfl

theorem spec_fill_owned (lim : Nat) (t : TD α) (h : t.Inv) (x : α) :
    (pure (t.fill x) : Res (List α)) = (MOp.fill x).spec t.asView lim t.data := by
  rw [(C13_fill_owned t h x).1, MOp.spec]

end Toodee

namespace Toodee
variable {α : Type}

/-! ### the source of `copy_from_toodee` -/

theorem gcell_grid (t : TD α) (h : t.Inv) {c r : Nat} (hc : c < t.numCols) (hr : r < t.numRows) :
    gcell t.grid c r = t.data[r * t.numCols + c]? := by
  have hdiv : t.data.length / t.numCols = t.numRows := by
    rw [h.len, Nat.mul_div_cancel_left _ (by omega)]
  unfold gcell TD.grid toRows
  rw [List.getElem?_map, hdiv, List.getElem?_range hr]
  show ((t.data.drop (r * t.numCols)).take t.numCols)[c]? = _
  rw [List.getElem?_take, if_pos hc, List.getElem?_drop]

theorem gcols_grid (t : TD α) (h : t.Inv) : gcols t.grid = t.numCols := by
  have hl := h.grid_length
  have hrow := t.grid_row_length
  unfold gcols
  match hg : t.grid with
  | [] =>
    rw [hg] at hl
    have : t.numCols = 0 := h.zero.2 hl.symm
    simp [this]
  | ρ :: rest =>
    rw [hg] at hrow
    simp [hrow ρ (List.mem_cons_self ..)]

theorem gridOf_length (C R : Nat) (f : Nat → Nat → Option α) : (gridOf C R f).length = R := by
  simp [gridOf]

theorem gcell_gridOf (C R : Nat) (f : Nat → Nat → Option α) (hf : ∀ c r, c < C → r < R → (f c r).isSome)
    {c r : Nat} (hc : c < C) (hr : r < R) : gcell (gridOf C R f) c r = f c r := by
  unfold gcell gridOf
  rw [List.getElem?_map, List.getElem?_range hr]
  show ((List.range C).filterMap fun c => f c r)[c]? = _
  rw [filterMap_getElem?_of_isSome _ _ (fun x hx => hf x r (List.mem_range.1 hx) hr), List.getElem?_range hc]
  rfl

theorem gcols_gridOf (C R : Nat) (f : Nat → Nat → Option α) (hf : ∀ c r, c < C → r < R → (f c r).isSome)
    (hz : R = 0 → C = 0) : gcols (gridOf C R f) = C := by
  unfold gcols gridOf
  rcases Nat.eq_zero_or_pos R with h0 | hR
  · rw [h0, hz h0]; rfl
  · obtain ⟨R', rfl⟩ : ∃ R', R = R' + 1 := ⟨R - 1, by omega⟩
    rw [List.range_succ_eq_map, List.map_cons, List.head?_cons]
    show ((List.range C).filterMap fun c => f c 0).length = C
    rw [filterMap_length_of_isSome _ _ (fun x hx => hf x 0 (List.mem_range.1 hx) hR), List.length_range]

theorem viewSize_facts (s e : Nat × Nat) :
    ((viewSize s e).1 = 0 ↔ (viewSize s e).2 = 0) ∧
    (∀ c, c < (viewSize s e).1 → s.1 + c < e.1) ∧ (∀ r, r < (viewSize s e).2 → s.2 + r < e.2) := by
  unfold viewSize
  by_cases h0 : e.1 - s.1 = 0 ∨ e.2 - s.2 = 0
  · rw [if_pos h0]
    exact ⟨Iff.rfl, fun c hc => absurd hc (Nat.not_lt_zero _), fun r hr => absurd hr (Nat.not_lt_zero _)⟩
  · rw [if_neg h0]
    exact ⟨by simp only []; omega, fun c hc => by simp only [] at hc; omega, fun r hr => by simp only [] at hr; omega⟩

/-- what the default body of `copy_from_toodee` sees of the source, against the grid the specification uses -/
theorem copySrc_cases (m : Mode) (src : CopySrc α) (hsrc : src.arr.Inv) :
    (src.grid? = none ∧ src.acc m = .error .panic) ∨
    (∃ sg sv sa, src.grid? = some sg ∧ src.acc m = .ok sa ∧ sv.Inv src.arr.data.length ∧
      sa.Of sv src.arr.data.length ∧ sg.length = sv.numRows ∧ gcols sg = sv.numCols ∧
      ∀ c r, c < sv.numCols → r < sv.numRows → gcell sg c r = src.arr.data[sv.pos c r]?) := by
  obtain ⟨arr, window⟩ := src
  cases window with
  | none =>
    right
    obtain ⟨hvi, hpos⟩ := TD.asView_inv arr hsrc
    refine ⟨arr.grid, arr.asView, arr.acc, rfl, rfl, hvi, C13_acc_owned arr hsrc, hsrc.grid_length,
      gcols_grid arr hsrc, ?_⟩
    intro c r hc hr
    rw [hpos]
    exact gcell_grid arr hsrc hc hr
  | some w =>
    obtain ⟨tl, br⟩ := w
    by_cases hv : (tl.1 ≤ br.1 ∧ tl.2 ≤ br.2) ∧ (br.1 ≤ arr.numCols ∧ br.2 ≤ arr.numRows)
    · right
      obtain ⟨v', e1, hvi, hsz, hpos⟩ := C03_from_toodee_valid m arr hsrc tl br hv.1 hv.2
      obtain ⟨sa, e2, hsa⟩ := C13_acc_view m v' arr.data.length hvi
      obtain ⟨hz, hcs, hrs⟩ := viewSize_facts tl br
      have hC : (viewSize tl br).1 = v'.numCols := by rw [← hsz]
      have hR : (viewSize tl br).2 = v'.numRows := by rw [← hsz]
      have hcell : ∀ c r, c < (viewSize tl br).1 → r < (viewSize tl br).2 →
          gcell arr.grid (tl.1 + c) (tl.2 + r) = arr.data[v'.pos c r]? := by
        intro c r hc hr
        have hc' : tl.1 + c < arr.numCols := by have := hcs c hc; omega
        have hr' : tl.2 + r < arr.numRows := by have := hrs r hr; omega
        rw [gcell_grid arr hsrc hc' hr', hpos c r (hC ▸ hc) (hR ▸ hr)]
        rfl
      have hsome : ∀ c r, c < (viewSize tl br).1 → r < (viewSize tl br).2 →
          (gcell arr.grid (tl.1 + c) (tl.2 + r)).isSome := by
        intro c r hc hr
        rw [hcell c r hc hr, List.getElem?_eq_getElem (VW.pos_lt hvi (hC ▸ hc) (hR ▸ hr))]
        rfl
      refine ⟨gridOf (viewSize tl br).1 (viewSize tl br).2 (fun c r => gcell arr.grid (tl.1 + c) (tl.2 + r)),
        v', sa, ?_, ?_, hvi, hsa, ?_, ?_, ?_⟩
      · show CopySrc.grid? ⟨arr, some (tl, br)⟩ = _
        simp only [CopySrc.grid?]
        rw [if_pos ⟨hv.1.1, hv.1.2, hv.2.1, hv.2.2⟩]
      · show CopySrc.acc m ⟨arr, some (tl, br)⟩ = _
        simp only [CopySrc.acc, e1, ok_bind, e2]
      · rw [gridOf_length, hR]
      · rw [gcols_gridOf _ _ _ hsome (fun h0 => hz.2 h0), hC]
      · intro c r hc hr
        rw [gcell_gridOf _ _ _ hsome (hC ▸ hc) (hR ▸ hr), hcell c r (hC ▸ hc) (hR ▸ hr)]
    · left
      constructor
      · show CopySrc.grid? ⟨arr, some (tl, br)⟩ = _
        simp only [CopySrc.grid?]
        rw [if_neg (fun hh => hv ⟨⟨hh.1, hh.2.1⟩, hh.2.2.1, hh.2.2.2⟩)]
      · show CopySrc.acc m ⟨arr, some (tl, br)⟩ = _
        have hd := calcViewDims_panic m tl br arr.numCols arr.numRows arr.numCols hv
        simp [CopySrc.acc, VW.fromTooDee, hd]

end Toodee

namespace Toodee
variable {α : Type}

/-! ### copies -/

theorem spec_copyFromSlice_default {v : VW} (m : Mode) (lim : Nat) (buf : List α) (h : v.Inv buf.length) (a : Acc)
    (ha : a.Of v buf.length) (src : List α) :
    a.copyFromSlice m buf src = (MOp.copyFromSlice src).spec v lim buf := by
  by_cases hv : v.numCols * v.numRows = src.length
  · rw [(C14_copy_from_slice_default m v buf h a ha src).1 hv, MOp.spec, if_pos hv]; rfl
  · rw [MOp.spec, if_neg hv]
    have harea : v.numCols * v.numRows < WORD := by
      have := h.area_le; have := h.inside; have := h.word; omega
    simp only [Acc.copyFromSlice, ha.cols, ha.rows, umul_ok m _ _ harea, ok_bind]
    simp [hv]

theorem spec_copyFromSlice_owned (lim : Nat) (t : TD α) (h : t.Inv) (src : List α) :
    t.copyFromSlice src = (MOp.copyFromSlice src).spec t.asView lim t.data := by
  obtain ⟨h1, h2⟩ := C14_copy_from_slice_owned t h src
  by_cases hv : t.numCols * t.numRows = src.length
  · obtain ⟨e1, e2⟩ := h1 hv
    rw [e1, MOp.spec, if_pos (show t.asView.numCols * t.asView.numRows = src.length from hv)]
    exact congrArg Except.ok e2
  · rw [h2 hv, MOp.spec, if_neg (show ¬ t.asView.numCols * t.asView.numRows = src.length from hv)]; rfl

theorem spec_copyFromTooDee_default {v : VW} (m : Mode) (lim : Nat) (buf : List α) (h : v.Inv buf.length) (a : Acc)
    (ha : a.Of v buf.length) (src : CopySrc α) (hsrc : src.arr.Inv) :
    (src.acc m >>= fun sa => a.copyFromTooDee buf sa src.arr.data) = (MOp.copyFromTooDee src).spec v lim buf := by
  rcases copySrc_cases m src hsrc with ⟨hg, he⟩ | ⟨sg, sv, sa, hg, he, hsv, hsa, hl, hc, hcell⟩
  · rw [he, MOp.spec, hg]; rfl
  · rw [he, ok_bind, MOp.spec, hg]
    obtain ⟨h1, h2⟩ := C14_copy_from_toodee_default v buf h a ha sv src.arr.data hsv sa hsa
    by_cases hv : sg.length = v.numRows ∧ gcols sg = v.numCols
    · have hd : v.numCols = sv.numCols ∧ v.numRows = sv.numRows := ⟨by omega, by omega⟩
      rw [h1 hd]
      simp only [if_pos hv, pure_eq]
      congr 1
      apply VW.updCells_congr
      intro c r hc' hr'
      exact (hcell c r (hd.1 ▸ hc') (hd.2 ▸ hr')).symm
    · have hd : ¬ (v.numCols = sv.numCols ∧ v.numRows = sv.numRows) := fun hd => hv ⟨by omega, by omega⟩
      rw [h2 hd]
      simp only [if_neg hv, throw_eq]

theorem spec_copyFromTooDee_owned (m : Mode) (lim : Nat) (t : TD α) (h : t.Inv) (src : CopySrc α) (hsrc : src.arr.Inv) :
    (src.acc m >>= fun sa => t.copyFromTooDee sa src.arr.data) = (MOp.copyFromTooDee src).spec t.asView lim t.data := by
  rcases copySrc_cases m src hsrc with ⟨hg, he⟩ | ⟨sg, sv, sa, hg, he, hsv, hsa, hl, hc, hcell⟩
  · rw [he, MOp.spec, hg]; rfl
  · rw [he, ok_bind, MOp.spec, hg]
    obtain ⟨h1, h2⟩ := C14_copy_from_toodee_owned t h sv src.arr.data hsv sa hsa
    by_cases hv : sg.length = t.asView.numRows ∧ gcols sg = t.asView.numCols
    · have hd : t.numCols = sv.numCols ∧ t.numRows = sv.numRows :=
        ⟨by have := hv.2; show t.asView.numCols = _; omega, by have := hv.1; show t.asView.numRows = _; omega⟩
      rw [h1 hd]
      simp only [if_pos hv, pure_eq]
      congr 1
      apply VW.updCells_congr
      intro c r hc' hr'
      exact (hcell c r (hd.1 ▸ hc') (hd.2 ▸ hr')).symm
    · have hd : ¬ (t.numCols = sv.numCols ∧ t.numRows = sv.numRows) := fun hd =>
        hv ⟨by have := hd.2; show _ = t.numRows; omega, by have := hd.1; show _ = t.numCols; omega⟩
      rw [h2 hd]
      simp only [if_neg hv, throw_eq]

theorem spec_copyWithin_default {v : VW} (m : Mode) (lim : Nat) (buf : List α) (h : v.Inv buf.length) (a : Acc)
    (ha : a.Of v buf.length) (indexRowMut : Nat → Res Win)
    (hidx : ∀ r, r < v.numRows → indexRowMut r = .ok (v.rowWin r)) (tl br dest : Nat × Nat) :
    a.copyWithin m indexRowMut buf tl br dest = (MOp.copyWithin tl br dest).spec v lim buf := by
  have hCw := h.cols_word
  have hRw := h.rows_word
  by_cases hv : rectsFit v.numCols v.numRows tl br dest
  · have hw : tl.1 < WORD ∧ tl.2 < WORD ∧ br.1 < WORD ∧ br.2 < WORD ∧ dest.1 < WORD ∧ dest.2 < WORD := by
      obtain ⟨h1, h2, h3, h4, h5, h6⟩ := hv
      exact ⟨by omega, by omega, by omega, by omega, by omega, by omega⟩
    rw [(C14_copy_within m v buf h a ha indexRowMut hidx tl br dest hw).1 hv, MOp.spec, if_pos hv]; rfl
  · rw [MOp.spec, if_neg hv]
    obtain ⟨tl1, tl2⟩ := tl
    obtain ⟨br1, br2⟩ := br
    obtain ⟨d1, d2⟩ := dest
    have hn : ¬ (tl1 ≤ br1 ∧ tl2 ≤ br2 ∧ br1 ≤ v.numCols ∧ br2 ≤ v.numRows ∧ d1 + (br1 - tl1) ≤ v.numCols ∧
        d2 + (br2 - tl2) ≤ v.numRows) := hv
    simp only [Acc.copyWithin, ha.cols, ha.rows]
    by_cases h1 : tl1 ≤ br1
    · by_cases h2 : tl2 ≤ br2
      · by_cases h3 : br1 ≤ v.numCols
        · by_cases h4 : br2 ≤ v.numRows
          · by_cases g1 : d1 ≤ v.numCols
            · by_cases g3 : br1 - tl1 ≤ v.numCols - d1
              · by_cases g2 : d2 ≤ v.numRows
                · have g4 : ¬ br2 - tl2 ≤ v.numRows - d2 := by
                    intro g4; exact hn ⟨h1, h2, h3, h4, by omega, by omega⟩
                  simp [h1, h2, h3, h4, g1, g2, g3, g4, usub_ok]
                · simp [h1, h2, h3, h4, g1, g2, usub_ok]
              · simp [h1, h2, h3, h4, g1, g3, usub_ok]
            · simp [h1, h2, h3, h4, g1, usub_ok]
          · simp [h1, h2, h3, h4]
        · simp [h1, h2, h3]
      · simp [h1, h2]
    · simp [h1]

/-! ### translate, flips -/

theorem spec_translate_default {v : VW} (m : Mode) (lim : Nat) (buf : List α) (h : v.Inv buf.length) (a : Acc)
    (ha : a.Of v buf.length) (getRowMut : Nat → Res Win)
    (hget : ∀ r, r < v.numRows → getRowMut r = .ok (v.rowWin r)) (mc mr : Nat) :
    a.translateWithWrap m getRowMut buf (mc, mr) = (MOp.translate mc mr).spec v lim buf := by
  by_cases hv : mc ≤ v.numCols ∧ mr ≤ v.numRows
  · rw [C15_translate m v buf h a ha getRowMut hget (mc, mr) hv, MOp.spec, if_pos hv]; rfl
  · rw [C15_translate_reject m a getRowMut buf (mc, mr) (by rw [ha.cols, ha.rows]; exact hv), MOp.spec, if_neg hv]; rfl

theorem spec_flipRows_default {v : VW} (m : Mode) (lim : Nat) (buf : List α) (h : v.Inv buf.length) (a : Acc)
    (ha : a.Of v buf.length) : a.flipRows m buf = (MOp.flipRows).spec v lim buf := by
  rw [C15_flip_rows m v buf h a ha, MOp.spec]; rfl

theorem spec_flipCols_default {v : VW} (lim : Nat) (buf : List α) (h : v.Inv buf.length) (a : Acc)
    (ha : a.Of v buf.length) : a.flipCols buf = (MOp.flipCols).spec v lim buf := by
  rw [C15_flip_cols v buf h a ha, MOp.spec]; rfl

/-! ### sorts -/

theorem spec_sortRow_default {v : VW} (lim : Nat) (buf : List α) (h : v.Inv buf.length) (a : Acc)
    (ha : a.Of v buf.length) (indexRow : Nat → Res Win)
    (hidx : ∀ r, r < v.numRows → indexRow r = .ok (v.rowWin r)) (side : SideSort α) (hs : side.Sane) (row : Nat) :
    a.sortRowWith indexRow buf lim side row = (MOp.sortRow side row).spec v lim buf := by
  obtain ⟨h1, h2, h3, h4⟩ := C16_sort_row_with v buf h a ha indexRow hidx lim side row
  rw [MOp.spec]
  by_cases hr : row < v.numRows
  · by_cases hl : v.numCols ≤ lim
    · rw [if_pos ⟨hr, hl⟩]
      rcases hs (readWin buf (v.rowWin row)) with he | ⟨p, he, hp⟩
      · rw [h3 hr hl _ he, he]; rfl
      · rw [C16_key_row_length v buf h row hr] at hp
        rw [h4 hr hl p he hp, he]; rfl
    · rw [if_neg (fun hh => hl hh.2), h2 hr hl]; rfl
  · rw [if_neg (fun hh => hr hh.1), h1 hr]; rfl

theorem spec_sortCol_default {v : VW} (lim : Nat) (buf : List α) (h : v.Inv buf.length) (a : Acc)
    (ha : a.Of v buf.length) (col : Nat → Res Col)
    (hcol : ∀ c, c < v.numCols → ∃ it, col c = .ok it ∧ it.WF v.numRows buf.length ∧
      it.abs v.numRows = (List.range v.numRows).map fun r => v.pos c r)
    (swapRows : List α → Nat → Nat → Res (List α)) (hsw : SwapRowsSpec v buf.length swapRows)
    (side : SideSort α) (hs : side.Sane) (c : Nat) :
    a.sortColWith col swapRows buf lim side c = (MOp.sortCol side c).spec v lim buf := by
  obtain ⟨h1, h2, h3, h4⟩ := C17_sort_col_with v buf h a ha col hcol swapRows hsw lim side c
  rw [MOp.spec]
  by_cases hc : c < v.numCols
  · by_cases hl : v.numRows ≤ lim
    · rw [if_pos ⟨hc, hl⟩]
      rcases hs (v.colKeys buf c) with he | ⟨p, he, hp⟩
      · rw [h3 hc hl _ he]
        show _ = (side (v.colKeys buf c) >>= _)
        rw [he]; rfl
      · rw [C17_key_col_length v buf h c hc] at hp
        rw [h4 hc hl p he hp]
        show _ = (side (v.colKeys buf c) >>= _)
        rw [he]; rfl
    · rw [if_neg (fun hh => hl hh.2), h2 hc hl]; rfl
  · rw [if_neg (fun hh => hc hh.1), h1 hc]; rfl

end Toodee

namespace Toodee
variable {α : Type}

/-! ### the accessors of a view -/

theorem VW.cols_pos_of_row {v : VW} {n : Nat} (h : v.Inv n) {r : Nat} (hr : r < v.numRows) : 0 < v.numCols := by
  rcases Nat.eq_zero_or_pos v.numCols with h0 | h0
  · have := h.zero.1 h0; omega
  · exact h0

theorem VW.indexRow_ok (m : Mode) {v : VW} {n : Nat} (h : v.Inv n) {r : Nat} (hr : r < v.numRows) :
    v.indexRow m r = .ok (v.rowWin r) :=
  (C02_view_valid m v n h 0 r (VW.cols_pos_of_row h hr) hr).2.2.2.1

theorem VW.indexRow_bad (m : Mode) (v : VW) {r : Nat} (hr : ¬ r < v.numRows) : v.indexRow m r = .error .panic := by
  simp [VW.indexRow, hr]

theorem VW.getUncheckedRow_ok (m : Mode) {v : VW} {n : Nat} (h : v.Inv n) {r : Nat} (hr : r < v.numRows) :
    v.getUncheckedRow m r = .ok (v.rowWin r) :=
  (C02_view_valid m v n h 0 r (VW.cols_pos_of_row h hr) hr).2.2.2.2.1

theorem VW.indexCoord_ok (m : Mode) {v : VW} {n : Nat} (h : v.Inv n) {c r : Nat} (hv : c < v.numCols ∧ r < v.numRows) :
    v.indexCoord m c r = .ok (v.pos c r) :=
  (C02_view_valid m v n h c r hv.1 hv.2).2.1

theorem VW.indexCoord_bad (m : Mode) (v : VW) {c r : Nat} (hv : ¬ (c < v.numCols ∧ r < v.numRows)) :
    v.indexCoord m c r = .error .panic := by
  by_cases hr : r < v.numRows
  · have hc : ¬ c < v.numCols := fun hc => hv ⟨hc, hr⟩
    simp [VW.indexCoord, hr, hc]
  · simp [VW.indexCoord, hr]

theorem VW.col_ok (m : Mode) {v : VW} {n : Nat} (h : v.Inv n) {c : Nat} (hc : c < v.numCols) :
    ∃ it, v.col m c = .ok it ∧ it.WF v.numRows n ∧ it.abs v.numRows = (List.range v.numRows).map fun r => v.pos c r :=
  (C09_col_view m v n h c (Nat.lt_trans hc h.cols_word)).1 hc

/-- **the Impl-model refines the specification on views** -/
theorem run_view_spec (m : Mode) (lim : Nat) (v : VW) (buf : List α) (h : v.Inv buf.length) (op : MOp α)
    (hs : op.Sane) (hsrc : op.srcOk) :
    (Recv.vmut v).run m lim buf op = op.spec v lim buf := by
  obtain ⟨a, hacc, ha⟩ := C13_acc_view m v buf.length h
  cases op with
  | set c r x =>
    show (v.indexCoord m c r >>= fun p => pure (buf.set p x)) = _
    exact spec_set lim buf h c r x _ (VW.indexCoord_ok m h) (VW.indexCoord_bad m v)
  | setInRow r c x =>
    show (v.indexRow m r >>= fun w => w.index c >>= fun p => pure (buf.set p x)) = _
    exact spec_setInRow lim buf h c r x _ (VW.indexRow_ok m h) (VW.indexRow_bad m v)
  | fill x =>
    show (v.acc m >>= fun a => a.fill buf x) = _
    rw [hacc, ok_bind]; exact spec_fill_default lim buf h a ha x
  | swap c1 r1 c2 r2 =>
    show (v.acc m >>= fun a => a.swap m buf (c1, r1) (c2, r2)) = _
    rw [hacc, ok_bind]; exact spec_swap_default m lim buf h a ha c1 r1 c2 r2
  | swapRows r1 r2 =>
    show v.swapRows m buf r1 r2 = _
    exact spec_swapRows_view m lim buf h r1 r2
  | swapCols c1 c2 =>
    show (v.acc m >>= fun a => a.swapCols buf c1 c2) = _
    rw [hacc, ok_bind]; exact spec_swapCols_default lim buf h a ha c1 c2
  | copyFromSlice src =>
    show (v.acc m >>= fun a => a.copyFromSlice m buf src) = _
    rw [hacc, ok_bind]; exact spec_copyFromSlice_default m lim buf h a ha src
  | copyFromTooDee src =>
    show (src.acc m >>= fun sa => v.acc m >>= fun a => a.copyFromTooDee buf sa src.arr.data) = _
    rw [hacc]
    exact spec_copyFromTooDee_default m lim buf h a ha src hsrc
  | copyWithin tl br dest =>
    show (v.acc m >>= fun a => a.copyWithin m (v.indexRow m) buf tl br dest) = _
    rw [hacc, ok_bind]
    exact spec_copyWithin_default m lim buf h a ha _ (fun r hr => VW.indexRow_ok m h hr) tl br dest
  | translate mc mr =>
    show (v.acc m >>= fun a => a.translateWithWrap m (v.getUncheckedRow m) buf (mc, mr)) = _
    rw [hacc, ok_bind]
    exact spec_translate_default m lim buf h a ha _ (fun r hr => VW.getUncheckedRow_ok m h hr) mc mr
  | flipRows =>
    show (v.acc m >>= fun a => a.flipRows m buf) = _
    rw [hacc, ok_bind]; exact spec_flipRows_default m lim buf h a ha
  | flipCols =>
    show (v.acc m >>= fun a => a.flipCols buf) = _
    rw [hacc, ok_bind]; exact spec_flipCols_default lim buf h a ha
  | sortRow side row =>
    show (v.acc m >>= fun a => a.sortRowWith (v.indexRow m) buf lim side row) = _
    rw [hacc, ok_bind]
    exact spec_sortRow_default lim buf h a ha _ (fun r hr => VW.indexRow_ok m h hr) side hs row
  | sortCol side c =>
    show (v.acc m >>= fun a => a.sortColWith (v.col m) (fun b r1 r2 => v.swapRows m b r1 r2) buf lim side c) = _
    rw [hacc, ok_bind]
    exact spec_sortCol_default lim buf h a ha _ (fun c hc => VW.col_ok m h hc) _
      (C17_swap_rows_spec_view m v buf.length h) side hs c

end Toodee
