import Toodee.Impl.Recv
import Toodee.Spec.OpsSpec
import Toodee.Proofs.Index
import Toodee.Properties.C20
/-
  C03 — A view is exactly the requested window of its parent.

  For every parent (owned array or view, any nesting depth: the parent is *any* `VW` with its invariant) and every
  `start ≤ end ≤ (C,R)` componentwise, all view constructors succeed with a window of size `end - start` (or `(0,0)` when
  either extent is zero) whose cell `(c,r)` *is* (same root-buffer position as) the parent's cell `(start.0+c, start.1+r)`,
  and the result again satisfies the view invariant (so the theorem applies to it again: nesting).  Any other
  `start`/`end` panics (never `ub`).  Position equality is what makes "writing a cell through a mutable view changes
  exactly that parent cell" true in the window model.
-/
namespace Toodee
variable {α : Type}

/-- `TooDeeView::view`, `TooDeeViewMut::view_mut` (unchecked slicing) and `TooDeeViewMut::view` (checked slicing) on a view -/
theorem C03_view_valid (m : Mode) (v : VW) (n : Nat) (h : v.Inv n) (s e : Nat × Nat)
    (hs : s.1 ≤ e.1 ∧ s.2 ≤ e.2) (he : e.1 ≤ v.numCols ∧ e.2 ≤ v.numRows) :
    ∃ v', v.view m s e = .ok v' ∧ v.viewChecked m s e = .ok v' ∧ v'.Inv n ∧
      (v'.numCols, v'.numRows) = viewSize s e ∧
      ∀ c r, c < v'.numCols → r < v'.numRows → v'.pos c r = v.pos (s.1 + c) (s.2 + r) := by
  unfold viewSize
  obtain ⟨hstride, hzero, hlen, hinside, hword, hsw⟩ := h
  by_cases h0 : e.1 - s.1 = 0 ∨ e.2 - s.2 = 0
  · have hd := calcViewDims_empty m s e v.numCols v.numRows v.stride hs he hstride h0
    refine ⟨⟨⟨v.data.off + 0, 0⟩, 0, 0, v.stride⟩, ?_, ?_, ?_, ?_, ?_⟩
    · simp [VW.view, hd, Win.getRange]
    · simp [VW.viewChecked, hd, Win.indexRange]
    · exact ⟨Nat.zero_le _, Iff.rfl, by simp, by simp; omega, hword, hsw⟩
    · simp [h0]
    · intro c r hc; simp at hc
  · have hs' : s.1 < e.1 ∧ s.2 < e.2 := by omega
    have hR : ¬ v.numRows = 0 := by omega
    rw [if_neg hR] at hlen
    have hle : (e.2 - 1) * v.stride ≤ (v.numRows - 1) * v.stride :=
      Nat.mul_le_mul_right _ (by omega)
    have hend := view_end_eq v.stride s.1 e.1 hs.1 hs'.2
    have hd := calcViewDims_nonempty m s e v.numCols v.numRows v.stride hs' he hstride (by omega)
    have hg1 : s.2 * v.stride + s.1 ≤
        s.2 * v.stride + s.1 + ((e.2 - s.2 - 1) * v.stride + (e.1 - s.1)) := Nat.le_add_right _ _
    have hg2 : s.2 * v.stride + s.1 + ((e.2 - s.2 - 1) * v.stride + (e.1 - s.1)) ≤ v.data.len := by
      omega
    refine ⟨⟨⟨v.data.off + (s.2 * v.stride + s.1), (e.2 - s.2 - 1) * v.stride + (e.1 - s.1)⟩,
      e.1 - s.1, e.2 - s.2, v.stride⟩, ?_, ?_, ?_, ?_, ?_⟩
    · simp [VW.view, hd, Win.getRange_ok _ hg1 hg2]
    · simp [VW.viewChecked, hd, Win.indexRange_ok _ hg1 hg2]
    · refine ⟨by simp only []; omega, by simp only []; omega, ?_, by simp only []; omega, hword, hsw⟩
      have : ¬ e.2 - s.2 = 0 := by omega
      simp only [this, if_false]
    · simp [h0]
    · intro c r _ _
      simp only [VW.pos, Nat.add_mul]
      omega

theorem C03_view_invalid (m : Mode) (v : VW) (n : Nat) (h : v.Inv n) (s e : Nat × Nat)
    (hw : s.1 < WORD ∧ s.2 < WORD ∧ e.1 < WORD ∧ e.2 < WORD)
    (hbad : ¬ ((s.1 ≤ e.1 ∧ s.2 ≤ e.2) ∧ (e.1 ≤ v.numCols ∧ e.2 ≤ v.numRows))) :
    v.view m s e = .error .panic ∧ v.viewChecked m s e = .error .panic := by
  have _ := hw; have _ := h
  have hd := calcViewDims_panic m s e v.numCols v.numRows v.stride hbad
  simp [VW.view, VW.viewChecked, hd]

/-- `TooDee::view` / `view_mut` (`from_toodee`) on an owned array -/
theorem C03_from_toodee_valid (m : Mode) (t : TD α) (h : t.Inv) (s e : Nat × Nat)
    (hs : s.1 ≤ e.1 ∧ s.2 ≤ e.2) (he : e.1 ≤ t.numCols ∧ e.2 ≤ t.numRows) :
    ∃ v', VW.fromTooDee m s e t = .ok v' ∧ v'.Inv t.data.length ∧
      (v'.numCols, v'.numRows) = viewSize s e ∧
      ∀ c r, c < v'.numCols → r < v'.numRows → v'.pos c r = t.pos (s.1 + c) (s.2 + r) := by
  obtain ⟨hinv, hpos⟩ := TD.asView_inv t h
  obtain ⟨v', h1, _, h3, h4, h5⟩ := C03_view_valid m t.asView t.data.length hinv s e hs he
  refine ⟨v', by rw [VW.fromTooDee_eq_view]; exact h1, h3, h4, ?_⟩
  intro c r hc hr
  rw [h5 c r hc hr, hpos]

theorem C03_from_toodee_invalid (m : Mode) (t : TD α) (h : t.Inv) (s e : Nat × Nat)
    (hw : s.1 < WORD ∧ s.2 < WORD ∧ e.1 < WORD ∧ e.2 < WORD)
    (hbad : ¬ ((s.1 ≤ e.1 ∧ s.2 ≤ e.2) ∧ (e.1 ≤ t.numCols ∧ e.2 ≤ t.numRows))) :
    VW.fromTooDee m s e t = .error .panic := by
  have _ := hw; have _ := h
  have hd := calcViewDims_panic m s e t.numCols t.numRows t.numCols hbad
  simp [VW.fromTooDee, hd]

/-- the window the oracle computes (`specView`, Spec/OpsSpec.lean) is exactly what the view constructors return -/
theorem C03_spec_view (m : Mode) (v : VW) (n : Nat) (h : v.Inv n) (s e : Nat × Nat)
    (hw : s.1 < WORD ∧ s.2 < WORD ∧ e.1 < WORD ∧ e.2 < WORD) :
    (∀ v', specView v s e = some v' → v.view m s e = .ok v' ∧ v.viewChecked m s e = .ok v') ∧
    (specView v s e = none → v.view m s e = .error .panic ∧ v.viewChecked m s e = .error .panic) := by
  by_cases hok : s.1 ≤ e.1 ∧ s.2 ≤ e.2 ∧ e.1 ≤ v.numCols ∧ e.2 ≤ v.numRows
  · have hs : s.1 ≤ e.1 ∧ s.2 ≤ e.2 := ⟨hok.1, hok.2.1⟩
    have he : e.1 ≤ v.numCols ∧ e.2 ≤ v.numRows := hok.2.2
    refine ⟨?_, fun hn => by simp [specView, hok] at hn; split at hn <;> cases hn⟩
    intro v' hv'
    obtain ⟨hstride, hzero, hlen, hinside, hword, hsw⟩ := h
    by_cases h0 : e.1 - s.1 = 0 ∨ e.2 - s.2 = 0
    · have hd := calcViewDims_empty m s e v.numCols v.numRows v.stride hs he hstride h0
      have : v' = ⟨⟨v.data.off + 0, 0⟩, 0, 0, v.stride⟩ := by
        simp only [specView, if_pos hok, viewSize, if_pos h0] at hv'
        simpa using hv'.symm
      subst this
      constructor
      · simp [VW.view, hd, Win.getRange]
      · simp [VW.viewChecked, hd, Win.indexRange]
    · have hs' : s.1 < e.1 ∧ s.2 < e.2 := by omega
      have hR : ¬ v.numRows = 0 := by omega
      rw [if_neg hR] at hlen
      have hle : (e.2 - 1) * v.stride ≤ (v.numRows - 1) * v.stride :=
        Nat.mul_le_mul_right _ (by omega)
      have hend := view_end_eq v.stride s.1 e.1 hs.1 hs'.2
      have hd := calcViewDims_nonempty m s e v.numCols v.numRows v.stride hs' he hstride (by omega)
      have hg1 : s.2 * v.stride + s.1 ≤
          s.2 * v.stride + s.1 + ((e.2 - s.2 - 1) * v.stride + (e.1 - s.1)) := Nat.le_add_right _ _
      have hg2 : s.2 * v.stride + s.1 + ((e.2 - s.2 - 1) * v.stride + (e.1 - s.1)) ≤ v.data.len := by
        omega
      have hne : ¬ e.1 - s.1 = 0 := by omega
      have : v' = ⟨⟨v.data.off + (s.2 * v.stride + s.1), (e.2 - s.2 - 1) * v.stride + (e.1 - s.1)⟩,
          e.1 - s.1, e.2 - s.2, v.stride⟩ := by
        simp only [specView, if_pos hok, viewSize, if_neg h0, if_neg hne, VW.pos] at hv'
        rw [← Option.some.inj hv', Nat.add_assoc]
      subst this
      constructor
      · simp [VW.view, hd, Win.getRange_ok _ hg1 hg2]
      · simp [VW.viewChecked, hd, Win.indexRange_ok _ hg1 hg2]
  · refine ⟨fun v' hv' => by simp [specView, hok] at hv', fun _ => ?_⟩
    exact C03_view_invalid m v n h s e hw (fun hh => hok ⟨hh.1.1, hh.1.2, hh.2.1, hh.2.2⟩)

/-- non-vacuity: the window `(1,0)..(3,2)` of a concrete 3x2 array, and the window `(1,0)..(2,2)` of that window (nesting),
    as concrete computations -/
example : VW.fromTooDee .release (1, 0) (3, 2) (⟨[1, 2, 3, 4, 5, 6], 2, 3⟩ : TD Nat) = .ok ⟨⟨1, 5⟩, 2, 2, 3⟩ := by rfl
example : VW.view .debug ⟨⟨1, 5⟩, 2, 2, 3⟩ (1, 0) (2, 2) = .ok ⟨⟨2, 4⟩, 1, 2, 3⟩ := by rfl
/-- non-vacuity of `C03_view_valid`: its hypotheses hold for that nested request (parent invariant included) -/
example : ∃ v', VW.view .debug ⟨⟨1, 5⟩, 2, 2, 3⟩ (1, 0) (2, 2) = .ok v' ∧ v'.Inv 8 ∧ (v'.numCols, v'.numRows) = (1, 2) := by
  obtain ⟨v', h1, _, h3, h4, _⟩ := C03_view_valid .debug ⟨⟨1, 5⟩, 2, 2, 3⟩ 8
    ⟨by decide, by decide, by decide, by decide, by decide, by decide⟩ (1, 0) (2, 2) (by decide) (by decide)
  exact ⟨v', h1, h3, h4⟩
/-- non-vacuity of `C03_view_invalid`: an `end` beyond the parent panics -/
example : VW.view .release ⟨⟨1, 5⟩, 2, 2, 3⟩ (0, 0) (3, 1) = .error .panic :=
  (C03_view_invalid .release _ 8 ⟨by decide, by decide, by decide, by decide, by decide, by decide⟩ (0, 0) (3, 1)
    (by decide) (by decide)).1

/-! ### nesting to any depth: chains of borrowing steps (`Recv.borrow`, Impl/Recv.lean) -/

/-- a receiver is sound over a root buffer of `n` cells -/
def Recv.Sound (n : Nat) : Recv α → Prop
  | .root t | .ext t => t.Inv ∧ t.data.length = n
  | .vmut v | .vsh v => v.Inv n

/-- the root-buffer positions that are cells of the receiver -/
def Recv.IsCell : Recv α → Nat → Prop
  | .root t, p | .ext t, p => p < t.data.length
  | .vmut v, p | .vsh v, p => (v.coord? p).isSome

/-- the arguments of a borrowing step are `usize` values -/
def Borrow.small : Borrow → Prop
  | .asExt => True
  | .viewMut s e | .view s e => s.1 < WORD ∧ s.2 < WORD ∧ e.1 < WORD ∧ e.2 < WORD
  | .sliceMut c r n | .slice c r n => c < WORD ∧ r < WORD ∧ n < WORD

/-- a cell of a view with the invariant is a position of the root buffer -/
private theorem vw_cell_lt {v : VW} {n p : Nat} (h : v.Inv n) (hp : (v.coord? p).isSome) : p < n := by
  obtain ⟨⟨c, r⟩, hcr⟩ := Option.isSome_iff_exists.1 hp
  obtain ⟨rfl, hc, hr⟩ := VW.coord?_eq_some hcr
  exact VW.pos_lt h hc hr

private theorem viewSize_lt {s e : Nat × Nat} {C R c r : Nat} (h : (C, R) = viewSize s e) (hc : c < C) (hr : r < R) :
    s.1 + c < e.1 ∧ s.2 + r < e.2 := by
  unfold viewSize at h
  split at h
  · simp only [Prod.mk.injEq] at h; omega
  · simp only [Prod.mk.injEq] at h; omega

/-- one slicing step on a view: panic, or a view with the invariant whose cells are cells of the parent -/
private theorem view_step (m : Mode) (v : VW) (n : Nat) (h : v.Inv n) (s e : Nat × Nat)
    (hw : s.1 < WORD ∧ s.2 < WORD ∧ e.1 < WORD ∧ e.2 < WORD) :
    (v.view m s e = .error .panic ∧ v.viewChecked m s e = .error .panic) ∨
    ∃ v', v.view m s e = .ok v' ∧ v.viewChecked m s e = .ok v' ∧ v'.Inv n ∧
      ∀ p, (v'.coord? p).isSome → (v.coord? p).isSome := by
  by_cases hok : (s.1 ≤ e.1 ∧ s.2 ≤ e.2) ∧ (e.1 ≤ v.numCols ∧ e.2 ≤ v.numRows)
  · obtain ⟨v', h1, h2, h3, h4, h5⟩ := C03_view_valid m v n h s e hok.1 hok.2
    refine .inr ⟨v', h1, h2, h3, ?_⟩
    intro p hp
    obtain ⟨⟨c, r⟩, hcr⟩ := Option.isSome_iff_exists.1 hp
    obtain ⟨rfl, hc, hr⟩ := VW.coord?_eq_some hcr
    have hlt := viewSize_lt h4 hc hr
    rw [h5 c r hc hr, VW.coord?_pos h (c := s.1 + c) (r := s.2 + r) (by omega) (by omega)]
    rfl
  · exact .inl (C03_view_invalid m v n h s e hw hok)

/-- the slice-based constructors on the array itself -/
private theorem slice_step (t : TD α) (h : t.Inv) (c r k : Nat) :
    ((t.win.indexTo k >>= fun sl => VW.newMut c r sl) = .error .panic ∧
      (t.win.indexTo k >>= fun sl => VW.newShared c r sl) = .error .panic) ∨
    ∃ v', (t.win.indexTo k >>= fun sl => VW.newMut c r sl) = .ok v' ∧
      (t.win.indexTo k >>= fun sl => VW.newShared c r sl) = .ok v' ∧ v'.Inv t.data.length := by
  by_cases hk : k ≤ t.data.length
  · have hi : t.win.indexTo k = .ok ⟨0, k⟩ := by simp [Win.indexTo, TD.win, hk]
    have hnew := C20_view_new c r ⟨0, k⟩ t.data.length (by simpa using hk) h.word
    by_cases hok : shapeOk c r ∧ c * r ≤ (⟨0, k⟩ : Win).len
    · obtain ⟨v', h1, h2, h3, _⟩ := hnew.1 hok
      exact .inr ⟨v', by rw [hi, ok_bind]; exact h2, by rw [hi, ok_bind]; exact h1, h3⟩
    · obtain ⟨h1, h2⟩ := hnew.2 hok
      exact .inl ⟨by rw [hi, ok_bind]; exact h2, by rw [hi, ok_bind]; exact h1⟩
  · have hi : t.win.indexTo k = .error .panic := by simp [Win.indexTo, TD.win, hk]
    exact .inl ⟨by rw [hi]; rfl, by rw [hi]; rfl⟩

/-- wrapping the result of a constructor into a receiver -/
private theorem borrow_fin {res : Res VW} {k : VW → Recv α} {P : Recv α → Prop}
    (hres : res = .error .panic ∨ ∃ v', res = .ok v' ∧ P (k v')) :
    (res >>= fun v => (pure (some (k v)) : Res (Option (Recv α)))) ≠ .error .ub ∧
    (res >>= fun v => (pure (some (k v)) : Res (Option (Recv α)))) ≠ .error .fuel ∧
    ∀ rc', (res >>= fun v => (pure (some (k v)) : Res (Option (Recv α)))) = .ok (some rc') → P rc' := by
  rcases hres with hres | ⟨v', hres, hp⟩
  · subst hres
    refine ⟨by simp, by simp, ?_⟩
    intro rc' h; simp at h
  · subst hres
    refine ⟨by simp, by simp, ?_⟩
    intro rc' h
    simp only [ok_bind, pure_eq, Except.ok.injEq, Option.some.injEq] at h
    subst h; exact hp

private theorem borrow_none {P : Recv α → Prop} :
    (pure none : Res (Option (Recv α))) ≠ .error .ub ∧ (pure none : Res (Option (Recv α))) ≠ .error .fuel ∧
    ∀ rc', (pure none : Res (Option (Recv α))) = .ok (some rc') → P rc' := by
  refine ⟨by simp, by simp, ?_⟩
  intro rc' h; simp at h

/-- **one borrowing step from any sound receiver** (owned array, third-party wrapper, mutable or shared view at any nesting depth;
    every constructor incl. the slice-based ones; any arguments): never undefined behaviour; the new receiver is sound over the
    same root buffer; and its cells are cells of the receiver it was borrowed from -/
theorem C03_borrow (m : Mode) (n : Nat) (rc : Recv α) (h : rc.Sound n) (b : Borrow) (hb : b.small) :
    rc.borrow m b ≠ .error .ub ∧ rc.borrow m b ≠ .error .fuel ∧
    ∀ rc', rc.borrow m b = .ok (some rc') → rc'.Sound n ∧ ∀ p, rc'.IsCell p → rc.IsCell p := by
  -- owned array / third-party wrapper: `from_toodee`
  have hTD : ∀ (t : TD α) (k : VW → Recv α) (s e : Nat × Nat), t.Inv → t.data.length = n →
      (s.1 < WORD ∧ s.2 < WORD ∧ e.1 < WORD ∧ e.2 < WORD) →
      (∀ v p, (k v).IsCell p = (v.coord? p).isSome) → (∀ v, (k v).Sound n = v.Inv n) →
      VW.fromTooDee m s e t = .error .panic ∨ ∃ v', VW.fromTooDee m s e t = .ok v' ∧
        ((k v').Sound n ∧ ∀ p, (k v').IsCell p → p < t.data.length) := by
    intro t k s e ht hl hw hk1 hk2
    rw [VW.fromTooDee_eq_view]
    rcases view_step m t.asView t.data.length (TD.asView_inv t ht).1 s e hw with hp | ⟨v', h1, _, h3, _⟩
    · exact .inl hp.1
    · refine .inr ⟨v', h1, by rw [hk2, ← hl]; exact h3, ?_⟩
      intro p hp; rw [hk1] at hp; exact vw_cell_lt h3 hp
  -- slice-based constructors on the array
  have hSL : ∀ (t : TD α) (k : VW → Recv α) (v' : VW), t.data.length = n → v'.Inv t.data.length →
      (∀ v p, (k v).IsCell p = (v.coord? p).isSome) → (∀ v, (k v).Sound n = v.Inv n) →
      ((k v').Sound n ∧ ∀ p, (k v').IsCell p → p < t.data.length) := by
    intro t k v' hl h3 hk1 hk2
    refine ⟨by rw [hk2, ← hl]; exact h3, ?_⟩
    intro p hp; rw [hk1] at hp; exact vw_cell_lt h3 hp
  cases rc with
  | root t =>
    obtain ⟨ht, hl⟩ := h
    cases b with
    | asExt =>
      refine ⟨by simp [Recv.borrow], by simp [Recv.borrow], ?_⟩
      intro rc' hrc
      simp only [Recv.borrow, pure_eq, Except.ok.injEq, Option.some.injEq] at hrc
      subst hrc
      exact ⟨⟨ht, hl⟩, fun p hp => hp⟩
    | viewMut s e => exact borrow_fin (k := Recv.vmut) (hTD t Recv.vmut s e ht hl hb (fun _ _ => rfl) (fun _ => rfl))
    | view s e => exact borrow_fin (k := Recv.vsh) (hTD t Recv.vsh s e ht hl hb (fun _ _ => rfl) (fun _ => rfl))
    | sliceMut c r k =>
      have hs := slice_step t ht c r k
      have : (t.win.indexTo k >>= fun sl => VW.newMut c r sl) = .error .panic ∨
          ∃ v', (t.win.indexTo k >>= fun sl => VW.newMut c r sl) = .ok v' ∧
            ((Recv.vmut v' : Recv α).Sound n ∧ ∀ p, (Recv.vmut v' : Recv α).IsCell p → p < t.data.length) := by
        rcases hs with hp | ⟨v', h1, _, h3⟩
        · exact .inl hp.1
        · exact .inr ⟨v', h1, hSL t Recv.vmut v' hl h3 (fun _ _ => rfl) (fun _ => rfl)⟩
      have hfin := borrow_fin (k := Recv.vmut)
        (P := fun rc' : Recv α => rc'.Sound n ∧ ∀ p, rc'.IsCell p → p < t.data.length) this
      simp only [bind_assoc] at hfin
      exact hfin
    | slice c r k =>
      have hs := slice_step t ht c r k
      have : (t.win.indexTo k >>= fun sl => VW.newShared c r sl) = .error .panic ∨
          ∃ v', (t.win.indexTo k >>= fun sl => VW.newShared c r sl) = .ok v' ∧
            ((Recv.vsh v' : Recv α).Sound n ∧ ∀ p, (Recv.vsh v' : Recv α).IsCell p → p < t.data.length) := by
        rcases hs with hp | ⟨v', _, h2, h3⟩
        · exact .inl hp.2
        · exact .inr ⟨v', h2, hSL t Recv.vsh v' hl h3 (fun _ _ => rfl) (fun _ => rfl)⟩
      have hfin := borrow_fin (k := Recv.vsh)
        (P := fun rc' : Recv α => rc'.Sound n ∧ ∀ p, rc'.IsCell p → p < t.data.length) this
      simp only [bind_assoc] at hfin
      exact hfin
  | ext t =>
    obtain ⟨ht, hl⟩ := h
    cases b with
    | asExt => exact borrow_none
    | viewMut s e => exact borrow_fin (k := Recv.vmut) (hTD t Recv.vmut s e ht hl hb (fun _ _ => rfl) (fun _ => rfl))
    | view s e => exact borrow_fin (k := Recv.vsh) (hTD t Recv.vsh s e ht hl hb (fun _ _ => rfl) (fun _ => rfl))
    | sliceMut c r k => exact borrow_none
    | slice c r k => exact borrow_none
  | vmut v =>
    cases b with
    | asExt => exact borrow_none
    | viewMut s e =>
      refine borrow_fin (k := Recv.vmut) ?_
      rcases view_step m v n h s e hb with hp | ⟨v', h1, _, h3, h4⟩
      · exact .inl hp.1
      · exact .inr ⟨v', h1, h3, h4⟩
    | view s e =>
      refine borrow_fin (k := Recv.vsh) ?_
      rcases view_step m v n h s e hb with hp | ⟨v', _, h2, h3, h4⟩
      · exact .inl hp.2
      · exact .inr ⟨v', h2, h3, h4⟩
    | sliceMut c r k => exact borrow_none
    | slice c r k => exact borrow_none
  | vsh v =>
    cases b with
    | asExt => exact borrow_none
    | viewMut s e => exact borrow_none
    | view s e =>
      refine borrow_fin (k := Recv.vsh) ?_
      rcases view_step m v n h s e hb with hp | ⟨v', h1, _, h3, h4⟩
      · exact .inl hp.1
      · exact .inr ⟨v', h1, h3, h4⟩
    | sliceMut c r k => exact borrow_none
    | slice c r k => exact borrow_none

/-- **any chain of borrowing steps** (nested views to any depth) -/
theorem C03_borrow_chain (m : Mode) (n : Nat) (rc : Recv α) (h : rc.Sound n) (bs : List Borrow) (hb : ∀ b ∈ bs, b.small) :
    rc.borrowAll m bs ≠ .error .ub ∧ rc.borrowAll m bs ≠ .error .fuel ∧
    ∀ rc', rc.borrowAll m bs = .ok (some rc') → rc'.Sound n ∧ ∀ p, rc'.IsCell p → rc.IsCell p := by
  induction bs generalizing rc with
  | nil =>
    refine ⟨by simp [Recv.borrowAll], by simp [Recv.borrowAll], ?_⟩
    intro rc' hrc
    simp only [Recv.borrowAll, pure_eq, Except.ok.injEq, Option.some.injEq] at hrc
    subst hrc
    exact ⟨h, fun p hp => hp⟩
  | cons b bs ih =>
    obtain ⟨h1, h2, h3⟩ := C03_borrow m n rc h b (hb b (List.mem_cons_self ..))
    unfold Recv.borrowAll
    cases hbr : rc.borrow m b with
    | error e =>
      refine ⟨?_, ?_, ?_⟩
      · intro hc; simp only [err_bind, Except.error.injEq] at hc; subst hc; exact h1 hbr
      · intro hc; simp only [err_bind, Except.error.injEq] at hc; subst hc; exact h2 hbr
      · intro rc' hc; simp at hc
    | ok o =>
      cases o with
      | none =>
        refine ⟨by simp, by simp, ?_⟩
        intro rc' hc; simp at hc
      | some rc1 =>
        obtain ⟨hs1, hc1⟩ := h3 rc1 hbr
        obtain ⟨i1, i2, i3⟩ := ih rc1 hs1 (fun b' hb' => hb b' (List.mem_cons_of_mem _ hb'))
        simp only [ok_bind]
        refine ⟨i1, i2, ?_⟩
        intro rc' hc
        obtain ⟨hs', hc'⟩ := i3 rc' hc
        exact ⟨hs', fun p hp => hc1 p (hc' p hp)⟩

/-- the rectangle of the root buffer a receiver stands for -/
def Recv.asVW : Recv α → VW
  | .root t | .ext t => t.asView
  | .vmut v | .vsh v => v

/-- a slicing step on a view, in terms of `specView` -/
private theorem spec_step (m : Mode) (v : VW) (n : Nat) (h : v.Inv n) (s e : Nat × Nat)
    (hw : s.1 < WORD ∧ s.2 < WORD ∧ e.1 < WORD ∧ e.2 < WORD) (k : VW → Recv α) :
    (v.view m s e >>= fun v' => (pure (some (k v')) : Res (Option (Recv α)))) =
      (match specView v s e with | some v' => .ok (some (k v')) | none => .error .panic) ∧
    (v.viewChecked m s e >>= fun v' => (pure (some (k v')) : Res (Option (Recv α)))) =
      (match specView v s e with | some v' => .ok (some (k v')) | none => .error .panic) := by
  obtain ⟨h1, h2⟩ := C03_spec_view m v n h s e hw
  cases hsv : specView v s e with
  | none =>
    obtain ⟨a, b⟩ := h2 hsv
    rw [a, b]; exact ⟨rfl, rfl⟩
  | some v' =>
    obtain ⟨a, b⟩ := h1 v' hsv
    rw [a, b]; exact ⟨rfl, rfl⟩

/-- the slice-based constructors on the array itself, exactly -/
private theorem slice_spec (t : TD α) (h : t.Inv) (c r k : Nat) (f : VW → Recv α) :
    (t.win.indexTo k >>= fun sl => VW.newMut c r sl >>= fun v => (pure (some (f v)) : Res (Option (Recv α)))) =
      (if k ≤ t.data.length ∧ shapeOk c r ∧ c * r ≤ k then .ok (some (f ⟨⟨0, c * r⟩, c, r, c⟩)) else .error .panic) ∧
    (t.win.indexTo k >>= fun sl => VW.newShared c r sl >>= fun v => (pure (some (f v)) : Res (Option (Recv α)))) =
      (if k ≤ t.data.length ∧ shapeOk c r ∧ c * r ≤ k then .ok (some (f ⟨⟨0, c * r⟩, c, r, c⟩)) else .error .panic) := by
  by_cases hk : k ≤ t.data.length
  · have hi : t.win.indexTo k = .ok ⟨0, k⟩ := by simp [Win.indexTo, TD.win, hk]
    rw [hi, ok_bind, ok_bind]
    by_cases hok : shapeOk c r ∧ c * r ≤ k
    · rw [if_pos ⟨hk, hok⟩]
      obtain ⟨⟨hz, hp⟩, hl⟩ := hok
      constructor
      · simp [VW.newMut, (zeroRuleOk_iff c r).2 hz, cmul_some hp, hl, Win.getTo]
      · simp [VW.newShared, (zeroRuleOk_iff c r).2 hz, cmul_some hp, hl, Win.indexTo]
    · rw [if_neg (fun hh => hok hh.2)]
      obtain ⟨h1, h2⟩ := (C20_view_new c r ⟨0, k⟩ t.data.length (by simpa using hk) h.word).2 hok
      rw [h1, h2]; exact ⟨rfl, rfl⟩
  · have hi : t.win.indexTo k = .error .panic := by simp [Win.indexTo, TD.win, hk]
    rw [hi, if_neg (fun hh => hk hh.1)]; exact ⟨rfl, rfl⟩

/-- **what a borrowing step produces** (so the dispatch in `Recv.borrow` is pinned, not only its safety): for every receiver kind
    `view(s,e)` gives the shared view of exactly the window `specView` prescribes (C03_view_valid: size `end - start`, cells
    `(start+c, start+r)` of the parent) or panics when `specView` rejects; `view_mut(s,e)` the mutable view of the same window
    (not available on a shared view); the slice constructors accept exactly `n ≤ len ∧ shapeOk c r ∧ c*r ≤ n` and give the
    row-major prefix view; `asExt` only re-labels an owned array. -/
theorem C03_borrow_spec (m : Mode) (n : Nat) (rc : Recv α) (h : rc.Sound n) :
    (∀ s e, s.1 < WORD ∧ s.2 < WORD ∧ e.1 < WORD ∧ e.2 < WORD →
      rc.borrow m (.view s e) = (match specView rc.asVW s e with | some v' => .ok (some (.vsh v')) | none => .error .panic) ∧
      rc.borrow m (.viewMut s e) =
        (match rc with
         | .vsh _ => .ok none
         | _ => (match specView rc.asVW s e with | some v' => .ok (some (.vmut v')) | none => .error .panic))) ∧
    (∀ c r k,
      rc.borrow m (.sliceMut c r k) =
        (match rc with
         | .root t => if k ≤ t.data.length ∧ shapeOk c r ∧ c * r ≤ k then .ok (some (.vmut ⟨⟨0, c * r⟩, c, r, c⟩)) else .error .panic
         | _ => .ok none) ∧
      rc.borrow m (.slice c r k) =
        (match rc with
         | .root t => if k ≤ t.data.length ∧ shapeOk c r ∧ c * r ≤ k then .ok (some (.vsh ⟨⟨0, c * r⟩, c, r, c⟩)) else .error .panic
         | _ => .ok none)) ∧
    rc.borrow m .asExt = (match rc with | .root t => .ok (some (.ext t)) | _ => .ok none) := by
  refine ⟨?_, ?_, ?_⟩
  · intro s e hw
    cases rc with
    | root t =>
      have hs := spec_step (α := α) m t.asView n (by rw [← h.2]; exact (TD.asView_inv t h.1).1) s e hw
      exact ⟨by simp only [Recv.borrow, VW.fromTooDee_eq_view]; exact (hs Recv.vsh).1,
        by simp only [Recv.borrow, VW.fromTooDee_eq_view]; exact (hs Recv.vmut).1⟩
    | ext t =>
      have hs := spec_step (α := α) m t.asView n (by rw [← h.2]; exact (TD.asView_inv t h.1).1) s e hw
      exact ⟨by simp only [Recv.borrow, VW.fromTooDee_eq_view]; exact (hs Recv.vsh).1,
        by simp only [Recv.borrow, VW.fromTooDee_eq_view]; exact (hs Recv.vmut).1⟩
    | vmut v =>
      have hs := spec_step (α := α) m v n h s e hw
      exact ⟨by simp only [Recv.borrow]; exact (hs Recv.vsh).2, by simp only [Recv.borrow]; exact (hs Recv.vmut).1⟩
    | vsh v =>
      have hs := spec_step (α := α) m v n h s e hw
      exact ⟨by simp only [Recv.borrow]; exact (hs Recv.vsh).1, by simp only [Recv.borrow]; rfl⟩
  · intro c r k
    cases rc with
    | root t =>
      have hs := slice_spec t h.1 c r k
      exact ⟨by simp only [Recv.borrow]; exact (hs Recv.vmut).1, by simp only [Recv.borrow]; exact (hs Recv.vsh).2⟩
    | ext t => exact ⟨rfl, rfl⟩
    | vmut v => exact ⟨rfl, rfl⟩
    | vsh v => exact ⟨rfl, rfl⟩
  · cases rc <;> rfl

end Toodee
