import Toodee.Spec.OpsSpec
import Toodee.Proofs.Index
/-
  C03 — A view is exactly the requested window of its parent.

  For every parent (owned array or view, any nesting depth: the parent is *any* `VW` with its invariant) and every
  `start ≤ end ≤ (C,R)` componentwise, all view constructors succeed with a window of size `end - start` (or `(0,0)` when
  either extent is zero) whose cell `(c,r)` *is* (same root-buffer position as) the parent's cell `(start.0+c, start.1+r)`,
  and the result again satisfies the view invariant (so the theorem applies to it again: nesting).  Any other
  `start`/`end` panics (never `ub`).  Position equality is what makes "writing a cell through a mutable view changes
  exactly that parent cell" true in the window model.
-/
namespace Toodee
variable {α : Type}

/-- `TooDeeView::view`, `TooDeeViewMut::view_mut` (unchecked slicing) and `TooDeeViewMut::view` (checked slicing) on a view -/
theorem C03_view_valid (m : Mode) (v : VW) (n : Nat) (h : v.Inv n) (s e : Nat × Nat)
    (hs : s.1 ≤ e.1 ∧ s.2 ≤ e.2) (he : e.1 ≤ v.numCols ∧ e.2 ≤ v.numRows) :
    ∃ v', v.view m s e = .ok v' ∧ v.viewChecked m s e = .ok v' ∧ v'.Inv n ∧
      (v'.numCols, v'.numRows) = viewSize s e ∧
      ∀ c r, c < v'.numCols → r < v'.numRows → v'.pos c r = v.pos (s.1 + c) (s.2 + r) := by
  unfold viewSize
  obtain ⟨hstride, hzero, hlen, hinside, hword, hsw⟩ := h
  by_cases h0 : e.1 - s.1 = 0 ∨ e.2 - s.2 = 0
  · have hd := calcViewDims_empty m s e v.numCols v.numRows v.stride hs he hstride h0
    refine ⟨⟨⟨v.data.off + 0, 0⟩, 0, 0, v.stride⟩, ?_, ?_, ?_, ?_, ?_⟩
    · simp [VW.view, hd, Win.getRange]
    · simp [VW.viewChecked, hd, Win.indexRange]
    · exact ⟨Nat.zero_le _, Iff.rfl, by simp, by simp; omega, hword, hsw⟩
    · simp [h0]
    · intro c r hc; simp at hc
  · have hs' : s.1 < e.1 ∧ s.2 < e.2 := by omega
    have hR : ¬ v.numRows = 0 := by omega
    rw [if_neg hR] at hlen
    have hle : (e.2 - 1) * v.stride ≤ (v.numRows - 1) * v.stride :=
      Nat.mul_le_mul_right _ (by omega)
    have hend := view_end_eq v.stride s.1 e.1 hs.1 hs'.2
    have hd := calcViewDims_nonempty m s e v.numCols v.numRows v.stride hs' he hstride (by omega)
    have hg1 : s.2 * v.stride + s.1 ≤
        s.2 * v.stride + s.1 + ((e.2 - s.2 - 1) * v.stride + (e.1 - s.1)) := Nat.le_add_right _ _
    have hg2 : s.2 * v.stride + s.1 + ((e.2 - s.2 - 1) * v.stride + (e.1 - s.1)) ≤ v.data.len := by
      omega
    refine ⟨⟨⟨v.data.off + (s.2 * v.stride + s.1), (e.2 - s.2 - 1) * v.stride + (e.1 - s.1)⟩,
      e.1 - s.1, e.2 - s.2, v.stride⟩, ?_, ?_, ?_, ?_, ?_⟩
    · simp [VW.view, hd, Win.getRange_ok _ hg1 hg2]
    · simp [VW.viewChecked, hd, Win.indexRange_ok _ hg1 hg2]
    · refine ⟨by simp only []; omega, by simp only []; omega, ?_, by simp only []; omega, hword, hsw⟩
      have : ¬ e.2 - s.2 = 0 := by omega
      simp only [this, if_false]
    · simp [h0]
    · intro c r _ _
      simp only [VW.pos, Nat.add_mul]
      omega

theorem C03_view_invalid (m : Mode) (v : VW) (n : Nat) (h : v.Inv n) (s e : Nat × Nat)
    (hw : s.1 < WORD ∧ s.2 < WORD ∧ e.1 < WORD ∧ e.2 < WORD)
    (hbad : ¬ ((s.1 ≤ e.1 ∧ s.2 ≤ e.2) ∧ (e.1 ≤ v.numCols ∧ e.2 ≤ v.numRows))) :
    v.view m s e = .error .panic ∧ v.viewChecked m s e = .error .panic := by
  have _ := hw; have _ := h
  have hd := calcViewDims_panic m s e v.numCols v.numRows v.stride hbad
  simp [VW.view, VW.viewChecked, hd]

/-- `TooDee::view` / `view_mut` (`from_toodee`) on an owned array -/
theorem C03_from_toodee_valid (m : Mode) (t : TD α) (h : t.Inv) (s e : Nat × Nat)
    (hs : s.1 ≤ e.1 ∧ s.2 ≤ e.2) (he : e.1 ≤ t.numCols ∧ e.2 ≤ t.numRows) :
    ∃ v', VW.fromTooDee m s e t = .ok v' ∧ v'.Inv t.data.length ∧
      (v'.numCols, v'.numRows) = viewSize s e ∧
      ∀ c r, c < v'.numCols → r < v'.numRows → v'.pos c r = t.pos (s.1 + c) (s.2 + r) := by
  obtain ⟨hinv, hpos⟩ := TD.asView_inv t h
  obtain ⟨v', h1, _, h3, h4, h5⟩ := C03_view_valid m t.asView t.data.length hinv s e hs he
  refine ⟨v', by rw [VW.fromTooDee_eq_view]; exact h1, h3, h4, ?_⟩
  intro c r hc hr
  rw [h5 c r hc hr, hpos]

theorem C03_from_toodee_invalid (m : Mode) (t : TD α) (h : t.Inv) (s e : Nat × Nat)
    (hw : s.1 < WORD ∧ s.2 < WORD ∧ e.1 < WORD ∧ e.2 < WORD)
    (hbad : ¬ ((s.1 ≤ e.1 ∧ s.2 ≤ e.2) ∧ (e.1 ≤ t.numCols ∧ e.2 ≤ t.numRows))) :
    VW.fromTooDee m s e t = .error .panic := by
  have _ := hw; have _ := h
  have hd := calcViewDims_panic m s e t.numCols t.numRows t.numCols hbad
  simp [VW.fromTooDee, hd]

/-- the window the oracle computes (`specView`, Spec/OpsSpec.lean) is exactly what the view constructors return -/
theorem C03_spec_view (m : Mode) (v : VW) (n : Nat) (h : v.Inv n) (s e : Nat × Nat)
    (hw : s.1 < WORD ∧ s.2 < WORD ∧ e.1 < WORD ∧ e.2 < WORD) :
    (∀ v', specView v s e = some v' → v.view m s e = .ok v' ∧ v.viewChecked m s e = .ok v') ∧
    (specView v s e = none → v.view m s e = .error .panic ∧ v.viewChecked m s e = .error .panic) := by
  by_cases hok : s.1 ≤ e.1 ∧ s.2 ≤ e.2 ∧ e.1 ≤ v.numCols ∧ e.2 ≤ v.numRows
  · have hs : s.1 ≤ e.1 ∧ s.2 ≤ e.2 := ⟨hok.1, hok.2.1⟩
    have he : e.1 ≤ v.numCols ∧ e.2 ≤ v.numRows := hok.2.2
    refine ⟨?_, fun hn => by simp [specView, hok] at hn; split at hn <;> cases hn⟩
    intro v' hv'
    obtain ⟨hstride, hzero, hlen, hinside, hword, hsw⟩ := h
    by_cases h0 : e.1 - s.1 = 0 ∨ e.2 - s.2 = 0
    · have hd := calcViewDims_empty m s e v.numCols v.numRows v.stride hs he hstride h0
      have : v' = ⟨⟨v.data.off + 0, 0⟩, 0, 0, v.stride⟩ := by
        simp only [specView, if_pos hok, viewSize, if_pos h0] at hv'
        simpa using hv'.symm
      subst this
      constructor
      · simp [VW.view, hd, Win.getRange]
      · simp [VW.viewChecked, hd, Win.indexRange]
    · have hs' : s.1 < e.1 ∧ s.2 < e.2 := by omega
      have hR : ¬ v.numRows = 0 := by omega
      rw [if_neg hR] at hlen
      have hle : (e.2 - 1) * v.stride ≤ (v.numRows - 1) * v.stride :=
        Nat.mul_le_mul_right _ (by omega)
      have hend := view_end_eq v.stride s.1 e.1 hs.1 hs'.2
      have hd := calcViewDims_nonempty m s e v.numCols v.numRows v.stride hs' he hstride (by omega)
      have hg1 : s.2 * v.stride + s.1 ≤
          s.2 * v.stride + s.1 + ((e.2 - s.2 - 1) * v.stride + (e.1 - s.1)) := Nat.le_add_right _ _
      have hg2 : s.2 * v.stride + s.1 + ((e.2 - s.2 - 1) * v.stride + (e.1 - s.1)) ≤ v.data.len := by
        omega
      have hne : ¬ e.1 - s.1 = 0 := by omega
      have : v' = ⟨⟨v.data.off + (s.2 * v.stride + s.1), (e.2 - s.2 - 1) * v.stride + (e.1 - s.1)⟩,
          e.1 - s.1, e.2 - s.2, v.stride⟩ := by
        simp only [specView, if_pos hok, viewSize, if_neg h0, if_neg hne, VW.pos] at hv'
        rw [← Option.some.inj hv', Nat.add_assoc]
      subst this
      constructor
      · simp [VW.view, hd, Win.getRange_ok _ hg1 hg2]
      · simp [VW.viewChecked, hd, Win.indexRange_ok _ hg1 hg2]
  · refine ⟨fun v' hv' => by simp [specView, hok] at hv', fun _ => ?_⟩
    exact C03_view_invalid m v n h s e hw (fun hh => hok ⟨hh.1.1, hh.1.2, hh.2.1, hh.2.2⟩)

/-- non-vacuity: the window `(1,0)..(3,2)` of a concrete 3x2 array, and the window `(1,0)..(2,2)` of that window (nesting),
    as concrete computations -/
example : VW.fromTooDee .release (1, 0) (3, 2) (⟨[1, 2, 3, 4, 5, 6], 2, 3⟩ : TD Nat) = .ok ⟨⟨1, 5⟩, 2, 2, 3⟩ := by rfl
example : VW.view .debug ⟨⟨1, 5⟩, 2, 2, 3⟩ (1, 0) (2, 2) = .ok ⟨⟨2, 4⟩, 1, 2, 3⟩ := by rfl
/-- non-vacuity of `C03_view_valid`: its hypotheses hold for that nested request (parent invariant included) -/
example : ∃ v', VW.view .debug ⟨⟨1, 5⟩, 2, 2, 3⟩ (1, 0) (2, 2) = .ok v' ∧ v'.Inv 8 ∧ (v'.numCols, v'.numRows) = (1, 2) := by
  obtain ⟨v', h1, _, h3, h4, _⟩ := C03_view_valid .debug ⟨⟨1, 5⟩, 2, 2, 3⟩ 8
    ⟨by decide, by decide, by decide, by decide, by decide, by decide⟩ (1, 0) (2, 2) (by decide) (by decide)
  exact ⟨v', h1, h3, h4⟩
/-- non-vacuity of `C03_view_invalid`: an `end` beyond the parent panics -/
example : VW.view .release ⟨⟨1, 5⟩, 2, 2, 3⟩ (0, 0) (3, 1) = .error .panic :=
  (C03_view_invalid .release _ 8 ⟨by decide, by decide, by decide, by decide, by decide, by decide⟩ (0, 0) (3, 1)
    (by decide) (by decide)).1

end Toodee
