import Toodee.Spec.Inv
/-
  C03 — A view is exactly the requested window of its parent.

  For every parent (owned array or view, any nesting depth: the parent is *any* `VW` with its invariant) and every
  `start ≤ end ≤ (C,R)` componentwise, all view constructors succeed with a window of size `end - start` (or `(0,0)` when
  either extent is zero) whose cell `(c,r)` *is* (same root-buffer position as) the parent's cell `(start.0+c, start.1+r)`,
  and the result again satisfies the view invariant (so the theorem applies to it again: nesting).  Any other
  `start`/`end` panics (never `ub`).  Position equality is what makes "writing a cell through a mutable view changes
  exactly that parent cell" true in the window model.
-/
namespace Toodee
variable {α : Type}

/-- the size the property prescribes -/
def viewSize (s e : Nat × Nat) : Nat × Nat :=
  if e.1 - s.1 = 0 ∨ e.2 - s.2 = 0 then (0, 0) else (e.1 - s.1, e.2 - s.2)

/-- `TooDeeView::view`, `TooDeeViewMut::view_mut` (unchecked slicing) and `TooDeeViewMut::view` (checked slicing) on a view -/
theorem C03_view_valid (m : Mode) (v : VW) (n : Nat) (h : v.Inv n) (s e : Nat × Nat)
    (hs : s.1 ≤ e.1 ∧ s.2 ≤ e.2) (he : e.1 ≤ v.numCols ∧ e.2 ≤ v.numRows) :
    ∃ v', v.view m s e = .ok v' ∧ v.viewChecked m s e = .ok v' ∧ v'.Inv n ∧
      (v'.numCols, v'.numRows) = viewSize s e ∧
      ∀ c r, c < v'.numCols → r < v'.numRows → v'.pos c r = v.pos (s.1 + c) (s.2 + r) := by
  sorry

theorem C03_view_invalid (m : Mode) (v : VW) (n : Nat) (h : v.Inv n) (s e : Nat × Nat)
    (hw : s.1 < WORD ∧ s.2 < WORD ∧ e.1 < WORD ∧ e.2 < WORD)
    (hbad : ¬ ((s.1 ≤ e.1 ∧ s.2 ≤ e.2) ∧ (e.1 ≤ v.numCols ∧ e.2 ≤ v.numRows))) :
    v.view m s e = .error .panic ∧ v.viewChecked m s e = .error .panic := by
  sorry

/-- `TooDee::view` / `view_mut` (`from_toodee`) on an owned array -/
theorem C03_from_toodee_valid (m : Mode) (t : TD α) (h : t.Inv) (s e : Nat × Nat)
    (hs : s.1 ≤ e.1 ∧ s.2 ≤ e.2) (he : e.1 ≤ t.numCols ∧ e.2 ≤ t.numRows) :
    ∃ v', VW.fromTooDee m s e t = .ok v' ∧ v'.Inv t.data.length ∧
      (v'.numCols, v'.numRows) = viewSize s e ∧
      ∀ c r, c < v'.numCols → r < v'.numRows → v'.pos c r = t.pos (s.1 + c) (s.2 + r) := by
  sorry

theorem C03_from_toodee_invalid (m : Mode) (t : TD α) (h : t.Inv) (s e : Nat × Nat)
    (hw : s.1 < WORD ∧ s.2 < WORD ∧ e.1 < WORD ∧ e.2 < WORD)
    (hbad : ¬ ((s.1 ≤ e.1 ∧ s.2 ≤ e.2) ∧ (e.1 ≤ t.numCols ∧ e.2 ≤ t.numRows))) :
    VW.fromTooDee m s e t = .error .panic := by
  sorry

end Toodee
