import Toodee.Spec.Grid
import Toodee.Proofs.InsertLemmas
/-
  C06 — Inserting a row or column places it exactly and keeps the rest.

  `insert_row(i, items)` / `insert_col(i, items)` (and `push_*` = the `i = dim` instances) on an array with the shape
  invariant, for an honest iterator yielding `xs`, for **every** capacity `reserve` may have produced (`spare` = the cells
  beyond the length, any content, at least as many as requested), in both build modes:
  * accepted iff `i ≤ R` (resp. `C`) and `|xs| = C` (resp. `R`) or the array is empty; the result is the original with the new
    line at position `i`, every other cell in its original relative position, that dimension grown by one; an empty line into
    an empty array leaves `(0,0)`; nothing is leaked, the iterator is exhausted, the invariant holds;
  * any other index or length panics *before any mutation* (the array is unchanged — stronger than "a valid array").
  The raw moves never leave the allocation (no `ub`).
-/
namespace Toodee
variable {α : Type}

theorem C06_insert_row_ok (m : Mode) (cap : Nat) (t : TD α) (h : t.Inv) (i : Nat) (xs spare : List α)
    (hi : i ≤ t.numRows) (hlen : t.numRows = 0 ∨ xs.length = t.numCols)
    (hcap : t.data.length + xs.length ≤ cap) (hsp : xs.length ≤ spare.length)
    (hword : t.data.length + xs.length < WORD) :
    let o := t.insertRow m cap i (honest xs) spare
    o.res = .ok () ∧ o.rest = [] ∧ o.leaked = [] ∧ o.t.Inv ∧
    o.t.data = t.data.take (i * t.numCols) ++ xs ++ t.data.drop (i * t.numCols) ∧
    o.t.numCols = xs.length ∧
    o.t.numRows = (if xs.length = 0 then 0 else t.numRows + 1) := by
  intro o
  have ho : o = _ := insertRow_honest m cap t h i xs spare hi hlen hcap hsp hword
  have hsle : i * t.numCols ≤ t.data.length := by
    rw [h.len, Nat.mul_comm t.numCols]
    exact Nat.mul_le_mul_right _ hi
  have hR0 : xs.length = 0 → t.numRows = 0 := by
    intro h0
    rcases hlen with h1 | h1
    · exact h1
    · exact h.zero.1 (by omega)
  have hnr : (if xs.length > 0 then t.numRows + 1 else t.numRows) = (if xs.length = 0 then 0 else t.numRows + 1) := by
    by_cases h0 : xs.length = 0
    · simp [h0, hR0 h0]
    · simp [h0, Nat.pos_of_ne_zero h0]
  rw [ho]
  refine ⟨rfl, rfl, rfl, ⟨?_, ?_, ?_⟩, rfl, rfl, hnr⟩
  · show (_ ++ xs ++ _).length = xs.length * (if xs.length > 0 then t.numRows + 1 else t.numRows)
    simp only [List.length_append, List.length_take, List.length_drop, Nat.min_eq_left hsle]
    have hd := h.len
    generalize i * t.numCols = s at hsle ⊢
    by_cases h0 : xs.length = 0
    · rw [hR0 h0, Nat.mul_zero] at hd
      rw [h0, Nat.zero_mul]; omega
    · rw [if_pos (Nat.pos_of_ne_zero h0), Nat.mul_add, Nat.mul_one]
      rcases hlen with h1 | h1
      · rw [h1, Nat.mul_zero] at hd ⊢; omega
      · rw [h1]; omega
  · show xs.length = 0 ↔ (if xs.length > 0 then t.numRows + 1 else t.numRows) = 0
    rw [hnr]
    by_cases h0 : xs.length = 0 <;> simp [h0]
  · show (_ ++ xs ++ _).length < WORD
    simp only [List.length_append, List.length_take, List.length_drop, Nat.min_eq_left hsle]
    omega

/-- the same result in rows-of-cells form: the new row sits at index `i`, the others keep their order -/
theorem C06_insert_row_grid (m : Mode) (cap : Nat) (t : TD α) (h : t.Inv) (i : Nat) (xs spare : List α)
    (hi : i ≤ t.numRows) (hlen : xs.length = t.numCols) (hpos : 0 < xs.length)
    (hcap : t.data.length + xs.length ≤ cap) (hsp : xs.length ≤ spare.length)
    (hword : t.data.length + xs.length < WORD) :
    (t.insertRow m cap i (honest xs) spare).t.grid = t.grid.insertIdx i xs := by
  rw [insertRow_honest m cap t h i xs spare hi (Or.inr hlen) hcap hsp hword]
  show toRows xs.length (t.data.take (i * t.numCols) ++ xs ++ t.data.drop (i * t.numCols)) = _
  have hg : ∀ r ∈ t.grid, r.length = xs.length := by rw [hlen]; exact t.grid_row_length
  have hall : ∀ r ∈ t.grid.insertIdx i xs, r.length = xs.length := by
    intro r hr
    rw [insertIdx_eq_take_append_drop _ _ _ (by rw [h.grid_length]; exact hi)] at hr
    simp only [List.mem_append, List.mem_cons] at hr
    rcases hr with hr | rfl | hr
    · exact hg r (List.mem_of_mem_take hr)
    · rfl
    · exact hg r (List.mem_of_mem_drop hr)
  rw [← hlen, h.data_eq_flatten_grid,
    ← flatten_insertIdx_uniform xs.length t.grid hg i xs (by rw [h.grid_length]; exact hi),
    toRows_flatten xs.length hpos _ hall]

theorem C06_insert_row_reject (m : Mode) (cap : Nat) (t : TD α) (i : Nat) (it : IterScript α) (spare : List α)
    (hbad : ¬ (i ≤ t.numRows ∧ (t.numRows = 0 ∨ it.claimed = t.numCols))) :
    let o := t.insertRow m cap i it spare
    o.res = .error .panic ∧ o.t = t ∧ o.rest = it.events ∧ o.leaked = [] := by
  intro o
  have ho : o = ⟨t, .error .panic, it.events, []⟩ := by
    show t.insertRow m cap i it spare = _
    unfold TD.insertRow
    by_cases hi : i ≤ t.numRows
    · have hl : (t.numRows == 0 || t.numCols == it.claimed) = false := by
        by_cases h0 : t.numRows = 0
        · exact absurd ⟨hi, Or.inl h0⟩ hbad
        · have : ¬ t.numCols = it.claimed := fun hc => hbad ⟨hi, Or.inr hc.symm⟩
          simp [h0, this]
      simp only [hi, not_true_eq_false, if_false, hl, Bool.not_false, if_true, throw_eq]
    · simp only [hi, not_false_eq_true, if_true, throw_eq]
  rw [ho]
  exact ⟨rfl, rfl, rfl, rfl⟩

theorem C06_insert_col_ok (m : Mode) (cap : Nat) (t : TD α) (h : t.Inv) (i : Nat) (xs spare : List α)
    (hi : i ≤ t.numCols) (hlen : t.numCols = 0 ∨ xs.length = t.numRows)
    (hcap : t.data.length + xs.length ≤ cap) (hsp : xs.length ≤ spare.length)
    (hword : t.data.length + xs.length < WORD) :
    let o := t.insertCol m cap i (honest xs) spare
    o.res = .ok () ∧ o.rest = [] ∧ o.leaked = [] ∧ o.t.Inv ∧
    o.t.data = (if t.numCols = 0 then xs else (List.zipWith (insAt i) t.grid xs).flatten) ∧
    o.t.numRows = xs.length ∧
    o.t.numCols = (if xs.length = 0 then 0 else t.numCols + 1) := by
  intro o
  have hd := h.len
  -- the rows the buffer is made of (an array without columns: one empty row per item)
  obtain ⟨rows, hrows, hdata, hrl, hflat⟩ : ∃ rows : List (List α), (∀ r ∈ rows, r.length = t.numCols) ∧
      t.data = rows.flatten ∧ xs.length = rows.length ∧
      (List.zipWith (insAt i) rows xs).flatten
        = (if t.numCols = 0 then xs else (List.zipWith (insAt i) t.grid xs).flatten) := by
    by_cases hc : t.numCols = 0
    · refine ⟨List.replicate xs.length [], ?_, ?_, by simp, ?_⟩
      · intro r hr
        rw [List.eq_of_mem_replicate hr, hc]; rfl
      · rw [List.flatten_replicate_nil]
        apply List.eq_nil_of_length_eq_zero
        rw [hd, hc, Nat.zero_mul]
      · have hi0 : i = 0 := by omega
        rw [if_pos hc, hi0]
        exact zipWith_insAt_replicate_nil xs
    · have hx : xs.length = t.numRows := by
        rcases hlen with h1 | h1
        · exact absurd h1 hc
        · exact h1
      exact ⟨t.grid, t.grid_row_length, h.data_eq_flatten_grid, by rw [h.grid_length, hx], by rw [if_neg hc]⟩
  have ho : o = _ := insertCol_honest m cap t i xs spare rows hrows hdata hrl hi hlen hcap hsp hword
  have hlenf := zipWith_insAt_flatten_length t.numCols i hi rows xs hrows hrl
  rw [← hdata] at hlenf
  rw [hflat] at ho hlenf
  have hprod : t.numCols * xs.length = t.data.length := by
    rw [hd]
    rcases hlen with h1 | h1
    · simp [h1]
    · rw [h1]
  rw [ho]
  generalize (if t.numCols = 0 then xs else (List.zipWith (insAt i) t.grid xs).flatten) = flat at hlenf ⊢
  by_cases h0 : xs.length = 0
  · have hn : ¬ xs.length > 0 := by omega
    rw [if_neg hn]
    rw [h0, Nat.mul_zero] at hprod
    refine ⟨rfl, rfl, rfl, ⟨?_, Iff.rfl, ?_⟩, rfl, h0.symm, by rw [if_pos h0]⟩
    · show flat.length = 0 * 0
      omega
    · show flat.length < WORD
      omega
  · rw [if_pos (Nat.pos_of_ne_zero h0)]
    refine ⟨rfl, rfl, rfl, ⟨?_, ?_, ?_⟩, rfl, rfl, by rw [if_neg h0]⟩
    · show flat.length = (t.numCols + 1) * xs.length
      rw [Nat.add_mul]; omega
    · show t.numCols + 1 = 0 ↔ xs.length = 0
      omega
    · show flat.length < WORD
      omega

/-- rows-of-cells form: every row gets its new cell at column `i` -/
theorem C06_insert_col_grid (m : Mode) (cap : Nat) (t : TD α) (h : t.Inv) (i : Nat) (xs spare : List α)
    (hi : i ≤ t.numCols) (hlen : xs.length = t.numRows) (hpos : 0 < t.numCols)
    (hcap : t.data.length + xs.length ≤ cap) (hsp : xs.length ≤ spare.length)
    (hword : t.data.length + xs.length < WORD) :
    (t.insertCol m cap i (honest xs) spare).t.grid = List.zipWith (insAt i) t.grid xs := by
  have hR : 0 < xs.length := by
    have := h.zero
    omega
  rw [insertCol_honest m cap t i xs spare t.grid t.grid_row_length h.data_eq_flatten_grid
    (by rw [h.grid_length, hlen]) hi (Or.inr hlen) hcap hsp hword, if_pos hR]
  show toRows (t.numCols + 1) (List.zipWith (insAt i) t.grid xs).flatten = _
  exact toRows_flatten _ (by omega) _ (zipWith_insAt_row_length t.numCols i hi t.grid xs t.grid_row_length)

theorem C06_insert_col_reject (m : Mode) (cap : Nat) (t : TD α) (i : Nat) (it : IterScript α) (spare : List α)
    (hbad : ¬ (i ≤ t.numCols ∧ (t.numCols = 0 ∨ it.claimed = t.numRows))) :
    let o := t.insertCol m cap i it spare
    o.res = .error .panic ∧ o.t = t ∧ o.rest = it.events ∧ o.leaked = [] := by
  intro o
  have ho : o = ⟨t, .error .panic, it.events, []⟩ := by
    show t.insertCol m cap i it spare = _
    unfold TD.insertCol
    by_cases hi : i ≤ t.numCols
    · have hl : (t.numCols == 0 || t.numRows == it.claimed) = false := by
        by_cases h0 : t.numCols = 0
        · exact absurd ⟨hi, Or.inl h0⟩ hbad
        · have : ¬ t.numRows = it.claimed := fun hc => hbad ⟨hi, Or.inr hc.symm⟩
          simp [h0, this]
      simp only [hi, not_true_eq_false, if_false, hl, Bool.not_false, if_true, throw_eq]
    · simp only [hi, not_false_eq_true, if_true, throw_eq]
  rw [ho]
  exact ⟨rfl, rfl, rfl, rfl⟩

/-- `push_row` / `push_col` are the `i = dim` instances -/
theorem C06_push (m : Mode) (cap : Nat) (t : TD α) (it : IterScript α) (spare : List α) :
    t.pushRow m cap it spare = t.insertRow m cap t.numRows it spare ∧
    t.pushCol m cap it spare = t.insertCol m cap t.numCols it spare := ⟨rfl, rfl⟩

/-- non-vacuity: a 3x2 array gets a column at index 1 (exact capacity) -/
example : (TD.insertCol .debug 100 ⟨[1, 2, 3, 4, 5, 6], 2, 3⟩ 1 (honest [10, 20]) [0, 0]).t
    = ⟨[1, 10, 2, 3, 4, 20, 5, 6], 2, 4⟩ := by decide

end Toodee
