import Toodee.Spec.Grid
/-
  C06 — Inserting a row or column places it exactly and keeps the rest.

  `insert_row(i, items)` / `insert_col(i, items)` (and `push_*` = the `i = dim` instances) on an array with the shape
  invariant, for an honest iterator yielding `xs`, for **every** capacity `reserve` may have produced (`spare` = the cells
  beyond the length, any content, at least as many as requested), in both build modes:
  * accepted iff `i ≤ R` (resp. `C`) and `|xs| = C` (resp. `R`) or the array is empty; the result is the original with the new
    line at position `i`, every other cell in its original relative position, that dimension grown by one; an empty line into
    an empty array leaves `(0,0)`; nothing is leaked, the iterator is exhausted, the invariant holds;
  * any other index or length panics *before any mutation* (the array is unchanged — stronger than "a valid array").
  The raw moves never leave the allocation (no `ub`).
-/
namespace Toodee
variable {α : Type}

theorem C06_insert_row_ok (m : Mode) (cap : Nat) (t : TD α) (h : t.Inv) (i : Nat) (xs spare : List α)
    (hi : i ≤ t.numRows) (hlen : t.numRows = 0 ∨ xs.length = t.numCols)
    (hcap : t.data.length + xs.length ≤ cap) (hsp : xs.length ≤ spare.length)
    (hword : t.data.length + xs.length < WORD) :
    let o := t.insertRow m cap i (honest xs) spare
    o.res = .ok () ∧ o.rest = [] ∧ o.leaked = [] ∧ o.t.Inv ∧
    o.t.data = t.data.take (i * t.numCols) ++ xs ++ t.data.drop (i * t.numCols) ∧
    o.t.numCols = xs.length ∧
    o.t.numRows = (if xs.length = 0 then 0 else t.numRows + 1) := by
  sorry

/-- the same result in rows-of-cells form: the new row sits at index `i`, the others keep their order -/
theorem C06_insert_row_grid (m : Mode) (cap : Nat) (t : TD α) (h : t.Inv) (i : Nat) (xs spare : List α)
    (hi : i ≤ t.numRows) (hlen : xs.length = t.numCols) (hpos : 0 < xs.length)
    (hcap : t.data.length + xs.length ≤ cap) (hsp : xs.length ≤ spare.length)
    (hword : t.data.length + xs.length < WORD) :
    (t.insertRow m cap i (honest xs) spare).t.grid = t.grid.insertIdx i xs := by
  sorry

theorem C06_insert_row_reject (m : Mode) (cap : Nat) (t : TD α) (i : Nat) (it : IterScript α) (spare : List α)
    (hbad : ¬ (i ≤ t.numRows ∧ (t.numRows = 0 ∨ it.claimed = t.numCols))) :
    let o := t.insertRow m cap i it spare
    o.res = .error .panic ∧ o.t = t ∧ o.rest = it.events ∧ o.leaked = [] := by
  sorry

theorem C06_insert_col_ok (m : Mode) (cap : Nat) (t : TD α) (h : t.Inv) (i : Nat) (xs spare : List α)
    (hi : i ≤ t.numCols) (hlen : t.numCols = 0 ∨ xs.length = t.numRows)
    (hcap : t.data.length + xs.length ≤ cap) (hsp : xs.length ≤ spare.length)
    (hword : t.data.length + xs.length < WORD) :
    let o := t.insertCol m cap i (honest xs) spare
    o.res = .ok () ∧ o.rest = [] ∧ o.leaked = [] ∧ o.t.Inv ∧
    o.t.data = (if t.numCols = 0 then xs else (List.zipWith (insAt i) t.grid xs).flatten) ∧
    o.t.numRows = xs.length ∧
    o.t.numCols = (if xs.length = 0 then 0 else t.numCols + 1) := by
  sorry

/-- rows-of-cells form: every row gets its new cell at column `i` -/
theorem C06_insert_col_grid (m : Mode) (cap : Nat) (t : TD α) (h : t.Inv) (i : Nat) (xs spare : List α)
    (hi : i ≤ t.numCols) (hlen : xs.length = t.numRows) (hpos : 0 < t.numCols)
    (hcap : t.data.length + xs.length ≤ cap) (hsp : xs.length ≤ spare.length)
    (hword : t.data.length + xs.length < WORD) :
    (t.insertCol m cap i (honest xs) spare).t.grid = List.zipWith (insAt i) t.grid xs := by
  sorry

theorem C06_insert_col_reject (m : Mode) (cap : Nat) (t : TD α) (i : Nat) (it : IterScript α) (spare : List α)
    (hbad : ¬ (i ≤ t.numCols ∧ (t.numCols = 0 ∨ it.claimed = t.numRows))) :
    let o := t.insertCol m cap i it spare
    o.res = .error .panic ∧ o.t = t ∧ o.rest = it.events ∧ o.leaked = [] := by
  sorry

/-- `push_row` / `push_col` are the `i = dim` instances -/
theorem C06_push (m : Mode) (cap : Nat) (t : TD α) (it : IterScript α) (spare : List α) :
    t.pushRow m cap it spare = t.insertRow m cap t.numRows it spare ∧
    t.pushCol m cap it spare = t.insertCol m cap t.numCols it spare := ⟨rfl, rfl⟩

/-- non-vacuity: a 3x2 array gets a column at index 1 (exact capacity) -/
example : (TD.insertCol .debug 100 ⟨[1, 2, 3, 4, 5, 6], 2, 3⟩ 1 (honest [10, 20]) [0, 0]).t
    = ⟨[1, 10, 2, 3, 4, 20, 5, 6], 2, 4⟩ := by decide

end Toodee
