import Toodee.Properties.C02
import Toodee.Properties.C03
/-
  C02 (dispatch part) — every indexed access form on every receiver denotes the addressed cell.

  `Recv.indexCoord` / `indexCoordMut` / `indexRow` / `indexRowMut` / `getUnchecked` / `getUncheckedRow` / `col` (Impl/Recv.lean) are
  which accessor body runs for an owned array, a third-party wrapper, a mutable view and a shared view.  For a receiver reached
  by **any chain of borrowing steps** (`C03_borrow_chain` gives `Recv.Sound`), all of them agree on one position per coordinate,
  that position is a cell of the receiver, distinct coordinates give distinct positions, and out-of-range coordinates panic on
  every checked form.
-/
namespace Toodee
variable {α : Type}

/-- the dimensions and the position formula of a receiver -/
def Recv.pos : Recv α → Nat → Nat → Nat
  | .root t, c, r | .ext t, c, r => t.pos c r
  | .vmut v, c, r | .vsh v, c, r => v.pos c r

/-- owned array (or third-party wrapper): all access forms, valid coordinate -/
private theorem td_access_valid (m : Mode) (t : TD α) (h : t.Inv) (c r : Nat)
    (hc : c < t.numCols) (hr : r < t.numRows) :
    t.pos c r < t.data.length ∧
    t.indexCoord m c r = .ok (t.pos c r) ∧
    t.indexCoordMut m c r = .ok (t.pos c r) ∧
    t.getUnchecked m c r = .ok (t.pos c r) ∧
    (t.indexRow m r >>= fun w => w.index c) = .ok (t.pos c r) ∧
    (t.indexRowMut m r >>= fun w => w.index c) = .ok (t.pos c r) ∧
    (t.getUncheckedRow m r >>= fun w => w.index c) = .ok (t.pos c r) ∧
    (t.col m c >>= fun it => it.index m r) = .ok (t.pos c r) := by
  obtain ⟨h1, h2, h3, h4, h5, h6, h7, h8, it, h9, h10⟩ := C02_owned_valid m t h c r hc hr
  refine ⟨h1, h2, h3, h4, ?_, ?_, ?_, ?_⟩
  · rw [h5, ok_bind]; exact h8
  · rw [h6, ok_bind]; exact h8
  · rw [h7, ok_bind]; exact h8
  · rw [h9, ok_bind]; exact h10

/-- view (mutable or shared): all access forms, valid coordinate -/
private theorem vw_access_valid (m : Mode) (v : VW) (n : Nat) (h : v.Inv n) (c r : Nat)
    (hc : c < v.numCols) (hr : r < v.numRows) :
    v.pos c r < n ∧ (v.coord? (v.pos c r)).isSome ∧
    v.indexCoord m c r = .ok (v.pos c r) ∧
    v.getUnchecked m c r = .ok (v.pos c r) ∧
    (v.indexRow m r >>= fun w => w.index c) = .ok (v.pos c r) ∧
    (v.getUncheckedRow m r >>= fun w => w.index c) = .ok (v.pos c r) ∧
    (v.col m c >>= fun it => it.index m r) = .ok (v.pos c r) := by
  obtain ⟨h1, h2, h3, h4, h5, h6, it, h7, h8⟩ := C02_view_valid m v n h c r hc hr
  refine ⟨h1, ?_, h2, h3, ?_, ?_, ?_⟩
  · rw [VW.coord?_pos h hc hr]; rfl
  · rw [h4, ok_bind]; exact h6
  · rw [h5, ok_bind]; exact h6
  · rw [h7, ok_bind]; exact h8

theorem C02_recv_valid (m : Mode) (n : Nat) (rc : Recv α) (h : rc.Sound n) (c r : Nat)
    (hc : c < rc.numCols) (hr : r < rc.numRows) :
    rc.pos c r < n ∧ rc.IsCell (rc.pos c r) ∧
    rc.indexCoord m c r = .ok (rc.pos c r) ∧
    rc.indexCoordMut m c r = .ok (rc.pos c r) ∧
    rc.getUnchecked m c r = .ok (rc.pos c r) ∧
    (rc.indexRow m r >>= fun w => w.index c) = .ok (rc.pos c r) ∧
    (rc.indexRowMut m r >>= fun w => w.index c) = .ok (rc.pos c r) ∧
    (rc.getUncheckedRow m r >>= fun w => w.index c) = .ok (rc.pos c r) ∧
    (rc.col m c >>= fun it => it.index m r) = .ok (rc.pos c r) := by
  cases rc with
  | root t =>
    obtain ⟨ht, hl⟩ := h
    obtain ⟨h1, h2, h3, h4, h5, h6, h7, h8⟩ := td_access_valid m t ht c r hc hr
    exact ⟨hl ▸ h1, h1, h2, h3, h4, h5, h6, h7, h8⟩
  | ext t =>
    obtain ⟨ht, hl⟩ := h
    obtain ⟨h1, h2, h3, h4, h5, h6, h7, h8⟩ := td_access_valid m t ht c r hc hr
    exact ⟨hl ▸ h1, h1, h2, h3, h4, h5, h6, h7, h8⟩
  | vmut v =>
    obtain ⟨h1, h2, h3, h4, h5, h6, h7⟩ := vw_access_valid m v n h c r hc hr
    exact ⟨h1, h2, h3, h3, h4, h5, h5, h6, h7⟩
  | vsh v =>
    obtain ⟨h1, h2, h3, h4, h5, h6, h7⟩ := vw_access_valid m v n h c r hc hr
    exact ⟨h1, h2, h3, h3, h4, h5, h5, h6, h7⟩

theorem C02_recv_invalid (m : Mode) (n : Nat) (rc : Recv α) (h : rc.Sound n) (c r : Nat)
    (hcw : c < WORD) (hrw : r < WORD) (hbad : ¬ (c < rc.numCols ∧ r < rc.numRows)) :
    rc.indexCoord m c r = .error .panic ∧
    rc.indexCoordMut m c r = .error .panic ∧
    (rc.indexRow m r >>= fun w => w.index c) = .error .panic ∧
    (rc.indexRowMut m r >>= fun w => w.index c) = .error .panic ∧
    (rc.col m c >>= fun it => it.index m r) = .error .panic := by
  cases rc with
  | root t => exact C02_owned_invalid m t h.1 c r hcw hrw hbad
  | ext t => exact C02_owned_invalid m t h.1 c r hcw hrw hbad
  | vmut v =>
    obtain ⟨h1, h2, h3⟩ := C02_view_invalid m v n h c r hcw hrw hbad
    exact ⟨h1, h1, h2, h2, h3⟩
  | vsh v =>
    obtain ⟨h1, h2, h3⟩ := C02_view_invalid m v n h c r hcw hrw hbad
    exact ⟨h1, h1, h2, h2, h3⟩

theorem C02_recv_injective (n : Nat) (rc : Recv α) (h : rc.Sound n) (c1 r1 c2 r2 : Nat)
    (h1 : c1 < rc.numCols ∧ r1 < rc.numRows) (h2 : c2 < rc.numCols ∧ r2 < rc.numRows)
    (he : rc.pos c1 r1 = rc.pos c2 r2) : c1 = c2 ∧ r1 = r2 := by
  cases rc with
  | root t =>
    obtain ⟨hinv, hpos⟩ := C02_owned_as_view t h.1
    exact C02_pos_injective t.asView _ hinv c1 r1 c2 r2 h1.1 h2.1 h1.2 h2.2
      (by rw [hpos, hpos]; exact he)
  | ext t =>
    obtain ⟨hinv, hpos⟩ := C02_owned_as_view t h.1
    exact C02_pos_injective t.asView _ hinv c1 r1 c2 r2 h1.1 h2.1 h1.2 h2.2
      (by rw [hpos, hpos]; exact he)
  | vmut v => exact C02_pos_injective v n h c1 r1 c2 r2 h1.1 h2.1 h1.2 h2.2 he
  | vsh v => exact C02_pos_injective v n h c1 r1 c2 r2 h1.1 h2.1 h1.2 h2.2 he

end Toodee
