import Toodee.Spec.Inv
import Toodee.Spec.IterAbs
import Toodee.Proofs.IterLemmas
import Toodee.Proofs.MemLemmas
import Toodee.Proofs.CellsLemmas
import Toodee.Proofs.CopyLemmas
import Toodee.Proofs.ConvLemmas
/-
  C20 — Constructors and conversions preserve contents and reject bad shapes.

  `new`, `init`, `from_vec`/`from_box`, `TooDeeView::new`, `TooDeeViewMut::new`: accepted **iff** the zero rule holds,
  the product of the dimensions fits a `usize` and the buffer fits (`=` for `from_vec`, `≤` for the slice views);
  otherwise `panic` (never `ub`).  On acceptance: exactly the stated dimensions, the invariant, cells in row-major order.
  Equality / hashing are the derived field-wise ones.
-/
namespace Toodee
variable {α : Type}

/-- the acceptance condition shared by all constructors -/
def shapeOk (c r : Nat) : Prop := (c = 0 ↔ r = 0) ∧ c * r < WORD

instance (c r : Nat) : Decidable (shapeOk c r) := by unfold shapeOk; infer_instance

theorem zeroRuleOk_iff (c r : Nat) : TD.zeroRuleOk c r = true ↔ (c = 0 ↔ r = 0) := by
  unfold TD.zeroRuleOk
  by_cases hc : c = 0 <;> by_cases hr : r = 0 <;> simp [hc, hr] <;> omega

theorem cmul_some {c r : Nat} (h : c * r < WORD) : cmul c r = some (c * r) := by simp [cmul, h]
theorem cmul_none {c r : Nat} (h : ¬ c * r < WORD) : cmul c r = none := by simp [cmul, h]

/-- `TooDee::new(c, r)`: accepted iff `shapeOk` and a `Vec<T>` can hold `c*r` elements (`cap` = the capacity limit of the
    element type, `allocOk`); then dimensions `(c,r)`, invariant, every cell the default value.  Otherwise `panic`. -/
theorem C20_new (cap c r : Nat) (d : α) :
    (shapeOk c r ∧ c * r ≤ cap → ∃ t, TD.new cap c r d = .ok t ∧ t.Inv ∧ t.numCols = c ∧ t.numRows = r ∧
        t.data = List.replicate (c * r) d) ∧
    (¬ (shapeOk c r ∧ c * r ≤ cap) → TD.new cap c r d = .error .panic) := by
  constructor
  · rintro ⟨⟨hz, hw⟩, hcap⟩
    refine ⟨⟨List.replicate (c * r) d, r, c⟩, ?_, ⟨by simp, hz, by simpa using hw⟩, rfl, rfl, rfl⟩
    simp [TD.new, (zeroRuleOk_iff c r).2 hz, cmul_some hw, allocOk, hcap]
  · intro h
    unfold TD.new
    by_cases hz : TD.zeroRuleOk c r = true
    · by_cases hw : c * r < WORD
      · have hcap : ¬ c * r ≤ cap := fun hc => h ⟨⟨(zeroRuleOk_iff c r).1 hz, hw⟩, hc⟩
        simp [hz, cmul_some hw, allocOk, hcap]
      · simp [hz, cmul_none hw]
    · simp [hz]

/-- `TooDee::init(c, r, v)` -/
theorem C20_init (cap c r : Nat) (v : α) :
    (shapeOk c r ∧ c * r ≤ cap → ∃ t, TD.init cap c r v = .ok t ∧ t.Inv ∧ t.numCols = c ∧ t.numRows = r ∧
        t.data = List.replicate (c * r) v) ∧
    (¬ (shapeOk c r ∧ c * r ≤ cap) → TD.init cap c r v = .error .panic) := by
  constructor
  · rintro ⟨⟨hz, hw⟩, hcap⟩
    have hw' : r * c < WORD := by rw [Nat.mul_comm]; exact hw
    have hcap' : r * c ≤ cap := by rw [Nat.mul_comm]; exact hcap
    refine ⟨⟨List.replicate (r * c) v, r, c⟩, ?_, ⟨by simp [Nat.mul_comm], hz, by simpa using hw'⟩, rfl, rfl, by
      simp [Nat.mul_comm]⟩
    simp [TD.init, (zeroRuleOk_iff c r).2 hz, cmul_some hw', allocOk, hcap']
  · intro h
    unfold TD.init
    by_cases hz : TD.zeroRuleOk c r = true
    · by_cases hw : r * c < WORD
      · have hcap : ¬ r * c ≤ cap := fun hc =>
          h ⟨⟨(zeroRuleOk_iff c r).1 hz, by rw [Nat.mul_comm]; exact hw⟩, by rw [Nat.mul_comm]; exact hc⟩
        simp [hz, cmul_some hw, allocOk, hcap]
      · simp [hz, cmul_none hw]
    · simp [hz]

/-- `TooDee::from_vec(c, r, v)` and `from_box`: additionally the buffer length must equal the product. -/
theorem C20_from_vec (c r : Nat) (v : List α) :
    (shapeOk c r ∧ c * r = v.length → ∃ t, TD.fromVec c r v = .ok t ∧ t.Inv ∧ t.numCols = c ∧ t.numRows = r ∧ t.data = v) ∧
    (¬ (shapeOk c r ∧ c * r = v.length) → TD.fromVec c r v = .error .panic) := by
  constructor
  · rintro ⟨⟨hz, hw⟩, hl⟩
    refine ⟨⟨v, r, c⟩, ?_, ⟨hl.symm, hz, by rw [← hl]; exact hw⟩, rfl, rfl, rfl⟩
    simp [TD.fromVec, (zeroRuleOk_iff c r).2 hz, cmul_some hw, hl]
  · intro h
    unfold TD.fromVec
    by_cases hz : TD.zeroRuleOk c r = true
    · by_cases hw : c * r < WORD
      · have hl : ¬ c * r = v.length := fun hl => h ⟨⟨(zeroRuleOk_iff c r).1 hz, hw⟩, hl⟩
        simp [hz, cmul_some hw, hl]
      · simp [hz, cmul_none hw]
    · simp [hz]

/-- `TooDeeView::new(c, r, slice)` / `TooDeeViewMut::new`: accepted iff `shapeOk` and the product fits the slice; the view
    then has stride `c`, starts where the slice starts, satisfies the view invariant, and its cell `(col,row)` is the
    slice's cell `row*c + col` (row-major prefix of the slice). -/
theorem C20_view_new (c r : Nat) (slice : Win) (n : Nat) (hn : slice.off + slice.len ≤ n) (hw : n < WORD) :
    (shapeOk c r ∧ c * r ≤ slice.len →
      ∃ v, VW.newShared c r slice = .ok v ∧ VW.newMut c r slice = .ok v ∧ v.Inv n ∧ v.numCols = c ∧ v.numRows = r ∧
        ∀ col row, v.pos col row = slice.off + (row * c + col)) ∧
    (¬ (shapeOk c r ∧ c * r ≤ slice.len) →
      VW.newShared c r slice = .error .panic ∧ VW.newMut c r slice = .error .panic) := by
  constructor
  · rintro ⟨⟨hz, hp⟩, hl⟩
    refine ⟨⟨⟨slice.off, c * r⟩, c, r, c⟩, ?_, ?_, ?_, rfl, rfl, ?_⟩
    · simp [VW.newShared, (zeroRuleOk_iff c r).2 hz, cmul_some hp, hl, Win.indexTo]
    · simp [VW.newMut, (zeroRuleOk_iff c r).2 hz, cmul_some hp, hl, Win.getTo]
    · refine ⟨Nat.le_refl _, hz, ?_, by simp; omega, hw, ?_⟩
      rotate_left
      · show c < WORD
        by_cases hr : r = 0
        · have : c = 0 := hz.2 hr
          simp [this, WORD]
        · have : c * 1 ≤ c * r := Nat.mul_le_mul_left c (by omega)
          omega
      by_cases hr : r = 0
      · simp [hr]
      · obtain ⟨k, rfl⟩ : ∃ k, r = k + 1 := ⟨r - 1, by omega⟩
        simp [Nat.mul_add, Nat.mul_comm]
    · intro col row; simp [VW.pos]; omega
  · intro h
    unfold VW.newShared VW.newMut
    by_cases hz : TD.zeroRuleOk c r = true
    · by_cases hp : c * r < WORD
      · have hl : ¬ c * r ≤ slice.len := fun hl => h ⟨⟨(zeroRuleOk_iff c r).1 hz, hp⟩, hl⟩
        simp [hz, cmul_some hp, hl]
      · simp [hz, cmul_none hp]
    · simp [hz]

/-- `default()` and `with_capacity(n)` give the empty array `(0,0)`, which satisfies the invariant. -/
theorem C20_default : (TD.default : TD α).Inv ∧
    ∀ cap n, (TD.withCapacity cap n : Res (TD α)) = if n ≤ cap then .ok TD.default else .error .panic := by
  refine ⟨⟨rfl, Iff.rfl, by simp [TD.default, WORD]⟩, fun cap n => ?_⟩
  by_cases h : n ≤ cap <;> simp [TD.withCapacity, allocOk, h, TD.default]

/-- `==` (`#[derive(PartialEq)]`, `TD.eqDerived`) for arrays satisfying the shape invariant: true exactly when the dimensions are
    equal and every cell compares equal under the element type's `==` -/
theorem C20_eq_derived (eqα : α → α → Bool) (a b : TD α) (ha : a.Inv) (hb : b.Inv) :
    TD.eqDerived eqα a b = true ↔
      (a.numCols = b.numCols ∧ a.numRows = b.numRows ∧
        ∀ c r, c < a.numCols → r < a.numRows → ∃ x y, a.data[a.pos c r]? = some x ∧ b.data[b.pos c r]? = some y ∧ eqα x y = true) := by
  unfold TD.eqDerived
  rw [Bool.and_eq_true, Bool.and_eq_true, sliceEq_iff, beq_iff_eq, beq_iff_eq]
  constructor
  · rintro ⟨⟨⟨hl, hi⟩, hR⟩, hC⟩
    refine ⟨hC, hR, fun c r hc hr => ?_⟩
    have hp : a.pos c r < a.data.length := by rw [ha.len]; exact pos_lt_mul hc hr
    have hq : b.pos c r < b.data.length := by
      rw [hb.len, TD.pos, ← hC, ← hR]; exact pos_lt_mul hc hr
    refine ⟨a.data[a.pos c r], b.data[b.pos c r], List.getElem?_eq_getElem hp, List.getElem?_eq_getElem hq, ?_⟩
    have e : b.pos c r = a.pos c r := by simp only [TD.pos, hC]
    exact hi (a.pos c r) _ _ (List.getElem?_eq_getElem hp) (by rw [← e]; exact List.getElem?_eq_getElem hq)
  · rintro ⟨hC, hR, hcell⟩
    have hl : a.data.length = b.data.length := by rw [ha.len, hb.len, hC, hR]
    refine ⟨⟨⟨hl, ?_⟩, hR⟩, hC⟩
    intro i x y hx hy
    have hi : i < a.numCols * a.numRows := by
      rw [← ha.len]
      exact (List.getElem?_eq_some_iff.1 hx).1
    obtain ⟨h1, h2, h3⟩ := index_decomp hi
    obtain ⟨x', y', hx', hy', he⟩ := hcell _ _ h1 h2
    rw [TD.pos, h3, hx] at hx'
    rw [TD.pos, ← hC, h3, hy] at hy'
    cases hx'; cases hy'
    exact he

/-- with a lawful element equality (`eqα x y ↔ x = y`), `==` is equality of dimensions and cells -/
theorem C20_eq_iff (eqα : α → α → Bool) (heq : ∀ x y, eqα x y = true ↔ x = y) (a b : TD α) :
    TD.eqDerived eqα a b = true ↔ (a.numCols = b.numCols ∧ a.numRows = b.numRows ∧ a.data = b.data) := by
  unfold TD.eqDerived
  rw [Bool.and_eq_true, Bool.and_eq_true, sliceEq_lawful eqα heq, beq_iff_eq, beq_iff_eq]
  constructor
  · rintro ⟨⟨hd, hR⟩, hC⟩; exact ⟨hC, hR, hd⟩
  · rintro ⟨hC, hR, hd⟩; exact ⟨⟨hd, hR⟩, hC⟩

/-- `#[derive(Hash)]` (`TD.hashFeed`): arrays that compare equal feed the hasher the same sequence, provided the element type
    keeps the `Hash`/`Eq` contract (`eqα x y → hα x = hα y`) — so equal arrays hash equally under every hasher -/
theorem C20_hash_eq (eqα : α → α → Bool) (hα : α → List Nat) (hc : ∀ x y, eqα x y = true → hα x = hα y) (a b : TD α)
    (hab : TD.eqDerived eqα a b = true) : TD.hashFeed hα a = TD.hashFeed hα b := by
  unfold TD.eqDerived at hab
  rw [Bool.and_eq_true, Bool.and_eq_true, beq_iff_eq, beq_iff_eq] at hab
  obtain ⟨⟨hd, hR⟩, hC⟩ := hab
  obtain ⟨hl, hf⟩ := sliceEq_flatMap eqα hα hc _ _ hd
  unfold TD.hashFeed
  rw [hl, hf, hR, hC]

/-- `clone()` (`#[derive(Clone)]`, `TD.clone`): same dimensions, the shape invariant, every cell the clone of the corresponding
    cell; it compares equal to the original whenever clones compare equal to their originals.  (Independence — writing to one
    does not change the other — is the value semantics of the model: the clone shares nothing with `t`; on the real crate it is
    observed by the harness's `indep` flag.) -/
theorem C20_clone (cl : α → α) (eqα : α → α → Bool) (t : TD α) (h : t.Inv) :
    (t.clone cl).Inv ∧ (t.clone cl).numCols = t.numCols ∧ (t.clone cl).numRows = t.numRows ∧
    (∀ c r, (t.clone cl).data[t.pos c r]? = (t.data[t.pos c r]?).map cl) ∧
    ((∀ x, eqα (cl x) x = true) → TD.eqDerived eqα (t.clone cl) t = true) := by
  refine ⟨⟨?_, h.zero, ?_⟩, rfl, rfl, ?_, ?_⟩
  · show (t.data.map cl).length = _
    rw [List.length_map]; exact h.len
  · show (t.data.map cl).length < _
    rw [List.length_map]; exact h.word
  · intro c r
    show (t.data.map cl)[t.pos c r]? = _
    rw [List.getElem?_map]
  · intro hcl
    unfold TD.eqDerived
    show (TD.sliceEq eqα (t.data.map cl) t.data && (t.numRows == t.numRows) && (t.numCols == t.numCols)) = true
    rw [sliceEq_map_clone eqα cl hcl]
    simp

/-- `clone_from` (the derive keeps the trait default `*self = source.clone()`): on success the array is the clone of the source
    (C20_clone); if an element's `clone` panics the array is untouched — in both outcomes the shape invariant holds (C11) -/
theorem C20_clone_from (cl : α → α) (t src : TD α) (h : t.Inv) (hs : src.Inv) (fault : Option Nat) :
    (t.cloneFrom cl src fault).1.Inv ∧
    ((t.cloneFrom cl src fault).2.2 = .ok () → (t.cloneFrom cl src fault).1 = src.clone cl ∧ (t.cloneFrom cl src fault).2.1 = t.data) ∧
    ((t.cloneFrom cl src fault).2.2 ≠ .ok () → (t.cloneFrom cl src fault).1 = t) := by
  have hc := (C20_clone cl (fun _ _ => true) src hs).1
  cases fault with
  | none => simp [TD.cloneFrom, hc]
  | some k =>
    by_cases hk : k < src.data.length
    · simp [TD.cloneFrom, hk, h]
    · simp [TD.cloneFrom, hk, hc]

/-- converting into a `Vec`, a boxed slice or a by-value iterator yields the cells in row-major order: item number `r*C + c` is
    cell `(c,r)`, there are `C*R` items, and the by-value iterator behaves as the ideal sequence over them -/
theorem C20_into (t : TD α) (h : t.Inv) :
    t.intoVec.length = t.numCols * t.numRows ∧ t.intoBox = t.intoVec ∧ t.intoIter = t.intoVec ∧
    (∀ c r, c < t.numCols → r < t.numRows → t.intoVec[r * t.numCols + c]? = t.data[t.pos c r]?) ∧
    t.intoVec = t.grid.flatten := by
  refine ⟨h.len, rfl, rfl, fun c r _ _ => rfl, h.data_eq_flatten_grid⟩

/-- non-vacuity: a concrete accepted and a concrete rejected request of each kind -/
example : shapeOk 3 2 ∧ ¬ shapeOk 5 0 ∧ ¬ shapeOk 4294967296 4294967296 := by decide
example : TD.fromVec 3 2 [1, 2, 3, 4, 5, 6] = .ok ⟨[1, 2, 3, 4, 5, 6], 2, 3⟩ := by
  simp [TD.fromVec, TD.zeroRuleOk, cmul, WORD]
example : TD.new 100 5 0 (0 : Nat) = .error .panic := by simp [TD.new, TD.zeroRuleOk]

/-- a slice of the buffer, cell by cell -/
theorem take_drop_eq_filterMap (l : List α) (a k : Nat) :
    (l.drop a).take k = (List.range k).filterMap fun c => l[a + c]? := by
  induction k with
  | zero => simp
  | succ k ih =>
    rw [List.take_add_one, ih, List.range_succ, List.filterMap_append, List.getElem?_drop]
    cases hk : l[a + k]? <;> simp [hk]

/-- cell `c` of row `i` of a list of rows of equal length -/
theorem getElem?_flatten_uniform (C : Nat) (l : List (List α)) (hl : ∀ r ∈ l, r.length = C) (i c : Nat)
    (hc : c < C) : l.flatten[i * C + c]? = (l[i]?).bind (·[c]?) := by
  induction l generalizing i with
  | nil => simp
  | cons a l ih =>
    have h1 : a.length = C := hl a (by simp)
    cases i with
    | zero =>
      simp only [List.flatten_cons, Nat.zero_mul, Nat.zero_add, List.getElem?_cons_zero, Option.bind_some]
      exact List.getElem?_append_left (by omega)
    | succ i =>
      have h2 := ih (fun r hr => hl r (by simp [hr])) i
      have e : (i + 1) * C + c = a.length + (i * C + c) := by rw [Nat.add_mul, h1]; omega
      rw [List.flatten_cons, e, List.getElem?_append_right (Nat.le_add_right _ _), Nat.add_sub_cancel_left, h2]
      simp

/-- `From<view>` / `From<view_mut>`: exactly the view's dimensions, the shape invariant, and the viewed cells in row-major order -/
theorem C20_from_view (m : Mode) (cap : Nat) (v : VW) (buf : List α) (h : v.Inv buf.length) (hcap : buf.length ≤ cap) :
    ∃ t, v.toOwned m cap buf = .ok t ∧ t.Inv ∧ t.numCols = v.numCols ∧ t.numRows = v.numRows ∧
      t.data = ((List.range v.numRows).map fun r => (List.range v.numCols).filterMap fun c => buf[v.pos c r]?).flatten ∧
      ∀ c r, c < v.numCols → r < v.numRows → t.data[t.pos c r]? = buf[v.pos c r]? := by
  obtain ⟨it, hrows, hWF, hitv, _, _, habs⟩ := VW.rows_WF m v buf.length h
  have harea := h.area_le
  have hin := h.inside
  have hword := h.word
  have hmul : v.numCols * v.numRows < WORD := by omega
  -- enough fuel: there are at most `len` rows
  have hfuel : v.numRows < it.v.len + 2 := by
    rw [hitv]
    by_cases hR : v.numRows = 0
    · omega
    · have hC : 0 < v.numCols := by have := h.zero; omega
      have : 1 * v.numRows ≤ v.numCols * v.numRows := Nat.mul_le_mul_right _ hC
      omega
  have hcol := Rows.collect_spec hWF (it.v.len + 2) hfuel
  rw [habs] at hcol
  -- the rows copied out
  have hrow : ∀ r, (buf.drop (v.pos 0 r)).take v.numCols =
      (List.range v.numCols).filterMap fun c => buf[v.pos c r]? := by
    intro r
    rw [take_drop_eq_filterMap]
    simp only [VW.pos_zero_add]
  have hdata : (((List.range v.numRows).map fun r => (⟨v.pos 0 r, v.numCols⟩ : Win)).map
        fun w => (buf.drop w.off).take w.len) =
      (List.range v.numRows).map fun r => (List.range v.numCols).filterMap fun c => buf[v.pos c r]? := by
    rw [List.map_map]
    apply List.map_congr_left
    intro r _
    exact hrow r
  have hlenrow : ∀ x ∈ ((List.range v.numRows).map fun r =>
      (List.range v.numCols).filterMap fun c => buf[v.pos c r]?), x.length = v.numCols := by
    intro x hx
    obtain ⟨r, hr, rfl⟩ := List.mem_map.1 hx
    rw [← hrow r, List.length_take, List.length_drop]
    have := h.seg_inside (c := 0) (w := v.numCols) (List.mem_range.1 hr) (by omega)
    omega
  have hlen := flatten_length_uniform v.numCols _ hlenrow
  rw [List.length_map, List.length_range] at hlen
  refine ⟨⟨((List.range v.numRows).map fun r =>
      (List.range v.numCols).filterMap fun c => buf[v.pos c r]?).flatten, v.numRows, v.numCols⟩,
    ?_, ⟨?_, h.zero, ?_⟩, rfl, rfl, rfl, ?_⟩
  · have hal : allocOk cap (v.numCols * v.numRows) = true := by simp [allocOk]; omega
    simp [VW.toOwned, umul_ok m _ _ hmul, hrows, hcol, hdata, hal]
  · show (List.flatten _).length = _
    rw [hlen, Nat.mul_comm]
  · show (List.flatten _).length < _
    rw [hlen, Nat.mul_comm]; exact hmul
  · intro c r hc hr
    show (List.flatten _)[r * v.numCols + c]? = _
    rw [getElem?_flatten_uniform v.numCols _ hlenrow r c hc]
    rw [List.getElem?_map, List.getElem?_range hr, Option.map_some, Option.bind_some, ← hrow r,
      List.getElem?_take_of_lt hc, List.getElem?_drop, VW.pos_zero_add]

/-- non-vacuity: derived equality, hashing, `clone` and the conversions on a concrete 3x2 array (the same cells with the
    dimensions exchanged compare unequal) -/
example : TD.eqDerived (· == ·) (⟨[1, 2, 3, 4, 5, 6], 2, 3⟩ : TD Nat) ⟨[1, 2, 3, 4, 5, 6], 2, 3⟩ = true ∧
    TD.eqDerived (· == ·) (⟨[1, 2, 3, 4, 5, 6], 2, 3⟩ : TD Nat) ⟨[1, 2, 3, 4, 5, 6], 3, 2⟩ = false := by decide
example : TD.hashFeed (fun x => [x]) (⟨[1, 2, 3, 4, 5, 6], 2, 3⟩ : TD Nat) = [6, 1, 2, 3, 4, 5, 6, 2, 3] := by rfl
example : TD.eqDerived (· == ·) (TD.clone id (⟨[1, 2, 3, 4, 5, 6], 2, 3⟩ : TD Nat)) ⟨[1, 2, 3, 4, 5, 6], 2, 3⟩ = true :=
  (C20_clone id (· == ·) (⟨[1, 2, 3, 4, 5, 6], 2, 3⟩ : TD Nat) ⟨rfl, by decide, by decide⟩).2.2.2.2 (by simp)
example : (⟨[1, 2, 3, 4, 5, 6], 2, 3⟩ : TD Nat).intoVec = [[1, 2, 3], [4, 5, 6]].flatten ∧
    (⟨[1, 2, 3, 4, 5, 6], 2, 3⟩ : TD Nat).grid = [[1, 2, 3], [4, 5, 6]] := by decide

end Toodee
