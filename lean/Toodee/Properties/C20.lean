import Toodee.Spec.Inv
/-
  C20 — Constructors and conversions preserve contents and reject bad shapes.

  `new`, `init`, `from_vec`/`from_box`, `TooDeeView::new`, `TooDeeViewMut::new`: accepted **iff** the zero rule holds,
  the product of the dimensions fits a `usize` and the buffer fits (`=` for `from_vec`, `≤` for the slice views);
  otherwise `panic` (never `ub`).  On acceptance: exactly the stated dimensions, the invariant, cells in row-major order.
  Equality / hashing are the derived field-wise ones.
-/
namespace Toodee
variable {α : Type}

/-- the acceptance condition shared by all constructors -/
def shapeOk (c r : Nat) : Prop := (c = 0 ↔ r = 0) ∧ c * r < WORD

instance (c r : Nat) : Decidable (shapeOk c r) := by unfold shapeOk; infer_instance

theorem zeroRuleOk_iff (c r : Nat) : TD.zeroRuleOk c r = true ↔ (c = 0 ↔ r = 0) := by
  unfold TD.zeroRuleOk
  by_cases hc : c = 0 <;> by_cases hr : r = 0 <;> simp [hc, hr] <;> omega

theorem cmul_some {c r : Nat} (h : c * r < WORD) : cmul c r = some (c * r) := by simp [cmul, h]
theorem cmul_none {c r : Nat} (h : ¬ c * r < WORD) : cmul c r = none := by simp [cmul, h]

/-- `TooDee::new(c, r)`: accepted iff `shapeOk`; then dimensions `(c,r)`, invariant, every cell the default value. -/
theorem C20_new (c r : Nat) (d : α) :
    (shapeOk c r → ∃ t, TD.new c r d = .ok t ∧ t.Inv ∧ t.numCols = c ∧ t.numRows = r ∧
        t.data = List.replicate (c * r) d) ∧
    (¬ shapeOk c r → TD.new c r d = .error .panic) := by
  constructor
  · rintro ⟨hz, hw⟩
    refine ⟨⟨List.replicate (c * r) d, r, c⟩, ?_, ⟨by simp, hz, by simpa using hw⟩, rfl, rfl, rfl⟩
    simp [TD.new, (zeroRuleOk_iff c r).2 hz, cmul_some hw]
  · intro h
    unfold TD.new
    by_cases hz : TD.zeroRuleOk c r = true
    · have hw : ¬ c * r < WORD := fun hw => h ⟨(zeroRuleOk_iff c r).1 hz, hw⟩
      simp [hz, cmul_none hw]
    · simp [hz]

/-- `TooDee::init(c, r, v)` -/
theorem C20_init (c r : Nat) (v : α) :
    (shapeOk c r → ∃ t, TD.init c r v = .ok t ∧ t.Inv ∧ t.numCols = c ∧ t.numRows = r ∧
        t.data = List.replicate (c * r) v) ∧
    (¬ shapeOk c r → TD.init c r v = .error .panic) := by
  constructor
  · rintro ⟨hz, hw⟩
    have hw' : r * c < WORD := by rw [Nat.mul_comm]; exact hw
    refine ⟨⟨List.replicate (r * c) v, r, c⟩, ?_, ⟨by simp [Nat.mul_comm], hz, by simpa using hw'⟩, rfl, rfl, by
      simp [Nat.mul_comm]⟩
    simp [TD.init, (zeroRuleOk_iff c r).2 hz, cmul_some hw']
  · intro h
    unfold TD.init
    by_cases hz : TD.zeroRuleOk c r = true
    · have hw : ¬ r * c < WORD := fun hw => h ⟨(zeroRuleOk_iff c r).1 hz, by rw [Nat.mul_comm]; exact hw⟩
      simp [hz, cmul_none hw]
    · simp [hz]

/-- `TooDee::from_vec(c, r, v)` and `from_box`: additionally the buffer length must equal the product. -/
theorem C20_from_vec (c r : Nat) (v : List α) :
    (shapeOk c r ∧ c * r = v.length → ∃ t, TD.fromVec c r v = .ok t ∧ t.Inv ∧ t.numCols = c ∧ t.numRows = r ∧ t.data = v) ∧
    (¬ (shapeOk c r ∧ c * r = v.length) → TD.fromVec c r v = .error .panic) := by
  constructor
  · rintro ⟨⟨hz, hw⟩, hl⟩
    refine ⟨⟨v, r, c⟩, ?_, ⟨hl.symm, hz, by rw [← hl]; exact hw⟩, rfl, rfl, rfl⟩
    simp [TD.fromVec, (zeroRuleOk_iff c r).2 hz, cmul_some hw, hl]
  · intro h
    unfold TD.fromVec
    by_cases hz : TD.zeroRuleOk c r = true
    · by_cases hw : c * r < WORD
      · have hl : ¬ c * r = v.length := fun hl => h ⟨⟨(zeroRuleOk_iff c r).1 hz, hw⟩, hl⟩
        simp [hz, cmul_some hw, hl]
      · simp [hz, cmul_none hw]
    · simp [hz]

/-- `TooDeeView::new(c, r, slice)` / `TooDeeViewMut::new`: accepted iff `shapeOk` and the product fits the slice; the view
    then has stride `c`, starts where the slice starts, satisfies the view invariant, and its cell `(col,row)` is the
    slice's cell `row*c + col` (row-major prefix of the slice). -/
theorem C20_view_new (c r : Nat) (slice : Win) (n : Nat) (hn : slice.off + slice.len ≤ n) (hw : n < WORD) :
    (shapeOk c r ∧ c * r ≤ slice.len →
      ∃ v, VW.newShared c r slice = .ok v ∧ VW.newMut c r slice = .ok v ∧ v.Inv n ∧ v.numCols = c ∧ v.numRows = r ∧
        ∀ col row, v.pos col row = slice.off + (row * c + col)) ∧
    (¬ (shapeOk c r ∧ c * r ≤ slice.len) →
      VW.newShared c r slice = .error .panic ∧ VW.newMut c r slice = .error .panic) := by
  constructor
  · rintro ⟨⟨hz, hp⟩, hl⟩
    refine ⟨⟨⟨slice.off, c * r⟩, c, r, c⟩, ?_, ?_, ?_, rfl, rfl, ?_⟩
    · simp [VW.newShared, (zeroRuleOk_iff c r).2 hz, cmul_some hp, hl, Win.indexTo]
    · simp [VW.newMut, (zeroRuleOk_iff c r).2 hz, cmul_some hp, hl, Win.getTo]
    · refine ⟨Nat.le_refl _, hz, ?_, by simp; omega, hw, ?_⟩
      rotate_left
      · show c < WORD
        by_cases hr : r = 0
        · have : c = 0 := hz.2 hr
          simp [this, WORD]
        · have : c * 1 ≤ c * r := Nat.mul_le_mul_left c (by omega)
          omega
      by_cases hr : r = 0
      · simp [hr]
      · obtain ⟨k, rfl⟩ : ∃ k, r = k + 1 := ⟨r - 1, by omega⟩
        simp [Nat.mul_add, Nat.mul_comm]
    · intro col row; simp [VW.pos]; omega
  · intro h
    unfold VW.newShared VW.newMut
    by_cases hz : TD.zeroRuleOk c r = true
    · by_cases hp : c * r < WORD
      · have hl : ¬ c * r ≤ slice.len := fun hl => h ⟨⟨(zeroRuleOk_iff c r).1 hz, hp⟩, hl⟩
        simp [hz, cmul_some hp, hl]
      · simp [hz, cmul_none hp]
    · simp [hz]

/-- `default()` and `with_capacity(n)` give the empty array `(0,0)`, which satisfies the invariant. -/
theorem C20_default : (TD.default : TD α).Inv ∧ ∀ n, (TD.withCapacity n : TD α) = TD.default :=
  ⟨⟨rfl, Iff.rfl, by simp [TD.default, WORD]⟩, fun _ => rfl⟩

/-- derived `PartialEq`/`Eq`: two arrays are equal exactly when their dimensions and cells are equal -/
theorem C20_eq_iff (a b : TD α) :
    a = b ↔ (a.numCols = b.numCols ∧ a.numRows = b.numRows ∧ a.data = b.data) := by
  constructor
  · rintro rfl; exact ⟨rfl, rfl, rfl⟩
  · rintro ⟨h1, h2, h3⟩; cases a; cases b; simp_all

/-- derived `Hash` (any field-wise hasher `h`): equal arrays hash equally -/
theorem C20_hash_eq {H : Type} (h : List α → Nat → Nat → H) (a b : TD α) (hab : a = b) :
    h a.data a.numRows a.numCols = h b.data b.numRows b.numCols := by rw [hab]

/-- non-vacuity: a concrete accepted and a concrete rejected request of each kind -/
example : shapeOk 3 2 ∧ ¬ shapeOk 5 0 ∧ ¬ shapeOk 4294967296 4294967296 := by decide
example : TD.fromVec 3 2 [1, 2, 3, 4, 5, 6] = .ok ⟨[1, 2, 3, 4, 5, 6], 2, 3⟩ := by
  simp [TD.fromVec, TD.zeroRuleOk, cmul, WORD]
example : TD.new 5 0 (0 : Nat) = .error .panic := by simp [TD.new, TD.zeroRuleOk]

end Toodee
