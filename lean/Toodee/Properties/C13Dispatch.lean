import Toodee.Properties.C04
/-
  C13 (dispatch part) — the `TooDee` overrides agree with the trait defaults.

  A third-party implementor that provides only the required methods (`Recv.ext`: every default body runs) and `TooDee` itself
  (`Recv.root`: the overrides of `fill`, `swap`, `swap_rows`, `copy_from_slice`, `copy_from_toodee` run) behave identically on
  every mutating operation with every argument: same result buffer, same rejections.
-/
namespace Toodee
variable {α : Type}

theorem C13_overrides_agree (m : Mode) (lim : Nat) (t : TD α) (h : t.Inv) (op : MOp α) (hs : op.Sane) (hsrc : op.srcOk) :
    (Recv.ext t).run m lim t.data op = (Recv.root t).run m lim t.data op := by
  sorry

/-- an owned array never ends a mutating call in undefined behaviour, keeps its length, and is the whole-extent view of itself -/
theorem C13_owned_op (m : Mode) (lim : Nat) (t : TD α) (h : t.Inv) (op : MOp α) (hs : op.Sane) (hsrc : op.srcOk) :
    (Recv.root t).run m lim t.data op ≠ .error .ub ∧ (Recv.root t).run m lim t.data op ≠ .error .fuel ∧
    (∀ d, (Recv.root t).run m lim t.data op = .ok d → d.length = t.data.length) ∧
    (Recv.root t).run m lim t.data op = (Recv.vmut t.asView).run m lim t.data op := by
  sorry

end Toodee
