import Toodee.Properties.C04
/-
  C13 (dispatch part) — the `TooDee` overrides agree with the trait defaults.

  A third-party implementor that provides only the required methods (`Recv.ext`: every default body runs) and `TooDee` itself
  (`Recv.root`: the overrides of `fill`, `swap`, `swap_rows`, `copy_from_slice`, `copy_from_toodee` run) behave identically on
  every mutating operation with every argument: same result buffer, same rejections.
-/
namespace Toodee
variable {α : Type}

/-- **the Impl-model refines the specification on owned arrays** (`TooDee`'s overrides and the defaults it inherits) -/
theorem C13_run_owned (m : Mode) (lim : Nat) (t : TD α) (h : t.Inv) (op : MOp α) (hs : op.Sane) (hsrc : op.srcOk) :
    (Recv.root t).run m lim t.data op = op.spec t.asView lim t.data :=
  run_owned_spec m lim t h op hs hsrc

/-- **… and on any third-party implementor** that provides the required methods as `TooDee` does (every trait default runs) -/
theorem C13_run_ext (m : Mode) (lim : Nat) (t : TD α) (h : t.Inv) (op : MOp α) (hs : op.Sane) (hsrc : op.srcOk) :
    (Recv.ext t).run m lim t.data op = op.spec t.asView lim t.data :=
  run_ext_spec m lim t h op hs hsrc

theorem C13_overrides_agree (m : Mode) (lim : Nat) (t : TD α) (h : t.Inv) (op : MOp α) (hs : op.Sane) (hsrc : op.srcOk) :
    (Recv.ext t).run m lim t.data op = (Recv.root t).run m lim t.data op := by
  rw [C13_run_ext m lim t h op hs hsrc, C13_run_owned m lim t h op hs hsrc]

/-- an owned array never ends a mutating call in undefined behaviour, keeps its length, and is the whole-extent view of itself -/
theorem C13_owned_op (m : Mode) (lim : Nat) (t : TD α) (h : t.Inv) (op : MOp α) (hs : op.Sane) (hsrc : op.srcOk) :
    (Recv.root t).run m lim t.data op ≠ .error .ub ∧ (Recv.root t).run m lim t.data op ≠ .error .fuel ∧
    (∀ d, (Recv.root t).run m lim t.data op = .ok d → d.length = t.data.length) ∧
    (Recv.root t).run m lim t.data op = (Recv.vmut t.asView).run m lim t.data op := by
  obtain ⟨hvi, _⟩ := TD.asView_inv t h
  obtain ⟨f1, f2, f3⟩ := C04_spec_frame lim t.asView t.data hvi op hs
  rw [C13_run_owned m lim t h op hs hsrc, C04_run_view m lim t.asView t.data hvi op hs hsrc]
  exact ⟨f1, f2, fun d hd => (f3 d hd).1, rfl⟩

end Toodee
