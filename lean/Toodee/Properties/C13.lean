import Toodee.Spec.OpsSpec
import Toodee.Spec.Cells
import Toodee.Proofs.CellsLemmas
/-
  C13 — Swap and fill primitives change exactly the named cells.

  Three implementors: the `TooDee` overrides (`TD.swap`, `TD.swapRows`, `TD.fill`), the `TooDeeViewMut::swap_rows`
  override (`VW.swapRows`), and the trait defaults (`Acc.*`, used by views for everything else and by third-party types
  for everything).  For each: in-range arguments give exactly the stated exchange (as a cell permutation of the receiver,
  hence every other cell of the root buffer unchanged; equal names give the identity); any out-of-range index — and
  `r1 = r2` for `row_pair_mut` — panics; never `ub`; both build modes; all indices `< 2^64`.
-/
namespace Toodee
variable {α : Type}

/-! ### helpers -/

theorem swapCellG_comm (a b : Nat × Nat) : swapCellG a b = swapCellG b a := by
  funext cr
  unfold swapCellG
  by_cases h1 : cr = a
  · by_cases h2 : cr = b
    · rw [if_pos h1, if_pos h2, ← h1, ← h2]
    · rw [if_pos h1, if_neg h2, if_pos h1]
  · by_cases h2 : cr = b
    · rw [if_neg h1, if_pos h2, if_pos h2]
    · rw [if_neg h1, if_neg h2, if_neg h2, if_neg h1]

theorem swapRowsG_comm (r1 r2 : Nat) : swapRowsG r1 r2 = swapRowsG r2 r1 := by
  funext cr; simp [swapRowsG, swapIdx_comm r1 r2]

/-- `ptr::swap` of two cell positions of a view, as a cell permutation -/
theorem gather_swapCells {v : VW} (buf : List α) (h : v.Inv buf.length) {c1 r1 c2 r2 : Nat}
    (hc1 : c1 < v.numCols) (hr1 : r1 < v.numRows) (hc2 : c2 < v.numCols) (hr2 : r2 < v.numRows) :
    gather buf (swapPosMap (v.pos c1 r1) (v.pos c2 r2)) = gather buf (v.mapCells (swapCellG (c1, r1) (c2, r2))) :=
  gather_congr buf _ _ (fun p _ => VW.swapPosMap_cells h (a := (c1, r1)) (b := (c2, r2)) hc1 hr1 hc2 hr2 p)

/-- `swap_with_slice` of two distinct row windows of a view, as a cell permutation -/
theorem gather_swapRows {v : VW} (buf : List α) (h : v.Inv buf.length) {r1 r2 : Nat}
    (hr1 : r1 < v.numRows) (hr2 : r2 < v.numRows) (hne : r1 ≠ r2) :
    gather buf (swapWinMap (v.rowWin r1) (v.rowWin r2)) = gather buf (v.mapCells (swapRowsG r1 r2)) :=
  gather_congr buf _ _ (fun p _ => VW.swapWinMap_rows h hr1 hr2 hne p)

/-- exchanging a row with itself is the identity -/
theorem gather_swapRows_self (v : VW) (buf : List α) (r : Nat) :
    gather buf (v.mapCells (swapRowsG r r)) = buf :=
  gather_eq_self buf _ (fun p _ => VW.mapCells_eq_self _ (fun c r' _ _ => by simp [swapRowsG, swapIdx_self]) p)

/-! ### swap (two cells) -/

theorem C13_swap_owned (m : Mode) (t : TD α) (h : t.Inv) (c1 r1 c2 r2 : Nat)
    (hw : c1 < WORD ∧ r1 < WORD ∧ c2 < WORD ∧ r2 < WORD) :
    ((c1 < t.numCols ∧ c2 < t.numCols ∧ r1 < t.numRows ∧ r2 < t.numRows) →
      t.swap m c1 r1 c2 r2 = .ok (gather t.data (t.asView.mapCells (swapCellG (c1, r1) (c2, r2))))) ∧
    (¬ (c1 < t.numCols ∧ c2 < t.numCols ∧ r1 < t.numRows ∧ r2 < t.numRows) →
      t.swap m c1 r1 c2 r2 = .error .panic) := by
  obtain ⟨hvi, _⟩ := TD.asView_inv t h
  constructor
  · rintro ⟨hc1, hc2, hr1, hr2⟩
    have hlen := h.len
    have hword := h.word
    have hcell1 : r1 * t.numCols + c1 < t.data.length := hlen ▸ cell_lt hc1 hr1
    have hcell2 : r2 * t.numCols + c2 < t.data.length := hlen ▸ cell_lt hc2 hr2
    have e1 : umul m r1 t.numCols = .ok (r1 * t.numCols) := umul_ok m _ _ (by omega)
    have e2 : umul m r2 t.numCols = .ok (r2 * t.numCols) := umul_ok m _ _ (by omega)
    have a1 : uadd m (r1 * t.numCols) c1 = .ok (r1 * t.numCols + c1) := uadd_ok m _ _ (by omega)
    have a2 : uadd m (r2 * t.numCols) c2 = .ok (r2 * t.numCols + c2) := uadd_ok m _ _ (by omega)
    have i1 : t.win.getIdx (r1 * t.numCols + c1) = .ok (t.asView.pos c1 r1) := by
      rw [Win.getIdx_ok _ (by simpa [TD.win] using hcell1)]; simp [TD.win, TD.asView, VW.pos]
    have i2 : t.win.getIdx (r2 * t.numCols + c2) = .ok (t.asView.pos c2 r2) := by
      rw [Win.getIdx_ok _ (by simpa [TD.win] using hcell2)]; simp [TD.win, TD.asView, VW.pos]
    have key : t.swap m c1 r1 c2 r2
        = .ok (gather t.data (swapPosMap (t.asView.pos c1 r1) (t.asView.pos c2 r2))) := by
      simp only [TD.swap, hc1, hc2, hr1, hr2, e1, e2, a1, a2, i1, i2, and_self, not_true_eq_false, if_false,
        ok_bind, pure_eq]
    rw [key, gather_swapCells t.data hvi hc1 hr1 hc2 hr2]
  · intro hn
    unfold TD.swap
    by_cases hc : c1 < t.numCols ∧ c2 < t.numCols
    · have hr : ¬ (r1 < t.numRows ∧ r2 < t.numRows) := fun hr => hn ⟨hc.1, hc.2, hr.1, hr.2⟩
      simp [hc, hr]
    · simp [hc]

/-! ### swap_rows -/

/-- the steps of `TooDee::swap_rows` on ordered in-range rows -/
theorem TD.swapRows_steps (m : Mode) (t : TD α) (h : t.Inv) {a b : Nat} (hab : a < b) (hb : b < t.numRows) :
    umul m a t.numCols = .ok (a * t.numCols) ∧
    t.win.getFrom (a * t.numCols) = .ok ⟨a * t.numCols, t.data.length - a * t.numCols⟩ ∧
    Win.splitAt ⟨a * t.numCols, t.data.length - a * t.numCols⟩ t.numCols
      = .ok (t.asView.rowWin a, ⟨a * t.numCols + t.numCols, t.data.length - a * t.numCols - t.numCols⟩) ∧
    usub m b a = .ok (b - a) ∧
    usub m (b - a) 1 = .ok (b - a - 1) ∧
    umul m (b - a - 1) t.numCols = .ok ((b - a - 1) * t.numCols) ∧
    uadd m ((b - a - 1) * t.numCols) t.numCols = .ok ((b - a - 1) * t.numCols + t.numCols) ∧
    Win.getRange ⟨a * t.numCols + t.numCols, t.data.length - a * t.numCols - t.numCols⟩
      ((b - a - 1) * t.numCols) ((b - a - 1) * t.numCols + t.numCols) = .ok (t.asView.rowWin b) ∧
    (t.asView.rowWin a).len = t.numCols ∧ (t.asView.rowWin b).len = t.numCols := by
  have hlen := h.len
  have hword := h.word
  have ha : a < t.numRows := by omega
  have hea : a * t.numCols + t.numCols ≤ t.data.length := hlen ▸ row_end_le ha
  have heb : b * t.numCols + t.numCols ≤ t.data.length := hlen ▸ row_end_le hb
  have hd : (b - a - 1) * t.numCols + t.numCols + a * t.numCols = b * t.numCols := by
    have e : (b - a - 1 + 1 + a) * t.numCols = b * t.numCols := by congr 1; omega
    rw [Nat.add_mul, Nat.add_mul, Nat.one_mul] at e
    exact e
  have w1 : t.asView.rowWin a = ⟨a * t.numCols, t.numCols⟩ := by simp [VW.rowWin, VW.pos, TD.asView, TD.win]
  have w2 : t.asView.rowWin b = ⟨b * t.numCols, t.numCols⟩ := by simp [VW.rowWin, VW.pos, TD.asView, TD.win]
  refine ⟨umul_ok m _ _ (by omega), ?_, ?_, usub_ok m _ _ (by omega), usub_ok m _ _ (by omega),
    umul_ok m _ _ (by omega), uadd_ok m _ _ (by omega), ?_, by rw [w1], by rw [w2]⟩
  · simp [Win.getFrom, TD.win]; omega
  · rw [w1]; simp [Win.splitAt]; omega
  · have x1 : a * t.numCols + t.numCols + (b - a - 1) * t.numCols = b * t.numCols := by omega
    have x2 : (b - a - 1) * t.numCols + t.numCols - (b - a - 1) * t.numCols = t.numCols := by omega
    rw [Win.getRange_ok _ (by omega) (by simp only; omega), w2]
    simp only [x1, x2]

theorem C13_swap_rows_owned (m : Mode) (t : TD α) (h : t.Inv) (r1 r2 : Nat) (hw : r1 < WORD ∧ r2 < WORD) :
    ((r1 < t.numRows ∧ r2 < t.numRows) →
      t.swapRows m r1 r2 = .ok (gather t.data (t.asView.mapCells (swapRowsG r1 r2)))) ∧
    (¬ (r1 < t.numRows ∧ r2 < t.numRows) → t.swapRows m r1 r2 = .error .panic) := by
  obtain ⟨hvi, _⟩ := TD.asView_inv t h
  constructor
  · rintro ⟨hr1, hr2⟩
    have hr1' : r1 < t.asView.numRows := hr1
    have hr2' : r2 < t.asView.numRows := hr2
    rcases Nat.lt_trichotomy r1 r2 with hlt | heq | hgt
    · obtain ⟨e1, g1, s1, e2, e3, e4, e5, g2, l1, l2⟩ := TD.swapRows_steps m t h hlt hr2
      rw [← gather_swapRows t.data hvi hr1' hr2' (by omega)]
      simp only [TD.swapRows, hr1, hr2, show ¬ r1 = r2 by omega, show ¬ r2 < r1 by omega, e1, g1, s1, e2, e3, e4,
        e5, g2, l1, l2, and_self, not_true_eq_false, if_false, ok_bind, pure_eq, and_false]
    · subst heq
      simp [TD.swapRows, hr1, gather_swapRows_self]
    · obtain ⟨e1, g1, s1, e2, e3, e4, e5, g2, l1, l2⟩ := TD.swapRows_steps m t h hgt hr1
      rw [swapRowsG_comm, ← gather_swapRows t.data hvi hr2' hr1' (by omega)]
      simp only [TD.swapRows, hr1, hr2, show ¬ r1 = r2 by omega, hgt, e1, g1, s1, e2, e3, e4,
        e5, g2, l1, l2, and_self, not_true_eq_false, if_false, if_true, ok_bind, pure_eq, and_false]
  · intro hn
    simp [TD.swapRows, hn]

/-- the steps of `TooDeeViewMut::swap_rows` on ordered in-range rows -/
theorem VW.swapRows_steps (m : Mode) (v : VW) (n : Nat) (h : v.Inv n) {a b : Nat} (hab : a < b)
    (hb : b < v.numRows) :
    umul m a v.stride = .ok (a * v.stride) ∧
    v.data.getFrom (a * v.stride) = .ok ⟨v.data.off + a * v.stride, v.data.len - a * v.stride⟩ ∧
    Win.splitAt ⟨v.data.off + a * v.stride, v.data.len - a * v.stride⟩ v.numCols
      = .ok (v.rowWin a, ⟨v.data.off + a * v.stride + v.numCols, v.data.len - a * v.stride - v.numCols⟩) ∧
    usub m b a = .ok (b - a) ∧
    umul m (b - a) v.stride = .ok ((b - a) * v.stride) ∧
    usub m ((b - a) * v.stride) v.numCols = .ok ((b - a) * v.stride - v.numCols) ∧
    uadd m ((b - a) * v.stride - v.numCols) v.numCols = .ok ((b - a) * v.stride - v.numCols + v.numCols) ∧
    Win.getRange ⟨v.data.off + a * v.stride + v.numCols, v.data.len - a * v.stride - v.numCols⟩
      ((b - a) * v.stride - v.numCols) ((b - a) * v.stride - v.numCols + v.numCols) = .ok (v.rowWin b) ∧
    (v.rowWin a).len = v.numCols ∧ (v.rowWin b).len = v.numCols := by
  have hin := h.inside
  have hword := h.word
  have hst := h.stride
  have heb := h.row_end_le hb
  have hs1 : a * v.stride + v.stride ≤ b * v.stride := by
    have := Nat.mul_le_mul_right v.stride (Nat.succ_le_of_lt hab)
    rw [Nat.succ_mul] at this; exact this
  have hd : (b - a) * v.stride = b * v.stride - a * v.stride := Nat.sub_mul b a v.stride
  have w1 : v.rowWin a = ⟨v.data.off + a * v.stride, v.numCols⟩ := by simp [VW.rowWin, VW.pos]
  have w2 : v.rowWin b = ⟨v.data.off + b * v.stride, v.numCols⟩ := by simp [VW.rowWin, VW.pos]
  refine ⟨umul_ok m _ _ (by omega), ?_, ?_, usub_ok m _ _ (by omega), umul_ok m _ _ (by omega),
    usub_ok m _ _ (by omega), uadd_ok m _ _ (by omega), ?_, by rw [w1], by rw [w2]⟩
  · simp [Win.getFrom]; omega
  · rw [w1]; simp [Win.splitAt]; omega
  · have x1 : v.data.off + a * v.stride + v.numCols + ((b - a) * v.stride - v.numCols)
        = v.data.off + b * v.stride := by omega
    have x2 : (b - a) * v.stride - v.numCols + v.numCols - ((b - a) * v.stride - v.numCols) = v.numCols := by
      omega
    rw [Win.getRange_ok _ (by omega) (by simp only; omega), w2]
    simp only [x1, x2]

theorem C13_swap_rows_view (m : Mode) (v : VW) (buf : List α) (h : v.Inv buf.length) (r1 r2 : Nat)
    (hw : r1 < WORD ∧ r2 < WORD) :
    ((r1 < v.numRows ∧ r2 < v.numRows) →
      v.swapRows m buf r1 r2 = .ok (gather buf (v.mapCells (swapRowsG r1 r2)))) ∧
    (¬ (r1 < v.numRows ∧ r2 < v.numRows) → v.swapRows m buf r1 r2 = .error .panic) := by
  constructor
  · rintro ⟨hr1, hr2⟩
    rcases Nat.lt_trichotomy r1 r2 with hlt | heq | hgt
    · obtain ⟨e1, g1, s1, e2, e3, e4, e5, g2, l1, l2⟩ := VW.swapRows_steps m v _ h hlt hr2
      rw [← gather_swapRows buf h hr1 hr2 (by omega)]
      simp only [VW.swapRows, hr1, hr2, show ¬ r1 = r2 by omega, show ¬ r2 < r1 by omega, e1, g1, s1, e2, e3, e4,
        e5, g2, l1, l2, and_self, not_true_eq_false, if_false, ok_bind, pure_eq, and_false]
    · subst heq
      simp [VW.swapRows, hr1, gather_swapRows_self]
    · obtain ⟨e1, g1, s1, e2, e3, e4, e5, g2, l1, l2⟩ := VW.swapRows_steps m v _ h hgt hr1
      rw [swapRowsG_comm, ← gather_swapRows buf h hr2 hr1 (by omega)]
      simp only [VW.swapRows, hr1, hr2, show ¬ r1 = r2 by omega, hgt, e1, g1, s1, e2, e3, e4,
        e5, g2, l1, l2, and_self, not_true_eq_false, if_false, if_true, ok_bind, pure_eq, and_false]
  · intro hn
    simp [VW.swapRows, hn]

theorem C13_swap_rows_default (m : Mode) (v : VW) (buf : List α) (h : v.Inv buf.length) (a : Acc)
    (ha : a.Of v buf.length) (r1 r2 : Nat) (hw : r1 < WORD ∧ r2 < WORD) :
    ((r1 < v.numRows ∧ r2 < v.numRows) →
      a.swapRows m buf r1 r2 = .ok (gather buf (v.mapCells (swapRowsG r1 r2)))) ∧
    (¬ (r1 < v.numRows ∧ r2 < v.numRows) → a.swapRows m buf r1 r2 = .error .panic) := by
  have hR := ha.rows
  constructor
  · rintro ⟨hr1, hr2⟩
    rcases Nat.lt_trichotomy r1 r2 with hlt | heq | hgt
    · obtain ⟨it', it'', n1, n2⟩ := ha.nth_row_pair m hlt hw.2
      rw [if_pos hr1] at n1
      rw [if_pos hr2] at n2
      have e2 : usub m r2 r1 = .ok (r2 - r1) := usub_ok m _ _ (by omega)
      have e3 : usub m (r2 - r1) 1 = .ok (r2 - r1 - 1) := usub_ok m _ _ (by omega)
      rw [← gather_swapRows buf h hr1 hr2 (by omega)]
      simp only [Acc.swapRows, hR, hr1, hr2, show ¬ r1 = r2 by omega, show ¬ r2 < r1 by omega, n1, n2, e2, e3,
        unwrapWin, VW.rowWin, and_self, not_true_eq_false, if_false, ok_bind, pure_eq, ne_eq]
    · subst heq
      simp [Acc.swapRows, hR, hr1, gather_swapRows_self]
    · obtain ⟨it', it'', n1, n2⟩ := ha.nth_row_pair m hgt hw.1
      rw [if_pos hr2] at n1
      rw [if_pos hr1] at n2
      have e2 : usub m r1 r2 = .ok (r1 - r2) := usub_ok m _ _ (by omega)
      have e3 : usub m (r1 - r2) 1 = .ok (r1 - r2 - 1) := usub_ok m _ _ (by omega)
      rw [swapRowsG_comm, ← gather_swapRows buf h hr2 hr1 (by omega)]
      simp only [Acc.swapRows, hR, hr1, hr2, show ¬ r1 = r2 by omega, hgt, n1, n2, e2, e3,
        unwrapWin, VW.rowWin, and_self, not_true_eq_false, if_false, if_true, ok_bind, pure_eq, ne_eq]
  · intro hn
    simp [Acc.swapRows, hR, hn]

/-- the default `swap` normalises the order of the two cells by row -/
theorem Acc.swap_comm_of_gt (m : Mode) (a : Acc) (buf : List α) (c1 r1 c2 r2 : Nat) (hgt : r2 < r1) :
    a.swap m buf (c1, r1) (c2, r2) = a.swap m buf (c2, r2) (c1, r1) := by
  unfold Acc.swap
  simp only [gt_iff_lt, hgt, show ¬ r1 < r2 by omega, if_true, if_false]

theorem Acc.swap_le (m : Mode) (v : VW) (buf : List α) (h : v.Inv buf.length) (a : Acc) (ha : a.Of v buf.length)
    (c1 r1 c2 r2 : Nat) (hw : r2 < WORD) (hle : r1 ≤ r2) :
    ((c1 < v.numCols ∧ c2 < v.numCols ∧ r1 < v.numRows ∧ r2 < v.numRows) →
      a.swap m buf (c1, r1) (c2, r2) = .ok (gather buf (v.mapCells (swapCellG (c1, r1) (c2, r2))))) ∧
    (¬ (c1 < v.numCols ∧ c2 < v.numCols ∧ r1 < v.numRows ∧ r2 < v.numRows) →
      a.swap m buf (c1, r1) (c2, r2) = .error .panic) := by
  have hC := ha.cols
  have hng : ¬ r2 < r1 := by omega
  rcases Nat.lt_or_eq_of_le hle with hlt | heq
  · obtain ⟨it', it'', n1, n2⟩ := ha.nth_row_pair m hlt hw
    have hne : ¬ r1 = r2 := by omega
    have e2 : usub m r2 r1 = .ok (r2 - r1) := usub_ok m _ _ (by omega)
    have e3 : usub m (r2 - r1) 1 = .ok (r2 - r1 - 1) := usub_ok m _ _ (by omega)
    constructor
    · rintro ⟨hc1, hc2, hr1, hr2⟩
      rw [if_pos hr1] at n1
      rw [if_pos hr2] at n2
      rw [← gather_swapCells buf h hc1 hr1 hc2 hr2]
      simp only [Acc.swap, gt_iff_lt, hng, hC, hc1, hc2, hne, n1, n2, e2, e3, unwrapWin,
        VW.rowWin_getIdx v _ hc1, VW.rowWin_getIdx v _ hc2,
        and_self, not_true_eq_false, if_false, ok_bind, pure_eq]
    · intro hn
      by_cases hc : c1 < v.numCols ∧ c2 < v.numCols
      · by_cases hr1 : r1 < v.numRows
        · have hr2 : ¬ r2 < v.numRows := fun hr2 => hn ⟨hc.1, hc.2, hr1, hr2⟩
          rw [if_pos hr1] at n1
          rw [if_neg hr2] at n2
          simp only [Acc.swap, gt_iff_lt, hng, hC, hc, hne, n1, n2, e2, e3, unwrapWin,
            and_self, not_true_eq_false, if_false, ok_bind, err_bind, pure_eq, throw_eq]
        · rw [if_neg hr1] at n1
          simp only [Acc.swap, gt_iff_lt, hng, hC, hc, n1, unwrapWin,
            and_self, not_true_eq_false, if_false, ok_bind, err_bind, pure_eq, throw_eq]
      · simp only [Acc.swap, gt_iff_lt, hng, hC, hc, not_false_eq_true, if_false, if_true, err_bind, throw_eq]
  · subst heq
    obtain ⟨it', n1, _⟩ := ha.nth_row m r1 hw
    constructor
    · rintro ⟨hc1, hc2, hr1, -⟩
      rw [if_pos hr1] at n1
      rw [← gather_swapCells buf h hc1 hr1 hc2 hr1]
      simp only [Acc.swap, gt_iff_lt, hng, hC, hc1, hc2, n1, unwrapWin,
        VW.rowWin_getIdx v _ hc1, VW.rowWin_getIdx v _ hc2,
        and_self, not_true_eq_false, if_false, if_true, ok_bind, pure_eq]
    · intro hn
      by_cases hc : c1 < v.numCols ∧ c2 < v.numCols
      · have hr1 : ¬ r1 < v.numRows := fun hr1 => hn ⟨hc.1, hc.2, hr1, hr1⟩
        rw [if_neg hr1] at n1
        simp only [Acc.swap, gt_iff_lt, hng, hC, hc, n1, unwrapWin,
          and_self, not_true_eq_false, if_false, ok_bind, err_bind, pure_eq, throw_eq]
      · simp only [Acc.swap, gt_iff_lt, hng, hC, hc, not_false_eq_true, if_false, if_true, err_bind, throw_eq]

theorem C13_swap_default (m : Mode) (v : VW) (buf : List α) (h : v.Inv buf.length) (a : Acc) (ha : a.Of v buf.length)
    (c1 r1 c2 r2 : Nat) (hw : c1 < WORD ∧ r1 < WORD ∧ c2 < WORD ∧ r2 < WORD) :
    ((c1 < v.numCols ∧ c2 < v.numCols ∧ r1 < v.numRows ∧ r2 < v.numRows) →
      a.swap m buf (c1, r1) (c2, r2) = .ok (gather buf (v.mapCells (swapCellG (c1, r1) (c2, r2))))) ∧
    (¬ (c1 < v.numCols ∧ c2 < v.numCols ∧ r1 < v.numRows ∧ r2 < v.numRows) →
      a.swap m buf (c1, r1) (c2, r2) = .error .panic) := by
  by_cases hle : r1 ≤ r2
  · exact Acc.swap_le m v buf h a ha c1 r1 c2 r2 hw.2.2.2 hle
  · have key := Acc.swap_le m v buf h a ha c2 r2 c1 r1 hw.2.1 (by omega)
    rw [Acc.swap_comm_of_gt m a buf c1 r1 c2 r2 (by omega), swapCellG_comm]
    exact ⟨fun ⟨h1, h2, h3, h4⟩ => key.1 ⟨h2, h1, h4, h3⟩,
      fun hn => key.2 (fun ⟨h1, h2, h3, h4⟩ => hn ⟨h2, h1, h4, h3⟩)⟩

/-! ### swap_cols (never overridden) -/

theorem C13_swap_cols (v : VW) (buf : List α) (h : v.Inv buf.length) (a : Acc) (ha : a.Of v buf.length)
    (c1 c2 : Nat) :
    ((c1 < v.numCols ∧ c2 < v.numCols) →
      a.swapCols buf c1 c2 = .ok (gather buf (v.mapCells (swapColsG c1 c2)))) ∧
    (¬ (c1 < v.numCols ∧ c2 < v.numCols) → a.swapCols buf c1 c2 = .error .panic) := by
  have hC := ha.cols
  constructor
  · rintro ⟨hc1, hc2⟩
    simp only [Acc.swapCols, hC, hc1, hc2, not_true_eq_false, if_false, ha.collect_rows, ok_bind]
    rw [List.foldlM_map]
    refine (VW.foldlM_rows_perm h _ (fun cr => swapIdx c1 c2 cr.1) ?_ ?_ buf rfl v.numRows
      (Nat.le_refl _)).trans ?_
    · intro c r hc _; exact swapIdx_lt hc1 hc2 hc
    · intro b r hb hr
      have hb' : v.Inv b.length := hb ▸ h
      simp only [VW.rowWin_getIdx v r hc1, VW.rowWin_getIdx v r hc2, ok_bind, pure_eq]
      rw [gather_swapCells b hb' hc1 hr hc2 hr]
      congr 1
      apply gather_congr
      intro p _
      apply VW.mapCells_congr
      intro c r' _ _
      unfold swapCellG swapIdx
      by_cases h1 : r' = r
      · subst h1
        by_cases h2 : c = c1
        · simp [h2]
        · by_cases h3 : c = c2
          · subst h3; simp [h2]
          · simp [h2, h3]
      · simp [h1]
    · congr 1
      apply gather_congr
      intro p _
      apply VW.mapCells_congr
      intro c r _ hr
      simp [swapColsG, hr]
  · intro hn
    unfold Acc.swapCols
    by_cases hc1 : c1 < v.numCols
    · have hc2 : ¬ c2 < v.numCols := fun hc2 => hn ⟨hc1, hc2⟩
      simp [hC, hc1, hc2]
    · simp [hC, hc1]

/-! ### row_pair_mut (never overridden) -/

theorem C13_row_pair (m : Mode) (v : VW) (n : Nat) (h : v.Inv n) (a : Acc) (ha : a.Of v n)
    (r1 r2 : Nat) (hw : r1 < WORD ∧ r2 < WORD) :
    ((r1 < v.numRows ∧ r2 < v.numRows ∧ r1 ≠ r2) →
      a.rowPairMut m r1 r2 = .ok (v.rowWin r1, v.rowWin r2) ∧ Win.Disjoint (v.rowWin r1) (v.rowWin r2)) ∧
    (¬ (r1 < v.numRows ∧ r2 < v.numRows ∧ r1 ≠ r2) → a.rowPairMut m r1 r2 = .error .panic) := by
  have hR := ha.rows
  constructor
  · rintro ⟨hr1, hr2, hne⟩
    refine ⟨?_, VW.rowWin_disjoint h hne⟩
    rcases Nat.lt_or_gt_of_ne hne with hlt | hgt
    · obtain ⟨it', it'', n1, n2⟩ := ha.nth_row_pair m hlt hw.2
      rw [if_pos hr1] at n1
      rw [if_pos hr2] at n2
      have e2 : usub m r2 r1 = .ok (r2 - r1) := usub_ok m _ _ (by omega)
      have e3 : usub m (r2 - r1) 1 = .ok (r2 - r1 - 1) := usub_ok m _ _ (by omega)
      simp only [Acc.rowPairMut, hR, hr1, hr2, hne, hlt, n1, n2, e2, e3, unwrapWin,
        not_true_eq_false, if_false, if_true, ok_bind, pure_eq]
    · obtain ⟨it', it'', n1, n2⟩ := ha.nth_row_pair m hgt hw.1
      rw [if_pos hr2] at n1
      rw [if_pos hr1] at n2
      have e2 : usub m r1 r2 = .ok (r1 - r2) := usub_ok m _ _ (by omega)
      have e3 : usub m (r1 - r2) 1 = .ok (r1 - r2 - 1) := usub_ok m _ _ (by omega)
      simp only [Acc.rowPairMut, hR, hr1, hr2, hne, show ¬ r1 < r2 by omega, n1, n2, e2, e3, unwrapWin,
        not_true_eq_false, if_false, ok_bind, pure_eq]
  · intro hn
    unfold Acc.rowPairMut
    by_cases hr1 : r1 < v.numRows
    · by_cases hr2 : r2 < v.numRows
      · have he : r1 = r2 := Classical.not_not.1 (fun hne => hn ⟨hr1, hr2, hne⟩)
        simp [hR, hr2, he]
      · simp [hR, hr1, hr2]
    · simp [hR, hr1]

/-! ### fill -/

theorem C13_fill_owned (t : TD α) (h : t.Inv) (x : α) :
    t.fill x = t.asView.updCells t.data (fun _ => some x) ∧ t.fill x = List.replicate t.data.length x := by
  refine ⟨?_, rfl⟩
  obtain ⟨hvi, _⟩ := TD.asView_inv t h
  unfold TD.fill
  apply List.ext_getElem?
  intro p
  rw [VW.updCells_getElem?, List.getElem?_replicate]
  by_cases hp : p < t.data.length
  · have hlen := h.len
    have hC : 0 < t.numCols := by
      rcases Nat.eq_zero_or_pos t.numCols with h0 | h0
      · rw [h0, Nat.zero_mul] at hlen; omega
      · exact h0
    have hc : p % t.numCols < t.asView.numCols := Nat.mod_lt _ hC
    have hr : p / t.numCols < t.asView.numRows := Nat.div_lt_of_lt_mul (hlen ▸ hp)
    have hpos : t.asView.pos (p % t.numCols) (p / t.numCols) = p := by
      have := Nat.div_add_mod p t.numCols
      simp only [VW.pos, TD.asView, TD.win]
      rw [Nat.mul_comm]; omega
    have hq := VW.coord?_pos hvi hc hr
    rw [hpos] at hq
    rw [if_pos hp, hq, List.getElem?_eq_getElem hp]
    simp
  · rw [if_neg hp, List.getElem?_eq_none (Nat.not_lt.1 hp)]
    rfl

theorem C13_fill_default (v : VW) (buf : List α) (h : v.Inv buf.length) (a : Acc) (ha : a.Of v buf.length) (x : α) :
    a.fill buf x = .ok (v.updCells buf (fun _ => some x)) := by
  simp only [Acc.fill, ha.collect_rows, ok_bind, pure_eq]
  rw [List.foldl_map]
  congr 1
  refine (VW.foldl_rows_upd (v := v) _ (fun _ => some x) ?_ buf rfl v.numRows (Nat.le_refl _)).trans ?_
  · intro b r hb hr
    exact VW.fillWin_row b (hb ▸ h) hr x
  · apply VW.updCells_congr
    intro c r _ hr
    simp [hr]

/-! ### the accessor of each implementor satisfies `Acc.Of` -/

theorem C13_acc_owned (t : TD α) (h : t.Inv) : t.acc.Of t.asView t.data.length := by
  obtain ⟨hwf, habs⟩ := C08_rows_owned t h
  refine ⟨rfl, rfl, hwf, ?_⟩
  show t.rows.abs t.numRows = _
  rw [habs]
  apply List.map_congr_left
  intro r _
  simp [TD.asView, VW.pos, TD.pos, TD.win]

theorem C13_acc_view (m : Mode) (v : VW) (n : Nat) (h : v.Inv n) : ∃ a, v.acc m = .ok a ∧ a.Of v n := by
  obtain ⟨it, he, hwf, habs⟩ := C08_rows_view m v n h
  exact ⟨⟨v.numCols, v.numRows, it⟩, by simp [VW.acc, he], rfl, rfl, hwf, habs⟩

/-- non-vacuity: what the trait defaults see of a 2x2 window (stride 3, offset 1) of an 8-cell buffer -/
example : VW.acc .debug ⟨⟨1, 5⟩, 2, 2, 3⟩ = .ok ⟨2, 2, ⟨⟨1, 5⟩, 2, 1⟩⟩ ∧
    (⟨2, 2, ⟨⟨1, 5⟩, 2, 1⟩⟩ : Acc).Of ⟨⟨1, 5⟩, 2, 2, 3⟩ 8 :=
  ⟨rfl, rfl, rfl, ⟨by decide, by decide, by decide, by decide, by decide⟩, rfl⟩
/-- non-vacuity: exchanging its two rows moves exactly cells 1,2 and 4,5 of the buffer — the call and the stated cell
    permutation evaluate to the same list — and the hypotheses of `C13_swap_rows_default` hold for it -/
example : (⟨2, 2, ⟨⟨1, 5⟩, 2, 1⟩⟩ : Acc).swapRows .debug [0, 1, 2, 3, 4, 5, 6, 7] 0 1 = .ok [0, 4, 5, 3, 1, 2, 6, 7] ∧
    gather [0, 1, 2, 3, 4, 5, 6, 7] ((⟨⟨1, 5⟩, 2, 2, 3⟩ : VW).mapCells (swapRowsG 0 1)) = [0, 4, 5, 3, 1, 2, 6, 7] :=
  ⟨by rfl, by rfl⟩
example : (⟨2, 2, ⟨⟨1, 5⟩, 2, 1⟩⟩ : Acc).swapRows .release [0, 1, 2, 3, 4, 5, 6, 7] 0 1 =
    .ok (gather [0, 1, 2, 3, 4, 5, 6, 7] ((⟨⟨1, 5⟩, 2, 2, 3⟩ : VW).mapCells (swapRowsG 0 1))) :=
  (C13_swap_rows_default .release ⟨⟨1, 5⟩, 2, 2, 3⟩ [0, 1, 2, 3, 4, 5, 6, 7]
    ⟨by decide, by decide, by decide, by decide, by decide, by decide⟩ _
    ⟨rfl, rfl, ⟨by decide, by decide, by decide, by decide, by decide⟩, rfl⟩ 0 1 (by decide)).1 (by decide)
/-- non-vacuity of `C13_swap_owned`: `swap` on a concrete 3x2 array, in range (evaluated) and out of range -/
example : TD.swap .debug (⟨[1, 2, 3, 4, 5, 6], 2, 3⟩ : TD Nat) 0 0 2 1 = .ok [6, 2, 3, 4, 5, 1] ∧
    TD.swap .release (⟨[1, 2, 3, 4, 5, 6], 2, 3⟩ : TD Nat) 0 0 3 1 = .error .panic := by
  refine ⟨?_, (C13_swap_owned .release _ ⟨rfl, by decide, by decide⟩ 0 0 3 1 (by decide)).2 (by decide)⟩
  rw [(C13_swap_owned .debug (⟨[1, 2, 3, 4, 5, 6], 2, 3⟩ : TD Nat) ⟨rfl, by decide, by decide⟩ 0 0 2 1 (by decide)).1
    (by decide)]
  rfl

end Toodee
