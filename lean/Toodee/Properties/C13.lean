import Toodee.Spec.Cells
/-
  C13 — Swap and fill primitives change exactly the named cells.

  Three implementors: the `TooDee` overrides (`TD.swap`, `TD.swapRows`, `TD.fill`), the `TooDeeViewMut::swap_rows`
  override (`VW.swapRows`), and the trait defaults (`Acc.*`, used by views for everything else and by third-party types
  for everything).  For each: in-range arguments give exactly the stated exchange (as a cell permutation of the receiver,
  hence every other cell of the root buffer unchanged; equal names give the identity); any out-of-range index — and
  `r1 = r2` for `row_pair_mut` — panics; never `ub`; both build modes; all indices `< 2^64`.
-/
namespace Toodee
variable {α : Type}

/-- cell permutation "exchange cells a and b" -/
def swapCellG (a b : Nat × Nat) : Nat × Nat → Nat × Nat := fun cr => if cr = a then b else if cr = b then a else cr
/-- cell permutation "exchange rows r1 and r2" -/
def swapRowsG (r1 r2 : Nat) : Nat × Nat → Nat × Nat := fun cr => (cr.1, swapIdx r1 r2 cr.2)
/-- cell permutation "exchange columns c1 and c2" -/
def swapColsG (c1 c2 : Nat) : Nat × Nat → Nat × Nat := fun cr => (swapIdx c1 c2 cr.1, cr.2)

/-! ### swap (two cells) -/

theorem C13_swap_owned (m : Mode) (t : TD α) (h : t.Inv) (c1 r1 c2 r2 : Nat)
    (hw : c1 < WORD ∧ r1 < WORD ∧ c2 < WORD ∧ r2 < WORD) :
    ((c1 < t.numCols ∧ c2 < t.numCols ∧ r1 < t.numRows ∧ r2 < t.numRows) →
      t.swap m c1 r1 c2 r2 = .ok (gather t.data (t.asView.mapCells (swapCellG (c1, r1) (c2, r2))))) ∧
    (¬ (c1 < t.numCols ∧ c2 < t.numCols ∧ r1 < t.numRows ∧ r2 < t.numRows) →
      t.swap m c1 r1 c2 r2 = .error .panic) := by
  sorry

theorem C13_swap_default (m : Mode) (v : VW) (buf : List α) (h : v.Inv buf.length) (a : Acc) (ha : a.Of v buf.length)
    (c1 r1 c2 r2 : Nat) (hw : c1 < WORD ∧ r1 < WORD ∧ c2 < WORD ∧ r2 < WORD) :
    ((c1 < v.numCols ∧ c2 < v.numCols ∧ r1 < v.numRows ∧ r2 < v.numRows) →
      a.swap m buf (c1, r1) (c2, r2) = .ok (gather buf (v.mapCells (swapCellG (c1, r1) (c2, r2))))) ∧
    (¬ (c1 < v.numCols ∧ c2 < v.numCols ∧ r1 < v.numRows ∧ r2 < v.numRows) →
      a.swap m buf (c1, r1) (c2, r2) = .error .panic) := by
  sorry

/-! ### swap_rows -/

theorem C13_swap_rows_owned (m : Mode) (t : TD α) (h : t.Inv) (r1 r2 : Nat) (hw : r1 < WORD ∧ r2 < WORD) :
    ((r1 < t.numRows ∧ r2 < t.numRows) →
      t.swapRows m r1 r2 = .ok (gather t.data (t.asView.mapCells (swapRowsG r1 r2)))) ∧
    (¬ (r1 < t.numRows ∧ r2 < t.numRows) → t.swapRows m r1 r2 = .error .panic) := by
  sorry

theorem C13_swap_rows_view (m : Mode) (v : VW) (buf : List α) (h : v.Inv buf.length) (r1 r2 : Nat)
    (hw : r1 < WORD ∧ r2 < WORD) :
    ((r1 < v.numRows ∧ r2 < v.numRows) →
      v.swapRows m buf r1 r2 = .ok (gather buf (v.mapCells (swapRowsG r1 r2)))) ∧
    (¬ (r1 < v.numRows ∧ r2 < v.numRows) → v.swapRows m buf r1 r2 = .error .panic) := by
  sorry

theorem C13_swap_rows_default (m : Mode) (v : VW) (buf : List α) (h : v.Inv buf.length) (a : Acc)
    (ha : a.Of v buf.length) (r1 r2 : Nat) (hw : r1 < WORD ∧ r2 < WORD) :
    ((r1 < v.numRows ∧ r2 < v.numRows) →
      a.swapRows m buf r1 r2 = .ok (gather buf (v.mapCells (swapRowsG r1 r2)))) ∧
    (¬ (r1 < v.numRows ∧ r2 < v.numRows) → a.swapRows m buf r1 r2 = .error .panic) := by
  sorry

/-! ### swap_cols (never overridden) -/

theorem C13_swap_cols (v : VW) (buf : List α) (h : v.Inv buf.length) (a : Acc) (ha : a.Of v buf.length)
    (c1 c2 : Nat) :
    ((c1 < v.numCols ∧ c2 < v.numCols) →
      a.swapCols buf c1 c2 = .ok (gather buf (v.mapCells (swapColsG c1 c2)))) ∧
    (¬ (c1 < v.numCols ∧ c2 < v.numCols) → a.swapCols buf c1 c2 = .error .panic) := by
  sorry

/-! ### row_pair_mut (never overridden) -/

theorem C13_row_pair (m : Mode) (v : VW) (n : Nat) (h : v.Inv n) (a : Acc) (ha : a.Of v n)
    (r1 r2 : Nat) (hw : r1 < WORD ∧ r2 < WORD) :
    ((r1 < v.numRows ∧ r2 < v.numRows ∧ r1 ≠ r2) →
      a.rowPairMut m r1 r2 = .ok (v.rowWin r1, v.rowWin r2) ∧ Win.Disjoint (v.rowWin r1) (v.rowWin r2)) ∧
    (¬ (r1 < v.numRows ∧ r2 < v.numRows ∧ r1 ≠ r2) → a.rowPairMut m r1 r2 = .error .panic) := by
  sorry

/-! ### fill -/

theorem C13_fill_owned (t : TD α) (h : t.Inv) (x : α) :
    t.fill x = t.asView.updCells t.data (fun _ => some x) ∧ t.fill x = List.replicate t.data.length x := by
  sorry

theorem C13_fill_default (v : VW) (buf : List α) (h : v.Inv buf.length) (a : Acc) (ha : a.Of v buf.length) (x : α) :
    a.fill buf x = .ok (v.updCells buf (fun _ => some x)) := by
  sorry

/-! ### the accessor of each implementor satisfies `Acc.Of` -/

theorem C13_acc_owned (t : TD α) (h : t.Inv) : t.acc.Of t.asView t.data.length := by
  sorry

theorem C13_acc_view (m : Mode) (v : VW) (n : Nat) (h : v.Inv n) : ∃ a, v.acc m = .ok a ∧ a.Of v n := by
  sorry

end Toodee
